package main

// C18 — rendering a document template changes only its placeholders.
//
// Exhaustive enumeration (shard engine) of base documents built with the library API (and, where
// the API cannot express the shape, opened from a package written by the independent `foreign`
// writer), rendered with LoadTemplateFromDocument + RenderTemplateToDocument.  The oracle reads
// ToBytes of a pristine twin of the base and of the rendered document with the independent reader
// and compares them structurally; the expected text of every paragraph is the base text with an
// independent string replacement of the placeholders.

import (
	"bytes"
	"fmt"
	"os"
	"path/filepath"
	"sort"
	"strings"
	"time"

	"github.com/zerx-lab/wordZero/pkg/document"

	"verif/harness/internal/foreign"
	"verif/harness/internal/pkgmodel"
	"verif/harness/internal/rep"
	"verif/harness/internal/shard"
)

func init() {
	register("C18", "model_checking", runC18)
	shard.Register("C18", c18Worker)
}

// ---------------------------------------------------------------------------
// alphabet

// run formats: index 0 = no format; every run of a base paragraph gets a different one
var c18Fmts = []*document.TextFormat{
	nil,
	{Bold: true}, {Italic: true}, {Underline: true}, {Strike: true}, {FontColor: "FF0000"}, {FontSize: 14}, {Highlight: "yellow"}, {FontFamily: "Arial"},
	{Bold: true, Italic: true}, {FontColor: "0000FF", FontSize: 9}, {Underline: true, Highlight: "green"},
}

// the same formats as w:rPr content for the parts written by the foreign writer
var c18FmtXML = []string{
	"",
	"<w:b/>", "<w:i/>", `<w:u w:val="single"/>`, "<w:strike/>", `<w:color w:val="FF0000"/>`, `<w:sz w:val="28"/>`, `<w:highlight w:val="yellow"/>`, `<w:rFonts w:ascii="Arial" w:hAnsi="Arial"/>`,
	"<w:b/><w:i/>", `<w:color w:val="0000FF"/><w:sz w:val="18"/>`, `<w:u w:val="single"/><w:highlight w:val="green"/>`,
}

// c18R is one run of a base paragraph: text ('t'), page break ('b') or drawing ('d').
type c18R struct {
	K byte
	T string
	F int
}

const c18PH = "{{name}}"

var c18Positions = []string{"alone", "before-same", "before-own", "after-same", "after-own", "both-same", "two-after", "two-before", "two-adjacent"}
var c18Locations = []string{"body", "cell", "nested", "header", "footer", "header-api", "footer-api"}
var c18SurrNames = []string{"plain", "br-before", "br-after", "br-same-run", "keepNext", "border", "tabs", "outline", "pflags", "pfmt", "bookmark", "section", "extrapart", "drawing", "tablerich", "all"}

// data classes for {{name}}; {{other}} always has the value "Z2"
var c18DataNames = []string{"plain", "meta", "entity", "ctrl", "braces", "multiline", "empty", "missing"}

func c18DataValue(class string) (string, bool) {
	switch class {
	case "plain":
		return "Alice", true
	case "meta":
		return `<&>"'`, true
	case "entity":
		// text that is spelled like character references: it is text, and must arrive as exactly these characters
		return "AT&amp;T &lt;b&gt; &#65;", true
	case "ctrl":
		return "a\x01b", true
	case "braces":
		return "{{other}}", true
	case "multiline":
		return "l1\nl2", true
	case "empty":
		return "", true
	}
	return "", false
}

type c18S struct {
	BrBefore, BrAfter, KeepNext, Border, Tabs, Outline, PFlags, PFmt, Bookmark, Section, Extra, Drawing, TableRich, BrSame bool
}

func c18Surr(name string) c18S {
	switch name {
	case "br-before":
		return c18S{BrBefore: true}
	case "br-after":
		return c18S{BrAfter: true}
	case "br-same-run":
		return c18S{BrSame: true}
	case "keepNext":
		return c18S{KeepNext: true}
	case "border":
		return c18S{Border: true}
	case "tabs":
		return c18S{Tabs: true}
	case "outline":
		return c18S{Outline: true}
	case "pflags":
		return c18S{PFlags: true}
	case "pfmt":
		return c18S{PFmt: true}
	case "bookmark":
		return c18S{Bookmark: true}
	case "section":
		return c18S{Section: true}
	case "extrapart":
		return c18S{Extra: true}
	case "drawing":
		return c18S{Drawing: true}
	case "tablerich":
		return c18S{TableRich: true}
	case "all":
		return c18S{true, true, true, true, true, true, true, true, true, true, true, true, true, true}
	}
	return c18S{}
}

// c18Case is one enumerated case (also its replay description).
type c18Case struct {
	Kind string `json:"kind"` // var | loop | image
	Surr string `json:"surroundings,omitempty"`
	Loc  string `json:"location,omitempty"`
	Pos  string `json:"position,omitempty"`
	Seg  int    `json:"segmentation_mask"` // bit i set = run boundary after byte i of {{name}}
	Data string `json:"data,omitempty"`
	// loop
	RowPos   string `json:"template_row,omitempty"`
	Items    int    `json:"items"`
	CellRuns string `json:"cell_runs,omitempty"`
	OtherRow bool   `json:"placeholder_in_other_row,omitempty"`
	Inner    bool   `json:"nested_table_in_loop_row,omitempty"` // the loop row's second cell also carries a 1x1 table with an item placeholder
	// image
	Neigh string `json:"neighbours,omitempty"`
	// Entry: "" = LoadTemplateFromDocument on a TemplateEngine with the document built in memory;
	// "renderer-file" = the base is saved to a file and goes through TemplateRenderer.LoadTemplateFromFile,
	// AnalyzeTemplate and RenderTemplate (the pristine copy is the same file opened again)
	Entry string `json:"entry,omitempty"`
}

func (c c18Case) String() string {
	if c.Entry != "" {
		e := c.Entry
		c.Entry = ""
		return c.String() + " entry=" + e
	}
	switch c.Kind {
	case "var":
		return fmt.Sprintf("var surr=%s loc=%s pos=%s seg=%s data=%s", c.Surr, c.Loc, c.Pos, c18SegString(c.Seg), c.Data)
	case "loop":
		return fmt.Sprintf("loop loc=%s row=%s items=%d cells=%s otherRowPlaceholder=%v nestedTableInLoopRow=%v data=%s", c.Loc, c.RowPos, c.Items, c.CellRuns, c.OtherRow, c.Inner, c.Data)
	}
	return fmt.Sprintf("image loc=%s pos=%s runs=%s neighbours=%s data=%s", c.Loc, c.Pos, c.CellRuns, c.Neigh, c.Data)
}

func c18Frags(seg int) []string {
	var fr []string
	cur := ""
	for i := 0; i < len(c18PH); i++ {
		cur += c18PH[i : i+1]
		if i == len(c18PH)-1 || seg&(1<<uint(i)) != 0 {
			fr = append(fr, cur)
			cur = ""
		}
	}
	return fr
}

func c18SegString(seg int) string { return strings.Join(c18Frags(seg), "|") }

// c18VarRuns returns the text runs of the placeholder paragraph: fragment j of {{name}} has format 1+j,
// own runs before/after have formats 9/10.
func c18VarRuns(seg int, pos string) []c18R {
	var runs []c18R
	for j, f := range c18Frags(seg) {
		runs = append(runs, c18R{'t', f, 1 + j})
	}
	last := len(runs) - 1
	switch pos {
	case "before-same":
		runs[0].T = "ab " + runs[0].T
	case "before-own":
		runs = append([]c18R{{'t', "ab ", 9}}, runs...)
	case "after-same":
		runs[last].T += " cd"
	case "after-own":
		runs = append(runs, c18R{'t', " cd", 10})
	case "both-same":
		runs[0].T = "ab " + runs[0].T
		runs[len(runs)-1].T += " cd"
	case "two-after":
		runs[last].T += "-{{other}}"
	case "two-before":
		runs[0].T = "{{other}}:" + runs[0].T
	case "two-adjacent":
		runs = append(runs, c18R{'t', "{{other}}", 10})
	}
	return runs
}

func c18RunsText(runs []c18R) string {
	s := ""
	for _, r := range runs {
		if r.K == 't' {
			s += r.T
		}
	}
	return s
}

var c18PNG = pngBytes(5, 4, 18)
var c18PNG2 = pngBytes(3, 6, 81)

// ---------------------------------------------------------------------------
// building base documents with the library API

type c18B struct {
	doc  *document.Document
	errs []string
}

func (b *c18B) e(err error) {
	if err != nil {
		b.errs = append(b.errs, err.Error())
	}
}

// drawingRun adds a picture through the API and returns its run (the paragraph the API created for it is taken out again).
func (b *c18B) drawingRun(data []byte, name string) (document.Run, bool) {
	n := len(b.doc.Body.Elements)
	_, err := b.doc.AddImageFromData(data, name, document.ImageFormatPNG, 5, 4, nil)
	b.e(err)
	if err != nil || len(b.doc.Body.Elements) != n+1 {
		return document.Run{}, false
	}
	p, ok := b.doc.Body.Elements[n].(*document.Paragraph)
	b.doc.Body.Elements = b.doc.Body.Elements[:n]
	if !ok || len(p.Runs) == 0 {
		return document.Run{}, false
	}
	return p.Runs[0], true
}

// para builds a paragraph from run specs and applies the paragraph-level surroundings.
func (b *c18B) para(runs []c18R, s c18S) *document.Paragraph {
	p := &document.Paragraph{}
	if s.BrBefore {
		p.AddPageBreak()
	}
	if s.Drawing {
		if r, ok := b.drawingRun(c18PNG, "inline.png"); ok {
			p.Runs = append(p.Runs, r)
		}
	}
	for _, r := range runs {
		switch r.K {
		case 't':
			p.AddFormattedText(r.T, c18Fmts[r.F])
		case 'b':
			p.AddPageBreak()
		}
	}
	if s.BrSame && len(p.Runs) > 0 && p.Runs[len(p.Runs)-1].Text.Content != "" {
		// a run that carries text and a page break (what Open produces for <w:r><w:t>..</w:t><w:br/></w:r>)
		p.Runs[len(p.Runs)-1].Break = &document.Break{Type: "page"}
	}
	if s.BrAfter {
		p.AddPageBreak()
	}
	if s.PFmt {
		p.SetStyle("Heading2")
		p.SetSpacing(&document.SpacingConfig{LineSpacing: 1.5, BeforePara: 6, AfterPara: 3})
		p.SetIndentation(0.5, 1, 0.25)
		p.SetAlignment(document.AlignRight)
	}
	if s.KeepNext {
		p.SetKeepWithNext(true)
	}
	if s.PFlags {
		p.SetKeepLines(true)
		p.SetPageBreakBefore(true)
		p.SetWidowControl(true)
		p.SetSnapToGrid(false)
	}
	if s.Border {
		p.SetBorder(&document.ParagraphBorderConfig{Style: document.BorderStyleSingle, Size: 12, Color: "000000", Space: 1}, nil,
			&document.ParagraphBorderConfig{Style: document.BorderStyleDouble, Size: 6, Color: "FF0000", Space: 2}, nil)
	}
	if s.Outline {
		p.SetOutlineLevel(2)
	}
	if s.Tabs {
		if p.Properties == nil {
			p.Properties = &document.ParagraphProperties{}
		}
		p.Properties.Tabs = &document.Tabs{Tabs: []document.TabDef{{Val: "left", Pos: "1440"}, {Val: "right", Leader: "dot", Pos: "8640"}}}
	}
	return p
}

func c18bc(s document.BorderStyle, w int, col string) *document.BorderConfig {
	return &document.BorderConfig{Style: s, Width: w, Color: col}
}

// richTable sets table, row and cell properties of every kind the API offers (t is at least 2x2).
func (b *c18B) richTable(t *document.Table, merge bool) {
	b.e(t.SetTableAlignment(document.TableAlignRight))
	b.e(t.ApplyTableStyle(&document.TableStyleConfig{Template: document.TableStyleTemplateGrid, FirstRowHeader: true, BandedRows: true}))
	b.e(t.SetTableBorders(&document.TableBorderConfig{Top: c18bc(document.BorderStyleThick, 12, "FF0000"), Left: c18bc(document.BorderStyleDouble, 6, "00FF00"),
		Bottom: c18bc(document.BorderStyleDotted, 4, "0000FF"), Right: c18bc(document.BorderStyleDashed, 8, "111111"),
		InsideH: c18bc(document.BorderStyleSingle, 2, "222222"), InsideV: c18bc(document.BorderStyleSingle, 3, "333333")}))
	b.e(t.SetTableShading(&document.ShadingConfig{Pattern: document.ShadingPatternPct25, ForegroundColor: "FF0000", BackgroundColor: "FFFF00"}))
	b.e(t.SetRowHeight(0, &document.RowHeightConfig{Height: 20, Rule: document.RowHeightExact}))
	b.e(t.SetRowAsHeader(0, true))
	b.e(t.SetRowKeepTogether(1, true))
	rows := t.GetRowCount()
	b.e(t.SetCellShading(rows-1, 0, &document.ShadingConfig{Pattern: document.ShadingPatternClear, ForegroundColor: "00FF00", BackgroundColor: "0000FF"}))
	b.e(t.SetCellBorders(rows-1, 0, &document.CellBorderConfig{Top: c18bc(document.BorderStyleThick, 12, "FF0000"), Left: c18bc(document.BorderStyleDouble, 6, "00FF00"),
		DiagDown: c18bc(document.BorderStyleSingle, 2, "222222")}))
	b.e(t.SetCellTextDirection(rows-1, 0, document.TextDirectionTB))
	b.e(t.SetCellFormat(0, 0, &document.CellFormat{VerticalAlign: document.CellVAlignCenter, BackgroundColor: "EEEEEE"}))
	if merge && t.GetColumnCount() >= 3 {
		b.e(t.MergeCellsHorizontal(0, 1, 2))
	}
}

func c18Grid(rows, cols int, prefix string) [][]string {
	var d [][]string
	for i := 0; i < rows; i++ {
		var r []string
		for j := 0; j < cols; j++ {
			r = append(r, fmt.Sprintf("%s%d%d", prefix, i, j))
		}
		d = append(d, r)
	}
	return d
}

func (b *c18B) setCell(t *document.Table, row, col int, ps ...*document.Paragraph) {
	cell, err := t.GetCell(row, col)
	b.e(err)
	if err != nil {
		return
	}
	cell.Paragraphs = nil
	for _, p := range ps {
		cell.Paragraphs = append(cell.Paragraphs, *p)
	}
}

func (b *c18B) section() {
	b.e(b.doc.SetPageSettings(&document.PageSettings{Size: document.PageSizeA5, Orientation: document.OrientationLandscape, MarginTop: 20, MarginRight: 15, MarginBottom: 20, MarginLeft: 30,
		HeaderDistance: 10, FooterDistance: 8, GutterWidth: 5, DocGridType: document.DocGridLines, DocGridLinePitch: 312}))
	b.e(b.doc.AddHeader(document.HeaderFooterTypeFirst, "first page header"))
	b.e(b.doc.AddFooter(document.HeaderFooterTypeEven, "even footer"))
	b.doc.SetDifferentFirstPage(true)
}

// ---------------------------------------------------------------------------
// foreign seeds (header/footer with split runs, extra parts and relationships)

func c18RunsXML(runs []c18R) string {
	var b strings.Builder
	for _, r := range runs {
		b.WriteString("<w:r>")
		if x := c18FmtXML[r.F]; x != "" {
			b.WriteString("<w:rPr>" + x + "</w:rPr>")
		}
		switch r.K {
		case 't':
			b.WriteString(`<w:t xml:space="preserve">` + r.T + `</w:t>`)
		case 'T':
			b.WriteString(`<w:t xml:space="preserve">` + r.T + `</w:t><w:br w:type="page"/>`)
		case 'b':
			b.WriteString(`<w:br w:type="page"/>`)
		}
		b.WriteString("</w:r>")
	}
	return b.String()
}

func c18ParaXML(runs []c18R, s c18S) string {
	ppr := ""
	if s.PFmt {
		ppr += `<w:pStyle w:val="Heading2"/>`
	}
	if s.KeepNext {
		ppr += `<w:keepNext/>`
	}
	if s.PFlags {
		ppr += `<w:keepLines/><w:pageBreakBefore/><w:widowControl/>`
	}
	if s.Border {
		ppr += `<w:pBdr><w:top w:val="single" w:sz="12" w:space="1" w:color="000000"/></w:pBdr>`
	}
	if s.Tabs {
		ppr += `<w:tabs><w:tab w:val="left" w:pos="1440"/></w:tabs>`
	}
	if s.PFlags {
		ppr += `<w:snapToGrid w:val="0"/>`
	}
	if s.PFmt {
		ppr += `<w:spacing w:before="120" w:after="60"/><w:ind w:left="567"/><w:jc w:val="right"/>`
	}
	if s.Outline {
		ppr += `<w:outlineLvl w:val="2"/>`
	}
	x := "<w:p>"
	if ppr != "" {
		x += "<w:pPr>" + ppr + "</w:pPr>"
	}
	if s.Bookmark {
		x += `<w:bookmarkStart w:id="3" w:name="hb"/>`
	}
	var rs []c18R
	if s.BrBefore {
		rs = append(rs, c18R{K: 'b'})
	}
	rs = append(rs, runs...)
	if s.BrSame && len(rs) > 0 && rs[len(rs)-1].K == 't' {
		last := rs[len(rs)-1]
		last.K = 'T'
		rs = append(append([]c18R{}, rs[:len(rs)-1]...), last)
	}
	if s.BrAfter {
		rs = append(rs, c18R{K: 'b'})
	}
	x += c18RunsXML(rs)
	if s.Bookmark {
		x += `<w:bookmarkEnd w:id="3"/>`
	}
	return x + "</w:p>"
}

const c18Decl = `<?xml version="1.0" encoding="UTF-8" standalone="yes"?>` + "\n"

// c18Seed writes a third-party-like package.  hf = "header" | "footer" | "": the part that carries hfPara.
func c18Seed(hf, hfPara string, s c18S) []byte {
	p := foreign.New()
	sect := ""
	if hf == "header" {
		p.Add("word/header1.xml", []byte(c18Decl+`<w:hdr xmlns:w="`+foreign.NsW+`" xmlns:r="`+foreign.NsR+`"><w:p><w:r><w:t>static line</w:t></w:r></w:p>`+hfPara+`</w:hdr>`))
		p.Overrides["/word/header1.xml"] = foreign.CtHeader
		p.DocRels = append(p.DocRels, foreign.Rel{ID: "rId7", Type: foreign.NsR + "/header", Target: "header1.xml"})
		sect += `<w:headerReference w:type="default" r:id="rId7"/>`
	}
	if hf == "footer" {
		p.Add("word/footer1.xml", []byte(c18Decl+`<w:ftr xmlns:w="`+foreign.NsW+`" xmlns:r="`+foreign.NsR+`">`+hfPara+`<w:p><w:r><w:t>static line</w:t></w:r></w:p></w:ftr>`))
		p.Overrides["/word/footer1.xml"] = foreign.CtFooter
		p.DocRels = append(p.DocRels, foreign.Rel{ID: "rId8", Type: foreign.NsR + "/footer", Target: "footer1.xml"})
		sect += `<w:footerReference w:type="default" r:id="rId8"/>`
	}
	sect += `<w:pgSz w:w="11906" w:h="16838"/><w:pgMar w:top="1440" w:right="1800" w:bottom="1440" w:left="1800" w:header="851" w:footer="992" w:gutter="0"/>`
	if s.Section {
		sect += `<w:cols w:space="425" w:num="2"/><w:titlePg/><w:pgNumType w:fmt="lowerRoman"/><w:docGrid w:type="lines" w:linePitch="312"/>`
	}
	p.Add(p.DocName, foreign.DocXML("w", foreign.Para("seed paragraph")+`<w:sectPr>`+sect+`</w:sectPr>`))
	if s.Extra {
		p.RootRels = []foreign.Rel{
			{ID: "rId1", Type: foreign.NsR + "/officeDocument", Target: p.DocName},
			{ID: "rId2", Type: "http://schemas.openxmlformats.org/package/2006/relationships/metadata/core-properties", Target: "docProps/core.xml"},
			{ID: "rId3", Type: foreign.NsR + "/extended-properties", Target: "docProps/app.xml"},
			{ID: "rId4", Type: foreign.NsR + "/custom-properties", Target: "docProps/custom.xml"},
		}
		p.Add("docProps/core.xml", []byte(c18Decl+`<cp:coreProperties xmlns:cp="http://schemas.openxmlformats.org/package/2006/metadata/core-properties" xmlns:dc="http://purl.org/dc/elements/1.1/"><dc:title>seed title</dc:title></cp:coreProperties>`))
		p.Overrides["/docProps/core.xml"] = foreign.CtCore
		p.Add("docProps/app.xml", []byte(c18Decl+`<Properties xmlns="http://schemas.openxmlformats.org/officeDocument/2006/extended-properties"><Application>Seed</Application></Properties>`))
		p.Overrides["/docProps/app.xml"] = foreign.CtApp
		p.Add("docProps/custom.xml", []byte(c18Decl+`<Properties xmlns="http://schemas.openxmlformats.org/officeDocument/2006/custom-properties"/>`))
		p.Overrides["/docProps/custom.xml"] = "application/vnd.openxmlformats-officedocument.custom-properties+xml"
		p.Add("customXml/item1.xml", []byte(c18Decl+`<data xmlns="urn:c18"><v>{{name}}</v></data>`))
		p.DocRels = append(p.DocRels, foreign.Rel{ID: "rId21", Type: foreign.NsR + "/customXml", Target: "../customXml/item1.xml"})
		p.Add("word/media/unused.bin", []byte{0, 1, 2, 3, '{', '{', 'n', 'a', 'm', 'e', '}', '}', 255})
		p.Defaults["bin"] = "application/octet-stream"
		p.DocRels = append(p.DocRels, foreign.Rel{ID: "rId22", Type: "urn:c18:blob", Target: "media/unused.bin"})
		p.DocRels = append(p.DocRels, foreign.Rel{ID: "rId23", Type: foreign.NsR + "/hyperlink", Target: "http://example.com/?a={{name}}", External: true})
	}
	return p.Bytes()
}

// ---------------------------------------------------------------------------
// case builders.  Every builder is deterministic: it is run twice per case, once for the
// document that is rendered and once for the pristine twin the oracle reads.

func c18Open(seed []byte) (*document.Document, string) {
	var d *document.Document
	var err error
	if p := guard(func() { d, err = document.OpenFromMemory(nopCloser{bytes.NewReader(seed)}) }); p != "" {
		return nil, "open panic: " + p
	}
	if err != nil {
		return nil, "open: " + err.Error()
	}
	return d, ""
}

func c18IsTableLoc(loc string) bool { return loc == "cell" || loc == "nested" }

// place puts the paragraphs ps at the location: body, a cell of a 3x3 table, or a cell of a table nested in a 2x2 table.
func (b *c18B) place(loc string, s c18S, ps ...*document.Paragraph) {
	switch loc {
	case "cell":
		t, err := b.doc.AddTable(&document.TableConfig{Rows: 3, Cols: 3, Width: 9000, Data: c18Grid(3, 3, "c")})
		b.e(err)
		if err != nil {
			return
		}
		if s.TableRich {
			b.richTable(t, true)
		}
		if s.Drawing {
			_, err := b.doc.AddCellImageFromData(t, 0, 0, c18PNG2, 10)
			b.e(err)
		}
		b.setCell(t, 1, 1, ps...)
	case "nested":
		t, err := b.doc.AddTable(&document.TableConfig{Rows: 2, Cols: 2, Width: 9000, Data: c18Grid(2, 2, "o")})
		b.e(err)
		if err != nil {
			return
		}
		n, err := t.AddNestedTable(1, 0, &document.TableConfig{Rows: 2, Cols: 2, Width: 3000, Data: c18Grid(2, 2, "n")})
		b.e(err)
		if err != nil {
			return
		}
		if s.TableRich {
			b.richTable(t, false)
			b.richTable(n, false)
		}
		b.setCell(n, 0, 1, ps...)
	default:
		for _, p := range ps {
			b.doc.Body.AddElement(p)
		}
	}
}

// frame builds everything around the located content.
func (b *c18B) frame(loc string, s c18S, content func()) {
	b.doc.AddFormattedParagraph("intro", &document.TextFormat{Bold: true})
	if s.Bookmark {
		b.doc.Body.AddElement(&document.BookmarkStart{ID: "7", Name: "bm7"})
	}
	content()
	if s.Bookmark {
		b.doc.Body.AddElement(&document.BookmarkEnd{ID: "7"})
	}
	if s.Drawing {
		_, err := b.doc.AddImageFromData(c18PNG2, "neighbour.png", document.ImageFormatPNG, 3, 6, nil)
		b.e(err)
	}
	if s.TableRich && !c18IsTableLoc(loc) {
		t, err := b.doc.AddTable(&document.TableConfig{Rows: 3, Cols: 3, Width: 9000, Data: c18Grid(3, 3, "r")})
		b.e(err)
		if err == nil {
			b.richTable(t, true)
		}
	}
	b.doc.AddFormattedParagraph("outro", &document.TextFormat{Italic: true})
}

func c18BuildVar(cs c18Case) (*c18B, string) {
	s := c18Surr(cs.Surr)
	runs := c18VarRuns(cs.Seg, cs.Pos)
	b := &c18B{}
	foreignHF := cs.Loc == "header" || cs.Loc == "footer"
	if foreignHF || s.Extra {
		hf, hp := "", ""
		if foreignHF {
			hf, hp = cs.Loc, c18ParaXML(runs, s)
		}
		d, why := c18Open(c18Seed(hf, hp, s))
		if d == nil {
			return nil, why
		}
		b.doc = d
	} else {
		b.doc = document.New()
	}
	static := []c18R{{'t', "body ", 1}, {'t', "text", 2}}
	b.frame(cs.Loc, s, func() {
		switch cs.Loc {
		case "body", "cell", "nested":
			b.place(cs.Loc, s, b.para(runs, s))
		default:
			b.place("body", s, b.para(static, s))
		}
	})
	switch cs.Loc {
	case "header-api":
		b.e(b.doc.AddHeader(document.HeaderFooterTypeDefault, c18RunsText(runs)))
	case "footer-api":
		b.e(b.doc.AddFooter(document.HeaderFooterTypeDefault, c18RunsText(runs)))
	}
	if s.Section && !foreignHF {
		b.section()
	}
	return b, ""
}

func c18VarData(cs c18Case) *document.TemplateData {
	td := document.NewTemplateData()
	if v, ok := c18DataValue(cs.Data); ok {
		td.SetVariable("name", v)
	}
	td.SetVariable("other", "Z2")
	return td
}

// ---- table row loop

var c18RowPositions = []string{"first", "middle", "last"}

func c18LoopItem(i int, data string) map[string]string {
	if data == "meta" {
		return map[string]string{"a": fmt.Sprintf(`<&%d>`, i), "b": fmt.Sprintf(`"B%d'`, i)}
	}
	return map[string]string{"a": fmt.Sprintf("A%d", i), "b": fmt.Sprintf("B%d", i)}
}

func c18BuildLoop(cs c18Case) (*c18B, string) {
	b := &c18B{doc: document.New()}
	s := c18S{}
	fill := func(t *document.Table) {
		tr := map[string]int{"first": 0, "middle": 1, "last": 2}[cs.RowPos]
		var c0, c1 []c18R
		if cs.CellRuns == "single" {
			c0 = []c18R{{'t', "{{#each items}}{{a}}", 1}}
			c1 = []c18R{{'t', "{{b}}{{/each}}", 2}}
		} else {
			c0 = []c18R{{'t', "{{#each items}}", 1}, {'t', "No ", 2}, {'t', "{{a}}", 3}}
			c1 = []c18R{{'t', "{{b}}", 4}, {'t', " end", 5}, {'t', "{{/each}}", 6}}
		}
		b.setCell(t, tr, 0, b.para(c0, c18S{PFmt: true}))
		b.setCell(t, tr, 1, b.para(c1, s))
		b.e(t.SetRowHeight(tr, &document.RowHeightConfig{Height: 18, Rule: document.RowHeightMinimum}))
		b.e(t.SetRowKeepTogether(tr, true))
		b.e(t.SetCellShading(tr, 1, &document.ShadingConfig{Pattern: document.ShadingPatternClear, ForegroundColor: "auto", BackgroundColor: "DDDDDD"}))
		if cs.Inner {
			in, err := t.AddNestedTable(tr, 1, &document.TableConfig{Rows: 1, Cols: 1, Width: 1200})
			b.e(err)
			if err == nil {
				b.setCell(in, 0, 0, b.para([]c18R{{'t', "in {{a}}", 3}, {'t', " of {{b}}", 0}}, s))
			}
		}
		if cs.OtherRow {
			or := (tr + 1) % 3
			b.setCell(t, or, 1, b.para([]c18R{{'t', "by {{name}}", 7}}, s))
		}
	}
	b.frame(cs.Loc, s, func() {
		if cs.Loc == "nested" {
			t, err := b.doc.AddTable(&document.TableConfig{Rows: 2, Cols: 2, Width: 9000, Data: c18Grid(2, 2, "o")})
			b.e(err)
			if err != nil {
				return
			}
			n, err := t.AddNestedTable(0, 1, &document.TableConfig{Rows: 3, Cols: 2, Width: 4000, Data: c18Grid(3, 2, "n")})
			b.e(err)
			if err == nil {
				fill(n)
			}
			return
		}
		t, err := b.doc.AddTable(&document.TableConfig{Rows: 3, Cols: 2, Width: 9000, Data: c18Grid(3, 2, "t")})
		b.e(err)
		if err == nil {
			fill(t)
		}
	})
	return b, ""
}

func c18LoopData(cs c18Case) *document.TemplateData {
	td := document.NewTemplateData()
	items := []interface{}{}
	for i := 0; i < cs.Items; i++ {
		m := map[string]interface{}{}
		for k, v := range c18LoopItem(i, cs.Data) {
			m[k] = v
		}
		items = append(items, m)
	}
	td.SetList("items", items)
	td.SetVariable("name", "Alice")
	return td
}

// ---- image placeholder

const c18ImgPH = "{{#image pic}}"

var c18ImgPositions = []string{"alone", "before", "after", "both"}
var c18ImgRuns = []string{"single", "split", "own-runs"}
var c18ImgNeigh = []string{"none", "paragraphs", "base-pictures"}
var c18ImgLocs = []string{"body", "cell", "nested"}

func c18ImgRunSpec(pos, runs string) []c18R {
	before, after := "", ""
	if pos == "before" || pos == "both" {
		before = "ab "
	}
	if pos == "after" || pos == "both" {
		after = " cd"
	}
	switch runs {
	case "split":
		return []c18R{{'t', before + "{{#image", 1}, {'t', " pi", 2}, {'t', "c}}" + after, 3}}
	case "own-runs":
		var rs []c18R
		if before != "" {
			rs = append(rs, c18R{'t', before, 1})
		}
		rs = append(rs, c18R{'t', c18ImgPH, 2})
		if after != "" {
			rs = append(rs, c18R{'t', after, 3})
		}
		return rs
	}
	return []c18R{{'t', before + c18ImgPH + after, 1}}
}

func c18BuildImage(cs c18Case) (*c18B, string) {
	b := &c18B{doc: document.New()}
	s := c18S{}
	b.frame(cs.Loc, s, func() {
		ps := []*document.Paragraph{b.para(c18ImgRunSpec(cs.Pos, cs.CellRuns), c18S{PFmt: true})}
		if cs.Neigh == "paragraphs" {
			ps = []*document.Paragraph{b.para([]c18R{{'t', "above", 4}}, c18S{KeepNext: true}), ps[0], b.para([]c18R{{'t', "below {{name}}", 5}}, s)}
		}
		b.place(cs.Loc, s, ps...)
	})
	if cs.Neigh == "base-pictures" {
		// the base document has pictures of its own, in the format of the supplied picture and in another one, after
		// the placeholder: they must still show their own bytes in the rendered document (seed C18-c1)
		_, err := b.doc.AddImageFromData(pngBytes(3, 2, 77), "base.png", document.ImageFormatPNG, 3, 2, nil)
		b.e(err)
		_, err = b.doc.AddImageFromData(jpegBytes(4, 2, 78), "base.jpeg", document.ImageFormatJPEG, 4, 2, nil)
		b.e(err)
	}
	return b, ""
}

func c18ImageData(cs c18Case) *document.TemplateData {
	td := document.NewTemplateData()
	if cs.Data == "given" {
		td.SetImageFromData("pic", c18PNG, nil)
	}
	td.SetVariable("name", "Alice")
	return td
}

func c18Build(cs c18Case) (*c18B, *document.TemplateData, string) {
	var b *c18B
	var why string
	var td *document.TemplateData
	if p := guard(func() {
		switch cs.Kind {
		case "var":
			b, why = c18BuildVar(cs)
			td = c18VarData(cs)
		case "loop":
			b, why = c18BuildLoop(cs)
			td = c18LoopData(cs)
		default:
			b, why = c18BuildImage(cs)
			td = c18ImageData(cs)
		}
		// the data set that is rendered is one of two the caller derived from a common set with Merge; the other
		// one gets more and other values afterwards.  Nothing of that may show in this render.
		if td != nil {
			common := td
			td = document.NewTemplateData()
			td.Merge(common)
			sibling := document.NewTemplateData()
			sibling.Merge(common)
			for _, n := range []string{"name", "other", "missing", "reviewer", "a", "b"} {
				sibling.SetVariable(n, "LEAKED-FROM-A-SIBLING-DATA-SET")
			}
			sibling.SetList("items", []interface{}{map[string]interface{}{"a": "LEAK", "b": "LEAK"}})
			sibling.SetCondition("c", true)
			common.SetVariable("later", "LEAKED-FROM-THE-COMMON-SET")
		}
	}); p != "" {
		return nil, nil, "build panic: " + p
	}
	return b, td, why
}

// ---------------------------------------------------------------------------
// independent model of a saved package: names, canonical property strings, paragraph items

var c18Prefix = map[string]string{
	pkgmodel.NsW: "w", pkgmodel.NsR: "r", pkgmodel.NsA: "a", pkgmodel.NsWP: "wp", pkgmodel.NsPic: "pic", pkgmodel.NsM: "m", pkgmodel.NsXML: "xml",
}

func c18QN(space, local string) string {
	if space == "" {
		return local
	}
	if p, ok := c18Prefix[space]; ok {
		return p + ":" + local
	}
	return "{" + space + "}" + local
}

func c18Name(n *pkgmodel.Node) string {
	if n == nil {
		return "nil"
	}
	if n.IsText {
		return "#text"
	}
	return c18QN(n.Space, n.Local)
}

func c18Verbatim(n *pkgmodel.Node) bool {
	if n.Space != pkgmodel.NsW && n.Space != pkgmodel.NsM {
		return false
	}
	return n.Local == "t" || n.Local == "instrText" || n.Local == "delText"
}

// property containers: the order of their members carries no meaning
func c18PropContainer(n *pkgmodel.Node) bool {
	if n.Space != pkgmodel.NsW {
		return false
	}
	switch n.Local {
	case "pBdr", "tblBorders", "tcBorders", "tblCellMar", "tcMar":
		return true
	}
	return strings.HasSuffix(n.Local, "Pr")
}

// c18Canon is a canonical string of a subtree (resolved names, sorted attributes, indentation dropped).
func c18Canon(n *pkgmodel.Node) string {
	var b strings.Builder
	c18CanonInto(&b, n)
	return b.String()
}

func c18CanonInto(b *strings.Builder, n *pkgmodel.Node) {
	if n == nil {
		return
	}
	if n.IsText {
		fmt.Fprintf(b, "%q", n.Text)
		return
	}
	b.WriteString("<" + c18Name(n))
	var as []string
	for _, a := range n.Attrs {
		as = append(as, fmt.Sprintf(" %s=%q", c18QN(a.Space, a.Local), a.Val))
	}
	sort.Strings(as)
	b.WriteString(strings.Join(as, ""))
	var kids []string
	for _, k := range n.Kids {
		if k.IsText && (k.Text == "" || (!c18Verbatim(n) && strings.TrimSpace(k.Text) == "")) {
			continue
		}
		var kb strings.Builder
		c18CanonInto(&kb, k)
		kids = append(kids, kb.String())
	}
	if c18PropContainer(n) {
		sort.Strings(kids)
	}
	if len(kids) == 0 {
		b.WriteString("/>")
		return
	}
	b.WriteString(">" + strings.Join(kids, "") + "</>")
}

// c18Members returns property name -> canonical content (repeated members are concatenated in order).
func c18Members(n *pkgmodel.Node) map[string]string {
	m := map[string]string{}
	if n == nil {
		return m
	}
	for _, a := range n.Attrs {
		if a.Space == "xmlns" || a.Local == "xmlns" {
			continue
		}
		m["@"+c18QN(a.Space, a.Local)] = a.Val
	}
	for _, k := range n.Elems() {
		m[c18Name(k)] += c18Canon(k)
	}
	return m
}

// c18Item is one unit of paragraph content in document order: a text byte or a non-text element.
type c18Item struct {
	Tok  string // canonical element ("" for a text byte)
	Name string // element name of the token
	Ch   byte
	Fmt  string // canonical run properties (+ xml:space of the w:t)
}

func c18RunFmt(r *pkgmodel.Node) string {
	rpr := r.Child(pkgmodel.NsW, "rPr")
	if rpr == nil {
		return ""
	}
	var ks []string
	for _, k := range rpr.Elems() {
		ks = append(ks, c18Canon(k))
	}
	sort.Strings(ks)
	return strings.Join(ks, "")
}

// c18Items flattens a w:p.  A w:br without type (line break) counts as the character '\n'.
func c18Items(p *pkgmodel.Node) []c18Item {
	var out []c18Item
	for _, k := range p.Elems() {
		if k.Space == pkgmodel.NsW && k.Local == "pPr" {
			continue
		}
		if !(k.Space == pkgmodel.NsW && k.Local == "r") {
			out = append(out, c18Item{Tok: c18Canon(k), Name: c18Name(k)})
			continue
		}
		f := c18RunFmt(k)
		for _, c := range k.Elems() {
			if c.Space == pkgmodel.NsW && c.Local == "rPr" {
				continue
			}
			if c.Space == pkgmodel.NsW && c.Local == "t" {
				sp, _ := c.Attr(pkgmodel.NsXML, "space")
				fk := f
				if sp != "" {
					fk += "\x00space=" + sp
				}
				txt := c.InnerText()
				for i := 0; i < len(txt); i++ {
					out = append(out, c18Item{Ch: txt[i], Fmt: fk})
				}
				continue
			}
			if c.Space == pkgmodel.NsW && c.Local == "br" {
				if t := c.AttrW("type"); t == "" || t == "textWrapping" {
					out = append(out, c18Item{Ch: '\n', Fmt: f + "\x00br"})
					continue
				}
			}
			out = append(out, c18Item{Tok: c18Canon(c), Name: c18Name(c), Fmt: f})
		}
	}
	return out
}

func c18Text(items []c18Item) string {
	b := make([]byte, 0, len(items))
	for _, it := range items {
		if it.Tok == "" {
			b = append(b, it.Ch)
		}
	}
	return string(b)
}

// c18ResolveRefs replaces r:id / r:embed / r:link values below n by what they resolve to in pkg
// (relationships of part `owner`): header/footer targets by type and part name (their content may
// legitimately change), everything else by type and content hash.
func c18ResolveRefs(pkg *pkgmodel.Pkg, owner string, n *pkgmodel.Node) {
	rels := pkg.Rels[pkgmodel.RelsNameFor(owner)]
	n.Walk(func(m *pkgmodel.Node) {
		for i, a := range m.Attrs {
			if a.Space != pkgmodel.NsR || !(a.Local == "id" || a.Local == "embed" || a.Local == "link") {
				continue
			}
			res := "unresolved"
			for _, r := range rels {
				if r.ID != a.Val {
					continue
				}
				st := shortRelType18(r.Type)
				switch {
				case r.Mode == "External":
					res = "external:" + st + ":" + r.Target
				case st == "header" || st == "footer":
					res = st + ":" + r.Resolved
					if _, ok := pkg.Parts[r.Resolved]; !ok {
						res = "missing-target:" + st
					}
				default:
					if data, ok := pkg.Parts[r.Resolved]; ok {
						res = st + ":bytes:" + rep.Hash(string(data))
					} else {
						res = "missing-target:" + st
					}
				}
				break
			}
			m.Attrs[i].Val = "->" + res
		}
	})
}

func shortRelType18(t string) string {
	if i := strings.LastIndex(t, "/"); i >= 0 {
		return t[i+1:]
	}
	return t
}

// ---------------------------------------------------------------------------
// reference substitution

type c18Sub struct {
	Vars map[string]string // placeholders that have data
	Drop []string          // directive texts that disappear (row loop markers)
}

func c18IsIdent(c byte) bool {
	return c == '_' || c >= '0' && c <= '9' || c >= 'a' && c <= 'z' || c >= 'A' && c <= 'Z'
}

// c18ScanPH: if t[i:] starts with a variable placeholder {{ident}}, return its name and length.
func c18ScanPH(t string, i int) (string, int) {
	if !strings.HasPrefix(t[i:], "{{") {
		return "", 0
	}
	j := i + 2
	for j < len(t) && c18IsIdent(t[j]) {
		j++
	}
	if j == i+2 || !strings.HasPrefix(t[j:], "}}") {
		return "", 0
	}
	return t[i+2 : j], j + 2 - i
}

type c18Exp struct {
	c18Item
	Class   string          // static | value | kept-placeholder | token
	Allowed map[string]bool // formats allowed for a value / kept placeholder character
	Wild    bool            // a control character of the value: any replacement is accepted
}

type c18PHInfo struct {
	Name    string
	HasData bool
	Value   string
	Split   bool // its characters lie in more than one run format
}

func c18ValueClass(v string) string {
	switch {
	case v == "":
		return "empty"
	case strings.IndexFunc(v, func(r rune) bool { return r < 0x20 && r != '\n' && r != '\t' && r != '\r' }) >= 0:
		return "control-char"
	case strings.Contains(v, "{{"):
		return "braces"
	case strings.Contains(v, "&amp;") || strings.Contains(v, "&#"):
		return "entity-like"
	case strings.ContainsAny(v, `<&>"'`):
		return "xml-metachar"
	case strings.Contains(v, "\n"):
		return "multi-line"
	}
	return "plain"
}

// c18Expect computes the expected content of a paragraph from the base paragraph's items.
func c18Expect(base []c18Item, sub c18Sub) ([]c18Exp, []c18PHInfo) {
	t := c18Text(base)
	// per text position: 0 static, 1 deleted, 2+k first byte of placeholder k, -1 inside a placeholder
	act := make([]int, len(t))
	type span struct {
		name       string
		start, end int
	}
	var spans []span
	for i := 0; i < len(t); {
		dropped := false
		for _, d := range sub.Drop {
			if strings.HasPrefix(t[i:], d) {
				for k := i; k < i+len(d); k++ {
					act[k] = 1
				}
				i += len(d)
				dropped = true
				break
			}
		}
		if dropped {
			continue
		}
		if name, n := c18ScanPH(t, i); n > 0 {
			act[i] = 2 + len(spans)
			for k := i + 1; k < i+n; k++ {
				act[k] = -1
			}
			spans = append(spans, span{name, i, i + n})
			i += n
			continue
		}
		i++
	}
	// formats of the characters of each placeholder
	pos := 0
	fmts := make([]map[string]bool, len(spans))
	for i := range fmts {
		fmts[i] = map[string]bool{}
	}
	charFmt := make([]string, 0, len(t))
	for _, it := range base {
		if it.Tok == "" {
			charFmt = append(charFmt, it.Fmt)
		}
	}
	var infos []c18PHInfo
	for k, sp := range spans {
		for i := sp.start; i < sp.end; i++ {
			fmts[k][charFmt[i]] = true
		}
		v, ok := sub.Vars[sp.name]
		infos = append(infos, c18PHInfo{Name: sp.name, HasData: ok, Value: v, Split: len(fmts[k]) > 1})
	}
	var out []c18Exp
	for _, it := range base {
		if it.Tok != "" {
			out = append(out, c18Exp{c18Item: it, Class: "token"})
			continue
		}
		a := act[pos]
		switch {
		case a == 0:
			out = append(out, c18Exp{c18Item: it, Class: "static"})
		case a == 1:
		case a >= 2:
			k := a - 2
			if infos[k].HasData {
				v := infos[k].Value
				for i := 0; i < len(v); i++ {
					wild := v[i] < 0x20 && v[i] != '\n' && v[i] != '\t' && v[i] != '\r'
					out = append(out, c18Exp{c18Item: c18Item{Ch: v[i]}, Class: "value", Allowed: fmts[k], Wild: wild})
				}
			} else {
				out = append(out, c18Exp{c18Item: it, Class: "kept-placeholder", Allowed: fmts[k]})
			}
		default: // inside a placeholder
			k := 0
			for j, sp := range spans {
				if pos >= sp.start && pos < sp.end {
					k = j
				}
			}
			if !infos[k].HasData {
				out = append(out, c18Exp{c18Item: it, Class: "kept-placeholder", Allowed: fmts[k]})
			}
		}
		pos++
	}
	return out, infos
}

// ---------------------------------------------------------------------------
// the oracle

type c18O struct {
	cs         c18Case
	base, rend *pkgmodel.Pkg
	viol       []rep.Violation
	imgHash    string // expected resolution of the drawing that replaces the image placeholder
	facts      map[string]bool
}

func (o *c18O) add(sig, what string, exp, got interface{}) {
	cl := sig
	if i := strings.Index(sig, "|"); i >= 0 {
		cl = sig[:i]
	}
	o.viol = append(o.viol, rep.Violation{Sig: sig, Clause: cl, What: what, Expect: exp, Got: got})
}

func c18Loc(where string, depth int) string {
	if where != "" {
		return where
	}
	switch {
	case depth == 0:
		return "body"
	case depth == 1:
		return "cell"
	}
	return "nested"
}

// props compares two property containers member by member.
func (o *c18O) props(b, r *pkgmodel.Node, cname, loc, prefix string) {
	mb, mr := c18Members(b), c18Members(r)
	var names []string
	for k := range mb {
		names = append(names, k)
	}
	for k := range mr {
		if _, ok := mb[k]; !ok {
			names = append(names, k)
		}
	}
	sort.Strings(names)
	for _, k := range names {
		vb, inB := mb[k]
		vr, inR := mr[k]
		switch {
		case inB && !inR:
			o.add(prefix+"dropped|"+cname+"/"+k+"|"+loc, fmt.Sprintf("%s of a %s paragraph/table/section of the base document is missing after rendering", cname+"/"+k, loc), vb, nil)
		case !inB && inR:
			o.add(prefix+"added|"+cname+"/"+k+"|"+loc, fmt.Sprintf("%s appears in the rendered document but not in the base document (%s)", cname+"/"+k, loc), nil, vr)
		case vb != vr:
			o.add(prefix+"changed|"+cname+"/"+k+"|"+loc, fmt.Sprintf("%s differs between base and rendered document (%s)", cname+"/"+k, loc), vb, vr)
		}
	}
}

func c18FmtBase(f string) string {
	if i := strings.IndexByte(f, 0); i >= 0 {
		return f[:i]
	}
	return f
}

// fmtDiff names the run properties that differ between two format keys.
func c18FmtDiff(want, got string) string {
	split := func(s string) map[string]bool {
		m := map[string]bool{}
		rest := s
		if i := strings.IndexByte(s, 0); i >= 0 {
			m["xml:space"+s[i+1:]] = true
			rest = s[:i]
		}
		for _, p := range strings.Split(rest, "<") {
			if p != "" {
				m["<"+p] = true
			}
		}
		return m
	}
	nameOf := func(x string) string {
		x = strings.TrimPrefix(x, "<")
		if i := strings.IndexAny(x, " />="); i >= 0 {
			x = x[:i]
		}
		return x
	}
	a, b := split(want), split(got)
	set := map[string]bool{}
	for k := range a {
		if !b[k] {
			set["-"+nameOf(k)] = true
		}
	}
	for k := range b {
		if !a[k] {
			set["+"+nameOf(k)] = true
		}
	}
	var ns []string
	for k := range set {
		ns = append(ns, k)
	}
	sort.Strings(ns)
	plus, minus := false, false
	for _, n := range ns {
		if n[0] == '+' {
			plus = true
		} else {
			minus = true
		}
	}
	if plus && minus {
		return "format-of-another-run"
	}
	if len(ns) > 3 {
		ns = append(ns[:3], "…")
	}
	return strings.Join(ns, ",")
}

// content compares the flattened content of the rendered paragraph(s) with the expectation.
func (o *c18O) content(exp []c18Exp, infos []c18PHInfo, got []c18Item, loc, prefix, state string) {
	et := make([]byte, 0, len(exp))
	wildAt := -1
	nw := 0
	for _, e := range exp {
		if e.Tok != "" {
			continue
		}
		if e.Wild {
			nw++
			wildAt = len(et)
		}
		et = append(et, e.Ch)
	}
	eText, gText := string(et), c18Text(got)
	ok := eText == gText
	mid := ""
	if !ok && nw == 1 {
		pre, suf := eText[:wildAt], eText[wildAt+1:]
		if len(gText) >= len(pre)+len(suf) && strings.HasPrefix(gText, pre) && strings.HasSuffix(gText, suf) {
			ok = true
			mid = gText[len(pre) : len(gText)-len(suf)]
			o.facts["control-char rendered as "+fmt.Sprintf("%q", mid)] = true
		}
	}
	if !ok {
		reported := false
		for _, ph := range infos {
			lit := "{{" + ph.Name + "}}"
			if ph.HasData && strings.Contains(gText, lit) && !strings.Contains(eText, lit) {
				seg := "single-run"
				if ph.Split {
					seg = "split-runs"
				}
				o.add(prefix+"not-replaced|"+seg+"|"+loc, fmt.Sprintf("placeholder %s has data but is still in the rendered text of a %s paragraph", lit, loc), eText, gText)
				reported = true
			}
			if !ph.HasData && !strings.Contains(gText, lit) {
				o.add(prefix+"placeholder-vanished|missing-data|"+loc, fmt.Sprintf("placeholder %s has no data but is no longer visible in the rendered %s paragraph", lit, loc), eText, gText)
				reported = true
			}
		}
		if !reported {
			cls := "no-value"
			for _, ph := range infos {
				if ph.HasData && (cls == "no-value" || cls == "plain") {
					cls = c18ValueClass(ph.Value)
				}
			}
			o.add(prefix+"text-wrong|value="+cls+"|"+loc, fmt.Sprintf("rendered text of a %s paragraph is not the base text with the placeholders substituted", loc), eText, gText)
		}
		return
	}
	// materialise the accepted replacement of a control character
	if nw == 1 {
		var e2 []c18Exp
		for _, e := range exp {
			if e.Tok == "" && e.Wild {
				for i := 0; i < len(mid); i++ {
					e2 = append(e2, c18Exp{c18Item: c18Item{Ch: mid[i]}, Class: "value", Allowed: e.Allowed})
				}
				continue
			}
			e2 = append(e2, e)
		}
		exp = e2
	}
	// non-text content: same elements, same places
	cnt := map[string]int{}
	name := map[string]string{}
	for _, e := range exp {
		if e.Tok != "" {
			cnt[e.Tok]++
			name[e.Tok] = e.Name
		}
	}
	for _, g := range got {
		if g.Tok != "" {
			cnt[g.Tok]--
			name[g.Tok] = g.Name
		}
	}
	var toks []string
	for k := range cnt {
		toks = append(toks, k)
	}
	sort.Strings(toks)
	bad := false
	for _, k := range toks {
		if cnt[k] > 0 {
			o.add(prefix+"run-content-lost|"+name[k]+"|"+state+"|"+loc, fmt.Sprintf("a %s element of a %s paragraph (%s) of the base document is missing after rendering", name[k], loc, state), k, nil)
			bad = true
		}
		if cnt[k] < 0 {
			o.add(prefix+"run-content-added|"+name[k]+"|"+loc, fmt.Sprintf("a %s element appears in a rendered %s paragraph that the base paragraph does not have", name[k], loc), nil, k)
			bad = true
		}
	}
	if bad || len(exp) != len(got) {
		return
	}
	for i := range exp {
		if exp[i].Tok != got[i].Tok {
			n := exp[i].Name
			if n == "" {
				n = got[i].Name
			}
			o.add(prefix+"run-content-moved|"+n+"|"+loc, fmt.Sprintf("a %s element of a %s paragraph is at another position relative to the text after rendering", n, loc), nil, nil)
			return
		}
	}
	// formatting, character by character
	seen := map[string]bool{}
	for i := range exp {
		e, g := exp[i], got[i]
		if e.Allowed == nil {
			want, have := e.Fmt, g.Fmt
			if e.Tok == "" && e.Ch == '\n' {
				want, have = c18FmtBase(want), c18FmtBase(have)
			}
			if want != have {
				sig := prefix + "format-changed|" + e.Class + "|" + c18FmtDiff(want, have) + "|" + loc
				if !seen[sig] {
					seen[sig] = true
					o.add(sig, fmt.Sprintf("run formatting of %s content of a %s paragraph changed by rendering", e.Class, loc), want, have)
				}
			}
			continue
		}
		okf := e.Allowed[g.Fmt]
		if !okf && g.Ch == '\n' {
			for a := range e.Allowed {
				if c18FmtBase(a) == c18FmtBase(g.Fmt) {
					okf = true
				}
			}
		}
		if !okf {
			var al []string
			for a := range e.Allowed {
				al = append(al, a)
			}
			sort.Strings(al)
			sig := prefix + "format-changed|" + e.Class + "|not-a-format-of-the-placeholder|" + loc
			if !seen[sig] {
				seen[sig] = true
				o.add(sig, fmt.Sprintf("%s characters of a %s paragraph carry a run format that none of the placeholder's runs had", e.Class, loc), al, g.Fmt)
			}
		}
	}
}

func c18ParaText(p *pkgmodel.Node) string { return c18Text(c18Items(p)) }

func (o *c18O) para(b, r *pkgmodel.Node, loc string, sub c18Sub, prefix string) {
	o.props(b.Child(pkgmodel.NsW, "pPr"), r.Child(pkgmodel.NsW, "pPr"), "w:pPr", loc, prefix)
	bi := c18Items(b)
	exp, infos := c18Expect(bi, sub)
	state := "paragraph-without-substitution"
	if len(exp) != len(bi) {
		state = "paragraph-with-substitution"
	} else {
		for i := range exp {
			if exp[i].Tok != bi[i].Tok || exp[i].Ch != bi[i].Ch {
				state = "paragraph-with-substitution"
				break
			}
		}
	}
	o.content(exp, infos, c18Items(r), loc, prefix, state)
}

func c18Blocks(n *pkgmodel.Node) []*pkgmodel.Node {
	var out []*pkgmodel.Node
	for _, k := range n.Elems() {
		if k.Space == pkgmodel.NsW && (k.Local == "tcPr" || k.Local == "sectPr") {
			continue
		}
		out = append(out, k)
	}
	return out
}

func (o *c18O) globalSub() c18Sub {
	vars := map[string]string{}
	switch o.cs.Kind {
	case "var":
		if v, ok := c18DataValue(o.cs.Data); ok {
			vars["name"] = v
		}
		vars["other"] = "Z2"
	default:
		vars["name"] = "Alice"
	}
	return c18Sub{Vars: vars}
}

// blocks compares two block lists (body, cell, header, footer).
func (o *c18O) blocks(bk, rk []*pkgmodel.Node, where string, depth int, prefix string) {
	loc := c18Loc(where, depth)
	extra := len(rk) - len(bk)
	j := 0
	for _, b := range bk {
		if j >= len(rk) {
			o.add(prefix+"structure|"+c18Name(b)+"-missing|"+loc, fmt.Sprintf("the %s content has fewer blocks after rendering (%d instead of %d)", loc, len(rk), len(bk)), len(bk), len(rk))
			return
		}
		if o.cs.Kind == "image" && c18Name(b) == "w:p" && strings.Contains(c18ParaText(b), c18ImgPH) {
			n := 1 + extra
			if n < 1 || j+n > len(rk) {
				o.add("structure|image-paragraph|"+loc, "the paragraph with the image placeholder has no counterpart", len(bk), len(rk))
				return
			}
			o.imagePara(b, rk[j:j+n], loc)
			j += n
			extra = 0
			continue
		}
		r := rk[j]
		j++
		if c18Name(b) != c18Name(r) {
			o.add(prefix+"structure|order|"+loc, fmt.Sprintf("block %d of the %s content is a %s in the base document and a %s after rendering", j-1, loc, c18Name(b), c18Name(r)), c18Name(b), c18Name(r))
			return
		}
		switch c18Name(b) {
		case "w:p":
			o.para(b, r, loc, o.globalSub(), prefix)
		case "w:tbl":
			o.table(b, r, where, depth+1)
		default:
			if c18Canon(b) != c18Canon(r) {
				o.add(prefix+"changed|"+c18Name(b)+"|"+loc, fmt.Sprintf("a %s element of the %s content differs after rendering", c18Name(b), loc), c18Canon(b), c18Canon(r))
			}
		}
	}
	if j < len(rk) {
		o.add(prefix+"structure|"+c18Name(rk[j])+"-added|"+loc, fmt.Sprintf("the %s content has more blocks after rendering (%d instead of %d)", loc, len(rk), len(bk)), len(bk), len(rk))
	}
}

func c18RowIsLoop(row *pkgmodel.Node) bool {
	for _, c := range row.Children(pkgmodel.NsW, "tc") {
		for _, p := range c.Children(pkgmodel.NsW, "p") {
			if strings.Contains(c18ParaText(p), "{{#each ") {
				return true
			}
		}
	}
	return false
}

func (o *c18O) row(b, r *pkgmodel.Node, where string, depth int, sub *c18Sub, prefix string) {
	loc := c18Loc(where, depth)
	o.props(b.Child(pkgmodel.NsW, "trPr"), r.Child(pkgmodel.NsW, "trPr"), "w:trPr", loc, prefix)
	bc, rc := b.Children(pkgmodel.NsW, "tc"), r.Children(pkgmodel.NsW, "tc")
	if len(bc) != len(rc) {
		o.add(prefix+"structure|cell-count|"+loc, "a table row has another number of cells after rendering", len(bc), len(rc))
		return
	}
	for i := range bc {
		o.props(bc[i].Child(pkgmodel.NsW, "tcPr"), rc[i].Child(pkgmodel.NsW, "tcPr"), "w:tcPr", loc, prefix)
		if sub == nil {
			o.blocks(c18Blocks(bc[i]), c18Blocks(rc[i]), where, depth, prefix)
			continue
		}
		// a row generated from the loop template row: paragraphs only
		bp, rp := c18Blocks(bc[i]), c18Blocks(rc[i])
		if len(bp) != len(rp) {
			o.add(prefix+"structure|cell-content|"+loc, "a generated row has another number of blocks in a cell than the template row", len(bp), len(rp))
			continue
		}
		for k := range bp {
			if c18Name(bp[k]) == "w:p" && c18Name(rp[k]) == "w:p" {
				o.para(bp[k], rp[k], loc, *sub, prefix)
			}
			if c18Name(bp[k]) == "w:tbl" && c18Name(rp[k]) == "w:tbl" {
				// a table inside a cell of the loop row is generated once per item, with that item's values
				o.itemTable(bp[k], rp[k], loc, sub, prefix)
			} else if c18Name(bp[k]) != c18Name(rp[k]) {
				o.add(prefix+"structure|cell-content|"+loc, "a generated row has another kind of block in a cell than the template row", c18Name(bp[k]), c18Name(rp[k]))
			}
		}
	}
}

// itemTable compares a table nested in the loop row with its copy in a generated row: same shape,
// every paragraph substituted with the item's values.
func (o *c18O) itemTable(b, r *pkgmodel.Node, loc string, sub *c18Sub, prefix string) {
	br, rr := b.Children(pkgmodel.NsW, "tr"), r.Children(pkgmodel.NsW, "tr")
	if len(br) != len(rr) {
		o.add(prefix+"structure|nested-table-in-loop-row|"+loc, "a table nested in the loop row has another number of rows in a generated row", len(br), len(rr))
		return
	}
	for i := range br {
		bc, rc := br[i].Children(pkgmodel.NsW, "tc"), rr[i].Children(pkgmodel.NsW, "tc")
		if len(bc) != len(rc) {
			o.add(prefix+"structure|nested-table-in-loop-row|"+loc, "a table nested in the loop row has another number of cells in a generated row", len(bc), len(rc))
			return
		}
		for j := range bc {
			bp, rp := c18Blocks(bc[j]), c18Blocks(rc[j])
			if len(bp) != len(rp) {
				o.add(prefix+"structure|nested-table-in-loop-row|"+loc, "a cell of a table nested in the loop row has another number of blocks in a generated row", len(bp), len(rp))
				continue
			}
			for k := range bp {
				if c18Name(bp[k]) == "w:p" && c18Name(rp[k]) == "w:p" {
					o.para(bp[k], rp[k], loc, *sub, prefix+"nested-in-row|")
				}
			}
		}
	}
}

func (o *c18O) table(b, r *pkgmodel.Node, where string, depth int) {
	loc := c18Loc(where, depth)
	o.props(b.Child(pkgmodel.NsW, "tblPr"), r.Child(pkgmodel.NsW, "tblPr"), "w:tblPr", loc, "")
	if gb, gr := c18Canon(b.Child(pkgmodel.NsW, "tblGrid")), c18Canon(r.Child(pkgmodel.NsW, "tblGrid")); gb != gr {
		o.add("changed|w:tbl/w:tblGrid|"+loc, "the column grid of a table differs after rendering", gb, gr)
	}
	br, rr := b.Children(pkgmodel.NsW, "tr"), r.Children(pkgmodel.NsW, "tr")
	tmpl := -1
	if o.cs.Kind == "loop" {
		for i, row := range br {
			if c18RowIsLoop(row) {
				tmpl = i
				break
			}
		}
	}
	if tmpl < 0 {
		if len(br) != len(rr) {
			o.add("structure|row-count|"+loc, "a table without a loop row has another number of rows after rendering", len(br), len(rr))
			return
		}
		for i := range br {
			o.row(br[i], rr[i], where, depth, nil, "")
		}
		return
	}
	n := o.cs.Items
	if len(rr) != len(br)-1+n {
		o.add(fmt.Sprintf("row-loop|row-count|items=%d", n), fmt.Sprintf("a table with a loop row and %d other rows has %d rows after rendering with %d items", len(br)-1, len(rr), n), len(br)-1+n, len(rr))
		return
	}
	for i := 0; i < tmpl; i++ {
		o.row(br[i], rr[i], where, depth, nil, "row-loop|other-row|")
	}
	for k := 0; k < n; k++ {
		sub := c18Sub{Vars: c18LoopItem(k, o.cs.Data), Drop: []string{"{{#each items}}", "{{/each}}"}}
		o.row(br[tmpl], rr[tmpl+k], where, depth, &sub, "row-loop|item-row|")
	}
	for i := tmpl + 1; i < len(br); i++ {
		o.row(br[i], rr[i-1+n], where, depth, nil, "row-loop|other-row|")
	}
}

// imagePara judges the paragraph(s) that replace the paragraph with the image placeholder.
func (o *c18O) imagePara(b *pkgmodel.Node, rs []*pkgmodel.Node, loc string) {
	if o.cs.Data != "given" {
		o.facts["image placeholder without data: not judged"] = true
		return
	}
	items := c18Items(b)
	t := c18Text(items)
	at := strings.Index(t, c18ImgPH)
	var exp []c18Exp
	pos := 0
	for _, it := range items {
		if it.Tok != "" {
			exp = append(exp, c18Exp{c18Item: it, Class: "token"})
			continue
		}
		if pos == at {
			exp = append(exp, c18Exp{c18Item: c18Item{Tok: "IMAGE", Name: "w:drawing"}, Class: "token"})
		}
		if pos < at || pos >= at+len(c18ImgPH) {
			exp = append(exp, c18Exp{c18Item: it, Class: "static"})
		}
		pos++
	}
	var got []c18Item
	pictures := 0
	for _, r := range rs {
		if c18Name(r) != "w:p" {
			o.add("structure|image-paragraph|"+loc, "the image placeholder paragraph was replaced by something that is not a paragraph", "w:p", c18Name(r))
			return
		}
		its := c18Items(r)
		hasText := false
		for i := range its {
			if its[i].Name == "w:drawing" && strings.Contains(its[i].Tok, "->image:bytes:"+o.imgHash) {
				its[i].Tok = "IMAGE"
				its[i].Fmt = ""
				pictures++
			}
			if its[i].Tok == "" {
				hasText = true
			}
		}
		if hasText {
			o.props(b.Child(pkgmodel.NsW, "pPr"), r.Child(pkgmodel.NsW, "pPr"), "w:pPr", loc, "image-split|")
		}
		got = append(got, its...)
	}
	if pictures == 0 {
		if strings.Contains(c18Text(got), c18ImgPH) {
			o.add("image-not-replaced|"+loc, fmt.Sprintf("the image placeholder in a %s paragraph has data but is still text after rendering", loc), "picture", c18Text(got))
		} else {
			o.add("image-wrong|"+loc, fmt.Sprintf("no drawing that resolves to the supplied picture bytes replaces the image placeholder of a %s paragraph", loc), "picture", c18Text(got))
		}
		return
	}
	o.content(exp, nil, got, loc, "image-split|", "paragraph-with-substitution")
}

// parts compares everything outside the main document part and the header/footer parts.
func (o *c18O) parts() {
	names := append([]string{}, o.base.Names...)
	sort.Strings(names)
	mainB := o.base.MainPart()
	for _, n := range names {
		if strings.HasSuffix(n, "/") || n == mainB || n == "[Content_Types].xml" || strings.HasSuffix(n, ".rels") {
			continue
		}
		cls := pkgmodel.PartClass(n)
		rb, ok := o.rend.Parts[n]
		if !ok {
			o.add("part-lost|"+cls, fmt.Sprintf("part %s of the base document is not in the rendered package", n), n, nil)
			continue
		}
		if cb, cr := o.base.ContentTypeOf(n), o.rend.ContentTypeOf(n); cb != cr {
			o.add("content-type-changed|"+cls, fmt.Sprintf("part %s has content type %q in the base package and %q in the rendered one", n, cb, cr), cb, cr)
		}
		if root := o.base.XML[n]; root != nil && root.Space == pkgmodel.NsW && (root.Local == "hdr" || root.Local == "ftr") {
			continue // compared structurally
		}
		bb := o.base.Parts[n]
		if bytes.Equal(bb, rb) {
			continue
		}
		if n == "word/styles.xml" {
			if styleChunkHash(bb) == styleChunkHash(rb) && styleChunkHash(bb) != "" {
				continue
			}
		}
		if strings.HasPrefix(n, "docProps/") {
			if string(timeMaskRe.ReplaceAll(bb, []byte("${1}M${2}"))) == string(timeMaskRe.ReplaceAll(rb, []byte("${1}M${2}"))) {
				continue
			}
		}
		o.add("part-changed|"+cls, fmt.Sprintf("part %s of the base document has other content in the rendered package", n), len(bb), len(rb))
	}
	// relationships of the base package are kept (by type, target and mode)
	var rn []string
	for n := range o.base.Rels {
		rn = append(rn, n)
	}
	sort.Strings(rn)
	for _, n := range rn {
		have := map[string]int{}
		for _, r := range o.rend.Rels[n] {
			have[r.Type+"\x00"+r.Resolved+"\x00"+r.Target+"\x00"+r.Mode]++
		}
		owner := pkgmodel.OwnerOfRels(n)
		if owner == "" {
			owner = "package"
		} else {
			owner = pkgmodel.PartClass(owner)
		}
		for _, r := range o.base.Rels[n] {
			k := r.Type + "\x00" + r.Resolved + "\x00" + r.Target + "\x00" + r.Mode
			if have[k] > 0 {
				have[k]--
				continue
			}
			o.add("rel-lost|"+owner+"|"+shortRelType18(r.Type), fmt.Sprintf("relationship %s (%s -> %s) of %s is not in the rendered package", r.ID, shortRelType18(r.Type), r.Target, n), r, nil)
		}
	}
}

// headersFooters compares every w:hdr / w:ftr part structurally.
func (o *c18O) headersFooters() {
	var names []string
	for n, root := range o.base.XML {
		if root.Space == pkgmodel.NsW && (root.Local == "hdr" || root.Local == "ftr") {
			names = append(names, n)
		}
	}
	sort.Strings(names)
	for _, n := range names {
		where := "header"
		if o.base.XML[n].Local == "ftr" {
			where = "footer"
		}
		if len(o.rend.XMLProbs[n]) > 0 {
			continue // reported by the well-formedness clause
		}
		rr := o.rend.XML[n]
		if rr == nil {
			continue // part-lost
		}
		if rr.Local != o.base.XML[n].Local || rr.Space != pkgmodel.NsW {
			o.add("changed|root|"+where, "the root element of a header/footer part changed", c18Name(o.base.XML[n]), c18Name(rr))
			continue
		}
		o.blocks(c18Blocks(o.base.XML[n]), c18Blocks(rr), where, 0, "")
	}
}

// ---------------------------------------------------------------------------
// one case

type c18Result struct {
	viol          []rep.Violation
	outcome       string
	key           string
	nontriv       bool
	impure        bool
	purityChecked bool
	facts         []string
	harness       string
}

func c18Read(b []byte) *pkgmodel.Pkg {
	return pkgmodel.ReadFiltered(b, func(name string) bool {
		switch {
		case strings.HasSuffix(name, "/styles.xml"), strings.HasSuffix(name, "/settings.xml"), strings.HasSuffix(name, "/fontTable.xml"), strings.Contains(name, "/theme/"):
			return false
		}
		return true
	})
}

func c18ToBytes(d *document.Document) ([]byte, string) {
	var b []byte
	var err error
	if p := guard(func() { b, err = d.ToBytes() }); p != "" {
		return nil, "panic: " + p
	}
	if err != nil {
		return nil, "error: " + err.Error()
	}
	return b, ""
}

// c18Decoy: a library-built document with static headers and footers of all kinds, a table and a picture.
func c18Decoy() *document.Document {
	var d *document.Document
	if p := guard(func() {
		d = document.New()
		d.AddParagraph("decoy body")
		d.AddHeader(document.HeaderFooterTypeDefault, "static header")
		d.AddFooter(document.HeaderFooterTypeDefault, "static footer")
		d.AddHeader(document.HeaderFooterTypeFirst, "static first header")
		d.AddFooter(document.HeaderFooterTypeEven, "static even footer")
		if t, err := d.AddTable(&document.TableConfig{Rows: 1, Cols: 1, Width: 2000}); err == nil && t != nil {
			t.SetCellText(0, 0, "decoy cell")
		}
	}); p != "" {
		return nil
	}
	return d
}

func c18Exec(cs c18Case) (res c18Result) {
	document.VerifResetGlobals()
	a, td, why := c18Build(cs)
	if a == nil {
		res.harness = "cannot build the base document: " + why
		return
	}
	pristine, _, why := c18Build(cs)
	if pristine == nil {
		res.harness = "cannot build the base document twice: " + why
		return
	}
	if len(a.errs) > 0 {
		res.harness = "API error while building the base document: " + strings.Join(a.errs, "; ")
		return
	}
	add := func(sig, what string) {
		cl := sig
		if i := strings.Index(sig, "|"); i >= 0 {
			cl = sig[:i]
		}
		res.viol = append(res.viol, rep.Violation{Sig: sig, Clause: cl, What: what})
	}
	var rendered *document.Document
	var err error
	if cs.Entry == "renderer-file" {
		dir, e := os.MkdirTemp("", "vcheck-c18-")
		if e != nil {
			res.harness = e.Error()
			return
		}
		defer os.RemoveAll(dir)
		pa, pp := filepath.Join(dir, "template.docx"), filepath.Join(dir, "pristine.docx")
		if e1, e2 := a.doc.Save(pa), pristine.doc.Save(pp); e1 != nil || e2 != nil {
			res.harness = fmt.Sprintf("the base document cannot be saved to a file: %v %v", e1, e2)
			return
		}
		po, e := document.Open(pp)
		if e != nil {
			res.harness = "the saved base document cannot be opened: " + e.Error()
			return
		}
		pristine.doc = po
		if p := guard(func() {
			tr := document.NewTemplateRenderer()
			tr.SetLogging(false)
			if _, err = tr.LoadTemplateFromFile("t", pa); err != nil {
				return
			}
			tr.AnalyzeTemplate("t")
			rendered, err = tr.RenderTemplate("t", td)
		}); p != "" {
			add("render-panic|"+panicClass(p), "rendering through TemplateRenderer panics: "+p)
			res.outcome = "render-panic"
			return
		}
	} else if p := guard(func() {
		te := document.NewTemplateEngine()
		// the engine has been used before: another document template, whose header/footer parts have the usual
		// names but carry no placeholder, was loaded and rendered with the same data.  Nothing the engine learnt
		// from that template may be applied to this one (seed C18-d1).
		if decoy := c18Decoy(); decoy != nil {
			if _, e := te.LoadTemplateFromDocument("decoy", decoy); e == nil {
				te.RenderTemplateToDocument("decoy", td)
			}
		}
		if _, err = te.LoadTemplateFromDocument("t", a.doc); err != nil {
			return
		}
		rendered, err = te.RenderTemplateToDocument("t", td)
	}); p != "" {
		add("render-panic|"+panicClass(p), "rendering panics: "+p)
		res.outcome = "render-panic"
		return
	}
	if err != nil || rendered == nil {
		add("render-error|"+cs.Kind, fmt.Sprintf("rendering fails: %v", err))
		res.outcome = "render-error"
		return
	}
	baseBytes, e1 := c18ToBytes(pristine.doc)
	if e1 != "" {
		res.harness = "the base document cannot be saved: " + e1
		return
	}
	rendBytes, e2 := c18ToBytes(rendered)
	if e2 != "" {
		add("save-failed|rendered|"+c03ErrClass18(e2), "the rendered document cannot be saved: "+e2)
		res.outcome = "save-failed"
		return
	}
	o := &c18O{cs: cs, base: c18Read(baseBytes), rend: c18Read(rendBytes), imgHash: rep.Hash(string(c18PNG)), facts: map[string]bool{}}
	if probs := o.base.CheckWellFormed(); len(probs) > 0 {
		res.outcome = "base-not-well-formed (not judged)"
		res.facts = []string{"base package not well-formed: " + probs[0].String()}
		return
	}
	mainB, mainR := o.base.MainPart(), o.rend.MainPart()
	res.key = rep.Hash(string(o.base.Parts[mainB]), string(o.base.Parts["word/header1.xml"]), string(o.base.Parts["word/footer1.xml"]), cs.Data, fmt.Sprint(cs.Items))
	for _, p := range o.rend.CheckWellFormed() {
		sig := "malformed|" + p.Clause + "|" + p.Culprit
		if p.Clause == "xml-not-well-formed" && cs.Kind == "var" {
			if v, ok := c18DataValue(cs.Data); ok && c18ValueClass(v) == "control-char" {
				for n := range o.rend.XMLProbs {
					if root := o.base.XML[n]; root != nil && (root.Local == "hdr" || root.Local == "ftr") {
						sig = map[string]string{"hdr": "header", "ftr": "footer"}[root.Local] + "-malformed|control-char"
					}
				}
			}
		}
		o.add(sig, "the rendered package is not well-formed: "+p.String(), nil, p.Detail)
	}
	bb, rb := o.base.Body(), o.rend.Body()
	if bb == nil {
		res.harness = "the base package has no body"
		return
	}
	if rb == nil {
		if len(o.viol) == 0 {
			o.add("structure|no-body", "the rendered package has no w:body", nil, nil)
		}
	} else {
		c18ResolveRefs(o.base, mainB, bb)
		c18ResolveRefs(o.rend, mainR, rb)
		o.blocks(c18Blocks(bb), c18Blocks(rb), "", 0, "")
		sb, sr := bb.Child(pkgmodel.NsW, "sectPr"), rb.Child(pkgmodel.NsW, "sectPr")
		if sb != nil || sr != nil {
			o.props(sb, sr, "w:sectPr", "body", "")
		}
	}
	o.headersFooters()
	o.parts()
	res.viol = append(res.viol, o.viol...)
	// did rendering do anything?
	res.nontriv = !bytes.Equal(o.base.Parts[mainB], o.rend.Parts[mainR])
	for n, root := range o.base.XML {
		if root.Local == "hdr" || root.Local == "ftr" {
			if !bytes.Equal(o.base.Parts[n], o.rend.Parts[n]) {
				res.nontriv = true
			}
		}
	}
	// purity of the base object (property C17; recorded as a note only): the document that was
	// rendered from saves the same parts as its pristine twin
	if cs.Kind != "var" || cs.Data == "plain" {
		if after, e := c18ToBytes(a.doc); e == "" {
			res.purityChecked = true
			pa := pkgmodel.ReadFiltered(after, func(string) bool { return false })
			for n, want := range o.base.Parts {
				have, ok := pa.Parts[n]
				switch {
				case ok && bytes.Equal(have, want):
				case ok && n == "word/styles.xml" && styleChunkHash(have) != "" && styleChunkHash(have) == styleChunkHash(want):
				case ok && strings.HasPrefix(n, "docProps/") && bytes.Equal(timeMaskRe.ReplaceAll(have, []byte("${1}M${2}")), timeMaskRe.ReplaceAll(want, []byte("${1}M${2}"))):
				default:
					res.impure = true
				}
			}
		}
	}
	cl := map[string]bool{}
	for _, v := range res.viol {
		cl[v.Clause] = true
	}
	var cs2 []string
	for k := range cl {
		cs2 = append(cs2, k)
	}
	sort.Strings(cs2)
	res.outcome = "as-stated"
	if len(cs2) > 0 {
		res.outcome = strings.Join(cs2, "+")
	}
	for f := range o.facts {
		res.facts = append(res.facts, f)
	}
	sort.Strings(res.facts)
	return
}

func c03ErrClass18(s string) string {
	if strings.HasPrefix(s, "panic: ") {
		return "panic-" + panicClass(s)
	}
	return "error"
}

// ---------------------------------------------------------------------------
// enumeration

func c18Popcount(x int) int {
	n := 0
	for ; x != 0; x &= x - 1 {
		n++
	}
	return n
}

func c18Depth(cs c18Case) int {
	d := 0
	switch cs.Kind {
	case "var":
		d = 1 + c18Popcount(cs.Seg)
		if cs.Pos != "alone" {
			d += 2
		}
		if cs.Surr == "all" {
			d += 200
		} else if cs.Surr != "plain" {
			d += 20
		}
		if cs.Data != "plain" && cs.Data != "missing" {
			d++
		}
		switch cs.Loc {
		case "cell":
			d += 3
		case "nested":
			d += 6
		case "header", "footer":
			d += 8
		case "header-api", "footer-api":
			d += 4
		}
	case "loop":
		d = cs.Items + 2
		if cs.CellRuns != "single" {
			d += 4
		}
		if cs.OtherRow {
			d += 8
		}
		if cs.Loc != "body" {
			d += 16
		}
		if cs.Data != "plain" {
			d++
		}
	default:
		d = len(c18ImgRunSpec(cs.Pos, cs.CellRuns))
		if cs.Neigh != "none" {
			d += 4
		}
		if cs.Loc != "body" {
			d += 8
		}
	}
	return d
}

func c18Enumerate(tier string, visit0 func(cs c18Case)) {
	// every loop and image case, and the variable cases with the placeholder alone in one run or split once, with
	// plain and metacharacter data, are also taken through the file-based TemplateRenderer entry
	visit := func(cs c18Case) {
		visit0(cs)
		if cs.Kind == "var" && !((cs.Seg == 0 || cs.Seg == 8) && cs.Pos == "alone" && (cs.Data == "plain" || cs.Data == "meta")) {
			return
		}
		cs.Entry = "renderer-file"
		visit0(cs)
	}
	for _, loc := range []string{"body", "nested"} {
		for _, rp := range c18RowPositions {
			for _, n := range []int{0, 1, 3} {
				for _, cr := range []string{"single", "multi"} {
					for _, or := range []bool{false, true} {
						for _, data := range []string{"plain", "meta"} {
							visit(c18Case{Kind: "loop", Loc: loc, RowPos: rp, Items: n, CellRuns: cr, OtherRow: or, Data: data})
							if cr == "single" {
								visit(c18Case{Kind: "loop", Loc: loc, RowPos: rp, Items: n, CellRuns: cr, OtherRow: or, Inner: true, Data: data})
							}
						}
					}
				}
			}
		}
	}
	for _, loc := range c18ImgLocs {
		for _, pos := range c18ImgPositions {
			for _, rs := range c18ImgRuns {
				for _, ng := range c18ImgNeigh {
					for _, data := range []string{"given", "missing"} {
						visit(c18Case{Kind: "image", Loc: loc, Pos: pos, CellRuns: rs, Neigh: ng, Data: data})
					}
				}
			}
		}
	}
	for _, surr := range c18SurrNames {
		for _, loc := range c18Locations {
			api := strings.HasSuffix(loc, "-api")
			if api && !(surr == "plain" || surr == "section" || surr == "extrapart" || surr == "bookmark" || surr == "all") {
				continue
			}
			for _, pos := range c18Positions {
				for seg := 0; seg < 128; seg++ {
					if api && seg != 0 {
						continue
					}
					if tier != "thorough" && surr != "plain" && seg != 0 && seg != 8 {
						continue
					}
					reduced := tier == "thorough" && !c18FullProduct[surr]
					if reduced && !(pos == "alone" || pos == "before-own" || pos == "both-same" || pos == "two-after") {
						continue
					}
					for _, data := range c18DataNames {
						if reduced && !(data == "plain" || data == "meta" || data == "missing") {
							continue
						}
						visit(c18Case{Kind: "var", Surr: surr, Loc: loc, Pos: pos, Seg: seg, Data: data})
					}
				}
			}
		}
	}
}

// surroundings that change the run list of the placeholder paragraph get the full product in the thorough tier
var c18FullProduct = map[string]bool{"plain": true, "br-before": true, "br-after": true, "br-same-run": true, "drawing": true, "all": true}

func c18SigSet(vs []rep.Violation) string {
	var s []string
	for _, v := range vs {
		s = append(s, v.Sig)
	}
	sort.Strings(s)
	return strings.Join(s, "\n")
}

func c18Worker(c *shard.Ctx) {
	seen := map[string]bool{}
	idx := int64(-1)
	samples := map[string]int{}
	first := true
	c18Enumerate(c.Tier, func(cs c18Case) {
		idx++
		i := idx
		if !c.Begin(i, func() interface{} { return cs }) {
			return
		}
		res := c18Exec(cs)
		c.P.Evals++
		c.P.Traces++
		c.P.Transitions++
		if res.harness != "" {
			c.P.HarnessErrs = append(c.P.HarnessErrs, fmt.Sprintf("case %d (%s): %s", i, cs, res.harness))
			return
		}
		loc := cs.Loc
		c.P.Outcome(cs.Kind + "/" + loc + ": " + res.outcome)
		if res.key != "" {
			c.P.Keys = append(c.P.Keys, res.key)
			if res.nontriv {
				c.P.Nontrivial = append(c.P.Nontrivial, res.key)
			}
		}
		if res.purityChecked {
			c.P.Add("base_document_purity_checked_cases", 1)
		}
		if res.impure {
			c.P.Add("base_document_changed_by_rendering_cases", 1)
		}
		for _, f := range res.facts {
			c.P.Add("fact: "+f, 1)
		}
		again := first
		first = false
		for _, v := range res.viol {
			if !seen[v.Sig] {
				again = true
			}
		}
		if again {
			r2 := c18Exec(cs)
			if c18SigSet(r2.viol) != c18SigSet(res.viol) || r2.key != res.key {
				c.P.HarnessErrs = append(c.P.HarnessErrs, fmt.Sprintf("case %d (%s) is not deterministic: first run {%s} second run {%s}", i, cs, c18SigSet(res.viol), c18SigSet(r2.viol)))
				return
			}
		}
		for _, v := range res.viol {
			seen[v.Sig] = true
			v.Depth = c18Depth(cs)
			v.What = fmt.Sprintf("%s [case: %s]", v.What, cs)
			v.Case = shardCase(c, "C18", i, cs)
			c.P.Violate(v)
		}
		k := cs.Kind + "/" + cs.Loc
		if samples[k] < 1 && int(i%5) == c.Shard%5 {
			samples[k]++
			c.P.Samples = append(c.P.Samples, map[string]interface{}{"index": i, "case": cs, "outcome": res.outcome, "key": res.key})
		}
	})
}

func runC18(r *rep.Run) {
	var total, nvar, nloop, nimg int64
	c18Enumerate(r.Tier, func(cs c18Case) {
		total++
		switch cs.Kind {
		case "var":
			nvar++
		case "loop":
			nloop++
		default:
			nimg++
		}
	})
	segRule := "all 128 segmentations on the plain surrounding, segmentations {one run, split after `{{na`} on every other surrounding"
	if r.Tier == "thorough" {
		segRule = "all 128 segmentations on every surrounding; full product with positions and data classes on the surroundings plain, br-before, br-after, br-same-run, drawing, all; positions {alone, before-own, both-same, two-after} x data {plain, meta, missing} on the others"
	}
	r.Bounds["cases"] = total
	r.Bounds["variable_cases"] = nvar
	r.Bounds["row_loop_cases"] = nloop
	r.Bounds["image_cases"] = nimg
	r.Bounds["placeholder"] = c18PH
	r.Bounds["segmentations"] = segRule
	r.Bounds["positions"] = c18Positions
	r.Bounds["locations"] = c18Locations
	r.Bounds["surroundings"] = c18SurrNames
	r.Bounds["data_classes_for_name"] = c18DataNames
	r.Bounds["row_loop"] = "table {body, nested} x template row {first, middle, last} x items {0,1,3} x cell runs {single, multi} x {no, one} variable placeholder in another row x item values {plain, XML metacharacters}"
	r.Bounds["image_placeholder"] = "location {body, cell, nested cell} x text {none, before, after, both} x runs {one, split inside the directive, own runs} x neighbours {none, paragraph above and below} x data {given, missing}"
	r.Rule = "every case builds its base document twice with the library API (header/footer with split runs and extra parts/relationships: a package of the independent writer opened with OpenFromMemory, then extended through the API): one copy is loaded with LoadTemplateFromDocument into an engine that has already loaded and rendered another document template (static headers/footers of all kinds under the usual part names) and rendered with RenderTemplateToDocument, the other stays pristine. ToBytes of the pristine copy and of the rendered document are read by the independent reader; body, header and footer trees are walked in parallel: block order and kinds equal; every member of w:pPr/w:tblPr/w:trPr/w:tcPr/w:sectPr and w:tblGrid equal (references resolved to type+content); per paragraph the rendered text equals the base text after an independent scan-and-replace of {{ident}} placeholders that have data (placeholders without data stay; a control character of a value may come out as anything); every non-text run child (w:br, w:drawing, field parts) present at the same place; every character outside placeholders keeps its run properties and xml:space, the characters of a value (or of a kept placeholder) carry the run properties of one of the placeholder's runs; a loop row yields one row per item with the template row's row/cell/paragraph properties and the template text with the directives removed and item fields replaced; an image placeholder with data becomes a drawing resolving to the supplied bytes between the unchanged text before and after; all other parts byte-identical (styles: same set of style definitions), content types and every relationship (type, target, mode) kept; the rendered package satisfies the well-formedness invariant. state = base main part + header/footer part + data; non-trivial = rendering changed the main part or a header/footer part; signature = clause | culprit (property or element name, value class) | location computed from where the difference was observed"
	r.Assume = []string{
		"the oracle compares with what the base document itself saves (what Open or ToBytes of the base loses is C03/C04, not C18)",
		"no non-text run lies between two fragments of one placeholder (whether such a sequence is a placeholder is not stated)",
		"{{other}} always has data; a value that itself looks like a placeholder is expected verbatim (the statement says the placeholder is replaced by the value)",
		"a list without data for a row loop and an image placeholder without data are rendered but only their surroundings are judged (the statement promises visibility only for variable placeholders)",
		"a w:br without type inside a run counts as the character \\n, so a value's line break may be rendered either way",
		"whether rendering leaves the base document object unchanged is C17; it is counted here as a note (base_document_changed_by_rendering_cases) and never as a violation",
	}
	runShards(r, "C18", map[string]interface{}{}, 120*time.Second, nil)
}
