package main

// C19 part B: the harness' own Markdown block tree, its printer, the cross-check of the printed
// text against the third-party parser's AST, the enumeration of documents and the shard worker.

import (
	"encoding/json"
	"fmt"
	"github.com/zerx-lab/wordZero/pkg/document"
	"github.com/zerx-lab/wordZero/pkg/markdown"
	"os"
	"path/filepath"
	"sort"
	"strconv"
	"strings"
	"sync"
	"verif/harness/internal/pkgmodel"

	mathjax "github.com/litao91/goldmark-mathjax"
	"github.com/yuin/goldmark"
	"github.com/yuin/goldmark/ast"
	"github.com/yuin/goldmark/extension"
	extast "github.com/yuin/goldmark/extension/ast"
	"github.com/yuin/goldmark/text"
	gmutil "github.com/yuin/goldmark/util"

	"verif/harness/internal/rep"
	"verif/harness/internal/shard"
)

// ---------------------------------------------------------------------------
// tree

// c19Inl kinds: t (text), em, strong, code, strike, link, soft, hard (two spaces), hardbs (backslash), math.
type c19Inl struct {
	K    string
	T    string
	Kids []c19Inl
	P    string // kind "lit": the way the visible text T is written in the Markdown source (an escape or a character reference)
}

type c19Item struct {
	In      []c19Inl
	Checked int      // 0 no checkbox, 1 unchecked, 2 checked
	Kids    []c19Blk // further blocks of the item (nested lists, paragraphs, code)
}

// c19Blk kinds: h, p, ul, ol, quote, fence, tilde, indent, rule, table, math.
type c19Blk struct {
	K      string
	Level  int
	In     []c19Inl
	Items  []c19Item
	Loose  bool
	Kids   []c19Blk
	Lines  []string
	Rows   [][][]c19Inl // Rows[0] = header
	Aligns string       // one of n,l,c,r per column
	Rule   string
	OneLn  bool // math: $$a+b$$ on one line
}

func tx(s string) c19Inl                 { return c19Inl{K: "t", T: s} }
func sp(k string, kids ...c19Inl) c19Inl { return c19Inl{K: k, Kids: kids} }
func cd(s string) c19Inl                 { return c19Inl{K: "code", T: s} }
func lit(visible, written string) c19Inl { return c19Inl{K: "lit", T: visible, P: written} }

var (
	c19Soft = c19Inl{K: "soft"}
	c19Math = c19Inl{K: "math", T: "a+b"}
)

func para(in ...c19Inl) c19Blk        { return c19Blk{K: "p", In: in} }
func head(l int, in ...c19Inl) c19Blk { return c19Blk{K: "h", Level: l, In: in} }
func it(in ...c19Inl) c19Item         { return c19Item{In: in} }

// ---------------------------------------------------------------------------
// printer

func c19PrintInl(in []c19Inl) string {
	var b strings.Builder
	for _, x := range in {
		switch x.K {
		case "t":
			b.WriteString(x.T)
		case "lit":
			b.WriteString(x.P)
		case "auto":
			b.WriteString("<" + x.T + ">")
		case "bare":
			b.WriteString(x.T)
		case "em":
			if x.P == "alt" {
				b.WriteString("_" + c19PrintInl(x.Kids) + "_")
			} else {
				b.WriteString("*" + c19PrintInl(x.Kids) + "*")
			}
		case "strong":
			if x.P == "alt" {
				b.WriteString("__" + c19PrintInl(x.Kids) + "__")
			} else {
				b.WriteString("**" + c19PrintInl(x.Kids) + "**")
			}
		case "strike":
			if x.P == "alt" {
				b.WriteString("~" + c19PrintInl(x.Kids) + "~")
			} else {
				b.WriteString("~~" + c19PrintInl(x.Kids) + "~~")
			}
		case "link":
			b.WriteString("[" + c19PrintInl(x.Kids) + "](http://x.y)")
		case "code":
			b.WriteString("`" + x.T + "`")
		case "math":
			b.WriteString("$" + x.T + "$")
		case "soft":
			b.WriteString("\n")
		case "hard":
			b.WriteString("  \n")
		case "hardbs":
			b.WriteString("\\\n")
		}
	}
	return b.String()
}

func c19IsBullet(b *c19Blk) bool { return b != nil && b.K == "ul" }

// c19PrintBlocks prints sibling blocks, separated by blank lines.
func c19PrintBlocks(bs []c19Blk) []string {
	var out []string
	bulletMark, orderedMark := "", ""
	for i := range bs {
		b := &bs[i]
		if i > 0 {
			out = append(out, "")
		}
		switch b.K {
		case "ul":
			if bulletMark == "-" {
				bulletMark = "*"
			} else {
				bulletMark = "-"
			}
			orderedMark = ""
		case "ol":
			if orderedMark == "." {
				orderedMark = ")"
			} else {
				orderedMark = "."
			}
			bulletMark = ""
		default:
			bulletMark, orderedMark = "", ""
		}
		out = append(out, c19PrintBlock(b, bulletMark, orderedMark)...)
	}
	return out
}

func c19PrintBlock(b *c19Blk, bulletMark, orderedMark string) []string {
	switch b.K {
	case "h":
		return []string{strings.Repeat("#", b.Level) + " " + c19PrintInl(b.In)}
	case "p":
		return strings.Split(c19PrintInl(b.In), "\n")
	case "ul", "ol":
		var out []string
		for n, item := range b.Items {
			mark := bulletMark + " "
			if b.K == "ol" {
				mark = strconv.Itoa(n+1) + orderedMark + " "
			}
			pad := strings.Repeat(" ", len(mark))
			first := c19PrintInl(item.In)
			switch item.Checked {
			case 1:
				first = "[ ] " + first
			case 2:
				first = "[x] " + first
			}
			var lines []string
			lines = append(lines, strings.Split(first, "\n")...)
			for k := range item.Kids {
				kid := &item.Kids[k]
				tightSub := (kid.K == "ul" || kid.K == "ol") && !b.Loose && k == 0
				if !tightSub {
					lines = append(lines, "")
				}
				lines = append(lines, c19PrintBlock(kid, "-", ".")...)
			}
			if n > 0 && b.Loose {
				out = append(out, "")
			}
			for li, l := range lines {
				switch {
				case li == 0:
					out = append(out, mark+l)
				case l == "":
					out = append(out, "")
				default:
					out = append(out, pad+l)
				}
			}
		}
		return out
	case "quote":
		var out []string
		for _, l := range c19PrintBlocks(b.Kids) {
			if l == "" {
				out = append(out, ">")
			} else {
				out = append(out, "> "+l)
			}
		}
		return out
	case "fence", "tilde":
		f := "```"
		if b.K == "tilde" {
			f = "~~~"
		}
		out := []string{f}
		out = append(out, b.Lines...)
		return append(out, f)
	case "indent":
		var out []string
		for _, l := range b.Lines {
			if l == "" {
				out = append(out, "")
			} else {
				out = append(out, "    "+l)
			}
		}
		return out
	case "rule":
		return []string{b.Rule}
	case "math":
		if b.OneLn {
			return []string{"$$a+b$$"}
		}
		return []string{"$$", "a+b", "$$"}
	case "table":
		var out []string
		for ri, row := range b.Rows {
			l := "|"
			for _, cell := range row {
				l += " " + c19PrintInl(cell) + " |"
			}
			out = append(out, l)
			if ri == 0 {
				d := "|"
				for _, a := range b.Aligns {
					d += map[rune]string{'n': "---", 'l': ":--", 'c': ":-:", 'r': "--:"}[a] + "|"
				}
				out = append(out, d)
			}
		}
		return out
	}
	return nil
}

func c19Print(doc []c19Blk) string { return strings.Join(c19PrintBlocks(doc), "\n") + "\n" }

// ---------------------------------------------------------------------------
// canonical form of the tree and of the third-party parser's AST (printer cross-check)

type c19Canon struct {
	b   strings.Builder
	txt strings.Builder
}

func (c *c19Canon) flush() {
	if c.txt.Len() > 0 {
		c.b.WriteString(strconv.Quote(c.txt.String()))
		c.txt.Reset()
	}
}
func (c *c19Canon) text(s string) { c.txt.WriteString(s) }
func (c *c19Canon) brk(k string) {
	s := strings.TrimRight(c.txt.String(), " ")
	c.txt.Reset()
	c.txt.WriteString(s)
	c.flush()
	c.b.WriteString("~" + k + "~")
}
func (c *c19Canon) open(s string) { c.flush(); c.b.WriteString(s + "(") }
func (c *c19Canon) close()        { c.flush(); c.b.WriteString(")") }

func c19CanonTreeInl(c *c19Canon, in []c19Inl) {
	for _, x := range in {
		switch x.K {
		case "t", "lit":
			c.text(x.T)
		case "soft":
			c.brk("soft")
		case "hard", "hardbs":
			c.brk("hard")
		case "code":
			c.open("code")
			c.text(x.T)
			c.close()
		case "auto", "bare":
			c.open("autolink")
			c.text(x.T)
			c.close()
		case "math":
			c.open("math")
			c.text(x.T)
			c.close()
		default:
			c.open(x.K)
			c19CanonTreeInl(c, x.Kids)
			c.close()
		}
	}
}

func c19CanonTreeBlocks(c *c19Canon, bs []c19Blk) {
	for i := range bs {
		b := &bs[i]
		switch b.K {
		case "h":
			c.open("h" + strconv.Itoa(b.Level))
			c19CanonTreeInl(c, b.In)
			c.close()
		case "p":
			c.open("p")
			c19CanonTreeInl(c, b.In)
			c.close()
		case "ul", "ol":
			c.open(b.K)
			for _, item := range b.Items {
				c.open("li")
				c.open("p")
				switch item.Checked {
				case 1:
					c.flush()
					c.b.WriteString("[ ]")
				case 2:
					c.flush()
					c.b.WriteString("[x]")
				}
				c19CanonTreeInl(c, item.In)
				c.close()
				c19CanonTreeBlocks(c, item.Kids)
				c.close()
			}
			c.close()
		case "quote":
			c.open("quote")
			c19CanonTreeBlocks(c, b.Kids)
			c.close()
		case "fence", "tilde", "indent":
			c.open("codeblock")
			c.text(strings.Join(b.Lines, "\n") + "\n")
			c.close()
		case "rule":
			c.flush()
			c.b.WriteString("hr")
		case "math":
			c.open("mathblock")
			c.text("a+b")
			c.close()
		case "table":
			c.open("table:" + b.Aligns)
			for _, row := range b.Rows {
				c.open("row")
				for _, cell := range row {
					c.open("cell")
					c19CanonTreeInl(c, cell)
					c.close()
				}
				c.close()
			}
			c.close()
		}
	}
}

func c19CanonTree(doc []c19Blk) string {
	c := &c19Canon{}
	c19CanonTreeBlocks(c, doc)
	c.flush()
	return c.b.String()
}

var c19RefMD goldmark.Markdown
var c19RefOnce sync.Once

// c19RefText is the visible text of a text node of the third-party parser's tree, resolved the way that
// parser's own renderers resolve it (backslash escapes and character references).
func c19RefText(t *ast.Text, src []byte) string {
	v := t.Segment.Value(src)
	if t.IsRaw() {
		return string(v)
	}
	var b strings.Builder
	for i := 0; i < len(v); i++ {
		if v[i] == '\\' && i+1 < len(v) && gmutil.IsPunct(v[i+1]) {
			b.WriteByte(v[i+1])
			i++
			continue
		}
		if v[i] == '&' {
			if end := strings.IndexByte(string(v[i:]), ';'); end > 1 && end <= 32 {
				ref := v[i : i+end+1]
				if res := gmutil.ResolveNumericReferences(gmutil.ResolveEntityNames(ref)); string(res) != string(ref) {
					b.Write(res)
					i += end
					continue
				}
			}
		}
		b.WriteByte(v[i])
	}
	return b.String()
}

func c19CanonAST(src []byte) string {
	c19RefOnce.Do(func() {
		c19RefMD = goldmark.New(goldmark.WithExtensions(extension.GFM, extension.Footnote,
			mathjax.NewMathJax(mathjax.WithInlineDelim("$", "$"), mathjax.WithBlockDelim("$$", "$$"))))
	})
	root := c19RefMD.Parser().Parse(text.NewReader(src))
	c := &c19Canon{}
	var walk func(n ast.Node)
	kids := func(n ast.Node) {
		for k := n.FirstChild(); k != nil; k = k.NextSibling() {
			walk(k)
		}
	}
	lines := func(n ast.Node) string {
		var b strings.Builder
		for i := 0; i < n.Lines().Len(); i++ {
			l := n.Lines().At(i)
			b.Write(l.Value(src))
		}
		return b.String()
	}
	walk = func(n ast.Node) {
		switch n.Kind() {
		case ast.KindDocument:
			kids(n)
		case ast.KindHeading:
			c.open("h" + strconv.Itoa(n.(*ast.Heading).Level))
			kids(n)
			c.close()
		case ast.KindParagraph, ast.KindTextBlock:
			c.open("p")
			kids(n)
			c.close()
		case ast.KindList:
			if n.(*ast.List).IsOrdered() {
				c.open("ol")
			} else {
				c.open("ul")
			}
			kids(n)
			c.close()
		case ast.KindListItem:
			c.open("li")
			kids(n)
			c.close()
		case ast.KindBlockquote:
			c.open("quote")
			kids(n)
			c.close()
		case ast.KindFencedCodeBlock, ast.KindCodeBlock:
			c.open("codeblock")
			c.text(lines(n))
			c.close()
		case ast.KindThematicBreak:
			c.flush()
			c.b.WriteString("hr")
		case extast.KindTable:
			al := ""
			for _, a := range n.(*extast.Table).Alignments {
				switch a {
				case extast.AlignLeft:
					al += "l"
				case extast.AlignRight:
					al += "r"
				case extast.AlignCenter:
					al += "c"
				default:
					al += "n"
				}
			}
			c.open("table:" + al)
			kids(n)
			c.close()
		case extast.KindTableHeader, extast.KindTableRow:
			c.open("row")
			kids(n)
			c.close()
		case extast.KindTableCell:
			c.open("cell")
			kids(n)
			c.close()
		case mathjax.KindMathBlock:
			c.open("mathblock")
			c.text(strings.TrimSpace(lines(n)))
			c.close()
		case ast.KindText:
			t := n.(*ast.Text)
			c.text(c19RefText(t, src))
			if t.HardLineBreak() {
				c.brk("hard")
			} else if t.SoftLineBreak() {
				c.brk("soft")
			}
		case ast.KindString:
			c.text(string(n.(*ast.String).Value))
		case ast.KindEmphasis:
			if n.(*ast.Emphasis).Level == 2 {
				c.open("strong")
			} else {
				c.open("em")
			}
			kids(n)
			c.close()
		case ast.KindCodeSpan:
			c.open("code")
			kids(n)
			c.close()
		case ast.KindLink:
			c.open("link")
			kids(n)
			c.close()
		case ast.KindAutoLink:
			c.open("autolink")
			c.text(string(n.(*ast.AutoLink).Label(src)))
			c.close()
		case extast.KindStrikethrough:
			c.open("strike")
			kids(n)
			c.close()
		case extast.KindTaskCheckBox:
			c.flush()
			if n.(*extast.TaskCheckBox).IsChecked {
				c.b.WriteString("[x]")
			} else {
				c.b.WriteString("[ ]")
			}
		case mathjax.KindInlineMath:
			c.open("math")
			kids(n)
			c.close()
		default:
			c.open("?" + n.Kind().String())
			kids(n)
			c.close()
		}
	}
	walk(root)
	c.flush()
	return c.b.String()
}

// ---------------------------------------------------------------------------
// enumeration

type c19Doc struct {
	Name   string
	Blocks []c19Blk
}

// c19InlineVariants: inline sequences used as the content of a leaf in every context.
// simple = usable on one line (headings, table cells).
func c19InlineVariants() (names []string, vs [][]c19Inl, oneLine []bool) {
	add := func(n string, one bool, in ...c19Inl) {
		names = append(names, n)
		vs = append(vs, in)
		oneLine = append(oneLine, one)
	}
	spans := []struct {
		n string
		f func(t string) c19Inl
	}{
		{"em", func(t string) c19Inl { return sp("em", tx(t)) }},
		{"strong", func(t string) c19Inl { return sp("strong", tx(t)) }},
		{"code", func(t string) c19Inl { return cd(t) }},
		{"strike", func(t string) c19Inl { return sp("strike", tx(t)) }},
		{"link", func(t string) c19Inl { return sp("link", tx(t)) }},
		{"math", func(t string) c19Inl { return c19Math }},
	}
	add("text", true, tx("a"))
	add("text2", true, tx("漢1 b"))
	for _, s := range spans {
		add(s.n, true, s.f("a"))
		add("spaced-"+s.n, true, tx("a "), s.f("b"), tx(" 1"))
		add("tight-"+s.n, true, tx("a"), s.f("b"), tx("1"))
	}
	for i, s := range spans {
		for j, u := range spans {
			if i != j {
				add(s.n+"+"+u.n, true, s.f("a"), tx(" "), u.f("b"))
			}
		}
	}
	add("soft", false, tx("a"), c19Soft, tx("b"))
	add("soft-spans", false, sp("em", tx("a")), c19Soft, sp("strong", tx("b")))
	add("soft-code", false, tx("a 1"), c19Soft, cd("b"))
	add("soft2", false, tx("a"), c19Soft, tx("b"), c19Soft, tx("1"))
	add("em>strong", true, sp("em", tx("a "), sp("strong", tx("b"))))
	add("strong>em", true, sp("strong", tx("a "), sp("em", tx("b"))))
	add("em+strong-same", true, sp("em", sp("strong", tx("a"))))
	add("strike>em", true, sp("strike", sp("em", tx("a"))))
	add("strike>strong-part", true, sp("strike", tx("a "), sp("strong", tx("b"))))
	add("link>em", true, sp("link", sp("em", tx("a"))))
	add("link>strong", true, sp("link", sp("strong", tx("a"))))
	add("link>code", true, sp("link", cd("a")))
	add("em>code", true, sp("em", cd("a")))
	add("strong>code", true, sp("strong", cd("a")))
	add("em>link", true, sp("em", sp("link", tx("a"))))
	// a span inside a span with text on both sides of the inner one, for every ordered pair of kinds - also the
	// same kind twice, written with the other delimiter (seed C19-d2)
	alt := func(k string, kids ...c19Inl) c19Inl { x := sp(k, kids...); x.P = "alt"; return x }
	for _, o := range []string{"em", "strong", "strike", "link"} {
		for _, i := range []string{"em", "strong", "strike"} {
			if o == "strike" && i == "strike" {
				continue // a strike-through inside a strike-through is not something CommonMark/GFM define
			}
			inner := sp(i, tx("b"))
			if o == i {
				inner = alt(i, tx("b"))
			}
			add(o+">"+i+"-mid", true, sp(o, tx("a "), inner, tx(" 1")))
		}
	}
	add("em-alt", true, tx("a "), alt("em", tx("b")), tx(" 1"))
	add("strong-alt", true, tx("a "), alt("strong", tx("b")), tx(" 1"))
	// visible characters written as backslash escapes and character references
	add("escape-star", true, tx("a"), lit("*", "\\*"), tx("b"))
	add("escape-underscore-hash", true, lit("_", "\\_"), tx("a"), lit("#", "\\#"))
	add("escape-at-start", true, lit("#", "\\#"), tx(" a"))
	add("escape-in-em", true, sp("em", tx("a"), lit("*", "\\*")))
	add("entity-amp", true, tx("a "), lit("&", "&amp;"), tx(" b"))
	add("entity-numeric", true, tx("a"), lit("#", "&#35;"), lit("漢", "&#x6F22;"), tx("1"))
	add("escaped-entity", true, lit("&", "\\&"), tx("amp; b"))
	add("entity-at-start", true, lit("&", "&amp;"), tx(" a"))
	add("entity-after-span", true, sp("em", tx("a")), lit("<", "&lt;"), tx("b"))
	add("escape-after-span", true, sp("strong", tx("a")), lit("*", "\\*"))
	add("entity-only", true, lit("©", "&copy;"))
	// links whose visible text is the address itself
	add("autolink", true, tx("a "), c19Inl{K: "auto", T: "http://x.y"}, tx(" b"))
	add("autolink-only", true, c19Inl{K: "auto", T: "http://x.y/1"})
	add("autolink-mail", true, tx("a "), c19Inl{K: "auto", T: "a@b.c"})
	add("bare-url", true, tx("a "), c19Inl{K: "bare", T: "http://x.y"}, tx(" b"))
	add("bare-www", true, c19Inl{K: "bare", T: "www.x.y"}, tx(" b"))
	add("hard", false, tx("a"), c19Inl{K: "hard"}, tx("b"))
	add("hard-backslash", false, tx("a"), c19Inl{K: "hardbs"}, tx("b"))
	return
}

func c19Table(aligns string, rows ...[]string) c19Blk {
	b := c19Blk{K: "table", Aligns: aligns}
	for _, r := range rows {
		var row [][]c19Inl
		for _, cell := range r {
			if cell == "" {
				row = append(row, nil)
			} else {
				row = append(row, []c19Inl{tx(cell)})
			}
		}
		b.Rows = append(b.Rows, row)
	}
	return b
}

var c19SinglesCache []c19Doc

// c19SingleDocs: one construct per document, in all its variants.
func c19SingleDocs() []c19Doc {
	if c19SinglesCache != nil {
		return c19SinglesCache
	}
	var out []c19Doc
	add := func(n string, bs ...c19Blk) { out = append(out, c19Doc{Name: n, Blocks: bs}) }
	names, vs, one := c19InlineVariants()
	for i, v := range vs {
		add("para/"+names[i], para(v...))
		add("item/"+names[i], c19Blk{K: "ul", Items: []c19Item{it(v...), it(tx("漢"))}})
		add("quote/"+names[i], c19Blk{K: "quote", Kids: []c19Blk{para(v...)}})
		if one[i] {
			add("h2/"+names[i], head(2, v...))
			// (text with ':' or '-' is not put into table cells: when table support is switched off the
			// judge treats the characters of the delimiter row as unobservable)
			if strings.ContainsAny(c19PrintInl(v), ":-") {
				continue
			}
			t := c19Table("nn", []string{"漢", "1"}, []string{"", "b"})
			t.Rows[1][0] = v
			add("cell/"+names[i], t)
			if i < 20 {
				t := c19Table("nn", []string{"", "1"}, []string{"漢", "b"})
				t.Rows[0][0] = v
				add("hcell/"+names[i], t)
			}
		}
	}
	for l := 1; l <= 6; l++ {
		add(fmt.Sprintf("h%d", l), head(l, tx("a b")))
		add(fmt.Sprintf("h%d-em", l), head(l, tx("a "), sp("em", tx("b"))))
	}
	ul := func(items ...c19Item) c19Blk { return c19Blk{K: "ul", Items: items} }
	ol := func(items ...c19Item) c19Blk { return c19Blk{K: "ol", Items: items} }
	nest := func(i c19Item, kids ...c19Blk) c19Item { i.Kids = kids; return i }
	chk := func(state int, in ...c19Inl) c19Item { return c19Item{In: in, Checked: state} }
	add("ul1", ul(it(tx("a"))))
	add("ul3", ul(it(tx("a")), it(tx("b")), it(tx("1"))))
	add("ol1", ol(it(tx("a"))))
	add("ol3", ol(it(tx("a")), it(tx("b")), it(tx("1"))))
	add("ul-loose", c19Blk{K: "ul", Loose: true, Items: []c19Item{it(tx("a")), it(tx("b"))}})
	add("ol-loose", c19Blk{K: "ol", Loose: true, Items: []c19Item{it(tx("a")), it(tx("b"))}})
	add("ul>ul", ul(nest(it(tx("a")), ul(it(tx("b"))))))
	add("ul>ul2", ul(nest(it(tx("a")), ul(it(tx("b")), it(tx("1")))), it(tx("漢"))))
	add("ul>ol", ul(nest(it(tx("a")), ol(it(tx("b")))), it(tx("漢"))))
	add("ol>ul", ol(nest(it(tx("a")), ul(it(tx("b")))), it(tx("漢"))))
	add("ol>ol", ol(nest(it(tx("a")), ol(it(tx("b")), it(tx("1"))))))
	add("ul>ul-em", ul(nest(it(tx("a")), ul(it(sp("em", tx("b")))))))
	add("ul-2nd-nested", ul(it(tx("a")), nest(it(tx("b")), ul(it(tx("1"))))))
	add("item+para", ul(nest(it(tx("a")), para(tx("b"))), it(tx("1"))))
	add("item+fence", ul(nest(it(tx("a")), c19Blk{K: "fence", Lines: []string{"b", " 1"}})))
	add("item+quote", ul(nest(it(tx("a")), c19Blk{K: "quote", Kids: []c19Blk{para(tx("b"))}})))
	// indented code inside containers, with lines that carry indentation of their own
	add("item+indent", ul(nest(it(tx("a")), c19Blk{K: "indent", Lines: []string{"  b", "1"}})))
	add("item+indent-deep", ul(nest(it(tx("a")), c19Blk{K: "indent", Lines: []string{"b", "    1", "  漢"}})))
	add("ol-item+indent", ol(nest(it(tx("a")), c19Blk{K: "indent", Lines: []string{"  b"}})))
	add("nested-item+indent", ul(nest(it(tx("a")), ul(nest(it(tx("b")), c19Blk{K: "indent", Lines: []string{"  1", "漢"}})))))
	add("task-x", ul(chk(2, tx("a"))))
	add("task-o", ul(chk(1, tx("a"))))
	add("task-xo", ul(chk(2, tx("a")), chk(1, tx("b"))))
	add("task-ox-plain", ul(chk(1, tx("a")), chk(2, tx("b")), it(tx("1"))))
	add("task-em", ul(chk(2, tx("a "), sp("em", tx("b"))), chk(1, cd("1"))))
	add("task-ol", ol(chk(2, tx("a")), chk(1, tx("b"))))
	add("task-nested", ul(nest(chk(1, tx("a")), ul(chk(2, tx("b"))))))
	q := func(kids ...c19Blk) c19Blk { return c19Blk{K: "quote", Kids: kids} }
	add("quote2p", q(para(tx("a")), para(tx("b"))))
	add("quote3p", q(para(tx("a")), para(tx("b")), para(tx("1"))))
	add("quote>ul", q(ul(it(tx("a")), it(tx("b")))))
	add("quote>h", q(head(2, tx("a")), para(tx("b"))))
	add("quote>fence", q(para(tx("a")), c19Blk{K: "fence", Lines: []string{"b", " 1"}}))
	add("quote>quote", q(para(tx("a")), q(para(tx("b")))))
	add("quote>indent", q(para(tx("a")), c19Blk{K: "indent", Lines: []string{"  b", "1"}}))
	add("quote>p+ul", q(para(tx("a")), ul(it(tx("b")))))
	codes := [][]string{{"a"}, {"a", "b"}, {"  a"}, {"a", "", "b"}, {"\ta"}, {"a", "    b", "", "  1"}, {"a b", " 1  漢"}}
	for i, ls := range codes {
		add(fmt.Sprintf("fence%d", i), c19Blk{K: "fence", Lines: ls})
	}
	add("tilde", c19Blk{K: "tilde", Lines: []string{"a", "  b"}})
	for i, ls := range [][]string{{"a"}, {"a", "b"}, {"a", "  b"}, {"a", "", "b"}, {"a", "\tb"}} {
		add(fmt.Sprintf("indent%d", i), c19Blk{K: "indent", Lines: ls})
	}
	for _, rl := range []string{"---", "***", "___"} {
		add("rule"+rl, c19Blk{K: "rule", Rule: rl})
		add("rule"+rl+"-between", para(tx("a")), c19Blk{K: "rule", Rule: rl}, para(tx("b")))
	}
	for _, al := range []string{"n", "l", "c", "r"} {
		add("table1x1-"+al, c19Table(al, []string{"a"}))
	}
	for _, al := range []string{"nn", "lr", "cn", "rc", "ll"} {
		add("table2x2-"+al, c19Table(al, []string{"a", "b"}, []string{"1", "漢"}))
	}
	for _, al := range []string{"nnn", "lcr", "rnl", "ccc"} {
		add("table2x3-"+al, c19Table(al, []string{"a", "b", "1"}, []string{"漢", "ab", "b1"}))
	}
	add("table-empty-cell", c19Table("lr", []string{"a", "b"}, []string{"", "1"}))
	add("table3x2", c19Table("cr", []string{"a", "b"}, []string{"1", "漢"}, []string{"ab", "b1"}))
	add("mathblock", c19Blk{K: "math"})
	add("mathblock-between", para(tx("a")), c19Blk{K: "math"}, para(tx("b")))
	// ordered pairs of variants (renderer-wide state carried from one block to the next:
	// list level, table alignments, quote state)
	type nv struct {
		n string
		b c19Blk
	}
	pv := []nv{
		{"t1c", c19Table("c", []string{"a"})},
		{"t1r-body", c19Table("r", []string{"a"}, []string{"b"})},
		{"t2nn", c19Table("nn", []string{"a", "b"}, []string{"1", "漢"})},
		{"t2lr", c19Table("lr", []string{"a", "b"}, []string{"1", "漢"})},
		{"t2rc", c19Table("rc", []string{"b", "a"}, []string{"漢", "1"})},
		{"t3lcr", c19Table("lcr", []string{"a", "b", "1"}, []string{"漢", "ab", "b1"})},
		{"t3rnl", c19Table("rnl", []string{"1", "b", "a"}, []string{"b1", "ab", "漢"})},
		{"ul", ul(it(tx("a")), it(tx("b")))},
		{"ol", ol(it(tx("1")), it(tx("漢")))},
		{"nested", ul(nest(it(tx("a")), ul(nest(it(tx("b")), ul(it(tx("1")))))), it(tx("漢")))},
		{"task", ul(chk(2, tx("a")), chk(1, tx("b")))},
		{"h1", head(1, tx("a"))},
		{"h2", head(2, tx("b"))},
		{"h4", head(4, tx("1"))},
		{"h6", head(6, tx("漢"))},
		{"quote", q(para(tx("a")))},
		{"quote2", q(para(tx("b")), para(tx("1")))},
		{"fence", c19Blk{K: "fence", Lines: []string{"a", "  b"}}},
		{"indent", c19Blk{K: "indent", Lines: []string{"1", " 漢"}}},
		{"math", c19Blk{K: "math"}},
		{"p", para(tx("a b"))},
		{"p-em", para(sp("em", tx("1")), tx(" 漢"))},
	}
	for _, x := range pv {
		for _, y := range pv {
			x, y := x, y
			if !c19SeqAllowed(&x.b, &y.b) {
				continue
			}
			add("pair/"+x.n+"+"+y.n, x.b, y.b)
		}
	}
	c19SinglesCache = out
	return out
}

var c19SeqCache []c19Blk

// c19SeqBlocks: the 16 representative blocks (distinct texts) for the sequence enumeration.
func c19SeqBlocks() []c19Blk {
	if c19SeqCache != nil {
		return c19SeqCache
	}
	c19SeqCache = []c19Blk{
		head(1, tx("a")),
		head(3, tx("b "), sp("em", tx("1"))),
		para(tx("漢a")),
		para(tx("a "), sp("em", tx("b")), tx(" "), sp("strong", tx("1")), tx(" "), cd("漢"), tx(" "), sp("strike", tx("a1")), tx(" "), sp("link", tx("b漢"))),
		para(tx("1a"), c19Soft, tx("b")),
		{K: "ul", Items: []c19Item{it(tx("ab")), it(tx("漢"))}},
		{K: "ol", Items: []c19Item{it(tx("b1")), it(tx("a漢"))}},
		{K: "ul", Items: []c19Item{{In: []c19Inl{tx("1")}, Kids: []c19Blk{{K: "ul", Items: []c19Item{it(tx("漢b"))}}}}, it(tx("a"))}},
		{K: "ul", Items: []c19Item{{In: []c19Inl{tx("ba")}, Checked: 2}, {In: []c19Inl{tx("1漢")}, Checked: 1}}},
		{K: "quote", Kids: []c19Blk{para(tx("漢1"))}},
		{K: "fence", Lines: []string{" a1", "", "b"}},
		{K: "indent", Lines: []string{"1b", "  a"}},
		{K: "rule", Rule: "---"},
		c19Table("lr", []string{"a", "1"}, []string{"漢", "b"}),
		{K: "math"},
		para(tx("1 "), c19Math, tx(" 漢")),
	}
	return c19SeqCache
}

var c19SeqNames = []string{"h1", "h3", "p", "p-rich", "p-soft", "ul", "ol", "nested", "task", "quote", "fence", "indent", "rule", "table", "mathblock", "p-math"}

func c19SeqAllowed(prev, cur *c19Blk) bool {
	if cur.K == "indent" && (prev.K == "ul" || prev.K == "ol" || prev.K == "indent") {
		return false
	}
	return true
}

type c19FidArgs struct {
	MaxBlocks     int `json:"max_blocks"`
	AllOptsBlocks int `json:"all_opts_blocks"` // >0: full option space for singles and sequences up to this length
}

// c19EnumDocs enumerates all fidelity documents in a fixed order; nblocks is 0 for single-construct documents.
func c19EnumDocs(a c19FidArgs, f func(idx int64, nblocks int, d func() c19Doc)) {
	var idx int64
	for _, d := range c19SingleDocs() {
		d := d
		f(idx, 0, func() c19Doc { return d })
		idx++
	}
	reps := c19SeqBlocks()
	// length 1 sequences are covered by construct but are kept: they are the roots of the sequence space
	var rec func(n int, cur []int)
	rec = func(n int, cur []int) {
		if len(cur) == n {
			seq := append([]int{}, cur...)
			f(idx, n, func() c19Doc {
				var d c19Doc
				var ns []string
				for _, i := range seq {
					d.Blocks = append(d.Blocks, reps[i])
					ns = append(ns, c19SeqNames[i])
				}
				d.Name = "seq/" + strings.Join(ns, ",")
				return d
			})
			idx++
			return
		}
		for i := range reps {
			if len(cur) > 0 && !c19SeqAllowed(&reps[cur[len(cur)-1]], &reps[i]) {
				continue
			}
			rec(n, append(cur, i))
		}
	}
	for n := 1; n <= a.MaxBlocks; n++ {
		rec(n, nil)
	}
}

func c19SigList(vs []rep.Violation) string {
	var ss []string
	for _, v := range vs {
		ss = append(ss, v.Sig)
	}
	sort.Strings(ss)
	return strings.Join(ss, " ")
}

// c19TabIndent rewrites the leading spaces of every line with tabs (one tab per four columns).
func c19TabIndent(md string) string {
	lines := strings.Split(md, "\n")
	for i, l := range lines {
		n := 0
		for n < len(l) && l[n] == ' ' {
			n++
		}
		if n >= 4 {
			lines[i] = strings.Repeat("\t", n/4) + strings.Repeat(" ", n%4) + l[n:]
		}
	}
	return strings.Join(lines, "\n")
}

func c19JudgeAgain(md string, o c19Opt, exp *c19Expect) string {
	doc, what, _ := c19Convert([]byte(md), o)
	if what != "" {
		return what
	}
	pk, viol := c19SaveCheck(doc)
	if pk == nil || pk.Body() == nil || len(viol) > 0 {
		return "save"
	}
	return c19SigList(c19Judge(exp, c19Observe(pk)))
}

// c19SameShapeDecoy is the Markdown with every ASCII letter and digit replaced by its successor: the same
// constructs at the same byte positions, other text.
func c19SameShapeDecoy(md string) string {
	b := []byte(md)
	for i, ch := range b {
		switch {
		case ch >= 'a' && ch < 'z', ch >= 'A' && ch < 'Z', ch >= '0' && ch < '9':
			b[i] = ch + 1
		case ch == 'z':
			b[i] = 'a'
		case ch == 'Z':
			b[i] = 'A'
		case ch == '9':
			b[i] = '0'
		}
	}
	return string(b)
}

const c19GenericDecoy = "# Decoy \\# one &amp; two\n\nprice \\* 2 &lt; 3 and `code`\n\n- item **b**\n  - nested\n\n1. first\n\n> quote\n\n| a | b |\n|:--|--:|\n| 1 | 2 |\n\n```\ncode\n```\n\n- [x] done\n"

// c19JudgeReused converts two other documents and then the Markdown with ONE Converter object (the way
// BatchConvert and any caller that keeps its converter do) and judges the last result.
func c19JudgeReused(md string, o c19Opt, exp *c19Expect) string {
	document.VerifResetGlobals()
	var doc *document.Document
	var err error
	if p := guard(func() {
		opts := o.mk()
		conv := markdown.NewConverter(opts)
		conv.ConvertString(c19GenericDecoy, opts)
		conv.ConvertString(c19SameShapeDecoy(md), opts)
		doc, err = conv.ConvertString(md, opts)
	}); p != "" {
		return "panic|" + panicClass(p)
	}
	if err != nil || doc == nil || doc.Body == nil {
		return "error|ConvertString"
	}
	pk, viol := c19SaveCheck(doc)
	if pk == nil || pk.Body() == nil || len(viol) > 0 {
		return "save"
	}
	return c19SigList(c19Judge(exp, c19Observe(pk)))
}

// c19JudgeFile converts the Markdown through Converter.ConvertFile and judges the .docx it wrote.
func c19JudgeFile(md string, o c19Opt, exp *c19Expect) string {
	dir, err := os.MkdirTemp("", "vcheck-c19-")
	if err != nil {
		return ""
	}
	defer os.RemoveAll(dir)
	in, out := filepath.Join(dir, "in.md"), filepath.Join(dir, "out.docx")
	if os.WriteFile(in, []byte(md), 0o644) != nil {
		return ""
	}
	document.VerifResetGlobals()
	var cerr error
	if p := guard(func() {
		opts := o.mk()
		conv := markdown.NewConverter(opts)
		// the converter has failed twice before: an input that does not exist, and an input whose output cannot be
		// written (the target lies below a regular file); neither may leave anything behind for the next call
		decoy := filepath.Join(dir, "decoy.md")
		os.WriteFile(decoy, []byte(c19GenericDecoy), 0o644)
		conv.ConvertFile(filepath.Join(dir, "no-such-input.md"), filepath.Join(dir, "never.docx"), opts)
		conv.ConvertFile(decoy, filepath.Join(in, "below-a-file", "out.docx"), opts)
		cerr = conv.ConvertFile(in, out, opts)
	}); p != "" {
		return "panic|" + panicClass(p)
	}
	if cerr != nil {
		return "error|ConvertFile"
	}
	b, err := os.ReadFile(out)
	if err != nil {
		return "error|no-output-file"
	}
	pk := pkgmodel.Read(b)
	if len(pk.CheckWellFormed()) > 0 || pk.Body() == nil {
		return "save"
	}
	return c19SigList(c19Judge(exp, c19Observe(pk)))
}

func c19FidWorker(c *shard.Ctx) {
	var a c19FidArgs
	json.Unmarshal(c.Args, &a)
	quickSets := c19OptSets(false)
	allSets := c19OptSets(true)
	samples := 0
	c19EnumDocs(a, func(idx int64, nblocks int, mk func() c19Doc) {
		if !c.Begin(idx, func() interface{} {
			d := mk()
			return map[string]interface{}{"doc": d.Name, "markdown": c19Print(d.Blocks)}
		}) {
			return
		}
		d := mk()
		md := c19Print(d.Blocks)
		// printer cross-check against the third-party parser (never a verdict)
		if want, got := c19CanonTree(d.Blocks), c19CanonAST([]byte(md)); want != got {
			c.P.HarnessErrs = append(c.P.HarnessErrs, fmt.Sprintf("printer cross-check failed for %s (%q): tree %s, parser %s", d.Name, md, want, got))
			return
		}
		key := "d:" + rep.Hash(md)[:12]
		c.P.Keys = append(c.P.Keys, key)
		c.P.Nontrivial = append(c.P.Nontrivial, key)
		c.P.Add("fidelity_documents", 1)
		sets := quickSets
		if a.AllOptsBlocks > 0 && nblocks <= a.AllOptsBlocks {
			sets = allSets
		}
		memo := map[string]bool{}
		depth := nblocks
		if depth == 0 {
			depth = len(d.Blocks)
		}
		for _, o := range sets {
			c.P.Evals++
			c.P.Transitions++ // one execution of the real converter
			c.P.Add("fidelity_conversions", 1)
			desc := map[string]interface{}{"doc": d.Name, "markdown": md, "options": o.name()}
			report := func(v rep.Violation) {
				v.Depth = depth*1000 + len(md)
				v.What = fmt.Sprintf("%q under %s: %s", md, o.name(), v.What)
				v.Case = shardCase(c, "c19-fid", idx, desc)
				c.P.Violate(v)
			}
			doc, what, detail := c19Convert([]byte(md), o)
			if what != "" {
				c.P.Outcome(strings.SplitN(what, "@", 2)[0])
				report(rep.Violation{Sig: what, Clause: strings.SplitN(what, "|", 2)[0], What: what + " (" + detail + ")"})
				continue
			}
			exp := c19Expected(d.Blocks, o)
			bk, ok := c19BodyKey(doc)
			mk := bk + "|" + exp.Flags
			if ok && !o.isDefault() && memo[mk] {
				c.P.Outcome("same-as-checked")
				continue
			}
			memo[mk] = true
			c.P.Add("fidelity_saves", 1)
			c.P.Traces++
			pk, viol := c19SaveCheck(doc)
			for _, v := range viol {
				report(v)
			}
			if pk == nil || pk.Body() == nil {
				continue
			}
			obs := c19Observe(pk)
			vs := c19Judge(exp, obs)
			if len(vs) > 0 {
				// a failing case is executed a second time from scratch and must fail identically
				if again := c19JudgeAgain(md, o, exp); again != c19SigList(vs) {
					c.P.Notes = append(c.P.Notes, fmt.Sprintf("flaky (not counted): %q under %s gave %s, then %s", md, o.name(), c19SigList(vs), again))
					c.P.Outcome("flaky")
					continue
				}
			}
			if len(vs) == 0 && o.isDefault() && strings.Contains(md, "\n") {
				// the same document with CR LF line endings (a file written on Windows) is the same Markdown
				crlf := strings.ReplaceAll(md, "\n", "\r\n")
				c.P.Evals++
				c.P.Transitions++
				c.P.Add("fidelity_conversions_crlf", 1)
				if sig := c19JudgeAgain(crlf, o, exp); sig != "" {
					if again := c19JudgeAgain(crlf, o, exp); again == sig {
						first := strings.SplitN(strings.Fields(sig)[0], "|", 2)[0]
						c.P.Outcome("crlf-differs")
						report(rep.Violation{Sig: "line-endings|crlf|" + first, Clause: "line-endings", What: "with LF line endings the conversion is faithful, with CR LF line endings it is not: " + sig})
					}
				}
			}
			if len(vs) == 0 && o.isDefault() {
				// the same Markdown through the file-based entry point (ConvertFile writes the .docx itself)
				c.P.Evals++
				c.P.Transitions++
				c.P.Add("fidelity_conversions_file_entry", 1)
				if sig := c19JudgeFile(md, o, exp); sig != "" {
					if again := c19JudgeFile(md, o, exp); again == sig {
						first := strings.SplitN(strings.Fields(sig)[0], "|", 2)[0]
						c.P.Outcome("file-entry-differs")
						report(rep.Violation{Sig: "entry-point|ConvertFile|" + first, Clause: "entry-point", What: "ConvertString/ConvertBytes is faithful, ConvertFile of the same Markdown is not: " + sig})
					}
				}
			}
			if len(vs) == 0 && o.isDefault() {
				// the same Markdown as the third document of a Converter object that is kept and reused
				c.P.Evals++
				c.P.Transitions += 3
				c.P.Add("fidelity_conversions_reused_converter", 1)
				if sig := c19JudgeReused(md, o, exp); sig != "" {
					if again := c19JudgeReused(md, o, exp); again == sig {
						first := strings.SplitN(strings.Fields(sig)[0], "|", 2)[0]
						c.P.Outcome("reused-converter-differs")
						report(rep.Violation{Sig: "converter-reuse|" + first, Clause: "converter-reuse", What: fmt.Sprintf("a fresh Converter converts the Markdown faithfully; a Converter that has converted two other documents before (a generic one and %q) does not: %s", c19SameShapeDecoy(md), sig)})
					}
				}
			}
			if len(vs) == 0 && o.isDefault() {
				// the same document with its leading indentation written with tabs (tab stop 4, as CommonMark
				// defines it): used only when the third-party parser reads it as the same tree
				if tabbed := c19TabIndent(md); tabbed != md && c19CanonAST([]byte(tabbed)) == c19CanonTree(d.Blocks) {
					c.P.Evals++
					c.P.Transitions++
					c.P.Add("fidelity_conversions_tab_indent", 1)
					if sig := c19JudgeAgain(tabbed, o, exp); sig != "" {
						if again := c19JudgeAgain(tabbed, o, exp); again == sig {
							first := strings.SplitN(strings.Fields(sig)[0], "|", 2)[0]
							c.P.Outcome("tab-indent-differs")
							report(rep.Violation{Sig: "indentation|tabs|" + first, Clause: "indentation", What: fmt.Sprintf("with spaces the conversion is faithful, with the same indentation written with tabs (%q) it is not: %s", tabbed, sig)})
						}
					}
				}
			}
			if len(vs) == 0 {
				c.P.Outcome("faithful")
				if samples < 1 && c.Shard < 6 && nblocks >= 2 {
					samples++
					c.P.Samples = append(c.P.Samples, map[string]interface{}{"part": "fidelity", "markdown": md, "options": o.name(), "expected_stream": exp.Stream(), "observed_paragraphs": obs.ParaTexts(), "verdict": "faithful"})
				}
			}
			for _, v := range vs {
				c.P.Outcome(v.Clause)
				report(v)
			}
		}
	})
}
