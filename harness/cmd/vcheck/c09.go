package main

// C09 — tables stay well-formed grids under every sequence of structural edits.

import (
	"encoding/json"
	"fmt"
	"reflect"
	"strconv"
	"strings"

	"github.com/zerx-lab/wordZero/pkg/document"

	"verif/harness/internal/foreign"
	"verif/harness/internal/pkgmodel"
	"verif/harness/internal/rep"
	"verif/harness/internal/seqx"
)

const c09MaxP = 7 // positions range over -1..c09MaxP

type c09Op struct {
	kind       string
	a, b, c, d int
	name       string
}

var c09Ops []c09Op

type c09Seed struct {
	name    string
	r, c    int
	foreign string // body XML for foreign seeds
}

var c09Seeds = []c09Seed{
	{name: "1x1", r: 1, c: 1}, {name: "1x2", r: 1, c: 2}, {name: "2x1", r: 2, c: 1}, {name: "2x2", r: 2, c: 2}, {name: "2x3", r: 2, c: 3}, {name: "3x3", r: 3, c: 3},
	{name: "foreign-ragged", foreign: `<w:tbl><w:tblGrid><w:gridCol w:w="100"/><w:gridCol w:w="100"/></w:tblGrid><w:tr><w:tc><w:p><w:r><w:t>a</w:t></w:r></w:p></w:tc><w:tc><w:p><w:r><w:t>b</w:t></w:r></w:p></w:tc></w:tr><w:tr><w:tc><w:p><w:r><w:t>c</w:t></w:r></w:p></w:tc></w:tr></w:tbl>`},
	{name: "foreign-nogrid", foreign: `<w:tbl><w:tr><w:tc><w:p><w:r><w:t>a</w:t></w:r></w:p></w:tc><w:tc><w:p><w:r><w:t>b</w:t></w:r></w:p></w:tc></w:tr><w:tr><w:tc><w:p><w:r><w:t>c</w:t></w:r></w:p></w:tc><w:tc><w:p><w:r><w:t>d</w:t></w:r></w:p></w:tc></w:tr></w:tbl>`},
	{name: "foreign-spans", foreign: `<w:tbl><w:tblGrid><w:gridCol w:w="100"/><w:gridCol w:w="100"/><w:gridCol w:w="100"/></w:tblGrid><w:tr><w:tc><w:tcPr><w:gridSpan w:val="2"/></w:tcPr><w:p><w:r><w:t>a</w:t></w:r></w:p></w:tc><w:tc><w:tcPr><w:vMerge w:val="restart"/></w:tcPr><w:p><w:r><w:t>b</w:t></w:r></w:p></w:tc></w:tr><w:tr><w:tc><w:p><w:r><w:t>c</w:t></w:r></w:p></w:tc><w:tc><w:p><w:r><w:t>d</w:t></w:r></w:p></w:tc><w:tc><w:tcPr><w:vMerge/></w:tcPr><w:p/></w:tc></w:tr></w:tbl>`},
	{name: "1x4", r: 1, c: 4}, {name: "2x4", r: 2, c: 4}, // wide rows: two separate merges fit into one row (seed C09-d2)
	{name: "foreign-nested", foreign: `<w:tbl><w:tblGrid><w:gridCol w:w="100"/><w:gridCol w:w="100"/></w:tblGrid><w:tr><w:tc><w:p><w:r><w:t>a</w:t></w:r></w:p><w:tbl><w:tblGrid><w:gridCol w:w="50"/></w:tblGrid><w:tr><w:tc><w:p><w:r><w:t>n</w:t></w:r></w:p></w:tc></w:tr></w:tbl><w:p/></w:tc><w:tc><w:p><w:r><w:t>b</w:t></w:r></w:p></w:tc></w:tr></w:tbl>`},
}

func init() {
	add := func(kind string, a, b, c, d int, name string) {
		c09Ops = append(c09Ops, c09Op{kind, a, b, c, d, name})
	}
	for i, s := range c09Seeds {
		add("seed", i, 0, 0, 0, "seed:"+s.name)
	}
	P := func(f func(p int)) {
		for p := -1; p <= c09MaxP; p++ {
			f(p)
		}
	}
	P(func(p int) { add("InsertRow", p, 0, 0, 0, fmt.Sprintf("InsertRow(%d)", p)) })
	add("InsertRowLong", 0, 0, 0, 0, "InsertRow(0,data longer than columns)")
	add("AppendRow", 0, 0, 0, 0, "AppendRow()")
	P(func(p int) { add("DeleteRow", p, 0, 0, 0, fmt.Sprintf("DeleteRow(%d)", p)) })
	P(func(p int) { add("InsertColumn", p, 0, 0, 0, fmt.Sprintf("InsertColumn(%d)", p)) })
	add("InsertColumnLong", 0, 0, 0, 0, "InsertColumn(0,data longer than rows)")
	add("AppendColumn", 0, 0, 0, 0, "AppendColumn()")
	P(func(p int) { add("DeleteColumn", p, 0, 0, 0, fmt.Sprintf("DeleteColumn(%d)", p)) })
	P(func(a int) {
		P(func(b int) {
			add("DeleteRows", a, b, 0, 0, fmt.Sprintf("DeleteRows(%d,%d)", a, b))
			add("DeleteColumns", a, b, 0, 0, fmt.Sprintf("DeleteColumns(%d,%d)", a, b))
			add("SetCellText", a, b, 0, 0, fmt.Sprintf("SetCellText(%d,%d)", a, b))
			add("ClearCellContent", a, b, 0, 0, fmt.Sprintf("ClearCellContent(%d,%d)", a, b))
			add("AddCellParagraph", a, b, 0, 0, fmt.Sprintf("AddCellParagraph(%d,%d)", a, b))
			add("AddNestedTable", a, b, 0, 0, fmt.Sprintf("AddNestedTable(%d,%d)", a, b))
			add("UnmergeCells", a, b, 0, 0, fmt.Sprintf("UnmergeCells(%d,%d)", a, b))
		})
	})
	P(func(a int) {
		P(func(b int) {
			P(func(c int) {
				add("MergeCellsHorizontal", a, b, c, 0, fmt.Sprintf("MergeCellsHorizontal(%d,%d,%d)", a, b, c))
				add("MergeCellsVertical", a, b, c, 0, fmt.Sprintf("MergeCellsVertical(%d,%d,%d)", a, b, c))
			})
		})
	})
	P(func(a int) {
		P(func(b int) {
			P(func(c int) {
				P(func(d int) {
					add("MergeCellsRange", a, b, c, d, fmt.Sprintf("MergeCellsRange(%d,%d,%d,%d)", a, b, c, d))
				})
			})
		})
	})
	add("CopyTable", 0, 0, 0, 0, "CopyTable()")
	add("EnterNested", 0, 0, 0, 0, "AddNestedTable(0,0,2x2): the history continues on the handle the call returned")
	names := make([]string, len(c09Ops))
	for i, o := range c09Ops {
		names[i] = o.name
	}
	seqx.Register(&seqx.Spec{Name: "C09", Ops: names, New: func(args json.RawMessage) seqx.Inst {
		var a c09Args
		json.Unmarshal(args, &a)
		return &c09Inst{args: a}
	}})
	register("C09", "model_checking", runC09)
}

type c09Args struct {
	Seeds    []string `json:"seeds"`
	NoRange  bool     `json:"norange"` // leave MergeCellsRange out (used for the deeper bound)
	MaxShape int      `json:"maxshape"`
	// Only: when non-empty, only these operation kinds are enabled (merge-focused deeper phase)
	Only []string `json:"only"`
}

type c09Inst struct {
	args   c09Args
	doc    *document.Document
	t      *document.Table
	tokN   int
	lastNT bool
	// after a CopyTable step the history continues on the copy (which takes the original's place in the
	// document); the original is kept and must never change again
	orig     *document.Table
	origDump string
	// after an EnterNested step the history continues on the handle AddNestedTable returned; the table the
	// parent hands out for that cell must stay the very same table
	parent     *document.Table
	nestedInit string
}

type c09Cell struct {
	Tok    string
	Span   int
	VM     string
	Paras  int
	Nested int
}

type c09Snap struct {
	Grid int // -1 when no grid
	Rows [][]c09Cell
}

func cellTok(c *document.TableCell) string {
	var b strings.Builder
	for i, p := range c.Paragraphs {
		for _, r := range p.Runs {
			b.WriteString(r.Text.Content)
		}
		if i < len(c.Paragraphs)-1 {
			b.WriteString("\n")
		}
	}
	return b.String()
}

func c09Snapshot(t *document.Table) c09Snap {
	s := c09Snap{Grid: -1}
	if t.Grid != nil {
		s.Grid = len(t.Grid.Cols)
	}
	for i := range t.Rows {
		var row []c09Cell
		for j := range t.Rows[i].Cells {
			c := &t.Rows[i].Cells[j]
			m := c09Cell{Tok: cellTok(c), Span: 1, Paras: len(c.Paragraphs), Nested: len(c.Tables)}
			if c.Properties != nil {
				if c.Properties.GridSpan != nil {
					if n, err := strconv.Atoi(c.Properties.GridSpan.Val); err == nil && n >= 1 {
						m.Span = n
					}
				}
				if c.Properties.VMerge != nil {
					if c.Properties.VMerge.Val == "restart" {
						m.VM = "start"
					} else {
						m.VM = "cont"
					}
				}
			}
			row = append(row, m)
		}
		s.Rows = append(s.Rows, row)
	}
	return s
}

func (s c09Snap) class() string {
	if s.Grid < 0 {
		return "no-grid"
	}
	hspan, vm := false, false
	for _, r := range s.Rows {
		sum := 0
		for _, c := range r {
			sum += c.Span
			if c.Span > 1 {
				hspan = true
			}
			if c.VM != "" {
				vm = true
			}
		}
		if sum != s.Grid {
			return "ragged"
		}
	}
	switch {
	case hspan && vm:
		return "has-hspan+vmerge"
	case hspan:
		return "has-hspan"
	case vm:
		return "has-vmerge"
	}
	return "rect"
}

func (s c09Snap) maxCols() int {
	m := 0
	if s.Grid > m {
		m = s.Grid
	}
	for _, r := range s.Rows {
		if len(r) > m {
			m = len(r)
		}
	}
	return m
}

// invariants W2-W4 on a snapshot
func (s c09Snap) invariants() []string {
	var out []string
	want := s.Grid
	for i, r := range s.Rows {
		sum := 0
		for _, c := range r {
			sum += c.Span
		}
		if want < 0 {
			want = sum
		}
		if sum != want {
			out = append(out, fmt.Sprintf("W2:row %d spans %d grid columns, grid declares %d", i, sum, want))
			break
		}
	}
	for i, r := range s.Rows {
		for j, c := range r {
			if c.Paras < 1 {
				out = append(out, fmt.Sprintf("W3:cell (%d,%d) has no paragraph", i, j))
				goto w4
			}
		}
	}
w4:
	for i, r := range s.Rows {
		col := 0
		for j, c := range r {
			if c.VM == "cont" {
				ok := false
				if i > 0 {
					pc := 0
					for _, u := range s.Rows[i-1] {
						if pc == col && u.Span == c.Span && u.VM != "" {
							ok = true
						}
						pc += u.Span
					}
				}
				if !ok {
					out = append(out, fmt.Sprintf("W4:vMerge continuation at (%d,%d) grid column %d has no matching start above", i, j, col))
					return out
				}
			}
			col += c.Span
		}
	}
	return out
}

func (i *c09Inst) Enabled(op int) bool {
	o := c09Ops[op]
	if o.kind == "seed" {
		if i.t != nil {
			return false
		}
		if len(i.args.Seeds) == 0 {
			return true
		}
		for _, s := range i.args.Seeds {
			if s == c09Seeds[o.a].name {
				return true
			}
		}
		return false
	}
	if i.t == nil {
		return false
	}
	if o.kind == "MergeCellsRange" && i.args.NoRange {
		return false
	}
	if len(i.args.Only) > 0 {
		ok := false
		for _, k := range i.args.Only {
			ok = ok || k == o.kind
		}
		if !ok {
			return false
		}
	}
	if o.kind == "CopyTable" && (i.orig != nil || i.parent != nil) {
		return false
	}
	if o.kind == "EnterNested" {
		return i.parent == nil && i.orig == nil && len(i.t.Rows) > 0 && len(i.t.Rows[0].Cells) > 0
	}
	R := len(i.t.Rows)
	C := c09Snapshot(i.t).maxCols()
	le := func(v, n int) bool { return v <= n+1 }
	switch o.kind {
	case "InsertRow", "DeleteRow":
		return le(o.a, R)
	case "InsertColumn", "DeleteColumn":
		return le(o.a, C)
	case "DeleteRows":
		return le(o.a, R) && le(o.b, R)
	case "DeleteColumns":
		return le(o.a, C) && le(o.b, C)
	case "SetCellText", "ClearCellContent", "AddCellParagraph", "AddNestedTable", "UnmergeCells":
		return le(o.a, R) && le(o.b, C)
	case "MergeCellsHorizontal":
		return le(o.a, R) && le(o.b, C) && le(o.c, C)
	case "MergeCellsVertical":
		return le(o.a, R) && le(o.b, R) && le(o.c, C)
	case "MergeCellsRange":
		return le(o.a, R) && le(o.b, R) && le(o.c, C) && le(o.d, C)
	}
	return true
}

func (i *c09Inst) Nontrivial() bool { return i.lastNT }

func tokRows(s c09Snap) [][]string {
	out := make([][]string, len(s.Rows))
	for i, r := range s.Rows {
		for _, c := range r {
			out[i] = append(out[i], c.Tok)
		}
	}
	return out
}

func eqRows(a, b [][]string) bool {
	if len(a) != len(b) {
		return false
	}
	for i := range a {
		if len(a[i]) != len(b[i]) {
			return false
		}
		for j := range a[i] {
			if a[i][j] != b[i][j] {
				return false
			}
		}
	}
	return true
}

func cloneRows(a [][]string) [][]string {
	out := make([][]string, len(a))
	for i := range a {
		out[i] = append([]string{}, a[i]...)
	}
	return out
}

// isSubseqWith says whether b can be obtained from a by at most ins insertions and del deletions of single tokens.
func editWithin(a, b []string, ins, del int) bool {
	// small sequences: simple DP on (i,j) -> minimal (ins,del) is overkill; use LCS length
	n, m := len(a), len(b)
	l := make([][]int, n+1)
	for i := range l {
		l[i] = make([]int, m+1)
	}
	for i := 1; i <= n; i++ {
		for j := 1; j <= m; j++ {
			if a[i-1] == b[j-1] {
				l[i][j] = l[i-1][j-1] + 1
			} else if l[i-1][j] > l[i][j-1] {
				l[i][j] = l[i-1][j]
			} else {
				l[i][j] = l[i][j-1]
			}
		}
	}
	lcs := l[n][m]
	return n-lcs <= del && m-lcs <= ins
}

// expectation computes, from the physical token rows before the call, what the
// plain rows-by-columns model says about the rows after it.
//   valid: +1 the model accepts the call, -1 it rejects it, 0 no opinion
//   exact: expected token rows (nil when only the lenient rule applies)
//   lenient: per-row edit allowance for column operations on non-rectangular tables
type c09Expect struct {
	valid   int
	exact   [][]string
	colIns  int
	colDel  int
	lenient bool
}

func (i *c09Inst) expect(o c09Op, before c09Snap, class string, newTok string) c09Expect {
	rows := tokRows(before)
	R := len(rows)
	rect := class == "rect"
	C := 0
	if R > 0 {
		C = len(rows[0])
	}
	e := c09Expect{}
	in := func(v, n int) bool { return v >= 0 && v < n }
	switch o.kind {
	case "InsertRow", "AppendRow", "InsertRowLong":
		p := o.a
		if o.kind == "AppendRow" {
			p = R
		}
		if o.kind == "InsertRowLong" {
			e.valid = -1
			return e
		}
		if p < 0 || p > R {
			e.valid = -1
			return e
		}
		if rect {
			e.valid = 1
			nr := make([]string, C)
			if C > 0 {
				nr[0] = newTok
			}
			ex := cloneRows(rows)
			ex = append(ex[:p], append([][]string{nr}, ex[p:]...)...)
			e.exact = ex
		} else {
			// frame: old rows unchanged and in order around one new row
			e.lenient = true
		}
	case "DeleteRow":
		if !in(o.a, R) {
			e.valid = -1
			return e
		}
		if R <= 1 {
			e.valid = 0
			return e
		}
		if rect {
			e.valid = 1
		}
		ex := cloneRows(rows)
		e.exact = append(ex[:o.a], ex[o.a+1:]...)
	case "DeleteRows":
		if !(in(o.a, R) && in(o.b, R) && o.a <= o.b) {
			e.valid = -1
			return e
		}
		if R-(o.b-o.a+1) < 1 {
			e.valid = 0
			return e
		}
		if rect {
			e.valid = 1
		}
		ex := cloneRows(rows)
		e.exact = append(ex[:o.a], ex[o.b+1:]...)
	case "InsertColumn", "AppendColumn", "InsertColumnLong":
		if o.kind == "InsertColumnLong" {
			e.valid = -1
			return e
		}
		p := o.a
		if o.kind == "AppendColumn" {
			p = C
		}
		if rect {
			if p < 0 || p > C {
				e.valid = -1
				return e
			}
			e.valid = 1
			ex := cloneRows(rows)
			for r := range ex {
				tok := ""
				if r == 0 {
					tok = newTok
				}
				ex[r] = append(ex[r][:p], append([]string{tok}, ex[r][p:]...)...)
			}
			e.exact = ex
		} else {
			e.lenient = true
			e.colIns = 1
		}
	case "DeleteColumn":
		if rect {
			if !in(o.a, C) {
				e.valid = -1
				return e
			}
			if C <= 1 {
				return e
			}
			e.valid = 1
			ex := cloneRows(rows)
			for r := range ex {
				ex[r] = append(ex[r][:o.a], ex[r][o.a+1:]...)
			}
			e.exact = ex
		} else {
			e.lenient = true
			e.colDel = 1
		}
	case "DeleteColumns":
		if rect {
			if !(in(o.a, C) && in(o.b, C) && o.a <= o.b) {
				e.valid = -1
				return e
			}
			if C-(o.b-o.a+1) < 1 {
				return e
			}
			e.valid = 1
			ex := cloneRows(rows)
			for r := range ex {
				ex[r] = append(ex[r][:o.a], ex[r][o.b+1:]...)
			}
			e.exact = ex
		} else {
			e.lenient = true
			if o.b >= o.a {
				e.colDel = o.b - o.a + 1
			}
		}
	case "SetCellText", "ClearCellContent", "AddCellParagraph", "AddNestedTable":
		if !(in(o.a, R) && in(o.b, len(rows[o.a]))) {
			e.valid = -1
			return e
		}
		e.valid = 1
		ex := cloneRows(rows)
		switch o.kind {
		case "SetCellText":
			// the first run of the first paragraph is replaced; a cell with one paragraph/run gets exactly the text
			if before.Rows[o.a][o.b].Paras <= 1 {
				ex[o.a][o.b] = newTok
			} else {
				ex[o.a][o.b] = "\x00any"
			}
		case "ClearCellContent":
			ex[o.a][o.b] = "\x00any"
		case "AddCellParagraph":
			ex[o.a][o.b] = "\x00any"
		}
		e.exact = ex
	case "MergeCellsHorizontal":
		r, a, b := o.a, o.b, o.c
		if !(in(r, R) && in(a, len(rows[r])) && in(b, len(rows[r])) && a <= b) {
			e.valid = -1
			return e
		}
		if a == b {
			return e // merging a single cell: either outcome is fine, but a success must change nothing
		}
		ex := cloneRows(rows)
		ex[r] = append(append([]string{}, ex[r][:a+1]...), ex[r][b+1:]...)
		e.exact = ex
		if rect {
			e.valid = 1
		}
	case "MergeCellsVertical":
		a, b, c := o.a, o.b, o.c
		if !(in(a, R) && in(b, R) && a <= b && c >= 0) {
			e.valid = -1
			return e
		}
		for r := a; r <= b; r++ {
			if !in(c, len(rows[r])) {
				e.valid = -1
				return e
			}
		}
		if a == b {
			return e
		}
		ex := cloneRows(rows)
		for r := a + 1; r <= b; r++ {
			ex[r][c] = ""
		}
		e.exact = ex
		if rect {
			e.valid = 1
		}
	case "MergeCellsRange":
		a, b, c, d := o.a, o.b, o.c, o.d
		if !(in(a, R) && in(b, R) && a <= b && c >= 0 && c <= d) {
			e.valid = -1
			return e
		}
		for r := a; r <= b; r++ {
			if !in(c, len(rows[r])) || !in(d, len(rows[r])) {
				e.valid = -1
				return e
			}
		}
		if a == b && c == d {
			return e
		}
		ex := cloneRows(rows)
		for r := a; r <= b; r++ {
			ex[r] = append(append([]string{}, ex[r][:c+1]...), ex[r][d+1:]...)
		}
		for r := a + 1; r <= b; r++ {
			ex[r][c] = ""
		}
		e.exact = ex
		if rect {
			e.valid = 1
		}
	case "UnmergeCells":
		if !(in(o.a, R) && in(o.b, len(rows[o.a]))) {
			e.valid = -1
			return e
		}
		// success: tokens keep their order, new empty cells may appear in that row
		e.lenient = true
	}
	return e
}

func (i *c09Inst) sig(clause string, o c09Op, class, extra string) string {
	s := clause + "|" + o.kind + "|" + class
	if extra != "" {
		s += "|" + extra
	}
	return s
}

func (i *c09Inst) Apply(op int) (string, []rep.Violation) {
	out, viol := i.apply0(op)
	if i.parent != nil {
		viol = append(viol, i.checkNestedHandle(c09Ops[op].kind)...)
	}
	return out, viol
}

// checkNestedHandle: what the parent table holds in cell (0,0) is the table the caller's handle shows.
func (i *c09Inst) checkNestedHandle(kind string) []rep.Violation {
	var held []document.Table
	var err error
	if p := guard(func() { held, err = i.parent.GetNestedTables(0, 0) }); p != "" || err != nil || len(held) == 0 {
		return []rep.Violation{{Sig: "W8-nested-handle|parent-has-no-nested-table|after=" + kind, Clause: "W8", What: fmt.Sprintf("after %s on the handle AddNestedTable returned, the parent cell (0,0) holds no nested table (%v %v)", kind, p, err)}}
	}
	a, _ := json.Marshal(&held[len(held)-1])
	b, _ := json.Marshal(i.t)
	if string(a) == string(b) || string(a) == i.nestedInit {
		// the handle is the table in the document - or it is a fully separate table and the one in the
		// document is exactly as it was created (the statement does not promise a live handle)
		return nil
	}
	return []rep.Violation{{Sig: "W8-nested-handle|half-shared|after=" + kind, Clause: "W8", What: fmt.Sprintf("after %s on the handle AddNestedTable returned, the nested table the parent cell holds is neither the handle's table nor the table as it was created: the two share part of their state", kind)}}
}

func (i *c09Inst) apply0(op int) (string, []rep.Violation) {
	o := c09Ops[op]
	i.lastNT = false
	if o.kind == "EnterNested" {
		var h *document.Table
		var err error
		if p := guard(func() {
			h, err = i.t.AddNestedTable(0, 0, &document.TableConfig{Rows: 2, Cols: 2, Width: 2000, Data: [][]string{{"e00", "e01"}, {"e10", "e11"}}})
		}); p != "" || err != nil || h == nil {
			return "error", nil // the call itself is judged by the AddNestedTable operation
		}
		i.parent, i.t = i.t, h
		if held, e := i.parent.GetNestedTables(0, 0); e == nil && len(held) > 0 {
			d, _ := json.Marshal(&held[len(held)-1])
			i.nestedInit = string(d)
		}
		i.lastNT = true
		return "entered", nil
	}
	if o.kind == "seed" {
		document.VerifResetGlobals()
		s := c09Seeds[o.a]
		if s.foreign != "" {
			d, errS := reopen(foreign.Minimal(s.foreign))
			if errS != "" {
				panic("foreign seed does not open: " + errS)
			}
			i.doc = d
			ts := d.Body.GetTables()
			if len(ts) != 1 {
				panic("foreign seed: expected one table")
			}
			i.t = ts[0]
		} else {
			i.doc = document.New()
			data := make([][]string, s.r)
			for r := range data {
				for c := 0; c < s.c; c++ {
					data[r] = append(data[r], fmt.Sprintf("r%dc%d", r, c))
				}
			}
			t, err := i.doc.AddTable(&document.TableConfig{Rows: s.r, Cols: s.c, Width: 6000, Data: data})
			if err != nil {
				panic(err)
			}
			i.t = t
		}
		i.lastNT = true
		return "seeded", nil
	}
	var viol []rep.Violation
	t := i.t
	before := c09Snapshot(t)
	class := before.class()
	beforeDump, _ := json.Marshal(t)
	i.tokN++
	newTok := fmt.Sprintf("n%d", i.tokN)
	ex := i.expect(o, before, class, newTok)
	add := func(clause, extra, what string) {
		viol = append(viol, rep.Violation{Sig: i.sig(clause, o, class, extra), Clause: clause, What: o.name + " on a " + class + " table: " + what})
	}
	var err error
	var cp *document.Table
	// an iterator made before the call: after Reset it must walk the table as it is then
	var oldIter *document.CellIterator
	guard(func() { oldIter = t.NewCellIterator() })
	pan := guard(func() {
		switch o.kind {
		case "InsertRow":
			err = t.InsertRow(o.a, []string{newTok})
		case "InsertRowLong":
			err = t.InsertRow(0, make([]string, before.maxCols()+1))
		case "AppendRow":
			err = t.AppendRow([]string{newTok})
		case "DeleteRow":
			err = t.DeleteRow(o.a)
		case "DeleteRows":
			err = t.DeleteRows(o.a, o.b)
		case "InsertColumn":
			err = t.InsertColumn(o.a, []string{newTok}, 1000)
		case "InsertColumnLong":
			err = t.InsertColumn(0, make([]string, len(before.Rows)+1), 1000)
		case "AppendColumn":
			err = t.AppendColumn([]string{newTok}, 1000)
		case "DeleteColumn":
			err = t.DeleteColumn(o.a)
		case "DeleteColumns":
			err = t.DeleteColumns(o.a, o.b)
		case "SetCellText":
			err = t.SetCellText(o.a, o.b, newTok)
		case "ClearCellContent":
			err = t.ClearCellContent(o.a, o.b)
		case "AddCellParagraph":
			_, err = t.AddCellParagraph(o.a, o.b, newTok)
		case "AddNestedTable":
			_, err = t.AddNestedTable(o.a, o.b, &document.TableConfig{Rows: 1, Cols: 1, Width: 1000, Data: [][]string{{"nested"}}})
		case "MergeCellsHorizontal":
			err = t.MergeCellsHorizontal(o.a, o.b, o.c)
		case "MergeCellsVertical":
			err = t.MergeCellsVertical(o.a, o.b, o.c)
		case "MergeCellsRange":
			err = t.MergeCellsRange(o.a, o.b, o.c, o.d)
		case "UnmergeCells":
			err = t.UnmergeCells(o.a, o.b)
		case "CopyTable":
			cp = t.CopyTable()
		}
	})
	if pan != "" {
		add("W0-panic", panicClass(pan), pan)
		i.lastNT = true
		return "panic", viol
	}
	after := c09Snapshot(t)
	afterDump, _ := json.Marshal(t)
	if o.kind == "CopyTable" {
		viol = append(viol, i.checkCopy(o, class, before, cp)...)
		if string(afterDump) != string(beforeDump) {
			add("W7-copy-changed-original", "", "the table changed while being copied")
		}
		i.lastNT = true
		// the history goes on with a second, untouched copy put in the original's place in the document
		var cp2 *document.Table
		if p2 := guard(func() { cp2 = t.CopyTable() }); p2 == "" && cp2 != nil && cp2 != t {
			for k, e := range i.doc.Body.Elements {
				if e == interface{}(t) {
					i.doc.Body.Elements[k] = cp2
				}
			}
			i.orig, i.t = t, cp2
			od, _ := json.Marshal(t)
			i.origDump = string(od)
		}
		return "copied", viol
	}
	if i.orig != nil {
		if od, _ := json.Marshal(i.orig); string(od) != i.origDump {
			viol = append(viol, rep.Violation{Sig: "W7-op-on-copy-changes-original|" + o.kind, Clause: "W7", What: o.name + " on a copy changed the table it was copied from"})
			i.origDump = string(od)
		}
	}
	if err != nil {
		if string(afterDump) != string(beforeDump) {
			add("W1-error-not-atomic", "", fmt.Sprintf("returned error %q but the table changed", err.Error()))
			i.lastNT = true
		}
		if ex.valid > 0 {
			add("valid-call-rejected", "", fmt.Sprintf("the plain model accepts this call; error %q", err.Error()))
		}
		return "error", viol
	}
	// success
	changed := string(afterDump) != string(beforeDump)
	i.lastNT = changed
	if ex.valid < 0 && changed {
		add("W5-out-of-range-accepted", "", "the plain model has no such position/range, yet the call succeeded and changed the table")
	}
	for _, p := range after.invariants() {
		// do not re-report an invariant that was already broken before this call
		pre := false
		for _, q := range before.invariants() {
			if q[:2] == p[:2] {
				pre = true
			}
		}
		if !pre {
			add(p[:2], "", p[3:])
		}
	}
	got := tokRows(after)
	if ex.valid >= 0 {
		switch {
		case ex.exact != nil:
			ok := len(got) == len(ex.exact)
			for r := 0; ok && r < len(got); r++ {
				if len(got[r]) != len(ex.exact[r]) {
					ok = false
					break
				}
				for c := range got[r] {
					if ex.exact[r][c] != "\x00any" && got[r][c] != ex.exact[r][c] {
						ok = false
					}
				}
			}
			if !ok {
				add("W5-contents-misplaced", "", fmt.Sprintf("cells after %v, plain model %v", got, ex.exact))
			}
		case ex.lenient:
			b := tokRows(before)
			ok := true
			switch o.kind {
			case "InsertRow", "AppendRow":
				// old rows, unchanged, in order, with exactly one new row
				ok = len(got) == len(b)+1
				if ok {
					k := 0
					for _, r := range got {
						if k < len(b) && eqStr(r, b[k]) {
							k++
						}
					}
					ok = k == len(b)
				}
			case "UnmergeCells":
				ok = len(got) == len(b)
				for r := 0; ok && r < len(b); r++ {
					if r == o.a {
						ok = editWithin(b[r], got[r], 64, 0)
					} else {
						ok = eqStr(b[r], got[r])
					}
				}
			default:
				ok = len(got) == len(b)
				for r := 0; ok && r < len(b); r++ {
					ok = editWithin(b[r], got[r], ex.colIns, ex.colDel)
				}
			}
			if !ok {
				add("W5-frame", "", fmt.Sprintf("cells before %v after %v", b, got))
			}
		}
	}
	// W6 accessors
	viol = append(viol, i.checkAccessors(o, after)...)
	if oldIter != nil {
		var seen [][2]int
		pi := guard(func() {
			oldIter.Reset()
			for n := 0; oldIter.HasNext() && n < 1000; n++ {
				ci, e := oldIter.Next()
				if e != nil || ci == nil {
					seen = append(seen, [2]int{-1, -1})
					break
				}
				seen = append(seen, [2]int{ci.Row, ci.Col})
			}
		})
		var want [][2]int
		for r := range after.Rows {
			for c := range after.Rows[r] {
				want = append(want, [2]int{r, c})
			}
		}
		if pi != "" {
			viol = append(viol, rep.Violation{Sig: "W0-panic|iterator-made-before-" + o.kind + "|" + panicClass(pi), Clause: "W0", What: "an iterator created before " + o.name + " panics when reset and used after it: " + pi})
		} else if fmt.Sprint(seen) != fmt.Sprint(want) {
			viol = append(viol, rep.Violation{Sig: "W6-iterator-made-before-the-call|" + class, Clause: "W6", What: fmt.Sprintf("an iterator created before %s, reset after it, visits %v; the cells are %v", o.name, seen, want)})
		}
	}
	if changed {
		return "ok", viol
	}
	return "ok-nochange", viol
}

func eqStr(a, b []string) bool {
	if len(a) != len(b) {
		return false
	}
	for i := range a {
		if a[i] != b[i] {
			return false
		}
	}
	return true
}

func (i *c09Inst) checkAccessors(o c09Op, s c09Snap) []rep.Violation {
	var viol []rep.Violation
	class := s.class()
	t := i.t
	add := func(clause, what string) {
		viol = append(viol, rep.Violation{Sig: clause + "|" + class, Clause: clause, What: "after " + o.name + " (" + class + " table): " + what})
	}
	pan := guard(func() {
		if t.GetRowCount() != len(s.Rows) {
			add("W6-GetRowCount", fmt.Sprintf("%d vs %d rows", t.GetRowCount(), len(s.Rows)))
		}
		if class == "rect" && len(s.Rows) > 0 && t.GetColumnCount() != s.Grid {
			add("W6-GetColumnCount", fmt.Sprintf("%d vs %d grid columns", t.GetColumnCount(), s.Grid))
		}
		for r := range s.Rows {
			for c := range s.Rows[r] {
				txt, err := t.GetCellText(r, c)
				if err != nil || txt != s.Rows[r][c].Tok {
					add("W6-GetCellText", fmt.Sprintf("(%d,%d): %q err=%v, structure has %q", r, c, txt, err, s.Rows[r][c].Tok))
					return
				}
			}
		}
		// iterator: every physical cell exactly once, row-major
		var seen [][2]int
		err := t.ForEach(func(row, col int, cell *document.TableCell, text string) error {
			seen = append(seen, [2]int{row, col})
			return nil
		})
		var want [][2]int
		for r := range s.Rows {
			for c := range s.Rows[r] {
				want = append(want, [2]int{r, c})
			}
		}
		if err != nil || fmt.Sprint(seen) != fmt.Sprint(want) {
			add("W6-ForEach", fmt.Sprintf("visited %v err=%v, cells are %v", seen, err, want))
		}
	})
	if pan != "" {
		add("W0-panic-accessor|"+panicClass(pan), pan)
	}
	return viol
}

// sharedPaths walks two values and returns the paths (indices stripped) at which both hold the same non-nil pointer / slice backing array.
func sharedPaths(a, b reflect.Value, path string, out map[string]bool, depth int) {
	if depth > 12 || !a.IsValid() || !b.IsValid() || a.Type() != b.Type() {
		return
	}
	switch a.Kind() {
	case reflect.Ptr:
		if a.IsNil() || b.IsNil() {
			return
		}
		if a.Pointer() == b.Pointer() {
			out[path] = true
			return
		}
		sharedPaths(a.Elem(), b.Elem(), path, out, depth+1)
	case reflect.Struct:
		for k := 0; k < a.NumField(); k++ {
			f := a.Type().Field(k)
			if f.PkgPath != "" {
				continue
			}
			sharedPaths(a.Field(k), b.Field(k), path+"."+f.Name, out, depth+1)
		}
	case reflect.Slice:
		if a.Len() > 0 && b.Len() > 0 && a.Pointer() == b.Pointer() {
			out[path+"[]"] = true
			return
		}
		n := a.Len()
		if b.Len() < n {
			n = b.Len()
		}
		for k := 0; k < n; k++ {
			sharedPaths(a.Index(k), b.Index(k), path+"[]", out, depth+1)
		}
	case reflect.Interface:
		if !a.IsNil() && !b.IsNil() {
			sharedPaths(a.Elem(), b.Elem(), path, out, depth+1)
		}
	}
}

func (i *c09Inst) checkCopy(o c09Op, class string, before c09Snap, cp *document.Table) []rep.Violation {
	var viol []rep.Violation
	if cp == nil {
		return []rep.Violation{{Sig: "W7-copy-nil|" + class, Clause: "W7", What: "CopyTable returned nil"}}
	}
	if cp == i.t {
		return []rep.Violation{{Sig: "W7-copy-is-original|" + class, Clause: "W7", What: "CopyTable returned the table itself"}}
	}
	shared := map[string]bool{}
	sharedPaths(reflect.ValueOf(i.t).Elem(), reflect.ValueOf(cp).Elem(), "Table", shared, 0)
	for p := range shared {
		viol = append(viol, rep.Violation{Sig: "W7-copy-shares-state|" + p, Clause: "W7", What: "copy and original share the mutable object at " + p})
	}
	// the copy must be a copy: same structure and content
	cs := c09Snapshot(cp)
	bj, _ := json.Marshal(before)
	cj, _ := json.Marshal(cs)
	if string(bj) != string(cj) {
		what := "content"
		nested := false
		for _, r := range before.Rows {
			for _, c := range r {
				if c.Nested > 0 {
					nested = true
				}
			}
		}
		if nested {
			what = "nested-tables"
		}
		viol = append(viol, rep.Violation{Sig: "W7-copy-differs|" + what, Clause: "W7", What: fmt.Sprintf("copy %s differs from original %s", cj, bj)})
	}
	// behavioural check: edit the copy through the API, the original must not change (and vice versa)
	od, _ := json.Marshal(i.t)
	guard(func() {
		for r := range cp.Rows {
			for c := range cp.Rows[r].Cells {
				cp.SetCellText(r, c, "EDIT")
				cp.SetCellFormat(r, c, &document.CellFormat{TextFormat: &document.TextFormat{Bold: true}, HorizontalAlign: document.CellAlignRight})
				cp.SetCellShading(r, c, &document.ShadingConfig{Pattern: document.ShadingPatternClear, BackgroundColor: "FF0000"})
			}
		}
		cp.SetTableAlignment(document.TableAlignLeft)
		cp.AppendColumn(nil, 500)
		if len(cp.Rows) > 0 {
			cp.SetRowHeight(0, &document.RowHeightConfig{Height: 30, Rule: document.RowHeightExact})
		}
	})
	od2, _ := json.Marshal(i.t)
	if string(od) != string(od2) {
		viol = append(viol, rep.Violation{Sig: "W7-edit-of-copy-changes-original|" + class, Clause: "W7", What: "editing the copy through the API changed the original"})
	}
	return viol
}

func (i *c09Inst) Key() string {
	if i.t == nil {
		return "init"
	}
	s := c09Snapshot(i.t)
	ren := map[string]string{}
	var b strings.Builder
	if i.orig != nil {
		b.WriteString("copy;")
	}
	if i.parent != nil {
		// the handle's relation to the table the parent holds is part of the state
		same := "same"
		if len(i.checkNestedHandle("")) > 0 {
			same = "detached"
		}
		b.WriteString("nested-handle-" + same + ";")
	}
	fmt.Fprintf(&b, "g%d;", s.Grid)
	for _, r := range s.Rows {
		for _, c := range r {
			k, ok := ren[c.Tok]
			if !ok {
				k = fmt.Sprintf("t%d", len(ren))
				if c.Tok == "" {
					k = "e"
				}
				ren[c.Tok] = k
			}
			fmt.Fprintf(&b, "%s,%d,%s,%d,%d|", k, c.Span, c.VM, c.Paras, c.Nested)
		}
		b.WriteString("/")
	}
	// hidden state of the Table object itself (a cached count, a remembered pointer): reflective, so a field that
	// a change adds is part of the key without touching this file
	b.WriteString("#" + document.VerifShallowOf(i.t))
	return b.String()
}

// Deep: the saved w:tbl satisfies W2-W4.
func (i *c09Inst) Deep() []rep.Violation {
	if i.t == nil {
		return nil
	}
	// what is saved is judged against the table the DOCUMENT holds (after EnterNested: the nested table of the
	// parent's first cell, which is the handle's table unless the handle is a separate object)
	inDoc := i.t
	if i.parent != nil {
		if held, e := i.parent.GetNestedTables(0, 0); e == nil && len(held) > 0 {
			inDoc = &held[len(held)-1]
		}
	}
	class := c09Snapshot(inDoc).class()
	mem := c09Snapshot(inDoc).invariants()
	pkg, _, errS := saveRead(i.doc)
	if errS != "" {
		return []rep.Violation{{Sig: "save-failed|" + class, Clause: "save", What: errS}}
	}
	body := pkg.Body()
	if body == nil {
		return []rep.Violation{{Sig: "saved-body-missing", Clause: "save", What: "no body"}}
	}
	tbls := body.Children(pkgmodel.NsW, "tbl")
	if len(tbls) != 1 {
		return []rep.Violation{{Sig: "saved-table-count", Clause: "save", What: fmt.Sprint(len(tbls))}}
	}
	saved := tbls[0]
	if i.parent != nil {
		// the table under edit is the last nested table of the parent's first cell
		var nt []*pkgmodel.Node
		if trs := saved.Children(pkgmodel.NsW, "tr"); len(trs) > 0 {
			if tcs := trs[0].Children(pkgmodel.NsW, "tc"); len(tcs) > 0 {
				nt = tcs[0].Children(pkgmodel.NsW, "tbl")
			}
		}
		if len(nt) == 0 {
			return []rep.Violation{{Sig: "saved-nested-table-missing|" + class, Clause: "save", What: "the nested table added to cell (0,0) is not in the saved w:tbl"}}
		}
		saved = nt[len(nt)-1]
	}
	s := xmlTableSnap(saved)
	var out []rep.Violation
	for _, p := range s.invariants() {
		already := false
		for _, q := range mem {
			if q[:2] == p[:2] {
				already = true
			}
		}
		if !already {
			out = append(out, rep.Violation{Sig: "saved-" + p[:2] + "|" + class, Clause: p[:2], What: "saved w:tbl: " + p[3:]})
		}
	}
	// the saved table has the same shape as the in-memory one
	ms := c09Snapshot(inDoc)
	if len(ms.Rows) != len(s.Rows) {
		out = append(out, rep.Violation{Sig: "saved-shape|" + class, Clause: "save", What: fmt.Sprintf("%d rows in memory, %d saved", len(ms.Rows), len(s.Rows))})
	} else {
		for r := range ms.Rows {
			if len(ms.Rows[r]) != len(s.Rows[r]) {
				out = append(out, rep.Violation{Sig: "saved-shape|" + class, Clause: "save", What: fmt.Sprintf("row %d: %d cells in memory, %d saved", r, len(ms.Rows[r]), len(s.Rows[r]))})
				break
			}
			for c := range ms.Rows[r] {
				a, b := ms.Rows[r][c], s.Rows[r][c]
				if a.Span != b.Span || a.VM != b.VM || a.Nested != b.Nested || strings.ReplaceAll(a.Tok, "\n", "") != b.Tok {
					out = append(out, rep.Violation{Sig: "saved-cell-differs|" + class, Clause: "save", What: fmt.Sprintf("cell (%d,%d): memory %+v saved %+v", r, c, a, b)})
					return out
				}
			}
		}
	}
	return out
}

func xmlTableSnap(tbl *pkgmodel.Node) c09Snap {
	s := c09Snap{Grid: -1}
	if g := tbl.Child(pkgmodel.NsW, "tblGrid"); g != nil {
		s.Grid = len(g.Children(pkgmodel.NsW, "gridCol"))
	}
	for _, tr := range tbl.Children(pkgmodel.NsW, "tr") {
		var row []c09Cell
		for _, tc := range tr.Children(pkgmodel.NsW, "tc") {
			m := c09Cell{Span: 1}
			m.Paras = len(tc.Children(pkgmodel.NsW, "p"))
			m.Nested = len(tc.Children(pkgmodel.NsW, "tbl"))
			for _, p := range tc.Children(pkgmodel.NsW, "p") {
				m.Tok += p.WText()
			}
			if pr := tc.Child(pkgmodel.NsW, "tcPr"); pr != nil {
				if gs := pr.Child(pkgmodel.NsW, "gridSpan"); gs != nil {
					if n, err := strconv.Atoi(gs.AttrW("val")); err == nil && n >= 1 {
						m.Span = n
					}
				}
				if vm := pr.Child(pkgmodel.NsW, "vMerge"); vm != nil {
					if vm.AttrW("val") == "restart" {
						m.VM = "start"
					} else {
						m.VM = "cont"
					}
				}
			}
			row = append(row, m)
		}
		s.Rows = append(s.Rows, row)
	}
	return s
}

func runC09(r *rep.Run) {
	r.Rule = "BFS over histories of row/column insert/delete, cell writes, merges (horizontal/vertical/range), unmerge and copy on real tables, every position and range over -1..n+1; oracle after each call: W0 no panic, W1 error leaves the deep dump unchanged, W2 span sums = grid, W3 >=1 paragraph per cell, W4 vMerge continuations under a start, W5 untargeted cell contents where the plain rows-by-columns model puts them (exact on rectangular tables, frame condition otherwise), W6 accessors/iterator agree, W7 copies share nothing, and after a copy the history continues on the copy (put in the original's place in the document) while the original must stay unchanged; state key = canonical dump with tokens renamed by first appearance; non-trivial = a call that changed the table or panicked; each distinct state saved and the w:tbl re-read"
	r.Assume = []string{"cell widths and non-structural formatting are not part of the state key: no structural operation's verdict depends on them", "an invariant that was already broken before a call is attributed to the call that broke it, not to later ones"}
	type phase struct {
		seeds   []string
		depth   int
		norange bool
		only    []string
	}
	mergeOnly := []string{"MergeCellsHorizontal", "MergeCellsVertical", "UnmergeCells", "SetCellText"}
	var phases []phase
	if r.Tier == "quick" {
		phases = []phase{
			{[]string{"1x1", "1x2", "2x1", "2x2"}, 4, false, nil},
			{[]string{"2x3", "3x3"}, 3, false, nil},
			{[]string{"foreign-ragged", "foreign-nogrid", "foreign-spans", "foreign-nested"}, 3, false, nil},
			{[]string{"1x4", "2x4"}, 4, true, mergeOnly},
		}
	} else {
		phases = []phase{
			{[]string{"1x1", "1x2", "2x1", "2x2"}, 5, false, nil},
			{[]string{"2x3", "3x3"}, 4, false, nil},
			{[]string{"foreign-ragged", "foreign-nogrid", "foreign-spans", "foreign-nested"}, 4, false, nil},
			{[]string{"1x4", "2x4"}, 5, true, mergeOnly},
			{[]string{"1x4", "2x4"}, 3, false, nil},
		}
	}
	var ph []interface{}
	for _, p := range phases {
		ph = append(ph, map[string]interface{}{"seeds": p.seeds, "depth_including_seed": p.depth, "without_MergeCellsRange": p.norange, "only": p.only})
		part := seqx.Search("C09", seqx.Opts{Depth: p.depth, Deadline: r.Deadline, Args: c09Args{Seeds: p.seeds, NoRange: p.norange, Only: p.only}})
		r.Merge(part)
	}
	r.Bounds["phases"] = ph
	r.Bounds["alphabet"] = len(c09Ops)
}
