package main

import (
	"archive/zip"
	"bytes"
	"crypto/sha256"
	"encoding/json"
	"fmt"
	"image"
	"image/color"
	"image/gif"
	"image/jpeg"
	"image/png"
	"io"
	"reflect"
	"regexp"
	"runtime/debug"
	"sort"
	"strings"
	"sync"
	"time"

	"github.com/zerx-lab/wordZero/pkg/document"

	"verif/harness/internal/pkgmodel"
	"verif/harness/internal/rep"
	"verif/harness/internal/schedx"
	"verif/harness/internal/shard"
)

func mkImage(w, h int, seed uint8) image.Image {
	im := image.NewRGBA(image.Rect(0, 0, w, h))
	for y := 0; y < h; y++ {
		for x := 0; x < w; x++ {
			im.Set(x, y, color.RGBA{seed, uint8(x * 40), uint8(y * 40), 255})
		}
	}
	return im
}

func pngBytes(w, h int, seed uint8) []byte {
	var b bytes.Buffer
	png.Encode(&b, mkImage(w, h, seed))
	return b.Bytes()
}

func jpegBytes(w, h int, seed uint8) []byte {
	var b bytes.Buffer
	jpeg.Encode(&b, mkImage(w, h, seed), &jpeg.Options{Quality: 90})
	return b.Bytes()
}

func gifBytes(w, h int, seed uint8) []byte {
	var b bytes.Buffer
	pal := color.Palette{color.RGBA{seed, 0, 0, 255}, color.RGBA{0, seed, 0, 255}, color.White, color.Black}
	im := image.NewPaletted(image.Rect(0, 0, w, h), pal)
	for i := range im.Pix {
		im.Pix[i] = uint8(i % 4)
	}
	gif.Encode(&b, im, nil)
	return b.Bytes()
}

// guard runs f and converts a panic into a string.
func guard(f func()) (panicked string) {
	defer func() {
		if r := recover(); r != nil {
			panicked = fmt.Sprintf("%v", r)
			st := string(debug.Stack())
			// whose code panicked?  the first frame after panic() that belongs to the library or to the
			// harness decides: a panic raised by the harness' own code is a bug of the harness and must
			// not be taken for an observation of the library
			if s, ok := r.(string); !ok || !strings.HasPrefix(s, "harness") {
				lines := strings.Split(st, "\n")
				after := false
				for _, l := range lines {
					if strings.HasPrefix(l, "panic(") {
						after = true
						continue
					}
					if !after || strings.HasPrefix(l, "\t") {
						continue
					}
					if strings.Contains(l, "wordZero/pkg/") {
						break
					}
					if strings.HasPrefix(l, "main.") || strings.HasPrefix(l, "verif/harness/") {
						panic(fmt.Sprintf("harness: panic in the harness' own code (%s): %v", strings.TrimSpace(l), r))
					}
				}
			}
			// keep the first library frame for the signature/explanation
			for _, l := range strings.Split(st, "\n") {
				if strings.Contains(l, "wordZero/pkg/") && strings.Contains(l, ".go:") {
					panicked += " @ " + strings.TrimSpace(l)
					break
				}
			}
		}
	}()
	f()
	return ""
}

// panicClass reduces a panic message to a stable class.
func panicClass(p string) string {
	switch {
	case strings.Contains(p, "nil pointer"):
		return "nil-deref"
	case strings.Contains(p, "slice bounds"):
		return "slice-bounds"
	case strings.Contains(p, "index out of range"):
		return "index-range"
	case strings.Contains(p, "nil map"):
		return "nil-map"
	case strings.Contains(p, "interface conversion"):
		return "type-assert"
	}
	return "panic"
}

// saveRead serialises with ToBytes and parses the result with the independent reader.
func saveRead(d *document.Document) (*pkgmodel.Pkg, []byte, string) {
	var b []byte
	var err error
	if p := guard(func() { b, err = d.ToBytes() }); p != "" {
		return nil, nil, "panic: " + p
	}
	if err != nil {
		return nil, nil, "error: " + err.Error()
	}
	return pkgmodel.Read(b), b, ""
}

func reopen(b []byte) (d *document.Document, errS string) {
	var err error
	if p := guard(func() { d, err = document.OpenFromMemory(nopCloser{bytes.NewReader(b)}) }); p != "" {
		return nil, "panic: " + p
	}
	if err != nil {
		return nil, "error: " + err.Error()
	}
	return d, ""
}

type nopCloser struct{ *bytes.Reader }

func (nopCloser) Close() error { return nil }

func kindOf(e interface{}) string {
	switch e.(type) {
	case *document.Paragraph:
		return "p"
	case *document.Table:
		return "tbl"
	case *document.SectionProperties:
		return "sectPr"
	case *document.BookmarkStart:
		return "bookmarkStart"
	case *document.BookmarkEnd:
		return "bookmarkEnd"
	case *document.SDT:
		return "sdt"
	case *document.MathParagraph:
		return "math"
	case nil:
		return "nil"
	}
	return reflect.TypeOf(e).String()
}

func problemsToViolations(prop string, probs []pkgmodel.Problem, prefix string) []rep.Violation {
	var out []rep.Violation
	for _, p := range probs {
		out = append(out, rep.Violation{Sig: prefix + p.Clause + "|" + p.Culprit, Clause: p.Clause, What: p.String()})
	}
	return out
}

// runShards runs a shard worker over all cores, merges its partial result into r and turns
// cases that killed or hung their worker into violations (signature crash|<class> / hang).
// classify may be nil; it reduces the worker's stderr to a stable culprit for the signature.
func runShards(r *rep.Run, name string, args interface{}, hang time.Duration, classify func(ev shard.Event) string) {
	p, events := shard.Map(name, args, shard.Opts{Deadline: r.Deadline, Tier: r.Tier, HangTimeout: hang})
	r.Merge(p)
	q := rep.NewPartial()
	for _, ev := range events {
		if !ev.Confirmed {
			q.Notes = append(q.Notes, fmt.Sprintf("case %d %s once but not when re-run alone (not counted)", ev.Idx, ev.Kind))
			continue
		}
		culprit := fatalClass(ev.Stderr)
		if classify != nil {
			culprit = classify(ev)
		}
		q.Violate(rep.Violation{Sig: ev.Kind + "|" + culprit, Clause: ev.Kind, What: fmt.Sprintf("case %d makes the worker process %s: %s", ev.Idx, ev.Kind, firstLines(ev.Stderr, 3)),
			Case: map[string]interface{}{"worker": name, "args": args, "index": ev.Idx, "desc": ev.Desc}})
	}
	r.Merge(q)
}

func firstLines(s string, n int) string {
	ls := strings.Split(strings.TrimSpace(s), "\n")
	if len(ls) > n {
		ls = ls[:n]
	}
	return strings.Join(ls, " / ")
}

// fatalClass reduces a Go runtime fatal error / panic dump to a stable class.
func fatalClass(stderr string) string {
	switch {
	case strings.Contains(stderr, "stack overflow"), strings.Contains(stderr, "stack exceeds"):
		return "stack-overflow"
	case strings.Contains(stderr, "out of memory"), strings.Contains(stderr, "cannot allocate"):
		return "out-of-memory"
	case strings.Contains(stderr, "concurrent map"):
		return "concurrent-map-access"
	case strings.Contains(stderr, "all goroutines are asleep"):
		return "deadlock"
	}
	return panicClass(stderr)
}

// shardCase is the replayable description of case idx of shard worker `name` (see replay.go).
func shardCase(c *shard.Ctx, name string, idx int64, desc interface{}) map[string]interface{} {
	var a interface{}
	json.Unmarshal(c.Args, &a)
	return map[string]interface{}{"worker": name, "args": a, "index": idx, "tier": c.Tier, "desc": desc}
}

// pngNoise is a deterministic, practically incompressible PNG of w x h pixels.
func pngNoise(w, h int, seed uint32) []byte {
	im := image.NewRGBA(image.Rect(0, 0, w, h))
	x := seed*2654435761 + 12345
	for i := 0; i < len(im.Pix); i++ {
		x = x*1664525 + 1013904223
		im.Pix[i] = uint8(x >> 24)
		if i%4 == 3 {
			im.Pix[i] = 255
		}
	}
	var b bytes.Buffer
	png.Encode(&b, im)
	return b.Bytes()
}

// ---- fast per-part canonical hashes (for checks that compare very many packages)

var (
	canonCacheMu sync.Mutex
	canonCache   = map[[32]byte]string{}
	timeMaskRe   = regexp.MustCompile(`(<dcterms:(?:created|modified)[^>]*>)[^<]*(<)`)
)

// fastCanonParts returns part name -> hash of the canonical content of that part.  It is
// CanonPackage with two shortcuts: a cache keyed by the raw bytes of a part, and, for
// word/styles.xml as written by the library, sorting of the <w:style> chunks as text
// instead of parsing the part (the order of styles follows Go map iteration).
func fastCanonParts(data []byte) (map[string]string, string) {
	zr, err := zip.NewReader(bytes.NewReader(data), int64(len(data)))
	if err != nil {
		return nil, err.Error()
	}
	out := map[string]string{}
	for _, f := range zr.File {
		rc, err := f.Open()
		if err != nil {
			return nil, err.Error()
		}
		raw, err := io.ReadAll(rc)
		rc.Close()
		if err != nil {
			return nil, err.Error()
		}
		k := sha256.Sum256(append([]byte(f.Name+"\x00"), raw...))
		canonCacheMu.Lock()
		h, ok := canonCache[k]
		canonCacheMu.Unlock()
		if ok {
			out[f.Name] = h
			continue
		}
		h = ""
		lname := strings.ToLower(f.Name)
		isXML := strings.HasSuffix(lname, ".xml") || strings.HasSuffix(lname, ".rels")
		if f.Name == "word/styles.xml" {
			h = styleChunkHash(raw)
		}
		if h == "" && isXML {
			src := raw
			if strings.HasPrefix(f.Name, "docProps/") {
				src = timeMaskRe.ReplaceAll(raw, []byte("${1}MASKED${2}"))
			}
			if root, probs := pkgmodel.ParseXML(src); root != nil && len(probs) == 0 {
				h = rep.Hash(pkgmodel.Canon(root, pkgmodel.IDKeyed))
			}
		}
		if h == "" {
			h = "raw:" + rep.Hash(string(raw))
		}
		if len(raw) < 4096 || f.Name != "word/styles.xml" {
			canonCacheMu.Lock()
			if len(canonCache) < 200000 {
				canonCache[k] = h
			}
			canonCacheMu.Unlock()
		}
		out[f.Name] = h
	}
	return out, ""
}

func styleChunkHash(raw []byte) string {
	s := string(raw)
	first := strings.Index(s, "<w:style ")
	last := strings.LastIndex(s, "</w:style>")
	if first < 0 || last < first {
		return ""
	}
	body := s[first : last+len("</w:style>")]
	chunks := strings.Split(body, "<w:style ")
	for i := range chunks {
		chunks[i] = strings.TrimSpace(chunks[i])
	}
	sort.Strings(chunks)
	return "chunks:" + rep.Hash(append([]string{s[:first], s[last+len("</w:style>"):]}, chunks...)...)
}

// exploreTiers runs the schedule exploration of one scenario in the passes that make up the
// stated bound: (1) every instrumented statement is a scheduling point, <= 1 preemption;
// (2) only lock operations and function entries are scheduling points, <= 2 preemptions.
// In the thorough tier a third pass (statement-level points, <= 2 preemptions) is added under
// an execution cap; hitting that cap is reported in the notes and does not make the stated
// bound incomplete.  The returned stats are the sums over the passes.
func exploreTiers(sc schedx.Scenario, maxExec int64, beat func(), thorough bool, onExec func(*schedx.Result), P *rep.Partial, what string) *schedx.Stats {
	coarse := func(site string) bool { return strings.HasSuffix(site, ":0") }
	total := &schedx.Stats{}
	add := func(st *schedx.Stats, label string, counts bool) {
		total.Executions += st.Executions
		total.Points += st.Points
		total.Branching += st.Branching
		total.Deadlocks += st.Deadlocks
		if st.MaxPoints > total.MaxPoints {
			total.MaxPoints = st.MaxPoints
		}
		total.Divergences = append(total.Divergences, st.Divergences...)
		if st.Incomplete {
			if counts {
				total.Incomplete = true
				total.Capped = total.Capped || st.Capped
			}
			P.Notes = append(P.Notes, fmt.Sprintf("%s: pass %q stopped after %d schedules (cap hit: %v, preemption bound completed: %d)", what, label, st.Executions, st.Capped, st.BoundDone))
		}
		P.Add("schedules_"+label, st.Executions)
	}
	add(schedx.Explore(sc, schedx.Options{Bound: 1, Horizon: 500000, MaxExec: maxExec, Progress: beat}, onExec), "statement-points_1-preemption", true)
	add(schedx.Explore(sc, schedx.Options{Bound: 2, Horizon: 500000, MaxExec: maxExec, Progress: beat, Filter: coarse}, onExec), "function-points_2-preemptions", true)
	if thorough {
		add(schedx.Explore(sc, schedx.Options{Bound: 2, Horizon: 500000, MaxExec: maxExec, Progress: beat}, onExec), "statement-points_2-preemptions_capped-bonus", false)
	}
	return total
}

// interfere is "somebody else's work": a different document is built with a broad selection of calls
// (paragraphs, heading, list items of two kinds, foot- and endnote, header and footer, pictures of three
// formats, a table with a merge and a cell picture, a custom style and an edit of a predefined one, page
// settings, a table of contents), serialised twice, opened again and rendered as a template.  Used as an
// operation in the single-document searches: by C07 nothing of this may change the document under test,
// so the reference model of every search stays as it is.  Errors are ignored, a panic is returned.
func interfere() string { return guard(interfereRaw) }

// interfereRaw is the same without catching panics (for callers that run their operations under guard).
func interfereRaw() {
	{
		o := document.New()
		o.AddParagraph("other document {{v}}")
		o.AddHeadingParagraph("Other heading", 1)
		o.AddListItem("other item", &document.ListConfig{Type: document.ListTypeDecimal, StartNumber: 4})
		o.AddListItem("other bullet", &document.ListConfig{Type: document.ListTypeBullet, BulletSymbol: document.BulletTypeDot})
		o.AddFootnote("other", "other footnote text")
		o.AddEndnote("other", "other endnote text")
		o.AddHeader(document.HeaderFooterTypeDefault, "other header {{v}}")
		o.AddFooterWithPageNumber(document.HeaderFooterTypeFirst, "other footer", true)
		o.AddImageFromData(pngBytes(5, 4, 201), "other.png", document.ImageFormatPNG, 5, 4, nil)
		o.AddImageFromData(jpegBytes(6, 4, 202), "other.jpeg", document.ImageFormatJPEG, 6, 4, nil)
		o.AddImageFromData(gifBytes(3, 5, 203), "other.gif", document.ImageFormatGIF, 3, 5, nil)
		if t, err := o.AddTable(&document.TableConfig{Rows: 2, Cols: 3, Width: 6000}); err == nil && t != nil {
			t.SetCellText(0, 0, "other cell")
			t.MergeCellsHorizontal(1, 0, 1)
			o.AddCellImage(t, 0, 2, &document.CellImageConfig{Data: pngBytes(2, 3, 204), Width: 8})
		}
		sm := o.GetStyleManager()
		sm.CreateCustomStyle("OtherStyle", "Other Style", "paragraph", "Normal")
		if st := sm.GetStyle("Normal"); st != nil && st.RunPr != nil {
			st.RunPr.Bold = nil
		}
		o.AddParagraph("styled").SetStyle("OtherStyle")
		o.SetPageOrientation(document.OrientationLandscape)
		o.SetPageMargins(11, 12, 13, 14)
		o.SetHeaderFooterDistance(3, 4)
		o.GenerateTOC(document.DefaultTOCConfig())
		o.SetTitle("other title")
		b, _ := o.ToBytes()
		o.ToBytes()
		if r, err := document.OpenFromMemory(io.NopCloser(bytes.NewReader(b))); err == nil && r != nil {
			r.AddParagraph("other, reopened")
			r.AddImageFromData(pngBytes(4, 4, 205), "other2.png", document.ImageFormatPNG, 4, 4, nil)
			r.ToBytes()
		}
		eng := document.NewTemplateEngine()
		if _, err := eng.LoadTemplateFromDocument("other", o); err == nil {
			td := document.NewTemplateData()
			td.SetVariable("v", "other value")
			if d, err := eng.RenderTemplateToDocument("other", td); err == nil && d != nil {
				d.AddFooter(document.HeaderFooterTypeEven, "other even footer")
				d.ToBytes()
			}
		}
	}
}
