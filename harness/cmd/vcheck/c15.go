package main

// C15 — lists, notes and tables of contents reflect exactly the calls made.
//
// Four seqx searches (lists, notes, TOC, mixed), each from an empty document and from one or
// two prefixed roots, on a real Document in lock-step with a record of what was requested:
// per list item (format, bullet symbol, level, start), per note (text, kind, live), per
// heading (level, text) and per table of contents (requested level and title, the headings
// it has to list).  Every distinct state is saved and judged on the saved package through the
// independent reader only.

import (
	"encoding/json"
	"fmt"
	"sort"
	"strconv"
	"strings"

	"github.com/zerx-lab/wordZero/pkg/document"

	"verif/harness/internal/pkgmodel"
	"verif/harness/internal/rep"
	"verif/harness/internal/seqx"
)

// ---------------------------------------------------------------------------
// reference record

type c15Item struct {
	Text   string
	Bullet bool
	Fmt    string // w:numFmt the request stands for
	Sym    string // bullet symbol (bullet lists)
	Level  int
	Start  int // start value (numbered lists)
	Via    string
}

type c15Note struct {
	Text string
	End  bool // endnote
	Live bool
	ID   string // id under which it was stored when it was removed
}

type c15Head struct {
	Level int
	Text  string
}

type c15Toc struct {
	Max     int
	Title   string
	Entries []c15Head // headings the TOC has to list (as of its last generation/update)
	After   string    // call that produced the present content
	Auto    bool
}

type c15Model struct {
	Items []c15Item
	Notes []c15Note
	Heads []c15Head
	Tocs  []c15Toc
	Reop  int
	N     int // counter for unique texts
}

type c15Side struct {
	doc *document.Document
	m   c15Model
	tag string // "" for the document under test, "B-" for the second document
}

func c15Fmt(t document.ListType) string {
	switch t {
	case document.ListTypeBullet:
		return "bullet"
	case document.ListTypeNumber, document.ListTypeDecimal:
		return "decimal"
	}
	return string(t) // lowerLetter, upperLetter, lowerRoman, upperRoman are the w:numFmt names themselves
}

func (s *c15Side) stage() string {
	if s.m.Reop > 0 {
		return "reopened-doc"
	}
	return "new-doc"
}

func (s *c15Side) next(prefix string) string {
	s.m.N++
	return fmt.Sprintf("%s%s%d", s.tag, prefix, s.m.N)
}

func (s *c15Side) fresh(max int) []c15Head {
	out := []c15Head{}
	for _, h := range s.m.Heads {
		if h.Level <= max && h.Text != "" {
			out = append(out, h)
		}
	}
	return out
}

// ---------------------------------------------------------------------------
// alphabet

type c15Op struct {
	name  string
	kind  string
	typ   document.ListType
	sym   document.BulletType
	level int
	start int
	items []document.ListItem
	arg   string
	max   int
	title string
	nilc  bool
	empty bool
	same  bool // the heading text is the fixed word "Same" (several headings share it)
	twice bool
}

type c15SpecDef struct {
	name    string
	ops     []c15Op
	prefix  []int
	maxReop int
}

var c15Specs = map[string]*c15SpecDef{}

var c15Types = []document.ListType{document.ListTypeNumber, document.ListTypeBullet, document.ListTypeDecimal, document.ListTypeLowerLetter,
	document.ListTypeUpperLetter, document.ListTypeLowerRoman, document.ListTypeUpperRoman}
var c15Syms = []document.BulletType{document.BulletTypeDot, document.BulletTypeSquare, document.BulletTypeArrow}

func c15ItemOp(t document.ListType, sym document.BulletType, level, start int) c15Op {
	return c15Op{name: fmt.Sprintf("AddListItem(%s,%q,level=%d,start=%d)", t, string(sym), level, start), kind: "item", typ: t, sym: sym, level: level, start: start}
}

func c15ListOps() []c15Op {
	var ops []c15Op
	seen := map[string]bool{}
	add := func(o c15Op) {
		if !seen[o.name] {
			seen[o.name] = true
			ops = append(ops, o)
		}
	}
	// every type at the default level/start, then type x level and type x start; the symbol dimension for bullets
	for _, t := range c15Types {
		add(c15ItemOp(t, document.BulletTypeDot, 0, 1))
	}
	for _, s := range c15Syms {
		add(c15ItemOp(document.ListTypeBullet, s, 0, 1))
	}
	for _, st := range []int{0, 5} {
		for _, t := range c15Types {
			add(c15ItemOp(t, document.BulletTypeDot, 0, st))
		}
	}
	for _, lv := range []int{1, 8, 9, -1} {
		for _, t := range c15Types {
			add(c15ItemOp(t, document.BulletTypeDot, lv, 1))
		}
	}
	add(c15Op{name: "AddListItem(nil config)", kind: "item-nil"})
	for _, s := range c15Syms {
		add(c15Op{name: fmt.Sprintf("AddBulletList(level=0,%q)", string(s)), kind: "bullet", sym: s})
	}
	add(c15Op{name: fmt.Sprintf("AddBulletList(level=9,%q)", string(document.BulletTypeDot)), kind: "bullet", sym: document.BulletTypeDot, level: 9})
	for _, t := range c15Types {
		if t != document.ListTypeBullet {
			add(c15Op{name: fmt.Sprintf("AddNumberedList(level=0,%s)", t), kind: "numbered", typ: t})
		}
	}
	add(c15Op{name: "AddNumberedList(level=9,decimal)", kind: "numbered", typ: document.ListTypeDecimal, level: 9})
	add(c15Op{name: "CreateMultiLevelList(number/1/L0, number/5/L1)", kind: "multi", items: []document.ListItem{
		{Level: 0, Type: document.ListTypeNumber, StartNumber: 1}, {Level: 1, Type: document.ListTypeNumber, StartNumber: 5}}})
	add(c15Op{name: "CreateMultiLevelList(bullet-dot/L0, lowerRoman/0/L1)", kind: "multi", items: []document.ListItem{
		{Level: 0, Type: document.ListTypeBullet, BulletSymbol: document.BulletTypeDot}, {Level: 1, Type: document.ListTypeLowerRoman, StartNumber: 0}}})
	add(c15Op{name: "CreateMultiLevelList(number/5/L0, number/1/L0)", kind: "multi", items: []document.ListItem{
		{Level: 0, Type: document.ListTypeNumber, StartNumber: 5}, {Level: 0, Type: document.ListTypeNumber, StartNumber: 1}}})
	add(c15Op{name: "CreateMultiLevelList(no items)", kind: "multi"})
	add(c15Op{name: "RestartNumbering(first item's numId)", kind: "restart", arg: "first"})
	add(c15Op{name: "RestartNumbering(99)", kind: "restart", arg: "99"})
	add(c15Op{name: "AddParagraph", kind: "para"})
	add(c15Op{name: "reopen", kind: "reopen"})
	return ops
}

func c15NoteOps() []c15Op {
	return []c15Op{
		{name: "AddFootnote", kind: "fn"},
		{name: "AddEndnote", kind: "en"},
		{name: "AddFootnoteToRun", kind: "fn-run"},
		{name: "RemoveFootnote(oldest own)", kind: "rm-fn", arg: "first"},
		{name: "RemoveFootnote(newest own)", kind: "rm-fn", arg: "last"},
		{name: "RemoveFootnote(9999 missing)", kind: "rm-fn", arg: "9999"},
		{name: "RemoveFootnote(already removed)", kind: "rm-fn", arg: "removed"},
		{name: "RemoveFootnote(id of the other document's note)", kind: "rm-fn", arg: "other"},
		{name: "RemoveEndnote(oldest own)", kind: "rm-en", arg: "first"},
		{name: "RemoveEndnote(9999 missing)", kind: "rm-en", arg: "9999"},
		{name: "other document: AddFootnote x2", kind: "B-fn"},
		{name: "AddParagraph", kind: "para"},
		{name: "reopen", kind: "reopen"},
	}
}

func c15TocOps() []c15Op {
	var ops []c15Op
	for lv := 1; lv <= 9; lv++ {
		ops = append(ops, c15Op{name: fmt.Sprintf("AddHeadingParagraph(H,%d)", lv), kind: "head", level: lv})
	}
	for lv := 1; lv <= 9; lv++ {
		ops = append(ops, c15Op{name: fmt.Sprintf("AddHeadingParagraph(\"\",%d)", lv), kind: "head", level: lv, empty: true})
	}
	for lv := 1; lv <= 2; lv++ {
		ops = append(ops, c15Op{name: fmt.Sprintf("AddHeadingParagraph(\"Same\",%d)", lv), kind: "head", level: lv, same: true})
	}
	for _, mx := range []int{1, 3, 9} {
		ops = append(ops, c15Op{name: fmt.Sprintf("GenerateTOC(max=%d,title=T%d)", mx, mx), kind: "gen", max: mx, title: fmt.Sprintf("T%d", mx)})
	}
	ops = append(ops, c15Op{name: "GenerateTOC(nil config)", kind: "gen", nilc: true, max: 3, title: "目录"})
	ops = append(ops, c15Op{name: "UpdateTOC", kind: "upd"})
	ops = append(ops, c15Op{name: "UpdateTOC x2", kind: "upd", twice: true})
	for _, mx := range []int{1, 3, 9} {
		ops = append(ops, c15Op{name: fmt.Sprintf("AutoGenerateTOC(max=%d,title=A%d)", mx, mx), kind: "auto", max: mx, title: fmt.Sprintf("A%d", mx)})
	}
	ops = append(ops, c15Op{name: "AutoGenerateTOC(max=3,title=A3) x2", kind: "auto", max: 3, title: "A3", twice: true})
	ops = append(ops, c15Op{name: "AutoGenerateTOC(nil config)", kind: "auto", nilc: true, max: 3, title: "目录"})
	ops = append(ops, c15Op{name: "AddParagraph", kind: "para"})
	ops = append(ops, c15Op{name: "reopen", kind: "reopen"})
	return ops
}

func c15MixedOps() []c15Op {
	return []c15Op{
		c15ItemOp(document.ListTypeNumber, document.BulletTypeDot, 0, 1),
		c15ItemOp(document.ListTypeNumber, document.BulletTypeDot, 0, 5),
		c15ItemOp(document.ListTypeBullet, document.BulletTypeSquare, 1, 1),
		c15ItemOp(document.ListTypeUpperRoman, document.BulletTypeDot, 9, 1),
		{name: "RestartNumbering(first item's numId)", kind: "restart", arg: "first"},
		{name: "AddFootnote", kind: "fn"},
		{name: "AddEndnote", kind: "en"},
		{name: "RemoveFootnote(oldest own)", kind: "rm-fn", arg: "first"},
		{name: "AddHeadingParagraph(H,1)", kind: "head", level: 1},
		{name: "AddHeadingParagraph(H,4)", kind: "head", level: 4},
		{name: "GenerateTOC(max=9,title=T9)", kind: "gen", max: 9, title: "T9"},
		{name: "UpdateTOC x2", kind: "upd", twice: true},
		{name: "AutoGenerateTOC(max=1,title=A1)", kind: "auto", max: 1, title: "A1"},
		{name: "other document: AddFootnote x2", kind: "B-fn"},
		{name: "other document: AddListItem(lowerLetter,start=7)", kind: "B-item"},
		{name: "AddParagraph", kind: "para"},
		{name: "reopen", kind: "reopen"},
	}
}

func c15Find(ops []c15Op, name string) int {
	for i, o := range ops {
		if o.name == name {
			return i
		}
	}
	panic("c15: no op " + name)
}

func c15Register(name string, ops []c15Op, prefix ...string) {
	sd := &c15SpecDef{name: name, ops: ops, maxReop: 1}
	for _, p := range prefix {
		k := c15Find(ops, p)
		sd.prefix = append(sd.prefix, k)
		if ops[k].kind == "reopen" {
			sd.maxReop++
		}
	}
	c15Specs[name] = sd
	names := make([]string, len(ops))
	for i, o := range ops {
		names[i] = o.name
	}
	seqx.Register(&seqx.Spec{Name: name, Ops: names, New: func(args json.RawMessage) seqx.Inst {
		document.VerifResetGlobals()
		in := &c15Inst{sp: sd, a: c15Side{doc: document.New()}, b: c15Side{tag: "B-"}}
		for _, k := range sd.prefix {
			in.Apply(k)
		}
		in.lastNT = false
		in.hist = nil
		return in
	}})
}

var c15Plan = []struct {
	spec       string
	quick, tho int
}{
	{"C15-lists", 2, 3},
	{"C15-lists@reopened", 2, 2},
	{"C15-notes", 4, 5},
	{"C15-notes@reopened", 3, 4},
	{"C15-toc", 3, 4},
	{"C15-toc@headings", 3, 3},
	{"C15-toc@reopened", 2, 3},
	{"C15-mixed", 3, 4},
}

func init() {
	lo := c15ListOps()
	c15Register("C15-lists", lo)
	c15Register("C15-lists@reopened", lo, "AddListItem(number,\"•\",level=0,start=1)", "AddListItem(bullet,\"•\",level=0,start=1)", "reopen")
	no := c15NoteOps()
	c15Register("C15-notes", no)
	c15Register("C15-notes@reopened", no, "AddFootnote", "AddEndnote", "reopen")
	to := c15TocOps()
	c15Register("C15-toc", to)
	heads := []string{"AddHeadingParagraph(H,1)", "AddHeadingParagraph(H,2)", "AddHeadingParagraph(H,3)", "AddHeadingParagraph(H,4)", "AddHeadingParagraph(H,9)", "AddHeadingParagraph(H,1)"}
	c15Register("C15-toc@headings", to, heads...)
	c15Register("C15-toc@reopened", to, append(append([]string{}, heads...), "reopen")...)
	c15Register("C15-mixed", c15MixedOps())
	register("C15", "model_checking", runC15)
}

// ---------------------------------------------------------------------------
// instance

type c15Inst struct {
	sp     *c15SpecDef
	a, b   c15Side
	lastNT bool
	hist   []int // calls after the root
}

// withCase makes every violation carry the replayable case including the calls of the root.
func (i *c15Inst) withCase(vs []rep.Violation) []rep.Violation {
	if len(vs) == 0 {
		return vs
	}
	names := func(h []int) []string {
		out := make([]string, len(h))
		for k, o := range h {
			out[k] = i.sp.ops[o].name
		}
		return out
	}
	c := map[string]interface{}{"spec": i.sp.name, "root": names(i.sp.prefix), "history": names(i.hist), "ops": append([]int{}, i.hist...)}
	for k := range vs {
		vs[k].Case = c
	}
	return vs
}

func (i *c15Inst) Nontrivial() bool { return i.lastNT }

func (m *c15Model) liveNotes(end bool) []int {
	var out []int
	for k, n := range m.Notes {
		if n.End == end && n.Live {
			out = append(out, k)
		}
	}
	return out
}

func (i *c15Inst) Enabled(op int) bool {
	o := i.sp.ops[op]
	m := &i.a.m
	switch o.kind {
	case "reopen":
		return m.Reop < i.sp.maxReop
	case "rm-fn", "rm-en":
		end := o.kind == "rm-en"
		switch o.arg {
		case "first":
			return len(m.liveNotes(end)) > 0
		case "last":
			return len(m.liveNotes(end)) > 1
		case "removed":
			for _, n := range m.Notes {
				if n.End == end && !n.Live {
					return true
				}
			}
			return false
		case "other":
			// the other document has more notes than this one ever had: its newest id is foreign here
			cnt := 0
			for _, n := range m.Notes {
				if !n.End {
					cnt++
				}
			}
			return i.b.doc != nil && len(i.b.m.Notes) > cnt
		}
	case "gen":
		// one table of contents per document (which of several UpdateTOC has to refresh is not stated)
		return len(m.Tocs) == 0
	case "auto":
		return len(m.Tocs) <= 1
	case "B-fn":
		return i.b.doc == nil || len(i.b.m.Notes) < 4
	case "B-item":
		return i.b.doc == nil || len(i.b.m.Items) < 2
	}
	return true
}

func c15Parse(b []byte) *pkgmodel.Pkg {
	return pkgmodel.ReadFiltered(b, func(n string) bool { return n != "word/styles.xml" && !strings.HasPrefix(n, "docProps/") })
}

func (s *c15Side) save() (*pkgmodel.Pkg, []byte, string) {
	var b []byte
	var err error
	if p := guard(func() { b, err = s.doc.ToBytes() }); p != "" {
		return nil, nil, "panic: " + p
	}
	if err != nil {
		return nil, nil, "error: " + err.Error()
	}
	return c15Parse(b), b, ""
}

func c15PartByRel(pkg *pkgmodel.Pkg, relType, fallback string) *pkgmodel.Node {
	main := pkg.MainPart()
	for _, r := range pkg.Rels[pkgmodel.RelsNameFor(main)] {
		if r.Type == relType {
			if n := pkg.XML[r.Resolved]; n != nil {
				return n
			}
		}
	}
	return pkg.XML[fallback]
}

// c15Vis is the visible text of a subtree: w:t text, w:tab as a tab; field instructions are not text.
func c15Vis(n *pkgmodel.Node) string {
	var b strings.Builder
	var rec func(*pkgmodel.Node)
	rec = func(m *pkgmodel.Node) {
		if m.IsText {
			return
		}
		if m.Space == pkgmodel.NsW {
			switch m.Local {
			case "t":
				b.WriteString(m.InnerText())
				return
			case "tab":
				if m.Parent != nil && m.Parent.Local == "r" {
					b.WriteString("\t")
				}
				return
			case "instrText", "delText", "pPr", "rPr", "sdtPr", "sdtEndPr":
				return
			}
		}
		for _, k := range m.Kids {
			rec(k)
		}
	}
	rec(n)
	return b.String()
}

type c15NoteEl struct {
	id, typ, text string
}

func c15NoteEls(pkg *pkgmodel.Pkg, end bool) ([]c15NoteEl, bool) {
	relType, fallback, el := pkgmodel.RtFootnotes, "word/footnotes.xml", "footnote"
	if end {
		relType, fallback, el = pkgmodel.RtEndnotes, "word/endnotes.xml", "endnote"
	}
	part := c15PartByRel(pkg, relType, fallback)
	if part == nil {
		return nil, false
	}
	var out []c15NoteEl
	for _, e := range part.Children(pkgmodel.NsW, el) {
		out = append(out, c15NoteEl{id: e.AttrW("id"), typ: e.AttrW("type"), text: strings.TrimSpace(c15Vis(e))})
	}
	return out, true
}

func c15Separator(t string) bool {
	return t == "separator" || t == "continuationSeparator" || t == "continuationNotice"
}

// noteID finds, in the saved package, the id under which the note with that text is stored.
func (s *c15Side) noteID(text string, end bool) string {
	pkg, _, errS := s.save()
	if errS != "" {
		return ""
	}
	els, _ := c15NoteEls(pkg, end)
	id := ""
	for _, e := range els {
		if !c15Separator(e.typ) && e.text == text {
			if id != "" {
				return "" // ambiguous
			}
			id = e.id
		}
	}
	return id
}

func c15KindName(end bool) string {
	if end {
		return "endnote"
	}
	return "footnote"
}

// counts compares GetFootnoteCount/GetEndnoteCount with the record.
func (s *c15Side) counts(after string) []rep.Violation {
	var out []rep.Violation
	if s.doc == nil {
		return nil
	}
	for _, end := range []bool{false, true} {
		want := len(s.m.liveNotes(end))
		got := -1
		fn := "GetFootnoteCount"
		if end {
			fn = "GetEndnoteCount"
		}
		if p := guard(func() {
			if end {
				got = s.doc.GetEndnoteCount()
			} else {
				got = s.doc.GetFootnoteCount()
			}
		}); p != "" {
			out = append(out, rep.Violation{Sig: "panic|" + panicClass(p) + "|" + fn, Clause: "panic", What: p})
			continue
		}
		if got != want {
			out = append(out, rep.Violation{Sig: "notes|count|" + fn + "|" + s.stage() + s.second(), Clause: "notes-count",
				What: fmt.Sprintf("after %s: %s() = %d, but this document had %d %ss added and not removed", after, fn, got, want, c15KindName(end)), Expect: want, Got: got})
		}
	}
	return out
}

func (s *c15Side) second() string {
	if s.tag != "" {
		return "|second-document"
	}
	return ""
}

func (s *c15Side) addItem(o c15Op, t document.ListType, sym document.BulletType, level, start int, via string) c15Item {
	it := c15Item{Text: s.next("Li"), Bullet: t == document.ListTypeBullet, Fmt: c15Fmt(t), Level: level, Start: start, Via: via}
	if it.Bullet {
		it.Sym = string(sym)
	}
	return it
}

func (i *c15Inst) ensureB() {
	if i.b.doc == nil {
		i.b.doc = document.New()
	}
}

func (i *c15Inst) Apply(op int) (string, []rep.Violation) {
	i.hist = append(i.hist, op)
	outcome, viol := i.apply(op)
	return outcome, i.withCase(viol)
}

func (i *c15Inst) apply(op int) (string, []rep.Violation) {
	o := i.sp.ops[op]
	i.lastNT = false
	s := &i.a
	var viol []rep.Violation
	outcome := "ok"
	add := func(sig, clause, what string) {
		viol = append(viol, rep.Violation{Sig: sig, Clause: clause, What: o.name + ": " + what})
	}
	pan := guard(func() {
		switch o.kind {
		case "item":
			it := s.addItem(o, o.typ, o.sym, o.level, o.start, "AddListItem")
			lc := &document.ListConfig{Type: o.typ, BulletSymbol: o.sym, StartNumber: o.start, IndentLevel: o.level}
			s.doc.AddListItem(it.Text, lc)
			// the configuration object is the caller's: it is reused for something else after the call
			*lc = document.ListConfig{Type: document.ListTypeUpperRoman, BulletSymbol: document.BulletTypeDot, StartNumber: 99, IndentLevel: 8}
			s.m.Items = append(s.m.Items, it)
			i.lastNT = true
		case "item-nil":
			it := s.addItem(o, document.ListTypeBullet, document.BulletTypeDot, 0, 0, "AddListItem(nil)")
			s.doc.AddListItem(it.Text, nil)
			s.m.Items = append(s.m.Items, it)
			i.lastNT = true
		case "bullet":
			it := s.addItem(o, document.ListTypeBullet, o.sym, o.level, 0, "AddBulletList")
			s.doc.AddBulletList(it.Text, o.level, o.sym)
			s.m.Items = append(s.m.Items, it)
			i.lastNT = true
		case "numbered":
			// a numbered list item without an explicit start begins at 1
			it := s.addItem(o, o.typ, "", o.level, 1, "AddNumberedList")
			s.doc.AddNumberedList(it.Text, o.level, o.typ)
			s.m.Items = append(s.m.Items, it)
			i.lastNT = true
		case "multi":
			var its []c15Item
			var li []document.ListItem
			for _, x := range o.items {
				it := s.addItem(o, x.Type, x.BulletSymbol, x.Level, x.StartNumber, "CreateMultiLevelList")
				x.Text = it.Text
				li = append(li, x)
				its = append(its, it)
			}
			if err := s.doc.CreateMultiLevelList(li); err != nil {
				add("list|multi-level-failed", "list", err.Error())
				outcome = "error"
				return
			}
			s.m.Items = append(s.m.Items, its...)
			i.lastNT = true
		case "restart":
			id := o.arg
			if id == "first" {
				id = ""
				for _, e := range s.doc.Body.Elements {
					if p, ok := e.(*document.Paragraph); ok && p.Properties != nil && p.Properties.NumberingProperties != nil && p.Properties.NumberingProperties.NumID != nil {
						id = p.Properties.NumberingProperties.NumID.Val
						break
					}
				}
				if id == "" {
					id = "1"
					outcome = "no-list-yet"
				}
			}
			s.doc.RestartNumbering(id)
			i.lastNT = len(s.m.Items) > 0
		case "fn", "en":
			end := o.kind == "en"
			n := c15Note{Text: s.next("Note"), End: end, Live: true}
			body := s.next("Ref")
			var err error
			if end {
				err = s.doc.AddEndnote(body, n.Text)
			} else {
				err = s.doc.AddFootnote(body, n.Text)
			}
			if err != nil {
				add("notes|add-failed|"+c15KindName(end), "notes", err.Error())
				outcome = "error"
				return
			}
			s.m.Notes = append(s.m.Notes, n)
			i.lastNT = true
		case "fn-run":
			p := s.doc.AddParagraph(s.next("P"))
			n := c15Note{Text: s.next("Note"), Live: true}
			if err := s.doc.AddFootnoteToRun(&p.Runs[0], n.Text); err != nil {
				add("notes|add-failed|footnote-to-run", "notes", err.Error())
				outcome = "error"
				return
			}
			s.m.Notes = append(s.m.Notes, n)
			i.lastNT = true
		case "rm-fn", "rm-en":
			end := o.kind == "rm-en"
			kn := c15KindName(end)
			target := -1
			id := o.arg
			switch o.arg {
			case "first":
				target = s.m.liveNotes(end)[0]
			case "last":
				l := s.m.liveNotes(end)
				target = l[len(l)-1]
			case "removed":
				for _, n := range s.m.Notes {
					if n.End == end && !n.Live {
						id = n.ID
					}
				}
				// only meaningful while no live note is stored under that id
				if pkg, _, e := s.save(); e == "" {
					els, _ := c15NoteEls(pkg, end)
					for _, x := range els {
						if x.id == id {
							outcome = "id-in-use-again"
							return
						}
					}
				}
			case "other":
				id = i.b.noteID(i.b.m.Notes[len(i.b.m.Notes)-1].Text, false)
				if id == "" {
					outcome = "id-not-found"
					return
				}
				// only meaningful when this document has no note under that id
				if pkg, _, e := s.save(); e == "" {
					els, _ := c15NoteEls(pkg, end)
					for _, x := range els {
						if x.id == id {
							outcome = "id-also-own"
							return
						}
					}
				}
			}
			if target >= 0 {
				id = s.noteID(s.m.Notes[target].Text, end)
				if id == "" {
					// the note is not in the notes part (reported by the package check of this state)
					outcome = "own-note-not-in-part"
					return
				}
			}
			var before, after string
			if pkg, _, e := s.save(); e == "" {
				els, _ := c15NoteEls(pkg, end)
				before = fmt.Sprint(c15SortEls(els))
			}
			var err error
			if end {
				err = s.doc.RemoveEndnote(id)
			} else {
				err = s.doc.RemoveFootnote(id)
			}
			if target >= 0 {
				if err != nil {
					add("notes|remove-own-failed|"+kn+"|"+s.stage(), "notes-remove", fmt.Sprintf("id %s is the id of note %q in this document's %ss part, yet: %v", id, s.m.Notes[target].Text, kn, err))
					outcome = "rejected-own"
					return
				}
				s.m.Notes[target].Live = false
				s.m.Notes[target].ID = id
				i.lastNT = true
				outcome = "removed"
				return
			}
			if err == nil {
				add("notes|remove-missing-succeeded|"+kn+"|"+s.stage(), "notes-remove", fmt.Sprintf("id %s names no %s of this document, the call returned nil", id, kn))
				outcome = "accepted-missing"
			} else {
				outcome = "rejected"
				i.lastNT = true
			}
			if pkg, _, e := s.save(); e == "" {
				els, _ := c15NoteEls(pkg, end)
				after = fmt.Sprint(c15SortEls(els))
			}
			if before != after {
				add("notes|remove-missing-changed-part|"+kn+"|"+s.stage(), "notes-remove", fmt.Sprintf("removing the missing id %s changed the %ss part: %s -> %s", id, kn, before, after))
			}
		case "B-fn":
			i.ensureB()
			for k := 0; k < 2; k++ {
				n := c15Note{Text: i.b.next("Note"), Live: true}
				if err := i.b.doc.AddFootnote(i.b.next("Ref"), n.Text); err != nil {
					add("notes|add-failed|footnote", "notes", err.Error())
					return
				}
				i.b.m.Notes = append(i.b.m.Notes, n)
			}
			i.lastNT = true
		case "B-item":
			i.ensureB()
			it := i.b.addItem(o, document.ListTypeLowerLetter, "", 0, 7, "AddListItem")
			i.b.doc.AddListItem(it.Text, &document.ListConfig{Type: document.ListTypeLowerLetter, StartNumber: 7})
			i.b.m.Items = append(i.b.m.Items, it)
			i.lastNT = true
		case "head":
			h := c15Head{Level: o.level}
			if o.same {
				h.Text = "Same"
			} else if !o.empty {
				h.Text = s.next(fmt.Sprintf("H%dx", o.level))
			}
			s.doc.AddHeadingParagraph(h.Text, o.level)
			s.m.Heads = append(s.m.Heads, h)
			i.lastNT = true
		case "para":
			s.doc.AddParagraph(s.next("P"))
		case "gen":
			var cfg *document.TOCConfig
			if !o.nilc {
				cfg = &document.TOCConfig{Title: o.title, MaxLevel: o.max, ShowPageNum: true, RightAlign: true, UseHyperlink: true, DotLeader: true}
			}
			err := s.doc.GenerateTOC(cfg)
			if cfg != nil {
				// the caller's configuration object is reused for something else after the call
				*cfg = document.TOCConfig{Title: "config object reused by the caller", MaxLevel: 1}
			}
			if err != nil {
				add("toc|generate-failed", "toc", err.Error())
				outcome = "error"
				return
			}
			s.m.Tocs = append(s.m.Tocs, c15Toc{Max: o.max, Title: o.title, Entries: s.fresh(o.max), After: "GenerateTOC"})
			i.lastNT = true
		case "upd", "auto":
			times := 1
			if o.twice {
				times = 2
			}
			var canon [2]string
			var ntoc [2]int
			for k := 0; k < times; k++ {
				var err error
				name := "UpdateTOC"
				if o.kind == "upd" {
					err = s.doc.UpdateTOC()
					if err == nil && len(s.m.Tocs) > 0 {
						t := &s.m.Tocs[0]
						t.Entries = s.fresh(t.Max)
						t.After = "UpdateTOC"
						i.lastNT = true
					}
					if err != nil {
						outcome = "error"
						if len(s.m.Tocs) > 0 {
							add("toc|update-failed|"+s.stage(), "toc", fmt.Sprintf("the document has a table of contents (made by %s), yet UpdateTOC: %v", s.m.Tocs[0].After, err))
						}
					}
				} else {
					name = "AutoGenerateTOC"
					var cfg *document.TOCConfig
					if !o.nilc {
						cfg = &document.TOCConfig{Title: o.title, MaxLevel: o.max, ShowPageNum: true, RightAlign: true, UseHyperlink: true, DotLeader: true}
					}
					err = s.doc.AutoGenerateTOC(cfg)
					if cfg != nil {
						*cfg = document.TOCConfig{Title: "config object reused by the caller", MaxLevel: 1}
					}
					if err == nil {
						s.m.Tocs = []c15Toc{{Max: o.max, Title: o.title, Entries: s.fresh(o.max), After: "AutoGenerateTOC", Auto: true}}
						i.lastNT = true
					} else {
						outcome = "error"
						if len(s.fresh(o.max)) > 0 {
							add("toc|autogenerate-failed|"+s.stage(), "toc", fmt.Sprintf("%d headings of level <= %d exist, yet: %v", len(s.fresh(o.max)), o.max, err))
						}
					}
				}
				if o.twice {
					pkg, _, e := s.save()
					if e != "" {
						add("save-failed", "save", e)
						return
					}
					if body := pkg.Body(); body != nil {
						ts := c15Tocs(body)
						ntoc[k] = len(ts)
						for _, t := range ts {
							canon[k] += t.canon + "\n"
						}
					}
					if k == 1 && canon[0] != canon[1] {
						diff := "content"
						if ntoc[1] > ntoc[0] {
							diff = "more-tables"
						} else if ntoc[1] < ntoc[0] {
							diff = "fewer-tables"
						}
						add("toc|update-not-idempotent|"+name+"|"+diff, "toc-idempotent", fmt.Sprintf("the table(s) of contents in the saved package differ between one and two applications (%d vs %d tables; canonical content %s vs %s)", ntoc[0], ntoc[1], rep.Hash(canon[0]), rep.Hash(canon[1])))
					}
				}
			}
		case "reopen":
			_, b, e := s.save()
			if e != "" {
				add("save-failed", "save", e)
				outcome = "save-failed"
				return
			}
			d, e := reopen(b)
			if e != "" {
				add("reopen-failed", "reopen", e)
				outcome = "reopen-failed"
				return
			}
			s.doc = d
			s.m.Reop++
			i.lastNT = true
			outcome = "reopened"
			// content controls are not kept by Open (C03's subject): a table of contents that is gone is no
			// longer judged, and UpdateTOC has nothing to refresh
			nsdt := 0
			for _, el := range d.Body.Elements {
				if _, ok := el.(*document.SDT); ok {
					nsdt++
				}
			}
			if nsdt < len(s.m.Tocs) {
				s.m.Tocs = nil
				outcome = "reopened-toc-dropped"
			}
		}
	})
	if pan != "" {
		return "panic", []rep.Violation{{Sig: "panic|" + panicClass(pan) + "|" + o.kind, Clause: "panic", What: o.name + ": " + pan}}
	}
	viol = append(viol, i.a.counts(o.name)...)
	viol = append(viol, i.b.counts(o.name)...)
	return outcome, viol
}

func c15SortEls(els []c15NoteEl) []string {
	var out []string
	for _, e := range els {
		out = append(out, e.id+":"+e.typ+":"+e.text)
	}
	sort.Strings(out)
	return out
}

func c15BodyDump(d *document.Document) string {
	if d == nil {
		return "-"
	}
	var b strings.Builder
	for _, e := range d.Body.Elements {
		switch x := e.(type) {
		case *document.Paragraph:
			b.WriteString("p")
			if x.Properties != nil {
				if x.Properties.ParagraphStyle != nil {
					b.WriteString("s" + x.Properties.ParagraphStyle.Val)
				}
				if np := x.Properties.NumberingProperties; np != nil {
					if np.NumID != nil {
						b.WriteString("n" + np.NumID.Val)
					}
					if np.ILevel != nil {
						b.WriteString("l" + np.ILevel.Val)
					}
				}
			}
		case *document.SDT:
			n := 0
			if x.Content != nil {
				n = len(x.Content.Elements)
			}
			fmt.Fprintf(&b, "sdt%d", n)
		default:
			b.WriteString(kindOf(e))
		}
		b.WriteString(",")
	}
	return b.String()
}

func (i *c15Inst) Key() string {
	ma, _ := json.Marshal(i.a.m)
	mb, _ := json.Marshal(i.b.m)
	k := string(ma) + "|" + c15BodyDump(i.a.doc) + "|" + i.a.doc.VerifNotesDump() + "|" + i.a.doc.VerifShallowState()
	if i.b.doc != nil {
		k += "||" + string(mb) + "|" + c15BodyDump(i.b.doc) + "|" + i.b.doc.VerifNotesDump() + "|" + i.b.doc.VerifShallowState()
	}
	return rep.Hash(k)
}

func (i *c15Inst) Deep() []rep.Violation {
	out := i.a.deep()
	if i.b.doc != nil {
		out = append(out, i.b.deep()...)
	}
	return i.withCase(out)
}

func (s *c15Side) deep() []rep.Violation {
	pkg, _, errS := s.save()
	if errS != "" {
		return []rep.Violation{{Sig: "save-failed", Clause: "save", What: errS}}
	}
	return c15CheckPackage(pkg, &s.m, s.stage(), s.second())
}

// ---------------------------------------------------------------------------
// oracle on the saved package

type c15GotEntry struct {
	Text  string
	Level int // 0 = not recognisable from the paragraph style
}

type c15GotToc struct {
	title   string
	entries []c15GotEntry
	canon   string
}

func c15IsToc(sdt *pkgmodel.Node) bool {
	pr := sdt.Child(pkgmodel.NsW, "sdtPr")
	if pr == nil {
		return false
	}
	dpo := pr.Child(pkgmodel.NsW, "docPartObj")
	if dpo == nil {
		return false
	}
	g := dpo.Child(pkgmodel.NsW, "docPartGallery")
	return g != nil && g.AttrW("val") == "Table of Contents"
}

func c15TocStyleLevel(p *pkgmodel.Node) int {
	ppr := p.Child(pkgmodel.NsW, "pPr")
	if ppr == nil {
		return 0
	}
	st := ppr.Child(pkgmodel.NsW, "pStyle")
	if st == nil {
		return 0
	}
	v := strings.ToLower(st.AttrW("val"))
	if strings.HasPrefix(v, "toc") {
		if n, err := strconv.Atoi(strings.TrimSpace(strings.TrimPrefix(v, "toc"))); err == nil && n >= 1 && n <= 9 {
			return n
		}
	}
	return 0
}

// c15Tocs reads the tables of contents of a body: the first paragraph with visible text is the
// title, every further paragraph with visible text is an entry whose text ends at the first tab
// (a nested content control in front of a paragraph belongs to that paragraph).
func c15Tocs(body *pkgmodel.Node) []c15GotToc {
	var out []c15GotToc
	var rec func(n *pkgmodel.Node)
	rec = func(n *pkgmodel.Node) {
		for _, k := range n.Elems() {
			if k.Space == pkgmodel.NsW && k.Local == "sdt" && c15IsToc(k) {
				t := c15GotToc{canon: pkgmodel.Canon(k, pkgmodel.IDKeyed)}
				if c := k.Child(pkgmodel.NsW, "sdtContent"); c != nil {
					pending := ""
					first := true
					for _, e := range c.Elems() {
						if e.Space != pkgmodel.NsW {
							continue
						}
						switch e.Local {
						case "sdt":
							pending += c15Vis(e)
						case "p":
							txt := pending + c15Vis(e)
							pending = ""
							if strings.TrimSpace(txt) == "" {
								continue
							}
							if first {
								t.title = strings.TrimSpace(txt)
								first = false
								continue
							}
							if ix := strings.Index(txt, "\t"); ix >= 0 {
								txt = txt[:ix]
							}
							t.entries = append(t.entries, c15GotEntry{Text: txt, Level: c15TocStyleLevel(e)})
						}
					}
				}
				out = append(out, t)
				continue
			}
			if k.Space == pkgmodel.NsW && (k.Local == "sdt" || k.Local == "sdtContent") {
				rec(k)
			}
		}
	}
	rec(body)
	return out
}

func c15CheckPackage(pkg *pkgmodel.Pkg, m *c15Model, stage, second string) []rep.Violation {
	var out []rep.Violation
	add := func(sig, clause, what string, exp, got interface{}) {
		out = append(out, rep.Violation{Sig: sig + second, Clause: clause, What: what, Expect: exp, Got: got})
	}
	body := pkg.Body()
	if body == nil {
		return []rep.Violation{{Sig: "saved-body-missing", Clause: "save", What: "no body in the saved package"}}
	}
	c15CheckLists(pkg, body, m, stage, add)
	c15CheckNotes(pkg, m, stage, add)
	c15CheckTocs(body, m, stage, add)
	return out
}

type c15Add func(sig, clause, what string, exp, got interface{})

func c15CheckLists(pkg *pkgmodel.Pkg, body *pkgmodel.Node, m *c15Model, stage string, add c15Add) {
	if len(m.Items) == 0 {
		return
	}
	numPart := c15PartByRel(pkg, pkgmodel.RtNumbering, "word/numbering.xml")
	if numPart == nil {
		add("list|numbering-part-missing|"+stage, "list", fmt.Sprintf("%d list items were added, the package has no numbering part", len(m.Items)), nil, nil)
		return
	}
	nums := map[string]*pkgmodel.Node{}
	for _, n := range numPart.Children(pkgmodel.NsW, "num") {
		id := n.AttrW("numId")
		if _, dup := nums[id]; dup {
			add("list|duplicate-num-id|"+stage, "list", "w:num w:numId="+id+" occurs twice", nil, nil)
		}
		nums[id] = n
	}
	abs := map[string]*pkgmodel.Node{}
	for _, n := range numPart.Children(pkgmodel.NsW, "abstractNum") {
		id := n.AttrW("abstractNumId")
		if _, dup := abs[id]; dup {
			add("list|duplicate-abstract-id|"+stage, "list", "w:abstractNum w:abstractNumId="+id+" occurs twice", nil, nil)
		}
		abs[id] = n
	}
	paras := map[string][]*pkgmodel.Node{}
	for _, p := range body.Find(pkgmodel.NsW, "p") {
		t := c15Vis(p)
		if strings.Contains(t, "Li") {
			paras[t] = append(paras[t], p)
		}
	}
	type resolved struct {
		abs                    string
		fmt, text              string
		start                  int
		ilvl                   string
		ok                     bool
	}
	res := make([]resolved, len(m.Items))
	for k, it := range m.Items {
		ps := paras[it.Text]
		if len(ps) != 1 {
			add(fmt.Sprintf("list|item-paragraphs|n=%d|%s", c15Min(len(ps), 2), stage), "list", fmt.Sprintf("item %q (%s) has %d paragraphs in the saved body", it.Text, it.Via, len(ps)), 1, len(ps))
			continue
		}
		var numPr *pkgmodel.Node
		if ppr := ps[0].Child(pkgmodel.NsW, "pPr"); ppr != nil {
			numPr = ppr.Child(pkgmodel.NsW, "numPr")
		}
		if numPr == nil {
			add("list|no-numpr|"+stage, "list", fmt.Sprintf("item %q has no w:numPr", it.Text), nil, nil)
			continue
		}
		numID, ilvl := "", "0"
		if x := numPr.Child(pkgmodel.NsW, "numId"); x != nil {
			numID = x.AttrW("val")
		}
		if x := numPr.Child(pkgmodel.NsW, "ilvl"); x != nil {
			ilvl = x.AttrW("val")
		}
		num := nums[numID]
		if num == nil {
			add("list|num-missing|"+stage, "list", fmt.Sprintf("item %q refers to w:numId=%s, which the numbering part does not define", it.Text, numID), nil, nil)
			continue
		}
		absID := ""
		if x := num.Child(pkgmodel.NsW, "abstractNumId"); x != nil {
			absID = x.AttrW("val")
		}
		an := abs[absID]
		if an == nil {
			add("list|abstract-missing|"+stage, "list", fmt.Sprintf("item %q: w:num %s points to w:abstractNum %s, which does not exist", it.Text, numID, absID), nil, nil)
			continue
		}
		// the level in force: an override in the instance wins over the abstract definition
		var lvl *pkgmodel.Node
		startOv := ""
		for _, ov := range num.Children(pkgmodel.NsW, "lvlOverride") {
			if ov.AttrW("ilvl") != ilvl {
				continue
			}
			if l := ov.Child(pkgmodel.NsW, "lvl"); l != nil {
				lvl = l
			}
			if so := ov.Child(pkgmodel.NsW, "startOverride"); so != nil {
				startOv = so.AttrW("val")
			}
		}
		if lvl == nil {
			for _, l := range an.Children(pkgmodel.NsW, "lvl") {
				if l.AttrW("ilvl") == ilvl {
					lvl = l
					break
				}
			}
		}
		if lvl == nil {
			add("list|level-missing|ilvl="+ilvl, "list-level", fmt.Sprintf("item %q (%s, requested level %d) has w:ilvl=%s, and w:abstractNum %s (via w:num %s) has no w:lvl with that index", it.Text, it.Via, it.Level, ilvl, absID, numID), nil, nil)
			continue
		}
		r := resolved{abs: absID, ilvl: ilvl, ok: true}
		if x := lvl.Child(pkgmodel.NsW, "numFmt"); x != nil {
			r.fmt = x.AttrW("val")
		}
		if x := lvl.Child(pkgmodel.NsW, "lvlText"); x != nil {
			r.text = x.AttrW("val")
		}
		st := startOv
		if st == "" {
			if x := lvl.Child(pkgmodel.NsW, "start"); x != nil {
				st = x.AttrW("val")
			}
		}
		if st == "" {
			st = "0" // an absent w:start means 0
		}
		r.start, _ = strconv.Atoi(st)
		res[k] = r
		if it.Level >= 0 && it.Level <= 8 && ilvl != strconv.Itoa(it.Level) {
			add("list|level-wrong|"+stage, "list-level", fmt.Sprintf("item %q requested level %d, the paragraph has w:ilvl=%s", it.Text, it.Level, ilvl), it.Level, ilvl)
		}
	}
	// does an item share its abstract definition with an item that asked for something else?
	shared := func(k int) string {
		for j, o := range m.Items {
			if j == k || !res[j].ok || res[j].abs != res[k].abs {
				continue
			}
			a, b := m.Items[k], o
			if a.Fmt != b.Fmt || a.Sym != b.Sym || (!a.Bullet && a.Start != b.Start) {
				return "shared-definition"
			}
		}
		return "own-definition"
	}
	for k, it := range m.Items {
		r := res[k]
		if !r.ok {
			continue
		}
		where := fmt.Sprintf("item %q (%s: format %s, symbol %q, level %d, start %d) -> w:abstractNum %s w:lvl %s", it.Text, it.Via, it.Fmt, it.Sym, it.Level, it.Start, r.abs, r.ilvl)
		if r.fmt != it.Fmt {
			add("list|format-mismatch|"+shared(k)+"|"+stage, "list-format", fmt.Sprintf("%s has w:numFmt=%q", where, r.fmt), it.Fmt, r.fmt)
			continue
		}
		if it.Bullet {
			if r.text != it.Sym {
				add("list|bullet-symbol-mismatch|"+shared(k)+"|"+stage, "list-symbol", fmt.Sprintf("%s has w:lvlText=%q", where, r.text), it.Sym, r.text)
			}
			continue
		}
		// a zero StartNumber may also be read as "not set", i.e. the conventional start 1
		if r.start != it.Start && !(it.Start == 0 && r.start == 1) {
			add("list|start-mismatch|"+shared(k)+"|"+stage, "list-start", fmt.Sprintf("%s starts at %d", where, r.start), it.Start, r.start)
		}
	}
}

func c15CheckNotes(pkg *pkgmodel.Pkg, m *c15Model, stage string, add c15Add) {
	for _, end := range []bool{false, true} {
		kn := c15KindName(end)
		known := map[string]bool{}
		nlive := 0
		for _, n := range m.Notes {
			if n.End == end {
				known[n.Text] = true
				if n.Live {
					nlive++
				}
			}
		}
		els, ok := c15NoteEls(pkg, end)
		if !ok {
			if nlive > 0 {
				add("notes|part-missing|"+kn+"|"+stage, "notes", fmt.Sprintf("%d %ss are live, the package has no %ss part", nlive, kn, kn), nil, nil)
			}
			continue
		}
		cnt := map[string]int{}
		ids := map[string]int{}
		for _, e := range els {
			ids[e.id]++
			if c15Separator(e.typ) {
				continue
			}
			cnt[e.text]++
			if !known[e.text] {
				add("notes|foreign-note|"+kn+"|"+stage, "notes-foreign", fmt.Sprintf("the %ss part holds a note (id %s, text %q) that was never added to this document", kn, e.id, e.text), nil, e.text)
			}
		}
		for id, n := range ids {
			if n > 1 {
				add("notes|duplicate-id|"+kn+"|"+stage, "notes", fmt.Sprintf("%d %ss share w:id=%s", n, kn, id), nil, nil)
			}
		}
		for _, n := range m.Notes {
			if n.End != end {
				continue
			}
			c := cnt[n.Text]
			if n.Live && c != 1 {
				add(fmt.Sprintf("notes|occurrences|%s|n=%d|%s", kn, c15Min(c, 2), stage), "notes-once", fmt.Sprintf("%s %q was added to this document and not removed; it occurs %d times in the %ss part", kn, n.Text, c, kn), 1, c)
			}
			if !n.Live && c != 0 {
				add("notes|removed-still-present|"+kn+"|"+stage, "notes-remove", fmt.Sprintf("%s %q was removed; it occurs %d times in the %ss part", kn, n.Text, c, kn), 0, c)
			}
		}
	}
}

func c15CheckTocs(body *pkgmodel.Node, m *c15Model, stage string, add c15Add) {
	got := c15Tocs(body)
	if len(got) != len(m.Tocs) {
		rel := "more-than-requested"
		if len(got) < len(m.Tocs) {
			rel = "fewer-than-requested"
		}
		add("toc|count|"+rel+"|"+stage, "toc-count", fmt.Sprintf("the calls made leave %d table(s) of contents, the saved body has %d", len(m.Tocs), len(got)), len(m.Tocs), len(got))
		return // which table is which can no longer be told
	}
	emptyHead := false
	for _, h := range m.Heads {
		if h.Text == "" {
			emptyHead = true
		}
	}
	for k := 0; k < len(got) && k < len(m.Tocs); k++ {
		w, g := m.Tocs[k], got[k]
		if g.title != w.Title {
			add("toc|title|after="+w.After+"|"+stage, "toc-title", fmt.Sprintf("requested title %q, the table of contents is titled %q", w.Title, g.title), w.Title, g.title)
		}
		var gt []c15GotEntry
		for _, e := range g.entries {
			if e.Text == "" && emptyHead {
				continue // a heading without text may or may not be listed
			}
			gt = append(gt, e)
		}
		wantT := make([]string, len(w.Entries))
		lvOf := map[string]int{}
		for _, h := range m.Heads {
			if h.Text != "" {
				lvOf[h.Text] = h.Level
			}
		}
		for x, h := range w.Entries {
			wantT[x] = h.Text
		}
		gotT := make([]string, len(gt))
		for x, e := range gt {
			gotT[x] = e.Text
		}
		if strings.Join(wantT, "\x00") != strings.Join(gotT, "\x00") || len(wantT) != len(gotT) {
			left := map[string]int{}
			for _, t := range wantT {
				left[t]++
			}
			var extra, missing []string
			for _, t := range gotT {
				if left[t] > 0 {
					left[t]--
				} else {
					extra = append(extra, t)
				}
			}
			for _, t := range wantT {
				if left[t] > 0 {
					left[t]--
					missing = append(missing, t)
				}
			}
			kind := "order"
			var parts []string
			if len(missing) > 0 {
				c := "at-max-level"
				for _, t := range missing {
					if lvOf[t] != w.Max {
						c = "within-max"
					}
				}
				parts = append(parts, "missing:"+c)
			}
			if len(extra) > 0 {
				c := "above-max"
				for _, t := range extra {
					lv, isHead := lvOf[t]
					if !isHead {
						c = "not-a-heading"
						break
					}
					if lv <= w.Max {
						c = "stale-or-repeated"
					}
				}
				parts = append(parts, "extra:"+c)
			}
			if len(parts) > 0 {
				kind = strings.Join(parts, "+")
			}
			add("toc|entries|after="+w.After+"|"+kind+"|"+stage, "toc-entries",
				fmt.Sprintf("table of contents %q requested up to level %d: it has to list %v, it lists %v (missing %v, extra %v)", w.Title, w.Max, wantT, gotT, missing, extra), wantT, gotT)
			continue
		}
		for x, e := range gt {
			if e.Level != 0 && e.Level != w.Entries[x].Level {
				add("toc|entry-level|after="+w.After+"|"+stage, "toc-entries", fmt.Sprintf("entry %q is a level %d heading, the entry paragraph has a TOC%d style", e.Text, w.Entries[x].Level, e.Level), w.Entries[x].Level, e.Level)
			}
		}
	}
}

func runC15(r *rep.Run) {
	r.Rule = "BFS (seqx) over call histories of four alphabets — lists (AddListItem: 7 types x levels {-1,0,1,8,9}, 7 types x starts {0,1,5}, 3 bullet symbols, nil config; AddBulletList, AddNumberedList, CreateMultiLevelList of 2 items, RestartNumbering, reopen), notes (AddFootnote, AddEndnote, AddFootnoteToRun, RemoveFootnote/RemoveEndnote of own oldest/newest, missing, already removed and other-document ids, a second document, reopen), TOC (AddHeadingParagraph level 1..9 with unique or empty text and level 1..2 with one repeated text, GenerateTOC/AutoGenerateTOC with max level 1, 3, 9 or nil config, UpdateTOC, UpdateTOC x2, AutoGenerateTOC x2, reopen) and a mixed one — each from an empty document and from prefixed roots (two items/two notes/six headings, saved and reopened), on a real Document in lock-step with a record of the requests. After every call the note counts are compared with adds - removes of that document; every distinct state is saved and the package is judged through the independent reader: each item paragraph -> w:numId -> w:num (level overrides honoured) -> w:abstractNum -> the w:lvl named by the paragraph's w:ilvl must exist and carry the requested w:numFmt, bullet w:lvlText and w:start; each live note occurs exactly once by text in the part the main part's relationship names, removed and foreign notes never; each table of contents (content control with gallery 'Table of Contents') has the requested title and lists exactly the non-empty headings of level <= requested, in order; x2 calls compare the canonical TOC content after one and two applications. non-trivial = a call that added an item/note/heading, (re)generated a TOC, removed or rejected a removal, or reopened"
	r.Assume = []string{
		"texts of items, notes and headings are unique per document, so that paragraphs, notes and entries are identified by text",
		"a heading paragraph without text may or may not be listed (the statement lists headings 'with their text')",
		"one table of contents per document: GenerateTOC is enabled only while the document has none, AutoGenerateTOC while it has none or one (made by either call), which it replaces; which of several tables UpdateTOC has to refresh is not stated",
		"a level outside 0-8 may be clamped or kept: only the existence of the paragraph's w:ilvl in the definition and the requested format at that level are demanded; inside 0-8 the paragraph must carry the requested level",
		"Open does not keep content controls (C03 known finding dropped|w:body/w:sdt): after a reopen that lost the table of contents the record forgets it too",
		"AddNumberedList requests start 1; a StartNumber of 0 is satisfied by a definition starting at 0 or at 1 (zero value = not set); for bullet lists the start value and for numbered lists the symbol are not judged",
	}
	depths := map[string]int{}
	for _, p := range c15Plan {
		d := p.quick
		if r.Tier == "thorough" {
			d = p.tho
		}
		depths[p.spec] = d
		r.Bounds["depth "+p.spec] = d
		r.Bounds["alphabet "+p.spec] = len(c15Specs[p.spec].ops)
	}
	r.Bounds["reopens per history"] = "1 after the root"
	for _, p := range c15Plan {
		if r.OutOfTime() {
			r.P.Incomplete = true
			r.P.Notes = append(r.P.Notes, "budget deadline hit before "+p.spec)
			break
		}
		q := seqx.Search(p.spec, seqx.Opts{Depth: depths[p.spec], Deadline: r.Deadline})
		q.Add("transitions "+p.spec, q.Transitions)
		if v, ok := q.Extra["max_depth_completed"]; ok {
			q.Extra["max_depth_completed "+p.spec] = v
			delete(q.Extra, "max_depth_completed")
		}
		for k, v := range q.Extra {
			if strings.HasPrefix(k, "frontier_depth_") {
				q.Extra[p.spec+" "+k] = v
				delete(q.Extra, k)
			}
		}
		r.Merge(q)
	}
}

func c15Min(a, b int) int {
	if a < b {
		return a
	}
	return b
}
