package main

// C05 — Save reports success only for a completely written, faithful file.
//
// Fault model: the kernel cuts the output file at byte k (RLIMIT_FSIZE = k with
// SIGXFSZ ignored): the write that crosses offset k is shortened and the next one
// fails with EFBIG, with the real os.File / archive/zip / bufio stack in between.
// Every k in [0, size+slack] is enumerated for every document of the set; the
// other fault kinds are target paths that cannot be written.

import (
	"archive/zip"
	"bytes"
	"crypto/sha256"
	"encoding/json"
	"fmt"
	"os"
	"os/signal"
	"path/filepath"
	"sort"
	"strings"
	"syscall"
	"time"

	"github.com/zerx-lab/wordZero/pkg/document"
	"github.com/zerx-lab/wordZero/pkg/style"

	"verif/harness/internal/foreign"
	"verif/harness/internal/pkgmodel"
	"verif/harness/internal/rep"
	"verif/harness/internal/shard"
)

type c05Doc struct {
	name  string
	build func() *document.Document
}

// noisePNG is an incompressible image of roughly n bytes (deterministic).
func noisePNG(side int, seed uint32) []byte {
	k := [2]uint32{uint32(side), seed}
	if b, ok := noiseCache[k]; ok {
		return b
	}
	b := pngNoise(side, side, seed)
	noiseCache[k] = b
	return b
}

var noiseCache = map[[2]uint32][]byte{}

var c05Docs = []c05Doc{
	{"one-paragraph", func() *document.Document {
		d := document.New()
		d.AddParagraph("hello")
		return d
	}},
	{"mixed", func() *document.Document {
		d := document.New()
		d.AddHeadingParagraph("Title", 1)
		x := uint32(7)
		for i := 0; i < 60; i++ {
			// pseudo-random words so that deflate cannot shrink the part to nothing
			var sb strings.Builder
			for j := 0; j < 40; j++ {
				x = x*1664525 + 1013904223
				sb.WriteString(fmt.Sprintf("%x ", x>>8))
			}
			d.AddParagraph(sb.String())
		}
		t, _ := d.AddTable(&document.TableConfig{Rows: 3, Cols: 3, Width: 6000})
		if t != nil {
			t.SetCellText(0, 0, "cell")
		}
		d.AddHeader(document.HeaderFooterTypeDefault, "head")
		d.AddFooterWithPageNumber(document.HeaderFooterTypeDefault, "foot", true)
		d.AddListItem("item", &document.ListConfig{Type: document.ListTypeBullet, BulletSymbol: document.BulletTypeDot})
		d.AddFootnote("noted", "note text")
		return d
	}},
	{"two-images", func() *document.Document {
		d := document.New()
		d.AddParagraph("pictures")
		for i := 0; i < 2; i++ {
			d.AddImageFromData(noisePNG(40, uint32(i+1)), fmt.Sprintf("p%d.png", i), document.ImageFormatPNG, 40, 40, nil)
		}
		return d
	}},
	// thorough only from here
	{"three-images", func() *document.Document {
		d := document.New()
		d.AddParagraph("pictures")
		for i := 0; i < 3; i++ {
			d.AddImageFromData(noisePNG(90, uint32(i+1)), fmt.Sprintf("p%d.png", i), document.ImageFormatPNG, 90, 90, nil)
		}
		return d
	}},
	{"opened-foreign+edit", func() *document.Document {
		p := foreign.New()
		p.Overrides["/word/styles.xml"] = foreign.CtStyles
		p.Add("word/styles.xml", foreign.StylesXML())
		p.DocRels = append(p.DocRels, foreign.Rel{ID: "rId1", Type: pkgmodel.RtStyles, Target: "styles.xml"})
		p.Add("word/document.xml", foreign.DocXML("w", foreign.Para("seed")))
		p.Add("customXml/item1.xml", []byte(`<?xml version="1.0"?><a>custom</a>`))
		d, errS := reopen(p.Bytes())
		if errS != "" {
			panic("c05: foreign seed does not open: " + errS)
		}
		d.AddParagraph("edit")
		return d
	}},
	{"saved-twice", func() *document.Document {
		d := document.New()
		d.AddParagraph("first")
		d.ToBytes()
		d.AddFormattedParagraph("second", &document.TextFormat{Bold: true})
		return d
	}},
	{"empty", func() *document.Document { return document.New() }},
}

type c05Args struct {
	Docs  []int  `json:"docs"`
	Sizes []int  `json:"sizes"` // per listed doc: upper end of k
	Root  string `json:"root"`
	// depth of the agreement histories (part 3)
	AgreeDepth int `json:"agree_depth"`
}

func c05SetLimit(k uint64) error {
	var cur syscall.Rlimit
	if err := syscall.Getrlimit(syscall.RLIMIT_FSIZE, &cur); err != nil {
		return err
	}
	cur.Cur = k
	return syscall.Setrlimit(syscall.RLIMIT_FSIZE, &cur)
}

const rlimInfinity = ^uint64(0)

// c05Compare checks that file content (already read) is a complete package equal to the ToBytes serialisation.
func c05Compare(file, ref []byte) (clause, detail string) {
	if _, err := zip.NewReader(bytes.NewReader(file), int64(len(file))); err != nil {
		return "incomplete", "file is not a readable ZIP: " + err.Error()
	}
	fp := pkgmodel.Read(file)
	if fp.ZipErr != "" {
		return "incomplete", "file is not a readable ZIP: " + fp.ZipErr
	}
	rp := pkgmodel.Read(ref)
	if rp.ZipErr != "" {
		return "harness", "ToBytes result unreadable: " + rp.ZipErr
	}
	var names []string
	for n := range rp.Parts {
		names = append(names, n)
	}
	sort.Strings(names)
	for _, n := range names {
		fb, ok := fp.Parts[n]
		if !ok {
			return "part-missing", "part " + n + " of the ToBytes serialisation is not in the file"
		}
		if string(fb) == string(rp.Parts[n]) {
			continue
		}
		// XML parts may legitimately differ in the order of id-keyed children (Go map iteration) and in time stamps
		fc, rc := fp.CanonPackage()[n], rp.CanonPackage()[n]
		if fc != rc {
			return "part-differs", "part " + n + " differs between the file and ToBytes"
		}
	}
	for n := range fp.Parts {
		if _, ok := rp.Parts[n]; !ok {
			return "part-extra", "file has part " + n + " that ToBytes does not yield"
		}
	}
	if len(fp.Dups) > 0 {
		return "duplicate-entries", strings.Join(fp.Dups, ",")
	}
	return "", ""
}

func partClassOf(detail string) string {
	// reduce "part word/media/image0.png differs" to a class
	for _, c := range []string{"word/media/", "word/document.xml", "word/styles.xml", "[Content_Types].xml", "_rels/", "docProps/", "word/header", "word/footer", "word/footnotes", "word/numbering", "customXml/"} {
		if strings.Contains(detail, c) {
			return c
		}
	}
	return "other"
}

func init() {
	shard.Register("C05", func(c *shard.Ctx) {
		var a c05Args
		json.Unmarshal(c.Args, &a)
		signal.Ignore(syscall.SIGXFSZ)
		dir, err := os.MkdirTemp(a.Root, "w-")
		if err != nil {
			c.P.HarnessErrs = append(c.P.HarnessErrs, err.Error())
			return
		}
		defer os.RemoveAll(dir)
		idx := int64(0)
		// ---- part 1: file-size faults at every offset
		for di, dn := range a.Docs {
			doc := c05Docs[dn]
			for k := 0; k <= a.Sizes[di]; k++ {
				my := c.Begin(idx, func() interface{} { return map[string]interface{}{"doc": doc.name, "fault": "RLIMIT_FSIZE", "k": k} })
				idx++
				if !my {
					continue
				}
				c05Fsize(c, idx-1, doc, k, filepath.Join(dir, "out.docx"))
			}
		}
		// ---- part 2: target paths, for every document of the set in both tiers (an opened document serialises
		// the same way twice, a new one usually does not: both matter for a target that holds an earlier save)
		for dn := range c05Docs {
			doc := c05Docs[dn]
			for _, pk := range c05PathKinds {
				my := c.Begin(idx, func() interface{} { return map[string]interface{}{"doc": doc.name, "path": pk} })
				idx++
				if !my {
					continue
				}
				c05Path(c, idx-1, doc, pk, dir)
			}
		}
		// ---- part 3: Save and ToBytes agree in every state of a history, not only on fresh documents
		c05Agreement(func(desc map[string]interface{}, run func(idx int64)) {
			my := c.Begin(idx, func() interface{} { return desc })
			idx++
			if my {
				run(idx - 1)
			}
		}, c, dir, a.AgreeDepth)
	})
	register("C05", "model_checking", runC05)
}

// ---------------------------------------------------------------------------
// part 3: agreement histories.  base document x first serialisation (none / ToBytes / Save) x every
// sequence of <= depth mutations, with a serialisation after each but the last x which of the two
// final serialisations comes first.  No fault is injected: Save must return nil and the file must
// equal the ToBytes serialisation of that moment.

type c05Mut struct {
	name  string
	apply func(d *document.Document)
}

var c05Muts = []c05Mut{
	{"AddParagraph", func(d *document.Document) { d.AddParagraph("more") }},
	{"AddStyle", func(d *document.Document) {
		d.GetStyleManager().AddStyle(&style.Style{Type: string(style.StyleTypeParagraph), StyleID: "AgreeX", CustomStyle: true,
			Name: &style.StyleName{Val: "Agree X"}, RunPr: &style.RunProperties{Bold: &style.Bold{}}})
	}},
	{"RemoveStyle(Quote)", func(d *document.Document) { d.GetStyleManager().RemoveStyle("Quote") }},
	{"AddImage(png)", func(d *document.Document) {
		d.AddImageFromData(noisePNG(6, 9), "agree.png", document.ImageFormatPNG, 6, 6, nil)
	}},
	{"AddImage(jpeg)", func(d *document.Document) {
		d.AddImageFromData(jpegBytes(4, 2, 77), "agree.jpg", document.ImageFormatJPEG, 4, 2, nil)
	}},
	{"AddHeader(default)", func(d *document.Document) { d.AddHeader(document.HeaderFooterTypeDefault, "agree head") }},
	{"AddFooterWithPageNumber(first)", func(d *document.Document) {
		d.AddFooterWithPageNumber(document.HeaderFooterTypeFirst, "agree foot", true)
	}},
	{"AddListItem", func(d *document.Document) {
		d.AddListItem("agree item", &document.ListConfig{Type: document.ListTypeNumber})
	}},
	{"AddFootnote", func(d *document.Document) { d.AddFootnote("agree ref", "agree note") }},
	{"AddEndnote", func(d *document.Document) { d.AddEndnote("agree eref", "agree endnote") }},
	{"AddTable", func(d *document.Document) { d.AddTable(&document.TableConfig{Rows: 2, Cols: 2, Width: 4000}) }},
	{"SetPageMargins", func(d *document.Document) { d.SetPageMargins(11, 12, 13, 14) }},
	{"SetPageOrientation(landscape)", func(d *document.Document) { d.SetPageOrientation(document.OrientationLandscape) }},
	{"SetTitle", func(d *document.Document) { d.SetTitle("agree title") }},
	{"SetFootnoteConfig", func(d *document.Document) { d.SetFootnoteConfig(nil) }},
	{"RemoveParagraphAt(0)", func(d *document.Document) { d.RemoveParagraphAt(0) }},
}

var c05AgreeBases = []c05Doc{
	{"new", func() *document.Document {
		d := document.New()
		d.AddParagraph("base")
		return d
	}},
	{"new+section-first", func() *document.Document {
		d := document.New()
		d.SetPageMargins(30, 30, 30, 30)
		d.AddParagraph("base after section settings")
		return d
	}},
	{"opened", func() *document.Document {
		d := document.New()
		d.AddParagraph("base")
		d.AddHeader(document.HeaderFooterTypeDefault, "h")
		b, err := d.ToBytes()
		if err != nil {
			panic(err)
		}
		o, errS := reopen(b)
		if errS != "" {
			panic("c05: own output does not open: " + errS)
		}
		return o
	}},
}

func init() {
	c05AgreeBases = append(c05AgreeBases, c05Doc{"opened-foreign(empty part, big part, stored entries, header with media)", func() *document.Document {
		o, errS := reopen(foreign.Compose([]string{"styles", "hdr-default", "empty-part", "big-part", "zip-stored"}))
		if errS != "" {
			panic("c05: foreign package does not open: " + errS)
		}
		return o
	}})
}

func init() {
	// a package without the optional parts: no styles part (hence no Override for it), no relationships of the main part
	c05AgreeBases = append(c05AgreeBases, c05Doc{"opened-foreign(minimal: one paragraph, no styles part)", func() *document.Document {
		o, errS := reopen(foreign.Compose(nil))
		if errS != "" {
			panic("c05: minimal foreign package does not open: " + errS)
		}
		return o
	}})
}

func c05Agreement(each func(desc map[string]interface{}, run func(idx int64)), c *shard.Ctx, dir string, depth int) {
	firsts := []string{"none", "ToBytes", "Save"}
	orders := []string{"ToBytes-then-Save", "Save-then-ToBytes"}
	var seqs [][]int
	var gen func(pre []int)
	gen = func(pre []int) {
		if len(pre) > 0 {
			seqs = append(seqs, append([]int{}, pre...))
		}
		if len(pre) == depth {
			return
		}
		for m := range c05Muts {
			gen(append(pre, m))
		}
	}
	gen(nil)
	for _, base := range c05AgreeBases {
		for _, first := range firsts {
			for _, seq := range seqs {
				for _, order := range orders {
					base, first, seq, order := base, first, seq, order
					names := make([]string, len(seq))
					for k, m := range seq {
						names[k] = c05Muts[m].name
					}
					desc := map[string]interface{}{"agreement": true, "base": base.name, "first": first, "mutations": names, "order": order}
					each(desc, func(idx int64) { c05AgreeCase(c, idx, desc, base, first, seq, order, dir) })
				}
			}
		}
	}
}

func c05AgreeCase(c *shard.Ctx, idx int64, desc map[string]interface{}, base c05Doc, first string, seq []int, order, dir string) {
	P := c.P
	document.VerifResetGlobals()
	sub := filepath.Join(dir, fmt.Sprintf("g%d", idx))
	os.MkdirAll(sub, 0o755)
	defer os.RemoveAll(sub)
	path := filepath.Join(sub, "a.docx")
	var ref, file []byte
	var terr, serr error
	var kept [][]byte
	var keptSum [][32]byte
	last := c05Muts[seq[len(seq)-1]].name
	pan := guard(func() {
		d := base.build()
		ser := func(how string) {
			switch how {
			case "ToBytes":
				if b, err := d.ToBytes(); err == nil {
					kept = append(kept, b)
					keptSum = append(keptSum, sha256.Sum256(b))
				}
			case "Save":
				d.Save(filepath.Join(sub, "earlier.docx"))
			}
		}
		ser(first)
		for k, m := range seq {
			c05Muts[m].apply(d)
			if k < len(seq)-1 {
				ser(map[string]string{"none": "ToBytes", "ToBytes": "ToBytes", "Save": "Save"}[first])
			}
		}
		if order == "ToBytes-then-Save" {
			ref, terr = d.ToBytes()
			serr = d.Save(path)
		} else {
			serr = d.Save(path)
			ref, terr = d.ToBytes()
		}
	})
	P.Evals++
	P.Transitions += int64(len(seq) + 2)
	P.Traces++
	cs := shardCase(c, "C05", idx, desc)
	key := fmt.Sprintf("agree|%s|%s|%v|%s", base.name, first, seq, order)
	P.Keys = append(P.Keys, key)
	if first != "none" {
		P.Nontrivial = append(P.Nontrivial, key)
	}
	if pan != "" {
		P.Violate(rep.Violation{Sig: "panic|agreement|" + panicClass(pan), Clause: "panic", What: fmt.Sprintf("history %v panics: %s", desc, pan), Case: cs})
		return
	}
	for k, b := range kept {
		// what ToBytes yielded "at that moment" is the caller's: later calls must not rewrite it
		if sha256.Sum256(b) != keptSum[k] {
			P.Violate(rep.Violation{Sig: "tobytes-result-changed-later|agreement", Clause: "save-equals-tobytes", What: fmt.Sprintf("the bytes an earlier ToBytes returned were changed by later calls (%v)", desc), Case: cs})
			break
		}
	}
	if terr != nil {
		P.Outcome("agreement=>ToBytes-error")
		return
	}
	if serr != nil {
		P.Violate(rep.Violation{Sig: "error-on-writable-target|agreement|after=" + last, Clause: "save-works", What: fmt.Sprintf("Save failed without any fault although ToBytes works (%v): %v", desc, serr), Case: cs})
		return
	}
	file, _ = os.ReadFile(path)
	clause, detail := c05Compare(file, ref)
	P.Outcome("agreement=>" + map[bool]string{true: "agree", false: clause}[clause == ""])
	if clause != "" && clause != "harness" {
		P.Violate(rep.Violation{Sig: "save-and-tobytes-disagree|" + clause + "|" + partClassOf(detail), Clause: "save-equals-tobytes", What: fmt.Sprintf("after %v: Save returned nil but %s", desc, detail), Case: cs})
	}
}

var c05PathKinds = []string{"plain", "save-before-any-tobytes", "nested-new-dirs", "existing-longer-file", "existing-shorter-file", "existing-own-previous-save", "existing-previous-save-data-damaged", "existing-previous-save-head-damaged", "existing-same-length-garbage", "relative-bare-name", "dev-full", "is-a-directory", "below-a-regular-file", "missing-dir-under-file", "empty-name"}

func c05Fsize(c *shard.Ctx, idx int64, doc c05Doc, k int, path string) {
	P := c.P
	document.VerifResetGlobals()
	var d *document.Document
	var ref []byte
	var terr error
	if p := guard(func() { d = doc.build(); ref, terr = d.ToBytes() }); p != "" || terr != nil {
		P.HarnessErrs = append(P.HarnessErrs, fmt.Sprintf("building %s: %s %v", doc.name, p, terr))
		return
	}
	os.Remove(path)
	var serr error
	if err := c05SetLimit(uint64(k)); err != nil {
		P.HarnessErrs = append(P.HarnessErrs, "setrlimit: "+err.Error())
		return
	}
	pan := guard(func() { serr = d.Save(path) })
	if err := c05SetLimit(rlimInfinity); err != nil {
		fmt.Fprintln(os.Stderr, "cannot restore RLIMIT_FSIZE:", err)
		os.Exit(3)
	}
	P.Evals++
	P.Transitions++
	P.Traces++
	file, rerr := os.ReadFile(path)
	if rerr != nil {
		file = nil
	}
	cs := shardCase(c, "C05", idx, map[string]interface{}{"doc": doc.name, "fault": "RLIMIT_FSIZE", "k": k})
	if pan != "" {
		P.Violate(rep.Violation{Sig: "panic|Save|" + panicClass(pan), Clause: "panic", What: fmt.Sprintf("Save of %s with a write failure at byte %d panics: %s", doc.name, k, pan), Case: cs, Depth: k})
		return
	}
	clause, detail := c05Compare(file, ref)
	if clause == "harness" {
		P.HarnessErrs = append(P.HarnessErrs, detail)
		return
	}
	faulted := len(file) == k && clause != "" // the file was cut at the limit
	region := "mid-file"
	if k+4096 >= len(ref) {
		region = "last-buffered-block"
	}
	switch {
	case serr == nil && clause == "":
		P.Outcome("nil+complete")
		P.Keys = append(P.Keys, fmt.Sprintf("%s|%d|ok", doc.name, k))
	case serr != nil:
		P.Outcome("error+" + map[bool]string{true: "cut", false: "other"}[faulted])
		key := fmt.Sprintf("%s|%d|err", doc.name, k)
		P.Keys = append(P.Keys, key)
		P.Nontrivial = append(P.Nontrivial, key)
	default:
		P.Outcome("nil+" + clause)
		key := fmt.Sprintf("%s|%d|nil-bad", doc.name, k)
		P.Keys = append(P.Keys, key)
		P.Nontrivial = append(P.Nontrivial, key)
		sig := "nil-but-" + clause + "|fsize-limit|" + region
		if clause != "incomplete" {
			sig = "nil-but-" + clause + "|" + partClassOf(detail)
		}
		P.Violate(rep.Violation{Sig: sig, Clause: "success-implies-complete-and-faithful", Depth: k,
			What: fmt.Sprintf("Save(%s) returned nil although the output was cut at byte %d of about %d: %s", doc.name, k, len(ref), detail), Case: cs})
	}
	if len(P.Samples) < 3 && k%97 == 5 {
		P.Samples = append(P.Samples, map[string]interface{}{"doc": doc.name, "fault": "file cut at byte", "k": k, "save_error": fmt.Sprint(serr), "file_bytes": len(file), "file_state": map[bool]string{true: "complete and equal to ToBytes", false: clause}[clause == ""]})
	}
}

func c05Path(c *shard.Ctx, idx int64, doc c05Doc, kind, dir string) {
	P := c.P
	document.VerifResetGlobals()
	d := doc.build()
	var ref []byte
	var terr error
	if kind != "save-before-any-tobytes" {
		ref, terr = d.ToBytes()
	} else {
		// the reference is taken from an identically built twin, and again from d itself after Save
		document.VerifResetGlobals()
		ref, terr = doc.build().ToBytes()
		document.VerifResetGlobals()
		d = doc.build()
	}
	if terr != nil {
		P.HarnessErrs = append(P.HarnessErrs, terr.Error())
		return
	}
	sub := filepath.Join(dir, fmt.Sprintf("p%d", idx))
	os.MkdirAll(sub, 0o755)
	defer os.RemoveAll(sub)
	var path string
	mustFail := false
	readBack := true
	switch kind {
	case "plain", "save-before-any-tobytes":
		path = filepath.Join(sub, "a.docx")
	case "nested-new-dirs":
		path = filepath.Join(sub, "x", "y", "z", "a.docx")
	case "existing-longer-file":
		path = filepath.Join(sub, "a.docx")
		os.WriteFile(path, make([]byte, len(ref)*3+1000), 0o644)
	case "existing-shorter-file":
		path = filepath.Join(sub, "a.docx")
		os.WriteFile(path, []byte("PK\x03\x04junk"), 0o644)
	case "existing-own-previous-save", "existing-previous-save-data-damaged", "existing-previous-save-head-damaged", "existing-same-length-garbage":
		// the target already holds an earlier save of the very same document - intact, or damaged in a way a
		// look at its size or at its central directory does not reveal (seed C05-d2)
		path = filepath.Join(sub, "a.docx")
		var e1 error
		if p := guard(func() { e1 = d.Save(path) }); p != "" || e1 != nil {
			P.Violate(rep.Violation{Sig: "error-on-writable-target|" + kind, Clause: "save-works", What: fmt.Sprintf("first Save(%s) failed without any fault: %s %v", doc.name, p, e1), Case: shardCase(c, "C05", idx, map[string]interface{}{"doc": doc.name, "path": kind})})
			return
		}
		prev, _ := os.ReadFile(path)
		switch kind {
		case "existing-previous-save-data-damaged":
			if zr, err := zip.NewReader(bytes.NewReader(prev), int64(len(prev))); err == nil {
				for _, f := range zr.File {
					if off, err := f.DataOffset(); err == nil && f.CompressedSize64 > 0 {
						prev[off+int64(f.CompressedSize64/2)] ^= 0xFF
					}
				}
			}
		case "existing-previous-save-head-damaged":
			for i := 0; i < 30 && i < len(prev); i++ {
				prev[i] = 0
			}
		case "existing-same-length-garbage":
			for i := range prev {
				prev[i] = byte(i*7 + 3)
			}
		}
		os.WriteFile(path, prev, 0o644)
	case "relative-bare-name":
		// a bare file name in the current directory (Dir(".") must not be a problem)
		old, _ := os.Getwd()
		os.Chdir(sub)
		defer os.Chdir(old)
		path = "bare.docx"
	case "dev-full":
		path = "/dev/full"
		mustFail = true
		readBack = false
		if _, err := os.Stat(path); err != nil {
			P.Notes = append(P.Notes, "/dev/full not present: case skipped")
			return
		}
	case "is-a-directory":
		path = filepath.Join(sub, "dir.docx")
		os.MkdirAll(path, 0o755)
		mustFail = true
		readBack = false
	case "below-a-regular-file":
		f := filepath.Join(sub, "file")
		os.WriteFile(f, []byte("x"), 0o644)
		path = filepath.Join(f, "a.docx")
		mustFail = true
		readBack = false
	case "missing-dir-under-file":
		f := filepath.Join(sub, "file")
		os.WriteFile(f, []byte("x"), 0o644)
		path = filepath.Join(f, "d", "a.docx")
		mustFail = true
		readBack = false
	case "empty-name":
		path = ""
		mustFail = true
		readBack = false
	}
	var serr error
	pan := guard(func() { serr = d.Save(path) })
	P.Evals++
	P.Transitions++
	P.Traces++
	cs := shardCase(c, "C05", idx, map[string]interface{}{"doc": doc.name, "path": kind})
	key := doc.name + "|path:" + kind
	P.Keys = append(P.Keys, key)
	P.Nontrivial = append(P.Nontrivial, key)
	if pan != "" {
		P.Violate(rep.Violation{Sig: "panic|Save|" + panicClass(pan), Clause: "panic", What: fmt.Sprintf("Save(%s) to %s panics: %s", doc.name, kind, pan), Case: cs})
		return
	}
	P.Outcome(kind + "=>" + map[bool]string{true: "nil", false: "error"}[serr == nil])
	if mustFail {
		if serr == nil {
			P.Violate(rep.Violation{Sig: "nil-on-unwritable-target|" + kind, Clause: "fault-implies-error", What: fmt.Sprintf("Save(%s) to a target that cannot hold the file (%s) returned nil", doc.name, kind), Case: cs})
		}
		return
	}
	if serr != nil {
		// not a violation of "nil only if complete"; but a writable target must be writable for the run to mean anything
		P.Violate(rep.Violation{Sig: "error-on-writable-target|" + kind, Clause: "save-works", What: fmt.Sprintf("Save(%s) to %s failed without any fault: %v", doc.name, kind, serr), Case: cs})
		return
	}
	if readBack {
		file, _ := os.ReadFile(path)
		clause, detail := c05Compare(file, ref)
		if clause == "" {
			// no stale bytes of an earlier, longer file after the end of the archive
			if fp := pkgmodel.Read(file); fp.ZipErr == "" && !zipEndsAtEOF(file) {
				clause, detail = "trailing-garbage", "bytes after the end-of-central-directory record"
			}
		}
		if clause == "" && kind == "save-before-any-tobytes" {
			after, _ := d.ToBytes()
			clause, detail = c05Compare(file, after)
		}
		if clause != "" && clause != "harness" {
			P.Violate(rep.Violation{Sig: "nil-but-" + clause + "|path:" + kind, Clause: "success-implies-complete-and-faithful", What: fmt.Sprintf("Save(%s) to %s returned nil but: %s", doc.name, kind, detail), Case: cs})
		}
	}
}

// zipEndsAtEOF: the end-of-central-directory record (no comment) is the last thing in the file.
func zipEndsAtEOF(b []byte) bool {
	if len(b) < 22 {
		return false
	}
	e := b[len(b)-22:]
	return e[0] == 'P' && e[1] == 'K' && e[2] == 5 && e[3] == 6 && e[20] == 0 && e[21] == 0
}

func runC05(r *rep.Run) {
	signal.Ignore(syscall.SIGXFSZ)
	docs := []int{0, 1, 2}
	if r.Tier == "thorough" {
		docs = []int{0, 1, 2, 3, 4, 5, 6}
	}
	root, err := os.MkdirTemp("", "vcheck-c05-")
	if err != nil {
		r.P.HarnessErrs = append(r.P.HarnessErrs, err.Error())
		return
	}
	defer os.RemoveAll(root)
	// self-test of the fault injector: a plain write must be cut exactly at the limit and then fail
	{
		p := filepath.Join(root, "probe")
		c05SetLimit(10)
		f, _ := os.Create(p)
		n, werr := f.Write(make([]byte, 25))
		f.Close()
		c05SetLimit(rlimInfinity)
		st, _ := os.Stat(p)
		if n != 10 || werr == nil || st == nil || st.Size() != 10 {
			r.P.HarnessErrs = append(r.P.HarnessErrs, fmt.Sprintf("fault injector self-test failed: wrote %d err=%v", n, werr))
			return
		}
		os.Remove(p)
	}
	var sizes []int
	total := 0
	sizeInfo := map[string]int{}
	for _, dn := range docs {
		document.VerifResetGlobals()
		d := c05Docs[dn].build()
		// the archive length varies by a few bytes between calls when id-keyed children are written in map order: take the maximum of several serialisations plus slack
		max := 0
		for i := 0; i < 5; i++ {
			b, err := d.ToBytes()
			if err != nil {
				r.P.HarnessErrs = append(r.P.HarnessErrs, err.Error())
				return
			}
			if len(b) > max {
				max = len(b)
			}
			d = c05Docs[dn].build()
		}
		sizes = append(sizes, max+256)
		sizeInfo[c05Docs[dn].name] = max
		total += max + 257
	}
	r.Rule = "for every document of the set and EVERY k in [0, size+256]: fresh document, ToBytes (reference), RLIMIT_FSIZE=k with SIGXFSZ ignored, real Document.Save to a real file, limit restored, file read back with the independent reader; verdict: err==nil => file is a readable ZIP whose part set equals ToBytes' and every part is byte-equal (XML parts: equal up to the order of id-keyed children and time stamps); plus target paths for every document of the set (plain, nested new directories, existing longer/shorter file, a target that already holds an earlier save of the same document - intact, with one byte of every entry's data flipped, with its first 30 bytes zeroed, or overwritten with garbage of the same length -, bare relative name: must succeed faithfully with no trailing bytes; /dev/full, a directory, below a regular file, empty name: must return an error); plus agreement histories without faults: 4 base documents (new; section settings first; opened own output; opened foreign package with an empty part, a 200 KiB part and stored entries) x first serialisation (none/ToBytes/Save) x every sequence of <= d mutations (styles added/removed, images, headers, footers, lists, notes, tables, page settings, properties, settings, removal) with a serialisation between mutations x both orders of the final ToBytes and Save: Save must return nil and the file must equal ToBytes; non-trivial = the fault actually struck (Save returned an error or the file is incomplete), a path case, or an agreement history whose document was serialised before it was changed; state = (document, k, outcome) / (history)"
	r.Bounds["documents"] = sizeInfo
	r.Bounds["fault_offsets"] = total
	r.Bounds["path_kinds"] = c05PathKinds
	r.Assume = []string{
		"RLIMIT_FSIZE cuts the write that crosses byte k and fails the next one with EFBIG (self-tested at start); /dev/full fails every flushed write with ENOSPC",
		"close-time errors of network file systems and durability after power loss are outside this fault model",
	}
	t0 := time.Now()
	agreeDepth := 2
	if r.Tier == "thorough" {
		agreeDepth = 3
	}
	r.Bounds["agreement_histories"] = map[string]interface{}{"bases": len(c05AgreeBases), "first_serialisation": []string{"none", "ToBytes", "Save"}, "mutations": len(c05Muts), "max_mutations": agreeDepth, "final_order": 2}
	runShards(r, "C05", c05Args{Docs: docs, Sizes: sizes, Root: root, AgreeDepth: agreeDepth}, 120*time.Second, nil)
	r.P.Add("fault_run_ms", time.Since(t0).Milliseconds())
}
