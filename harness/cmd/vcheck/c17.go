package main

// C17 — template rendering is pure, repeatable and safe to use concurrently.
//
//  part S  BFS over load / load-from-document / render / remove / clear histories on one
//          real TemplateEngine.  Oracle: the result of Render(T) equals the result, on a
//          fresh engine, of the minimal history that loads exactly the versions T was bound
//          to when it was loaded (differential, no hand-written expected value); rendering
//          twice gives equal results; template object, data and base document are unchanged.
//  part C  schedx: 2-3 goroutines on one engine, every schedule with <= 2 preemptions; the
//          tuple of results must be the tuple of some sequential order of the same calls.
//  part R  free-running -race build of the same bodies (detection only).

import (
	"encoding/json"
	"fmt"
	"os"
	"os/exec"
	"reflect"
	"sort"
	"strings"
	"sync"
	"time"

	"github.com/zerx-lab/wordZero/pkg/document"

	"verif/harness/internal/rep"
	"verif/harness/internal/schedx"
	"verif/harness/internal/seqx"
	"verif/harness/internal/shard"
)

// ---- the template universe

type c17Src struct {
	name    string // cache name
	content string
	extends string // cache name of the parent ("" = none)
	doc     bool   // loaded from a document
	tag     string
	docKind int // which base document a document template is built from
	// schedOnly: used by the schedule scenarios, not by the history search
	schedOnly bool
}

var c17Sources = []c17Src{
	{name: "base", tag: "base.v1", content: "A {{#block \"x\"}}BX{{/block}} B {{#block \"y\"}}BY{{/block}} C {{v}}"},
	{name: "base", tag: "base.v2", content: "A2 {{#block \"x\"}}B2X{{/block}} B2 {{#block \"y\"}}B2Y{{/block}} C2 {{v}}"},
	{name: "c1", tag: "c1", extends: "base", content: "{{extends \"base\"}}{{#block \"x\"}}C1X {{v}}{{/block}}"},
	{name: "c2", tag: "c2", extends: "base", content: "{{extends \"base\"}}{{#block \"x\"}}C2X{{/block}}{{#block \"y\"}}C2Y{{/block}}"},
	{name: "g", tag: "g", extends: "c1", content: "{{extends \"c1\"}}{{#block \"y\"}}GY{{/block}}"},
	{name: "d", tag: "d.doc", doc: true},
	{name: "plain", tag: "plain", content: "{{#if c}}yes{{else}}no{{/if}} {{#each L}}{{n}};{{/each}} {{v}} {{#each vl}}<{{this}}>{{/each}}"},
	// a second definition under the name of a derived template (overrides the other block)
	{name: "c1", tag: "c1.v2", extends: "base", content: "{{extends \"base\"}}{{#block \"y\"}}C1Y2 {{v}}{{/block}}"},
	// a second document template whose parts have the same names as d's but carry no placeholder where d has
	// one (header) and one where d has none (footer): what the engine remembers about "word/header1.xml" of
	// one template must not be applied to the other (seed C18-d1)
	{name: "e", tag: "e.doc", doc: true, docKind: 1},
	// schedule scenarios only (not part of the history alphabet): another definition under the name of the
	// document template / of the plain template, of the other kind of template
	{name: "d", tag: "d.v2(e's document under the name d)", doc: true, docKind: 1, schedOnly: true},
	{name: "plain", tag: "plain.v2(a document under the name plain)", doc: true, schedOnly: true},
	{name: "d", tag: "d.v3(a text template under the name d)", content: "text {{v}} under the name of a document template", schedOnly: true},
	// a document template whose header consists of a conditional only (no variable) while body and footer carry variables
	{name: "f", tag: "f.doc", doc: true, docKind: 2, schedOnly: true},
}

var c17Names = []string{"base", "c1", "c2", "g", "d", "e", "plain", "missing"}

func c17BaseDocF() *document.Document {
	d := document.New()
	d.AddParagraph("G {{v}}")
	d.AddHeader(document.HeaderFooterTypeDefault, "{{#if c}}cond{{/if}}")
	d.AddFooter(document.HeaderFooterTypeDefault, "F {{v}} {{w}}")
	d.AddFooter(document.HeaderFooterTypeFirst, "FF {{w}} {{v}}")
	return d
}

func c17BaseDocE() *document.Document {
	d := document.New()
	d.AddParagraph("E {{v}}")
	d.AddHeader(document.HeaderFooterTypeDefault, "static header")
	d.AddFooter(document.HeaderFooterTypeDefault, "F {{v}}")
	return d
}

func c17BaseDoc() *document.Document {
	d := document.New()
	p := d.AddParagraph("D {{v}} ")
	p.AddFormattedText("bold {{w}}", &document.TextFormat{Bold: true})
	d.AddHeader(document.HeaderFooterTypeDefault, "H {{v}}")
	d.AddFooter(document.HeaderFooterTypeDefault, "F")
	d.AddImageFromData(pngBytes(3, 3, 42), "logo.png", document.ImageFormatPNG, 3, 3, nil)
	d.AddParagraph("{{#image pic}}")
	t, _ := d.AddTable(&document.TableConfig{Rows: 1, Cols: 2, Width: 4000})
	if t != nil {
		t.SetCellText(0, 0, "cell {{v}}")
		// a table inside a cell, with its own placeholder
		if nt, err := t.AddNestedTable(0, 1, &document.TableConfig{Rows: 1, Cols: 1, Width: 1500}); err == nil && nt != nil {
			nt.SetCellText(0, 0, "nested {{v}}")
		}
	}
	return d
}

func c17Data() *document.TemplateData { return c17DataV(0) }

// c17DataV: variant 1 supplies a PNG for the image placeholder, variant 2 a JPEG, variant 0 none.
func c17DataV(variant int) *document.TemplateData {
	td := document.NewTemplateData()
	switch variant {
	case 1:
		td.SetImageFromData("pic", pngBytes(2, 2, 200), nil)
	case 2:
		td.SetImageFromData("pic", jpegBytes(4, 2, 100), nil)
	case 3:
		td.SetImageWithDetails("pic", "", pngBytes(2, 2, 200), nil, "alt text of variant 3", "title of variant 3")
	}
	// every variant has its own values, so that content left behind by a render with other data is recognisable
	td.SetVariable("v", []string{"V", "V1", "V2", "V3"}[variant])
	td.SetVariable("w", "W")
	td.SetCondition("c", true)
	td.SetList("L", []interface{}{map[string]interface{}{"n": "1"}, map[string]interface{}{"n": "2"}})
	// a VARIABLE that holds a list (the plain template loops over it): whatever the engine makes of it, it does
	// not belong in the caller's Lists afterwards
	td.SetVariable("vl", []interface{}{"p", "q"})
	return td
}

// ---- observation of a render

type c17Render struct {
	Err   string
	Text  string
	Parts map[string]string // only for document templates
	doc   *document.Document
}

func (r c17Render) String() string {
	ks := make([]string, 0, len(r.Parts))
	for k, v := range r.Parts {
		ks = append(ks, k+"="+v)
	}
	sort.Strings(ks)
	return "err=" + r.Err + "|text=" + r.Text + "|" + strings.Join(ks, ",")
}

func c17DocText(d *document.Document) string {
	var out []string
	for _, e := range d.Body.Elements {
		switch x := e.(type) {
		case *document.Paragraph:
			s := ""
			for _, r := range x.Runs {
				s += r.Text.Content
			}
			out = append(out, s)
		case *document.Table:
			var walk func(t *document.Table, pre string)
			walk = func(t *document.Table, pre string) {
				for _, row := range t.Rows {
					for ci := range row.Cells {
						c := &row.Cells[ci]
						for _, p := range c.Paragraphs {
							s := ""
							for _, r := range p.Runs {
								s += r.Text.Content
							}
							out = append(out, pre+"cell:"+s)
						}
						for ti := range c.Tables {
							walk(&c.Tables[ti], pre+"nested-")
						}
					}
				}
			}
			walk(x, "")
		}
	}
	return strings.Join(out, "\n")
}

func c17RenderOn(eng *document.TemplateEngine, name string, data *document.TemplateData, isDoc bool) c17Render {
	var r c17Render
	var d *document.Document
	var err error
	pan := guard(func() {
		if isDoc {
			d, err = eng.RenderTemplateToDocument(name, data)
		} else {
			d, err = eng.RenderToDocument(name, data)
		}
	})
	if pan != "" {
		r.Err = "panic: " + pan
		return r
	}
	if err != nil {
		r.Err = "error"
		return r
	}
	if d == nil {
		r.Err = "nil-document"
		return r
	}
	r.Text = c17DocText(d)
	r.doc = d
	schedx.Yield("between-render-and-save") // no effect outside a schedule exploration
	if isDoc {
		if b, e := d.ToBytes(); e == nil {
			r.Parts, _ = fastCanonParts(b)
		} else {
			r.Err = "save-error"
		}
	}
	return r
}

// deepDump prints exported fields recursively (pointers followed, maps sorted); Documents are summarised by their canonical package.
func deepDump(v reflect.Value, depth int, b *strings.Builder) {
	if depth > 12 {
		b.WriteString("…")
		return
	}
	switch v.Kind() {
	case reflect.Ptr, reflect.Interface:
		if v.IsNil() {
			b.WriteString("nil")
			return
		}
		if d, ok := v.Interface().(*document.Document); ok {
			if by, err := d.ToBytes(); err == nil {
				parts, _ := fastCanonParts(by)
				ks := make([]string, 0, len(parts))
				for k, h := range parts {
					ks = append(ks, k+"="+h)
				}
				sort.Strings(ks)
				b.WriteString("Document{" + strings.Join(ks, ",") + "}")
			} else {
				b.WriteString("Document{unsaveable}")
			}
			return
		}
		b.WriteString("&")
		deepDump(v.Elem(), depth+1, b)
	case reflect.Struct:
		b.WriteString(v.Type().Name() + "{")
		for i := 0; i < v.NumField(); i++ {
			f := v.Type().Field(i)
			if f.PkgPath != "" {
				continue
			}
			b.WriteString(f.Name + ":")
			deepDump(v.Field(i), depth+1, b)
			b.WriteString(",")
		}
		b.WriteString("}")
	case reflect.Map:
		keys := v.MapKeys()
		sort.Slice(keys, func(i, j int) bool { return fmt.Sprint(keys[i]) < fmt.Sprint(keys[j]) })
		b.WriteString("map[")
		for _, k := range keys {
			b.WriteString(fmt.Sprint(k) + ":")
			deepDump(v.MapIndex(k), depth+1, b)
			b.WriteString(",")
		}
		b.WriteString("]")
	case reflect.Slice, reflect.Array:
		if v.Kind() == reflect.Slice && v.Type().Elem().Kind() == reflect.Uint8 {
			b.WriteString(fmt.Sprintf("bytes(%d:%s)", v.Len(), rep.Hash(string(v.Bytes()))))
			return
		}
		b.WriteString("[")
		for i := 0; i < v.Len(); i++ {
			deepDump(v.Index(i), depth+1, b)
			b.WriteString(",")
		}
		b.WriteString("]")
	default:
		b.WriteString(fmt.Sprintf("%v", v.Interface()))
	}
}

func dumpOf(x interface{}) string {
	var b strings.Builder
	deepDump(reflect.ValueOf(x), 0, &b)
	return b.String()
}

// ---- part S

type c17Version struct {
	src    int
	parent *c17Version // the version bound at load time (nil = none / parent was absent)
	id     int
}

type c17Op struct {
	name    string
	kind    string // load | render | remove | clear
	src     int
	tn      string
	variant int // data variant for renders
}

var c17Ops []c17Op

func init() {
	for i, s := range c17Sources {
		if s.schedOnly {
			continue
		}
		c17Ops = append(c17Ops, c17Op{name: "Load(" + s.tag + ")", kind: "load", src: i})
	}
	for _, n := range c17Names {
		c17Ops = append(c17Ops, c17Op{name: "Render(" + n + ")", kind: "render", tn: n})
	}
	c17Ops = append(c17Ops,
		c17Op{name: "Render(d,pic=png)", kind: "render", tn: "d", variant: 1},
		c17Op{name: "Render(d,pic=jpeg)", kind: "render", tn: "d", variant: 2},
		c17Op{name: "Render(d,pic=png with alt text and title)", kind: "render", tn: "d", variant: 3},
		c17Op{name: "Remove(base)", kind: "remove", tn: "base"},
		c17Op{name: "Remove(c1)", kind: "remove", tn: "c1"},
		c17Op{name: "ClearCache", kind: "clear"},
	)
	names := make([]string, len(c17Ops))
	for i, o := range c17Ops {
		names[i] = o.name
	}
	seqx.Register(&seqx.Spec{Name: "C17", Ops: names, NoDeep: true, New: func(args json.RawMessage) seqx.Inst {
		var a c17Args
		json.Unmarshal(args, &a)
		return &c17Inst{eng: document.NewTemplateEngine(), cache: map[string]*c17Version{}, recentN: a.Recent, narrow: a.Narrow}
	}})
	shard.Register("C17sched", c17SchedWorker)
	register("C17", "model_checking", runC17)
}

// c17Args: Recent = how many of the most recent render calls are part of the state key.  Purity is the
// property under test, so "a render does not change the state" cannot be what merges two histories: a
// render that leaves something behind in the engine (a memo, a cached override table) only shows in the
// NEXT render, and that one is executed only if the state after the first is not merged away
// (seeds C17-d1, C17-d2, C18-d1).
type c17Args struct {
	Recent int `json:"recent"`
	// Narrow: only the inheritance calls (two base versions, two children, grandchild; their renders; removal
	// of the base) are enabled, explored deeper than the full alphabet
	Narrow bool `json:"narrow"`
}

var c17NarrowOps = map[string]bool{"Load(base.v1)": true, "Load(base.v2)": true, "Load(c1)": true, "Load(c2)": true, "Load(g)": true,
	"Render(base)": true, "Render(c1)": true, "Render(c2)": true, "Render(g)": true, "Remove(base)": true}

type c17Inst struct {
	recentN int
	narrow  bool
	recent  []string // names of the most recent render calls (at most recentN)
	kept    []c17Kept
	eng     *document.TemplateEngine
	cache   map[string]*c17Version // bookkeeping: which version each name holds
	nextID  int
	lastNT  bool
}

func (i *c17Inst) Enabled(op int) bool   { return !i.narrow || c17NarrowOps[c17Ops[op].name] }
func (i *c17Inst) Nontrivial() bool      { return i.lastNT }
func (i *c17Inst) Deep() []rep.Violation { return nil }

func c17Load(eng *document.TemplateEngine, s c17Src) error {
	var err error
	if s.doc {
		if s.docKind == 2 {
			_, err = eng.LoadTemplateFromDocument(s.name, c17BaseDocF())
		} else if s.docKind == 1 {
			_, err = eng.LoadTemplateFromDocument(s.name, c17BaseDocE())
		} else {
			_, err = eng.LoadTemplateFromDocument(s.name, c17BaseDoc())
		}
	} else {
		_, err = eng.LoadTemplate(s.name, s.content)
	}
	return err
}

// chain returns the versions T is bound to, oldest ancestor first.
func (v *c17Version) chain() []*c17Version {
	var c []*c17Version
	for x := v; x != nil; x = x.parent {
		c = append([]*c17Version{x}, c...)
	}
	return c
}

func (v *c17Version) key() string {
	s := ""
	for _, x := range v.chain() {
		s += c17Sources[x.src].tag + ">"
	}
	return s
}

// c17Expected is the reference render of T: on a fresh engine that loaded exactly T's bound chain,
// as the FIRST library activity of a FRESH process (so that state a render leaves behind anywhere in
// the process - an engine, a package-level default - cannot be in the reference as well).  The
// result is cached per (chain, name, data variant) for the life of this worker process.
func c17Expected(v *c17Version, name string, variant int) c17Render {
	var chain []int
	if v != nil {
		for _, x := range v.chain() {
			chain = append(chain, x.src)
		}
	}
	key := fmt.Sprintf("%v|%s|%d", chain, name, variant)
	c17ExpMu.Lock()
	defer c17ExpMu.Unlock()
	if r, ok := c17ExpCache[key]; ok {
		return r
	}
	spec, _ := json.Marshal(c17ExpSpec{Chain: chain, Name: name, Variant: variant})
	cmd := exec.Command(os.Args[0])
	cmd.Env = append(os.Environ(), "VCHECK_C17_EXPECT="+string(spec))
	out, err := cmd.Output()
	var r c17Render
	if err != nil || json.Unmarshal(out, &r) != nil {
		panic(fmt.Sprintf("harness: reference render in a fresh process failed for %s: %v", key, err))
	}
	c17ExpCache[key] = r
	return r
}

type c17ExpSpec struct {
	Chain   []int
	Name    string
	Variant int
}

var (
	c17ExpMu    sync.Mutex
	c17ExpCache = map[string]c17Render{}
)

// c17ExpectChild: the fresh process that computes one reference render.
func c17ExpectChild() bool {
	s, ok := os.LookupEnv("VCHECK_C17_EXPECT")
	if !ok {
		return false
	}
	var sp c17ExpSpec
	if err := json.Unmarshal([]byte(s), &sp); err != nil {
		os.Exit(3)
	}
	var v *c17Version
	for _, src := range sp.Chain {
		v = &c17Version{src: src, parent: v}
	}
	r := c17ExpectedInProcess(v, sp.Name, sp.Variant)
	r.doc = nil
	b, _ := json.Marshal(r)
	os.Stdout.Write(b)
	os.Exit(0)
	return true
}

// c17ExpectedInProcess renders T on a fresh engine after loading exactly its bound chain.
func c17ExpectedInProcess(v *c17Version, name string, variant int) c17Render {
	eng := document.NewTemplateEngine()
	if v != nil {
		for _, x := range v.chain() {
			if err := c17Load(eng, c17Sources[x.src]); err != nil {
				return c17Render{Err: "load-error"}
			}
		}
	}
	isDoc := v != nil && c17Sources[v.src].doc
	return c17RenderOn(eng, name, c17DataV(variant), isDoc)
}

// c17Kept is an earlier render result that must stay what it was.
type c17Kept struct {
	doc  *document.Document
	sig  string
	from string
}

func c17DocSig(d *document.Document) string {
	b, err := d.ToBytes()
	if err != nil {
		return "save-error"
	}
	parts, zerr := fastCanonParts(b)
	if zerr != "" {
		return "unreadable"
	}
	ks := make([]string, 0, len(parts))
	for k, h := range parts {
		ks = append(ks, k+"="+h)
	}
	sort.Strings(ks)
	return strings.Join(ks, ",")
}

// checkKept re-serialises the retained earlier results.
func (i *c17Inst) checkKept(after string) []rep.Violation {
	var out []rep.Violation
	for _, k := range i.kept {
		if now := c17DocSig(k.doc); now != k.sig {
			cul := "package"
			a, b := strings.Split(k.sig, ","), strings.Split(now, ",")
			for x := 0; x < len(a) && x < len(b); x++ {
				if a[x] != b[x] {
					cul = c07PartClass(strings.SplitN(a[x], "=", 2)[0])
					break
				}
			}
			out = append(out, rep.Violation{Sig: "earlier-result-changed|" + cul, Clause: "a render result does not change when other renders happen later",
				What: fmt.Sprintf("the document returned by %s saved differently (%s) after the later call %s", k.from, cul, after)})
		}
	}
	return out
}

func (i *c17Inst) Apply(op int) (string, []rep.Violation) {
	out, viol := i.apply1(op)
	viol = append(viol, i.checkKept(c17Ops[op].name)...)
	return out, viol
}

func (i *c17Inst) apply1(op int) (string, []rep.Violation) {
	o := c17Ops[op]
	i.lastNT = false
	var viol []rep.Violation
	switch o.kind {
	case "load":
		s := c17Sources[o.src]
		var err error
		if p := guard(func() { err = c17Load(i.eng, s) }); p != "" {
			return "panic", []rep.Violation{{Sig: "panic|load|" + panicClass(p), Clause: "panic", What: o.name + ": " + p}}
		}
		if err != nil {
			return "error", []rep.Violation{{Sig: "load-error|" + s.tag, Clause: "load", What: o.name + ": " + err.Error()}}
		}
		i.nextID++
		v := &c17Version{src: o.src, id: i.nextID}
		if s.extends != "" {
			v.parent = i.cache[s.extends]
		}
		i.cache[s.name] = v
		i.lastNT = true
		return "ok", nil
	case "remove":
		if p := guard(func() { i.eng.RemoveTemplate(o.tn) }); p != "" {
			return "panic", []rep.Violation{{Sig: "panic|remove|" + panicClass(p), Clause: "panic", What: p}}
		}
		delete(i.cache, o.tn)
		return "ok", nil
	case "clear":
		if p := guard(func() { i.eng.ClearCache() }); p != "" {
			return "panic", []rep.Violation{{Sig: "panic|clear|" + panicClass(p), Clause: "panic", What: p}}
		}
		i.cache = map[string]*c17Version{}
		return "ok", nil
	}
	// render
	v := i.cache[o.tn]
	isDoc := v != nil && c17Sources[v.src].doc
	data := c17DataV(o.variant)
	dataBefore := dumpOf(data)
	var tplBefore string
	var tpl *document.Template
	if v != nil {
		tpl, _ = i.eng.GetTemplate(o.tn)
		tplBefore = dumpOf(tpl)
	}
	got := c17RenderOn(i.eng, o.tn, data, isDoc)
	again := c17RenderOn(i.eng, o.tn, data, isDoc)
	if i.recentN > 0 && v != nil {
		i.recent = append(i.recent, o.name)
		if len(i.recent) > i.recentN {
			i.recent = i.recent[len(i.recent)-i.recentN:]
		}
	}
	want := c17Expected(v, o.tn, o.variant)
	if got.doc != nil && isDoc {
		i.kept = append(i.kept, c17Kept{doc: got.doc, sig: c17DocSig(got.doc), from: o.name})
		if len(i.kept) > 2 {
			i.kept = i.kept[1:]
		}
	}
	class := "absent"
	if v != nil {
		class = v.key()
		i.lastNT = true
	}
	if strings.HasPrefix(got.Err, "panic") {
		viol = append(viol, rep.Violation{Sig: "panic|render|" + panicClass(got.Err), Clause: "panic", What: o.name + ": " + got.Err})
	}
	if got.String() != again.String() {
		viol = append(viol, rep.Violation{Sig: "not-repeatable|" + class, Clause: "same template, same data, same result", What: fmt.Sprintf("%s twice in a row: %q then %q", o.name, got.String(), again.String()), Expect: got.String(), Got: again.String()})
	}
	if got.String() != want.String() {
		viol = append(viol, rep.Violation{Sig: "depends-on-other-templates|" + class, Clause: "render independent of other loads/renders/removals",
			What:   fmt.Sprintf("%s gives %q; on a fresh engine that loaded only the versions it is bound to (%s) it gives %q", o.name, got.Text+got.Err, class, want.Text+want.Err),
			Expect: want.String(), Got: got.String()})
	}
	if d := dumpOf(data); d != dataBefore {
		viol = append(viol, rep.Violation{Sig: "data-modified|" + class, Clause: "render never modifies the data", What: o.name + " changed the TemplateData"})
	}
	if tpl != nil {
		if d := dumpOf(tpl); d != tplBefore {
			cul := "template"
			if isDoc {
				cul = "template-or-base-document"
			}
			viol = append(viol, rep.Violation{Sig: "template-modified|" + cul + "|" + class, Clause: "render never modifies the template or its base document", What: o.name + " changed the template object (deep dump of exported fields, base document as canonical package)"})
		}
	}
	return "render:" + class + ":" + map[bool]string{true: "error", false: "ok"}[got.Err != ""], viol
}

func (i *c17Inst) Key() string {
	ks := make([]string, 0, len(i.cache))
	for n, v := range i.cache {
		ks = append(ks, n+"="+v.key())
	}
	sort.Strings(ks)
	// the engine's own view of which names exist must agree (part of the key so that a disagreement is not merged away)
	var have []string
	for _, n := range c17Names {
		if t, err := i.eng.GetTemplate(n); err == nil && t != nil {
			have = append(have, n)
		}
	}
	// earlier results that are still being watched are part of the state (at most the last two)
	kept := ""
	for _, k := range i.kept {
		kept += k.from + ";"
	}
	// hidden state of the engine and of the cached template objects (memo tables, counters): reflective fingerprint
	hid := document.VerifShallowOf(i.eng)
	for _, n := range have {
		if t, err := i.eng.GetTemplate(n); err == nil {
			hid += "/" + n + ":" + document.VerifShallowOf(t)
		}
	}
	return strings.Join(ks, ";") + "|" + strings.Join(have, ",") + "|" + kept + "|recent:" + strings.Join(i.recent, ">") + "|" + rep.Hash(hid)
}

// ---- part C: schedules on one engine

type c17Call struct {
	Kind    string // load | render | remove
	Src     int
	Name    string
	Variant int
	// AsText: render a document template through RenderToDocument (text path) instead of RenderTemplateToDocument
	AsText bool
}

func (c c17Call) String() string {
	switch c.Kind {
	case "load":
		return "Load(" + c17Sources[c.Src].tag + ")"
	case "remove":
		return "Remove(" + c.Name + ")"
	case "clear":
		return "ClearCache()"
	}
	return fmt.Sprintf("Render(%s,data%d)", c.Name, c.Variant)
}

type c17Scen struct {
	Pre     []int       // sources loaded before the threads start
	Threads [][]c17Call // per thread call sequence
}

func ld(src int) c17Call     { return c17Call{Kind: "load", Src: src} }
func rn(name string) c17Call { return c17Call{Kind: "render", Name: name} }
func rm(name string) c17Call { return c17Call{Kind: "remove", Name: name} }
func clr() c17Call           { return c17Call{Kind: "clear"} }
func rv(name string, v int) c17Call {
	return c17Call{Kind: "render", Name: name, Variant: v}
}
func rt(name string) c17Call { return c17Call{Kind: "render", Name: name, AsText: true} }

var c17Scens = []c17Scen{
	{Pre: []int{0}, Threads: [][]c17Call{{rn("base")}, {ld(2)}}},
	{Pre: []int{0}, Threads: [][]c17Call{{rn("base")}, {ld(2), rn("c1")}}},
	{Pre: []int{0, 2}, Threads: [][]c17Call{{rn("c1")}, {ld(3)}}},
	{Pre: []int{0, 2}, Threads: [][]c17Call{{rn("c1")}, {ld(1)}}},
	{Pre: []int{0, 2}, Threads: [][]c17Call{{rn("c1")}, {rn("c1")}}},
	{Pre: []int{0, 2}, Threads: [][]c17Call{{rn("c1")}, {rm("c1")}}},
	{Pre: []int{0, 2}, Threads: [][]c17Call{{rn("base")}, {ld(4), rn("g")}}},
	{Pre: []int{5}, Threads: [][]c17Call{{rn("d")}, {rn("d")}}},
	{Pre: []int{5}, Threads: [][]c17Call{{rn("d")}, {ld(5)}}},
	{Pre: []int{5}, Threads: [][]c17Call{{rv("d", 1)}, {rv("d", 2)}}},
	{Pre: []int{6}, Threads: [][]c17Call{{rn("plain")}, {rn("plain")}}},
	// loading a derived template (which looks its parent up) against calls that change the cache
	{Pre: []int{0}, Threads: [][]c17Call{{ld(2), rn("c1")}, {ld(3), rn("c2")}}},
	{Pre: []int{0, 2}, Threads: [][]c17Call{{ld(4), rn("g")}, {rm("c1")}}},
	{Pre: []int{0}, Threads: [][]c17Call{{ld(2), rn("c1")}, {ld(1)}}},
	{Pre: []int{0, 2}, Threads: [][]c17Call{{ld(3), rn("c2")}, {clr()}}},
	{Pre: []int{0, 2}, Threads: [][]c17Call{{rn("c1")}, {ld(7), rn("c1")}}},
	{Pre: []int{5}, Threads: [][]c17Call{{rv("d", 1)}, {ld(2)}}},
	// a render against a load that puts ANOTHER definition (also of the other kind) under the name being rendered:
	// the result must be the old or the new template's render, never a mixture (seed C17-g2); and a render that
	// follows the reload in the same thread must be the new one (seed C07-g2)
	{Pre: []int{5}, Threads: [][]c17Call{{rn("d")}, {ld(9), rn("d")}}},
	{Pre: []int{5}, Threads: [][]c17Call{{rt("d")}, {ld(9)}}},
	{Pre: []int{5}, Threads: [][]c17Call{{rt("d")}, {ld(11)}}},
	{Pre: []int{6}, Threads: [][]c17Call{{rn("plain")}, {ld(10), rn("plain")}}},
	{Pre: []int{0}, Threads: [][]c17Call{{rn("base")}, {ld(1), rn("base")}}},
	// two renders of a document template whose parts take different paths through the header/footer pass
	// (conditional only / variables): anything pooled or remembered between parts is shared by the two renders
	{Pre: []int{12}, Threads: [][]c17Call{{rn("f")}, {rn("f")}}},
	{Pre: []int{12}, Threads: [][]c17Call{{rn("f"), rn("f")}, {rn("f")}}},
	// three threads (thorough)
	{Pre: []int{0}, Threads: [][]c17Call{{rn("base")}, {ld(2)}, {rn("c1")}}},
	{Pre: []int{0, 2}, Threads: [][]c17Call{{rn("c1")}, {rn("c1")}, {rm("c1")}}},
	{Pre: []int{0, 2}, Threads: [][]c17Call{{rn("c1")}, {ld(3)}, {rn("base")}}},
	{Pre: []int{0, 2, 3}, Threads: [][]c17Call{{rn("c1")}, {rn("c2")}, {ld(1)}}},
}

func c17DoCall(eng *document.TemplateEngine, c c17Call) string {
	switch c.Kind {
	case "load":
		var err error
		if p := guard(func() { err = c17Load(eng, c17Sources[c.Src]) }); p != "" {
			return "panic: " + p
		}
		if err != nil {
			return "load-error"
		}
		return "loaded"
	case "remove":
		if p := guard(func() { eng.RemoveTemplate(c.Name) }); p != "" {
			return "panic: " + p
		}
		return "removed"
	case "clear":
		if p := guard(func() { eng.ClearCache() }); p != "" {
			return "panic: " + p
		}
		return "cleared"
	}
	r := c17RenderOn(eng, c.Name, c17DataV(c.Variant), (c.Name == "d" || c.Name == "f") && !c.AsText)
	if c.AsText || c.Name == "plain" {
		// the text path appends the header/footer texts of a document template in the order the parts came out
		// of a map when the template was loaded: the lines are compared as a multiset
		ls := strings.Split(r.Text, "\n")
		sort.Strings(ls)
		r.Text = strings.Join(ls, "\n")
	}
	return r.String()
}

func c17NewEngine(pre []int) *document.TemplateEngine {
	eng := document.NewTemplateEngine()
	for _, s := range pre {
		if err := c17Load(eng, c17Sources[s]); err != nil {
			panic(err)
		}
	}
	return eng
}

// c17SeqOutcomes: the result tuples of all sequential orders of the threads' calls.
func c17SeqOutcomes(sc c17Scen) map[string][]int {
	out := map[string][]int{}
	lens := make([]int, len(sc.Threads))
	for i, t := range sc.Threads {
		lens[i] = len(t)
	}
	c07Merges(lens, func(who []int) {
		eng := c17NewEngine(sc.Pre)
		pos := make([]int, len(sc.Threads))
		res := make([][]string, len(sc.Threads))
		for _, t := range who {
			res[t] = append(res[t], c17DoCall(eng, sc.Threads[t][pos[t]]))
			pos[t]++
		}
		k := fmt.Sprint(res)
		if _, ok := out[k]; !ok {
			out[k] = append([]int{}, who...)
		}
	})
	return out
}

func c17Keys(m map[string][]int) []string {
	var ks []string
	for k := range m {
		ks = append(ks, k)
	}
	sort.Strings(ks)
	return ks
}

type c17SchedArgs struct {
	Bound   int
	Three   bool
	MaxExec int64
}

func c17SchedWorker(c *shard.Ctx) {
	var a c17SchedArgs
	json.Unmarshal(c.Args, &a)
	schedx.Install()
	for si, sc := range c17Scens {
		idx := int64(si)
		if len(sc.Threads) > 2 && !a.Three {
			continue
		}
		if !c.Begin(idx, func() interface{} { return c17ScenDesc(sc) }) {
			continue
		}
		P := c.P
		allowed := c17SeqOutcomes(sc)
		desc := c17ScenDesc(sc)
		var res [][]string
		scenario := func() ([]func(), func(r *schedx.Result)) {
			eng := c17NewEngine(sc.Pre)
			res = make([][]string, len(sc.Threads))
			bodies := make([]func(), len(sc.Threads))
			for t := range sc.Threads {
				t := t
				bodies[t] = func() {
					for _, call := range sc.Threads[t] {
						res[t] = append(res[t], c17DoCall(eng, call))
					}
				}
			}
			return bodies, nil
		}
		outcomes := map[string]bool{}
		onExec := func(r *schedx.Result) {
			P.Evals++
			P.Traces++
			P.Transitions += int64(len(r.Points))
			cs := shardCase(c, "C17sched", idx, map[string]interface{}{"scenario": desc, "schedule": r.Choices})
			if r.Deadlock || r.Horizon || r.Hang {
				kind := map[bool]string{true: "deadlock", false: "no-termination"}[r.Deadlock]
				P.Violate(rep.Violation{Sig: "schedule|" + kind, Clause: "safe concurrent use", What: fmt.Sprintf("%v: %s under schedule %v", desc, kind, r.Choices), Case: cs, Depth: len(r.Choices)})
				return
			}
			for t, p := range r.Panics {
				P.Violate(rep.Violation{Sig: "schedule|panic|" + panicClass(p), Clause: "safe concurrent use", What: fmt.Sprintf("%v: thread %d panics under schedule %v: %s", desc, t, r.Choices, p), Case: cs, Depth: len(r.Choices)})
			}
			k := fmt.Sprint(res)
			outcomes[k] = true
			if _, ok := allowed[k]; !ok && len(r.Panics) == 0 {
				P.Violate(rep.Violation{Sig: "not-sequentially-explainable|" + c17ScenClass(sc), Clause: "each concurrent call equals what it produces in some sequential order", Depth: len(r.Choices),
					What:   fmt.Sprintf("%v under schedule %v gives %s, which no sequential order of the same calls gives (%d sequential outcomes: %s)", desc, r.Choices, trunc(k, 400), len(allowed), trunc(fmt.Sprint(c17Keys(allowed)), 900)),
					Expect: keysOf(allowed), Got: k, Case: cs})
			}
		}
		st := exploreTiers(scenario, a.MaxExec, c.Heartbeat, true, onExec, P, fmt.Sprint(desc))
		for range outcomes {
			P.Outcome("sched-outcome")
		}
		P.Keys = append(P.Keys, "sched:"+fmt.Sprint(desc))
		if st.Branching > 0 {
			P.Nontrivial = append(P.Nontrivial, "sched:"+fmt.Sprint(desc))
		}
		P.Add("schedules_executed", st.Executions)
		P.Add("scheduling_points_total", st.Points)
		P.Add("branching_points_total", st.Branching)
		P.Add("distinct_concurrent_outcomes", int64(len(outcomes)))
		P.Add("sequential_outcomes", int64(len(allowed)))
		if int64(st.MaxPoints) > P.Extra["max_points_in_one_execution"] {
			P.Extra["max_points_in_one_execution"] = int64(st.MaxPoints)
		}
		if st.Incomplete {
			P.Incomplete = true
			P.Notes = append(P.Notes, fmt.Sprintf("scenario %v: exploration stopped after %d schedules (cap hit: %v, preemption bound completed: %d) %v", desc, st.Executions, st.Capped, st.BoundDone, st.Divergences))
		}
		for _, d := range st.Divergences {
			P.HarnessErrs = append(P.HarnessErrs, "schedule replay divergence: "+d)
		}
		if len(P.Samples) < 2 {
			P.Samples = append(P.Samples, map[string]interface{}{"part": "schedules", "scenario": desc, "schedules_executed": st.Executions, "max_points": st.MaxPoints, "distinct_outcomes": len(outcomes), "sequential_outcomes": len(allowed)})
		}
	}
}

func trunc(s string, n int) string {
	if len(s) > n {
		return s[:n] + "…"
	}
	return s
}

func keysOf(m map[string][]int) []string {
	var ks []string
	for k := range m {
		ks = append(ks, trunc(k, 300))
	}
	sort.Strings(ks)
	return ks
}

func c17ScenDesc(sc c17Scen) map[string]interface{} {
	pre := []string{}
	for _, s := range sc.Pre {
		pre = append(pre, c17Sources[s].tag)
	}
	th := [][]string{}
	for _, t := range sc.Threads {
		var l []string
		for _, c := range t {
			l = append(l, c.String())
		}
		th = append(th, l)
	}
	return map[string]interface{}{"preloaded": pre, "threads": th}
}

func c17ScenClass(sc c17Scen) string {
	kinds := map[string]bool{}
	for _, t := range sc.Threads {
		for _, c := range t {
			kinds[c.Kind] = true
		}
	}
	var ks []string
	for k := range kinds {
		ks = append(ks, k)
	}
	sort.Strings(ks)
	return strings.Join(ks, "+")
}

// ---- part R

func c17RacePass() {
	var bodies []func()
	for _, sc := range c17Scens {
		sc := sc
		// one shared engine per scenario; the bodies of all threads become race-pass bodies run pairwise
		eng := c17NewEngine(sc.Pre)
		for t := range sc.Threads {
			t := t
			bodies = append(bodies, func() {
				for _, call := range sc.Threads[t] {
					c17DoCall(eng, call)
				}
			})
		}
	}
	// pair only bodies of the same scenario: they share an engine
	warm := 60
	reps := 3
	if os.Getenv("VCHECK_TIER") == "thorough" {
		warm, reps = 200, 10
	}
	for i := 0; i < warm; i++ {
		for _, b := range bodies {
			b()
		}
	}
	k := 0
	for _, sc := range c17Scens {
		n := len(sc.Threads)
		group := bodies[k : k+n]
		k += n
		for rp := 0; rp < reps; rp++ {
			start := make(chan struct{})
			done := make([]chan struct{}, n)
			for j := 0; j < n; j++ {
				f := group[(j+rp)%n]
				done[j] = make(chan struct{})
				go func(f func(), d chan struct{}) {
					<-start
					f()
					close(d)
				}(f, done[j])
			}
			close(start)
			for _, d := range done {
				<-d
			}
		}
	}
}

func runC17(r *rep.Run) {
	depth, bound := 5, 2
	maxExec := int64(6000)
	if r.Tier == "thorough" {
		depth = 7
		maxExec = 100000
	}
	r.Rule = "part S: BFS over histories of engine calls (8 loads incl. a reloaded base version, two children overriding the same block differently, a second definition under a child's name, a grandchild, a document template (header, footer, logo, image placeholder, table with a nested table, all with placeholders) and a plain template; Render of every name incl. a missing one; two removals; ClearCache) on one real TemplateEngine, deduplicated on the bookkeeping of which version each name holds, which versions it was bound to at load time, which earlier results are watched and which templates the most recent render calls named (a render is NOT assumed to leave the engine unchanged); every Render in every reached state is compared with the render, on a fresh engine in a fresh process, after loading exactly the bound chain (differential oracle), rendered twice, and the deep dumps of data, template object and base document are compared before/after; part C: every schedule with <= 2 preemptions of 2-3 goroutines calling Load/Render/Remove/ClearCache on one engine (points at every lock operation and at every statement of every function that touches Template/TemplateBlock/TemplateEngine fields), result tuple must be produced by some sequential order of the same calls; part R: same bodies in a free-running -race build; non-trivial = a load, or a render of a present template / a scenario with a branching point"
	r.Bounds["depth"] = depth
	r.Bounds["ops"] = len(c17Ops)
	r.Bounds["preemption_bound"] = map[string]int{"statement-level points": 1, "lock operations and function entries": 2}
	r.Bounds["scenarios"] = len(c17Scens)
	r.Bounds["max_schedules_per_scenario"] = maxExec
	r.Assume = []string{
		"a derived template renders against the parent version that was registered when it was loaded (load-time binding); later reloads/removals of the parent name do not rebind - this is the reading under which 'regardless of which other templates were loaded or removed in between' can hold at all",
		"between two scheduling points a thread runs alone; unsynchronised accesses are looked for by the race detector only",
	}
	t0 := time.Now()
	recent := 1
	if r.Tier == "thorough" {
		recent = 2
	}
	r.Bounds["recent_renders_in_state_key"] = recent
	r.Merge(seqx.Search("C17", seqx.Opts{Depth: depth, Deadline: r.Deadline, Args: c17Args{Recent: recent}}))
	narrow := 7
	if r.Tier == "thorough" {
		narrow = 9
	}
	r.Bounds["narrow_depth"] = narrow
	r.Bounds["narrow_alphabet"] = "Load of base.v1, base.v2, c1, c2, g; Render of base, c1, c2, g; Remove(base)"
	r.Merge(seqx.Search("C17", seqx.Opts{Depth: narrow, Deadline: r.Deadline, Args: c17Args{Recent: recent, Narrow: true}}))
	r.P.Add("part_S_ms", time.Since(t0).Milliseconds())
	if r.OutOfTime() {
		return
	}
	t0 = time.Now()
	runShards(r, "C17sched", c17SchedArgs{Bound: bound, Three: r.Tier == "thorough", MaxExec: maxExec}, 300*time.Second, nil)
	r.P.Add("part_C_ms", time.Since(t0).Milliseconds())
	runRacePass(r, "C17", "goroutines loading/rendering/removing templates on one engine")
}
