package main

func c17RacePass() {}
