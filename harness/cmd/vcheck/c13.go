package main

// C13 — everything a document refers to by id is defined in the same package, and styles
// added or changed through the style API are in the next save however often the document
// was saved or reopened before.

import (
	"encoding/json"
	"encoding/xml"
	"fmt"
	"regexp"
	"sort"
	"strings"

	"github.com/zerx-lab/wordZero/pkg/document"
	"github.com/zerx-lab/wordZero/pkg/markdown"
	"github.com/zerx-lab/wordZero/pkg/style"

	"verif/harness/internal/foreign"
	"verif/harness/internal/pkgmodel"
	"verif/harness/internal/rep"
	"verif/harness/internal/seqx"
)

// ---------------------------------------------------------------------------
// oracle on a saved package (independent reader only)

// c13StyleFP is the part of a style definition the check follows through saves.
type c13StyleFP struct {
	Type, Name, BasedOn string
	Bold                bool
}

func (f c13StyleFP) String() string {
	return fmt.Sprintf("type=%s name=%q basedOn=%q bold=%v", f.Type, f.Name, f.BasedOn, f.Bold)
}

// c13Pkg is what the oracle reads from a saved package.
type c13Pkg struct {
	stylesPart, numPart   string
	styles                map[string][]c13StyleFP // styleId -> definitions (more than one = duplicate id)
	nums                  map[string]string       // numId -> abstractNumId
	abstracts             map[string]bool
	notes                 map[string]map[string]bool // "footnote"|"endnote" -> ids defined
	notePart              map[string]string
	contentParts          []string // main, headers, footers, notes parts (where ids are used)
	styleUses             []c13Use
	numUses               []c13Use
	noteRefs, noteMarkers []c13Use
}

type c13Use struct {
	Part, Kind, ID string
}

var c13MarkerRe = regexp.MustCompile(`^\[(尾注)?([0-9]+)\]$`)

func c13RelTarget(pkg *pkgmodel.Pkg, owner, typ, fallback string) string {
	for _, r := range pkg.Rels[pkgmodel.RelsNameFor(owner)] {
		if r.Type == typ && r.Mode != "External" {
			if _, ok := pkg.Parts[r.Resolved]; ok {
				return r.Resolved
			}
		}
	}
	if _, ok := pkg.Parts[fallback]; ok {
		return fallback
	}
	return ""
}

func c13Val(n *pkgmodel.Node, child string) string {
	if c := n.Child(pkgmodel.NsW, child); c != nil {
		return c.AttrW("val")
	}
	return ""
}

func c13ReadPkg(pkg *pkgmodel.Pkg) (*c13Pkg, string) {
	if pkg.ZipErr != "" {
		return nil, "zip: " + pkg.ZipErr
	}
	main := pkg.MainPart()
	if main == "" || pkg.XML[main] == nil {
		return nil, "no main document part"
	}
	o := &c13Pkg{styles: map[string][]c13StyleFP{}, nums: map[string]string{}, abstracts: map[string]bool{},
		notes: map[string]map[string]bool{"footnote": {}, "endnote": {}}, notePart: map[string]string{}}
	o.stylesPart = c13RelTarget(pkg, main, pkgmodel.RtStyles, "word/styles.xml")
	if s := pkg.XML[o.stylesPart]; s != nil {
		for _, st := range s.Children(pkgmodel.NsW, "style") {
			fp := c13StyleFP{Type: st.AttrW("type"), Name: c13Val(st, "name"), BasedOn: c13Val(st, "basedOn")}
			if rpr := st.Child(pkgmodel.NsW, "rPr"); rpr != nil {
				if b := rpr.Child(pkgmodel.NsW, "b"); b != nil {
					v := b.AttrW("val")
					fp.Bold = v != "0" && v != "false"
				}
			}
			if fp.Type == "" {
				fp.Type = "paragraph" // the default of w:type
			}
			id := st.AttrW("styleId")
			o.styles[id] = append(o.styles[id], fp)
		}
	}
	o.numPart = c13RelTarget(pkg, main, pkgmodel.RtNumbering, "word/numbering.xml")
	if n := pkg.XML[o.numPart]; n != nil {
		for _, a := range n.Children(pkgmodel.NsW, "abstractNum") {
			o.abstracts[a.AttrW("abstractNumId")] = true
		}
		for _, a := range n.Children(pkgmodel.NsW, "num") {
			o.nums[a.AttrW("numId")] = c13Val(a, "abstractNumId")
		}
	}
	o.contentParts = []string{main}
	for _, r := range pkg.Rels[pkgmodel.RelsNameFor(main)] {
		if (r.Type == pkgmodel.RtHeader || r.Type == pkgmodel.RtFooter) && r.Mode != "External" && pkg.XML[r.Resolved] != nil {
			o.contentParts = append(o.contentParts, r.Resolved)
		}
	}
	for _, k := range []struct{ kind, typ, fb string }{{"footnote", pkgmodel.RtFootnotes, "word/footnotes.xml"}, {"endnote", pkgmodel.RtEndnotes, "word/endnotes.xml"}} {
		pn := c13RelTarget(pkg, main, k.typ, k.fb)
		o.notePart[k.kind] = pn
		if x := pkg.XML[pn]; x != nil {
			o.contentParts = append(o.contentParts, pn)
			for _, n := range x.Children(pkgmodel.NsW, k.kind) {
				o.notes[k.kind][n.AttrW("id")] = true
			}
		}
	}
	sort.Strings(o.contentParts[1:])
	for _, pn := range o.contentParts {
		x := pkg.XML[pn]
		for _, k := range []string{"pStyle", "rStyle", "tblStyle"} {
			for _, e := range x.Find(pkgmodel.NsW, k) {
				o.styleUses = append(o.styleUses, c13Use{pn, k, e.AttrW("val")})
			}
		}
		for _, np := range x.Find(pkgmodel.NsW, "numPr") {
			if id := np.Child(pkgmodel.NsW, "numId"); id != nil {
				o.numUses = append(o.numUses, c13Use{pn, "numId", id.AttrW("val")})
			}
		}
		if pn == main {
			for _, k := range []string{"footnote", "endnote"} {
				for _, e := range x.Find(pkgmodel.NsW, k+"Reference") {
					o.noteRefs = append(o.noteRefs, c13Use{pn, k, e.AttrW("id")})
				}
			}
			// the library marks a note reference with a run whose whole text is "[<id>]" (footnote) or "[尾注<id>]" (endnote)
			for _, t := range x.Find(pkgmodel.NsW, "t") {
				if m := c13MarkerRe.FindStringSubmatch(t.InnerText()); m != nil {
					k := "footnote"
					if m[1] != "" {
						k = "endnote"
					}
					o.noteMarkers = append(o.noteMarkers, c13Use{pn, k, m[2]})
				}
			}
		}
	}
	return o, ""
}

var c13Predefined = style.NewStyleManager()

var c13WantType = map[string]string{"pStyle": "paragraph", "rStyle": "character", "tblStyle": "table"}

// c13Ctx is harness-side information that only refines signatures (stage)
// plus the styles the caller put into the registry through the style API (clause 4).
type c13Ctx struct {
	stage     string
	apiStyles map[string]c13StyleFP
	// note ids the caller removed through RemoveFootnote/RemoveEndnote ("footnote|1"): a marker the library left
	// in the body for such a note is not this property's subject
	removedNotes map[string]bool
}

func c13Oracle(pkg *pkgmodel.Pkg, cx c13Ctx) []rep.Violation {
	o, bad := c13ReadPkg(pkg)
	if bad != "" {
		// an unreadable package is C01's subject; nothing can be resolved in it
		return []rep.Violation{{Sig: "package-unreadable|" + cx.stage, Clause: "package-unreadable", What: bad}}
	}
	var out []rep.Violation
	seen := map[string]bool{}
	add := func(sig, clause, what string) {
		if seen[sig] {
			return
		}
		seen[sig] = true
		out = append(out, rep.Violation{Sig: sig, Clause: clause, What: what})
	}
	// culprit class of an undefined style id, from the id alone: one of the library's predefined
	// styles, one of the custom styles this check creates through the style API, or (named) an id
	// that only the library's own helpers can have produced
	idClass := func(id string) string {
		if c13Predefined.StyleExists(id) {
			return "predefined|" + cx.stage
		}
		if _, custom := c13StyleType[id]; custom {
			return "custom|" + cx.stage
		}
		return "id=" + id
	}
	for _, u := range o.styleUses {
		defs := o.styles[u.ID]
		if len(defs) == 0 {
			where := "no styles part"
			if o.stylesPart != "" {
				where = o.stylesPart + " defines " + c13IDs(o.styles)
			}
			add("style-undefined|"+u.Kind+"|"+idClass(u.ID), "style-undefined",
				fmt.Sprintf("%s: w:%s w:val=%q is not a w:styleId of the styles part (%s)", u.Part, u.Kind, u.ID, where))
			continue
		}
		ok := false
		for _, d := range defs {
			if d.Type == c13WantType[u.Kind] {
				ok = true
			}
		}
		if !ok {
			add("style-wrong-type|"+u.Kind+"|"+u.ID, "style-wrong-type",
				fmt.Sprintf("%s: w:%s w:val=%q resolves to a style of w:type=%q, want %q", u.Part, u.Kind, u.ID, defs[0].Type, c13WantType[u.Kind]))
		}
	}
	for _, u := range o.numUses {
		if u.ID == "0" {
			continue // numId 0 = "no numbering"
		}
		abs, ok := o.nums[u.ID]
		if !ok {
			where := "no numbering part"
			if o.numPart != "" {
				where = fmt.Sprintf("%s defines w:num %v", o.numPart, c13Keys(o.nums))
			}
			add("num-undefined|"+cx.stage, "num-undefined", fmt.Sprintf("%s: w:numId w:val=%q has no w:num (%s)", u.Part, u.ID, where))
			continue
		}
		if !o.abstracts[abs] {
			add("abstract-num-undefined|"+cx.stage, "abstract-num-undefined",
				fmt.Sprintf("%s: w:numId %q -> w:num -> w:abstractNumId %q has no w:abstractNum in %s", u.Part, u.ID, abs, o.numPart))
		}
	}
	for _, u := range o.noteRefs {
		if !o.notes[u.Kind][u.ID] {
			add("note-undefined|"+u.Kind+"|reference|"+cx.stage, "note-undefined",
				fmt.Sprintf("%s: w:%sReference w:id=%q is not defined in the %ss part %q (ids %v)", u.Part, u.Kind, u.ID, u.Kind, o.notePart[u.Kind], c13BoolKeys(o.notes[u.Kind])))
		}
	}
	for _, u := range o.noteMarkers {
		if cx.removedNotes[u.Kind+"|"+u.ID] {
			continue
		}
		if !o.notes[u.Kind][u.ID] {
			add("note-undefined|"+u.Kind+"|marker|"+cx.stage, "note-undefined",
				fmt.Sprintf("%s: the library's %s marker for note id %q has no w:%s of that id in %q (ids %v)", u.Part, u.Kind, u.ID, u.Kind, o.notePart[u.Kind], c13BoolKeys(o.notes[u.Kind])))
		}
	}
	ids := make([]string, 0, len(cx.apiStyles))
	for id := range cx.apiStyles {
		ids = append(ids, id)
	}
	sort.Strings(ids)
	for _, id := range ids {
		want := cx.apiStyles[id]
		defs := o.styles[id]
		if len(defs) == 0 {
			add("style-not-saved|"+cx.stage, "style-not-saved",
				fmt.Sprintf("style %q (%s) is in the document's registry through the style API but not in the saved styles part (%s)", id, want, c13IDs(o.styles)))
			continue
		}
		match := false
		for _, d := range defs {
			if d == want {
				match = true
			}
		}
		if !match {
			add("style-saved-stale|"+cx.stage, "style-saved-stale",
				fmt.Sprintf("style %q: registry has %s, the saved styles part has %s", id, want, defs[0]))
		}
	}
	return out
}

func c13IDs(m map[string][]c13StyleFP) string {
	ks := make([]string, 0, len(m))
	for k := range m {
		ks = append(ks, k)
	}
	sort.Strings(ks)
	return fmt.Sprintf("%d ids %v", len(ks), ks)
}
func c13Keys(m map[string]string) []string {
	ks := make([]string, 0, len(m))
	for k := range m {
		ks = append(ks, k)
	}
	sort.Strings(ks)
	return ks
}
func c13BoolKeys(m map[string]bool) []string {
	ks := make([]string, 0, len(m))
	for k := range m {
		ks = append(ks, k)
	}
	sort.Strings(ks)
	return ks
}

// summary of the id-defining parts of a saved package (state key only)
func (o *c13Pkg) summary() string {
	var b strings.Builder
	ids := make([]string, 0, len(o.styles))
	for id, d := range o.styles {
		ids = append(ids, fmt.Sprintf("%s:%v", id, d))
	}
	sort.Strings(ids)
	b.WriteString(rep.Hash(ids...))
	fmt.Fprintf(&b, "|n%v|a%v|f%v|e%v", o.nums, c13BoolKeys(o.abstracts), c13BoolKeys(o.notes["footnote"]), c13BoolKeys(o.notes["endnote"]))
	return b.String()
}

// ---------------------------------------------------------------------------
// seeds

const c13FootnotesXML = `<?xml version="1.0" encoding="UTF-8" standalone="yes"?>` + "\n" +
	`<w:footnotes xmlns:w="` + foreign.NsW + `"><w:footnote w:type="separator" w:id="0"><w:p><w:r><w:separator/></w:r></w:p></w:footnote>` +
	`<w:footnote w:type="continuationSeparator" w:id="1"><w:p><w:r><w:continuationSeparator/></w:r></w:p></w:footnote>` +
	`<w:footnote w:id="2"><w:p><w:pPr><w:pStyle w:val="ForeignPara"/></w:pPr><w:r><w:t>foreign note</w:t></w:r></w:p></w:footnote></w:footnotes>`

func c13ForeignSeed(full bool) []byte {
	p := foreign.New()
	p.Overrides["/word/styles.xml"] = foreign.CtStyles
	p.Add("word/styles.xml", foreign.StylesXML())
	p.DocRels = append(p.DocRels, foreign.Rel{ID: "rId1", Type: pkgmodel.RtStyles, Target: "styles.xml"})
	body := `<w:p><w:pPr><w:pStyle w:val="ForeignPara"/></w:pPr><w:r><w:rPr><w:rStyle w:val="ForeignChar"/></w:rPr><w:t>foreign paragraph</w:t></w:r></w:p>` +
		`<w:tbl><w:tblPr><w:tblStyle w:val="ForeignTable"/><w:tblW w:w="0" w:type="auto"/></w:tblPr><w:tblGrid><w:gridCol w:w="2000"/></w:tblGrid><w:tr><w:tc><w:tcPr><w:tcW w:w="2000" w:type="dxa"/></w:tcPr><w:p><w:r><w:t>cell</w:t></w:r></w:p></w:tc></w:tr></w:tbl>`
	sect := ""
	if full {
		p.Add("word/numbering.xml", foreign.NumberingXML())
		p.Overrides["/word/numbering.xml"] = foreign.CtNumbering
		p.DocRels = append(p.DocRels, foreign.Rel{ID: "rId2", Type: pkgmodel.RtNumbering, Target: "numbering.xml"})
		body += foreign.ListPara("foreign item")
		p.Add("word/footnotes.xml", []byte(c13FootnotesXML))
		p.Overrides["/word/footnotes.xml"] = foreign.CtFootnotes
		p.DocRels = append(p.DocRels, foreign.Rel{ID: "rId3", Type: pkgmodel.RtFootnotes, Target: "footnotes.xml"})
		body += `<w:p><w:r><w:t>noted</w:t></w:r><w:r><w:footnoteReference w:id="2"/></w:r></w:p>`
		hdr := `<?xml version="1.0" encoding="UTF-8" standalone="yes"?>` + "\n" + `<w:hdr xmlns:w="` + foreign.NsW + `" xmlns:r="` + foreign.NsR + `"><w:p><w:pPr><w:pStyle w:val="ForeignPara"/></w:pPr><w:r><w:t>FH</w:t></w:r></w:p></w:hdr>`
		p.Add("word/header1.xml", []byte(hdr))
		p.Overrides["/word/header1.xml"] = foreign.CtHeader
		p.DocRels = append(p.DocRels, foreign.Rel{ID: "rId4", Type: pkgmodel.RtHeader, Target: "header1.xml"})
		sect = `<w:headerReference w:type="default" r:id="rId4"/>`
	}
	body += `<w:sectPr>` + sect + `<w:pgSz w:w="11906" w:h="16838"/></w:sectPr>`
	p.Add(p.DocName, foreign.DocXML("w", body))
	return p.Bytes()
}

type c13SeedPkg struct {
	bytes   []byte
	summary string
	viol    []rep.Violation // of the save that produced an "own" seed
}

var c13SeedCache = map[string]*c13SeedPkg{}

// c13SeedPackage builds (once per process) the package an opened seed starts from.
func c13SeedPackage(id string) *c13SeedPkg {
	if sd := c13SeedCache[id]; sd != nil {
		return sd
	}
	sd := &c13SeedPkg{}
	if id == "own" {
		// a package written by this library (its save is judged like any other), to be opened
		d := document.New()
		d.AddHeadingParagraph("Own heading", 1)
		d.GetStyleManager().CreateCustomStyle("X", "Custom X", style.StyleTypeParagraph, "Normal")
		d.AddParagraph("own styled").SetStyle("X")
		d.AddListItem("own item 1", &document.ListConfig{Type: document.ListTypeBullet, BulletSymbol: document.BulletTypeDot})
		d.AddListItem("own item 2", &document.ListConfig{Type: document.ListTypeNumber, StartNumber: 1})
		for n := 1; n <= 2; n++ {
			if e1, e2 := d.AddFootnote("own text", fmt.Sprintf("own note %d", n)), d.AddEndnote("own text", fmt.Sprintf("own endnote %d", n)); e1 != nil || e2 != nil {
				panic(fmt.Sprintf("harness: own seed: %v %v", e1, e2))
			}
		}
		tmp := &c13Inst{doc: d, uses: map[string]int{"X": 1}, api: map[string]bool{"X": true}, apiFP: map[string]c13StyleFP{}}
		b, v, errS := tmp.save()
		if errS != "" {
			panic("harness: own seed does not save: " + errS)
		}
		sd.bytes, sd.viol, sd.summary = b, v, tmp.lastSaved
	} else {
		sd.bytes = c13ForeignSeed(id == "foreign-full")
		pk := pkgmodel.Read(sd.bytes)
		if probs := append(pk.CheckWellFormed(), pk.CheckRelationships()...); len(probs) > 0 {
			panic(fmt.Sprintf("harness: foreign seed %s is not valid: %v", id, probs))
		}
		if v := c13Oracle(pk, c13Ctx{stage: "seed"}); len(v) > 0 {
			panic(fmt.Sprintf("harness: foreign seed %s does not satisfy the invariant itself: %v", id, v))
		}
		ro, bad := c13ReadPkg(pk)
		if bad != "" {
			panic("harness: foreign seed " + id + ": " + bad)
		}
		sd.summary = ro.summary()
	}
	c13SeedCache[id] = sd
	return sd
}

const c13Markdown = "# Title\n\n> quoted\n\n```\ncode line\n```\n\n- a\n- b\n\n1. one\n\n| h1 | h2 |\n|----|----|\n| c1 | c2 |\n"

// ---------------------------------------------------------------------------
// alphabet

type c13Op struct {
	name string
	kind string
	arg  int
	id   string
}

var c13Ops = []c13Op{
	{name: "seed:fresh(New)", kind: "seed", id: "fresh"},
	{name: "seed:markdown(heading,quote,code,lists,table)", kind: "seed", id: "markdown"},
	{name: "seed:own(opened package this library wrote: heading,custom style,2 lists,2+2 notes)", kind: "seed", id: "own"},
	{name: "seed:foreign(own styles)", kind: "seed", id: "foreign-bare"},
	{name: "seed:foreign(own styles,numbering,footnote,header)", kind: "seed", id: "foreign-full"},

	{name: "AddHeadingParagraph(1)", kind: "heading", arg: 1},
	{name: "AddHeadingParagraph(9)", kind: "heading", arg: 9},
	{name: "AddParagraph.SetStyle(Quote)", kind: "setstyle", id: "Quote"},
	{name: "AddParagraph.SetStyle(CodeBlock)", kind: "setstyle", id: "CodeBlock"},
	{name: "CreateCustomStyle(X,paragraph,basedOn Normal)", kind: "create", id: "X"},
	{name: "AddStyle(X,paragraph,bold)", kind: "addstyle", id: "X"},
	{name: "AddParagraph.SetStyle(X)", kind: "setstyle", id: "X"},
	{name: "RemoveStyle(X)", kind: "remove", id: "X"},
	{name: "RemoveStyle(Heading9) [while no paragraph uses it]", kind: "remove", id: "Heading9"},
	{name: "GetStyle(X) edited in place (bold toggled, basedOn Normal<->Heading1, renamed)", kind: "editstyle", id: "X"},
	{name: "GetStyle(Heading1) edited in place (bold toggled, renamed)", kind: "editstyle", id: "Heading1"},
	{name: "CreateQuickStyle(T,table)", kind: "quick", id: "T"},
	{name: "CreateQuickStyle(Quote,paragraph) [id of a predefined style: must be refused]", kind: "quick", id: "Quote"},
	{name: "AddStyle(Y,paragraph,basedOn X)", kind: "addbased", id: "Y"},
	{name: "AddStyle(Z,paragraph,basedOn NoSuchBase)", kind: "adddangling", id: "Z"},
	{name: "AddTable.ApplyTableStyle(StyleID=T)", kind: "tblstyleid", id: "T"},
	{name: "AddTable.ApplyTableStyle(StyleID=ab)", kind: "tblstyleid", id: "ab"},
	{name: "AddTable.ApplyTableStyle(Template=TableGrid)", kind: "tbltemplate", id: string(document.TableStyleTemplateGrid)},
	{name: "AddTable.ApplyTableStyle(Template=TableList)", kind: "tbltemplate", id: string(document.TableStyleTemplateList)},
	{name: "AddListItem(bullet)", kind: "list", arg: 0},
	{name: "AddListItem(number,level 1)", kind: "list", arg: 1},
	{name: "CreateMultiLevelList(no items)", kind: "multi-empty"},
	{name: "CreateMultiLevelList(number, an unknown list type, bullet)", kind: "multi-bad"},
	{name: "AddFootnote", kind: "fn"},
	{name: "AddEndnote", kind: "en"},
	{name: "RemoveFootnote(lowest id that exists)", kind: "fnrm"},
	{name: "RemoveEndnote(lowest id that exists)", kind: "enrm"},
	{name: "RestartNumbering(99) [an id that names no list]", kind: "restart"},
	{name: "the slices GetAllStyles / GetHeadingStyles returned are emptied by the caller (every slot set to nil)", kind: "scribble-lists"},
	{name: "work on another document (build, save, reopen, render as template)", kind: "other"},
	{name: "GenerateTOC(levels 1-9)", kind: "toc"},
	{name: "AutoGenerateTOC(levels 1-9)", kind: "autotoc"},
	{name: "ToBytes", kind: "save"},
	{name: "reopen(OpenFromMemory(ToBytes))", kind: "reopen"},
}

const c13NSeeds = 5

// all nine heading levels, so that level 9 headings get TOC entries too
func c13TOCConfig() *document.TOCConfig {
	c := document.DefaultTOCConfig()
	c.Title = "Contents"
	c.MaxLevel = 9
	return c
}

var c13StyleType = map[string]style.StyleType{"X": style.StyleTypeParagraph, "T": style.StyleTypeTable, "Y": style.StyleTypeParagraph, "Z": style.StyleTypeParagraph, "Quote": style.StyleTypeParagraph}

func init() {
	names := make([]string, len(c13Ops))
	for i, o := range c13Ops {
		names[i] = o.name
	}
	seqx.Register(&seqx.Spec{Name: "C13", Ops: names, New: func(args json.RawMessage) seqx.Inst {
		document.VerifResetGlobals()
		return &c13Inst{}
	}})
	register("C13", "model_checking", runC13)
}

type c13Inst struct {
	doc           *document.Document
	origin        string
	fromOpen      bool                  // the current object came from Open
	reopened      bool                  // ... of a package this library wrote
	saved         bool                  // the current object was saved before
	uses          map[string]int        // custom style id -> number of elements the harness made that use it
	api           map[string]bool       // custom ids currently in the registry through style API calls on the current object
	apiFP         map[string]c13StyleFP // their definition as last read from the registry: a style that silently leaves the registry is still expected
	lastSaved     string                // summary of the id-defining parts of the last save (key)
	lastNT        bool
	removedNotes  map[string]bool // "footnote|1": notes the caller removed
	nrm, nrestart int
	nscribble     int
	nmulti        int
}

func (i *c13Inst) stage() string {
	switch {
	case i.fromOpen && !i.reopened:
		return "opened-foreign"
	case i.fromOpen:
		return "after-reopen"
	case i.saved:
		return "after-save"
	}
	return "first-save"
}

// bodyUses: a paragraph of the in-memory body (top level or in a table cell) carries the paragraph style id.
func (i *c13Inst) bodyUses(id string) bool {
	if i.doc == nil || i.doc.Body == nil {
		return false
	}
	var inTable func(t *document.Table) bool
	para := func(p *document.Paragraph) bool {
		return p != nil && p.Properties != nil && p.Properties.ParagraphStyle != nil && p.Properties.ParagraphStyle.Val == id
	}
	inTable = func(t *document.Table) bool {
		if t == nil {
			return false
		}
		for r := range t.Rows {
			for c := range t.Rows[r].Cells {
				cell := &t.Rows[r].Cells[c]
				for k := range cell.Paragraphs {
					if para(&cell.Paragraphs[k]) {
						return true
					}
				}
				for k := range cell.Tables {
					if inTable(&cell.Tables[k]) {
						return true
					}
				}
			}
		}
		return false
	}
	for _, e := range i.doc.Body.Elements {
		switch x := e.(type) {
		case *document.Paragraph:
			if para(x) {
				return true
			}
		case *document.Table:
			if inTable(x) {
				return true
			}
		case *document.SDT:
			if x.Content != nil {
				for _, ce := range x.Content.Elements {
					if p, ok := ce.(*document.Paragraph); ok && para(p) {
						return true
					}
				}
			}
		}
	}
	return false
}

func (i *c13Inst) regHas(id string, t style.StyleType) bool {
	s := i.doc.GetStyleManager().GetStyle(id)
	return s != nil && s.Type == string(t)
}

func (i *c13Inst) Enabled(op int) bool {
	o := c13Ops[op]
	if o.kind == "seed" {
		return i.doc == nil
	}
	if i.doc == nil {
		return false
	}
	switch o.kind {
	case "setstyle":
		// ids the caller passes must be in the registry at call time
		return i.regHas(o.id, style.StyleTypeParagraph)
	case "tblstyleid":
		return i.regHas(o.id, style.StyleTypeTable)
	case "fnrm", "enrm":
		return i.nrm < 2
	case "restart":
		return i.nrestart < 1
	case "scribble-lists":
		return i.nscribble < 1
	case "multi-empty", "multi-bad":
		return i.nmulti < 1
	case "remove":
		// only styles no element uses are removed
		return i.doc.GetStyleManager().StyleExists(o.id) && i.uses[o.id] == 0 && !i.bodyUses(o.id)
	case "quick":
		// also when the id is taken: the call must then be refused and leave the registry as it was
		return true
	case "editstyle":
		// a style the registry has: the custom one once the style API put it there, the predefined one always
		if _, custom := c13StyleType[o.id]; custom {
			return i.api[o.id] && i.regHas(o.id, style.StyleTypeParagraph)
		}
		return i.regHas(o.id, style.StyleTypeParagraph)
	}
	return true
}

func (i *c13Inst) Nontrivial() bool { return i.lastNT }

func c13FPOf(s *style.Style) c13StyleFP {
	fp := c13StyleFP{Type: s.Type}
	if s.Name != nil {
		fp.Name = s.Name.Val
	}
	if s.BasedOn != nil {
		fp.BasedOn = s.BasedOn.Val
	}
	fp.Bold = s.RunPr != nil && s.RunPr.Bold != nil
	return fp
}

func (i *c13Inst) ctx() c13Ctx {
	sm := i.doc.GetStyleManager()
	cx := c13Ctx{stage: i.stage(), apiStyles: map[string]c13StyleFP{}, removedNotes: i.removedNotes}
	for id := range i.api {
		// the expected definition is read from the registry itself (public accessor)
		if s := sm.GetStyle(id); s != nil {
			cx.apiStyles[id] = c13FPOf(s)
			i.apiFP[id] = cx.apiStyles[id]
		} else if fp, ok := i.apiFP[id]; ok {
			// the caller never removed it, yet the registry no longer has it
			cx.apiStyles[id] = fp
		}
	}
	return cx
}

// save serialises, judges the saved package and remembers its summary.
func (i *c13Inst) save() (b []byte, viol []rep.Violation, errS string) {
	cx := i.ctx()
	pkg, b, errS := saveRead(i.doc)
	if errS != "" {
		return nil, nil, errS
	}
	viol = c13Oracle(pkg, cx)
	if o, bad := c13ReadPkg(pkg); bad == "" {
		i.lastSaved = o.summary()
	}
	i.saved = true
	return b, viol, ""
}

func (i *c13Inst) Apply(op int) (string, []rep.Violation) {
	o := c13Ops[op]
	i.lastNT = false
	outcome := "ok"
	var viol []rep.Violation
	pan := guard(func() {
		switch o.kind {
		case "seed":
			i.origin = o.id
			i.uses = map[string]int{}
			i.api = map[string]bool{}
			i.apiFP = map[string]c13StyleFP{}
			switch o.id {
			case "fresh":
				i.doc = document.New()
			case "markdown":
				d, err := markdown.NewConverter(markdown.DefaultOptions()).ConvertString(c13Markdown, nil)
				if err != nil || d == nil {
					panic(fmt.Sprintf("harness: markdown seed does not convert: %v", err))
				}
				i.doc = d
			default:
				sd := c13SeedPackage(o.id)
				viol = append(viol, sd.viol...)
				d, e := reopen(sd.bytes)
				if e != "" {
					panic("harness: seed " + o.id + " does not open: " + e)
				}
				i.doc, i.fromOpen, i.reopened, i.lastSaved = d, true, o.id == "own", sd.summary
				if o.id == "own" {
					i.uses["X"] = 1
				}
			}
			i.lastNT = true
		case "heading":
			i.doc.AddHeadingParagraph("Heading text", o.arg)
			i.lastNT = true
		case "setstyle":
			i.doc.AddParagraph("styled text").SetStyle(o.id)
			if _, custom := c13StyleType[o.id]; custom {
				i.uses[o.id]++
			}
			i.lastNT = true
		case "create":
			i.doc.GetStyleManager().CreateCustomStyle(o.id, "Custom "+o.id, c13StyleType[o.id], "Normal")
			i.api[o.id] = true
			// what the call asked for: expected also when the registry silently did not take it
			i.apiFP[o.id] = c13StyleFP{Type: string(c13StyleType[o.id]), Name: "Custom " + o.id, BasedOn: "Normal"}
			i.lastNT = true
		case "addstyle":
			i.doc.GetStyleManager().AddStyle(&style.Style{Type: string(c13StyleType[o.id]), StyleID: o.id, CustomStyle: true,
				Name: &style.StyleName{Val: "Custom bold " + o.id}, RunPr: &style.RunProperties{Bold: &style.Bold{}}})
			i.api[o.id] = true
			i.apiFP[o.id] = c13StyleFP{Type: string(c13StyleType[o.id]), Name: "Custom bold " + o.id, Bold: true}
			i.lastNT = true
		case "quick":
			existed := i.doc.GetStyleManager().StyleExists(o.id)
			if existed {
				// whatever is registered under the id is now expected to stay (also a predefined style)
				if st := i.doc.GetStyleManager().GetStyle(o.id); st != nil {
					i.api[o.id] = true
					i.apiFP[o.id] = c13FPOf(st)
				}
			}
			_, err := style.NewQuickStyleAPI(i.doc.GetStyleManager()).CreateQuickStyle(style.QuickStyleConfig{ID: o.id, Name: "Quick " + o.id, Type: c13StyleType[o.id]})
			if err != nil {
				outcome = "error"
				if existed {
					i.lastNT = true
				}
				return
			}
			i.api[o.id] = true
			i.lastNT = true
		case "addbased", "adddangling":
			base := "X"
			if o.kind == "adddangling" {
				base = "NoSuchBase"
			}
			i.doc.GetStyleManager().AddStyle(&style.Style{Type: string(c13StyleType[o.id]), StyleID: o.id, CustomStyle: true,
				Name: &style.StyleName{Val: "Derived " + o.id}, BasedOn: &style.BasedOn{Val: base}})
			i.api[o.id] = true
			i.apiFP[o.id] = c13StyleFP{Type: string(c13StyleType[o.id]), Name: "Derived " + o.id, BasedOn: base}
			i.lastNT = true
		case "editstyle":
			st := i.doc.GetStyleManager().GetStyle(o.id)
			if st == nil {
				outcome = "error"
				return
			}
			if st.RunPr == nil {
				st.RunPr = &style.RunProperties{}
			}
			if st.RunPr.Bold != nil {
				st.RunPr.Bold = nil
			} else {
				st.RunPr.Bold = &style.Bold{}
			}
			if _, custom := c13StyleType[o.id]; custom {
				if st.BasedOn != nil && st.BasedOn.Val == "Heading1" {
					st.BasedOn = &style.BasedOn{Val: "Normal"}
				} else {
					st.BasedOn = &style.BasedOn{Val: "Heading1"}
				}
			}
			if st.Name != nil && strings.HasSuffix(st.Name.Val, " (edited)") {
				st.Name = &style.StyleName{Val: strings.TrimSuffix(st.Name.Val, " (edited)")}
			} else if st.Name != nil {
				st.Name = &style.StyleName{Val: st.Name.Val + " (edited)"}
			} else {
				st.Name = &style.StyleName{Val: o.id + " (edited)"}
			}
			i.api[o.id] = true
			i.lastNT = true
		case "remove":
			i.doc.GetStyleManager().RemoveStyle(o.id)
			delete(i.api, o.id)
			delete(i.apiFP, o.id)
			i.lastNT = true
		case "tblstyleid", "tbltemplate":
			t, err := i.doc.AddTable(&document.TableConfig{Rows: 1, Cols: 1, Width: 3000})
			if err != nil || t == nil {
				outcome = "error"
				return
			}
			cfg := &document.TableStyleConfig{StyleID: o.id}
			if o.kind == "tbltemplate" {
				cfg = &document.TableStyleConfig{Template: document.TableStyleTemplate(o.id)}
			}
			if err := t.ApplyTableStyle(cfg); err != nil {
				outcome = "error"
				return
			}
			if _, custom := c13StyleType[o.id]; custom {
				i.uses[o.id]++
			}
			i.lastNT = true
		case "list":
			if o.arg == 0 {
				i.doc.AddListItem("item", &document.ListConfig{Type: document.ListTypeBullet, BulletSymbol: document.BulletTypeDot})
			} else {
				i.doc.AddListItem("item", &document.ListConfig{Type: document.ListTypeNumber, IndentLevel: 1, StartNumber: 1})
			}
			i.lastNT = true
		case "multi-empty":
			i.doc.CreateMultiLevelList(nil)
			i.nmulti++
			i.lastNT = true
		case "multi-bad":
			// whether the batch is accepted or refused half-way, every list paragraph in the body needs its definition
			i.doc.CreateMultiLevelList([]document.ListItem{{Text: "m1", Type: document.ListTypeNumber, StartNumber: 1},
				{Text: "m2", Type: document.ListType("hexadecimal")}, {Text: "m3", Type: document.ListTypeBullet, BulletSymbol: document.BulletTypeDot}})
			i.nmulti++
			i.lastNT = true
		case "fn":
			if err := i.doc.AddFootnote("text with note", "note text"); err != nil {
				outcome = "error"
				return
			}
			i.lastNT = true
		case "other":
			interfereRaw()
		case "en":
			if err := i.doc.AddEndnote("text with note", "note text"); err != nil {
				outcome = "error"
				return
			}
			i.lastNT = true
		case "fnrm", "enrm":
			outcome = "error(no such note)"
			for id := 1; id <= 9; id++ {
				var err error
				kind := "footnote"
				if o.kind == "fnrm" {
					err = i.doc.RemoveFootnote(fmt.Sprint(id))
				} else {
					kind = "endnote"
					err = i.doc.RemoveEndnote(fmt.Sprint(id))
				}
				if err == nil {
					if i.removedNotes == nil {
						i.removedNotes = map[string]bool{}
					}
					i.removedNotes[kind+"|"+fmt.Sprint(id)] = true
					i.nrm++
					outcome = "ok"
					i.lastNT = true
					break
				}
			}
		case "scribble-lists":
			// what an accessor hands out is the caller's to use: filtering it in place must not reach the registry
			sm := i.doc.GetStyleManager()
			all := sm.GetAllStyles()
			for k := range all {
				all[k] = nil
			}
			hs := sm.GetHeadingStyles()
			for k := range hs {
				hs[k] = nil
			}
			i.nscribble++
			i.lastNT = true
		case "restart":
			i.doc.RestartNumbering("99")
			i.nrestart++
			i.lastNT = true
		case "toc":
			if err := i.doc.GenerateTOC(c13TOCConfig()); err != nil {
				outcome = "error"
				return
			}
			i.lastNT = true
		case "autotoc":
			if err := i.doc.AutoGenerateTOC(c13TOCConfig()); err != nil {
				outcome = "error(no headings)"
				return
			}
			i.lastNT = true
		case "save":
			_, v, errS := i.save()
			if errS != "" {
				outcome = "save-failed"
				return
			}
			viol = append(viol, v...)
			i.lastNT = true
		case "reopen":
			b, v, errS := i.save()
			if errS != "" {
				outcome = "save-failed"
				return
			}
			viol = append(viol, v...)
			d, e := reopen(b)
			if e != "" {
				outcome = "open-failed"
				return
			}
			i.doc = d
			i.fromOpen, i.reopened, i.saved = true, true, false
			// a new Document object: style API calls on it start anew (clause 4 is about the
			// object the calls were made on); what the body uses must of course still resolve
			i.api = map[string]bool{}
			i.apiFP = map[string]c13StyleFP{}
			i.lastNT = true
		}
	})
	if pan != "" {
		if strings.HasPrefix(pan, "harness:") {
			panic(pan)
		}
		// a panic is not in this property's statement: recorded as an outcome
		return "panic:" + panicClass(pan), viol
	}
	return outcome, viol
}

func (i *c13Inst) Key() string {
	if i.doc == nil {
		return "init"
	}
	var b strings.Builder
	b.WriteString(i.origin + "|" + i.stage() + "|")
	// registry: ids with the followed part of their definition
	var reg []string
	for _, s := range i.doc.GetStyleManager().GetAllStyles() {
		if s == nil {
			reg = append(reg, "<nil entry handed out by GetAllStyles>")
			continue
		}
		reg = append(reg, s.StyleID+":"+c13FPOf(s).String())
	}
	sort.Strings(reg)
	b.WriteString(rep.Hash(reg...))
	var api []string
	for id := range i.api {
		api = append(api, id)
	}
	sort.Strings(api)
	var rm []string
	for k := range i.removedNotes {
		rm = append(rm, k)
	}
	sort.Strings(rm)
	fmt.Fprintf(&b, "|api%v|uses X%d T%d|rm%v restart%d scr%d multi%d|", api, i.uses["X"], i.uses["T"], rm, i.nrestart, i.nscribble, i.nmulti)
	// the body as the library would write it
	var body []byte
	if p := guard(func() { body, _ = xml.Marshal(i.doc.Body) }); p != "" {
		body = []byte("unmarshalable:" + p)
	}
	b.WriteString(rep.Hash(string(body)))
	b.WriteString("|" + i.doc.VerifNotesDump() + "|" + strings.Join(i.doc.VerifPartNames(), ",") + "|" + rep.Hash(i.doc.VerifRelDump()) + "|" + i.lastSaved + "|" + rep.Hash(i.doc.VerifShallowState()))
	return b.String()
}

func (i *c13Inst) Deep() []rep.Violation {
	if i.doc == nil {
		return nil
	}
	_, v, _ := i.save()
	return v
}

// c13SelfTest shows, outside the verdict, that the oracle fires on ids the caller invents.
func c13SelfTest(P *rep.Partial) {
	d := document.New()
	d.AddParagraph("p").SetStyle("NoSuchStyle")
	lp := d.AddParagraph("l")
	lp.Properties = &document.ParagraphProperties{NumberingProperties: &document.NumberingProperties{ILevel: &document.ILevel{Val: "0"}, NumID: &document.NumID{Val: "99"}}}
	pkg, _, errS := saveRead(d)
	if errS != "" {
		P.HarnessErrs = append(P.HarnessErrs, "self-test save: "+errS)
		return
	}
	got := map[string]bool{}
	for _, v := range c13Oracle(pkg, c13Ctx{stage: "self-test"}) {
		got[v.Sig] = true
	}
	for _, want := range []string{"style-undefined|pStyle|id=NoSuchStyle", "num-undefined|self-test"} {
		if !got[want] {
			P.HarnessErrs = append(P.HarnessErrs, fmt.Sprintf("oracle self-test: %s not reported for a caller-invented id (got %v)", want, got))
			continue
		}
		P.Outcome("self-test(caller-invented id, outside the verdict)=>" + want)
	}
}

func runC13(r *rep.Run) {
	depth := 3
	if r.Tier == "thorough" {
		depth = 4
	}
	r.Rule = "BFS over histories (one seed, then up to <depth_after_seed> operations) of styled-content, style-API, table-style, list, note, TOC, ToBytes and reopen operations on a real Document; seeds: New(), a Markdown-converted document, an opened package written by this library (custom style in use, two lists, two footnotes, two endnotes), two opened foreign packages with their own styles (one also with numbering, a footnote reference and a header). Every ToBytes/reopen inside a history and one more save at every distinct state is read with the independent reader and judged: each w:pStyle/w:rStyle/w:tblStyle value in the main, header, footer and notes parts is a w:styleId of the matching w:type in the styles part; each non-zero w:numId has a w:num whose w:abstractNumId has a w:abstractNum; each w:footnoteReference/w:endnoteReference id and each note marker the library writes ('[n]' / '[尾注n]') is a note id of the notes part; each style put into or changed in the current Document's registry through CreateCustomStyle/AddStyle/CreateQuickStyle (incl. a style based on another custom style that is removed later, a style whose base was never registered, and a refused CreateQuickStyle on an id that is taken) or by editing the object GetStyle returns (custom X, predefined Heading1) (and not removed by the caller) is in the saved styles part with the registry's type, name, basedOn and bold. Caller-invented ids are excluded: SetStyle/ApplyTableStyle(StyleID) only get ids of the right type that are in the registry at call time, RemoveStyle only removes a style no element made by the harness uses. non-trivial = an operation that added a reference or a definition, saved or reopened (errors are not)"
	r.Bounds["depth_after_seed"] = depth
	r.Bounds["seeds"] = c13NSeeds
	r.Bounds["alphabet_without_seeds"] = len(c13Ops) - c13NSeeds
	r.Assume = []string{
		"texts used by the harness never have the form '[n]', so a run with exactly that text is a note marker written by the library",
		"after reopen the style-API clause restarts with the new Document object (styles added to the earlier object are only required where the body uses them)",
		"errors and panics of operations are outcomes, not violations (not part of this property)",
	}
	P := rep.NewPartial()
	c13SelfTest(P)
	r.Merge(P)
	r.Merge(seqx.Search("C13", seqx.Opts{Depth: depth + 1, Deadline: r.Deadline}))
}
