package main

// C19 — Markdown converts to Word totally and without losing or inventing text.
//
// Part A (totality, shard worker "c19-total"): every byte string up to a length bound over a
// Markdown-significant alphabet, under every option set of the tier, is converted by the real
// converter; the call must return a document (no panic, no error, no hang = worker watchdog) and
// the document must save to a package that satisfies the well-formedness invariant of the
// independent reader.
// Part B (fidelity, shard worker "c19-fid", files c19_fid.go / c19_judge.go): documents printed
// from the harness' own block tree are converted and the saved package is compared with the
// model derived from the tree.

import (
	"crypto/sha256"
	"encoding/hex"
	"encoding/json"
	"encoding/xml"
	"fmt"
	"os"
	"path/filepath"
	"runtime/debug"
	"strconv"
	"strings"
	"time"

	"github.com/zerx-lab/wordZero/pkg/document"
	"github.com/zerx-lab/wordZero/pkg/markdown"

	"verif/harness/internal/pkgmodel"
	"verif/harness/internal/rep"
	"verif/harness/internal/shard"
)

func init() {
	register("C19", "model_checking", runC19)
	shard.Register("c19-total", c19TotalWorker)
	shard.Register("c19-fid", c19FidWorker)
}

// ---------------------------------------------------------------------------
// option space

type c19Opt struct {
	GFM, Foot, Tab, Task, Math bool
	TOC                        int // 0 = GenerateTOC off, otherwise TOCMaxLevel
}

func (o c19Opt) name() string {
	var on []string
	for _, p := range []struct {
		b bool
		n string
	}{{o.GFM, "gfm"}, {o.Foot, "footnotes"}, {o.Tab, "tables"}, {o.Task, "tasklist"}, {o.Math, "math"}} {
		if p.b {
			on = append(on, p.n)
		}
	}
	s := strings.Join(on, "+")
	if s == "" {
		s = "none"
	}
	if o.TOC == 0 {
		return s + "/toc-off"
	}
	return s + "/toc" + strconv.Itoa(o.TOC)
}

func (o c19Opt) mk() *markdown.ConvertOptions {
	c := markdown.DefaultOptions()
	c.EnableGFM, c.EnableFootnotes, c.EnableTables, c.EnableTaskList, c.EnableMath = o.GFM, o.Foot, o.Tab, o.Task, o.Math
	c.GenerateTOC = o.TOC > 0
	if o.TOC > 0 {
		c.TOCMaxLevel = o.TOC
	}
	return c
}

func (o c19Opt) isDefault() bool { return o.GFM && o.Foot && o.Tab && o.Task && o.Math && o.TOC == 3 }

// c19OptSets: index 0 is always the library default (all switches on, TOC to level 3).
// all=false: all-on, all-off, each single switch off; all=true: all 32 combinations. × TOC {3, off, 1}.
func c19OptSets(all bool) []c19Opt {
	var bases []c19Opt
	if all {
		for m := 31; m >= 0; m-- {
			bases = append(bases, c19Opt{GFM: m&1 != 0, Foot: m&2 != 0, Tab: m&4 != 0, Task: m&8 != 0, Math: m&16 != 0})
		}
	} else {
		bases = append(bases, c19Opt{true, true, true, true, true, 0}, c19Opt{})
		for i := 0; i < 5; i++ {
			b := c19Opt{true, true, true, true, true, 0}
			switch i {
			case 0:
				b.GFM = false
			case 1:
				b.Foot = false
			case 2:
				b.Tab = false
			case 3:
				b.Task = false
			case 4:
				b.Math = false
			}
			bases = append(bases, b)
		}
	}
	var out []c19Opt
	for _, toc := range []int{3, 0, 1} {
		for _, b := range bases {
			b.TOC = toc
			out = append(out, b)
		}
	}
	// default first
	for i, o := range out {
		if o.isDefault() {
			out[0], out[i] = out[i], out[0]
			break
		}
	}
	return out
}

// ---------------------------------------------------------------------------
// one conversion of the real code

// c19Convert runs the converter on a fresh converter and fresh options.  what is "" on success,
// otherwise "panic|<class>@<function>" or "no-document|<reason>".
func c19Convert(src []byte, o c19Opt) (doc *document.Document, what, detail string) {
	document.VerifResetGlobals()
	var err error
	func() {
		defer func() {
			if r := recover(); r != nil {
				msg := fmt.Sprintf("%v", r)
				fn := "?"
				st := strings.Split(string(debug.Stack()), "\n")
				for i, l := range st {
					// the first frame inside the library (function line precedes the file line)
					if strings.Contains(l, "wordZero/pkg/") && strings.Contains(l, ".go:") && i > 0 {
						f := strings.TrimSpace(st[i-1])
						if j := strings.LastIndex(f, "("); j > 0 {
							f = f[:j]
						}
						if j := strings.LastIndex(f, "/"); j >= 0 {
							f = f[j+1:]
						}
						fn = f
						break
					}
				}
				what = "panic|" + panicClass(msg) + "@" + fn
				detail = msg
				doc = nil
			}
		}()
		opts := o.mk()
		conv := markdown.NewConverter(opts)
		// the caller's buffer: handed over for the call only, reused for something else afterwards
		buf := append([]byte{}, src...)
		doc, err = conv.ConvertBytes(buf, opts)
		for k := range buf {
			buf[k] = '#'
		}
	}()
	if what != "" {
		return nil, what, detail
	}
	if err != nil {
		return nil, "no-document|error", err.Error()
	}
	if doc == nil || doc.Body == nil {
		return nil, "no-document|nil", "ConvertBytes returned a nil document without error"
	}
	return doc, "", ""
}

// c19BodyKey is a cheap key of the produced body (the only part of a fresh document the converter writes).
func c19BodyKey(doc *document.Document) (key string, ok bool) {
	defer func() {
		if r := recover(); r != nil {
			key, ok = "", false
		}
	}()
	b, err := xml.Marshal(doc.Body)
	if err != nil {
		return "", false
	}
	h := sha256.Sum256(b)
	return hex.EncodeToString(h[:9]), true
}

// c19Shape is a coarse description of the body used as observed outcome.
func c19Shape(doc *document.Document) string {
	var parts []string
	for _, e := range doc.Body.Elements {
		switch v := e.(type) {
		case *document.Paragraph:
			s := "p"
			if v.Properties != nil && v.Properties.ParagraphStyle != nil {
				s += ":" + v.Properties.ParagraphStyle.Val
			}
			parts = append(parts, s)
		case *document.Table:
			parts = append(parts, "tbl")
		default:
			parts = append(parts, kindOf(e))
		}
		if len(parts) >= 4 {
			parts = append(parts, "…")
			break
		}
	}
	if len(parts) == 0 {
		return "empty"
	}
	return strings.Join(parts, ",")
}

// c19SaveCheck saves and evaluates the package invariant.
func c19SaveCheck(doc *document.Document) (*pkgmodel.Pkg, []rep.Violation) {
	pk, _, errS := saveRead(doc)
	if errS != "" {
		cl := "error"
		if strings.HasPrefix(errS, "panic") {
			cl = "panic|" + panicClass(errS)
		}
		return nil, []rep.Violation{{Sig: "save|" + cl, Clause: "save", What: "ToBytes of the converted document: " + errS}}
	}
	var out []rep.Violation
	for _, p := range pk.CheckWellFormed() {
		out = append(out, rep.Violation{Sig: "save|" + p.Clause + "|" + p.Culprit, Clause: "save:" + p.Clause, What: "saved package of the converted document: " + p.String()})
	}
	if pk.Body() == nil {
		out = append(out, rep.Violation{Sig: "save|no-body", Clause: "save", What: "saved package has no w:body"})
	}
	return pk, out
}

// ---------------------------------------------------------------------------
// Part A: totality

var c19Sigma = []string{"a", " ", "\n", "\t", "#", "*", "_", "`", "~", "[", "]", "(", ")", "!", ">", "-", "+", "1", ".", "|", ":", "$", "\\", "<", "&", ";", "\x00", "\xc3", "é"}
var c19SigmaRed = []string{"a", " ", "\n", "\t", "#", "*", "`", "~", "-", "|", "$", ">"}

type c19TotalArgs struct {
	MaxLen     int `json:"max_len"`      // all strings of 0..MaxLen symbols over Σ
	AllOptsLen int `json:"all_opts_len"` // strings up to this length run under all 96 option sets (-1: never)
	RedLen     int `json:"red_len"`      // additionally all strings of exactly MaxLen+1..RedLen symbols over the reduced alphabet (0: none)
	SaveAllLen int `json:"save_all_len"` // strings up to this length are saved under the default options unconditionally, longer ones once per distinct body
}

// c19EnumStrings calls f(idx, symbols, string) for every string of the bound, in a fixed order.
func c19EnumStrings(a c19TotalArgs, f func(idx int64, n int, s string)) {
	var idx int64
	var rec func(alpha []string, n, left int, cur []byte)
	rec = func(alpha []string, n, left int, cur []byte) {
		if left == 0 {
			f(idx, n, string(cur))
			idx++
			return
		}
		for _, s := range alpha {
			rec(alpha, n, left-1, append(cur, s...))
		}
	}
	for n := 0; n <= a.MaxLen; n++ {
		rec(c19Sigma, n, n, nil)
	}
	for n := a.MaxLen + 1; n <= a.RedLen; n++ {
		rec(c19SigmaRed, n, n, nil)
	}
}

func c19TotalWorker(c *shard.Ctx) {
	var a c19TotalArgs
	json.Unmarshal(c.Args, &a)
	quickSets := c19OptSets(false)
	allSets := c19OptSets(true)
	seen := map[string]bool{}
	samples := 0
	c19EnumStrings(a, func(idx int64, n int, s string) {
		if !c.Begin(idx, func() interface{} { return map[string]interface{}{"input": strconv.Quote(s)} }) {
			return
		}
		sets := quickSets
		if n <= a.AllOptsLen {
			sets = allSets
		}
		c.P.Add("totality_inputs", 1)
		nontrivial := false
		for _, o := range sets {
			c.P.Evals++
			c.P.Transitions++ // one execution of the real converter
			c.P.Add("totality_conversions", 1)
			desc := map[string]interface{}{"input": strconv.Quote(s), "options": o.name()}
			doc, what, detail := c19Convert([]byte(s), o)
			if what != "" {
				c.P.Outcome(strings.SplitN(what, "@", 2)[0])
				c.P.Violate(rep.Violation{Sig: what, Clause: strings.SplitN(what, "|", 2)[0], Depth: n,
					What: fmt.Sprintf("converting %s under %s: %s (%s)", strconv.Quote(s), o.name(), what, detail), Case: shardCase(c, "c19-total", idx, desc)})
				continue
			}
			key, ok := c19BodyKey(doc)
			shape := c19Shape(doc)
			c.P.Outcome("body:" + shape)
			if shape != "p" {
				nontrivial = true
			}
			if ok && (!o.isDefault() || n > a.SaveAllLen) && seen[key] {
				continue
			}
			if ok {
				if !seen[key] {
					c.P.Keys = append(c.P.Keys, key)
				}
				seen[key] = true
			}
			c.P.Add("totality_saves", 1)
			c.P.Traces++ // a real execution carried through save, independent read and judgement
			_, viol := c19SaveCheck(doc)
			for _, v := range viol {
				v.Depth = n
				v.What = fmt.Sprintf("converting %s under %s: %s", strconv.Quote(s), o.name(), v.What)
				v.Case = shardCase(c, "c19-total", idx, desc)
				c.P.Violate(v)
			}
			if len(viol) == 0 && samples < 1 && n >= 3 && (strings.Contains(shape, "Heading") || strings.Contains(shape, "tbl") || strings.Contains(shape, ",")) && c.Shard < 3 {
				samples++
				c.P.Samples = append(c.P.Samples, map[string]interface{}{"part": "totality", "input": strconv.Quote(s), "options": o.name(), "body": shape, "package": "well-formed"})
			}
		}
		if nontrivial {
			c.P.Nontrivial = append(c.P.Nontrivial, "s:"+rep.Hash(s)[:12])
		}
	})
}

// c19ConvertFilePass exercises the file entry point on the shortest strings (observe_at: package written by ConvertFile).
func c19ConvertFilePass(r *rep.Run) {
	p := rep.NewPartial()
	dir, err := os.MkdirTemp("", "c19-file-")
	if err != nil {
		p.HarnessErrs = append(p.HarnessErrs, err.Error())
		r.Merge(p)
		return
	}
	defer os.RemoveAll(dir)
	inputs := append([]string{""}, c19Sigma...)
	inputs = append(inputs, "# a\n\n- b\n\n| a |\n|---|\n", "$a$ `b`\n")
	for i, s := range inputs {
		in := filepath.Join(dir, fmt.Sprintf("in%d.md", i))
		out := filepath.Join(dir, fmt.Sprintf("out%d.docx", i))
		os.WriteFile(in, []byte(s), 0o644)
		var cerr error
		o := c19Opt{true, true, true, true, true, 3}
		pan := guard(func() {
			document.VerifResetGlobals()
			opts := o.mk()
			cerr = markdown.NewConverter(opts).ConvertFile(in, out, opts)
		})
		p.Evals++
		p.Add("convertfile_calls", 1)
		cs := map[string]interface{}{"entry": "ConvertFile", "input": strconv.Quote(s), "options": o.name()}
		if pan != "" {
			p.Violate(rep.Violation{Sig: "file|panic|" + panicClass(pan), Clause: "panic", What: "ConvertFile(" + strconv.Quote(s) + "): " + pan, Case: cs, Depth: len(s)})
			continue
		}
		if cerr != nil {
			p.Violate(rep.Violation{Sig: "file|no-document|error", Clause: "no-document", What: "ConvertFile(" + strconv.Quote(s) + "): " + cerr.Error(), Case: cs, Depth: len(s)})
			continue
		}
		b, err := os.ReadFile(out)
		if err != nil {
			p.Violate(rep.Violation{Sig: "file|no-output", Clause: "save", What: "ConvertFile(" + strconv.Quote(s) + ") returned nil but wrote no file: " + err.Error(), Case: cs, Depth: len(s)})
			continue
		}
		for _, pr := range pkgmodel.Read(b).CheckWellFormed() {
			p.Violate(rep.Violation{Sig: "file|save|" + pr.Clause + "|" + pr.Culprit, Clause: "save:" + pr.Clause, What: "package written by ConvertFile(" + strconv.Quote(s) + "): " + pr.String(), Case: cs, Depth: len(s)})
		}
	}
	r.Merge(p)
}

// ---------------------------------------------------------------------------

func runC19(r *rep.Run) {
	ta := c19TotalArgs{MaxLen: 3, AllOptsLen: -1, RedLen: 0, SaveAllLen: 3}
	fa := c19FidArgs{MaxBlocks: 3, AllOptsBlocks: 0}
	if r.Tier == "thorough" {
		ta = c19TotalArgs{MaxLen: 4, AllOptsLen: 3, RedLen: 5, SaveAllLen: 3}
		fa = c19FidArgs{MaxBlocks: 4, AllOptsBlocks: 3}
	}
	r.Bounds = map[string]interface{}{
		"totality_alphabet":         strings.Join(quoteAll(c19Sigma), " "),
		"totality_max_symbols":      ta.MaxLen,
		"totality_reduced_alphabet": strings.Join(quoteAll(c19SigmaRed), " "),
		"totality_reduced_symbols":  ta.RedLen,
		"option_sets":               "quick set = {all on, all off, each single switch off} x TOC {3, off, 1} = 21; full set = all 32 switch combinations x TOC {3, off, 1} = 96",
		"totality_option_sets":      map[bool]string{false: "quick set for every string", true: fmt.Sprintf("full set for strings of <= %d symbols, quick set for longer ones", ta.AllOptsLen)}[ta.AllOptsLen >= 0],
		"fidelity_max_blocks":       fa.MaxBlocks,
		"fidelity_sequence_blocks":  len(c19SeqBlocks()),
		"fidelity_single_documents": len(c19SingleDocs()),
		"fidelity_option_sets":      map[bool]string{false: "quick set for every document", true: fmt.Sprintf("full set for single documents and sequences of <= %d blocks, quick set for longer sequences", fa.AllOptsBlocks)}[fa.AllOptsBlocks > 0],
		"text_alphabet":             "a b 漢 1 (formula: a+b)",
		"totality_save_clause":      fmt.Sprintf("default options: every string of <= %d symbols, longer strings once per distinct produced body; other option sets: once per distinct produced body", ta.SaveAllLen),
		"hang_watchdog_s":           60,
	}
	r.Rule = "Totality: every string over the alphabet up to the bound x option set is one evaluation (fresh converter, fresh options, registries reset); " +
		"verdict = returns a document, no panic/hang, saved package well-formed per the independent reader; the save clause is evaluated for every string of <= 3 symbols under the default options and otherwise once per distinct produced body (per worker); " +
		"non-trivial = the produced body is not a single unstyled paragraph. " +
		"Fidelity: every document = one single-block variant or a sequence of <= k blocks over the 16 representative blocks (all sequences except an indented code block directly after a list or another indented code block, which Markdown reads differently); " +
		"the printed Markdown is first validated against the harness tree with the third-party parser's AST (mismatch = harness error, never a verdict); " +
		"the saved package is read with the independent reader and judged against the tree: text stream (white space and renderer list markers removed; syntax characters of a construct that the option set disables may appear or not), separation of blocks/soft breaks, heading style and text, span formatting relative to the paragraph style, code lines, table shape/text/alignment, task state; " +
		"save+compare is done once per distinct (body, enabled-construct set) of a document; all fidelity documents are non-trivial."
	r.Assume = []string{
		"the saved package is a function of the document body for a freshly converted document (used to evaluate the save clause once per distinct body for non-default option sets)",
		"goldmark's parser (third party) defines what the printed Markdown means; the harness tree is cross-checked against its AST under the full extension set",
		"run formatting is read as direct properties over run style over paragraph style over document defaults (no table-style conditional formatting)",
	}
	c19ConvertFilePass(r)
	t0 := time.Now()
	runShards(r, "c19-total", ta, 60*time.Second, nil)
	t1 := time.Now()
	r.P.Add("totality_wall_ms", t1.Sub(t0).Milliseconds())
	if !r.OutOfTime() {
		runShards(r, "c19-fid", fa, 60*time.Second, nil)
		r.P.Add("fidelity_wall_ms", time.Since(t1).Milliseconds())
	} else {
		r.P.Incomplete = true
		r.P.Notes = append(r.P.Notes, "fidelity part not started: budget")
	}
}

func quoteAll(xs []string) []string {
	out := make([]string, len(xs))
	for i, x := range xs {
		out[i] = strconv.Quote(x)
	}
	return out
}
