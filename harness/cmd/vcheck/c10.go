package main

// C10 — every picture shows exactly the image bytes it was given, at the requested size.
//
// BFS (seqx) over histories of picture-adding calls (body, table cell, template
// placeholder; three formats; equal / non-ASCII / extension-less / misleading file
// names; every size configuration) interleaved with AddHeader, AddListItem and
// save+open, from a fresh document and from foreign packages with sparse or
// unusual media names and relationship ids.  Every distinct state is saved and
// judged on the saved package through the independent reader: the i-th drawing in
// document order must resolve (r:embed -> image relationship of the main part ->
// part) to exactly the bytes handed over for the i-th picture, and wp:extent /
// a:ext must equal the value of an independent implementation of the sizing rules.

import (
	"archive/zip"
	"bytes"
	"crypto/sha256"
	"encoding/json"
	"fmt"
	"io"
	"os"
	"path/filepath"
	"sort"
	"strconv"
	"strings"

	"github.com/zerx-lab/wordZero/pkg/document"

	"verif/harness/internal/foreign"
	"verif/harness/internal/pkgmodel"
	"verif/harness/internal/rep"
	"verif/harness/internal/seqx"
)

// ---------------------------------------------------------------------------
// alphabet

type c10Img struct {
	format string
	w, h   int
}

var c10Imgs = []c10Img{{"png", 2, 1}, {"jpeg", 4, 2}, {"gif", 3, 3}, {"png", 1, 2}}

const (
	c10P21 = 0
	c10J42 = 1
	c10G33 = 2
	c10P12 = 3
)

// c10Size is a size configuration; millimetres are given in hundredths so that the
// expected EMU value (1 mm = 36000 EMU, 0.01 mm = 360 EMU) is an exact integer.
type c10Size struct {
	Mode string // nil | zero | wh | wkeep | hkeep | wonly
	W, H int    // hundredths of a millimetre
}

func (s c10Size) String() string {
	switch s.Mode {
	case "wh":
		return fmt.Sprintf("%s×%smm", c10mm(s.W), c10mm(s.H))
	case "wkeep":
		return fmt.Sprintf("W=%smm keep-aspect", c10mm(s.W))
	case "hkeep":
		return fmt.Sprintf("H=%smm keep-aspect", c10mm(s.H))
	case "wonly":
		return fmt.Sprintf("W=%smm no-keep", c10mm(s.W))
	case "zero":
		return "0×0"
	}
	return "no size"
}

func c10mm(h int) string { return strconv.FormatFloat(float64(h)/100, 'f', -1, 64) }

type c10Op struct {
	name  string
	kind  string // seed | body | cell | tpl | tplcell | hdr | list | reopen
	img   int
	fname string // original file name handed to the library ("" = the call takes none)
	via   string // data | file
	size  c10Size
	float bool
	arg   int
}

var c10Ops []c10Op
var c10SeedBase int

// 20.08 mm and 20.33 mm are values whose float64 product with 36000 lies just below the
// exact integer, so that truncation yields exact-1: the ±1 EMU tolerance is exercised.
var (
	c10None  = c10Size{Mode: "nil"}
	c10Zero  = c10Size{Mode: "zero"}
	c10WH    = c10Size{Mode: "wh", W: 2540, H: 2008}
	c10WKeep = c10Size{Mode: "wkeep", W: 2008}
	c10HKeep = c10Size{Mode: "hkeep", H: 2033}
	c10WOnly = c10Size{Mode: "wonly", W: 3000}
)

type c10SeedDef struct {
	name string
	pics []c10SeedPic
}
type c10SeedPic struct {
	media string // name under word/media/
	rid   string
	img   int
	ext   string // default content-type extension to declare
}

var c10Seeds = []c10SeedDef{
	{name: "foreign:image7.png@rId3", pics: []c10SeedPic{{"image7.png", "rId3", c10P21, "png"}}},
	{name: "foreign:IMAGE1.PNG@rId2", pics: []c10SeedPic{{"IMAGE1.PNG", "rId2", c10P12, "png"}}},
	{name: "foreign:picture.png@rId5+photo.jpeg@pic1", pics: []c10SeedPic{{"picture.png", "rId5", c10P21, "png"}, {"photo.jpeg", "pic1", c10J42, "jpeg"}}},
}

func init() {
	add := func(kind string, img int, fname, via string, size c10Size) {
		im := c10Imgs[img]
		n := fmt.Sprintf("%s(%s %dx%d", kind, im.format, im.w, im.h)
		if fname != "" {
			n += fmt.Sprintf(", name %q", fname)
		}
		n += ", " + via + ", " + size.String() + ")"
		c10Ops = append(c10Ops, c10Op{name: n, kind: kind, img: img, fname: fname, via: via, size: size})
	}
	// body: AddImageFromData(data, name, format, w, h, config)
	add("body", c10P21, "a.png", "data", c10None)
	add("body", c10J42, "a.png", "data", c10None) // the same name again with other bytes (and a misleading extension)
	add("body", c10G33, "a.png", "data", c10None)
	add("body", c10P12, "a.png", "data", c10None)
	add("body", c10J42, "图.jpg", "data", c10None)
	add("body", c10G33, "noext", "data", c10None)
	add("body", c10P21, "x.gif", "data", c10None)
	add("body", c10P21, "a.png", "data", c10Zero)
	add("body", c10J42, "a.png", "data", c10WH)
	add("body", c10P12, "a.png", "data", c10WKeep)
	add("body", c10P21, "a.png", "data", c10HKeep)
	add("body", c10J42, "b.jpeg", "data", c10WOnly)
	add("body", c10J42, "photo.JPG", "file", c10HKeep) // AddImageFromFile: format and pixel size detected by the library
	add("body", c10P12, "a.png", "file", c10None)      // the path the cell and template entries use, with other bytes
	add("body", c10G33, "a.png", "data", c10WH)
	c10Ops[len(c10Ops)-1].float = true
	c10Ops[len(c10Ops)-1].name = "body-floating(gif 3x3, name \"a.png\", data, " + c10WH.String() + ", float left)"
	// table cell: AddTable(1x1) + AddCellImage
	add("cell", c10P12, "", "data", c10None)
	add("cell", c10J42, "", "data", c10WH)
	add("cell", c10P21, "", "data", c10WKeep)
	add("cell", c10P12, "", "data", c10HKeep)
	add("cell", c10P21, "a.png", "file", c10None)
	add("cell", c10G33, "图.jpg", "file", c10None)
	add("cell", c10P21, "noext", "file", c10None)
	add("cell", c10J42, "x.gif", "file", c10None)
	// template placeholder: AddParagraph("{{#image pic}}") + LoadTemplateFromDocument + RenderTemplateToDocument
	add("tpl", c10P21, "", "data", c10None)
	add("tpl", c10G33, "", "data", c10Zero)
	add("tpl", c10J42, "", "data", c10WH)
	add("tpl", c10P12, "", "details", c10WKeep) // SetImageWithDetails(data, config, alt text, title)
	add("tpl", c10P21, "", "data", c10HKeep)
	add("tpl", c10G33, "a.png", "file", c10None)
	add("tpl", c10J42, "图.jpg", "file", c10None)
	add("tpl", c10P12, "noext", "file", c10None)
	add("tpl", c10P21, "x.gif", "file", c10None)
	// the placeholder inside a table cell
	add("tplcell", c10P12, "", "data", c10None)
	add("tplcell", c10J42, "", "data", c10WKeep)
	c10Ops = append(c10Ops,
		c10Op{name: "render the last template again in the same engine with the same TemplateData object, continue on the second result", kind: "tplagain"},
		c10Op{name: "AddImageFromData(format \"bmp\": not a supported format, the call is refused)", kind: "reject"},
		c10Op{name: "two placeholders; first render with an undecodable second picture (fails), the caller repairs its TemplateData and renders again with the same engine", kind: "tplfail", img: c10P21},
		c10Op{name: "AddHeader(default)", kind: "hdr"},
		c10Op{name: "AddListItem", kind: "list"},
		c10Op{name: "work on another document (build, save, reopen, render as template)", kind: "other"},
		c10Op{name: "reopen(OpenFromMemory(ToBytes()))", kind: "reopen"},
	)
	c10SeedBase = len(c10Ops)
	for i, s := range c10Seeds {
		c10Ops = append(c10Ops, c10Op{name: "seed:" + s.name, kind: "seed", arg: i})
	}
	names := make([]string, len(c10Ops))
	for i, o := range c10Ops {
		names[i] = o.name
	}
	seqx.Register(&seqx.Spec{Name: "C10", Ops: names, New: func(args json.RawMessage) seqx.Inst {
		document.VerifResetGlobals()
		return &c10Inst{doc: document.New(), seed: "fresh"}
	}})
	register("C10", "model_checking", runC10)
}

// payload of alphabet entry op: distinct bytes per entry, so the bytes identify the call.
var c10PayloadCache = map[int][]byte{}

func c10Payload(op int) []byte {
	if b, ok := c10PayloadCache[op]; ok {
		return b
	}
	o := c10Ops[op]
	b := c10ImgBytes(o.img, uint8(40+op*3))
	c10PayloadCache[op] = b
	return b
}

func c10ImgBytes(img int, seed uint8) []byte {
	im := c10Imgs[img]
	switch im.format {
	case "png":
		return pngBytes(im.w, im.h, seed)
	case "jpeg":
		return jpegBytes(im.w, im.h, seed)
	}
	return gifBytes(im.w, im.h, seed)
}

func c10SeedPayload(seed, k int) []byte {
	return c10ImgBytes(c10Seeds[seed].pics[k].img, uint8(200+seed*8+k))
}

func c10Format(img int) document.ImageFormat {
	switch c10Imgs[img].format {
	case "png":
		return document.ImageFormatPNG
	case "jpeg":
		return document.ImageFormatJPEG
	}
	return document.ImageFormatGIF
}

func (s c10SeedDef) build(idx int) []byte {
	p := foreign.New()
	p.Overrides["/word/styles.xml"] = foreign.CtStyles
	p.Add("word/styles.xml", foreign.StylesXML())
	p.DocRels = append(p.DocRels, foreign.Rel{ID: "rId1", Type: pkgmodel.RtStyles, Target: "styles.xml"})
	body := foreign.Para("seed")
	for k, pc := range s.pics {
		p.Defaults[pc.ext] = "image/" + pc.ext
		p.Add("word/media/"+pc.media, c10SeedPayload(idx, k))
		p.DocRels = append(p.DocRels, foreign.Rel{ID: pc.rid, Type: pkgmodel.RtImage, Target: "media/" + pc.media})
		im := c10Imgs[pc.img]
		body += foreign.DrawingPara(pc.rid, 10+k, int64(im.w)*9525*10, int64(im.h)*9525*10)
	}
	body += `<w:sectPr><w:pgSz w:w="11906" w:h="16838"/></w:sectPr>`
	p.Add(p.DocName, foreign.DocXML("w", body))
	return p.Bytes()
}

// ---------------------------------------------------------------------------
// model

type c10Pic struct {
	Place   string // seed | body | cell | tpl (tplcell counts as tpl with InCell)
	Via     string
	Op      int // alphabet entry (or -1 for seed pictures)
	Payload []byte
	PW, PH  int
	Size    c10Size
	Judged  bool // extent judged
	Reop    bool // lived through a reopen
	Rend    bool // lived through a template render
	// OffAtAdd: the in-memory drawing already carried an unacceptable extent right after the call
	// (only refines the signature: "at-add" vs. changed later by save/reopen/render; never a verdict).
	OffAtAdd bool
}

func (p *c10Pic) lived() string {
	s := "fresh"
	if p.Reop && p.Rend {
		s = "reopened+rendered"
	} else if p.Reop {
		s = "reopened"
	} else if p.Rend {
		s = "rendered"
	}
	return s
}

type c10Inst struct {
	doc      *document.Document
	seed     string
	steps    int
	pics     []*c10Pic
	lastKind string
	lastNT   bool
	reop     int
	hdr      int
	list     int
	// the engine and the caller's data object of the last template render (memory data only):
	// a caller may render the same template with the same data again and must get the same pictures
	tplEng  *document.TemplateEngine
	tplData *document.TemplateData
	again   int
	cfgs    map[string]*document.ImageConfig
	rej     int
	nfail   int
}

// c10TplFailSecond is the picture the caller puts in place of the undecodable one.
func c10TplFailSecond() []byte { return c10ImgBytes(c10P12, 191) }

func (i *c10Inst) Enabled(op int) bool {
	o := c10Ops[op]
	if o.kind == "seed" {
		// a foreign package replaces the fresh document, as the first step only
		return i.steps == 0
	}
	switch o.kind {
	case "reopen":
		return i.reop < 2 && i.lastKind != "reopen"
	case "hdr":
		// twice: the second call for the same kind replaces the first definition, which changes the
		// relationship list without growing it (seed C10-d2)
		return i.hdr < 2
	case "list":
		return i.list < 1
	case "tplagain":
		return i.againOK()
	case "reject":
		return i.rej < 2
	case "tplfail":
		return i.nfail < 1
	}
	return true
}

func (i *c10Inst) againOK() bool {
	return i.tplEng != nil && i.again < 2 && (i.lastKind == "tpl" || i.lastKind == "tplcell" || i.lastKind == "tplagain")
}

func (i *c10Inst) Nontrivial() bool { return i.lastNT }

// cfg hands out ONE configuration object per (size, placement) for the whole history: a caller may keep a
// configuration and pass it for several pictures; each picture's extent still follows the rules for its own pixels.
func (i *c10Inst) cfg(s c10Size, float bool) *document.ImageConfig {
	k := fmt.Sprintf("%+v/%v", s, float)
	if c, ok := i.cfgs[k]; ok {
		return c
	}
	if i.cfgs == nil {
		i.cfgs = map[string]*document.ImageConfig{}
	}
	c := c10ImageConfig(s, float)
	i.cfgs[k] = c
	return c
}

func c10ImageConfig(s c10Size, float bool) *document.ImageConfig {
	if s.Mode == "nil" && !float {
		return nil
	}
	cfg := &document.ImageConfig{}
	if float {
		cfg.Position = document.ImagePositionFloatLeft
		cfg.WrapText = document.ImageWrapSquare
	}
	switch s.Mode {
	case "zero":
		cfg.Size = &document.ImageSize{}
	case "wh":
		cfg.Size = &document.ImageSize{Width: float64(s.W) / 100, Height: float64(s.H) / 100}
	case "wkeep":
		cfg.Size = &document.ImageSize{Width: float64(s.W) / 100, KeepAspectRatio: true}
	case "hkeep":
		cfg.Size = &document.ImageSize{Height: float64(s.H) / 100, KeepAspectRatio: true}
	case "wonly":
		cfg.Size = &document.ImageSize{Width: float64(s.W) / 100}
	}
	return cfg
}

// withFile writes data under the given name into a private directory for the duration of f.
// The directory is the same for every call of the process: a caller who writes its pictures to one place uses the
// same path for different files over time (two alphabet entries share a file name but not the bytes).
func c10WithFile(name string, data []byte, f func(path string) error) error {
	dir := filepath.Join(os.TempDir(), fmt.Sprintf("vcheck-c10-%d", os.Getpid()))
	if err := os.MkdirAll(dir, 0o755); err != nil {
		panic("harness: " + err.Error())
	}
	path := filepath.Join(dir, name)
	if err := os.WriteFile(path, data, 0o644); err != nil {
		panic("harness: " + err.Error())
	}
	defer func() {
		os.Remove(path)
		os.Remove(dir) // succeeds when empty
	}()
	return f(path)
}

func (i *c10Inst) render(data *document.TemplateData) error {
	eng := document.NewTemplateEngine()
	if _, e := eng.LoadTemplateFromDocument("t", i.doc); e != nil {
		return fmt.Errorf("LoadTemplateFromDocument: %v", e)
	}
	d, e := eng.RenderTemplateToDocument("t", data)
	if e != nil || d == nil {
		return fmt.Errorf("RenderTemplateToDocument: %v", e)
	}
	i.doc = d
	i.tplEng, i.tplData = eng, data
	for _, p := range i.pics {
		p.Rend = true
	}
	return nil
}

func (i *c10Inst) Apply(op int) (string, []rep.Violation) {
	o := c10Ops[op]
	i.lastNT = false
	var viol []rep.Violation
	var err error
	added := false
	pan := guard(func() {
		switch o.kind {
		case "seed":
			document.VerifResetGlobals()
			s := c10Seeds[o.arg]
			i.seed = s.name
			b := s.build(o.arg)
			pk := pkgmodel.Read(b)
			if probs := append(pk.CheckWellFormed(), pk.CheckRelationships()...); len(probs) > 0 {
				panic(fmt.Sprintf("harness: foreign seed %s is not valid: %v", s.name, probs))
			}
			d, e := reopen(b)
			if e != "" {
				viol = append(viol, rep.Violation{Sig: "open-failed|" + s.name, Clause: "open", What: e})
				i.doc = document.New()
				return
			}
			i.doc = d
			for k, pc := range s.pics {
				i.pics = append(i.pics, &c10Pic{Place: "seed", Via: "foreign", Op: -1, Payload: c10SeedPayload(o.arg, k), PW: c10Imgs[pc.img].w, PH: c10Imgs[pc.img].h})
			}
			i.lastNT = true
		case "body":
			im := c10Imgs[o.img]
			if o.via == "file" {
				err = c10WithFile(o.fname, c10Payload(op), func(path string) error {
					_, e := i.doc.AddImageFromFile(path, i.cfg(o.size, o.float))
					return e
				})
			} else {
				_, err = i.doc.AddImageFromData(c10Payload(op), o.fname, c10Format(o.img), im.w, im.h, i.cfg(o.size, o.float))
			}
			added = err == nil
		case "cell":
			var t *document.Table
			t, err = i.doc.AddTable(&document.TableConfig{Rows: 1, Cols: 1, Width: 3000})
			if err != nil {
				return
			}
			cfg := &document.CellImageConfig{}
			switch o.size.Mode {
			case "wh":
				cfg.Width, cfg.Height = float64(o.size.W)/100, float64(o.size.H)/100
			case "wkeep":
				cfg.Width, cfg.KeepAspectRatio = float64(o.size.W)/100, true
			case "hkeep":
				cfg.Height, cfg.KeepAspectRatio = float64(o.size.H)/100, true
			}
			if o.via == "file" {
				err = c10WithFile(o.fname, c10Payload(op), func(path string) error {
					cfg.FilePath = path
					_, e := i.doc.AddCellImage(t, 0, 0, cfg)
					return e
				})
			} else {
				cfg.Data = c10Payload(op)
				_, err = i.doc.AddCellImage(t, 0, 0, cfg)
			}
			added = err == nil
		case "tpl", "tplcell":
			if o.kind == "tpl" {
				i.doc.AddParagraph("{{#image pic}}")
			} else {
				var t *document.Table
				t, err = i.doc.AddTable(&document.TableConfig{Rows: 1, Cols: 1, Width: 3000})
				if err != nil {
					return
				}
				if err = t.SetCellText(0, 0, "{{#image pic}}"); err != nil {
					return
				}
			}
			data := document.NewTemplateData()
			if o.via == "file" {
				err = c10WithFile(o.fname, c10Payload(op), func(path string) error {
					data.SetImage("pic", path, i.cfg(o.size, false))
					return i.render(data)
				})
				i.tplEng, i.tplData = nil, nil // the file is gone after the call
			} else if o.via == "details" {
				data.SetImageWithDetails("pic", "", c10Payload(op), i.cfg(o.size, false), "alt text of pic", "title of pic")
				err = i.render(data)
			} else {
				data.SetImageFromData("pic", c10Payload(op), i.cfg(o.size, false))
				err = i.render(data)
			}
			added = err == nil
		case "tplagain":
			d, e := i.tplEng.RenderTemplateToDocument("t", i.tplData)
			if e != nil || d == nil {
				err = fmt.Errorf("second RenderTemplateToDocument: %v", e)
				return
			}
			i.doc = d
			i.again++
			i.lastNT = len(i.pics) > 0
		case "tplfail":
			i.doc.AddParagraph("{{#image pic}}")
			i.doc.AddParagraph("{{#image pic2}}")
			eng := document.NewTemplateEngine()
			if _, e := eng.LoadTemplateFromDocument("t", i.doc); e != nil {
				err = fmt.Errorf("LoadTemplateFromDocument: %v", e)
				return
			}
			data := document.NewTemplateData()
			data.SetImageFromData("pic", c10Payload(op), nil)
			data.SetImageFromData("pic2", []byte("these bytes are not an image"), nil)
			eng.RenderTemplateToDocument("t", data) // expected to fail; whatever it returns is dropped
			data.SetImageFromData("pic2", c10TplFailSecond(), nil)
			d, e := eng.RenderTemplateToDocument("t", data)
			if e != nil || d == nil {
				err = fmt.Errorf("render after the data was repaired: %v", e)
				return
			}
			i.doc = d
			for _, p := range i.pics {
				p.Rend = true
			}
			i.pics = append(i.pics, &c10Pic{Place: "tpl", Via: "data", Op: op, Payload: c10Payload(op), PW: 2, PH: 1, Size: c10None, Judged: true},
				&c10Pic{Place: "tpl", Via: "data", Op: op, Payload: c10TplFailSecond(), PW: 1, PH: 2, Size: c10None, Judged: true})
			i.nfail++
			i.lastNT = true
		case "reject":
			// a refused call must leave nothing behind (no counter, part, relationship or content type)
			if _, e := i.doc.AddImageFromData(pngBytes(2, 1, 250), "x.bmp", document.ImageFormat("bmp"), 2, 1, nil); e == nil {
				err = fmt.Errorf("an image of the unsupported format \"bmp\" was accepted")
			}
			i.rej++
		case "hdr":
			err = i.doc.AddHeader(document.HeaderFooterTypeDefault, "H")
			i.hdr++
		case "list":
			i.doc.AddListItem("li", &document.ListConfig{Type: document.ListTypeNumber})
			i.list++
		case "other":
			interfereRaw()
		case "reopen":
			_, b, errS := saveRead(i.doc)
			if errS != "" {
				err = fmt.Errorf("save: %s", errS)
				return
			}
			d, e := reopen(b)
			if e != "" {
				err = fmt.Errorf("reopen: %s", e)
				return
			}
			i.doc = d
			i.reop++
			for _, p := range i.pics {
				p.Reop = true
			}
			i.lastNT = len(i.pics) > 0
		}
	})
	i.lastKind = o.kind
	i.steps++
	if pan != "" {
		if strings.HasPrefix(pan, "harness:") {
			panic(pan)
		}
		return "panic", append(viol, rep.Violation{Sig: "panic|" + panicClass(pan) + "|" + o.kind, Clause: "panic", What: o.name + ": " + pan})
	}
	if err != nil {
		viol = append(viol, rep.Violation{Sig: "unexpected-error|" + o.kind + "|" + o.via, Clause: "error", What: o.name + ": " + err.Error()})
		return "error", viol
	}
	if added {
		place := o.kind
		if place == "tplcell" {
			place = "tpl"
		}
		im := c10Imgs[o.img]
		np := &c10Pic{Place: place, Via: o.via, Op: op, Payload: c10Payload(op), PW: im.w, PH: im.h, Size: o.size, Judged: o.size.Mode != "wonly"}
		if cx, cy, ok := c10LastExtent(i.doc); ok && np.Judged {
			good, _, _ := c10ExtentOK(np, cx, cy)
			np.OffAtAdd = !good
		}
		i.pics = append(i.pics, np)
		i.lastNT = true
	}
	return "ok", viol
}

func c10Hash(b []byte) string {
	h := sha256.Sum256(b)
	return fmt.Sprintf("%x", h[:6])
}

// c10LastExtent reads the extent of the last drawing of the in-memory body (exported fields only).
func c10LastExtent(d *document.Document) (cx, cy int64, ok bool) {
	var last *document.DrawingExtent
	para := func(p *document.Paragraph) {
		for _, r := range p.Runs {
			if r.Drawing == nil {
				continue
			}
			if r.Drawing.Inline != nil {
				last = r.Drawing.Inline.Extent
			} else if r.Drawing.Anchor != nil {
				last = r.Drawing.Anchor.Extent
			}
		}
	}
	for _, e := range d.Body.Elements {
		switch x := e.(type) {
		case *document.Paragraph:
			para(x)
		case *document.Table:
			for ri := range x.Rows {
				for ci := range x.Rows[ri].Cells {
					for pi := range x.Rows[ri].Cells[ci].Paragraphs {
						para(&x.Rows[ri].Cells[ci].Paragraphs[pi])
					}
				}
			}
		}
	}
	if last == nil {
		return 0, 0, false
	}
	x, e1 := strconv.ParseInt(last.Cx, 10, 64)
	y, e2 := strconv.ParseInt(last.Cy, 10, 64)
	return x, y, e1 == nil && e2 == nil
}

// drawingDump lists the pictures of the in-memory body (exported fields only), for the state key.
func c10DrawingDump(d *document.Document) string {
	var b strings.Builder
	para := func(p *document.Paragraph) {
		for _, r := range p.Runs {
			dr := r.Drawing
			if dr == nil {
				continue
			}
			var ext *document.DrawingExtent
			var g *document.DrawingGraphic
			if dr.Inline != nil {
				ext, g = dr.Inline.Extent, dr.Inline.Graphic
				b.WriteString("i")
			} else if dr.Anchor != nil {
				ext, g = dr.Anchor.Extent, dr.Anchor.Graphic
				b.WriteString("a")
			}
			if ext != nil {
				b.WriteString(ext.Cx + "x" + ext.Cy)
			}
			if g != nil && g.GraphicData != nil && g.GraphicData.Pic != nil {
				pic := g.GraphicData.Pic
				if pic.BlipFill != nil && pic.BlipFill.Blip != nil {
					b.WriteString("@" + pic.BlipFill.Blip.Embed)
				}
				if pic.SpPr != nil && pic.SpPr.Xfrm != nil && pic.SpPr.Xfrm.Ext != nil {
					b.WriteString("/" + pic.SpPr.Xfrm.Ext.Cx + "x" + pic.SpPr.Xfrm.Ext.Cy)
				}
			}
			b.WriteString(";")
		}
	}
	for _, e := range d.Body.Elements {
		switch x := e.(type) {
		case *document.Paragraph:
			b.WriteString("p")
			para(x)
		case *document.Table:
			b.WriteString("t[")
			for ri := range x.Rows {
				for ci := range x.Rows[ri].Cells {
					for pi := range x.Rows[ri].Cells[ci].Paragraphs {
						para(&x.Rows[ri].Cells[ci].Paragraphs[pi])
					}
				}
			}
			b.WriteString("]")
		default:
			b.WriteString(kindOf(e))
		}
		b.WriteString(",")
	}
	return b.String()
}

func (i *c10Inst) Key() string {
	var b strings.Builder
	b.WriteString(i.seed + "|")
	for _, p := range i.pics {
		fmt.Fprintf(&b, "%s/%s/%d/%s/%s/%v;", p.Place, p.Via, p.Op, c10Hash(p.Payload), p.lived(), p.OffAtAdd)
	}
	fmt.Fprintf(&b, "|r%d h%d l%d last=%v first=%v again=%v/%d rej=%d fail=%d|", i.reop, i.hdr, i.list, i.lastKind == "reopen", i.steps == 0, i.againOK(), i.again, i.rej, i.nfail)
	// the caller's configuration objects as they are now (a library that writes into them changes later calls)
	ck := make([]string, 0, len(i.cfgs))
	for k, c := range i.cfgs {
		d := "nil"
		if c != nil {
			d = fmt.Sprintf("%v/%v/%v/%v", c.Position, c.Alignment, c.WrapText, c.AltText)
			if c.Size != nil {
				d += fmt.Sprintf("/%+v", *c.Size)
			}
		}
		ck = append(ck, k+"="+d)
	}
	sort.Strings(ck)
	b.WriteString(strings.Join(ck, ";") + "|")
	b.WriteString(i.doc.VerifRelDump() + "|" + i.doc.VerifMediaDump() + "|" + strings.Join(i.doc.VerifPartNames(), ",") + "|" + c10DrawingDump(i.doc) + "|" + document.VerifGlobalsDump() + "|" + i.doc.VerifShallowState())
	return rep.Hash(b.String())
}

// ---------------------------------------------------------------------------
// oracle

// c10Expect is the independent implementation of the sizing rules of the statement:
// explicit W×H in millimetres (1 mm = 36000 EMU); one dimension + keep-aspect: the other from the
// pixel aspect ratio; otherwise the pixel size at 96 dpi (1 px = 9525 EMU).
// It answers whether (cx, cy) is an acceptable extent and, if not, which axis is off and what was expected.
func c10ExtentOK(p *c10Pic, cx, cy int64) (ok bool, axis string, want string) {
	abs := func(x int64) int64 {
		if x < 0 {
			return -x
		}
		return x
	}
	pw, ph := int64(p.PW), int64(p.PH)
	bad := func(okx, oky bool) string {
		switch {
		case !okx && !oky:
			return "cx+cy"
		case !okx:
			return "cx"
		case !oky:
			return "cy"
		}
		return ""
	}
	switch p.Size.Mode {
	case "wh":
		ex, ey := int64(p.Size.W)*360, int64(p.Size.H)*360
		a := bad(abs(cx-ex) <= 1, abs(cy-ey) <= 1)
		return a == "", a, fmt.Sprintf("%d×%d EMU (±1)", ex, ey)
	case "wkeep":
		ex := int64(p.Size.W) * 360
		// cy = cx·ph/pw within 1 EMU, cx being the exact or the emitted width: |cy·pw − cx·ph| ≤ pw
		oky := abs(cy*pw-ex*ph) <= pw || abs(cy*pw-cx*ph) <= pw
		a := bad(abs(cx-ex) <= 1, oky)
		return a == "", a, fmt.Sprintf("%d × %d·%d/%d=%d EMU (±1)", ex, ex, ph, pw, ex*ph/pw)
	case "hkeep":
		ey := int64(p.Size.H) * 360
		okx := abs(cx*ph-ey*pw) <= ph || abs(cx*ph-cy*pw) <= ph
		a := bad(okx, abs(cy-ey) <= 1)
		return a == "", a, fmt.Sprintf("%d·%d/%d=%d × %d EMU (±1)", ey, pw, ph, ey*pw/ph, ey)
	}
	// nil, zero: pixel size at 96 dpi, integer arithmetic, no tolerance needed
	ex, ey := pw*9525, ph*9525
	a := bad(cx == ex, cy == ey)
	return a == "", a, fmt.Sprintf("%d×%d EMU (pixel size at 96 dpi)", ex, ey)
}

func (i *c10Inst) Deep() []rep.Violation {
	_, b, errS := saveRead2(i.doc)
	if errS != "" {
		return []rep.Violation{{Sig: "save-failed|after-" + i.lastKind, Clause: "save", What: errS}}
	}
	return c10CheckPackage(c10Read(b), i.pics, i.lastKind)
}

// saveRead2 serialises with ToBytes (no parsing).
func saveRead2(d *document.Document) (*pkgmodel.Pkg, []byte, string) {
	var b []byte
	var err error
	if p := guard(func() { b, err = d.ToBytes() }); p != "" {
		return nil, nil, "panic: " + p
	}
	if err != nil {
		return nil, nil, "error: " + err.Error()
	}
	return nil, b, ""
}

// c10Read is a lean variant of pkgmodel.Read: all entries are read, but only the package
// relationships, the main part and the main part's relationships are parsed (the oracle needs no other XML).
func c10Read(data []byte) *pkgmodel.Pkg {
	p := &pkgmodel.Pkg{Parts: map[string][]byte{}, XML: map[string]*pkgmodel.Node{}, XMLProbs: map[string][]string{}, Defaults: map[string]string{}, Override: map[string]string{}, Rels: map[string][]pkgmodel.Rel{}}
	zr, err := zip.NewReader(bytes.NewReader(data), int64(len(data)))
	if err != nil {
		p.ZipErr = err.Error()
		return p
	}
	for _, f := range zr.File {
		rc, err := f.Open()
		if err != nil {
			p.ZipErr = fmt.Sprintf("entry %q: %v", f.Name, err)
			return p
		}
		b, err := io.ReadAll(rc)
		rc.Close()
		if err != nil {
			p.ZipErr = fmt.Sprintf("entry %q: %v", f.Name, err)
			return p
		}
		if _, dup := p.Parts[f.Name]; dup {
			p.Dups = append(p.Dups, f.Name)
		}
		p.Names = append(p.Names, f.Name)
		p.Parts[f.Name] = b
	}
	parse := func(name string) *pkgmodel.Node {
		b, ok := p.Parts[name]
		if !ok {
			return nil
		}
		root, probs := pkgmodel.ParseXML(b)
		if len(probs) > 0 {
			p.XMLProbs[name] = probs
		}
		if root != nil {
			p.XML[name] = root
		}
		return root
	}
	rels := func(name string) {
		root := parse(name)
		if root == nil {
			return
		}
		var out []pkgmodel.Rel
		for _, r := range root.Children(pkgmodel.NsRel, "Relationship") {
			var rel pkgmodel.Rel
			rel.ID, _ = r.Attr("", "Id")
			rel.Type, _ = r.Attr("", "Type")
			rel.Target, _ = r.Attr("", "Target")
			rel.Mode, _ = r.Attr("", "TargetMode")
			if rel.Mode != "External" {
				rel.Resolved = pkgmodel.ResolveTarget(name, rel.Target)
			}
			out = append(out, rel)
		}
		p.Rels[name] = out
	}
	rels("_rels/.rels")
	if m := p.MainPart(); m != "" {
		parse(m)
		rels(pkgmodel.RelsNameFor(m))
	}
	return p
}

// who says which known payload the bytes are ("" if none).
func c10Who(b []byte, pics []*c10Pic) string {
	for _, p := range pics {
		if bytes.Equal(p.Payload, b) {
			return p.Place
		}
	}
	for op := range c10Ops[:c10SeedBase] {
		switch c10Ops[op].kind {
		case "body", "cell", "tpl", "tplcell":
			if bytes.Equal(c10Payload(op), b) {
				return "never-added"
			}
		}
	}
	return ""
}

type c10Seen struct {
	part  string
	bytes []byte
	ok    bool
}

func c10CheckPackage(pkg *pkgmodel.Pkg, pics []*c10Pic, lastKind string) []rep.Violation {
	var out []rep.Violation
	add := func(sig, clause, what string) {
		out = append(out, rep.Violation{Sig: sig, Clause: clause, What: what})
	}
	if pkg.ZipErr != "" {
		add("saved-package-unreadable", "save", pkg.ZipErr)
		return out
	}
	body := pkg.Body()
	if body == nil {
		add("saved-body-missing|after-"+lastKind, "save", "no w:body in the main part")
		return out
	}
	main := pkg.MainPart()
	rels := pkg.Rels[pkgmodel.RelsNameFor(main)]
	drawings := body.Find(pkgmodel.NsW, "drawing")

	// resolve every drawing first
	type res struct {
		embed   string
		cands   []pkgmodel.Rel
		problem string // unresolved reason
		part    string
		data    []byte
	}
	rs := make([]res, len(drawings))
	for k, d := range drawings {
		r := &rs[k]
		blips := d.Find(pkgmodel.NsA, "blip")
		if len(blips) != 1 {
			r.problem = fmt.Sprintf("drawing-has-%d-blips", len(blips))
			continue
		}
		id, ok := blips[0].Attr(pkgmodel.NsR, "embed")
		if !ok || id == "" {
			r.problem = "blip-without-embed"
			continue
		}
		r.embed = id
		for _, rel := range rels {
			if rel.ID == id {
				r.cands = append(r.cands, rel)
			}
		}
		if len(r.cands) == 0 {
			r.problem = "no-relationship"
		}
	}

	if len(drawings) != len(pics) {
		// which expected pictures are not shown by any drawing (multiset difference on the resolved bytes)
		shown := map[string]int{}
		for k := range rs {
			for _, c := range rs[k].cands {
				if c.Mode != "External" {
					if b, ok := pkg.Parts[c.Resolved]; ok {
						shown[c10Hash(b)]++
						break
					}
				}
			}
		}
		dir := "fewer"
		if len(drawings) > len(pics) {
			dir = "more"
		}
		culprit := ""
		for _, p := range pics {
			h := c10Hash(p.Payload)
			if shown[h] > 0 {
				shown[h]--
				continue
			}
			if culprit == "" {
				culprit = p.Place + "+" + p.lived()
			}
		}
		if culprit == "" {
			culprit = "none-missing"
		}
		add("picture-count|"+dir+"|missing="+culprit+"|after-"+lastKind, "picture-count",
			fmt.Sprintf("%d drawings in the saved body, %d pictures were added (first picture not shown: %s)", len(drawings), len(pics), culprit))
		return out
	}

	lower := map[string][]string{}
	for _, n := range pkg.Names {
		l := strings.ToLower(n)
		lower[l] = append(lower[l], n)
	}

	for k, p := range pics {
		r := &rs[k]
		d := drawings[k]
		victim := p.Place + "+" + p.lived()
		desc := fmt.Sprintf("picture %d of %d (%s", k+1, len(pics), p.Place)
		if p.Op >= 0 {
			desc += ": " + c10Ops[p.Op].name
		}
		desc += ", " + p.lived() + ")"
		if r.problem != "" {
			add("unresolved|"+r.problem+"|"+victim, "unresolved", desc+": "+r.problem+" (r:embed="+strconv.Quote(r.embed)+")")
		}
		// every relationship with that id must lead to the picture's bytes
		seenWrong := map[string]bool{}
		for _, c := range r.cands {
			var why string
			switch {
			case c.Type != pkgmodel.RtImage:
				why = "wrong-relationship-type"
			case c.Mode == "External":
				why = "external-target"
			}
			if why != "" {
				if !seenWrong[why] {
					add("unresolved|"+why+"|"+victim, "unresolved", fmt.Sprintf("%s: r:embed=%q -> %s %s", desc, r.embed, c.Type, c.Target))
				}
				seenWrong[why] = true
				continue
			}
			b, ok := pkg.Parts[c.Resolved]
			if !ok {
				if !seenWrong["target-missing"] {
					add("unresolved|target-missing|"+victim, "unresolved", fmt.Sprintf("%s: r:embed=%q -> %s, no such part", desc, r.embed, c.Resolved))
				}
				seenWrong["target-missing"] = true
				continue
			}
			if !bytes.Equal(b, p.Payload) {
				who := c10Who(b, pics)
				switch who {
				case "":
					who = "modified-or-unknown-bytes"
				case "never-added":
				default:
					who = "another-picture-of-the-document"
				}
				mech := "own-part"
				for k2 := range rs {
					for _, c2 := range rs[k2].cands {
						if k2 != k && c2.Resolved == c.Resolved && c2.Mode != "External" {
							mech = "part-shared-with-another-picture"
						}
					}
				}
				if len(r.cands) > 1 {
					mech = "duplicate-relationship-id"
				}
				key := "shows|" + who + "|" + mech
				if !seenWrong[key] {
					add("wrong-bytes|victim="+victim+"|shows="+who+"|"+mech, "wrong-bytes",
						fmt.Sprintf("%s: r:embed=%q -> %s holds %d bytes (%s) of %s, the picture was given %d bytes (%s)", desc, r.embed, c.Resolved, len(b), c10Hash(b), who, len(p.Payload), c10Hash(p.Payload)))
				}
				seenWrong[key] = true
				continue
			}
			// the right bytes; is the part name unique under OPC part-name equivalence (ASCII case-insensitive)?
			for _, other := range lower[strings.ToLower(c.Resolved)] {
				if other != c.Resolved && !bytes.Equal(pkg.Parts[other], p.Payload) && !seenWrong["case"] {
					seenWrong["case"] = true
					add("ambiguous-part-name|differs-only-by-case", "ambiguous-part-name",
						fmt.Sprintf("%s resolves to %s, but the package also holds %s with other bytes; OPC part names are equivalent when they differ only by case", desc, c.Resolved, other))
				}
			}
			for _, dup := range pkg.Dups {
				if dup == c.Resolved && !seenWrong["dup"] {
					seenWrong["dup"] = true
					add("ambiguous-part-name|duplicate-zip-entry", "ambiguous-part-name", desc+": "+c.Resolved+" is stored twice in the archive")
				}
			}
		}
		if !p.Judged {
			continue
		}
		// extent
		place := p.Place
		type ext struct {
			name   string
			cx, cy int64
			ok     bool
			why    string
		}
		var exts []ext
		rd := func(name string, n *pkgmodel.Node, count int) ext {
			e := ext{name: name}
			if count != 1 || n == nil {
				e.why = fmt.Sprintf("%d elements", count)
				return e
			}
			sx, okx := n.Attr("", "cx")
			sy, oky := n.Attr("", "cy")
			x, ex := strconv.ParseInt(sx, 10, 64)
			y, ey := strconv.ParseInt(sy, 10, 64)
			if !okx || !oky || ex != nil || ey != nil {
				e.why = fmt.Sprintf("cx=%q cy=%q", sx, sy)
				return e
			}
			e.cx, e.cy, e.ok = x, y, true
			return e
		}
		we := d.Find(pkgmodel.NsWP, "extent")
		var w0 *pkgmodel.Node
		if len(we) > 0 {
			w0 = we[0]
		}
		exts = append(exts, rd("wp:extent", w0, len(we)))
		var ae []*pkgmodel.Node
		for _, sp := range d.Find(pkgmodel.NsPic, "spPr") {
			if x := sp.Child(pkgmodel.NsA, "xfrm"); x != nil {
				ae = append(ae, x.Children(pkgmodel.NsA, "ext")...)
			}
		}
		var a0 *pkgmodel.Node
		if len(ae) > 0 {
			a0 = ae[0]
		}
		exts = append(exts, rd("a:ext", a0, len(ae)))
		var badNames, badAxis []string
		var whatParts []string
		for _, e := range exts {
			if !e.ok {
				add("extent-missing|"+e.name+"|"+place+"+"+p.lived(), "extent", fmt.Sprintf("%s: %s missing or unreadable (%s)", desc, e.name, e.why))
				continue
			}
			ok, axis, want := c10ExtentOK(p, e.cx, e.cy)
			if !ok {
				badNames = append(badNames, e.name)
				badAxis = append(badAxis, axis)
				whatParts = append(whatParts, fmt.Sprintf("%s is %d×%d, the rule for %s on %dx%d px gives %s", e.name, e.cx, e.cy, p.Size.String(), p.PW, p.PH, want))
			}
		}
		if len(badNames) > 0 {
			axis := badAxis[0]
			for _, a := range badAxis[1:] {
				if a != axis {
					axis = "cx+cy"
				}
			}
			stage := "at-add"
			if !p.OffAtAdd {
				stage = "after-add+" + p.lived() // the in-memory drawing was right after the call: changed by save, reopen or render
			}
			add("extent|"+p.Size.Mode+"|"+place+"|"+strings.Join(badNames, "+")+"|"+axis+"|"+stage, "extent", desc+": "+strings.Join(whatParts, "; "))
		}
	}
	return out
}

func runC10(r *rep.Run) {
	depth := 3
	if r.Tier == "thorough" {
		depth = 4
	}
	if v, err := strconv.Atoi(os.Getenv("VERIF_C10_DEPTH")); err == nil && v > 0 {
		depth = v // development override; the bound actually used is recorded in the evidence
	}
	r.Rule = "BFS over histories from a fresh document (depth d) and, with a foreign package whose pictures use sparse/unusual media names and relationship ids opened as the first step, d-1 further operations: picture-adding calls — AddImageFromData / AddImageFromFile in the body, AddTable+AddCellImage (data and file path), template placeholder {{#image}} in a paragraph or a cell rendered with SetImageFromData/SetImage/SetImageWithDetails(alt text, title) — over PNG 2x1, JPEG 4x2, GIF 3x3, PNG 1x2 with a distinct payload per alphabet entry, names {a.png used for four different payloads, 图.jpg, noext, misleading x.gif}, size configurations {none, 0×0, W×H, W keep-aspect, H keep-aspect, W without keep (extent not judged), floating W×H} (each name with the default size and each size with one name, per placement), interleaved with AddHeader, AddListItem and reopen = OpenFromMemory(ToBytes()); every distinct state is saved and judged on the saved package by the independent reader: the i-th w:drawing in document order has one a:blip whose r:embed resolves through every relationship of that id in the main part's rels (type image, internal) to a part whose bytes equal the i-th picture's payload (seed pictures: the seed's bytes), no other part with a name that differs only by case holds other bytes, and wp:extent and pic:spPr/a:xfrm/a:ext equal the value of an independent integer implementation of the sizing rules; non-trivial = a step that added a picture or reopened/opened a document that has pictures"
	r.Bounds["depth"] = depth
	r.Bounds["operations_after_a_foreign_seed"] = depth - 1
	r.Bounds["alphabet_without_seeds"] = c10SeedBase
	r.Bounds["foreign_seeds"] = len(c10Seeds)
	r.Bounds["max_reopen_per_history"] = 2
	r.Bounds["max_AddHeader_per_history"] = 2
	r.Bounds["max_AddListItem_per_history"] = 1
	r.Bounds["extent_tolerance_emu"] = 1
	r.Assume = []string{
		"sizes are given in hundredths of a millimetre so that the expected EMU value is an exact integer; the given dimension may deviate by 1 EMU (float truncation), the derived dimension by 1 EMU from (exact or emitted given dimension) × pixel aspect ratio; the pixel-size rule is integer arithmetic and is compared exactly",
		"a size record whose width and height are both 0 is read as 'no size requested' (pixel size at 96 dpi)",
		"one dimension without the keep-aspect flag is executed but its extent is not judged (the statement names no rule for it)",
		"the extent of pictures that came with a foreign seed is not judged (no size was requested through the library); their bytes are",
		"every call appends at the end of the body, so the i-th drawing in document order is the i-th picture added",
		"the content type of media parts belongs to C01 and is not judged here",
	}
	// the payloads identify the call: they must be pairwise distinct
	seen := map[string]string{}
	chk := func(name string, b []byte) {
		h := c10Hash(b)
		if o, dup := seen[h]; dup {
			q := rep.NewPartial()
			q.HarnessErrs = append(q.HarnessErrs, fmt.Sprintf("payloads of %q and %q are equal", o, name))
			r.Merge(q)
		}
		seen[h] = name
	}
	for op, o := range c10Ops[:c10SeedBase] {
		switch o.kind {
		case "body", "cell", "tpl", "tplcell", "tplfail":
			chk(o.name, c10Payload(op))
		}
	}
	chk("second picture of the repaired data", c10TplFailSecond())
	for si, sd := range c10Seeds {
		for k := range sd.pics {
			chk(fmt.Sprintf("%s#%d", sd.name, k), c10SeedPayload(si, k))
		}
	}
	r.Merge(seqx.Search("C10", seqx.Opts{Depth: depth, Deadline: r.Deadline}))
}
