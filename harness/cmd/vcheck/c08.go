package main

// C08 — body editing behaves like an ordered list of elements.
//
// Explicit-state BFS over append / ensure-section / remove histories of the
// real Document, in lock-step with a plain list model (DESIGN A.1).

import (
	"encoding/json"
	"fmt"
	"strings"

	"github.com/zerx-lab/wordZero/pkg/document"

	"verif/harness/internal/pkgmodel"
	"verif/harness/internal/rep"
	"verif/harness/internal/seqx"
)

const c08MaxN = 20

type c08Op struct {
	name string
	kind string // "add" | "sect" | "rmParaAt" | "rmElemAt" | "rmLive" | "rmStale" | "rmForeign" | "rmNil" | "toc"
	arg  int
	add  func(i *c08Inst, tok string) (ret *document.Paragraph, wantParas int, others string)
}

type c08El struct {
	ptr interface{}
	tok string
}

type c08Inst struct {
	doc     *document.Document
	other   *document.Document
	foreign *document.Paragraph
	model   []c08El
	stale   []*document.Paragraph
	tokN    int
	saved   bool
	lastNT  bool
	toks    map[interface{}]string
}

var c08Ops []c08Op

func init() {
	add := func(name string, f func(i *c08Inst, tok string) (*document.Paragraph, int, string)) {
		c08Ops = append(c08Ops, c08Op{name: name, kind: "add", add: f})
	}
	add("AddParagraph", func(i *c08Inst, tok string) (*document.Paragraph, int, string) {
		return i.doc.AddParagraph(tok), 1, ""
	})
	add("AddFormattedParagraph", func(i *c08Inst, tok string) (*document.Paragraph, int, string) {
		return i.doc.AddFormattedParagraph(tok, &document.TextFormat{Bold: true}), 1, ""
	})
	add("AddHeadingParagraph", func(i *c08Inst, tok string) (*document.Paragraph, int, string) {
		return i.doc.AddHeadingParagraph(tok, 1), 1, ""
	})
	add("AddHeadingParagraphWithBookmark", func(i *c08Inst, tok string) (*document.Paragraph, int, string) {
		return i.doc.AddHeadingParagraphWithBookmark(tok, 2, "bm"+tok), 1, "bookmark"
	})
	add("AddPageBreak", func(i *c08Inst, tok string) (*document.Paragraph, int, string) {
		i.doc.AddPageBreak()
		return nil, 1, ""
	})
	add("AddTable", func(i *c08Inst, tok string) (*document.Paragraph, int, string) {
		i.doc.AddTable(&document.TableConfig{Rows: 1, Cols: 1, Width: 4000, Data: [][]string{{tok}}})
		return nil, 0, "tbl"
	})
	add("AddImageFromData", func(i *c08Inst, tok string) (*document.Paragraph, int, string) {
		i.doc.AddImageFromData(pngBytes(2, 1, 7), "a.png", document.ImageFormatPNG, 2, 1, nil)
		return nil, 1, ""
	})
	add("AddListItem", func(i *c08Inst, tok string) (*document.Paragraph, int, string) {
		return i.doc.AddListItem(tok, &document.ListConfig{Type: document.ListTypeBullet, BulletSymbol: document.BulletTypeDot}), 1, ""
	})
	add("AddFootnote", func(i *c08Inst, tok string) (*document.Paragraph, int, string) {
		i.doc.AddFootnote(tok, "note")
		return nil, 1, ""
	})
	add("AddEndnote", func(i *c08Inst, tok string) (*document.Paragraph, int, string) {
		i.doc.AddEndnote(tok, "note")
		return nil, 1, ""
	})
	// calls with arguments a library may refuse: when the call reports an error nothing may have been appended
	// (wantParas -1); when it reports success it is an ordinary append
	add("AddFootnote(text, blank note text)", func(i *c08Inst, tok string) (*document.Paragraph, int, string) {
		if err := i.doc.AddFootnote(tok, "  "); err != nil {
			return nil, -1, ""
		}
		return nil, 1, ""
	})
	add("AddEndnote(text, empty note text)", func(i *c08Inst, tok string) (*document.Paragraph, int, string) {
		if err := i.doc.AddEndnote(tok, ""); err != nil {
			return nil, -1, ""
		}
		return nil, 1, ""
	})
	add("AddImageFromData(format bmp)", func(i *c08Inst, tok string) (*document.Paragraph, int, string) {
		if _, err := i.doc.AddImageFromData(pngBytes(2, 1, 7), "a.bmp", document.ImageFormat("bmp"), 2, 1, nil); err != nil {
			return nil, -1, ""
		}
		return nil, 1, ""
	})
	add("AddTable(0 rows)", func(i *c08Inst, tok string) (*document.Paragraph, int, string) {
		if _, err := i.doc.AddTable(&document.TableConfig{Rows: 0, Cols: 2, Width: 4000}); err != nil {
			return nil, -1, ""
		}
		return nil, 0, "tbl"
	})
	add("AddMathFormula", func(i *c08Inst, tok string) (*document.Paragraph, int, string) {
		i.doc.AddMathFormula("<m:r><m:t>"+tok+"</m:t></m:r>", true)
		return nil, 0, "math"
	})
	c08Ops = append(c08Ops, c08Op{name: "GenerateTOC", kind: "toc"})
	c08Ops = append(c08Ops,
		c08Op{name: "SetPageMargins", kind: "sect", arg: 0},
		c08Op{name: "GetPageSettings", kind: "sect", arg: 1},
		c08Op{name: "AddHeader", kind: "sect", arg: 2},
		c08Op{name: "AddFooterWithPageNumber", kind: "sect", arg: 3},
		c08Op{name: "SetPageOrientation", kind: "sect", arg: 4},
	)
	c08Ops = append(c08Ops, c08Op{name: "ToBytes", kind: "save"})
	c08Ops = append(c08Ops, c08Op{name: "work on another document (build, save, reopen, render as template)", kind: "other"})
	c08Ops = append(c08Ops, c08Op{name: "RemoveParagraph(nil)", kind: "rmNil"},
		c08Op{name: "RemoveParagraph(foreign)", kind: "rmForeign"},
		c08Op{name: "RemoveParagraph(stale)", kind: "rmStale"})
	for i := -1; i <= c08MaxN+1; i++ {
		c08Ops = append(c08Ops, c08Op{name: fmt.Sprintf("RemoveParagraphAt(%d)", i), kind: "rmParaAt", arg: i})
	}
	for i := -1; i <= c08MaxN+1; i++ {
		c08Ops = append(c08Ops, c08Op{name: fmt.Sprintf("RemoveElementAt(%d)", i), kind: "rmElemAt", arg: i})
	}
	for i := 0; i < c08MaxN; i++ {
		c08Ops = append(c08Ops, c08Op{name: fmt.Sprintf("RemoveParagraph(GetParagraphs()[%d])", i), kind: "rmLive", arg: i})
	}
	names := make([]string, len(c08Ops))
	for i, o := range c08Ops {
		names[i] = o.name
	}
	seqx.Register(&seqx.Spec{Name: "C08", Ops: names, New: func(args json.RawMessage) seqx.Inst {
		document.VerifResetGlobals()
		other := document.New()
		return &c08Inst{doc: document.New(), other: other, foreign: other.AddParagraph("foreign"), toks: map[interface{}]string{}}
	}})
	register("C08", "model_checking", runC08)
}

func (i *c08Inst) nParas() int {
	n := 0
	for _, e := range i.model {
		if _, ok := e.ptr.(*document.Paragraph); ok {
			n++
		}
	}
	return n
}

func (i *c08Inst) Enabled(op int) bool {
	o := c08Ops[op]
	switch o.kind {
	case "rmParaAt":
		return o.arg <= i.nParas()+1
	case "rmElemAt":
		return o.arg <= len(i.model)+1
	case "rmLive":
		return o.arg < i.nParas()
	case "rmStale":
		return len(i.stale) > 0
	}
	return true
}

func (i *c08Inst) Nontrivial() bool { return i.lastNT }

func (i *c08Inst) viol(clause, opname, what string) rep.Violation {
	return rep.Violation{Sig: clause + "|" + opClass(opname), Clause: clause, What: opname + ": " + what}
}

// opClass strips arguments from an operation name.
func opClass(n string) string {
	if k := strings.Index(n, "("); k >= 0 {
		return n[:k]
	}
	return n
}

func (i *c08Inst) dumpImpl() string {
	var b strings.Builder
	for _, e := range i.doc.Body.Elements {
		b.WriteString(kindOf(e))
		b.WriteByte(' ')
	}
	return b.String()
}

func (i *c08Inst) dumpModel() string {
	var b strings.Builder
	for _, e := range i.model {
		b.WriteString(kindOf(e.ptr))
		b.WriteByte(' ')
	}
	return b.String()
}

// compare checks the implementation's element list against the model by identity.
func (i *c08Inst) compare(opname string) []rep.Violation {
	var out []rep.Violation
	els := i.doc.Body.Elements
	same := len(els) == len(i.model)
	if same {
		for k := range els {
			if els[k] != i.model[k].ptr {
				same = false
				break
			}
		}
	}
	if !same {
		out = append(out, i.viol("list-differs-from-model", opname, "elements ["+i.dumpImpl()+"] model ["+i.dumpModel()+"]"))
		// resynchronise the model on the implementation so that later steps are judged on their own
		i.resync()
	}
	// accessors
	var wantP []*document.Paragraph
	var wantT []*document.Table
	for _, e := range els {
		switch x := e.(type) {
		case *document.Paragraph:
			wantP = append(wantP, x)
		case *document.Table:
			wantT = append(wantT, x)
		}
	}
	gotP := i.doc.Body.GetParagraphs()
	gotT := i.doc.Body.GetTables()
	okP := len(gotP) == len(wantP)
	for k := 0; okP && k < len(gotP); k++ {
		okP = gotP[k] == wantP[k]
	}
	okT := len(gotT) == len(wantT)
	for k := 0; okT && k < len(gotT); k++ {
		okT = gotT[k] == wantT[k]
	}
	if !okP {
		out = append(out, i.viol("GetParagraphs-disagrees", opname, fmt.Sprintf("%d vs %d paragraphs in Elements", len(gotP), len(wantP))))
	}
	if !okT {
		out = append(out, i.viol("GetTables-disagrees", opname, fmt.Sprintf("%d vs %d tables in Elements", len(gotT), len(wantT))))
	}
	return out
}

func (i *c08Inst) resync() {
	var m []c08El
	for _, e := range i.doc.Body.Elements {
		m = append(m, c08El{ptr: e, tok: i.toks[e]})
	}
	i.model = m
}

func (i *c08Inst) Apply(op int) (string, []rep.Violation) {
	o := c08Ops[op]
	i.lastNT = false
	var viol []rep.Violation
	before := append([]c08El{}, i.model...)
	prefixOK := func() (newEls []interface{}, ok bool) {
		els := i.doc.Body.Elements
		if len(els) < len(before) {
			return nil, false
		}
		for k := range before {
			if els[k] != before[k].ptr {
				return nil, false
			}
		}
		return els[len(before):], true
	}
	switch o.kind {
	case "add":
		i.tokN++
		tok := fmt.Sprintf("T%d", i.tokN)
		var ret *document.Paragraph
		var wantParas int
		var others string
		if p := guard(func() { ret, wantParas, others = o.add(i, tok) }); p != "" {
			i.resync()
			return "panic", []rep.Violation{i.viol("panic|"+panicClass(p), o.name, p)}
		}
		newEls, ok := prefixOK()
		if !ok {
			viol = append(viol, i.viol("append-disturbed-existing", o.name, "before ["+i.dumpModel()+"] after ["+i.dumpImpl()+"]"))
			i.resync()
			return "disturbed", viol
		}
		if wantParas == -1 {
			// the call reported failure
			if len(newEls) != 0 {
				viol = append(viol, i.viol("refused-call-changed-the-body", o.name, fmt.Sprintf("the call returned an error, yet %d element(s) were appended: before [%s] after [%s]", len(newEls), i.dumpModel(), i.dumpImpl())))
				i.resync()
				return "refused-not-atomic", viol
			}
			return "refused", viol
		}
		if len(newEls) == 0 {
			viol = append(viol, i.viol("append-added-nothing", o.name, "no new element at the end"))
		}
		nP, nT, nM, nOther := 0, 0, 0, 0
		retFound := ret == nil
		for _, e := range newEls {
			switch x := e.(type) {
			case *document.Paragraph:
				nP++
				if x == ret {
					retFound = true
				}
			case *document.Table:
				nT++
			case *document.MathParagraph:
				nM++
			case *document.BookmarkStart, *document.BookmarkEnd:
				if others != "bookmark" {
					nOther++
				}
			default:
				nOther++
			}
		}
		wantT, wantM := 0, 0
		if others == "tbl" {
			wantT = 1
		}
		if others == "math" {
			wantM = 1
		}
		if len(newEls) > 0 && (nP != wantParas || nT != wantT || nM != wantM || nOther != 0) {
			kinds := ""
			for _, e := range newEls {
				kinds += kindOf(e) + " "
			}
			viol = append(viol, i.viol("append-wrong-content", o.name, fmt.Sprintf("new elements [%s]", kinds)))
		}
		if !retFound {
			viol = append(viol, i.viol("returned-handle-not-appended", o.name, "the returned paragraph is not among the new elements"))
		}
		for _, e := range newEls {
			// what is appended is new content: never an object the body (or an earlier state of it) already holds
			if _, seen := i.toks[e]; seen {
				viol = append(viol, i.viol("append-reuses-an-existing-element", o.name, "the appended "+kindOf(e)+" is the same object as an element appended earlier"))
			}
			t := ""
			switch e.(type) {
			case *document.Paragraph, *document.Table, *document.MathParagraph:
				if o.name != "AddPageBreak" && o.name != "AddImageFromData" {
					t = tok
				}
			}
			i.toks[e] = t
			i.model = append(i.model, c08El{ptr: e, tok: t})
		}
		i.lastNT = true
		viol = append(viol, i.compare(o.name)...)
		return "appended", viol
	case "other":
		// somebody else's document: this one's body must stay as it is
		if p := interfere(); p != "" {
			return "panic", []rep.Violation{i.viol("panic|"+panicClass(p), o.name, p)}
		}
		viol = append(viol, i.compare(o.name)...)
		return "other-document", viol
	case "save":
		// serialising is an observation: it must not change the body
		var err error
		if p := guard(func() { _, err = i.doc.ToBytes() }); p != "" {
			i.resync()
			return "panic", []rep.Violation{i.viol("panic|"+panicClass(p), o.name, p)}
		}
		if err != nil {
			viol = append(viol, i.viol("unexpected-error", o.name, err.Error()))
		}
		i.saved = true
		viol = append(viol, i.compare(o.name)...)
		return "saved", viol
	case "toc":
		// not one of the appends the statement lists: only the frame condition is demanded
		if p := guard(func() { i.doc.GenerateTOC(&document.TOCConfig{Title: "TOC", MaxLevel: 3}) }); p != "" {
			i.resync()
			return "panic", []rep.Violation{i.viol("panic|"+panicClass(p), o.name, p)}
		}
		pos := 0
		for _, e := range i.doc.Body.Elements {
			if pos < len(before) && e == before[pos].ptr {
				pos++
			}
		}
		if pos != len(before) {
			viol = append(viol, i.viol("existing-elements-disturbed", o.name, "before ["+i.dumpModel()+"] after ["+i.dumpImpl()+"]"))
		}
		i.resync()
		i.lastNT = true
		return "toc", viol
	case "sect":
		hadSect := false
		for _, e := range before {
			if _, ok := e.ptr.(*document.SectionProperties); ok {
				hadSect = true
			}
		}
		var err error
		if p := guard(func() {
			switch o.arg {
			case 0:
				err = i.doc.SetPageMargins(10, 10, 10, 10)
			case 1:
				i.doc.GetPageSettings()
			case 2:
				err = i.doc.AddHeader(document.HeaderFooterTypeDefault, "h")
			case 3:
				err = i.doc.AddFooterWithPageNumber(document.HeaderFooterTypeDefault, "f", true)
			case 4:
				err = i.doc.SetPageOrientation(document.OrientationLandscape)
			}
		}); p != "" {
			i.resync()
			return "panic", []rep.Violation{i.viol("panic|"+panicClass(p), o.name, p)}
		}
		if err != nil {
			viol = append(viol, i.viol("unexpected-error", o.name, err.Error()))
		}
		newEls, ok := prefixOK()
		if !ok {
			viol = append(viol, i.viol("section-call-disturbed-existing", o.name, "before ["+i.dumpModel()+"] after ["+i.dumpImpl()+"]"))
			i.resync()
			return "disturbed", viol
		}
		for _, e := range newEls {
			if _, ok := e.(*document.SectionProperties); !ok || hadSect {
				viol = append(viol, i.viol("section-call-added-content", o.name, "added "+kindOf(e)+fmt.Sprintf(" (section settings existed: %v)", hadSect)))
			}
			hadSect = true
			i.model = append(i.model, c08El{ptr: e})
		}
		i.lastNT = len(newEls) > 0
		if o.arg != 1 && err == nil {
			// a page-setting or header/footer call that succeeded leaves the body with its section settings, exactly once
			n := 0
			for _, e := range i.doc.Body.Elements {
				if _, ok := e.(*document.SectionProperties); ok {
					n++
				}
			}
			if n != 1 {
				viol = append(viol, i.viol("section-settings-count-after-setter", o.name, fmt.Sprintf("the body holds %d section settings elements after a successful call [%s]", n, i.dumpImpl())))
			}
		}
		viol = append(viol, i.compare(o.name)...)
		if len(newEls) > 0 {
			return "created-sect", viol
		}
		return "kept", viol
	}
	// removals
	var target = -1
	var handle *document.Paragraph
	switch o.kind {
	case "rmParaAt":
		if o.arg >= 0 {
			n := 0
			for k, e := range i.model {
				if _, ok := e.ptr.(*document.Paragraph); ok {
					if n == o.arg {
						target = k
						break
					}
					n++
				}
			}
		}
	case "rmElemAt":
		if o.arg >= 0 && o.arg < len(i.model) {
			target = o.arg
		}
	case "rmLive":
		n := 0
		for k, e := range i.model {
			if p, ok := e.ptr.(*document.Paragraph); ok {
				if n == o.arg {
					target = k
					handle = p
					break
				}
				n++
			}
		}
	case "rmStale":
		handle = i.stale[0]
	case "rmForeign":
		handle = i.foreign
	case "rmNil":
		handle = nil
	}
	var got bool
	if p := guard(func() {
		switch o.kind {
		case "rmParaAt":
			got = i.doc.RemoveParagraphAt(o.arg)
		case "rmElemAt":
			got = i.doc.RemoveElementAt(o.arg)
		default:
			got = i.doc.RemoveParagraph(handle)
		}
	}); p != "" {
		i.resync()
		return "panic", []rep.Violation{i.viol("panic|"+panicClass(p), o.name, p)}
	}
	want := target >= 0
	if want {
		if p, ok := i.model[target].ptr.(*document.Paragraph); ok {
			i.stale = append(i.stale, p)
		}
		i.model = append(append([]c08El{}, i.model[:target]...), i.model[target+1:]...)
		i.lastNT = true
	}
	if got != want {
		viol = append(viol, i.viol("remove-return-value", o.name, fmt.Sprintf("returned %v, model %v", got, want)))
	}
	viol = append(viol, i.compare(o.name)...)
	if want {
		return "removed", viol
	}
	return "refused", viol
}

func (i *c08Inst) Key() string {
	var b strings.Builder
	for _, e := range i.model {
		b.WriteString(kindOf(e.ptr))
		b.WriteByte(',')
	}
	if len(i.stale) > 0 {
		b.WriteString("|stale")
	}
	if i.saved {
		b.WriteString("|saved") // a serialisation happened earlier in the history
	}
	// section settings content can differ (margins/header set or not) but no operation's effect on the list depends on it.
	// The shallow fingerprint of the Document's own fields (counters, lengths, nil-ness, computed by reflection)
	// keeps histories apart whose hidden state differs.
	b.WriteString("|" + rep.Hash(i.doc.VerifShallowState()))
	return b.String()
}

// Deep: the saved main part lists the elements in model order, section settings exactly once, last.
func (i *c08Inst) Deep() []rep.Violation {
	var out []rep.Violation
	pkg, _, errS := saveRead(i.doc)
	if errS != "" {
		return []rep.Violation{{Sig: "save-failed", Clause: "save-failed", What: errS}}
	}
	body := pkg.Body()
	if body == nil {
		return []rep.Violation{{Sig: "saved-body-missing", Clause: "saved-body-missing", What: strings.Join(pkg.XMLProbs["word/document.xml"], ";")}}
	}
	type ex struct{ kind, tok string }
	var want []ex
	hasSect := false
	for _, e := range i.model {
		k := kindOf(e.ptr)
		if k == "sectPr" {
			hasSect = true
			continue
		}
		if k == "math" {
			k = "p"
		}
		want = append(want, ex{k, e.tok})
	}
	if hasSect {
		want = append(want, ex{"sectPr", ""})
	}
	var got []ex
	for _, c := range body.Elems() {
		got = append(got, ex{c.Local, c.WText() + mathText(c)})
	}
	ok := len(got) == len(want)
	for k := 0; ok && k < len(got); k++ {
		if got[k].kind != want[k].kind {
			ok = false
		}
		if want[k].tok != "" && !strings.Contains(got[k].tok, want[k].tok) {
			ok = false
		}
	}
	// saving is read-only: the in-memory list still equals the model, and a second save gives the same order
	if v := i.compare("ToBytes(deep)"); len(v) > 0 {
		out = append(out, v...)
	}
	if pkg2, _, e2 := saveRead(i.doc); e2 == "" && pkg2.Body() != nil {
		var got2 []ex
		for _, c := range pkg2.Body().Elems() {
			got2 = append(got2, ex{c.Local, c.WText() + mathText(c)})
		}
		if fmt.Sprint(got2) != fmt.Sprint(got) {
			out = append(out, rep.Violation{Sig: "second-save-differs", Clause: "second-save-differs", What: fmt.Sprintf("first save %v, second save %v", got, got2)})
		}
	}
	if !ok {
		nSect := 0
		lastIsSect := len(got) > 0 && got[len(got)-1].kind == "sectPr"
		for _, g := range got {
			if g.kind == "sectPr" {
				nSect++
			}
		}
		clause := "saved-order-differs"
		if hasSect && (nSect != 1 || !lastIsSect) {
			clause = "saved-sectPr-not-once-last"
		}
		out = append(out, rep.Violation{Sig: clause, Clause: clause, What: fmt.Sprintf("saved %v, model %v", got, want)})
	}
	return out
}

func mathText(n *pkgmodel.Node) string {
	var b strings.Builder
	for _, t := range n.Find(pkgmodel.NsM, "t") {
		b.WriteString(t.InnerText())
	}
	return b.String()
}

func runC08(r *rep.Run) {
	depth := 4
	if r.Tier == "thorough" {
		depth = 6
	}
	r.Rule = "BFS over histories of append (12 kinds), section-creating (5) and remove (by handle: live/stale/foreign/nil; by paragraph index and by element index, every index in -1..n+1) operations on a real Document, in lock-step with a plain list model; state key = sequence of element kinds (+ whether a stale handle exists) + a reflective shallow fingerprint of the Document's own fields (counters, lengths, nil-ness), and every history of <= 2 operations is executed whatever the key merges; non-trivial = a step that changed the list; each distinct state is saved and its w:body child order compared with the model"
	r.Bounds["depth"] = depth
	r.Bounds["histories_expanded_without_state_merging_up_to_length"] = 1
	r.Bounds["alphabet"] = len(c08Ops)
	r.Assume = []string{"state key drops paragraph text and section-settings content: no list operation depends on them", "GenerateTOC is outside the statement's list of appends: only the frame condition is demanded of it"}
	p := seqx.Search("C08", seqx.Opts{Depth: depth, Deadline: r.Deadline, FullDepth: 1})
	r.Merge(p)
}
