package main

// C12 — page-setting calls change only what they name, and settings read back as set.

import (
	"encoding/json"
	"fmt"
	"math"
	"strconv"
	"strings"

	"github.com/zerx-lab/wordZero/pkg/document"

	"verif/harness/internal/pkgmodel"
	"verif/harness/internal/rep"
	"verif/harness/internal/seqx"
)

const twipMM = 1.0 / 56.692913385827

type c12Grid struct {
	Typ          string
	Pitch, Chars int
}

// c12S is the reference settings record (DESIGN A.3).
type c12S struct {
	Std                string // standard size name, "" when custom
	CW, CH             float64
	Land               bool
	MT, MR, MB, ML     float64
	Hdr, Ftr, Gut      float64
	Grid               c12Grid
	GridCleared        bool
	Touched            bool // any successful setter so far (a fresh document reads as defaults)
}

func c12Default() c12S {
	return c12S{Std: "A4", MT: 25.4, MR: 25.4, MB: 25.4, ML: 25.4, Hdr: 12.7, Ftr: 12.7, Grid: c12Grid{"lines", 312, 0}}
}

var c12Std = map[string][2]float64{"A4": {210, 297}, "Letter": {215.9, 279.4}, "Legal": {215.9, 355.6}, "A3": {297, 420}, "A5": {148, 210}}

func (s c12S) logical() (float64, float64) {
	if s.Std != "" {
		d := c12Std[s.Std]
		return d[0], d[1]
	}
	return s.CW, s.CH
}

func (s c12S) physical() (float64, float64) {
	w, h := s.logical()
	if s.Land {
		return h, w
	}
	return w, h
}

// nearStd reports the standard size whose 1 mm window contains (w,h), either way round.
func nearStd(w, h float64) (string, bool) {
	for n, d := range c12Std {
		if (math.Abs(w-d[0]) < 1 && math.Abs(h-d[1]) < 1) || (math.Abs(w-d[1]) < 1 && math.Abs(h-d[0]) < 1) {
			return n, true
		}
	}
	return "", false
}

type c12Op struct {
	name  string
	apply func(d *document.Document) error
	model func(s *c12S) bool // returns false if the model rejects the call
	kind  string
}

var c12Ops []c12Op

func init() {
	add := func(name string, ap func(d *document.Document) error, md func(s *c12S) bool) {
		c12Ops = append(c12Ops, c12Op{name: name, apply: ap, model: md})
	}
	for _, n := range []string{"A4", "Letter", "Legal", "A3", "A5"} {
		n := n
		add("SetPageSize("+n+")", func(d *document.Document) error { return d.SetPageSize(document.PageSize(n)) },
			func(s *c12S) bool { s.Std = n; return true })
	}
	for _, wh := range [][2]float64{{12.6, 100}, {12.7, 12.7}, {100, 200}, {200, 100}, {297, 210}, {558.8, 558.8}, {558.9, 100}, {210.4, 297}, {211.1, 297}, {0, 100}, {-1, 100}, {100, 558.9}} {
		w, h := wh[0], wh[1]
		add(fmt.Sprintf("SetCustomPageSize(%g,%g)", w, h), func(d *document.Document) error { return d.SetCustomPageSize(w, h) },
			func(s *c12S) bool {
				if w < 12.7 || h < 12.7 || w > 558.8 || h > 558.8 {
					return false
				}
				s.Std, s.CW, s.CH = "", w, h
				return true
			})
	}
	for _, o := range []string{"portrait", "landscape", "diagonal"} {
		o := o
		add("SetPageOrientation("+o+")", func(d *document.Document) error { return d.SetPageOrientation(document.PageOrientation(o)) },
			func(s *c12S) bool {
				if o == "diagonal" {
					return false
				}
				s.Land = o == "landscape"
				return true
			})
	}
	for _, m := range [][4]float64{{10, 20, 30, 40}, {0, 0, 0, 0}, {-1, 0, 0, 0}} {
		m := m
		add(fmt.Sprintf("SetPageMargins(%g,%g,%g,%g)", m[0], m[1], m[2], m[3]), func(d *document.Document) error { return d.SetPageMargins(m[0], m[1], m[2], m[3]) },
			func(s *c12S) bool {
				if m[0] < 0 {
					return false
				}
				s.MT, s.MR, s.MB, s.ML = m[0], m[1], m[2], m[3]
				return true
			})
	}
	// zero distances matter: a writer that omits a zero attribute and a reader that defaults an absent one
	// each look fine alone (seed C12-d2)
	for _, m := range [][2]float64{{5, 7}, {0, 0}, {0, 7}, {-1, 1}} {
		m := m
		add(fmt.Sprintf("SetHeaderFooterDistance(%g,%g)", m[0], m[1]), func(d *document.Document) error { return d.SetHeaderFooterDistance(m[0], m[1]) },
			func(s *c12S) bool {
				if m[0] < 0 {
					return false
				}
				s.Hdr, s.Ftr = m[0], m[1]
				return true
			})
	}
	for _, g := range []float64{3, 0, -1} {
		g := g
		add(fmt.Sprintf("SetGutterWidth(%g)", g), func(d *document.Document) error { return d.SetGutterWidth(g) },
			func(s *c12S) bool {
				if g < 0 {
					return false
				}
				s.Gut = g
				return true
			})
	}
	for _, t := range []string{"default", "lines", "snapToChars", "snapToLines", ""} {
		for _, p := range []int{0, 312} {
			for _, c := range []int{0, 5} {
				t, p, c := t, p, c
				if t == "" && (p != 0 || c != 0) {
					continue
				}
				add(fmt.Sprintf("SetDocGrid(%q,%d,%d)", t, p, c), func(d *document.Document) error { return d.SetDocGrid(document.DocGridType(t), p, c) },
					func(s *c12S) bool {
						if t == "" {
							return false
						}
						s.Grid = c12Grid{t, p, c}
						s.GridCleared = false
						return true
					})
			}
		}
	}
	add("ClearDocGrid()", func(d *document.Document) error { return d.ClearDocGrid() },
		func(s *c12S) bool { s.Grid = c12Default().Grid; s.GridCleared = true; return true })
	full := &document.PageSettings{Size: document.PageSizeCustom, CustomWidth: 150, CustomHeight: 250, Orientation: document.OrientationLandscape,
		MarginTop: 1, MarginRight: 2, MarginBottom: 3, MarginLeft: 4, HeaderDistance: 5, FooterDistance: 6, GutterWidth: 7,
		DocGridType: document.DocGridSnapToChars, DocGridLinePitch: 400, DocGridCharSpace: 9}
	add("SetPageSettings(full)", func(d *document.Document) error { c := *full; return d.SetPageSettings(&c) },
		func(s *c12S) bool {
			*s = c12S{CW: 150, CH: 250, Land: true, MT: 1, MR: 2, MB: 3, ML: 4, Hdr: 5, Ftr: 6, Gut: 7, Grid: c12Grid{"snapToChars", 400, 9}}
			return true
		})
	add("SetPageSettings(zeros)", func(d *document.Document) error {
		c := *full
		c.MarginTop, c.MarginRight, c.MarginBottom, c.MarginLeft, c.HeaderDistance, c.FooterDistance, c.GutterWidth = 0, 0, 0, 0, 0, 0, 0
		c.DocGridLinePitch, c.DocGridCharSpace = 0, 0
		return d.SetPageSettings(&c)
	},
		func(s *c12S) bool {
			*s = c12S{CW: 150, CH: 250, Land: true, Grid: c12Grid{"snapToChars", 0, 0}}
			return true
		})
	add("SetPageSettings(defaults)", func(d *document.Document) error { return d.SetPageSettings(document.DefaultPageSettings()) },
		func(s *c12S) bool { *s = c12Default(); return true })
	add("SetPageSettings(nil)", func(d *document.Document) error { return d.SetPageSettings(nil) }, func(s *c12S) bool { return false })
	add("SetPageSettings(custom 0x0)", func(d *document.Document) error {
		c := *full
		c.CustomWidth = 0
		return d.SetPageSettings(&c)
	}, func(s *c12S) bool { return false })
	add("SetPageSettings(bad orientation)", func(d *document.Document) error {
		c := *full
		c.Orientation = "sideways"
		return d.SetPageSettings(&c)
	}, func(s *c12S) bool { return false })
	// one PageSettings object the caller keeps for the whole history: it changes the fields it cares about and
	// hands the same object over again, relying on the other fields being as it left them
	kept := func(name string, edit func(k *document.PageSettings), md func(k *c12S)) {
		add("kept PageSettings object: "+name+", SetPageSettings(kept)", func(d *document.Document) error {
			i := c12Cur
			if i.kept == nil {
				c := *full
				i.kept = &c
			}
			edit(i.kept)
			return d.SetPageSettings(i.kept)
		}, func(s *c12S) bool {
			i := c12Cur
			if !i.keptInit {
				i.keptS = c12S{CW: 150, CH: 250, Land: true, MT: 1, MR: 2, MB: 3, ML: 4, Hdr: 5, Ftr: 6, Gut: 7, Grid: c12Grid{"snapToChars", 400, 9}}
				i.keptInit = true
			}
			md(&i.keptS)
			*s = i.keptS
			return true
		})
	}
	kept("custom 210.4x297.3 (within 1 mm of A4)", func(k *document.PageSettings) { k.CustomWidth, k.CustomHeight = 210.4, 297.3 }, func(k *c12S) { k.CW, k.CH = 210.4, 297.3 })
	kept("custom 100x150", func(k *document.PageSettings) { k.CustomWidth, k.CustomHeight = 100, 150 }, func(k *c12S) { k.CW, k.CH = 100, 150 })
	kept("margins 11,12,13,14", func(k *document.PageSettings) { k.MarginTop, k.MarginRight, k.MarginBottom, k.MarginLeft = 11, 12, 13, 14 }, func(k *c12S) { k.MT, k.MR, k.MB, k.ML = 11, 12, 13, 14 })
	c12Ops = append(c12Ops, c12Op{name: "GetPageSettings()", kind: "get"})
	c12Ops = append(c12Ops, c12Op{name: "reopen", kind: "reopen"})
	c12Ops = append(c12Ops, c12Op{name: "AddParagraph", kind: "para"})
	c12Ops = append(c12Ops, c12Op{name: "work on another document (build, save, reopen, render as template)", kind: "other"})
	names := make([]string, len(c12Ops))
	for i, o := range c12Ops {
		names[i] = o.name
	}
	seqx.Register(&seqx.Spec{Name: "C12", Ops: names, New: func(args json.RawMessage) seqx.Inst {
		document.VerifResetGlobals()
		return &c12Inst{doc: document.New(), s: c12Default()}
	}})
	register("C12", "model_checking", runC12)
}

type c12Inst struct {
	doc    *document.Document
	s      c12S
	lastNT bool
	reop   int
	// the caller's kept settings object and what the caller put into it
	kept     *document.PageSettings
	keptS    c12S
	keptInit bool
}

// c12Cur is the instance whose operation is being applied (operations are closures without instance argument).
var c12Cur *c12Inst

func (i *c12Inst) Enabled(op int) bool {
	if c12Ops[op].kind == "reopen" {
		return i.reop < 2
	}
	return true
}
func (i *c12Inst) Nontrivial() bool { return i.lastNT }

func (i *c12Inst) sect() *document.SectionProperties {
	for _, e := range i.doc.Body.Elements {
		if sp, ok := e.(*document.SectionProperties); ok {
			return sp
		}
	}
	return nil
}

// attrs returns the section attribute strings (the whole persistent page state of the implementation).
func (i *c12Inst) attrs() string {
	sp := i.sect()
	if sp == nil {
		return "none"
	}
	var b strings.Builder
	if sp.PageSize != nil {
		fmt.Fprintf(&b, "pgSz(%s,%s,%s)", sp.PageSize.W, sp.PageSize.H, sp.PageSize.Orient)
	}
	if m := sp.PageMargins; m != nil {
		fmt.Fprintf(&b, "pgMar(%s,%s,%s,%s,%s,%s,%s)", m.Top, m.Right, m.Bottom, m.Left, m.Header, m.Footer, m.Gutter)
	}
	if g := sp.DocGrid; g != nil {
		fmt.Fprintf(&b, "grid(%s,%s,%s)", g.Type, g.LinePitch, g.CharSpace)
	}
	return b.String()
}

func opClass12(n string) string {
	if k := strings.Index(n, "("); k >= 0 {
		return n[:k]
	}
	return n
}

func near(a, b, tol float64) bool { return math.Abs(a-b) <= tol+1e-9 }

// check compares read-back and physical size with the model.
func (i *c12Inst) check(opname string) []rep.Violation {
	var out []rep.Violation
	s := i.s
	cls := opClass12(opname)
	add := func(clause, culprit, what string) {
		out = append(out, rep.Violation{Sig: clause + "|" + culprit, Clause: clause, What: "after " + opname + ": " + what})
	}
	var g *document.PageSettings
	if p := guard(func() { g = i.doc.GetPageSettings() }); p != "" {
		add("panic", panicClass(p), p)
		return out
	}
	tol := twipMM
	if (g.Orientation == document.OrientationLandscape) != s.Land {
		add("readback", "orientation", fmt.Sprintf("read %s, model landscape=%v", g.Orientation, s.Land))
	}
	lw, lh := s.logical()
	sizeState := "std"
	if s.Std == "" {
		sizeState = "custom"
		if _, ok := nearStd(lw, lh); ok {
			sizeState = "custom-near-std"
		}
	}
	if s.Land {
		sizeState += "+landscape"
	}
	if s.Std != "" {
		if string(g.Size) != s.Std {
			add("readback", "size|"+sizeState, fmt.Sprintf("read %s (%gx%g), model %s", g.Size, g.CustomWidth, g.CustomHeight, s.Std))
		}
	} else {
		if g.Size == document.PageSizeCustom {
			if !(near(g.CustomWidth, lw, tol) && near(g.CustomHeight, lh, tol)) {
				add("readback", "custom-size|"+sizeState, fmt.Sprintf("read custom %.3fx%.3f, model custom %gx%g (landscape=%v)", g.CustomWidth, g.CustomHeight, lw, lh, s.Land))
			}
		} else {
			n, ok := nearStd(lw, lh)
			if !ok || n != string(g.Size) {
				add("readback", "size|"+sizeState, fmt.Sprintf("read %s, model custom %gx%g", g.Size, lw, lh))
			}
		}
	}
	for _, f := range []struct {
		n    string
		a, b float64
	}{{"MarginTop", g.MarginTop, s.MT}, {"MarginRight", g.MarginRight, s.MR}, {"MarginBottom", g.MarginBottom, s.MB}, {"MarginLeft", g.MarginLeft, s.ML},
		{"HeaderDistance", g.HeaderDistance, s.Hdr}, {"FooterDistance", g.FooterDistance, s.Ftr}, {"GutterWidth", g.GutterWidth, s.Gut}} {
		if !near(f.a, f.b, tol) {
			add("readback", f.n, fmt.Sprintf("read %.4f, model %g", f.a, f.b))
		}
	}
	if string(g.DocGridType) != s.Grid.Typ || g.DocGridLinePitch != s.Grid.Pitch || g.DocGridCharSpace != s.Grid.Chars {
		add("readback", "docGrid", fmt.Sprintf("read (%s,%d,%d), model %+v", g.DocGridType, g.DocGridLinePitch, g.DocGridCharSpace, s.Grid))
	}
	// physical page size as written
	if sp := i.sect(); sp != nil && sp.PageSize != nil && s.Touched {
		out = append(out, i.checkPhysical(sp.PageSize.W, sp.PageSize.H, sp.PageSize.Orient, "memory", cls, sizeState)...)
	}
	return out
}

func (i *c12Inst) checkPhysical(ws, hs, orient, where, cls, sizeState string) []rep.Violation {
	var out []rep.Violation
	s := i.s
	pw, ph := s.physical()
	w, _ := strconv.ParseFloat(ws, 64)
	h, _ := strconv.ParseFloat(hs, 64)
	wmm, hmm := w*twipMM, h*twipMM
	tol := twipMM
	lw, lh := s.logical()
	if s.Std == "" {
		if _, ok := nearStd(lw, lh); ok {
			tol = 1.0 // inside the recognition window the size may snap to the standard size
		}
	}
	if !(near(wmm, pw, tol) && near(hmm, ph, tol)) {
		out = append(out, rep.Violation{Sig: "physical-size|" + sizeState, Clause: "physical-size",
			What: fmt.Sprintf("after %s (%s): w:pgSz %sx%s twips = %.2fx%.2f mm, model physical %gx%g mm (logical %gx%g, landscape=%v)", cls, where, ws, hs, wmm, hmm, pw, ph, lw, lh, s.Land)})
	}
	if (orient == "landscape") != s.Land {
		out = append(out, rep.Violation{Sig: "physical-orient", Clause: "physical-orient", What: fmt.Sprintf("w:orient=%q, model landscape=%v", orient, s.Land)})
	}
	return out
}

func (i *c12Inst) Apply(op int) (string, []rep.Violation) {
	o := c12Ops[op]
	i.lastNT = false
	switch o.kind {
	case "get":
		return "read", i.check(o.name)
	case "para":
		i.doc.AddParagraph("x")
		return "ok", i.check(o.name)
	case "other":
		// another document gets other page settings, margins and distances: this one reads as before
		if p := interfere(); p != "" {
			return "panic", []rep.Violation{{Sig: "panic|other-document|" + panicClass(p), Clause: "panic", What: p}}
		}
		return "ok", i.check(o.name)
	case "reopen":
		_, b, errS := saveRead(i.doc)
		if errS != "" {
			return "save-failed", []rep.Violation{{Sig: "save-failed", Clause: "save", What: errS}}
		}
		d, e := reopen(b)
		if e != "" {
			return "reopen-failed", []rep.Violation{{Sig: "reopen-failed", Clause: "reopen", What: e}}
		}
		i.doc = d
		i.reop++
		i.lastNT = true
		return "reopened", i.check(o.name)
	}
	before := i.attrs()
	var gb *document.PageSettings
	guard(func() { gb = i.doc.GetPageSettings() })
	c12Cur = i
	m := i.s
	accept := o.model(&m)
	var err error
	if p := guard(func() { err = o.apply(i.doc) }); p != "" {
		return "panic", []rep.Violation{{Sig: "panic|" + panicClass(p) + "|" + opClass12(o.name), Clause: "panic", What: o.name + ": " + p}}
	}
	var viol []rep.Violation
	if err != nil {
		// rejected: nothing may change
		after := i.attrs()
		if after != before && !(before == "none" && after == "") {
			viol = append(viol, rep.Violation{Sig: "error-not-atomic|" + opClass12(o.name), Clause: "error-not-atomic", What: fmt.Sprintf("%s returned %v but the section changed: %s -> %s", o.name, err, before, after)})
		}
		var ga *document.PageSettings
		guard(func() { ga = i.doc.GetPageSettings() })
		if gb != nil && ga != nil && *gb != *ga {
			viol = append(viol, rep.Violation{Sig: "error-changed-readback|" + opClass12(o.name), Clause: "error-not-atomic", What: fmt.Sprintf("%s returned %v but settings read %+v -> %+v", o.name, err, *gb, *ga)})
		}
		if accept {
			viol = append(viol, rep.Violation{Sig: "valid-request-rejected|" + opClass12(o.name), Clause: "valid-request-rejected", What: fmt.Sprintf("%s: %v", o.name, err)})
		}
		viol = append(viol, i.check(o.name)...)
		return "rejected", viol
	}
	if !accept {
		viol = append(viol, rep.Violation{Sig: "invalid-request-accepted|" + opClass12(o.name), Clause: "invalid-request-accepted", What: o.name + " succeeded"})
		// judge later steps on what the implementation now holds: keep the model unchanged
	} else {
		m.Touched = true
		i.s = m
		i.lastNT = true
	}
	viol = append(viol, i.check(o.name)...)
	return "ok", viol
}

func (i *c12Inst) Key() string {
	b, _ := json.Marshal(i.s)
	kk := "no-kept"
	if i.kept != nil {
		kb, _ := json.Marshal(i.keptS)
		kk = fmt.Sprintf("%+v/%s", *i.kept, kb)
	}
	return i.attrs() + "|" + string(b) + "|" + kk + fmt.Sprintf("|r%d", i.reop) + "|" + rep.Hash(i.doc.VerifShallowState())
}

// Deep: the saved w:pgSz / w:pgMar / w:docGrid carry the model's values.
func (i *c12Inst) Deep() []rep.Violation {
	if !i.s.Touched {
		return nil
	}
	pkg, _, errS := saveRead(i.doc)
	if errS != "" {
		return []rep.Violation{{Sig: "save-failed", Clause: "save", What: errS}}
	}
	body := pkg.Body()
	if body == nil {
		return []rep.Violation{{Sig: "saved-body-missing", Clause: "save", What: "no body"}}
	}
	sp := body.Child(pkgmodel.NsW, "sectPr")
	if sp == nil {
		return []rep.Violation{{Sig: "saved-sectPr-missing", Clause: "save", What: "settings were set but the saved body has no w:sectPr"}}
	}
	var out []rep.Violation
	s := i.s
	sizeState := "std"
	if s.Std == "" {
		sizeState = "custom"
	}
	if s.Land {
		sizeState += "+landscape"
	}
	if pg := sp.Child(pkgmodel.NsW, "pgSz"); pg != nil {
		for _, v := range i.checkPhysical(pg.AttrW("w"), pg.AttrW("h"), pg.AttrW("orient"), "saved", "save", sizeState) {
			v.Sig = "saved-" + v.Sig
			out = append(out, v)
		}
	} else if pw, ph := s.physical(); !(near(pw, 210, twipMM) && near(ph, 297, twipMM)) {
		// without w:pgSz a reader assumes the default page: only acceptable while the record is the default size
		out = append(out, rep.Violation{Sig: "saved-pgSz-missing", Clause: "save", What: fmt.Sprintf("no w:pgSz although the record says %gx%g", pw, ph)})
	}
	if pm := sp.Child(pkgmodel.NsW, "pgMar"); pm != nil {
		for _, f := range []struct {
			n string
			v float64
		}{{"top", s.MT}, {"right", s.MR}, {"bottom", s.MB}, {"left", s.ML}, {"header", s.Hdr}, {"footer", s.Ftr}, {"gutter", s.Gut}} {
			x, _ := strconv.ParseFloat(pm.AttrW(f.n), 64)
			if !near(x*twipMM, f.v, twipMM) {
				out = append(out, rep.Violation{Sig: "saved-pgMar|" + f.n, Clause: "saved-pgMar", What: fmt.Sprintf("w:%s=%s twips = %.3f mm, model %g", f.n, pm.AttrW(f.n), x*twipMM, f.v)})
			}
		}
	} else if d := c12Default(); !(s.MT == d.MT && s.MR == d.MR && s.MB == d.MB && s.ML == d.ML && s.Hdr == d.Hdr && s.Ftr == d.Ftr && s.Gut == d.Gut) {
		out = append(out, rep.Violation{Sig: "saved-pgMar-missing", Clause: "save", What: "no w:pgMar although margins were set"})
	}
	if dg := sp.Child(pkgmodel.NsW, "docGrid"); dg != nil {
		pitch, _ := strconv.Atoi(dg.AttrW("linePitch"))
		chars, _ := strconv.Atoi(dg.AttrW("charSpace"))
		if dg.AttrW("type") != s.Grid.Typ || pitch != s.Grid.Pitch || chars != s.Grid.Chars {
			out = append(out, rep.Violation{Sig: "saved-docGrid", Clause: "saved-docGrid", What: fmt.Sprintf("saved (%s,%s,%s), model %+v", dg.AttrW("type"), dg.AttrW("linePitch"), dg.AttrW("charSpace"), s.Grid)})
		}
	} else if !s.GridCleared {
		out = append(out, rep.Violation{Sig: "saved-docGrid-missing", Clause: "saved-docGrid", What: fmt.Sprintf("no w:docGrid, model %+v", s.Grid)})
	}
	return out
}

func runC12(r *rep.Run) {
	depth := 4
	if r.Tier == "thorough" {
		depth = 6
	}
	r.Rule = "BFS over histories of page-setting calls (5 standard sizes, 12 custom sizes incl. range bounds and the 1 mm recognition window, orientations incl. invalid, margins/distances/gutter incl. negative, 17 doc-grid settings, clear, full/default/nil/invalid records, read, reopen, add paragraph) on a real Document in lock-step with a settings record; after every call GetPageSettings is compared with the record within one twip (a custom size inside the 1 mm window may read as the standard size), w:pgSz with the record's physical size, and a rejected call must change nothing; state key = section attribute strings + record; non-trivial = an accepted setter or a reopen; distinct states are saved and w:pgSz/w:pgMar/w:docGrid re-read"
	r.Bounds["depth"] = depth
	r.Bounds["alphabet"] = len(c12Ops)
	r.Assume = []string{"unknown size names are outside the property's quantifier and are not used", "after ClearDocGrid the grid attributes read as defaults; a later setter may re-materialise the default grid"}
	r.Merge(seqx.Search("C12", seqx.Opts{Depth: depth, Deadline: r.Deadline}))
}
