package main

// C06 input generators: shape space, seed mutations, part-level, ZIP-level, depth/repetition.
// Every generator enumerates ALL its cases with the running index and only builds the input of
// the cases that belong to this shard.

import (
	"archive/zip"
	"bytes"
	"fmt"
	"io"
	"os"
	"sort"
	"strings"
	"sync"
	"time"

	"github.com/zerx-lab/wordZero/pkg/document"

	"verif/harness/internal/foreign"
	"verif/harness/internal/rep"
)

const (
	c06NsW      = "http://schemas.openxmlformats.org/wordprocessingml/2006/main"
	c06NsStrict = "http://purl.oclc.org/ooxml/wordprocessingml/main"
	c06NsR      = "http://schemas.openxmlformats.org/officeDocument/2006/relationships"
	c06Decl     = `<?xml version="1.0" encoding="UTF-8" standalone="yes"?>` + "\n"
	c06CT       = c06Decl + `<Types xmlns="http://schemas.openxmlformats.org/package/2006/content-types"><Default Extension="rels" ContentType="application/vnd.openxmlformats-package.relationships+xml"/><Default Extension="xml" ContentType="application/xml"/><Override PartName="/word/document.xml" ContentType="application/vnd.openxmlformats-officedocument.wordprocessingml.document.main+xml"/></Types>`
	c06Rels     = c06Decl + `<Relationships xmlns="http://schemas.openxmlformats.org/package/2006/relationships"><Relationship Id="rId1" Type="http://schemas.openxmlformats.org/officeDocument/2006/relationships/officeDocument" Target="word/document.xml"/></Relationships>`
	c06DocOpen  = c06Decl + `<w:document xmlns:w="` + c06NsW + `" xmlns:r="` + c06NsR + `" xmlns:s="` + c06NsStrict + `" xmlns:x="urn:c06:foreign"><w:body>`
	c06DocClose = `</w:body></w:document>`
	c06LeafText = "a{{v}}b"
)

// c06StoreZip writes entries verbatim with the Store method (fast, deterministic).
func c06StoreZip(parts []foreign.Part) []byte {
	var buf bytes.Buffer
	zw := zip.NewWriter(&buf)
	for _, pt := range parts {
		f, err := zw.CreateHeader(&zip.FileHeader{Name: pt.Name, Method: zip.Store})
		if err == nil {
			f.Write(pt.Data)
		}
	}
	zw.Close()
	return buf.Bytes()
}

func c06MinimalZip(mainXML []byte) []byte {
	return c06StoreZip([]foreign.Part{{Name: "[Content_Types].xml", Data: []byte(c06CT)}, {Name: "_rels/.rels", Data: []byte(c06Rels)}, {Name: "word/document.xml", Data: mainXML}})
}

func (w *c06W) mine(idx int64) bool {
	return w.c.N <= 1 || int(idx%int64(w.c.N)) == w.c.Shard
}

// ---------------------------------------------------------------------------
// host contexts

type c06Host struct {
	name, last  string
	open, close string
}

// tails: content placed after an element of a host path is closed, so that the document is
// usable by the battery (a table with properties also has a grid and a row, ...).
var c06Tails = map[string]string{
	"sdtPr":      `<w:sdtContent><w:p><w:r><w:t>c{{v}}</w:t></w:r></w:p></w:sdtContent>`,
	"docPartObj": ``,
	"tblPr": `<w:tblGrid><w:gridCol w:w="100"/></w:tblGrid><w:tr><w:tc><w:p><w:r><w:t>c</w:t></w:r></w:p></w:tc></w:tr>`,
	"tcPr":  `<w:p><w:r><w:t>c</w:t></w:r></w:p>`,
	"trPr":  `<w:tc><w:p><w:r><w:t>c</w:t></w:r></w:p></w:tc>`,
	"pPr":   `<w:r><w:t>t{{v}}</w:t></w:r>`,
	"rPr":   `<w:t>t{{v}}</w:t>`,
}

var c06HostPaths = []string{
	"",
	"p", "p/pPr", "p/pPr/numPr", "p/pPr/sectPr", "p/r", "p/r/rPr", "p/r/drawing",
	"p/r/drawing/inline", "p/r/drawing/anchor", "p/r/drawing/inline/graphic", "p/r/drawing/anchor/graphic",
	"p/r/drawing/inline/graphic/graphicData", "p/r/drawing/inline/graphic/graphicData/pic",
	"p/r/drawing/inline/graphic/graphicData/pic/nvPicPr", "p/r/drawing/inline/graphic/graphicData/pic/blipFill",
	"p/r/drawing/inline/graphic/graphicData/pic/spPr", "p/r/drawing/inline/graphic/graphicData/pic/spPr/xfrm",
	"tbl", "tbl/tblPr", "tbl/tblPr/tblBorders", "tbl/tblPr/tblCellMar", "tbl/tblGrid", "tbl/tr", "tbl/tr/trPr",
	"tbl/tr/tc", "tbl/tr/tc/tcPr", "tbl/tr/tc/tcPr/tcBorders", "tbl/tr/tc/tcPr/tcMar", "tbl/tr/tc/p/r", "tbl/tr/tc/tbl/tr/tc",
	"sectPr",
	// wrappers whose readers were added later (content controls, hyperlinks, tab stops); explored with the
	// lighter product (see c06LightHosts)
	"sdt", "sdt/sdtPr", "sdt/sdtPr/docPartObj", "sdt/sdtContent", "p/hyperlink", "p/sdt/sdtContent", "p/pPr/tabs", "tbl/tr/tc/sdt/sdtContent",
}

// c06LightHosts: under these hosts the quick tier runs pairs without attribute variants only.
var c06LightHosts = map[string]bool{"sdt": true, "sdt/sdtPr": true, "sdt/sdtPr/docPartObj": true, "sdt/sdtContent": true, "p/hyperlink": true,
	"p/sdt/sdtContent": true, "p/pPr/tabs": true, "tbl/tr/tc/sdt/sdtContent": true}

var c06Hosts = func() []c06Host {
	var out []c06Host
	for _, p := range c06HostPaths {
		h := c06Host{name: "body/" + p, last: "body"}
		if p == "" {
			h.name = "body"
			out = append(out, h)
			continue
		}
		els := strings.Split(p, "/")
		h.last = els[len(els)-1]
		for _, e := range els {
			h.open += "<w:" + e + ">"
		}
		for i := len(els) - 1; i >= 0; i-- {
			h.close += "</w:" + els[i] + ">" + c06Tails[els[i]]
		}
		out = append(out, h)
	}
	return out
}()

func c06HostKnown(end string) bool {
	if end == "document" || end == "body" {
		return true
	}
	for _, h := range c06Hosts {
		if h.last == end {
			return true
		}
	}
	return false
}

func c06HostNames() string {
	var s []string
	for _, h := range c06Hosts {
		s = append(s, h.name)
	}
	return strings.Join(s, ", ")
}

// ---------------------------------------------------------------------------
// shapes

var c06AttrValues = []string{"", "1", "x", "-5", "4000000000", ""} // variant 0 = no attributes, 5 = attributes with empty value
var c06NsPrefix = []string{"w:", "s:", "", "x:"}
var c06NsName = []string{"transitional", "strict", "none", "foreign-prefix"}

func (w *c06W) initAttrs() {
	w.attrStr = make([]string, len(c06AttrValues))
	for v := 1; v < len(c06AttrValues); v++ {
		var b strings.Builder
		for _, a := range w.a.Attrs {
			b.WriteString(` w:` + a + `="` + c06AttrValues[v] + `"`)
		}
		w.attrStr[v] = b.String()
	}
}

// el renders one element; leaves of attribute variants carry text (a placeholder for the template pass).
func (w *c06W) el(ns int, name string, av int, inner string) string {
	p := c06NsPrefix[ns]
	if inner == "" && av == 0 {
		return "<" + p + name + "/>"
	}
	if inner == "" {
		inner = c06LeafText
	}
	return "<" + p + name + w.attrStr[av] + ">" + inner + "</" + p + name + ">"
}

func (w *c06W) shapeCase(idx int64, h *c06Host, ns, av int, kind string, tree func() string, alsoFile bool) {
	if !w.mine(idx) {
		return
	}
	desc := func() interface{} {
		return map[string]interface{}{"group": "shape", "host": h.name, "namespace": c06NsName[ns], "attr_value": map[bool]interface{}{true: nil, false: c06AttrValues[av]}[av == 0],
			"shape": kind, "xml_under_host": c06Short(tree(), 600)}
	}
	if !w.c.Begin(idx, desc) {
		return
	}
	t := tree()
	data := c06MinimalZip([]byte(c06DocOpen + h.open + t + h.close + c06DocClose))
	in := &c06Input{group: "shape", data: data, size: len(h.open) + len(t), battery: true}
	w.run(idx, desc, in)
	if alsoFile {
		in2 := *in
		in2.viaFile = true
		w.run(idx, desc, &in2)
	}
}

func c06Short(s string, n int) string {
	if len(s) > n {
		return s[:n] + fmt.Sprintf("...(%d bytes)", len(s))
	}
	return s
}

func (w *c06W) genShapes(idx *int64) {
	V := w.a.Vocab
	thorough := w.c.Tier == "thorough"
	singleAV := []int{0, 1, 2, 3, 4, 5}
	pairAV := []int{0, 1}
	if thorough {
		pairAV = []int{0, 1, 2, 3}
	}
	for hi := range c06Hosts {
		h := &c06Hosts[hi]
		nss := []int{0}
		if hi == 0 {
			nss = []int{0, 1, 2, 3}
		}
		for _, ns := range nss {
			ns := ns
			for _, av := range singleAV {
				av := av
				for _, a := range V {
					a := a
					w.shapeCase(*idx, h, ns, av, "a", func() string { return w.el(ns, a, av, "") }, ns == 0)
					*idx++
				}
			}
			for _, av := range pairAV {
				av := av
				if !thorough && av != 0 && c06LightHosts[strings.TrimPrefix(h.name, "body/")] {
					continue
				}
				for _, a := range V {
					for _, b := range V {
						a, b := a, b
						w.shapeCase(*idx, h, ns, av, "a>b", func() string { return w.el(ns, a, av, w.el(ns, b, av, "")) }, false)
						*idx++
						w.shapeCase(*idx, h, ns, av, "a,b", func() string { return w.el(ns, a, av, "") + w.el(ns, b, av, "") }, false)
						*idx++
					}
				}
			}
		}
		if !thorough {
			continue
		}
		// three nodes: chains and two-children shapes, transitional namespace
		tops := V
		if hi != 0 {
			if known, ok := w.a.Children[h.last]; ok && len(known) > 0 {
				tops = c06Uniq(append(append([]string{}, known...), "p", "tbl", "r", c06Unknown[0]))
			}
		}
		for _, av := range []int{0, 1} {
			av := av
			for _, a := range tops {
				for _, b := range V {
					for _, c := range V {
						a, b, c := a, b, c
						w.shapeCase(*idx, h, 0, av, "a>b>c", func() string { return w.el(0, a, av, w.el(0, b, av, w.el(0, c, av, ""))) }, false)
						*idx++
						w.shapeCase(*idx, h, 0, av, "a>(b,c)", func() string { return w.el(0, a, av, w.el(0, b, av, "")+w.el(0, c, av, "")) }, false)
						*idx++
					}
				}
			}
		}
	}
}

// ---------------------------------------------------------------------------
// table-of-contents content controls: every combination of the parts a TOC content control can have or
// lack, between headings, so that the TOC calls of the battery meet each of them (seed C06-d2)

func (w *c06W) genTOC(idx *int64) {
	prs := []string{"", "<w:sdtPr/>", "<w:sdtPr><w:docPartObj/></w:sdtPr>",
		`<w:sdtPr><w:docPartObj><w:docPartGallery w:val="Table of Contents"/><w:docPartUnique/></w:docPartObj></w:sdtPr>`,
		`<w:sdtPr><w:docPartObj><w:docPartGallery w:val="Table of Contents"/></w:docPartObj></w:sdtPr>`,
		`<w:sdtPr><w:docPartObj><w:docPartGallery/></w:docPartObj></w:sdtPr>`,
		`<w:sdtPr><w:docPartObj><w:docPartGallery w:val="Cover Pages"/></w:docPartObj></w:sdtPr>`}
	ends := []string{"", "<w:sdtEndPr/>", "<w:sdtEndPr><w:rPr><w:b/></w:rPr></w:sdtEndPr>"}
	tocP := `<w:p><w:pPr><w:pStyle w:val="TOC1"/></w:pPr><w:r><w:t>Old entry</w:t></w:r></w:p>`
	contents := []string{"", "<w:sdtContent/>", "<w:sdtContent><w:p/></w:sdtContent>", "<w:sdtContent>" + tocP + "</w:sdtContent>",
		`<w:sdtContent><w:p><w:r><w:fldChar w:fldCharType="begin"/></w:r><w:r><w:instrText>TOC \\o "1-3"</w:instrText></w:r><w:r><w:fldChar w:fldCharType="end"/></w:r></w:p></w:sdtContent>`,
		`<w:sdtContent><w:tbl><w:tr><w:tc><w:p/></w:tc></w:tr></w:tbl></w:sdtContent>`}
	h1 := `<w:p><w:pPr><w:pStyle w:val="Heading1"/></w:pPr><w:r><w:t>Head {{v}}</w:t></w:r></w:p>`
	arounds := [][2]string{{"", ""}, {h1, ""}, {"", h1}, {h1, h1 + "<w:sectPr/>"}}
	for pi, pr := range prs {
		for ei, en := range ends {
			for ci, co := range contents {
				for ai, ar := range arounds {
					body := ar[0] + "<w:sdt>" + pr + en + co + "</w:sdt>" + ar[1]
					w.rawCase(idx, "toc", fmt.Sprintf("sdt pr=%d end=%d content=%d around=%d", pi, ei, ci, ai), 0, len(body), func() []byte {
						return c06MinimalZip([]byte(c06DocOpen + body + c06DocClose))
					})
				}
			}
		}
	}
	// paragraph-style tables of contents (no content control)
	for ai, ar := range arounds {
		for n := 1; n <= 2; n++ {
			body := ar[0] + strings.Repeat(tocP, n) + ar[1]
			w.rawCase(idx, "toc", fmt.Sprintf("TOC-styled paragraphs n=%d around=%d", n, ai), 0, len(body), func() []byte {
				return c06MinimalZip([]byte(c06DocOpen + body + c06DocClose))
			})
		}
	}
}

// ---------------------------------------------------------------------------
// seeds

type c06Seed struct {
	name  string
	parts []foreign.Part // sorted by name; includes word/document.xml
	main  []byte
}

func (s *c06Seed) zipWith(main []byte) []byte {
	ps := make([]foreign.Part, 0, len(s.parts))
	for _, p := range s.parts {
		if p.Name == "word/document.xml" {
			p.Data = main
		}
		ps = append(ps, p)
	}
	return c06StoreZip(ps)
}

func c06Unzip(b []byte) []foreign.Part {
	zr, err := zip.NewReader(bytes.NewReader(b), int64(len(b)))
	if err != nil {
		return nil
	}
	var out []foreign.Part
	for _, f := range zr.File {
		rc, err := f.Open()
		if err != nil {
			continue
		}
		data, _ := io.ReadAll(rc)
		rc.Close()
		out = append(out, foreign.Part{Name: f.Name, Data: data})
	}
	sort.Slice(out, func(i, j int) bool { return out[i].Name < out[j].Name })
	return out
}

func c06SeedFromDoc(name string, d *document.Document) c06Seed {
	b, err := d.ToBytes()
	s := c06Seed{name: name}
	if err != nil {
		return s
	}
	s.parts = c06Unzip(b)
	for _, p := range s.parts {
		if p.Name == "word/document.xml" {
			s.main = p.Data
		}
	}
	return s
}

func c06BuildText() *document.Document {
	d := document.New()
	d.AddParagraph("plain {{name}} text")
	p := d.AddFormattedParagraph("formatted", &document.TextFormat{Bold: true, Italic: true, FontSize: 14, FontColor: "FF0000", FontFamily: "Arial", Underline: true, Strike: true, Highlight: "yellow"})
	p.SetAlignment(document.AlignCenter)
	p.SetSpacing(&document.SpacingConfig{LineSpacing: 1.5, BeforePara: 6, AfterPara: 6, FirstLineIndent: 12})
	p.SetIndentation(1, 2, 3)
	p.SetKeepWithNext(true)
	p.SetKeepLines(true)
	p.SetPageBreakBefore(true)
	p.SetWidowControl(true)
	p.SetOutlineLevel(2)
	p.SetSnapToGrid(false)
	p.SetStyle("Heading2")
	p.AddFormattedText(" more", &document.TextFormat{Bold: true})
	p.AddPageBreak()
	d.AddHeadingParagraph("Heading {{title}}", 1)
	d.AddBulletList("bullet", 0, document.BulletTypeDot)
	d.AddNumberedList("numbered", 1, document.ListTypeDecimal)
	d.AddParagraph("{{#each items}}")
	d.AddParagraph("item {{name}}")
	d.AddParagraph("{{/each}}")
	d.AddParagraph("{{#if flag}}yes{{else}}no{{/if}}")
	d.AddFootnote("with note", "the note")
	d.AddPageBreak()
	return d
}

func c06BuildTable() *document.Document {
	d := document.New()
	d.AddParagraph("before")
	t, err := d.AddTable(&document.TableConfig{Rows: 3, Cols: 3, Width: 6000, Data: [][]string{{"a", "b", "c"}, {"d", "{{v}}", "f"}, {"g", "h", "i"}}})
	if err != nil || t == nil {
		return d
	}
	t.SetCellFormat(0, 0, &document.CellFormat{TextFormat: &document.TextFormat{Bold: true, FontSize: 12, FontColor: "00FF00"}, HorizontalAlign: document.CellAlignCenter, VerticalAlign: document.CellVAlignCenter, TextDirection: document.TextDirectionTB, BackgroundColor: "EEEEEE", Padding: 4})
	t.MergeCellsHorizontal(0, 1, 2)
	t.MergeCellsVertical(1, 2, 0)
	t.SetRowHeight(0, &document.RowHeightConfig{Height: 30, Rule: document.RowHeightExact})
	t.SetRowAsHeader(0, true)
	t.SetRowKeepTogether(1, true)
	t.SetTableLayout(&document.TableLayoutConfig{Alignment: document.TableAlignCenter, TextWrap: document.TextWrapNone, Position: document.PositionInline})
	t.SetTableAlignment(document.TableAlignCenter)
	b := &document.BorderConfig{Style: document.BorderStyleSingle, Width: 4, Color: "000000", Space: 0}
	t.SetTableBorders(&document.TableBorderConfig{Top: b, Left: b, Bottom: b, Right: b, InsideH: b, InsideV: b})
	t.SetTableShading(&document.ShadingConfig{Pattern: document.ShadingPatternClear, ForegroundColor: "auto", BackgroundColor: "DDDDDD"})
	t.SetCellBorders(1, 1, &document.CellBorderConfig{Top: b, Left: b, Bottom: b, Right: b, DiagDown: b, DiagUp: b})
	t.SetCellShading(1, 2, &document.ShadingConfig{Pattern: document.ShadingPatternClear, BackgroundColor: "CCCCCC"})
	t.SetCellPadding(2, 2, 5)
	t.SetCellTextDirection(2, 1, document.TextDirectionBT)
	t.ApplyTableStyle(&document.TableStyleConfig{Template: document.TableStyleTemplateGrid, FirstRowHeader: true, BandedRows: true})
	t.AddNestedTable(2, 2, &document.TableConfig{Rows: 1, Cols: 2, Width: 2000, Data: [][]string{{"n1", "n2"}}})
	t.AddCellParagraph(1, 1, "second paragraph")
	d.AddParagraph("after")
	return d
}

func c06BuildDrawing() *document.Document {
	d := document.New()
	d.AddParagraph("with pictures")
	d.AddImageFromData(pngBytes(4, 3, 7), "one.png", document.ImageFormatPNG, 4, 3, &document.ImageConfig{Size: &document.ImageSize{Width: 20, Height: 15}, AltText: "alt", Title: "title", Alignment: document.AlignCenter})
	d.AddImageFromData(pngBytes(3, 3, 9), "two.png", document.ImageFormatPNG, 3, 3, &document.ImageConfig{Position: document.ImagePositionFloatLeft, WrapText: document.ImageWrapSquare, OffsetX: 5, OffsetY: 6, Size: &document.ImageSize{Width: 10, Height: 10}})
	d.AddImageFromData(pngBytes(3, 2, 11), "three.png", document.ImageFormatPNG, 3, 2, &document.ImageConfig{Position: document.ImagePositionFloatRight, WrapText: document.ImageWrapNone})
	d.AddHeader(document.HeaderFooterTypeDefault, "header")
	d.AddFooterWithPageNumber(document.HeaderFooterTypeDefault, "page", true)
	d.AddHeader(document.HeaderFooterTypeFirst, "first header")
	d.SetDifferentFirstPage(true)
	d.SetPageSettings(&document.PageSettings{Size: document.PageSizeLetter, Orientation: document.OrientationLandscape, MarginTop: 20, MarginRight: 21, MarginBottom: 22, MarginLeft: 23, HeaderDistance: 10, FooterDistance: 11, GutterWidth: 3})
	d.SetDocGrid(document.DocGridLines, 312, 0)
	return d
}

func c06BuildMini() *document.Document {
	d := document.New()
	d.AddParagraph("a")
	d.AddTable(&document.TableConfig{Rows: 1, Cols: 1, Width: 1000})
	d.SetPageSize(document.PageSizeA5)
	return d
}

const c06ForeignBody = `<w:p><w:pPr><w:pStyle w:val="ForeignPara"/><w:keepNext/><w:spacing w:before="120" w:after="120" w:line="360" w:lineRule="auto"/><w:ind w:left="720" w:firstLine="360"/><w:jc w:val="both"/><w:rPr><w:b/></w:rPr></w:pPr><w:bookmarkStart w:id="0" w:name="bm"/><w:r><w:rPr><w:rFonts w:ascii="Arial" w:hAnsi="Arial" w:eastAsia="SimSun" w:cs="Arial"/><w:b/><w:bCs/><w:i/><w:iCs/><w:u w:val="single"/><w:strike/><w:color w:val="112233"/><w:sz w:val="24"/><w:szCs w:val="24"/><w:highlight w:val="yellow"/></w:rPr><w:t xml:space="preserve">Hello &amp; {{name}} </w:t></w:r><w:bookmarkEnd w:id="0"/><w:hyperlink r:id="rId9"><w:r><w:t>link</w:t></w:r></w:hyperlink><w:ins w:id="1" w:author="x"><w:r><w:t>inserted</w:t></w:r></w:ins><w:r><w:br w:type="page"/><w:tab/><w:t><![CDATA[cdata <text>]]></w:t></w:r><!-- a comment > --><?pi data?></w:p>` +
	`<w:tbl><w:tblPr><w:tblStyle w:val="ForeignTable"/><w:tblW w:w="5000" w:type="pct"/><w:jc w:val="center"/><w:tblInd w:w="10" w:type="dxa"/><w:tblBorders><w:top w:val="single" w:sz="4" w:space="0" w:color="auto"/><w:left w:val="single" w:sz="4"/><w:bottom w:val="single" w:sz="4"/><w:right w:val="single" w:sz="4"/><w:insideH w:val="single" w:sz="4"/><w:insideV w:val="single" w:sz="4"/></w:tblBorders><w:shd w:val="clear" w:color="auto" w:fill="EEEEEE"/><w:tblLayout w:type="fixed"/><w:tblCellMar><w:top w:w="10" w:type="dxa"/><w:left w:w="10" w:type="dxa"/><w:bottom w:w="10" w:type="dxa"/><w:right w:w="10" w:type="dxa"/></w:tblCellMar><w:tblLook w:val="04A0" w:firstRow="1" w:lastRow="0" w:firstColumn="1" w:lastColumn="0" w:noHBand="0" w:noVBand="1"/></w:tblPr><w:tblGrid><w:gridCol w:w="2000"/><w:gridCol w:w="2000"/><w:gridCol w:w="2000"/></w:tblGrid>` +
	`<w:tr><w:trPr><w:trHeight w:val="300" w:hRule="exact"/><w:cantSplit/><w:tblHeader/></w:trPr><w:tc><w:tcPr><w:tcW w:w="4000" w:type="dxa"/><w:gridSpan w:val="2"/><w:vAlign w:val="center"/><w:textDirection w:val="btLr"/><w:shd w:val="clear" w:fill="CCCCCC"/><w:tcBorders><w:top w:val="single"/><w:left w:val="single"/><w:bottom w:val="single"/><w:right w:val="single"/><w:insideH w:val="nil"/><w:insideV w:val="nil"/><w:tl2br w:val="single"/><w:tr2bl w:val="single"/></w:tcBorders><w:tcMar><w:top w:w="5" w:type="dxa"/><w:left w:w="5" w:type="dxa"/><w:bottom w:w="5" w:type="dxa"/><w:right w:w="5" w:type="dxa"/></w:tcMar><w:noWrap/><w:hideMark/></w:tcPr><w:p><w:r><w:t>A</w:t></w:r></w:p></w:tc><w:tc><w:tcPr><w:tcW w:w="2000" w:type="dxa"/><w:vMerge w:val="restart"/></w:tcPr><w:p/></w:tc></w:tr>` +
	`<w:tr><w:tc><w:p><w:r><w:t>B</w:t></w:r></w:p></w:tc><w:tc><w:tbl><w:tblPr/><w:tblGrid><w:gridCol w:w="500"/></w:tblGrid><w:tr><w:tc><w:p><w:r><w:t>nested</w:t></w:r></w:p></w:tc></w:tr></w:tbl><w:p/></w:tc><w:tc><w:tcPr><w:vMerge/></w:tcPr><w:p/></w:tc></w:tr></w:tbl>` +
	`<w:sdt><w:sdtPr><w:alias w:val="x"/></w:sdtPr><w:sdtContent><w:p><w:r><w:t>in sdt</w:t></w:r></w:p></w:sdtContent></w:sdt>` +
	`<mc:AlternateContent xmlns:mc="http://schemas.openxmlformats.org/markup-compatibility/2006"><mc:Choice Requires="wps"><w:p><w:r><w:t>choice</w:t></w:r></w:p></mc:Choice><mc:Fallback><w:p/></mc:Fallback></mc:AlternateContent>`

const c06ForeignSect = `<w:sectPr><w:headerReference w:type="default" r:id="rId20"/><w:footerReference w:type="default" r:id="rId21"/><w:pgSz w:w="11906" w:h="16838" w:orient="portrait"/><w:pgMar w:top="1440" w:right="1800" w:bottom="1440" w:left="1800" w:header="851" w:footer="992" w:gutter="0"/><w:pgNumType w:fmt="decimal"/><w:cols w:space="425" w:num="1"/><w:titlePg/><w:docGrid w:type="lines" w:linePitch="312" w:charSpace="0"/></w:sectPr>`

func c06BuildForeign(prefix string) c06Seed {
	p := foreign.New()
	body := c06ForeignBody + foreign.ListPara("list item") + foreign.DrawingPara("rId30", 1, 95250, 95250) + foreign.Para("last {{x}}") + c06ForeignSect
	if prefix != "w" {
		// re-prefix the WordprocessingML elements and attributes
		np := prefix
		if np != "" {
			np += ":"
		}
		body = strings.ReplaceAll(body, "<w:", "<"+np)
		body = strings.ReplaceAll(body, "</w:", "</"+np)
		if prefix != "" {
			body = strings.ReplaceAll(body, " w:", " "+np)
		}
	}
	main := foreign.DocXML(prefix, body)
	if prefix == "" {
		// attributes keep the w: prefix, so declare it too
		main = bytes.Replace(main, []byte(`<document xmlns="`), []byte(`<document xmlns:w="`+c06NsW+`" xmlns="`), 1)
	}
	p.Add("word/document.xml", main)
	p.Add("word/styles.xml", foreign.StylesXML())
	p.Add("word/numbering.xml", foreign.NumberingXML())
	p.Add("word/header1.xml", foreign.HeaderXML("foreign header"))
	p.Add("word/footer1.xml", foreign.FooterXML("foreign footer"))
	p.Add("word/media/image1.png", pngBytes(2, 2, 3))
	p.Defaults["png"] = "image/png"
	p.Overrides["/word/styles.xml"] = foreign.CtStyles
	p.Overrides["/word/numbering.xml"] = foreign.CtNumbering
	p.Overrides["/word/header1.xml"] = foreign.CtHeader
	p.Overrides["/word/footer1.xml"] = foreign.CtFooter
	p.DocRels = []foreign.Rel{
		{ID: "rId1", Type: foreign.NsR + "/styles", Target: "styles.xml"},
		{ID: "rId2", Type: foreign.NsR + "/numbering", Target: "numbering.xml"},
		{ID: "rId9", Type: foreign.NsR + "/hyperlink", Target: "http://example.com/", External: true},
		{ID: "rId20", Type: foreign.NsR + "/header", Target: "header1.xml"},
		{ID: "rId21", Type: foreign.NsR + "/footer", Target: "footer1.xml"},
		{ID: "rId30", Type: foreign.NsR + "/image", Target: "media/image1.png"},
	}
	name := "foreign-" + prefix
	if prefix == "" {
		name = "foreign-default-namespace"
	}
	s := c06Seed{name: name, parts: c06Unzip(p.Bytes()), main: main}
	return s
}

var (
	c06SeedOnce sync.Once
	c06SeedList []c06Seed
)

// c06Seeds: index 0 is the smallest seed (byte-level truncation).
func c06Seeds() []c06Seed {
	c06SeedOnce.Do(func() {
		add := func(name string, f func() *document.Document) {
			var s c06Seed
			if p := guard(func() { s = c06SeedFromDoc(name, f()) }); p != "" || len(s.main) == 0 {
				s = c06Seed{name: name + "(build failed: " + p + ")"}
			}
			c06SeedList = append(c06SeedList, s)
		}
		add("mini", c06BuildMini)
		add("text", c06BuildText)
		add("table", c06BuildTable)
		add("drawing", c06BuildDrawing)
		c06SeedList = append(c06SeedList, c06BuildForeign("w"), c06BuildForeign("ns0"), c06BuildForeign(""))
	})
	return c06SeedList
}

func c06SeedHash(seeds []c06Seed) string {
	var parts []string
	for _, s := range seeds {
		parts = append(parts, s.name, string(s.main))
	}
	return rep.Hash(parts...)
}

// c06Tags returns the [start,end) spans of the markup tokens of an XML text.
func c06Tags(x []byte) [][2]int {
	var out [][2]int
	for i := 0; i < len(x); {
		if x[i] != '<' {
			i++
			continue
		}
		end := -1
		switch {
		case bytes.HasPrefix(x[i:], []byte("<!--")):
			if j := bytes.Index(x[i:], []byte("-->")); j >= 0 {
				end = i + j + 3
			}
		case bytes.HasPrefix(x[i:], []byte("<![CDATA[")):
			if j := bytes.Index(x[i:], []byte("]]>")); j >= 0 {
				end = i + j + 3
			}
		case bytes.HasPrefix(x[i:], []byte("<?")):
			if j := bytes.Index(x[i:], []byte("?>")); j >= 0 {
				end = i + j + 2
			}
		default:
			if j := bytes.IndexByte(x[i:], '>'); j >= 0 {
				end = i + j + 1
			}
		}
		if end < 0 {
			break
		}
		out = append(out, [2]int{i, end})
		i = end
	}
	return out
}

func (w *c06W) seedCase(idx *int64, s *c06Seed, mutation string, pos int, build func() []byte) {
	for _, viaFile := range []bool{false, true} {
		i := *idx
		*idx++
		if !w.mine(i) {
			continue
		}
		viaFile := viaFile
		desc := func() interface{} {
			return map[string]interface{}{"group": "seed", "seed": s.name, "mutation": mutation, "position": pos, "entry": map[bool]string{false: "OpenFromMemory", true: "Open"}[viaFile],
				"main_part_tail": c06Tail(build(), 200)}
		}
		if !w.c.Begin(i, desc) {
			continue
		}
		main := build()
		w.run(i, desc, &c06Input{group: "seed", data: s.zipWith(main), viaFile: viaFile, size: len(main), battery: true})
	}
}

func c06Tail(b []byte, n int) string {
	if len(b) > n {
		return "..." + string(b[len(b)-n:])
	}
	return string(b)
}

func (w *c06W) genSeedMutations(idx *int64, seeds []c06Seed) {
	for si := range seeds {
		s := &seeds[si]
		if len(s.main) == 0 {
			w.c.P.HarnessErrs = append(w.c.P.HarnessErrs, "seed "+s.name)
			continue
		}
		x := s.main
		// the unmodified seed
		w.seedCase(idx, s, "none", 0, func() []byte { return x })
		tags := c06Tags(x)
		cut := map[int]bool{}
		for _, t := range tags {
			cut[t[0]] = true
			cut[t[1]] = true
		}
		if si == 0 {
			for i := 0; i < len(x); i++ {
				cut[i] = true
			}
		}
		var cuts []int
		for k := range cut {
			if k < len(x) {
				cuts = append(cuts, k)
			}
		}
		sort.Ints(cuts)
		for _, k := range cuts {
			k := k
			w.seedCase(idx, s, "truncate", k, func() []byte { return x[:k] })
		}
		for ti, t := range tags {
			if t[1]-t[0] > 2 && x[t[0]+1] == '/' {
				t := t
				w.seedCase(idx, s, "delete-end-tag", ti, func() []byte { return append(append([]byte{}, x[:t[0]]...), x[t[1]:]...) })
			}
		}
		for ti := 0; ti+1 < len(tags); ti++ {
			a, b := tags[ti], tags[ti+1]
			if x[a[0]+1] == '?' {
				continue
			}
			w.seedCase(idx, s, "swap-adjacent-tags", ti, func() []byte {
				var o []byte
				o = append(o, x[:a[0]]...)
				o = append(o, x[b[0]:b[1]]...)
				o = append(o, x[a[1]:b[0]]...)
				o = append(o, x[a[0]:a[1]]...)
				o = append(o, x[b[1]:]...)
				return o
			})
		}
	}
}

// ---------------------------------------------------------------------------
// part level

var c06FaultParts = []string{"[Content_Types].xml", "_rels/.rels", "word/document.xml", "word/styles.xml", "word/_rels/document.xml.rels"}
var c06FaultKinds = []string{"missing", "empty", "not-xml", "wrong-root", "strict-namespace-root"}

func c06Fault(name string, orig []byte, kind string) (data []byte, keep bool) {
	switch kind {
	case "missing":
		return nil, false
	case "empty":
		return []byte{}, true
	case "not-xml":
		return []byte("this is not XML \x00\x01\xff at all <<<"), true
	case "wrong-root":
		return []byte(c06Decl + `<foo xmlns="urn:c06:other"><bar/></foo>`), true
	}
	// root (and its default/prefixed namespace) moved to a strict/other namespace
	s := string(orig)
	for _, ns := range []string{c06NsW, "http://schemas.openxmlformats.org/package/2006/content-types", "http://schemas.openxmlformats.org/package/2006/relationships"} {
		s = strings.ReplaceAll(s, `"`+ns+`"`, `"`+strings.Replace(ns, "http://schemas.openxmlformats.org/", "http://purl.oclc.org/ooxml/", 1)+`"`)
	}
	s = strings.ReplaceAll(s, `"http://purl.oclc.org/ooxml/wordprocessingml/2006/main"`, `"`+c06NsStrict+`"`)
	return []byte(s), true
}

func (w *c06W) genPartLevel(idx *int64, seeds []c06Seed) {
	var base *c06Seed
	for i := range seeds {
		if seeds[i].name == "drawing" {
			base = &seeds[i]
		}
	}
	if base == nil || len(base.main) == 0 {
		w.c.P.HarnessErrs = append(w.c.P.HarnessErrs, "part level: no base seed")
		return
	}
	type fault struct{ part, kind int }
	var sets [][]fault
	for p := range c06FaultParts {
		for k := range c06FaultKinds {
			sets = append(sets, []fault{{p, k}})
		}
	}
	for p := range c06FaultParts {
		for q := p + 1; q < len(c06FaultParts); q++ {
			for k := range c06FaultKinds {
				for l := range c06FaultKinds {
					sets = append(sets, []fault{{p, k}, {q, l}})
				}
			}
		}
	}
	for _, fs := range sets {
		fs := fs
		build := func() []byte {
			var ps []foreign.Part
			for _, pt := range base.parts {
				keep := true
				for _, f := range fs {
					if c06FaultParts[f.part] == pt.Name {
						pt.Data, keep = c06Fault(pt.Name, pt.Data, c06FaultKinds[f.kind])
					}
				}
				if keep {
					ps = append(ps, pt)
				}
			}
			return c06StoreZip(ps)
		}
		for _, viaFile := range []bool{false, true} {
			i := *idx
			*idx++
			if !w.mine(i) {
				continue
			}
			viaFile := viaFile
			desc := func() interface{} {
				var l []string
				for _, f := range fs {
					l = append(l, c06FaultParts[f.part]+"="+c06FaultKinds[f.kind])
				}
				return map[string]interface{}{"group": "part", "base_seed": base.name, "faults": l, "entry": map[bool]string{false: "OpenFromMemory", true: "Open"}[viaFile]}
			}
			if !w.c.Begin(i, desc) {
				continue
			}
			w.run(i, desc, &c06Input{group: "part", data: build(), viaFile: viaFile, size: len(fs), battery: true})
		}
	}
}

// ---------------------------------------------------------------------------
// ZIP level

func (w *c06W) rawCase(idx *int64, group, what string, pos int, size int, build func() []byte) {
	for _, viaFile := range []bool{false, true} {
		i := *idx
		*idx++
		if !w.mine(i) {
			continue
		}
		viaFile := viaFile
		desc := func() interface{} {
			return map[string]interface{}{"group": group, "input": what, "position": pos, "entry": map[bool]string{false: "OpenFromMemory", true: "Open"}[viaFile]}
		}
		if !w.c.Begin(i, desc) {
			continue
		}
		t0 := time.Now()
		w.run(i, desc, &c06Input{group: group, data: build(), viaFile: viaFile, size: size, battery: true, noSave: group == "depth" && pos >= 10000 && strings.HasPrefix(what, "tbl>tr>tc nested")})
		if group == "depth" && os.Getenv("C06_TIMES") != "" {
			w.c.P.Add(fmt.Sprintf("ms.%s %d", what, pos), time.Since(t0).Milliseconds())
		}
	}
}

func c06ZipRecordBoundaries(z []byte) []int {
	m := map[int]bool{0: true, len(z): true}
	for _, sig := range []string{"PK\x03\x04", "PK\x01\x02", "PK\x05\x06", "PK\x07\x08"} {
		for i := 0; ; {
			j := bytes.Index(z[i:], []byte(sig))
			if j < 0 {
				break
			}
			m[i+j] = true
			i += j + 4
		}
	}
	var out []int
	for k := range m {
		out = append(out, k)
	}
	sort.Ints(out)
	return out
}

func (w *c06W) genZipLevel(idx *int64, seeds []c06Seed) {
	mini := &seeds[0]
	var small []foreign.Part
	for _, p := range mini.parts {
		if p.Name == "[Content_Types].xml" || p.Name == "_rels/.rels" || p.Name == "word/document.xml" {
			small = append(small, p)
		}
	}
	z := c06StoreZip(small)
	w.c.P.Add("zip.small_archive_bytes", 0)
	// every prefix (the record boundaries are among them; listed in the description for orientation)
	for k := 0; k <= len(z); k++ {
		k := k
		w.rawCase(idx, "zip", "prefix of the small archive", k, k, func() []byte { return z[:k] })
	}
	for k := 0; k < len(z); k++ {
		for _, v := range []byte{0x00, 0xFF} {
			k, v := k, v
			if z[k] == v {
				v ^= 0x55
			}
			w.rawCase(idx, "zip", fmt.Sprintf("byte replaced by 0x%02X", v), k, len(z), func() []byte {
				o := append([]byte{}, z...)
				o[k] = v
				return o
			})
		}
	}
	main := mini.main
	deflated := func(parts []foreign.Part) []byte { return foreign.RawZip(parts) }
	others := []struct {
		what string
		f    func() []byte
	}{
		{"empty input", func() []byte { return []byte{} }},
		{"text bytes", func() []byte { return []byte("hello, this is not a zip archive") }},
		{"PK signature only", func() []byte { return []byte("PK\x03\x04") }},
		{"end-of-central-directory record only", func() []byte {
			return []byte("PK\x05\x06\x00\x00\x00\x00\x00\x00\x00\x00\x00\x00\x00\x00\x00\x00\x00\x00\x00\x00")
		}},
		{"64 KiB of zero bytes", func() []byte { return make([]byte, 65536) }},
		{"gzip header", func() []byte {
			return []byte("\x1f\x8b\x08\x00\x00\x00\x00\x00\x00\x03\x03\x00\x00\x00\x00\x00\x00\x00\x00\x00")
		}},
		{"deterministic pseudo-random 4 KiB", func() []byte {
			o := make([]byte, 4096)
			x := uint32(12345)
			for i := range o {
				x = x*1664525 + 1013904223
				o[i] = byte(x >> 24)
			}
			return o
		}},
		{"the main part alone (raw XML, not zipped)", func() []byte { return main }},
		{"archive without entries", func() []byte { return c06StoreZip(nil) }},
		{"duplicate main part: good then empty", func() []byte {
			return c06StoreZip(append(append([]foreign.Part{}, small...), foreign.Part{Name: "word/document.xml", Data: nil}))
		}},
		{"duplicate main part: empty then good", func() []byte {
			return c06StoreZip(append([]foreign.Part{{Name: "word/document.xml", Data: nil}}, small...))
		}},
		{"duplicate main part: twice the same", func() []byte {
			return c06StoreZip(append(append([]foreign.Part{}, small...), foreign.Part{Name: "word/document.xml", Data: main}))
		}},
		{"all entries duplicated", func() []byte { return c06StoreZip(append(append([]foreign.Part{}, small...), small...)) }},
		{"directory entries word/ and word/media/", func() []byte {
			return c06StoreZip(append([]foreign.Part{{Name: "word/"}, {Name: "word/media/"}, {Name: "_rels/"}}, small...))
		}},
		{"main part name is a directory entry", func() []byte {
			return c06StoreZip([]foreign.Part{small[0], small[1], {Name: "word/document.xml/"}})
		}},
		{"directory entry carrying data", func() []byte {
			return c06StoreZip(append([]foreign.Part{{Name: "word/media/", Data: []byte("data in a directory")}}, small...))
		}},
		{"odd entry names", func() []byte {
			return c06StoreZip(append([]foreign.Part{{Name: "../evil.xml", Data: []byte("<a/>")}, {Name: "/abs.xml", Data: []byte("<a/>")}, {Name: "", Data: []byte("x")},
				{Name: "word\\document.xml", Data: []byte("<a/>")}, {Name: "word/media/image99999999999999999999.png", Data: []byte("x")}, {Name: "word/media/image-7.png", Data: []byte("x")},
				{Name: "WORD/DOCUMENT.XML", Data: []byte("<a/>")}, {Name: strings.Repeat("n", 70000), Data: []byte("x")}}, small...))
		}},
		{"deflated archive (ordinary)", func() []byte { return deflated(small) }},
		{"deflated archive with a corrupted compressed byte in every entry", func() []byte {
			o := deflated(small)
			for _, sig := range c06ZipRecordBoundaries(o) {
				if sig+45 < len(o) && bytes.HasPrefix(o[sig:], []byte("PK\x03\x04")) {
					n := int(o[sig+26]) | int(o[sig+27])<<8
					e := int(o[sig+28]) | int(o[sig+29])<<8
					if p := sig + 30 + n + e + 5; p < len(o) {
						o[p] ^= 0xA5
					}
				}
			}
			return o
		}},
		{"unsupported compression method 99", func() []byte {
			o := append([]byte{}, z...)
			for _, sig := range c06ZipRecordBoundaries(o) {
				if bytes.HasPrefix(o[sig:], []byte("PK\x03\x04")) && sig+10 < len(o) {
					o[sig+8] = 99
				}
				if bytes.HasPrefix(o[sig:], []byte("PK\x01\x02")) && sig+12 < len(o) {
					o[sig+10] = 99
				}
			}
			return o
		}},
		{"encrypted flag set", func() []byte {
			o := append([]byte{}, z...)
			for _, sig := range c06ZipRecordBoundaries(o) {
				if bytes.HasPrefix(o[sig:], []byte("PK\x03\x04")) && sig+8 < len(o) {
					o[sig+6] |= 1
				}
				if bytes.HasPrefix(o[sig:], []byte("PK\x01\x02")) && sig+10 < len(o) {
					o[sig+8] |= 1
				}
			}
			return o
		}},
		{"archive followed by 1 KiB of trailing bytes", func() []byte { return append(append([]byte{}, z...), bytes.Repeat([]byte{'t'}, 1024)...) }},
		{"archive preceded by 1 KiB of leading bytes", func() []byte { return append(bytes.Repeat([]byte{'l'}, 1024), z...) }},
		{"main part with UTF-16 byte order mark", func() []byte {
			return c06MinimalZip(append([]byte{0xFF, 0xFE}, main...))
		}},
		{"main part with UTF-8 byte order mark", func() []byte {
			return c06MinimalZip(append([]byte{0xEF, 0xBB, 0xBF}, main...))
		}},
		{"main part declaring an unsupported encoding", func() []byte {
			return c06MinimalZip(bytes.Replace(main, []byte(`encoding="UTF-8"`), []byte(`encoding="ISO-8859-1"`), 1))
		}},
		{"main part with a DOCTYPE and entity definitions", func() []byte {
			return c06MinimalZip(bytes.Replace(main, []byte("<w:document"), []byte(`<!DOCTYPE d [<!ENTITY a "aaaaaaaaaa"><!ENTITY b "&a;&a;&a;&a;&a;&a;&a;&a;">]><w:document`), 1))
		}},
		{"main part with text &b; referencing an undefined entity", func() []byte {
			return c06MinimalZip(bytes.Replace(main, []byte("<w:t>a</w:t>"), []byte("<w:t>&b;&#0;&#xD800;</w:t>"), 1))
		}},
	}
	for i, o := range others {
		w.rawCase(idx, "zip", o.what, i, i, o.f)
	}
	// one extra entry per archive, its name built from the name prefixes a package reader dispatches on and
	// suffixes that do not have the usual <digits>.<extension> form
	k := 0
	for _, pre := range []string{"word/media/image", "word/media/", "word/header", "word/footer", "word/", "word/document", "word/styles", "word/numbering",
		"word/footnotes", "word/theme/", "word/_rels/", "_rels/", "docProps/", "customXml/", ""} {
		for _, suf := range []string{"", "1", ".", "1.", ".png", "1.PNG", "-1.png", "007.jpeg", "1.xml", ".xml.rels", "/", "1/", "x", "1.png.bak", "%31.png", " 1.png"} {
			for _, upper := range []bool{false, true} {
				name := pre + suf
				if upper {
					name = strings.ToUpper(name)
					if name == pre+suf {
						continue
					}
				}
				if name == "" {
					continue
				}
				entry := name
				w.rawCase(idx, "zip", fmt.Sprintf("one extra entry named %q", entry), k, len(entry), func() []byte {
					return c06StoreZip(append(append([]foreign.Part{}, small...), foreign.Part{Name: entry, Data: []byte("x")}))
				})
				k++
			}
		}
	}
}

// ---------------------------------------------------------------------------
// depth and repetition

func c06Rep(s string, n int) string { return strings.Repeat(s, n) }

func (w *c06W) genDepth(idx *int64) {
	doc := func(body string) []byte { return c06MinimalZip([]byte(c06DocOpen + body + c06DocClose)) }
	para := `<w:p><w:r><w:t>x</w:t></w:r></w:p>`
	cases := []struct {
		what string
		n    int
		f    func() []byte
	}{}
	add := func(what string, n int, f func() []byte) {
		cases = append(cases, struct {
			what string
			n    int
			f    func() []byte
		}{what, n, f})
	}
	for _, n := range []int{1, 10, 100, 1000, 10000} {
		n := n
		add("tbl>tr>tc nested", n, func() []byte {
			return doc(c06Rep(`<w:tbl><w:tr><w:tc>`, n) + para + c06Rep(`</w:tc></w:tr></w:tbl>`, n))
		})
	}
	add("unknown elements nested", 100000, func() []byte { return doc(c06Rep(`<w:zz>`, 100000) + c06Rep(`</w:zz>`, 100000)) })
	add("paragraphs nested in paragraphs", 10000, func() []byte { return doc(c06Rep(`<w:p><w:r>`, 10000) + c06Rep(`</w:r></w:p>`, 10000)) })
	add("unclosed tbl>tr>tc nesting", 10000, func() []byte { return doc(c06Rep(`<w:tbl><w:tr><w:tc>`, 10000)) })
	add("sibling runs in one paragraph", 100000, func() []byte {
		return doc(`<w:p>` + c06Rep(`<w:r><w:rPr><w:b/></w:rPr><w:t>x</w:t></w:r>`, 100000) + `</w:p>`)
	})
	add("sibling paragraphs", 100000, func() []byte { return doc(c06Rep(para, 100000)) })
	add("table rows", 10000, func() []byte {
		return doc(`<w:tbl><w:tblGrid><w:gridCol w:w="1"/><w:gridCol w:w="1"/><w:gridCol w:w="1"/></w:tblGrid>` + c06Rep(`<w:tr>`+c06Rep(`<w:tc>`+para+`</w:tc>`, 3)+`</w:tr>`, 10000) + `</w:tbl>`)
	})
	add("sibling section properties", 10000, func() []byte { return doc(c06Rep(`<w:sectPr><w:pgSz w:w="1" w:h="1"/></w:sectPr>`, 10000)) })
	add("attributes on one element", 100000, func() []byte {
		var b strings.Builder
		b.WriteString(`<w:p><w:pPr><w:jc`)
		for i := 0; i < 100000; i++ {
			fmt.Fprintf(&b, ` w:a%d="v"`, i)
		}
		b.WriteString(` w:val="center"/></w:pPr></w:p>`)
		return doc(b.String())
	})
	add("one text of bytes", 5000000, func() []byte { return doc(`<w:p><w:r><w:t>` + c06Rep("x", 5000000) + `</w:t></w:r></w:p>`) })
	add("nested elements in the styles part", 10000, func() []byte {
		st := c06Decl + `<w:styles xmlns:w="` + c06NsW + `">` + c06Rep(`<w:style w:type="paragraph" w:styleId="S"><w:pPr><w:rPr>`, 10000) + c06Rep(`</w:rPr></w:pPr></w:style>`, 10000) + `</w:styles>`
		return c06StoreZip([]foreign.Part{{Name: "[Content_Types].xml", Data: []byte(c06CT)}, {Name: "_rels/.rels", Data: []byte(c06Rels)},
			{Name: "word/document.xml", Data: []byte(c06DocOpen + para + c06DocClose)}, {Name: "word/styles.xml", Data: []byte(st)}})
	})
	add("sibling styles in the styles part", 20000, func() []byte {
		var b strings.Builder
		b.WriteString(c06Decl + `<w:styles xmlns:w="` + c06NsW + `">`)
		for i := 0; i < 20000; i++ {
			fmt.Fprintf(&b, `<w:style w:type="paragraph" w:styleId="S%d"><w:name w:val="S%d"/><w:basedOn w:val="S%d"/></w:style>`, i, i, i+1)
		}
		b.WriteString(`</w:styles>`)
		return c06StoreZip([]foreign.Part{{Name: "[Content_Types].xml", Data: []byte(c06CT)}, {Name: "_rels/.rels", Data: []byte(c06Rels)},
			{Name: "word/document.xml", Data: []byte(c06DocOpen + `<w:p><w:pPr><w:pStyle w:val="S0"/></w:pPr><w:r><w:t>x</w:t></w:r></w:p>` + c06DocClose)}, {Name: "word/styles.xml", Data: []byte(b.String())}})
	})
	add("entries in content types and relationships", 100000, func() []byte {
		ct := strings.Replace(c06CT, `</Types>`, c06Rep(`<Default Extension="e" ContentType="t/t"/>`, 100000)+`</Types>`, 1)
		rl := strings.Replace(c06Rels, `</Relationships>`, c06Rep(`<Relationship Id="rId7" Type="t" Target="x"/>`, 100000)+`</Relationships>`, 1)
		return c06StoreZip([]foreign.Part{{Name: "[Content_Types].xml", Data: []byte(ct)}, {Name: "_rels/.rels", Data: []byte(rl)},
			{Name: "word/document.xml", Data: []byte(c06DocOpen + para + c06DocClose)}, {Name: "word/_rels/document.xml.rels", Data: []byte(rl)}})
	})
	add("archive entries", 20000, func() []byte {
		ps := []foreign.Part{{Name: "[Content_Types].xml", Data: []byte(c06CT)}, {Name: "_rels/.rels", Data: []byte(c06Rels)}, {Name: "word/document.xml", Data: []byte(c06DocOpen + para + c06DocClose)}}
		for i := 0; i < 20000; i++ {
			ps = append(ps, foreign.Part{Name: fmt.Sprintf("word/media/image%d.png", i), Data: []byte("x")})
		}
		return c06StoreZip(ps)
	})
	for _, cs := range cases {
		cs := cs
		w.rawCase(idx, "depth", cs.what, cs.n, cs.n, cs.f)
	}
}
