package main

// C19 part B: expected model from the harness tree, observed model from the saved package (read
// through pkgmodel), and the comparison.

import (
	"fmt"
	"regexp"
	"strconv"
	"strings"
	"unicode"

	"verif/harness/internal/pkgmodel"
	"verif/harness/internal/rep"
)

const (
	c19Italic = iota
	c19Bold
	c19Strike
	c19Mono
)

var c19PropName = [4]string{"italic", "bold", "strike", "mono"}

// ---------------------------------------------------------------------------
// expected

type c19XChar struct {
	R     rune
	Cons  string // construct path, e.g. "quote>bullet-list", "nested-list"
	Inl   string // inline path, e.g. "em>strong"
	Ctx   string // para | heading | item | quote | cell | hcell | code | math
	F     [4]bool
	Dis   bool   // inside a construct that the option set disables (literal text)
	Sep   string // "" or the culprit of the separation required before this character
	Depth int    // inline nesting depth
}

type c19XHead struct {
	Level int
	S, E  int
	Nest  string
}
type c19XCode struct {
	Kind  string
	Lines []string
	S, E  int
}
type c19XTable struct {
	Rows, Cols int
	Cells      [][]string // white-space-free text
	Aligns     string
	S, E       int
}
type c19XTask struct {
	Checked bool
	S       int
	List    int
}

type c19Expect struct {
	Chars  []c19XChar
	Heads  []c19XHead
	Codes  []c19XCode
	Tables []c19XTable
	Tasks  []c19XTask
	Extras map[rune]bool
	Flags  string
	TaskOn bool
}

func (e *c19Expect) Stream() string {
	var b strings.Builder
	for _, c := range e.Chars {
		b.WriteRune(c.R)
	}
	return b.String()
}

type c19XB struct {
	e                                 *c19Expect
	strikeOn, tableOn, taskOn, mathOn bool
	gfm                               bool
	pendingSep                        string
	units                             int
	lists                             int
}

func (x *c19XB) emit(s string, cons, inl, ctx string, f [4]bool, dis bool, depth int) {
	for _, r := range s {
		if unicode.IsSpace(r) {
			continue
		}
		x.e.Chars = append(x.e.Chars, c19XChar{R: r, Cons: cons, Inl: inl, Ctx: ctx, F: f, Dis: dis, Sep: x.pendingSep, Depth: depth})
		x.pendingSep = ""
	}
}

func (x *c19XB) inlines(in []c19Inl, cons, inl, ctx string, f [4]bool, dis bool, depth int) {
	join := func(k string) string {
		if inl == "" {
			return k
		}
		return inl + ">" + k
	}
	for _, n := range in {
		switch n.K {
		case "t", "lit":
			x.emit(n.T, cons, inl, ctx, f, dis, depth)
		case "soft":
			if x.pendingSep == "" {
				x.pendingSep = "soft-break@" + ctx
			}
		case "hard", "hardbs":
			if x.pendingSep == "" {
				x.pendingSep = "hard-break@" + ctx
			}
		case "em":
			g := f
			g[c19Italic] = true
			x.inlines(n.Kids, cons, join("em"), ctx, g, dis, depth+1)
		case "strong":
			g := f
			g[c19Bold] = true
			x.inlines(n.Kids, cons, join("strong"), ctx, g, dis, depth+1)
		case "strike":
			if x.strikeOn {
				g := f
				g[c19Strike] = true
				x.inlines(n.Kids, cons, join("strike"), ctx, g, dis, depth+1)
			} else {
				x.e.Extras['~'] = true
				x.inlines(n.Kids, cons, join("strike"), ctx, f, true, depth+1)
			}
		case "link":
			x.inlines(n.Kids, cons, join("link"), ctx, f, dis, depth+1)
		case "auto", "bare":
			x.emit(n.T, cons, join("autolink"), ctx, f, dis, depth+1)
		case "code":
			g := f
			g[c19Mono] = true
			x.emit(n.T, cons, join("code"), ctx, g, dis, depth+1)
		case "math":
			if x.mathOn {
				x.emit(n.T, cons, join("inline-math"), ctx, f, dis, depth+1)
			} else {
				x.e.Extras['$'] = true
				x.emit(n.T, cons, join("inline-math"), ctx, f, true, depth+1)
			}
		}
	}
}

// unit starts a new leaf unit: the next character must be separated from the previous unit.
func (x *c19XB) unit(culprit string) {
	if x.units > 0 {
		x.pendingSep = "blocks:" + culprit
	}
	x.units++
}

func c19ListCons(b *c19Blk, depth int) string {
	if depth > 0 {
		return "nested-list"
	}
	for _, i := range b.Items {
		if i.Checked != 0 {
			return "task-list"
		}
	}
	if b.Loose {
		return "loose-list"
	}
	if b.K == "ol" {
		return "ordered-list"
	}
	return "bullet-list"
}

func (x *c19XB) blocks(bs []c19Blk, prefix string, listDepth int, inQuote bool) {
	p := func(s string) string {
		if prefix == "" {
			return s
		}
		return prefix + ">" + s
	}
	for i := range bs {
		b := &bs[i]
		switch b.K {
		case "h":
			x.unit(p("heading"))
			s := len(x.e.Chars)
			x.inlines(b.In, p("heading"), "", "heading", [4]bool{}, false, 0)
			x.e.Heads = append(x.e.Heads, c19XHead{Level: b.Level, S: s, E: len(x.e.Chars), Nest: prefix})
		case "p":
			cons, ctx := p("paragraph"), "para"
			if inQuote {
				ctx = "quote"
			}
			if listDepth > 0 {
				ctx = "item"
			}
			if prefix != "" && !strings.HasSuffix(prefix, "list") {
				cons = prefix // a paragraph directly inside a quote is named by the quote
			}
			x.unit(cons)
			x.inlines(b.In, cons, "", ctx, [4]bool{}, false, 0)
		case "ul", "ol":
			cons := p(c19ListCons(b, listDepth))
			if listDepth > 0 {
				cons = prefix + ">nested-list"
				if strings.HasSuffix(prefix, "-list") && !strings.Contains(prefix, ">") {
					cons = "nested-list"
				}
			}
			x.lists++
			lid := x.lists
			for _, item := range b.Items {
				x.unit(cons)
				if item.Checked != 0 {
					if !x.taskOn { // literal "[x]" (parser without task lists) or kept as text by a renderer whose task switch is off
						x.e.Extras['['], x.e.Extras[']'], x.e.Extras['x'] = true, true, true
					}
					x.e.Tasks = append(x.e.Tasks, c19XTask{Checked: item.Checked == 2, S: len(x.e.Chars), List: lid})
				}
				x.inlines(item.In, cons, "", "item", [4]bool{}, false, 0)
				x.blocks(item.Kids, cons, listDepth+1, inQuote)
			}
		case "quote":
			x.blocks(b.Kids, p("quote"), listDepth, true)
		case "fence", "tilde", "indent":
			kind := "fenced-code"
			if b.K == "indent" {
				kind = "indented-code"
			}
			s := len(x.e.Chars)
			for _, l := range b.Lines {
				x.unit(p(kind))
				x.emit(l, p(kind), "", "code", [4]bool{}, false, 0)
			}
			x.e.Codes = append(x.e.Codes, c19XCode{Kind: p(kind), Lines: b.Lines, S: s, E: len(x.e.Chars)})
		case "rule":
			// no text; the next unit is separated anyway
		case "math":
			x.unit(p("block-math"))
			if !x.mathOn {
				x.e.Extras['$'] = true
			}
			x.emit("a+b", p("block-math"), "", "math", [4]bool{}, !x.mathOn, 0)
		case "table":
			s := len(x.e.Chars)
			t := c19XTable{Rows: len(b.Rows), Cols: len(b.Aligns), Aligns: b.Aligns}
			if !x.tableOn {
				x.e.Extras['|'], x.e.Extras['-'], x.e.Extras[':'] = true, true, true
			}
			for ri, row := range b.Rows {
				var cells []string
				for _, cell := range row {
					x.unit(p("table"))
					ctx := "cell"
					if ri == 0 {
						ctx = "hcell"
					}
					c0 := len(x.e.Chars)
					x.inlines(cell, p("table"), "", ctx, [4]bool{}, !x.tableOn, 0)
					var sb strings.Builder
					for _, ch := range x.e.Chars[c0:] {
						sb.WriteRune(ch.R)
					}
					cells = append(cells, sb.String())
				}
				t.Cells = append(t.Cells, cells)
			}
			t.S, t.E = s, len(x.e.Chars)
			if x.tableOn {
				x.e.Tables = append(x.e.Tables, t)
			}
		}
	}
}

func c19Expected(doc []c19Blk, o c19Opt) *c19Expect {
	x := &c19XB{e: &c19Expect{Extras: map[rune]bool{}}, gfm: o.GFM, strikeOn: o.GFM, tableOn: o.GFM && o.Tab, taskOn: o.GFM && o.Task, mathOn: o.Math}
	x.blocks(doc, "", 0, false)
	x.e.TaskOn = x.taskOn
	var ex []string
	for r := range x.e.Extras {
		ex = append(ex, string(r))
	}
	x.e.Flags = fmt.Sprintf("%v%v%v%v%v", x.gfm, x.strikeOn, x.tableOn, x.taskOn, x.mathOn)
	_ = ex
	return x.e
}

// ---------------------------------------------------------------------------
// observed

type c19ORune struct {
	R         rune
	Eff, Base [4]bool
}

type c19OPara struct {
	Style, StyleName, Jc string
	Tbl, Row, Col        int
	Runes                []c19ORune
	MarkerLen            int    // leading runes that are a list marker added by the renderer
	Aux                  string // non-text state carriers (check boxes, symbols)
}

func (p *c19OPara) Raw() string {
	var b strings.Builder
	for _, r := range p.Runes {
		b.WriteRune(r.R)
	}
	return b.String()
}

type c19OTable struct {
	Cells [][][]int // row -> cell -> paragraph indices
}

type c19Observed struct {
	Paras  []c19OPara
	Tables []c19OTable
}

func (o *c19Observed) ParaTexts() []string {
	var out []string
	for _, p := range o.Paras {
		s := p.Raw()
		if p.Style != "" {
			s = "[" + p.Style + "] " + s
		}
		if p.Tbl >= 0 {
			s = fmt.Sprintf("(table %d r%d c%d) %s", p.Tbl, p.Row, p.Col, s)
		}
		out = append(out, s)
	}
	return out
}

type c19Tri int8 // 0 unset, 1 on, -1 off

type c19RPr struct {
	P    [3]c19Tri // italic, bold, strike
	Font string
}

type c19Style struct {
	BasedOn, Name, Type string
	R                   c19RPr
}

var c19MonoFonts = map[string]bool{"consolas": true, "courier new": true, "courier": true, "monaco": true, "menlo": true, "lucida console": true,
	"dejavu sans mono": true, "source code pro": true, "fira code": true, "fira mono": true, "cascadia code": true, "cascadia mono": true, "sf mono": true,
	"andale mono": true, "monospace": true, "liberation mono": true, "ubuntu mono": true, "jetbrains mono": true, "roboto mono": true, "lucida sans typewriter": true}

func c19OnOff(n *pkgmodel.Node) c19Tri {
	if n == nil {
		return 0
	}
	switch strings.ToLower(n.AttrW("val")) {
	case "0", "false", "off", "none":
		return -1
	}
	return 1
}

func c19ReadRPr(n *pkgmodel.Node) (r c19RPr, rStyle string) {
	if n == nil {
		return
	}
	r.P[c19Italic] = c19OnOff(n.Child(pkgmodel.NsW, "i"))
	r.P[c19Bold] = c19OnOff(n.Child(pkgmodel.NsW, "b"))
	r.P[c19Strike] = c19OnOff(n.Child(pkgmodel.NsW, "strike"))
	if r.P[c19Strike] != 1 {
		if d := c19OnOff(n.Child(pkgmodel.NsW, "dstrike")); d == 1 {
			r.P[c19Strike] = 1
		}
	}
	if f := n.Child(pkgmodel.NsW, "rFonts"); f != nil {
		for _, a := range []string{"ascii", "hAnsi", "eastAsia", "cs"} {
			if v := f.AttrW(a); v != "" {
				r.Font = v
				break
			}
		}
	}
	if s := n.Child(pkgmodel.NsW, "rStyle"); s != nil {
		rStyle = s.AttrW("val")
	}
	return
}

func (a c19RPr) over(b c19RPr) c19RPr { // b overrides a
	for i := range a.P {
		if b.P[i] != 0 {
			a.P[i] = b.P[i]
		}
	}
	if b.Font != "" {
		a.Font = b.Font
	}
	return a
}

func (a c19RPr) flags() (f [4]bool) {
	for i := 0; i < 3; i++ {
		f[i] = a.P[i] == 1
	}
	f[c19Mono] = c19MonoFonts[strings.ToLower(strings.TrimSpace(a.Font))]
	return
}

type c19Styles struct {
	m    map[string]*c19Style
	defs c19RPr
}

func c19ReadStyles(pk *pkgmodel.Pkg) *c19Styles {
	st := &c19Styles{m: map[string]*c19Style{}}
	root := pk.XML["word/styles.xml"]
	if root == nil {
		return st
	}
	if dd := root.Child(pkgmodel.NsW, "docDefaults"); dd != nil {
		if d := dd.Child(pkgmodel.NsW, "rPrDefault"); d != nil {
			st.defs, _ = c19ReadRPr(d.Child(pkgmodel.NsW, "rPr"))
		}
	}
	for _, s := range root.Children(pkgmodel.NsW, "style") {
		cs := &c19Style{Type: s.AttrW("type")}
		if b := s.Child(pkgmodel.NsW, "basedOn"); b != nil {
			cs.BasedOn = b.AttrW("val")
		}
		if n := s.Child(pkgmodel.NsW, "name"); n != nil {
			cs.Name = n.AttrW("val")
		}
		cs.R, _ = c19ReadRPr(s.Child(pkgmodel.NsW, "rPr"))
		st.m[s.AttrW("styleId")] = cs
	}
	return st
}

func (st *c19Styles) resolve(id string) c19RPr {
	var chain []*c19Style
	for n := 0; id != "" && n < 20; n++ {
		s := st.m[id]
		if s == nil {
			break
		}
		chain = append(chain, s)
		id = s.BasedOn
	}
	var r c19RPr
	for i := len(chain) - 1; i >= 0; i-- {
		r = r.over(chain[i].R)
	}
	return r
}

var c19MarkerRe = regexp.MustCompile(`^[ \t\x{a0}]*(?:(?:[•◦▪‣·○●■□☐☑☒✓✔*+-]|[0-9]+[.)])[ \t\x{a0}]+)+`)

func c19Observe(pk *pkgmodel.Pkg) *c19Observed {
	o := &c19Observed{}
	st := c19ReadStyles(pk)
	body := pk.Body()
	W := pkgmodel.NsW
	var doPara func(p *pkgmodel.Node, tbl, row, col int)
	doPara = func(p *pkgmodel.Node, tbl, row, col int) {
		op := c19OPara{Tbl: tbl, Row: row, Col: col}
		if ppr := p.Child(W, "pPr"); ppr != nil {
			if s := ppr.Child(W, "pStyle"); s != nil {
				op.Style = s.AttrW("val")
				if d := st.m[op.Style]; d != nil {
					op.StyleName = d.Name
				}
			}
			if j := ppr.Child(W, "jc"); j != nil {
				op.Jc = j.AttrW("val")
			}
		}
		base := st.defs.over(st.resolve(op.Style))
		baseF := base.flags()
		var aux []string
		add := func(s string, eff [4]bool) {
			for _, r := range s {
				op.Runes = append(op.Runes, c19ORune{R: r, Eff: eff, Base: baseF})
			}
		}
		var walk func(n *pkgmodel.Node)
		walk = func(n *pkgmodel.Node) {
			for _, k := range n.Kids {
				if k.IsText {
					continue
				}
				switch {
				case k.Space == W && k.Local == "pPr", k.Space == W && k.Local == "del", k.Space == W && k.Local == "rPr":
				case k.Space == W && k.Local == "r":
					direct, rs := c19ReadRPr(k.Child(W, "rPr"))
					eff := base.over(st.resolve(rs)).over(direct).flags()
					for _, c := range k.Kids {
						if c.IsText {
							continue
						}
						switch c.Local {
						case "t":
							add(c.InnerText(), eff)
						case "tab":
							add("\t", eff)
						case "br", "cr":
							add("\v", eff)
						case "noBreakHyphen":
							add("-", eff)
						case "sym":
							add("￼", eff)
							aux = append(aux, "sym:"+c.AttrW("char"))
						}
					}
				case k.Space == pkgmodel.NsM && k.Local == "t":
					add(k.InnerText(), baseF)
				case k.Space == W && k.Local == "p":
					// nested paragraph (text box): not produced; ignore
				default:
					switch k.Local {
					case "checked", "checkBox", "checkbox", "default":
						v := ""
						for _, a := range k.Attrs {
							v += a.Local + "=" + a.Val + ";"
						}
						aux = append(aux, k.Local+":"+v)
					}
					walk(k)
				}
			}
		}
		walk(p)
		op.Aux = strings.Join(aux, ",")
		if m := c19MarkerRe.FindString(op.Raw()); m != "" {
			op.MarkerLen = len([]rune(m))
		}
		o.Paras = append(o.Paras, op)
	}
	var doTable func(t *pkgmodel.Node)
	var walkBlock func(n *pkgmodel.Node, tbl, row, col int)
	walkBlock = func(n *pkgmodel.Node, tbl, row, col int) {
		for _, k := range n.Kids {
			if k.IsText {
				continue
			}
			switch {
			case k.Space == W && k.Local == "p":
				doPara(k, tbl, row, col)
				if tbl >= 0 {
					c := &o.Tables[tbl].Cells[row][col]
					*c = append(*c, len(o.Paras)-1)
				}
			case k.Space == W && k.Local == "tbl" && tbl < 0:
				doTable(k)
			default:
				walkBlock(k, tbl, row, col)
			}
		}
	}
	doTable = func(t *pkgmodel.Node) {
		ti := len(o.Tables)
		o.Tables = append(o.Tables, c19OTable{})
		for ri, tr := range t.Children(W, "tr") {
			o.Tables[ti].Cells = append(o.Tables[ti].Cells, nil)
			for ci, tc := range tr.Children(W, "tc") {
				o.Tables[ti].Cells[ri] = append(o.Tables[ti].Cells[ri], nil)
				walkBlock(tc, ti, ri, ci)
			}
		}
	}
	if body != nil {
		walkBlock(body, -1, -1, -1)
	}
	return o
}

// ---------------------------------------------------------------------------
// comparison

type c19OChar struct {
	R         rune
	Para      int
	Eff, Base [4]bool
	Sep       bool
}

func c19ObsStream(o *c19Observed, extras map[rune]bool) []c19OChar {
	var out []c19OChar
	for pi := range o.Paras {
		p := &o.Paras[pi]
		sep := true
		for i, r := range p.Runes {
			if i < p.MarkerLen || unicode.IsSpace(r.R) || r.R == '\v' || extras[r.R] {
				sep = true
				continue
			}
			out = append(out, c19OChar{R: r.R, Para: pi, Eff: r.Eff, Base: r.Base, Sep: sep})
			sep = false
		}
	}
	return out
}

func c19IsSubseq(a, b []rune) bool { // a is a subsequence of b
	i := 0
	for _, r := range b {
		if i < len(a) && a[i] == r {
			i++
		}
	}
	return i == len(a)
}

func c19NoSpace(s string) string {
	var b strings.Builder
	for _, r := range s {
		if !unicode.IsSpace(r) && r != '\v' {
			b.WriteRune(r)
		}
	}
	return b.String()
}

func c19NoSpaceExtras(s string, extras map[rune]bool) string {
	var b strings.Builder
	for _, r := range c19NoSpace(s) {
		if !extras[r] {
			b.WriteRune(r)
		}
	}
	return b.String()
}

// c19StreamCulprit names the construct responsible for a text-stream difference.  When the
// difference is explained by the loss of one whole construct (or of all text of disabled
// constructs) that construct is named, otherwise the construct at the first differing offset.
func c19StreamCulprit(e *c19Expect, er, or []rune, d int, kind string) string {
	if len(e.Chars) == 0 {
		return "empty-document"
	}
	name := func(c c19XChar, inl bool) string {
		s := c.Cons
		if inl && c.Inl != "" && !c.Dis {
			s += ":" + c.Inl
		}
		if c.Dis {
			s += "(disabled)"
		}
		return s
	}
	if kind == "lost" {
		without := func(drop func(i int) bool) string {
			var b strings.Builder
			for i, c := range e.Chars {
				if !drop(i) {
					b.WriteRune(c.R)
				}
			}
			return b.String()
		}
		target := string(or)
		first := -1
		for i, c := range e.Chars {
			if c.Dis {
				if first < 0 {
					first = i
				}
			}
		}
		if first >= 0 && without(func(i int) bool { return e.Chars[i].Dis }) == target {
			return name(e.Chars[first], false)
		}
		for s := 0; s < len(e.Chars); {
			t := s
			for t < len(e.Chars) && e.Chars[t].Cons == e.Chars[s].Cons && e.Chars[t].Dis == e.Chars[s].Dis {
				t++
			}
			if without(func(i int) bool { return i >= s && i < t }) == target {
				return name(e.Chars[s], false)
			}
			s = t
		}
	}
	at := d
	if at >= len(e.Chars) {
		at = len(e.Chars) - 1
	}
	return name(e.Chars[at], true)
}

func c19Judge(e *c19Expect, o *c19Observed) []rep.Violation {
	var out []rep.Violation
	seen := map[string]bool{}
	add := func(clause, culprit, what string, exp, got interface{}) {
		sig := clause + "|" + culprit
		if seen[sig] {
			return
		}
		seen[sig] = true
		out = append(out, rep.Violation{Sig: sig, Clause: clause, What: what, Expect: exp, Got: got})
	}
	obs := c19ObsStream(o, e.Extras)
	// (i) text stream
	er := make([]rune, len(e.Chars))
	for i, c := range e.Chars {
		er[i] = c.R
	}
	or := make([]rune, len(obs))
	for i, c := range obs {
		or[i] = c.R
	}
	if string(er) != string(or) {
		d := 0
		for d < len(er) && d < len(or) && er[d] == or[d] {
			d++
		}
		kind := "changed"
		switch {
		case c19IsSubseq(or, er):
			kind = "lost"
		case c19IsSubseq(er, or):
			kind = "invented"
		}
		culprit := c19StreamCulprit(e, er, or, d, kind)
		add("text-stream", kind+":"+culprit, fmt.Sprintf("visible text %s at offset %d: expected stream %q, document has %q (paragraphs %q)", kind, d, string(er), string(or), o.ParaTexts()), string(er), string(or))
		return out
	}
	// separation of blocks and line breaks
	for i, c := range e.Chars {
		if c.Sep != "" && !obs[i].Sep {
			prev := ""
			if i > 0 {
				prev = string(er[:i])
			}
			add("separation", c.Sep, fmt.Sprintf("%q and %q are separate in the Markdown (%s) but adjacent without any white space, break or paragraph boundary in the document (paragraph %q)", prev, string(er[i:]), c.Sep, o.Paras[obs[i].Para].Raw()), nil, o.ParaTexts())
		}
	}
	// (ii) headings
	for _, h := range e.Heads {
		if h.E == h.S {
			continue
		}
		name := "h" + strconv.Itoa(h.Level)
		if h.Nest != "" {
			name += "@" + h.Nest
		}
		pi := obs[h.S].Para
		split := false
		for k := h.S; k < h.E; k++ {
			if obs[k].Para != pi {
				split = true
			}
		}
		p := &o.Paras[pi]
		want := "Heading" + strconv.Itoa(h.Level)
		okStyle := p.Style == want || strings.EqualFold(strings.ReplaceAll(p.StyleName, " ", ""), "heading"+strconv.Itoa(h.Level))
		if split {
			add("heading-style", name+":split", fmt.Sprintf("heading text %q is spread over several paragraphs", string(er[h.S:h.E])), nil, o.ParaTexts())
			continue
		}
		if !okStyle {
			add("heading-style", name, fmt.Sprintf("heading level %d %q is a paragraph with style %q, expected %s", h.Level, string(er[h.S:h.E]), p.Style, want), want, p.Style)
		}
		n := 0
		for _, c := range obs {
			if c.Para == pi {
				n++
			}
		}
		if n != h.E-h.S {
			add("heading-text", name, fmt.Sprintf("the paragraph of heading %q also holds other text: %q", string(er[h.S:h.E]), p.Raw()), string(er[h.S:h.E]), p.Raw())
		}
	}
	// span formatting
	for i, c := range e.Chars {
		if c.Dis || c.Ctx == "code" || c.Ctx == "math" {
			continue
		}
		oc := obs[i]
		for prop := 0; prop < 4; prop++ {
			if c.Ctx == "hcell" && prop == c19Bold {
				continue // header cells may be bold as table styling
			}
			nested := ""
			if c.Depth >= 2 {
				nested = "-nested"
			}
			if c.F[prop] && !oc.Eff[prop] {
				add("span-format", c19PropName[prop]+nested+"@"+c.Ctx, fmt.Sprintf("character %q of span %s in a %s (%s) does not carry %s formatting (paragraph %q)", string(c.R), c.Inl, c.Ctx, c.Cons, c19PropName[prop], o.Paras[oc.Para].Raw()), nil, nil)
			}
			if !c.F[prop] && oc.Eff[prop] != oc.Base[prop] {
				add("span-format", "stray-"+c19PropName[prop]+"@"+c.Ctx, fmt.Sprintf("character %q outside any %s span in a %s (%s) has %s=%v although its paragraph style gives %v (paragraph %q)", string(c.R), c19PropName[prop], c.Ctx, c.Cons, c19PropName[prop], oc.Eff[prop], oc.Base[prop], o.Paras[oc.Para].Raw()), nil, nil)
			}
		}
	}
	// code lines
	for _, cb := range e.Codes {
		if cb.E == cb.S {
			continue
		}
		var lines []string
		for pi := obs[cb.S].Para; pi <= obs[cb.E-1].Para; pi++ {
			lines = append(lines, strings.Split(o.Paras[pi].Raw(), "\v")...)
		}
		tr := func(s string) string { return strings.TrimRightFunc(s, unicode.IsSpace) }
		if len(lines) != len(cb.Lines) {
			add("code-lines", cb.Kind+":line-count", fmt.Sprintf("code block with %d lines %q became %d lines %q", len(cb.Lines), cb.Lines, len(lines), lines), cb.Lines, lines)
			continue
		}
		for k := range lines {
			if tr(lines[k]) == tr(cb.Lines[k]) {
				continue
			}
			sub := "text"
			if strings.TrimSpace(lines[k]) == strings.TrimSpace(cb.Lines[k]) {
				sub = "indent"
			}
			add("code-lines", cb.Kind+":"+sub, fmt.Sprintf("code line %d %q became %q", k, cb.Lines[k], lines[k]), cb.Lines, lines)
		}
	}
	// tables
	for tn, t := range e.Tables {
		if t.E == t.S {
			continue
		}
		ti := o.Paras[obs[t.S].Para].Tbl
		same := true
		for k := t.S; k < t.E; k++ {
			if o.Paras[obs[k].Para].Tbl != ti {
				same = false
			}
		}
		if ti < 0 || !same {
			add("table", "not-a-table", fmt.Sprintf("the text of the %dx%d table is not inside one w:tbl", t.Rows, t.Cols), nil, o.ParaTexts())
			continue
		}
		ot := o.Tables[ti]
		dims := len(ot.Cells) == t.Rows
		for _, r := range ot.Cells {
			if len(r) != t.Cols {
				dims = false
			}
		}
		if !dims {
			var got []int
			for _, r := range ot.Cells {
				got = append(got, len(r))
			}
			add("table", "dimensions", fmt.Sprintf("table of %d rows x %d columns became rows with %v cells", t.Rows, t.Cols, got), nil, got)
			continue
		}
		for ri := range ot.Cells {
			for ci := range ot.Cells[ri] {
				txt := ""
				for _, pi := range ot.Cells[ri][ci] {
					txt += o.Paras[pi].Raw()
				}
				if c19NoSpaceExtras(txt, e.Extras) != t.Cells[ri][ci] {
					add("table", "cell-text", fmt.Sprintf("cell (%d,%d) should read %q, reads %q", ri, ci, t.Cells[ri][ci], txt), t.Cells[ri][ci], txt)
				}
				for _, pi := range ot.Cells[ri][ci] {
					jc := strings.ToLower(o.Paras[pi].Jc)
					ok := false
					switch t.Aligns[ci] {
					case 'n', 'l':
						ok = jc == "" || jc == "left" || jc == "start"
					case 'c':
						ok = jc == "center"
					case 'r':
						ok = jc == "right" || jc == "end"
					}
					if !ok {
						where := "first-table"
						if t.Rows == 1 {
							where = "header-only"
						} else if tn > 0 {
							where = "later-table"
						}
						how := "wrong"
						if jc == "" {
							how = "missing"
						}
						add("table", "alignment:"+how+"@"+where, fmt.Sprintf("column %d has alignment %q in the Markdown, cell (%d,%d) paragraph has w:jc=%q", ci, string(t.Aligns[ci]), ri, ci, jc), string(t.Aligns[ci]), jc)
					}
				}
			}
		}
	}
	// task state
	if e.TaskOn {
		type mk struct{ checked, unchecked map[string]bool }
		lists := map[int]*mk{}
		for _, t := range e.Tasks {
			if t.S >= len(obs) {
				continue
			}
			p := &o.Paras[obs[t.S].Para]
			// everything in the paragraph before the item's first character, plus non-text state carriers
			n := 0
			for k := 0; k < t.S; k++ {
				if obs[k].Para == obs[t.S].Para {
					n++
				}
			}
			prefix := ""
			cnt := 0
			for i, r := range p.Runes {
				if i < p.MarkerLen || unicode.IsSpace(r.R) || r.R == '\v' || e.Extras[r.R] {
					prefix += string(r.R)
					continue
				}
				if cnt == n {
					break
				}
				cnt++
				prefix += string(r.R)
			}
			m := lists[t.List]
			if m == nil {
				m = &mk{map[string]bool{}, map[string]bool{}}
				lists[t.List] = m
			}
			key := prefix + "\x00" + p.Aux
			if t.Checked {
				m.checked[key] = true
			} else {
				m.unchecked[key] = true
			}
		}
		for _, m := range lists {
			for k := range m.checked {
				if m.unchecked[k] {
					add("task-state", "indistinguishable", fmt.Sprintf("a checked and an unchecked task item of one list are rendered with the same marker %q: the state shown by the Markdown is gone", strings.SplitN(k, "\x00", 2)[0]), nil, o.ParaTexts())
				}
			}
		}
	}
	return out
}
