package main

// C07 part R, wide bodies: goroutine bodies that walk large parts of the public API, each on
// objects of its own (documents, style managers, template engines, converters, files), with
// names that are fresh on every invocation (so that a process-wide memo table keyed by a name
// is written to on every run, not only during the warm-up).  They are run pairwise in the
// free-running -race build: a data race between two of them is a race between goroutines that
// share nothing.

import (
	"fmt"
	"os"
	"path/filepath"
	"sync/atomic"

	"github.com/zerx-lab/wordZero/pkg/document"
	"github.com/zerx-lab/wordZero/pkg/markdown"
	"github.com/zerx-lab/wordZero/pkg/style"

	"verif/harness/internal/foreign"
)

var c07WideSeq int64

func c07Fresh(prefix string) string {
	return fmt.Sprintf("%s%d", prefix, atomic.AddInt64(&c07WideSeq, 1))
}

var c07WideDir string

func c07WideTemp() string {
	if c07WideDir == "" {
		d, err := os.MkdirTemp("", "vcheck-c07-wide-")
		if err != nil {
			panic(err)
		}
		c07WideDir = d
	}
	return c07WideDir
}

func reopenQuiet(b []byte) (*document.Document, string) { return reopen(b) }

func c04ForeignForRace() []byte {
	return foreign.Compose([]string{"styles", "numbering", "footnotes", "hdr-default", "ext-hyperlink", "media-image7"})
}

var c07WideNames = []string{"headings+styles+toc", "tables", "page+headers+properties+save+open", "markdown both ways", "template engine of its own", "style manager", "lists+notes+math+foreign open", "pictures from files"}

func c07WideBodies() []func() {
	dir := c07WideTemp()
	foreignPkg := c04ForeignForRace()
	return []func(){
		// headings, custom styles with fresh ids, heading accessors, TOC
		func() {
			d := document.New()
			id := c07Fresh("Sty")
			d.GetStyleManager().AddStyle(&style.Style{Type: "paragraph", StyleID: id, Name: &style.StyleName{Val: id}, BasedOn: &style.BasedOn{Val: "Normal"}})
			d.AddHeadingParagraph("one "+id, 1)
			d.AddParagraph("body " + id).SetStyle(id)
			d.AddParagraph("quote").SetStyle("Quote")
			d.AddHeadingParagraphWithBookmark("two "+id, 2, "bm_"+id)
			d.AddHeadingParagraph("one again "+id, 1)
			_ = d.GetHeadingCount()
			_ = d.ListHeadings()
			d.GenerateTOC(&document.TOCConfig{Title: "T " + id, MaxLevel: 3, ShowPageNum: true, DotLeader: true})
			d.UpdateTOC()
			d.AutoGenerateTOC(nil)
			d.GetStyleManager().GetStyleWithInheritance(id)
			d.ToBytes()
		},
		// tables
		func() {
			d := document.New()
			t, err := d.AddTable(&document.TableConfig{Rows: 3, Cols: 3, Width: 9000})
			if err != nil || t == nil {
				return
			}
			t.SetCellText(0, 0, c07Fresh("cell"))
			t.MergeCellsHorizontal(0, 0, 1)
			t.MergeCellsVertical(1, 2, 2)
			t.InsertRow(1, []string{"a"})
			t.AppendColumn([]string{"c"}, 1000)
			t.ApplyTableStyle(&document.TableStyleConfig{Template: document.TableStyleTemplateGrid})
			t.SetCellFormat(0, 0, &document.CellFormat{TextFormat: &document.TextFormat{Bold: true}, HorizontalAlign: document.CellAlignCenter})
			d.AddCellImageFromData(t, 2, 0, pngBytes(2, 2, 3), 10)
			t.AddNestedTable(1, 1, &document.TableConfig{Rows: 1, Cols: 1, Width: 1000})
			cp := t.CopyTable()
			cp.ForEach(func(r, c int, cell *document.TableCell, text string) error { return nil })
			t.UnmergeCells(0, 0)
			d.ToBytes()
		},
		// page settings, headers/footers, properties, Save to a file of its own, Open it again, edit, save
		func() {
			d := document.New()
			d.SetPageSize(document.PageSizeLetter)
			d.SetPageOrientation(document.OrientationLandscape)
			d.SetPageMargins(11, 12, 13, 14)
			d.SetDocGrid(document.DocGridLines, 312, 0)
			d.AddHeaderWithPageNumber(document.HeaderFooterTypeDefault, "h", true)
			d.AddFormattedHeader(document.HeaderFooterTypeFirst, &document.HeaderFooterConfig{Text: "first", Format: &document.TextFormat{Italic: true}, Alignment: document.AlignCenter})
			d.AddFooter(document.HeaderFooterTypeEven, "even")
			d.SetDifferentFirstPage(true)
			d.SetTitle(c07Fresh("title"))
			d.SetAuthor("a")
			d.AddParagraph("p")
			path := filepath.Join(dir, c07Fresh("doc")+".docx")
			if d.Save(path) == nil {
				if o, err := document.Open(path); err == nil {
					o.AddParagraph("more")
					o.GetPageSettings()
					o.AddHeader(document.HeaderFooterTypeDefault, "again")
					o.Save(path)
				}
			}
			os.Remove(path)
		},
		// Markdown both ways
		func() {
			n := c07Fresh("md")
			src := "# " + n + "\n\ntext *em* **strong** `code` ~~gone~~ [l](http://x)\n\n- a\n- b\n  1. c\n\n> quote " + n + "\n\n```go\nx := 1\n```\n\n| h | k |\n|:--|--:|\n| 1 | 2 |\n\n- [x] done\n\n$$a+b$$\n\ntail\\*esc &amp; ent\n"
			c := markdown.NewConverter(markdown.DefaultOptions())
			doc, err := c.ConvertString(src, nil)
			if err != nil || doc == nil {
				return
			}
			doc.ToBytes()
			md, _ := markdown.NewExporter(nil).ExportToString(doc, nil)
			hq := markdown.HighQualityExportOptions()
			hq.WrapLongLines = true
			markdown.NewExporter(hq).ExportToString(doc, hq)
			c2 := markdown.NewConverter(markdown.HighQualityOptions())
			c2.ConvertString(md, nil)
		},
		// a template engine of its own: text templates with inheritance, a document template with loop row, pictures with details
		func() {
			eng := document.NewTemplateEngine()
			n := c07Fresh("tpl")
			eng.LoadTemplate(n+"base", "A {{#block \"x\"}}BX{{/block}} {{v}} {{#each L}}{{n}};{{/each}} {{#if c}}y{{else}}n{{/if}}")
			eng.LoadTemplate(n, "{{extends \""+n+"base\"}}{{#block \"x\"}}CX {{v}}{{/block}}")
			td := document.NewTemplateData()
			td.SetVariable("v", "{{w}} "+n)
			td.SetCondition("c", true)
			td.SetList("L", []interface{}{map[string]interface{}{"n": "1"}, map[string]interface{}{"n": "2"}})
			td.SetImageWithDetails("pic", "", pngBytes(2, 2, 9), nil, "alt "+n, "title "+n)
			eng.RenderToDocument(n, td)
			base := document.New()
			base.AddParagraph("D {{v}} {{#image pic}}")
			base.AddHeader(document.HeaderFooterTypeDefault, "H {{v}}")
			if t, err := base.AddTable(&document.TableConfig{Rows: 2, Cols: 2, Width: 4000}); err == nil && t != nil {
				t.SetCellText(1, 0, "{{#each L}}{{n}}")
				t.SetCellText(1, 1, "x{{/each}}")
			}
			eng.LoadTemplateFromDocument(n+"doc", base)
			if out, err := eng.RenderTemplateToDocument(n+"doc", td); err == nil && out != nil {
				out.ToBytes()
			}
			td2 := document.NewTemplateData()
			td2.SetVariable("v", "plain")
			td2.SetImageFromData("pic", pngBytes(2, 2, 9), nil)
			if out, err := eng.RenderTemplateToDocument(n+"doc", td2); err == nil && out != nil {
				out.ToBytes()
			}
			eng.RemoveTemplate(n)
			eng.ClearCache()
		},
		// a style manager of its own
		func() {
			sm := style.NewStyleManager()
			id := c07Fresh("S")
			sm.CreateCustomStyle(id, id, style.StyleTypeParagraph, "Heading1")
			sm.AddStyle(&style.Style{Type: "paragraph", StyleID: id + "c", BasedOn: &style.BasedOn{Val: id}, RunPr: &style.RunProperties{Bold: &style.Bold{}}, ParagraphPr: &style.ParagraphProperties{}})
			sm.GetStyleWithInheritance(id + "c")
			sm.ApplyStyleToXML(id + "c")
			api := style.NewQuickStyleAPI(sm)
			api.CreateQuickStyle(style.QuickStyleConfig{ID: id + "q", Name: id + "q", Type: style.StyleTypeParagraph})
			api.GetAllStylesInfo()
			cl := sm.Clone()
			cl.RemoveStyle(id)
			cl.GetStyleWithInheritance(id + "c")
			sm.GetAllStyles()
		},
		// lists, notes, math, and an opened third-party package
		func() {
			d := document.New()
			d.AddBulletList("b", 0, document.BulletTypeDot)
			d.AddNumberedList("n", 1, document.ListTypeDecimal)
			d.CreateMultiLevelList([]document.ListItem{{Text: "x", Level: 0, Type: document.ListTypeNumber}, {Text: "y", Level: 1, Type: document.ListTypeBullet, BulletSymbol: document.BulletTypeDot}})
			d.AddFootnote("f", c07Fresh("note"))
			d.AddEndnote("e", "end")
			d.SetFootnoteConfig(nil)
			d.RemoveFootnote("1")
			d.AddMathFormula("a+b", true)
			d.AddPageBreak()
			d.ToBytes()
			if o, err := reopenQuiet(foreignPkg); err == "" && o != nil {
				o.AddParagraph("edit")
				o.AddImageFromData(jpegBytes(4, 2, 8), "n.jpg", document.ImageFormatJPEG, 4, 2, nil)
				o.AddListItem("li", &document.ListConfig{Type: document.ListTypeNumber})
				o.ToBytes()
			}
		},
		// pictures from files of its own (format and size detection)
		func() {
			d := document.New()
			p1 := filepath.Join(dir, c07Fresh("pic")+".png")
			p2 := filepath.Join(dir, c07Fresh("pic")+".jpg")
			os.WriteFile(p1, pngBytes(3, 2, 5), 0o644)
			os.WriteFile(p2, jpegBytes(4, 2, 6), 0o644)
			d.AddImageFromFile(p1, &document.ImageConfig{Size: &document.ImageSize{Width: 20, KeepAspectRatio: true}})
			d.AddImageFromFile(p2, nil)
			if t, err := d.AddTable(&document.TableConfig{Rows: 1, Cols: 1, Width: 2000}); err == nil && t != nil {
				d.AddCellImageFromFile(t, 0, 0, p1, 10)
			}
			d.ToBytes()
			os.Remove(p1)
			os.Remove(p2)
		},
	}
}
