package main

// C01 — every saved document is a well-formed OOXML package.
//
// Exhaustive enumeration (shard engine) of
//   (1) product:   every part-producing public operation x every string argument over the
//                  hostile-string domain S x both save entry points (ToBytes, Save to a file);
//   (2) images:    data formats x declared formats x original file names x placements
//                  (body from data / from file, table cell from data / from file, template
//                  image placeholder in body and in a cell, from file and from data);
//   (3) histories: ALL sequences of <= d operations over a reduced alphabet (one or two
//                  representatives per part-producing feature, benign and hostile text, and
//                  reopen = OpenFromMemory(ToBytes())), each saved through both entry points;
//   (4) templates: RenderTemplateToDocument / RenderToDocument with every value of S substituted
//                  into body, table cell, header and footer; Markdown conversion of S in every
//                  inline/block position (ConvertString+ToBytes and ConvertFile).
// The bytes of every saved package are read by the independent reader (pkgmodel) and judged by
// the invariant of the statement: ZIP readable, part names legal and unique, every XML part
// namespace-well-formed with one root, [Content_Types].xml and _rels/.rels present, exactly one
// officeDocument relationship whose target exists with the main-document content type, every
// entry has a content type.

import (
	"bytes"
	"crypto/sha256"
	"encoding/xml"
	"fmt"
	"io"
	"os"
	"path"
	"path/filepath"
	"sort"
	"strconv"
	"strings"
	"time"
	"unicode/utf8"

	"github.com/zerx-lab/wordZero/pkg/document"
	"github.com/zerx-lab/wordZero/pkg/markdown"
	"github.com/zerx-lab/wordZero/pkg/style"

	"verif/harness/internal/foreign"
	"verif/harness/internal/pkgmodel"
	"verif/harness/internal/rep"
	"verif/harness/internal/shard"
)

func init() {
	shard.Register("C01", c01Worker)
	register("C01", "model_checking", runC01)
}

// ---------------------------------------------------------------------------
// domains

var c01Long = strings.Repeat("a", 64*1024)

// S of DESIGN.md §4 C01
var c01S = []string{"", " ", "a", `<&>"'`, "]]>", "\x00\x01\x0b", "\uFFFE", "\xff", "é漢😀", "{{x}}", "a\r\nb", c01Long}

const c01Benign = "a"
const c01Hostile = "<&>\"'\x01"
const c01OMML = `<m:r><m:t>x</m:t></m:r>`

func c01q(s string) string {
	if len(s) > 200 {
		return fmt.Sprintf("%q*%d", s[:1], len(s))
	}
	return strconv.Quote(s)
}

func c01qs(a []string) string {
	q := make([]string, len(a))
	for i, s := range a {
		q[i] = c01q(s)
	}
	return strings.Join(q, ",")
}

var (
	c01PNG  = pngBytes(4, 3, 7)
	c01JPEG = jpegBytes(5, 4, 9)
	c01GIF  = gifBytes(3, 3, 200)
)

type c01Fmt struct {
	name string
	f    document.ImageFormat
	data []byte
}

var c01Fmts = []c01Fmt{{"png", document.ImageFormatPNG, c01PNG}, {"jpeg", document.ImageFormatJPEG, c01JPEG}, {"gif", document.ImageFormatGIF, c01GIF}}

// original file names of the image product (the first twelve are the planned ones)
var c01Names = []string{"a.png", "a.jpg", "a.JPEG", "a.gif", "a", ".png", "图.png", "a.bmp", "a.png.exe", "a.b c", "a.png?x", "dir/a.jpg",
	"a.jpeg", "a.PNG", "a.", `a.b\c`, "a.<&>", "a.p%g", "a.\x01", "a.é"}

// ---------------------------------------------------------------------------
// execution environment of one case

type c01Env struct {
	doc  *document.Document
	dir  string // per-worker directory with the image files (dir/<format>/<name>)
	out  string // per-worker scratch directory for Save / ConvertFile
	p    *document.Paragraph
	t    *document.Table
	img  *document.ImageInfo
	errs []string
	raw  []byte // package produced by the case itself (ConvertFile); doc is nil then
	note string
	// byte slices an earlier ToBytes of the history returned, with their digest at that moment: what a
	// caller was given must stay a readable package whatever is called afterwards (seed C01-d2)
	kept    [][]byte
	keptSum [][32]byte
	// an engine that loaded the document object as a template when the object was new (before any operation of
	// the history): the caller keeps editing the base and renders later
	early *document.TemplateEngine
}

func (x *c01Env) e(err error) {
	if err != nil {
		x.errs = append(x.errs, err.Error())
	}
}

func (x *c01Env) file(format, name string) string { return filepath.Join(x.dir, format, name) }

// refresh points p / t at the last paragraph / table of the body (after reopen or when unset)
func (x *c01Env) refresh() {
	x.p, x.t, x.img = nil, nil, nil
	if x.doc == nil || x.doc.Body == nil {
		return
	}
	if ps := x.doc.Body.GetParagraphs(); len(ps) > 0 {
		x.p = ps[len(ps)-1]
	}
	if ts := x.doc.Body.GetTables(); len(ts) > 0 {
		x.t = ts[len(ts)-1]
	}
}

func c01Table(x *c01Env) {
	t, err := x.doc.AddTable(&document.TableConfig{Rows: 3, Cols: 3, Width: 9000, Data: [][]string{{"r0c0", "r0c1", "r0c2"}, {"r1c0", "r1c1", "r1c2"}, {"r2c0", "r2c1", "r2c2"}}})
	x.e(err)
	x.t = t
}

func c01BaseFor(x *c01Env, base string) {
	switch base {
	case "para":
		x.p = x.doc.AddParagraph("a")
	case "table":
		c01Table(x)
	case "image":
		im, err := x.doc.AddImageFromData(c01PNG, "pic.png", document.ImageFormatPNG, 4, 3, &document.ImageConfig{})
		x.e(err)
		x.img = im
	case "heads":
		x.doc.AddHeadingParagraph("One", 1)
		x.doc.AddHeadingParagraph("Two", 2)
	}
}

// ---------------------------------------------------------------------------
// part (1): operations with string arguments

type c01Op struct {
	name  string
	n     int      // number of string arguments
	base  string   // "", para, table, image, heads
	extra []string // additional values of the argument domain for this operation
	f     func(x *c01Env, a []string)
}

var c01Kinds = []document.HeaderFooterType{document.HeaderFooterTypeDefault, document.HeaderFooterTypeFirst, document.HeaderFooterTypeEven}

func c01Ops() []c01Op {
	var ops []c01Op
	add := func(name string, n int, base string, f func(x *c01Env, a []string)) {
		ops = append(ops, c01Op{name: name, n: n, base: base, f: f})
	}
	para := func(name string, n int, f func(p *document.Paragraph, a []string)) {
		add("Paragraph."+name, n, "para", func(x *c01Env, a []string) { f(x.p, a) })
	}
	tbl := func(name string, n int, f func(x *c01Env, t *document.Table, a []string) error) {
		add("Table."+name, n, "table", func(x *c01Env, a []string) {
			if x.t != nil {
				x.e(f(x, x.t, a))
			}
		})
	}

	// ---- paragraphs, headings, page break, formatted text
	add("AddParagraph(s)", 1, "", func(x *c01Env, a []string) { x.doc.AddParagraph(a[0]) })
	add("AddFormattedParagraph(s,Bold)", 1, "", func(x *c01Env, a []string) { x.doc.AddFormattedParagraph(a[0], &document.TextFormat{Bold: true}) })
	add("AddFormattedParagraph(a,{FontFamily,FontName,FontColor,Highlight})", 4, "", func(x *c01Env, a []string) {
		x.doc.AddFormattedParagraph("a", &document.TextFormat{FontFamily: a[0], FontName: a[1], FontColor: a[2], Highlight: a[3], FontSize: 12, Underline: true})
	})
	add("AddHeadingParagraph(s,1)", 1, "", func(x *c01Env, a []string) { x.doc.AddHeadingParagraph(a[0], 1) })
	add("AddHeadingParagraphWithBookmark(s,1,bookmark)", 2, "", func(x *c01Env, a []string) { x.doc.AddHeadingParagraphWithBookmark(a[0], 1, a[1]) })
	add("AddHeadingWithBookmark(s,2,bookmark)", 2, "", func(x *c01Env, a []string) { x.doc.AddHeadingWithBookmark(a[0], 2, a[1]) })
	add("Document.AddPageBreak()", 0, "", func(x *c01Env, a []string) { x.doc.AddPageBreak() })
	para("AddFormattedText(s,nil)", 1, func(p *document.Paragraph, a []string) { p.AddFormattedText(a[0], nil) })
	para("AddFormattedText(a,{FontFamily,FontColor,Highlight})", 3, func(p *document.Paragraph, a []string) {
		p.AddFormattedText("a", &document.TextFormat{FontFamily: a[0], FontColor: a[1], Highlight: a[2], Italic: true, Strike: true})
	})
	para("AddPageBreak()", 0, func(p *document.Paragraph, a []string) { p.AddPageBreak() })
	para("SetStyle(s)", 1, func(p *document.Paragraph, a []string) { p.SetStyle(a[0]) })
	para("SetHighlight(s)", 1, func(p *document.Paragraph, a []string) { p.SetHighlight(a[0]) })
	para("SetFontFamily(s)", 1, func(p *document.Paragraph, a []string) { p.SetFontFamily(a[0]) })
	para("SetColor(s)", 1, func(p *document.Paragraph, a []string) { p.SetColor(a[0]) })
	para("SetAlignment(s)", 1, func(p *document.Paragraph, a []string) { p.SetAlignment(document.AlignmentType(a[0])) })
	para("SetParagraphFormat({Alignment,Style})", 2, func(p *document.Paragraph, a []string) {
		p.SetParagraphFormat(&document.ParagraphFormatConfig{Alignment: document.AlignmentType(a[0]), Style: a[1], LineSpacing: 1.5, KeepWithNext: true, OutlineLevel: 2})
	})
	para("SetBorder(top{Style,Color})", 2, func(p *document.Paragraph, a []string) {
		p.SetBorder(&document.ParagraphBorderConfig{Style: document.BorderStyle(a[0]), Size: 12, Color: a[1], Space: 1}, nil, nil, nil)
	})
	para("SetHorizontalRule(style,12,color)", 2, func(p *document.Paragraph, a []string) { p.SetHorizontalRule(document.BorderStyle(a[0]), 12, a[1]) })
	para("AddInlineMath(s)", 1, func(p *document.Paragraph, a []string) { p.AddInlineMath(a[0]) })
	para("setters without strings", 0, func(p *document.Paragraph, a []string) {
		p.SetSpacing(&document.SpacingConfig{LineSpacing: 1.5, BeforePara: 6, AfterPara: 6, FirstLineIndent: 12})
		p.SetIndentation(0.5, 1, 1)
		p.SetKeepWithNext(true)
		p.SetKeepLines(true)
		p.SetPageBreakBefore(true)
		p.SetWidowControl(true)
		p.SetOutlineLevel(3)
		p.SetSnapToGrid(false)
		p.SetUnderline(true)
		p.SetBold(true)
		p.SetItalic(true)
		p.SetStrike(true)
		p.SetFontSize(14)
	})

	// ---- tables
	add("AddTable(2x2,data=s)", 1, "", func(x *c01Env, a []string) {
		_, err := x.doc.AddTable(&document.TableConfig{Rows: 2, Cols: 2, Width: 6000, Data: [][]string{{a[0], "x"}, {"y", a[0]}}, Emphases: [][]int{{1, 2}, {0, 1}}})
		x.e(err)
	})
	tbl("SetCellText(0,0,s)", 1, func(x *c01Env, t *document.Table, a []string) error { return t.SetCellText(0, 0, a[0]) })
	tbl("SetCellFormattedText(0,0,s,{FontFamily})", 2, func(x *c01Env, t *document.Table, a []string) error {
		return t.SetCellFormattedText(0, 0, a[0], &document.TextFormat{FontFamily: a[1], Bold: true})
	})
	tbl("AddCellFormattedText(0,1,s,{FontColor})", 2, func(x *c01Env, t *document.Table, a []string) error {
		return t.AddCellFormattedText(0, 1, a[0], &document.TextFormat{FontColor: a[1]})
	})
	tbl("AddCellParagraph(0,0,s)", 1, func(x *c01Env, t *document.Table, a []string) error {
		_, err := t.AddCellParagraph(0, 0, a[0])
		return err
	})
	tbl("AddCellFormattedParagraph(0,0,s,{Highlight})", 2, func(x *c01Env, t *document.Table, a []string) error {
		_, err := t.AddCellFormattedParagraph(0, 0, a[0], &document.TextFormat{Highlight: a[1], Italic: true})
		return err
	})
	tbl("InsertRow(1,[s,s,s])", 1, func(x *c01Env, t *document.Table, a []string) error {
		return t.InsertRow(1, []string{a[0], a[0], a[0]})
	})
	tbl("AppendRow([s])", 1, func(x *c01Env, t *document.Table, a []string) error { return t.AppendRow([]string{a[0]}) })
	tbl("InsertColumn(1,[s,s,s],1000)", 1, func(x *c01Env, t *document.Table, a []string) error {
		return t.InsertColumn(1, []string{a[0], a[0], a[0]}, 1000)
	})
	tbl("AppendColumn([s],500)", 1, func(x *c01Env, t *document.Table, a []string) error { return t.AppendColumn([]string{a[0]}, 500) })
	tbl("AddNestedTable(0,0,1x2 data=s)", 1, func(x *c01Env, t *document.Table, a []string) error {
		n, err := t.AddNestedTable(0, 0, &document.TableConfig{Rows: 1, Cols: 2, Width: 2000, Data: [][]string{{a[0], "n"}}})
		if err == nil && n != nil {
			_, err = n.AddNestedTable(0, 1, &document.TableConfig{Rows: 1, Cols: 1, Width: 800, Data: [][]string{{a[0]}}})
		}
		return err
	})
	tbl("AddCellList(2,2,{Type,BulletSymbol,Items})", 3, func(x *c01Env, t *document.Table, a []string) error {
		return t.AddCellList(2, 2, &document.CellListConfig{Type: document.ListType(a[0]), BulletSymbol: document.BulletType(a[1]), Items: []string{a[2], "two"}})
	})
	tbl("AddCellList(2,2,{bullet,BulletSymbol,Items})", 2, func(x *c01Env, t *document.Table, a []string) error {
		return t.AddCellList(2, 2, &document.CellListConfig{Type: document.ListTypeBullet, BulletSymbol: document.BulletType(a[0]), Items: []string{a[1]}})
	})
	tbl("SetCellFormat(0,0,{BackgroundColor,BorderStyle,HorizontalAlign,VerticalAlign,TextDirection})", 5, func(x *c01Env, t *document.Table, a []string) error {
		return t.SetCellFormat(0, 0, &document.CellFormat{BackgroundColor: a[0], BorderStyle: a[1], HorizontalAlign: document.CellAlignment(a[2]), VerticalAlign: document.CellVerticalAlignment(a[3]),
			TextDirection: document.CellTextDirection(a[4]), Padding: 5, TextFormat: &document.TextFormat{Bold: true}})
	})
	tbl("SetCellTextDirection(1,1,s)", 1, func(x *c01Env, t *document.Table, a []string) error {
		return t.SetCellTextDirection(1, 1, document.CellTextDirection(a[0]))
	})
	tbl("SetTableAlignment(s)", 1, func(x *c01Env, t *document.Table, a []string) error {
		return t.SetTableAlignment(document.TableAlignment(a[0]))
	})
	tbl("SetTableLayout({Alignment,TextWrap,Position,Positioning strings})", 4, func(x *c01Env, t *document.Table, a []string) error {
		return t.SetTableLayout(&document.TableLayoutConfig{Alignment: document.TableAlignment(a[0]), TextWrap: document.TableTextWrap(a[1]), Position: document.TablePosition(a[2]),
			Positioning: &document.TablePositioning{LeftFromText: a[3], RightFromText: a[3], VertAnchor: a[3], HorzAnchor: a[3], TblpX: a[3], TblpY: a[3]}})
	})
	tbl("ApplyTableStyle({Template,StyleID})", 2, func(x *c01Env, t *document.Table, a []string) error {
		return t.ApplyTableStyle(&document.TableStyleConfig{Template: document.TableStyleTemplate(a[0]), StyleID: a[1], FirstRowHeader: true, BandedRows: true})
	})
	tbl("SetTableBorders(top/insideH{Style,Color})", 2, func(x *c01Env, t *document.Table, a []string) error {
		b := &document.BorderConfig{Style: document.BorderStyle(a[0]), Width: 4, Color: a[1], Space: 0}
		return t.SetTableBorders(&document.TableBorderConfig{Top: b, InsideH: b})
	})
	tbl("SetCellBorders(1,1,top/diag{Style,Color})", 2, func(x *c01Env, t *document.Table, a []string) error {
		b := &document.BorderConfig{Style: document.BorderStyle(a[0]), Width: 4, Color: a[1], Space: 0}
		return t.SetCellBorders(1, 1, &document.CellBorderConfig{Top: b, DiagDown: b})
	})
	tbl("SetTableShading({Pattern,Fg,Bg})", 3, func(x *c01Env, t *document.Table, a []string) error {
		return t.SetTableShading(&document.ShadingConfig{Pattern: document.ShadingPattern(a[0]), ForegroundColor: a[1], BackgroundColor: a[2]})
	})
	tbl("SetCellShading(1,1,{Pattern,Fg,Bg})", 3, func(x *c01Env, t *document.Table, a []string) error {
		return t.SetCellShading(1, 1, &document.ShadingConfig{Pattern: document.ShadingPattern(a[0]), ForegroundColor: a[1], BackgroundColor: a[2]})
	})
	tbl("SetAlternatingRowColors(even,odd)", 2, func(x *c01Env, t *document.Table, a []string) error { return t.SetAlternatingRowColors(a[0], a[1]) })
	tbl("CreateCustomTableStyle(id,name,...)", 2, func(x *c01Env, t *document.Table, a []string) error {
		return t.CreateCustomTableStyle(a[0], a[1], &document.TableBorderConfig{Top: &document.BorderConfig{Style: document.BorderStyleSingle, Width: 4, Color: "000000"}},
			&document.ShadingConfig{Pattern: document.ShadingPatternPct10, BackgroundColor: "DDDDDD"}, true)
	})
	tbl("SetRowHeight(1,{20,rule})", 1, func(x *c01Env, t *document.Table, a []string) error {
		return t.SetRowHeight(1, &document.RowHeightConfig{Height: 20, Rule: document.RowHeightRule(a[0])})
	})
	tbl("structure without strings", 0, func(x *c01Env, t *document.Table, a []string) error {
		x.e(t.MergeCellsHorizontal(0, 0, 1))
		x.e(t.MergeCellsVertical(1, 2, 2))
		x.e(t.SetRowAsHeader(0, true))
		x.e(t.SetRowKeepTogether(1, true))
		x.e(t.SetCellPadding(1, 1, 10))
		x.e(t.SetTablePageBreak(&document.TablePageBreakConfig{KeepWithNext: true, KeepLines: true, PageBreakBefore: true, WidowControl: true}))
		x.doc.Body.AddElement(t.CopyTable())
		return nil
	})
	tbl("AddCellImage(0,2,{png data,AltText,Title})", 2, func(x *c01Env, t *document.Table, a []string) error {
		_, err := x.doc.AddCellImage(t, 0, 2, &document.CellImageConfig{Data: c01PNG, Format: document.ImageFormatPNG, Width: 20, Height: 10, AltText: a[0], Title: a[1]})
		return err
	})
	tbl("AddCellImageFromData(0,2,png,10)", 0, func(x *c01Env, t *document.Table, a []string) error {
		_, err := x.doc.AddCellImageFromData(t, 0, 2, c01PNG, 10)
		return err
	})
	tbl("AddCellImageFromFile(1,2,a.png,12)", 0, func(x *c01Env, t *document.Table, a []string) error {
		_, err := x.doc.AddCellImageFromFile(t, 1, 2, x.file("png", "a.png"), 12)
		return err
	})

	// ---- images
	add("AddImageFromData(png,fileName=s,PNG)", 1, "", func(x *c01Env, a []string) {
		_, err := x.doc.AddImageFromData(c01PNG, a[0], document.ImageFormatPNG, 4, 3, nil)
		x.e(err)
	})
	add("AddImageFromData(png,a.png,PNG,{AltText,Title})", 2, "", func(x *c01Env, a []string) {
		_, err := x.doc.AddImageFromData(c01PNG, "a.png", document.ImageFormatPNG, 4, 3, &document.ImageConfig{AltText: a[0], Title: a[1], Size: &document.ImageSize{Width: 30, Height: 20}})
		x.e(err)
	})
	add("AddImageFromData(png,a.png,PNG,{Position,WrapText,Alignment})", 3, "", func(x *c01Env, a []string) {
		_, err := x.doc.AddImageFromData(c01PNG, "a.png", document.ImageFormatPNG, 4, 3, &document.ImageConfig{Position: document.ImagePosition(a[0]), WrapText: document.ImageWrapText(a[1]), Alignment: document.AlignmentType(a[2]), OffsetX: 5})
		x.e(err)
	})
	add("AddImageFromData(png,a.png,PNG,{floatLeft,square,AltText})", 1, "", func(x *c01Env, a []string) {
		_, err := x.doc.AddImageFromData(c01PNG, "a.png", document.ImageFormatPNG, 4, 3, &document.ImageConfig{Position: document.ImagePositionFloatLeft, WrapText: document.ImageWrapSquare, AltText: a[0], Title: a[0]})
		x.e(err)
	})
	add("AddImageFromFile(a.png,nil)", 0, "", func(x *c01Env, a []string) { _, err := x.doc.AddImageFromFile(x.file("png", "a.png"), nil); x.e(err) })
	add("SetImageAltText(img,s)", 1, "image", func(x *c01Env, a []string) { x.e(x.doc.SetImageAltText(x.img, a[0])) })
	add("SetImageTitle(img,s)", 1, "image", func(x *c01Env, a []string) { x.e(x.doc.SetImageTitle(x.img, a[0])) })

	// ---- headers / footers: six calls x three kinds
	for _, k := range c01Kinds {
		k := k
		ks := string(k)
		add("AddHeader("+ks+",s)", 1, "", func(x *c01Env, a []string) { x.e(x.doc.AddHeader(k, a[0])) })
		add("AddFooter("+ks+",s)", 1, "", func(x *c01Env, a []string) { x.e(x.doc.AddFooter(k, a[0])) })
		add("AddHeaderWithPageNumber("+ks+",s,true)", 1, "", func(x *c01Env, a []string) { x.e(x.doc.AddHeaderWithPageNumber(k, a[0], true)) })
		add("AddFooterWithPageNumber("+ks+",s,true)", 1, "", func(x *c01Env, a []string) { x.e(x.doc.AddFooterWithPageNumber(k, a[0], true)) })
		add("AddFormattedHeader("+ks+",{Text,Format{FontFamily,FontColor},Alignment})", 4, "", func(x *c01Env, a []string) {
			x.e(x.doc.AddFormattedHeader(k, &document.HeaderFooterConfig{Text: a[0], Format: &document.TextFormat{FontFamily: a[1], FontColor: a[2], FontSize: 10, Bold: true}, Alignment: document.AlignmentType(a[3])}))
		})
		add("AddFormattedFooter("+ks+",{Text,Format{FontFamily,FontColor},Alignment})", 4, "", func(x *c01Env, a []string) {
			x.e(x.doc.AddFormattedFooter(k, &document.HeaderFooterConfig{Text: a[0], Format: &document.TextFormat{FontFamily: a[1], FontColor: a[2], FontSize: 9, Italic: true}, Alignment: document.AlignmentType(a[3])}))
		})
	}
	add("AddHeader(kind=s,a)+AddFooter(kind=s,a)", 1, "", func(x *c01Env, a []string) {
		x.e(x.doc.AddHeader(document.HeaderFooterType(a[0]), "a"))
		x.e(x.doc.AddFooter(document.HeaderFooterType(a[0]), "a"))
	})
	add("SetDifferentFirstPage(true)", 0, "", func(x *c01Env, a []string) { x.doc.SetDifferentFirstPage(true) })

	// ---- notes
	add("AddFootnote(text,note)", 2, "", func(x *c01Env, a []string) { x.e(x.doc.AddFootnote(a[0], a[1])) })
	add("AddEndnote(text,note)", 2, "", func(x *c01Env, a []string) { x.e(x.doc.AddEndnote(a[0], a[1])) })
	add("AddFootnoteToRun(run,s)", 1, "para", func(x *c01Env, a []string) {
		if len(x.p.Runs) > 0 {
			x.e(x.doc.AddFootnoteToRun(&x.p.Runs[0], a[0]))
		}
	})
	add("AddFootnote(a,n)+SetFootnoteConfig({NumberFormat,RestartEach,Position})", 3, "", func(x *c01Env, a []string) {
		x.e(x.doc.AddFootnote("a", "n"))
		x.e(x.doc.SetFootnoteConfig(&document.FootnoteConfig{NumberFormat: document.FootnoteNumberFormat(a[0]), StartNumber: 1, RestartEach: document.FootnoteRestart(a[1]), Position: document.FootnotePosition(a[2])}))
	})
	add("SetFootnoteConfig(nil)", 0, "", func(x *c01Env, a []string) { x.e(x.doc.SetFootnoteConfig(nil)) })

	// ---- lists
	add("AddListItem(s,nil)", 1, "", func(x *c01Env, a []string) { x.doc.AddListItem(a[0], nil) })
	add("AddListItem(a,{Type,BulletSymbol})", 2, "", func(x *c01Env, a []string) {
		x.doc.AddListItem("a", &document.ListConfig{Type: document.ListType(a[0]), BulletSymbol: document.BulletType(a[1]), StartNumber: 1})
	})
	add("AddListItem(s,{bullet,BulletSymbol})", 2, "", func(x *c01Env, a []string) {
		x.doc.AddListItem(a[0], &document.ListConfig{Type: document.ListTypeBullet, BulletSymbol: document.BulletType(a[1])})
	})
	add("AddBulletList(s,0,bullet)", 2, "", func(x *c01Env, a []string) { x.doc.AddBulletList(a[0], 0, document.BulletType(a[1])) })
	add("AddNumberedList(s,1,type)", 2, "", func(x *c01Env, a []string) { x.doc.AddNumberedList(a[0], 1, document.ListType(a[1])) })
	add("CreateMultiLevelList([{Text,bullet,Symbol},{Text,number}])", 2, "", func(x *c01Env, a []string) {
		x.e(x.doc.CreateMultiLevelList([]document.ListItem{{Text: a[0], Level: 0, Type: document.ListTypeBullet, BulletSymbol: document.BulletType(a[1])}, {Text: a[0], Level: 1, Type: document.ListTypeNumber, StartNumber: 1}}))
	})

	// ---- table of contents
	add("GenerateTOC({Title:s})", 1, "heads", func(x *c01Env, a []string) {
		x.e(x.doc.GenerateTOC(&document.TOCConfig{Title: a[0], MaxLevel: 3, ShowPageNum: true, RightAlign: true, UseHyperlink: true, DotLeader: true}))
	})
	add("AddHeadingParagraph(s)x2+GenerateTOC(nil)", 1, "", func(x *c01Env, a []string) {
		x.doc.AddHeadingParagraph(a[0], 1)
		x.doc.AddHeadingParagraph(a[0], 2)
		x.e(x.doc.GenerateTOC(nil))
	})
	add("AddHeadingWithBookmark(s,1,s)+AutoGenerateTOC({Title:s})", 1, "", func(x *c01Env, a []string) {
		x.doc.AddHeadingWithBookmark(a[0], 1, a[0])
		x.doc.AddHeadingParagraph("b", 2)
		x.e(x.doc.AutoGenerateTOC(&document.TOCConfig{Title: a[0], MaxLevel: 3, ShowPageNum: true, UseHyperlink: true}))
	})
	add("GenerateTOC+AddHeadingParagraph(s)+UpdateTOC", 1, "heads", func(x *c01Env, a []string) {
		x.e(x.doc.GenerateTOC(nil))
		x.doc.AddHeadingParagraph(a[0], 1)
		x.e(x.doc.UpdateTOC())
	})
	add("Body.AddElement(CreateTOCSDT(s,3))", 1, "", func(x *c01Env, a []string) {
		sdt := x.doc.CreateTOCSDT(a[0], 3)
		sdt.AddTOCEntry(a[0], 1, 1, "147463000")
		sdt.FinalizeTOCSDT()
		x.doc.Body.AddElement(sdt)
	})
	add("SetTOCStyle(1,{FontFamily:s})", 1, "heads", func(x *c01Env, a []string) { x.e(x.doc.SetTOCStyle(1, &document.TextFormat{FontFamily: a[0]})) })

	// ---- document properties
	add("SetTitle(s)", 1, "", func(x *c01Env, a []string) { x.e(x.doc.SetTitle(a[0])) })
	add("SetAuthor(s)", 1, "", func(x *c01Env, a []string) { x.e(x.doc.SetAuthor(a[0])) })
	add("SetSubject(s)", 1, "", func(x *c01Env, a []string) { x.e(x.doc.SetSubject(a[0])) })
	add("SetKeywords(s)", 1, "", func(x *c01Env, a []string) { x.e(x.doc.SetKeywords(a[0])) })
	add("SetDescription(s)", 1, "", func(x *c01Env, a []string) { x.e(x.doc.SetDescription(a[0])) })
	add("SetCategory(s)", 1, "", func(x *c01Env, a []string) { x.e(x.doc.SetCategory(a[0])) })
	add("SetDocumentProperties({Language,Version,Revision,others})", 4, "", func(x *c01Env, a []string) {
		x.e(x.doc.SetDocumentProperties(&document.DocumentProperties{Title: a[3], Subject: a[3], Creator: a[3], Keywords: a[3], Description: a[3], Category: a[3], Language: a[0], Version: a[1], Revision: a[2],
			Created: time.Unix(1700000000, 0).UTC(), LastModified: time.Unix(1700000100, 0).UTC(), LastPrinted: time.Unix(1700000200, 0).UTC(), Pages: 1, Words: 2, Characters: 3, Paragraphs: 4, Lines: 5}))
	})
	add("AddParagraph(s)+UpdateStatistics()", 1, "", func(x *c01Env, a []string) { x.doc.AddParagraph(a[0]); x.e(x.doc.UpdateStatistics()) })

	// ---- formulas
	ops = append(ops, c01Op{name: "AddMathFormula(s,block)", n: 1, extra: []string{c01OMML}, f: func(x *c01Env, a []string) { x.doc.AddMathFormula(a[0], true) }})
	ops = append(ops, c01Op{name: "AddMathFormula(s,inline)", n: 1, extra: []string{c01OMML}, f: func(x *c01Env, a []string) { x.doc.AddMathFormula(a[0], false) }})

	// ---- styles
	add("StyleManager.CreateCustomStyle(id,name,paragraph,basedOn)+SetStyle(id)", 3, "para", func(x *c01Env, a []string) {
		x.doc.GetStyleManager().CreateCustomStyle(a[0], a[1], style.StyleTypeParagraph, a[2])
		x.p.SetStyle(a[0])
	})
	add("StyleManager.CreateCustomStyle(S1,a,type=s,Normal)", 1, "", func(x *c01Env, a []string) {
		x.doc.GetStyleManager().CreateCustomStyle("S1", "a", style.StyleType(a[0]), "Normal")
	})
	add("QuickStyleAPI.CreateQuickStyle({ID,Name,run/paragraph strings})", 3, "", func(x *c01Env, a []string) {
		_, err := style.NewQuickStyleAPI(x.doc.GetStyleManager()).CreateQuickStyle(style.QuickStyleConfig{ID: "Q" + a[0], Name: a[1], Type: style.StyleTypeParagraph, BasedOn: "Normal",
			ParagraphConfig: &style.QuickParagraphConfig{Alignment: a[2], LineSpacing: 1.5, SpaceBefore: 6},
			RunConfig:       &style.QuickRunConfig{FontName: a[2], FontSize: 12, FontColor: a[2], Bold: true, Highlight: a[2]}})
		x.e(err)
	})

	// ---- page settings
	add("SetPageSize(s)", 1, "", func(x *c01Env, a []string) { x.e(x.doc.SetPageSize(document.PageSize(a[0]))) })
	add("SetPageOrientation(s)", 1, "", func(x *c01Env, a []string) { x.e(x.doc.SetPageOrientation(document.PageOrientation(a[0]))) })
	add("SetDocGrid(s,312,0)", 1, "", func(x *c01Env, a []string) { x.e(x.doc.SetDocGrid(document.DocGridType(a[0]), 312, 0)) })
	add("SetPageSettings(A5 landscape, margins, gutter, grid)", 0, "", func(x *c01Env, a []string) { x.e(c01Section(x.doc)) })
	add("SetCustomPageSize+SetPageMargins+SetHeaderFooterDistance+SetGutterWidth", 0, "", func(x *c01Env, a []string) {
		x.e(x.doc.SetCustomPageSize(120, 180))
		x.e(x.doc.SetPageMargins(10, 20, 30, 40))
		x.e(x.doc.SetHeaderFooterDistance(5, 7))
		x.e(x.doc.SetGutterWidth(9))
	})
	return ops
}

func c01Section(d *document.Document) error {
	s := document.DefaultPageSettings()
	s.Size = document.PageSizeA5
	s.Orientation = document.OrientationLandscape
	s.MarginTop, s.MarginRight, s.MarginBottom, s.MarginLeft = 11, 12, 13, 14
	s.HeaderDistance, s.FooterDistance, s.GutterWidth = 6, 7, 3
	s.DocGridType, s.DocGridLinePitch, s.DocGridCharSpace = document.DocGridSnapToChars, 360, 15
	return d.SetPageSettings(s)
}

// c01ArgVectors: every argument position over the domain with the others benign, plus the diagonal.
func c01ArgVectors(n int, dom []string) [][]string {
	if n == 0 {
		return [][]string{{}}
	}
	var out [][]string
	seen := map[string]bool{}
	push := func(v []string) {
		k := strings.Join(v, "\x00\x00")
		if !seen[k] {
			seen[k] = true
			out = append(out, v)
		}
	}
	for i := 0; i < n; i++ {
		for _, s := range dom {
			v := make([]string, n)
			for j := range v {
				v[j] = c01Benign
			}
			v[i] = s
			push(v)
		}
	}
	for _, s := range dom {
		v := make([]string, n)
		for j := range v {
			v[j] = s
		}
		push(v)
	}
	return out
}

// ---------------------------------------------------------------------------
// part (3): reduced alphabet of the history search

type c01HOp struct {
	name    string
	enabled func(x *c01Env) bool
	f       func(x *c01Env)
}

func c01Alphabet() []c01HOp {
	var al []c01HOp
	add := func(name string, f func(x *c01Env)) { al = append(al, c01HOp{name: name, f: f}) }
	need := func(name string, en func(x *c01Env) bool, f func(x *c01Env)) {
		al = append(al, c01HOp{name: name, enabled: en, f: f})
	}
	hasP := func(x *c01Env) bool { return x.p != nil }
	hasT := func(x *c01Env) bool { return x.t != nil && len(x.t.Rows) > 0 && len(x.t.Rows[0].Cells) > 0 }
	B, H := c01Benign, c01Hostile
	add("para(benign)", func(x *c01Env) { x.p = x.doc.AddParagraph(B) })
	add("para(hostile)", func(x *c01Env) { x.p = x.doc.AddFormattedParagraph(H, &document.TextFormat{FontFamily: H, Bold: true}) })
	add("heading(benign)", func(x *c01Env) { x.p = x.doc.AddHeadingParagraph(B, 1) })
	add("headingBookmark(hostile)", func(x *c01Env) { x.p = x.doc.AddHeadingWithBookmark(H, 2, H) })
	add("pageBreak", func(x *c01Env) { x.doc.AddPageBreak() })
	need("lastPara.AddFormattedText(hostile)+SetStyle(hostile)", hasP, func(x *c01Env) { x.p.AddFormattedText(H, &document.TextFormat{FontColor: H}); x.p.SetStyle(H) })
	add("table(benign)", func(x *c01Env) {
		t, err := x.doc.AddTable(&document.TableConfig{Rows: 2, Cols: 2, Width: 6000, Data: [][]string{{B, B}, {B, B}}})
		x.e(err)
		if t != nil {
			x.t = t
		}
	})
	add("table(hostile)", func(x *c01Env) {
		t, err := x.doc.AddTable(&document.TableConfig{Rows: 2, Cols: 2, Width: 6000, Data: [][]string{{H, B}, {B, H}}})
		x.e(err)
		if t != nil {
			x.t = t
		}
	})
	need("lastTable.SetCellText(hostile)+AddNestedTable(hostile)", hasT, func(x *c01Env) {
		x.e(x.t.SetCellText(0, 0, H))
		_, err := x.t.AddNestedTable(0, 0, &document.TableConfig{Rows: 1, Cols: 1, Width: 1000, Data: [][]string{{H}}})
		x.e(err)
	})
	need("lastTable.AddCellImageFromData(png)", hasT, func(x *c01Env) { _, err := x.doc.AddCellImageFromData(x.t, 0, 0, c01PNG, 10); x.e(err) })
	need("lastTable.AddCellImageFromFile(a.jpg jpeg)", hasT, func(x *c01Env) {
		_, err := x.doc.AddCellImageFromFile(x.t, 0, 0, x.file("jpeg", "a.jpg"), 10)
		x.e(err)
	})
	add("image(png,a.png)", func(x *c01Env) {
		_, err := x.doc.AddImageFromData(c01PNG, "a.png", document.ImageFormatPNG, 4, 3, nil)
		x.e(err)
	})
	add("image(jpeg,a.jpeg,alt hostile)", func(x *c01Env) {
		_, err := x.doc.AddImageFromData(c01JPEG, "a.jpeg", document.ImageFormatJPEG, 5, 4, &document.ImageConfig{AltText: H, Title: H})
		x.e(err)
	})
	add("image(jpeg,a.jpg)", func(x *c01Env) {
		_, err := x.doc.AddImageFromData(c01JPEG, "a.jpg", document.ImageFormatJPEG, 5, 4, nil)
		x.e(err)
	})
	add("image(gif,a.gif)", func(x *c01Env) {
		_, err := x.doc.AddImageFromData(c01GIF, "a.gif", document.ImageFormatGIF, 3, 3, nil)
		x.e(err)
	})
	add("imageFromFile(a png data)", func(x *c01Env) { _, err := x.doc.AddImageFromFile(x.file("png", "a"), nil); x.e(err) })
	add("AddHeader(default,benign)", func(x *c01Env) { x.e(x.doc.AddHeader(document.HeaderFooterTypeDefault, B)) })
	add("AddHeaderWithPageNumber(first,hostile)", func(x *c01Env) { x.e(x.doc.AddHeaderWithPageNumber(document.HeaderFooterTypeFirst, H, true)) })
	add("AddFooterWithPageNumber(even,hostile)", func(x *c01Env) { x.e(x.doc.AddFooterWithPageNumber(document.HeaderFooterTypeEven, H, true)) })
	add("AddFormattedFooter(default,benign)", func(x *c01Env) {
		x.e(x.doc.AddFormattedFooter(document.HeaderFooterTypeDefault, &document.HeaderFooterConfig{Text: B, Format: &document.TextFormat{FontSize: 9}, Alignment: document.AlignCenter}))
	})
	add("AddFootnote(hostile)", func(x *c01Env) { x.e(x.doc.AddFootnote(H, H)) })
	add("AddEndnote(benign)", func(x *c01Env) { x.e(x.doc.AddEndnote(B, B)) })
	add("SetFootnoteConfig(lowerRoman)", func(x *c01Env) {
		x.e(x.doc.SetFootnoteConfig(&document.FootnoteConfig{NumberFormat: document.FootnoteFormatLowerRoman, StartNumber: 1, RestartEach: document.FootnoteRestartEachPage, Position: document.FootnotePositionPageBottom}))
	})
	add("AddListItem(benign,bullet)", func(x *c01Env) {
		x.p = x.doc.AddListItem(B, &document.ListConfig{Type: document.ListTypeBullet, BulletSymbol: document.BulletTypeDot})
	})
	add("AddListItem(hostile,number)", func(x *c01Env) {
		x.p = x.doc.AddListItem(H, &document.ListConfig{Type: document.ListTypeNumber, StartNumber: 1})
	})
	add("GenerateTOC(title hostile)", func(x *c01Env) {
		x.e(x.doc.GenerateTOC(&document.TOCConfig{Title: H, MaxLevel: 3, ShowPageNum: true, UseHyperlink: true, DotLeader: true}))
	})
	add("AutoGenerateTOC(nil)", func(x *c01Env) { x.e(x.doc.AutoGenerateTOC(nil)) })
	add("UpdateTOC", func(x *c01Env) { x.e(x.doc.UpdateTOC()) })
	add("SetTitle(hostile)", func(x *c01Env) { x.e(x.doc.SetTitle(H)) })
	add("SetDocumentProperties(benign)", func(x *c01Env) {
		x.e(x.doc.SetDocumentProperties(&document.DocumentProperties{Title: B, Creator: B, Language: "en-US", Created: time.Unix(1700000000, 0).UTC(), LastModified: time.Unix(1700000100, 0).UTC()}))
	})
	add("AddMathFormula(OMML,block)", func(x *c01Env) { x.doc.AddMathFormula(c01OMML, true) })
	add("AddMathFormula(hostile,inline)", func(x *c01Env) { x.doc.AddMathFormula(H, false) })
	add("CreateCustomStyle(hostile)", func(x *c01Env) { x.doc.GetStyleManager().CreateCustomStyle(H, H, style.StyleTypeParagraph, "Normal") })
	add("SetPageSettings(A5 landscape)", func(x *c01Env) { x.e(c01Section(x.doc)) })
	add("reopen", func(x *c01Env) {
		var b []byte
		var err error
		if p := guard(func() { b, err = x.doc.ToBytes() }); p != "" || err != nil {
			x.note += " reopen:save-failed"
			return
		}
		d, errS := reopen(b)
		if errS != "" {
			x.note += " reopen:open-failed"
			return
		}
		x.doc = d
		x.refresh()
	})
	add("ToBytes(result kept by the caller)", func(x *c01Env) {
		var b []byte
		var err error
		if p := guard(func() { b, err = x.doc.ToBytes() }); p != "" || err != nil {
			x.note += " keep:save-failed"
			return
		}
		x.kept = append(x.kept, b)
		x.keptSum = append(x.keptSum, sha256.Sum256(b))
	})
	// a package written by another application takes the place of the document: content types the way Word
	// declares them (jpg, not jpeg; PNG through an Override), sparse relationship ids, existing media
	add("open-foreign(Default jpg=image/jpeg, png by Override, media, sparse ids)", func(x *c01Env) {
		d, errS := reopen(c01ForeignWordLike())
		if errS != "" {
			x.note += " reopen:open-failed"
			return
		}
		x.doc = d
		x.refresh()
	})
	add("image(format bmp: the call is refused)", func(x *c01Env) {
		// a refused call is not a failed history: whatever is saved afterwards is judged
		if _, err := x.doc.AddImageFromData(pngBytes(2, 1, 91), "x.bmp", document.ImageFormat("bmp"), 2, 1, nil); err == nil {
			x.note += " unsupported-format-accepted"
		}
	})
	// packages whose PACKAGE relationship part is laid out the way other writers do: the main document is not rId1,
	// property parts are absent or present under other ids (what a property setter adds must not disturb it)
	for li, name := range c01RootLayoutNames {
		li := li
		add("open-foreign(package relationships: "+name+")", func(x *c01Env) {
			d, errS := reopen(c01ForeignRootLayout(li))
			if errS != "" {
				x.note += " reopen:open-failed"
				return
			}
			x.doc = d
			x.refresh()
		})
	}
	// the document built so far is used as a template: clone + substitution by the engine
	render := func(x *c01Env, structural bool) {
		td := document.NewTemplateData()
		td.SetVariable("v", H)
		td.SetCondition("c", true)
		te := document.NewTemplateEngine()
		var d *document.Document
		var err error
		if p := guard(func() {
			if _, err = te.LoadTemplateFromDocument("t", x.doc); err == nil {
				if structural {
					d, err = te.RenderTemplateToDocument("t", td)
				} else {
					d, err = te.RenderToDocument("t", td)
				}
			}
		}); p != "" || err != nil || d == nil {
			x.note += " render:failed"
			return
		}
		x.doc = d
		x.refresh()
	}
	add("template:render through an engine that loaded this document object while it was still empty", func(x *c01Env) {
		if x.early == nil {
			x.note += " render:no-early-engine"
			return
		}
		td := document.NewTemplateData()
		td.SetVariable("v", H)
		td.SetCondition("c", true)
		var d *document.Document
		var err error
		if p := guard(func() { d, err = x.early.RenderTemplateToDocument("early", td) }); p != "" || err != nil || d == nil {
			x.note += " render:failed"
			return
		}
		x.doc = d
		x.refresh()
	})
	add("template:RenderTemplateToDocument(v=hostile)", func(x *c01Env) { render(x, true) })
	add("template:RenderToDocument(v=hostile)", func(x *c01Env) { render(x, false) })
	return al
}

var c01RootLayoutNames = []string{"officeDocument=rId2 only", "app=rId1, officeDocument=rId3, no core", "officeDocument=R1, core=rId2, no app"}

// c01ForeignRootLayout is a minimal third-party-like package with the given layout of _rels/.rels.
func c01ForeignRootLayout(layout int) []byte {
	p := foreign.New()
	p.Overrides["/word/styles.xml"] = foreign.CtStyles
	p.Add("word/styles.xml", foreign.StylesXML())
	p.DocRels = append(p.DocRels, foreign.Rel{ID: "rId1", Type: pkgmodel.RtStyles, Target: "styles.xml"})
	p.Add(p.DocName, foreign.DocXML("w", foreign.Para("foreign")+`<w:sectPr><w:pgSz w:w="11906" w:h="16838"/></w:sectPr>`))
	office := foreign.NsR + "/officeDocument"
	app := func() {
		p.Overrides["/docProps/app.xml"] = foreign.CtApp
		p.Add("docProps/app.xml", []byte(`<?xml version="1.0" encoding="UTF-8" standalone="yes"?>`+"\n"+`<Properties xmlns="http://schemas.openxmlformats.org/officeDocument/2006/extended-properties"><Application>Other Writer</Application></Properties>`))
	}
	core := func() {
		p.Overrides["/docProps/core.xml"] = foreign.CtCore
		p.Add("docProps/core.xml", []byte(`<?xml version="1.0" encoding="UTF-8" standalone="yes"?>`+"\n"+`<cp:coreProperties xmlns:cp="http://schemas.openxmlformats.org/package/2006/metadata/core-properties" xmlns:dc="http://purl.org/dc/elements/1.1/"><dc:title>Foreign</dc:title></cp:coreProperties>`))
	}
	switch layout {
	case 0:
		p.RootRels = []foreign.Rel{{ID: "rId2", Type: office, Target: p.DocName}}
	case 1:
		app()
		p.RootRels = []foreign.Rel{{ID: "rId1", Type: foreign.RtExtended, Target: "docProps/app.xml"}, {ID: "rId3", Type: office, Target: p.DocName}}
	default:
		core()
		p.RootRels = []foreign.Rel{{ID: "R1", Type: office, Target: p.DocName}, {ID: "rId2", Type: foreign.RtCore, Target: "docProps/core.xml"}}
	}
	return p.Bytes()
}

// c01ForeignWordLike is a third-party-like package whose content types are declared the way Word does.
func c01ForeignWordLike() []byte {
	p := foreign.New()
	p.Defaults["jpg"] = "image/jpeg"
	p.Defaults["emf"] = "image/x-emf"
	p.Overrides["/word/styles.xml"] = foreign.CtStyles
	p.Add("word/styles.xml", foreign.StylesXML())
	p.DocRels = append(p.DocRels, foreign.Rel{ID: "rId3", Type: pkgmodel.RtStyles, Target: "styles.xml"})
	p.Add("word/media/image1.jpg", jpegBytes(4, 2, 61))
	p.DocRels = append(p.DocRels, foreign.Rel{ID: "rId7", Type: pkgmodel.RtImage, Target: "media/image1.jpg"})
	p.Add("word/media/image2.png", pngBytes(3, 2, 62))
	p.Overrides["/word/media/image2.png"] = "image/png"
	p.DocRels = append(p.DocRels, foreign.Rel{ID: "rId12", Type: pkgmodel.RtImage, Target: "media/image2.png"})
	body := foreign.Para("foreign") + foreign.DrawingPara("rId7", 1, 9525*4, 9525*2) + foreign.DrawingPara("rId12", 2, 9525*3, 9525*2)
	body += `<w:sectPr><w:pgSz w:w="11906" w:h="16838"/></w:sectPr>`
	p.Add(p.DocName, foreign.DocXML("w", body))
	return p.Bytes()
}

// ---------------------------------------------------------------------------
// parts (2) and (4): image placements, templates, Markdown

type c01Place struct {
	name      string
	needsFile bool
	anyFormat bool // the declared format is a free argument (body-from-data only)
	f         func(x *c01Env, data c01Fmt, declared document.ImageFormat, name string)
}

func c01Template(x *c01Env, base *document.Document, data *document.TemplateData) {
	te := document.NewTemplateEngine()
	if _, err := te.LoadTemplateFromDocument("t", base); err != nil {
		x.e(err)
		x.doc = nil
		return
	}
	d, err := te.RenderTemplateToDocument("t", data)
	if err != nil {
		x.e(err)
		x.doc = nil
		return
	}
	x.doc = d
}

func c01Places() []c01Place {
	return []c01Place{
		{"body-from-data", false, true, func(x *c01Env, d c01Fmt, decl document.ImageFormat, name string) {
			_, err := x.doc.AddImageFromData(d.data, name, decl, 4, 3, nil)
			x.e(err)
		}},
		{"body-from-file", true, false, func(x *c01Env, d c01Fmt, decl document.ImageFormat, name string) {
			_, err := x.doc.AddImageFromFile(x.file(d.name, name), nil)
			x.e(err)
		}},
		{"cell-from-data", false, false, func(x *c01Env, d c01Fmt, decl document.ImageFormat, name string) {
			c01Table(x)
			_, err := x.doc.AddCellImage(x.t, 0, 0, &document.CellImageConfig{Data: d.data, Format: decl, Width: 10, KeepAspectRatio: true})
			x.e(err)
		}},
		{"cell-from-file", true, false, func(x *c01Env, d c01Fmt, decl document.ImageFormat, name string) {
			c01Table(x)
			_, err := x.doc.AddCellImageFromFile(x.t, 1, 1, x.file(d.name, name), 10)
			x.e(err)
		}},
		{"template-placeholder-from-file", true, false, func(x *c01Env, d c01Fmt, decl document.ImageFormat, name string) {
			x.doc.AddParagraph("before")
			x.doc.AddParagraph("{{#image pic}}")
			td := document.NewTemplateData()
			td.SetImage("pic", x.file(d.name, name), nil)
			c01Template(x, x.doc, td)
		}},
		{"template-placeholder-from-data", false, false, func(x *c01Env, d c01Fmt, decl document.ImageFormat, name string) {
			x.doc.AddParagraph("{{#image pic}}")
			td := document.NewTemplateData()
			td.SetImageWithDetails("pic", "", d.data, nil, c01Hostile, name)
			c01Template(x, x.doc, td)
		}},
		{"template-cell-placeholder-from-file", true, false, func(x *c01Env, d c01Fmt, decl document.ImageFormat, name string) {
			_, err := x.doc.AddTable(&document.TableConfig{Rows: 1, Cols: 2, Width: 6000, Data: [][]string{{"{{#image pic}}", "x"}}})
			x.e(err)
			td := document.NewTemplateData()
			td.SetImage("pic", x.file(d.name, name), &document.ImageConfig{AltText: name})
			c01Template(x, x.doc, td)
		}},
	}
}

// template documents of part (4): the value of {{v}} lands in body, table cell, header and footer
type c01Tpl struct {
	name  string
	build func(x *c01Env) *document.Document
}

func c01Templates() []c01Tpl {
	mk := func(x *c01Env, hdr func(d *document.Document)) *document.Document {
		d := x.doc
		d.AddParagraph("Hello {{v}} and {{v}}")
		_, err := d.AddTable(&document.TableConfig{Rows: 1, Cols: 2, Width: 6000, Data: [][]string{{"{{v}}", "x"}}})
		x.e(err)
		d.AddParagraph("{{#each items}}")
		d.AddParagraph("item {{name}}")
		d.AddParagraph("{{/each}}")
		d.AddParagraph("{{#if c}}yes {{v}}{{else}}no {{v}}{{/if}}")
		hdr(d)
		return d
	}
	reopened := func(x *c01Env, d *document.Document) *document.Document {
		b, err := d.ToBytes()
		if err != nil {
			x.e(err)
			return nil
		}
		r, errS := reopen(b)
		if errS != "" {
			x.errs = append(x.errs, errS)
			return nil
		}
		return r
	}
	plain := func(d *document.Document) {
		d.AddHeader(document.HeaderFooterTypeDefault, "H {{v}}")
		d.AddFooter(document.HeaderFooterTypeDefault, "F {{v}} {{#if c}}yes{{else}}no{{/if}}")
	}
	numbered := func(d *document.Document) {
		d.AddHeaderWithPageNumber(document.HeaderFooterTypeFirst, "{{v}}", true)
		d.AddFormattedFooter(document.HeaderFooterTypeEven, &document.HeaderFooterConfig{Text: "{{#if c}}{{v}}{{/if}}", Format: &document.TextFormat{Bold: true}, Alignment: document.AlignCenter})
	}
	return []c01Tpl{
		{"built(header default, footer default)", func(x *c01Env) *document.Document { return mk(x, plain) }},
		{"reopened(header default, footer default)", func(x *c01Env) *document.Document { return reopened(x, mk(x, plain)) }},
		{"built(header first with page number, formatted footer even)", func(x *c01Env) *document.Document { return mk(x, numbered) }},
		{"reopened(header first with page number, formatted footer even)", func(x *c01Env) *document.Document { return reopened(x, mk(x, numbered)) }},
	}
}

// Markdown documents around a hostile string
var c01MDShapes = []struct {
	name string
	f    func(s string) string
}{
	{"paragraph", func(s string) string { return s + "\n" }},
	{"heading", func(s string) string { return "# " + s + "\n\ntext\n" }},
	{"emphasis", func(s string) string { return "**" + s + "** and *" + s + "* and ~~" + s + "~~\n" }},
	{"code-span", func(s string) string { return "`" + s + "`\n" }},
	{"code-block", func(s string) string { return "```" + s + "\n" + s + "\n```\n" }},
	{"list", func(s string) string { return "- " + s + "\n- [ ] " + s + "\n\n1. " + s + "\n" }},
	{"blockquote", func(s string) string { return "> " + s + "\n" }},
	{"table", func(s string) string { return "| h | " + s + " |\n|---|---|\n| " + s + " | x |\n" }},
	{"link-image", func(s string) string {
		return "[" + s + "](http://x/" + s + " \"" + s + "\") ![" + s + "](" + s + ")\n"
	}},
	{"math", func(s string) string { return "inline $" + s + "$ and\n\n$$\n" + s + "\n$$\n" }},
	{"footnote", func(s string) string { return "text[^1]\n\n[^1]: " + s + "\n" }},
	{"html", func(s string) string { return "<div>" + s + "</div>\n\n<!-- " + s + " -->\n" }},
}

// ---------------------------------------------------------------------------
// enumeration

type c01Case struct {
	part  string
	steps []string
	depth int
	save  int  // 0 ToBytes, 1 Save(file), 2 the case produced the bytes itself
	lie   bool // the declared image format differs from the format of the data (an input fact used to class media signatures)
	skip  func(x *c01Env) bool
	build func(x *c01Env)
}

var c01SaveNames = []string{"ToBytes", "Save"}

func c01Depth(tier string) int {
	if tier == "thorough" {
		return 3
	}
	return 2
}

func c01Enumerate(tier string, visit func(c c01Case)) {
	// (1) product
	for _, op := range c01Ops() {
		op := op
		dom := append(append([]string{}, c01S...), op.extra...)
		for _, v := range c01ArgVectors(op.n, dom) {
			v := v
			for save := 0; save < 2; save++ {
				visit(c01Case{part: "product", steps: []string{op.name, "args=[" + c01qs(v) + "]", c01SaveNames[save]}, depth: 1, save: save,
					build: func(x *c01Env) { c01BaseFor(x, op.base); op.f(x, v) }})
			}
		}
	}
	// (2) images
	declared := []document.ImageFormat{document.ImageFormatPNG, document.ImageFormatJPEG, document.ImageFormatGIF, "bmp", ""}
	for _, pl := range c01Places() {
		pl := pl
		for _, d := range c01Fmts {
			d := d
			decls := []document.ImageFormat{d.f}
			if pl.anyFormat {
				decls = declared
			}
			for _, decl := range decls {
				decl := decl
				for _, name := range c01Names {
					name := name
					for save := 0; save < 2; save++ {
						visit(c01Case{part: "images", steps: []string{pl.name, "data=" + d.name, "declared=" + c01q(string(decl)), "name=" + c01q(name), c01SaveNames[save]}, depth: 1, save: save, lie: decl != d.f,
							build: func(x *c01Env) { pl.f(x, d, decl, name) }})
					}
				}
			}
		}
	}
	// two images in one document: every ordered pair of (format, name) over a reduced name set
	pairNames := []string{"a.png", "a.jpg", "a.jpeg", "a.gif", "a"}
	type fn struct {
		d    c01Fmt
		name string
	}
	var fns []fn
	for _, d := range c01Fmts {
		for _, n := range pairNames {
			fns = append(fns, fn{d, n})
		}
	}
	for _, a := range fns {
		for _, b := range fns {
			a, b := a, b
			visit(c01Case{part: "image-pairs", steps: []string{"AddImageFromData(" + a.d.name + "," + a.name + ")", "AddImageFromData(" + b.d.name + "," + b.name + ")", "ToBytes"}, depth: 2,
				build: func(x *c01Env) {
					_, err := x.doc.AddImageFromData(a.d.data, a.name, a.d.f, 4, 3, nil)
					x.e(err)
					_, err = x.doc.AddImageFromData(b.d.data, b.name, b.d.f, 4, 3, nil)
					x.e(err)
				}})
		}
	}
	// (3) histories
	al := c01Alphabet()
	maxLen := c01Depth(tier)
	for n := 1; n <= maxLen; n++ {
		idx := make([]int, n)
		for {
			seq := append([]int{}, idx...)
			names := make([]string, 0, n+1)
			for _, i := range seq {
				names = append(names, al[i].name)
			}
			for save := 0; save < 2; save++ {
				visit(c01Case{part: "histories", steps: append(append([]string{}, names...), c01SaveNames[save]), depth: n, save: save,
					build: func(x *c01Env) {
						for _, i := range seq {
							if al[i].enabled != nil && !al[i].enabled(x) {
								x.note += " disabled-op"
								continue
							}
							al[i].f(x)
						}
					}})
			}
			k := n - 1
			for k >= 0 {
				idx[k]++
				if idx[k] < len(al) {
					break
				}
				idx[k] = 0
				k--
			}
			if k < 0 {
				break
			}
		}
	}
	// (3b) narrow and deep: every operation repeated 3..k times, and for every unordered pair of operations every
	// word of length 4 that uses both (state that builds up over repeated calls of one kind: counters, part
	// bodies spliced in place, id allocators).  The save entry point alternates.
	{
		maxRep := 6
		if tier == "thorough" {
			maxRep = 12
		}
		cnt := 0
		word := func(seq []int) {
			seq = append([]int{}, seq...)
			names := make([]string, 0, len(seq)+1)
			for _, i := range seq {
				names = append(names, al[i].name)
			}
			save := cnt % 2
			cnt++
			visit(c01Case{part: "deep-histories", steps: append(names, c01SaveNames[save]), depth: len(seq), save: save,
				build: func(x *c01Env) {
					for _, i := range seq {
						if al[i].enabled != nil && !al[i].enabled(x) {
							x.note += " disabled-op"
							continue
						}
						al[i].f(x)
					}
				}})
		}
		for a := range al {
			for k := 3; k <= maxRep; k++ {
				if k <= maxLen {
					continue
				}
				seq := make([]int, k)
				for j := range seq {
					seq[j] = a
				}
				word(seq)
			}
		}
		if maxLen < 4 {
			for a := range al {
				for b := a + 1; b < len(al); b++ {
					for m := 1; m < 15; m++ {
						seq := make([]int, 4)
						for j := range seq {
							if m>>uint(j)&1 == 1 {
								seq[j] = b
							} else {
								seq[j] = a
							}
						}
						word(seq)
					}
				}
			}
		}
	}
	// (4a) templates from documents
	for _, tp := range c01Templates() {
		tp := tp
		for _, s := range append(append([]string{}, c01S...), c01Hostile, "{{v}}", "{{#if c}}", "</w:t>") {
			s := s
			for _, cond := range []bool{true, false} {
				cond := cond
				for save := 0; save < 2; save++ {
					visit(c01Case{part: "templates", steps: []string{"RenderTemplateToDocument", tp.name, "v=" + c01q(s), fmt.Sprintf("c=%v", cond), c01SaveNames[save]}, depth: 1, save: save,
						build: func(x *c01Env) {
							base := tp.build(x)
							if base == nil {
								x.doc = nil
								return
							}
							td := document.NewTemplateData()
							td.SetVariable("v", s)
							td.SetCondition("c", cond)
							td.SetList("items", []interface{}{map[string]interface{}{"name": s}, map[string]interface{}{"name": c01Benign}})
							c01Template(x, base, td)
						}})
				}
			}
		}
	}
	// (4b) templates from strings
	for _, s := range append(append([]string{}, c01S...), c01Hostile) {
		s := s
		for _, where := range []string{"content", "value"} {
			where := where
			for save := 0; save < 2; save++ {
				visit(c01Case{part: "templates", steps: []string{"LoadTemplate+RenderToDocument", "hostile " + where + "=" + c01q(s), c01SaveNames[save]}, depth: 1, save: save,
					build: func(x *c01Env) {
						te := document.NewTemplateEngine()
						content := "Title {{v}}\n{{#if c}}yes{{/if}}\n{{#each items}}- {{name}}\n{{/each}}\n"
						val := c01Benign
						if where == "content" {
							content += s + "\n"
						} else {
							val = s
						}
						if _, err := te.LoadTemplate("t", content); err != nil {
							x.e(err)
							x.doc = nil
							return
						}
						td := document.NewTemplateData()
						td.SetVariable("v", val)
						td.SetCondition("c", true)
						td.SetList("items", []interface{}{map[string]interface{}{"name": val}})
						d, err := te.RenderToDocument("t", td)
						if err != nil {
							x.e(err)
							x.doc = nil
							return
						}
						x.doc = d
					}})
			}
		}
	}
	// (4c) Markdown
	for _, sh := range c01MDShapes {
		sh := sh
		for _, s := range append(append([]string{}, c01S...), c01Hostile, "\\frac{a}{b} < \\alpha & x", "<script>&amp;</script>") {
			s := s
			for _, hq := range []bool{false, true} {
				hq := hq
				opts := func() *markdown.ConvertOptions {
					if hq {
						return markdown.HighQualityOptions()
					}
					return markdown.DefaultOptions()
				}
				on := "default"
				if hq {
					on = "high-quality"
				}
				visit(c01Case{part: "markdown", steps: []string{"ConvertString", sh.name, "s=" + c01q(s), on, "ToBytes"}, depth: 1, save: 0,
					build: func(x *c01Env) {
						o := opts()
						d, err := markdown.NewConverter(o).ConvertString(sh.f(s), o)
						if err != nil {
							x.e(err)
							x.doc = nil
							return
						}
						x.doc = d
					}})
				visit(c01Case{part: "markdown", steps: []string{"ConvertFile", sh.name, "s=" + c01q(s), on, "Save"}, depth: 1, save: 2,
					build: func(x *c01Env) {
						x.doc = nil
						in := filepath.Join(x.out, "in.md")
						out := filepath.Join(x.out, "out.docx")
						os.Remove(out)
						if err := os.WriteFile(in, []byte(sh.f(s)), 0o644); err != nil {
							x.errs = append(x.errs, "harness: "+err.Error())
							return
						}
						o := opts()
						if err := markdown.NewConverter(o).ConvertFile(in, out, o); err != nil {
							x.e(err)
							return
						}
						b, err := os.ReadFile(out)
						if err != nil {
							x.errs = append(x.errs, "harness: "+err.Error())
							return
						}
						x.raw = b
					}})
			}
		}
	}
}

// ---------------------------------------------------------------------------
// the oracle

// c01XMLCulprit locates the first well-formedness problem of an XML part: the innermost element
// that is open there (prefixed name as written) and the kind of problem.
func c01XMLCulprit(data []byte, probs []string) (elem, kind string) {
	kind = "other"
	first := ""
	if len(probs) > 0 {
		first = probs[0]
	}
	switch {
	case strings.HasPrefix(first, "invalid UTF-8"):
		kind = "invalid-utf8"
	case strings.HasPrefix(first, "illegal XML character"):
		kind = "illegal-char"
	case strings.HasPrefix(first, "syntax"):
		kind = "syntax"
	case strings.Contains(first, "undeclared prefix"):
		kind = "undeclared-prefix"
	case strings.Contains(first, "duplicate attribute"):
		kind = "duplicate-attribute"
	case strings.Contains(first, "invalid element name"), strings.Contains(first, "invalid attribute name"):
		kind = "invalid-name"
	case strings.Contains(first, "more than one root"), strings.Contains(first, "outside the root"):
		kind = "content-outside-root"
	case strings.Contains(first, "empty document"), strings.Contains(first, "no root"):
		return "(none)", "empty"
	case strings.Contains(first, "empty namespace"):
		kind = "empty-namespace"
	}
	// offset of the first illegal byte, if that is the problem
	bad := int64(-1)
	if kind == "invalid-utf8" || kind == "illegal-char" {
		for i := 0; i < len(data); {
			r, sz := utf8.DecodeRune(data[i:])
			if (r == utf8.RuneError && sz == 1) || !(r == 0x09 || r == 0x0A || r == 0x0D || (r >= 0x20 && r <= 0xD7FF) || (r >= 0xE000 && r <= 0xFFFD) || (r >= 0x10000 && r <= 0x10FFFF)) {
				if r == utf8.RuneError && sz == 1 && kind == "illegal-char" {
					i += sz
					continue
				}
				bad = int64(i)
				break
			}
			i += sz
		}
	}
	dec := xml.NewDecoder(bytes.NewReader(data))
	dec.Strict = true
	var stack []string
	top := func() string {
		if len(stack) == 0 {
			return "(prolog)"
		}
		return stack[len(stack)-1]
	}
	qn := func(n xml.Name) string {
		if n.Space != "" {
			return n.Space + ":" + n.Local
		}
		return n.Local
	}
	for {
		start := dec.InputOffset()
		tok, err := dec.RawToken()
		end := dec.InputOffset()
		if err != nil {
			if err == io.EOF {
				return top(), kind
			}
			return top(), kind
		}
		switch t := tok.(type) {
		case xml.StartElement:
			if bad >= start && bad < end {
				return qn(t.Name), kind
			}
			stack = append(stack, qn(t.Name))
			if kind == "undeclared-prefix" || kind == "duplicate-attribute" || kind == "invalid-name" || kind == "empty-namespace" {
				// name the first element the reader complains about: cheap approximation = element named in the message
				if strings.Contains(first, " "+t.Name.Local) || strings.HasSuffix(first, t.Name.Local) {
					return qn(t.Name), kind
				}
			}
		case xml.EndElement:
			if len(stack) == 0 || stack[len(stack)-1] != qn(t.Name) {
				return top(), "mismatched-end-tag"
			}
			stack = stack[:len(stack)-1]
		default:
			if bad >= start && bad < end {
				return top(), kind
			}
		}
	}
}

func c01Sniff(b []byte) string {
	switch {
	case len(b) >= 8 && bytes.Equal(b[:8], []byte{0x89, 'P', 'N', 'G', 0x0d, 0x0a, 0x1a, 0x0a}):
		return "png"
	case len(b) >= 3 && b[0] == 0xff && b[1] == 0xd8 && b[2] == 0xff:
		return "jpeg"
	case len(b) >= 6 && (string(b[:6]) == "GIF87a" || string(b[:6]) == "GIF89a"):
		return "gif"
	}
	return "unknown"
}

var c01ConvExt = map[string]string{".png": "png", ".jpg": "jpeg", ".jpeg": "jpeg", ".jpe": "jpeg", ".gif": "gif"}

// c01MediaClass relates the extension of a media part to the data it holds.
func c01MediaClass(name string, data []byte) string {
	base := path.Base(name)
	ext := ""
	if i := strings.LastIndex(base, "."); i >= 0 {
		ext = strings.ToLower(base[i:])
	}
	is := c01Sniff(data)
	conv, ok := c01ConvExt[ext]
	switch {
	case ok && conv == is:
		return "extension-of-its-own-format:" + ext
	case ok:
		return "extension-of-another-image-format"
	case ext == "":
		return "no-extension"
	}
	return "unregistered-extension"
}

// c01PartClass is pkgmodel.PartClass with all header and footer parts in one class (they are
// written and rewritten by the same code whatever their kind).
func c01PartClass(name string) string {
	if strings.HasPrefix(name, "word/header") || strings.HasPrefix(name, "word/footer") {
		if strings.HasSuffix(name, ".xml") && !strings.Contains(name[len("word/"):], "/") {
			return "word/header-or-footer"
		}
	}
	return pkgmodel.PartClass(name)
}

func c01Dir(name string) string {
	if i := strings.LastIndex(name, "/"); i >= 0 {
		return pkgmodel.PartClass(name[:i])
	}
	return "(root)"
}

// c01Judge evaluates the invariant on one saved package.
func c01Judge(data []byte, lie bool) ([]rep.Violation, *pkgmodel.Pkg) {
	pkg := pkgmodel.Read(data)
	probs := pkg.CheckWellFormed()
	var badXML []string
	for n := range pkg.XMLProbs {
		badXML = append(badXML, n)
	}
	sort.Strings(badXML)
	nx := 0
	var out []rep.Violation
	for _, p := range probs {
		v := rep.Violation{Sig: p.Clause + "|" + p.Culprit, Clause: p.Clause, What: p.String()}
		switch p.Clause {
		case "xml-not-well-formed":
			if nx < len(badXML) {
				n := badXML[nx]
				nx++
				elem, kind := c01XMLCulprit(pkg.Parts[n], pkg.XMLProbs[n])
				v.Sig = p.Clause + "|" + c01PartClass(n) + "|in " + elem
				v.What = fmt.Sprintf("part %s is not well-formed XML (%s inside <%s>): %s", n, kind, elem, p.Detail)
			}
		case "illegal-part-name":
			if n, err := strconv.Unquote(p.Detail); err == nil {
				v.Sig = p.Clause + "|" + c01Dir(n)
				v.What = fmt.Sprintf("part name %q is not a legal OPC part name", n)
			}
		case "no-content-type":
			n := p.Detail
			if strings.HasPrefix(n, "word/media/") && lie {
				v.Sig = p.Clause + "|word/media|declared-format-differs-from-data"
			} else if strings.HasPrefix(n, "word/media/") {
				v.Sig = p.Clause + "|word/media|" + c01MediaClass(n, pkg.Parts[n])
			} else {
				v.Sig = p.Clause + "|" + pkgmodel.PartClass(n)
			}
			var defs []string
			for e := range pkg.Defaults {
				defs = append(defs, e)
			}
			sort.Strings(defs)
			v.What = fmt.Sprintf("part %s (%s data) has no content type: no Override for it and no Default for its extension (Defaults: %s)", n, c01Sniff(pkg.Parts[n]), strings.Join(defs, ","))
		}
		out = append(out, v)
	}
	return out, pkg
}

// ---------------------------------------------------------------------------
// one case

type c01Result struct {
	viol    []rep.Violation
	outcome string
	key     string
	nontriv bool
}

func c01ErrClass(s string) string {
	l := strings.ToLower(s)
	for _, k := range []string{"xml", "zip", "utf", "invalid", "unsupported"} {
		if strings.Contains(l, k) {
			return k
		}
	}
	return "error"
}

var c01EmptyKey string

func c01KeyOf(pkg *pkgmodel.Pkg) string { return rep.Hash(pkg.CanonString()) }

func c01Exec(cs c01Case, dir, out string) c01Result {
	var res c01Result
	document.VerifResetGlobals()
	x := &c01Env{doc: document.New(), dir: dir, out: out}
	if cs.part == "histories" || cs.part == "deep-histories" {
		guard(func() {
			eng := document.NewTemplateEngine()
			if _, err := eng.LoadTemplateFromDocument("early", x.doc); err == nil {
				x.early = eng
			}
		})
	}
	if p := guard(func() { cs.build(x) }); p != "" {
		// a panicking constructor/setter produced no saved bytes; not this property's subject
		res.outcome = "build-panic:" + panicClass(p)
		return res
	}
	apiErr := len(x.errs) > 0
	var data []byte
	switch {
	case cs.save == 2:
		if x.raw == nil {
			res.outcome = "no-output(api-error)"
			return res
		}
		data = x.raw
	case x.doc == nil:
		res.outcome = "no-document(api-error)"
		return res
	case cs.save == 0:
		var err error
		if p := guard(func() { data, err = x.doc.ToBytes() }); p != "" {
			res.outcome = "save-panic:" + panicClass(p)
			return res
		}
		if err != nil {
			res.outcome = "save-error:" + c01ErrClass(err.Error())
			return res
		}
	default:
		fn := filepath.Join(out, "save.docx")
		os.Remove(fn)
		var err error
		if p := guard(func() { err = x.doc.Save(fn) }); p != "" {
			res.outcome = "save-panic:" + panicClass(p)
			return res
		}
		if err != nil {
			res.outcome = "save-error:" + c01ErrClass(err.Error())
			return res
		}
		data, err = os.ReadFile(fn)
		if err != nil {
			res.outcome = "harness-read-error"
			return res
		}
	}
	viol, pkg := c01Judge(data, cs.lie)
	if pkg.ZipErr == "" {
		res.key = c01KeyOf(pkg)
		res.nontriv = res.key != c01EmptyKey
	}
	switch {
	case len(viol) == 0 && !apiErr:
		res.outcome = "well-formed"
	case len(viol) == 0:
		res.outcome = "well-formed(after api-error)"
	case apiErr:
		// a call of the history returned an error: the statement only speaks about successful calls
		res.outcome = "ill-formed(after api-error; not judged)"
		viol = nil
	default:
		res.outcome = "ill-formed"
	}
	for k, b := range x.kept {
		if sha256.Sum256(b) == x.keptSum[k] {
			continue
		}
		what := "the bytes an earlier ToBytes returned were changed by later calls on the document"
		if kv, _ := c01Judge(b, false); len(kv) > 0 {
			what += " and are no longer a well-formed package: " + kv[0].What
		}
		viol = append(viol, rep.Violation{Sig: "returned-bytes-changed-later|ToBytes", Clause: "saved-bytes-stay-readable", What: what})
		res.outcome = "ill-formed"
	}
	for _, tok := range strings.Fields(x.note) {
		if strings.HasPrefix(tok, "reopen:") || strings.HasPrefix(tok, "render:") {
			res.outcome += " [" + tok + "]"
		}
	}
	res.viol = viol
	return res
}

func c01SigSet(vs []rep.Violation) string {
	var s []string
	for _, v := range vs {
		s = append(s, v.Sig)
	}
	sort.Strings(s)
	return strings.Join(s, "\n")
}

func c01WriteImages(dir string) error {
	for _, d := range c01Fmts {
		for _, n := range c01Names {
			p := filepath.Join(dir, d.name, n)
			if err := os.MkdirAll(filepath.Dir(p), 0o755); err != nil {
				return err
			}
			if fi, err := os.Stat(p); err == nil && fi.IsDir() {
				continue
			}
			if err := os.WriteFile(p, d.data, 0o644); err != nil {
				return fmt.Errorf("%q: %v", p, err)
			}
		}
	}
	return nil
}

func c01Worker(c *shard.Ctx) {
	dir, err := os.MkdirTemp("", "c01-")
	if err != nil {
		c.P.HarnessErrs = append(c.P.HarnessErrs, err.Error())
		return
	}
	defer os.RemoveAll(dir)
	img := filepath.Join(dir, "img")
	out := filepath.Join(dir, "out")
	os.MkdirAll(out, 0o755)
	if err := c01WriteImages(img); err != nil {
		c.P.HarnessErrs = append(c.P.HarnessErrs, "cannot write image files: "+err.Error())
		return
	}
	// key of the empty document (non-triviality reference)
	document.VerifResetGlobals()
	if b, err := document.New().ToBytes(); err == nil {
		c01EmptyKey = c01KeyOf(pkgmodel.Read(b))
	}
	seenSig := map[string]bool{}
	first := true
	idx := int64(-1)
	samples := map[string]int{}
	c01Enumerate(c.Tier, func(cs c01Case) {
		idx++
		i := idx
		desc := map[string]interface{}{"part": cs.part, "steps": cs.steps}
		if !c.Begin(i, func() interface{} { return desc }) {
			return
		}
		res := c01Exec(cs, img, out)
		c.P.Evals++
		c.P.Traces++
		c.P.Transitions += int64(cs.depth) + 1
		c.P.Outcome(cs.part + ": " + res.outcome)
		if res.key != "" {
			c.P.Keys = append(c.P.Keys, res.key)
			if res.nontriv {
				c.P.Nontrivial = append(c.P.Nontrivial, res.key)
			}
		}
		again := first
		for _, v := range res.viol {
			if !seenSig[v.Sig] {
				again = true
			}
		}
		first = false
		if again {
			for rpt := 0; rpt < 2; rpt++ {
				r2 := c01Exec(cs, img, out)
				if c01SigSet(r2.viol) != c01SigSet(res.viol) || r2.key != res.key {
					c.P.HarnessErrs = append(c.P.HarnessErrs, fmt.Sprintf("case %d %v is not deterministic: first run {%s} key %s, later run {%s} key %s", i, cs.steps, c01SigSet(res.viol), res.key, c01SigSet(r2.viol), r2.key))
					return
				}
			}
		}
		for _, v := range res.viol {
			seenSig[v.Sig] = true
			v.Depth = cs.depth
			v.What = fmt.Sprintf("%s [%s: %s]", v.What, cs.part, strings.Join(cs.steps, " ; "))
			v.Case = shardCase(c, "C01", i, desc)
			c.P.Violate(v)
		}
		if samples[cs.part] < 1 && c.Shard == int(i%5) {
			samples[cs.part]++
			c.P.Samples = append(c.P.Samples, map[string]interface{}{"index": i, "part": cs.part, "steps": cs.steps, "outcome": res.outcome, "package_key": res.key})
		}
	})
}

func runC01(r *rep.Run) {
	r.Rule = "every enumerated case builds a document through the public API in a fresh state, saves it through the named entry point (ToBytes, Save to a file, or ConvertFile) and the bytes are read by the independent reader; " +
		"invariant = ZIP readable, entry names legal and unique, every .xml/.rels/[Content_Types].xml part namespace-well-formed with one root, content-types and package relationship parts present, exactly one officeDocument relationship whose target exists with the main-document content type, every entry has a content type; " +
		"a history in which a library call returned an error is recorded but not judged; state = canonical package hash; non-trivial = the package differs from the one of an empty document; " +
		"signature = clause | part class [| innermost element open at the first XML error] or [| relation of a media part's extension to its data]"
	ops := c01Ops()
	al := c01Alphabet()
	names := make([]string, len(al))
	for i, a := range al {
		names[i] = a.name
	}
	dom := make([]string, len(c01S))
	for i, s := range c01S {
		dom[i] = c01q(s)
	}
	r.Bounds["operations_in_product"] = len(ops)
	r.Bounds["string_domain"] = dom
	r.Bounds["save_entry_points"] = []string{"ToBytes", "Save(file)", "ConvertFile (Markdown)"}
	r.Bounds["image_data_formats"] = []string{"png", "jpeg", "gif"}
	r.Bounds["image_declared_formats"] = []string{"png", "jpeg", "gif", "bmp", ""}
	qn := make([]string, len(c01Names))
	for i, s := range c01Names {
		qn[i] = c01q(s)
	}
	r.Bounds["image_names"] = qn
	r.Bounds["image_placements"] = len(c01Places())
	r.Bounds["history_alphabet"] = names
	r.Bounds["history_max_len"] = c01Depth(r.Tier)
	r.Bounds["deep_histories"] = "every operation repeated up to 6 (thorough 12) times; every word of length 4 over every unordered pair of operations"
	r.Bounds["template_documents"] = len(c01Templates())
	r.Bounds["markdown_shapes"] = len(c01MDShapes)
	per := map[string]int64{}
	var total int64
	c01Enumerate(r.Tier, func(cs c01Case) { total++; per[cs.part]++ })
	r.Bounds["cases"] = total
	r.Bounds["cases_per_part"] = per
	r.Assume = []string{
		"argument vectors of an operation with several string parameters: each parameter over the whole domain with the others benign, plus all parameters equal (not the full product)",
		"a call that panics, or a save that returns an error or panics, produces no bytes and is recorded as an outcome, not judged",
		"legal part name = no empty/dot segments, no characters below U+0021, none of ? # \" < > | * : \\ and DEL (non-ASCII characters are tolerated)",
		"whether the content type registered for a media part matches its data is not judged (the statement only requires that one exists)",
	}
	runShards(r, "C01", map[string]interface{}{}, 120*time.Second, nil)
}
