package main

// C11 — each header/footer kind has exactly one, current, resolvable definition.

import (
	"encoding/json"
	"fmt"
	"sort"
	"strings"

	"github.com/zerx-lab/wordZero/pkg/document"

	"verif/harness/internal/pkgmodel"
	"verif/harness/internal/rep"
	"verif/harness/internal/seqx"
)

type c11Def struct {
	Text      string
	Call      string // plain | pagenum | formatted
	PageField bool
	Bold      bool
	Italic    bool
	Color     string
	SizeHalf  string
	Align     string
}

type c11Op struct {
	name string
	kind string // "hf" | other
	hf   string // header | footer
	typ  document.HeaderFooterType
	def  c11Def
	arg  int
}

var c11Ops []c11Op

func init() {
	kinds := []document.HeaderFooterType{document.HeaderFooterTypeDefault, document.HeaderFooterTypeFirst, document.HeaderFooterTypeEven}
	for _, hf := range []string{"header", "footer"} {
		for _, k := range kinds {
			H := strings.Title(hf)
			c11Ops = append(c11Ops,
				c11Op{name: fmt.Sprintf("Add%s(%s,A)", H, k), kind: "hf", hf: hf, typ: k, def: c11Def{Text: "A", Call: "plain"}},
				c11Op{name: fmt.Sprintf("Add%s(%s,B)", H, k), kind: "hf", hf: hf, typ: k, def: c11Def{Text: "B", Call: "plain"}},
				c11Op{name: fmt.Sprintf("Add%sWithPageNumber(%s,C,true)", H, k), kind: "hf", hf: hf, typ: k, def: c11Def{Text: "C", Call: "pagenum", PageField: true}},
				c11Op{name: fmt.Sprintf("Add%sWithPageNumber(%s,D,false)", H, k), kind: "hf", hf: hf, typ: k, def: c11Def{Text: "D", Call: "pagenum"}},
				c11Op{name: fmt.Sprintf("AddFormatted%s(%s,E bold red 10pt center)", H, k), kind: "hf", hf: hf, typ: k, def: c11Def{Text: "E", Call: "formatted", Bold: true, Color: "FF0000", SizeHalf: "20", Align: "center"}},
				c11Op{name: fmt.Sprintf("AddFormatted%s(%s,F italic right)", H, k), kind: "hf", hf: hf, typ: k, def: c11Def{Text: "F", Call: "formatted", Italic: true, Align: "right"}},
			)
		}
	}
	c11Ops = append(c11Ops,
		c11Op{name: "SetPageMargins", kind: "margins"},
		c11Op{name: "SetDifferentFirstPage(true)", kind: "titlepg"},
		c11Op{name: "rejected page-setting calls: SetPageOrientation(diagonal), SetCustomPageSize(5,5), SetPageMargins(-1,0,0,0)", kind: "badpage"},
		c11Op{name: "AddImageFromData", kind: "image"},
		c11Op{name: "AddListItem", kind: "list"},
		c11Op{name: "AddParagraph", kind: "para"},
		c11Op{name: "work on another document (build, save, reopen, render as template)", kind: "other"},
		c11Op{name: "reopen", kind: "reopen"},
		c11Op{name: "render-as-template", kind: "render"},
		// after a render: calls on the OTHER documents of the family (the template's base, a sibling rendered
		// from the same engine); the rendered document the history continues on must not change with them
		// load now, render later: between the two calls the caller keeps editing the base document
		c11Op{name: "AddHeader(default,P {{v}})", kind: "hf", hf: "header", typ: document.HeaderFooterTypeDefault, def: c11Def{Text: "P {{v}}", Call: "plain"}},
		c11Op{name: "LoadTemplateFromDocument (engine kept; the base keeps being edited)", kind: "load"},
		c11Op{name: "render through the engine that loaded the document earlier (the result is judged, the history stays on the base)", kind: "render-late"},
		c11Op{name: "on the template base: AddFooter(even,G)", kind: "hf-base", hf: "footer", typ: document.HeaderFooterTypeEven, def: c11Def{Text: "G", Call: "plain"}},
		c11Op{name: "on a sibling render of the same engine: AddHeader(first,S) + AddFooter(default,S2)", kind: "hf-sibling"},
	)
	names := make([]string, len(c11Ops))
	for i, o := range c11Ops {
		names[i] = o.name
	}
	seqx.Register(&seqx.Spec{Name: "C11", Ops: names, New: func(args json.RawMessage) seqx.Inst {
		document.VerifResetGlobals()
		var a c11Args
		json.Unmarshal(args, &a)
		inst := &c11Inst{doc: document.New(), defs: map[string]c11Def{}, narrow: a.Narrow || a.Late, late: a.Late}
		if a.Late {
			for _, n := range []string{"AddHeader(default,P {{v}})", "AddFooter(default,A)", "LoadTemplateFromDocument (engine kept; the base keeps being edited)"} {
				found := false
				for k, o := range c11Ops {
					if o.name == n {
						inst.narrow = false
						if out, v := inst.Apply(k); out != "ok" || len(v) > 0 {
							panic(fmt.Sprintf("harness: late prefix %s: %s %v", n, out, v))
						}
						inst.narrow = true
						found = true
					}
				}
				if !found {
					panic("harness: late prefix names an unknown operation " + n)
				}
			}
		}
		if a.Family {
			// third search: the histories start in the state after a template with three header/footer
			// definitions (three relationships) has been rendered; the history continues on the rendered document
			for _, n := range []string{"AddHeader(default,A)", "AddFooter(default,A)", "AddFooter(first,B)", "render-as-template"} {
				found := false
				for k, o := range c11Ops {
					if o.name == n {
						if out, v := inst.Apply(k); out != "ok" || len(v) > 0 {
							panic(fmt.Sprintf("harness: family prefix %s: %s %v", n, out, v))
						}
						found = true
					}
				}
				if !found {
					panic("harness: family prefix names an unknown operation " + n)
				}
			}
		}
		return inst
	}})
	register("C11", "model_checking", runC11)
}

// c11Args: Narrow selects the second search: eight calls (one header kind with two texts, two footer
// kinds, a page-number footer, picture, reopen) explored deeper than the full alphabet.
type c11Args struct {
	Narrow bool `json:"narrow"`
	Family bool `json:"family"`
	// Late: fourth search - prefix AddHeader(default,P {{v}}), AddFooter(default,A), LoadTemplateFromDocument, then
	// the narrow alphabet plus "render through the engine that loaded the document earlier"
	Late bool `json:"late"`
}

var c11NarrowOps = map[string]bool{
	"AddHeader(default,A)": true, "AddHeader(default,B)": true, "AddFooter(default,A)": true, "AddFooter(first,B)": true,
	"AddFooterWithPageNumber(default,C,true)": true, "AddHeader(even,A)": true, "AddImageFromData": true, "reopen": true,
}

type c11Inst struct {
	narrow bool
	doc    *document.Document
	defs   map[string]c11Def // "header|default" -> latest definition
	lastNT bool
	reop   int
	rend   int
	// after render-as-template: the template's base document and engine, with the definitions the base had
	// at that moment; later calls on the rendered document must leave them as they were
	base     *document.Document
	baseDefs map[string]c11Def
	// ... and as they were when the template was loaded (a call on the base may change baseDefs later)
	baseDefsAtLoad map[string]c11Def
	eng            *document.TemplateEngine
	onBase         int
	onSib          int
	sib            *document.Document
	// load now, render later
	late     bool
	lateEng  *document.TemplateEngine
	loadDefs map[string]c11Def
	nlate    int
}

func (i *c11Inst) Enabled(op int) bool {
	if i.narrow && !c11NarrowOps[c11Ops[op].name] && !(i.late && c11Ops[op].kind == "render-late") {
		return false
	}
	switch c11Ops[op].kind {
	case "reopen", "render":
		// after a load the engine holds THIS document object: the history stays on it until the late render
		if i.lateEng != nil && i.nlate < 1 {
			return false
		}
	case "load":
		return i.lateEng == nil && i.base == nil
	case "render-late":
		return i.lateEng != nil && i.nlate < 1
	}
	switch c11Ops[op].kind {
	case "reopen":
		return i.reop < 1
	case "render":
		return i.rend < 1
	case "hf-base":
		return i.base != nil && i.onBase < 1
	case "hf-sibling":
		return i.base != nil && i.onSib < 1
	}
	return true
}
func (i *c11Inst) Nontrivial() bool { return i.lastNT }

func (i *c11Inst) Apply(op int) (string, []rep.Violation) {
	o := c11Ops[op]
	i.lastNT = false
	var err error
	var viol []rep.Violation
	pan := guard(func() {
		switch o.kind {
		case "hf":
			d := o.def
			switch {
			case o.hf == "header" && d.Call == "plain":
				err = i.doc.AddHeader(o.typ, d.Text)
			case o.hf == "footer" && d.Call == "plain":
				err = i.doc.AddFooter(o.typ, d.Text)
			case o.hf == "header" && d.Call == "pagenum":
				err = i.doc.AddHeaderWithPageNumber(o.typ, d.Text, d.PageField)
			case o.hf == "footer" && d.Call == "pagenum":
				err = i.doc.AddFooterWithPageNumber(o.typ, d.Text, d.PageField)
			default:
				cfg := &document.HeaderFooterConfig{Text: d.Text, Format: &document.TextFormat{Bold: d.Bold, Italic: d.Italic, FontColor: d.Color}, Alignment: document.AlignmentType(d.Align)}
				if d.SizeHalf == "20" {
					cfg.Format.FontSize = 10
				}
				if o.hf == "header" {
					err = i.doc.AddFormattedHeader(o.typ, cfg)
				} else {
					err = i.doc.AddFormattedFooter(o.typ, cfg)
				}
			}
			if err == nil {
				i.defs[o.hf+"|"+string(o.typ)] = d
				i.lastNT = true
			}
		case "margins":
			err = i.doc.SetPageMargins(10, 10, 10, 10)
		case "badpage":
			// each of these is refused; a refused call leaves the header/footer definitions alone
			e1 := i.doc.SetPageOrientation(document.PageOrientation("diagonal"))
			e2 := i.doc.SetCustomPageSize(5, 5)
			e3 := i.doc.SetPageMargins(-1, 0, 0, 0)
			_, _, _ = e1, e2, e3 // whether they are refused is C12's subject; here only the definitions count
			i.lastNT = true
		case "titlepg":
			i.doc.SetDifferentFirstPage(true)
		case "image":
			_, err = i.doc.AddImageFromData(pngBytes(2, 1, 9), "a.png", document.ImageFormatPNG, 2, 1, nil)
		case "list":
			i.doc.AddListItem("item", &document.ListConfig{Type: document.ListTypeBullet, BulletSymbol: document.BulletTypeDot})
		case "para":
			i.doc.AddParagraph("body")
		case "other":
			interfereRaw()
		case "reopen":
			_, b, errS := saveRead(i.doc)
			if errS != "" {
				viol = append(viol, rep.Violation{Sig: "save-failed", Clause: "save", What: errS})
				return
			}
			d, e := reopen(b)
			if e != "" {
				viol = append(viol, rep.Violation{Sig: "reopen-failed", Clause: "reopen", What: e})
				return
			}
			i.doc = d
			i.reop++
			i.lastNT = true
		case "load":
			eng := document.NewTemplateEngine()
			if _, e := eng.LoadTemplateFromDocument("late", i.doc); e != nil {
				viol = append(viol, rep.Violation{Sig: "template-load-failed", Clause: "render", What: e.Error()})
				return
			}
			i.lateEng = eng
			i.loadDefs = map[string]c11Def{}
			for k, v := range i.defs {
				i.loadDefs[k] = v
			}
			i.lastNT = true
		case "render-late":
			i.nlate++
			i.lastNT = true
			d, e := i.lateEng.RenderTemplateToDocument("late", document.NewTemplateData())
			if e != nil || d == nil {
				viol = append(viol, rep.Violation{Sig: "template-render-failed|late", Clause: "render", What: fmt.Sprint(e)})
				return
			}
			rp, _, errR := saveRead(d)
			if errR != "" {
				viol = append(viol, rep.Violation{Sig: "save-failed|late-render", Clause: "save", What: errR})
				return
			}
			// the statement does not say whether a document template is the base as it was when it was loaded or as
			// it is when it is rendered; it must be ONE of the two for all kinds
			live := c11CheckPackage(rp, i.defs, "late-render")
			snap := c11CheckPackage(rp, i.loadDefs, "late-render")
			if len(live) > 0 && len(snap) > 0 {
				viol = append(viol, rep.Violation{Sig: "late-render|neither-the-base-at-load-time-nor-at-render-time|" + strings.SplitN(live[0].Sig, "|", 2)[0], Clause: "late-render",
					What: fmt.Sprintf("a template loaded earlier and rendered after the base was edited carries header/footer definitions that are neither those the base had when it was loaded (%s: %s) nor those it has now (%s: %s)", snap[0].Sig, snap[0].What, live[0].Sig, live[0].What)})
			}
		case "hf-base":
			err = i.base.AddFooter(o.typ, o.def.Text)
			if err == nil {
				i.baseDefs[o.hf+"|"+string(o.typ)] = o.def
			}
			i.onBase++
			i.lastNT = true
		case "hf-sibling":
			sib, e := i.eng.RenderTemplateToDocument("t", document.NewTemplateData())
			if e != nil || sib == nil {
				viol = append(viol, rep.Violation{Sig: "template-render-failed|sibling", Clause: "render", What: fmt.Sprint(e)})
				return
			}
			if err = sib.AddHeader(document.HeaderFooterTypeFirst, "S"); err == nil {
				err = sib.AddFooter(document.HeaderFooterTypeDefault, "S2")
			}
			i.sib = sib
			i.onSib++
			i.lastNT = true
		case "render":
			eng := document.NewTemplateEngine()
			if _, e := eng.LoadTemplateFromDocument("t", i.doc); e != nil {
				viol = append(viol, rep.Violation{Sig: "template-load-failed", Clause: "render", What: e.Error()})
				return
			}
			d, e := eng.RenderTemplateToDocument("t", document.NewTemplateData())
			if e != nil || d == nil {
				viol = append(viol, rep.Violation{Sig: "template-render-failed", Clause: "render", What: fmt.Sprint(e)})
				return
			}
			i.base, i.eng = i.doc, eng
			i.baseDefs = map[string]c11Def{}
			i.baseDefsAtLoad = map[string]c11Def{}
			for k, v := range i.defs {
				i.baseDefs[k] = v
				i.baseDefsAtLoad[k] = v
			}
			i.doc = d
			i.rend++
			i.lastNT = true
		}
	})
	if pan != "" {
		return "panic", []rep.Violation{{Sig: "panic|" + panicClass(pan) + "|" + o.kind, Clause: "panic", What: o.name + ": " + pan}}
	}
	if err != nil {
		viol = append(viol, rep.Violation{Sig: "unexpected-error|" + o.kind, Clause: "error", What: o.name + ": " + err.Error()})
		return "error", viol
	}
	return "ok", viol
}

func (i *c11Inst) Key() string {
	ks := make([]string, 0, len(i.defs))
	for k, d := range i.defs {
		ks = append(ks, fmt.Sprintf("%s=%+v", k, d))
	}
	sort.Strings(ks)
	// the implementation's own reference list and relationship state decide its futures
	refs := ""
	for _, e := range i.doc.Body.Elements {
		if sp, ok := e.(*document.SectionProperties); ok {
			for _, r := range sp.HeaderReferences {
				refs += "h:" + r.Type + ":" + r.ID + ","
			}
			for _, r := range sp.FooterReferences {
				refs += "f:" + r.Type + ":" + r.ID + ","
			}
			if sp.TitlePage != nil {
				refs += "titlePg,"
			}
		}
	}
	if i.base != nil {
		refs += "|base:"
		for _, e := range i.base.Body.Elements {
			if sp, ok := e.(*document.SectionProperties); ok {
				for _, r := range sp.HeaderReferences {
					refs += "h:" + r.Type + ":" + r.ID + ","
				}
				for _, r := range sp.FooterReferences {
					refs += "f:" + r.Type + ":" + r.ID + ","
				}
			}
		}
		refs += rep.Hash(i.base.VerifRelDump())
	}
	return strings.Join(ks, ";") + "|" + refs + "|" + i.doc.VerifRelDump() + fmt.Sprintf("|r%d t%d n%d b%d s%d L%v l%d", i.reop, i.rend, len(i.doc.Body.Elements), i.onBase, i.onSib, i.lateEng != nil, i.nlate) + "|" + rep.Hash(i.doc.VerifShallowState())
}

// Deep: evaluate the saved package.
func (i *c11Inst) Deep() []rep.Violation {
	pkg, _, errS := saveRead(i.doc)
	if errS != "" {
		return []rep.Violation{{Sig: "save-failed", Clause: "save", What: errS}}
	}
	out := c11CheckPackage(pkg, i.defs, i.stage())
	if i.base != nil {
		// the template's base document keeps the definitions it had when it was rendered, whatever was
		// called on the rendered document since; and a second render from the same engine carries them too
		if bp, _, errB := saveRead(i.base); errB != "" {
			out = append(out, rep.Violation{Sig: "save-failed|template-base", Clause: "save", What: errB})
		} else {
			out = append(out, c11CheckPackage(bp, i.baseDefs, "template-base-after-calls-on-the-rendered-document")...)
		}
		var d2 *document.Document
		var e2 error
		if p := guard(func() { d2, e2 = i.eng.RenderTemplateToDocument("t", document.NewTemplateData()) }); p != "" || e2 != nil || d2 == nil {
			out = append(out, rep.Violation{Sig: "template-render-failed|second", Clause: "render", What: fmt.Sprint(p, e2)})
		} else if rp, _, errR := saveRead(d2); errR != "" {
			out = append(out, rep.Violation{Sig: "save-failed|second-render", Clause: "save", What: errR})
		} else {
			// after a call on the base itself the second render may show the base as it is now or as it was when
			// the template was loaded (the statement does not say which); it must be one of the two
			v := c11CheckPackage(rp, i.baseDefs, "second-render-after-calls-on-the-first")
			if len(v) > 0 && i.onBase > 0 && len(c11CheckPackage(rp, i.baseDefsAtLoad, "second-render-after-calls-on-the-first")) == 0 {
				v = nil
			}
			out = append(out, v...)
		}
	}
	return out
}

func (i *c11Inst) stage() string {
	s := "built"
	if i.reop > 0 {
		s += "+reopened"
	}
	if i.rend > 0 {
		s += "+rendered"
	}
	return s
}

func c11CheckPackage(pkg *pkgmodel.Pkg, defs map[string]c11Def, stage string) []rep.Violation {
	var out []rep.Violation
	add := func(clause, culprit, what string) {
		out = append(out, rep.Violation{Sig: clause + "|" + culprit + "|" + stage, Clause: clause, What: what})
	}
	body := pkg.Body()
	if body == nil {
		return []rep.Violation{{Sig: "saved-body-missing", Clause: "save", What: "no body"}}
	}
	main := pkg.MainPart()
	rels := pkg.Rels[pkgmodel.RelsNameFor(main)]
	sects := body.Find(pkgmodel.NsW, "sectPr")
	type ref struct{ hf, typ, id string }
	var refs []ref
	for _, sp := range sects {
		for _, r := range sp.Children(pkgmodel.NsW, "headerReference") {
			id, _ := r.Attr(pkgmodel.NsR, "id")
			refs = append(refs, ref{"header", r.AttrW("type"), id})
		}
		for _, r := range sp.Children(pkgmodel.NsW, "footerReference") {
			id, _ := r.Attr(pkgmodel.NsR, "id")
			refs = append(refs, ref{"footer", r.AttrW("type"), id})
		}
	}
	count := map[string]int{}
	for _, r := range refs {
		count[r.hf+"|"+r.typ]++
	}
	keys := []string{}
	for _, hf := range []string{"header", "footer"} {
		for _, t := range []string{"default", "first", "even"} {
			keys = append(keys, hf+"|"+t)
		}
	}
	for k, n := range count {
		found := false
		for _, kk := range keys {
			if kk == k {
				found = true
			}
		}
		if !found {
			add("reference-of-unknown-kind", k, fmt.Sprintf("%d references", n))
		}
	}
	for _, k := range keys {
		def, has := defs[k]
		n := count[k]
		hf := strings.Split(k, "|")[0]
		if n > 1 {
			add("more-than-one-reference", hf, fmt.Sprintf("%d %s references of kind %s", n, hf, k))
		}
		if !has {
			if n > 0 {
				add("reference-for-kind-never-set", hf, k)
			}
			continue
		}
		if n == 0 {
			add("definition-lost", hf, fmt.Sprintf("no reference for %s although it was defined (%+v)", k, def))
			continue
		}
		// every reference of that kind must resolve to the latest definition (earlier definitions no longer take effect)
		for _, r := range refs {
			if r.hf+"|"+r.typ != k {
				continue
			}
			var targets []*pkgmodel.Rel
			for ri := range rels {
				if rels[ri].ID == r.id {
					targets = append(targets, &rels[ri])
				}
			}
			if len(targets) == 0 {
				add("reference-unresolved", hf, fmt.Sprintf("%s r:id=%q has no relationship", k, r.id))
				continue
			}
			if len(targets) > 1 {
				// "resolvable" needs one answer: a consumer may pick any relationship carrying the id
				add("reference-ambiguous", hf, fmt.Sprintf("%s r:id=%q is carried by %d relationships", k, r.id, len(targets)))
			}
			for _, target := range targets {
				wantType := pkgmodel.RtHeader
				root := "hdr"
				if hf == "footer" {
					wantType = pkgmodel.RtFooter
					root = "ftr"
				}
				if target.Type != wantType {
					add("reference-wrong-relationship-type", hf, fmt.Sprintf("%s resolves to a %s relationship", k, target.Type))
					continue
				}
				part := pkg.XML[target.Resolved]
				if part == nil {
					add("reference-target-missing", hf, fmt.Sprintf("%s -> %s not in the package or not XML", k, target.Resolved))
					continue
				}
				if part.Local != root {
					add("part-wrong-root", hf, fmt.Sprintf("%s root is %s", target.Resolved, part.Local))
				}
				out = append(out, c11CheckContent(part, def, k, stage)...)
			}
		}
	}
	return out
}

func c11CheckContent(part *pkgmodel.Node, def c11Def, key, stage string) []rep.Violation {
	var out []rep.Violation
	add := func(clause, what string) {
		out = append(out, rep.Violation{Sig: clause + "|" + def.Call + "|" + stage, Clause: clause, What: key + ": " + what})
	}
	text := part.WText()
	// texts A..F are distinct single letters: the part must carry this call's text and no other call's
	for _, other := range []string{"A", "B", "C", "D", "E", "F", "P {{v}}"} {
		if other != def.Text && strings.Contains(text, other) {
			add("stale-or-foreign-text", fmt.Sprintf("part text %q contains %q, the latest call's text is %q", text, other, def.Text))
		}
	}
	if !strings.Contains(text, def.Text) {
		add("text-missing", fmt.Sprintf("part text %q lacks %q", text, def.Text))
	}
	hasPage := false
	for _, it := range part.Find(pkgmodel.NsW, "instrText") {
		if strings.Contains(it.InnerText(), "PAGE") {
			hasPage = true
		}
	}
	for _, fs := range part.Find(pkgmodel.NsW, "fldSimple") {
		if strings.Contains(fs.AttrW("instr"), "PAGE") {
			hasPage = true
		}
	}
	if hasPage != def.PageField {
		add("page-field", fmt.Sprintf("PAGE field present=%v, requested=%v", hasPage, def.PageField))
	}
	if hasPage {
		// a complex field needs begin/separate/end
		types := ""
		for _, fc := range part.Find(pkgmodel.NsW, "fldChar") {
			types += fc.AttrW("fldCharType") + ","
		}
		if len(part.Find(pkgmodel.NsW, "fldSimple")) == 0 && types != "begin,separate,end," {
			add("page-field-structure", "fldChar sequence "+types)
		}
	}
	if def.Call == "formatted" {
		for _, r := range part.Find(pkgmodel.NsW, "r") {
			if !strings.Contains(r.WText(), def.Text) {
				continue
			}
			rpr := r.Child(pkgmodel.NsW, "rPr")
			has := func(n string) bool { return rpr != nil && rpr.Child(pkgmodel.NsW, n) != nil }
			val := func(n string) string {
				if rpr == nil || rpr.Child(pkgmodel.NsW, n) == nil {
					return ""
				}
				return rpr.Child(pkgmodel.NsW, n).AttrW("val")
			}
			if has("b") != def.Bold || has("i") != def.Italic || val("color") != def.Color || val("sz") != def.SizeHalf {
				add("run-formatting", fmt.Sprintf("bold=%v italic=%v color=%q sz=%q, requested %+v", has("b"), has("i"), val("color"), val("sz"), def))
			}
		}
		jc := ""
		for _, p := range part.Find(pkgmodel.NsW, "p") {
			if ppr := p.Child(pkgmodel.NsW, "pPr"); ppr != nil {
				if j := ppr.Child(pkgmodel.NsW, "jc"); j != nil {
					jc = j.AttrW("val")
				}
			}
		}
		if jc != def.Align {
			add("alignment", fmt.Sprintf("w:jc=%q, requested %q", jc, def.Align))
		}
	}
	return out
}

func runC11(r *rep.Run) {
	depth := 3
	if r.Tier == "thorough" {
		depth = 4
	}
	r.Rule = "BFS over histories of the six header/footer calls x three kinds x distinct texts/formats, interleaved with page margins, title page, image, list, paragraph, reopen and render-as-template, on a real Document with a map (header|footer, kind) -> latest definition; every distinct state is saved and evaluated with the independent reader: at most one reference per kind, exactly one for each defined kind, resolving through word/_rels/document.xml.rels to a header/footer part that carries the latest call's text, run formatting, alignment and PAGE field and no earlier call's text; after render-as-template the history continues on the rendered document while the template's base document and a second render from the same engine are saved at every state and must still carry the definitions the base had when it was rendered; non-trivial = a header/footer call, reopen or render"
	r.Bounds["depth"] = depth
	r.Bounds["alphabet"] = len(c11Ops)
	r.Assume = []string{"texts are distinct single letters so that a stale definition is recognisable by its text"}
	r.Merge(seqx.Search("C11", seqx.Opts{Depth: depth, Deadline: r.Deadline}))
	narrow := 5
	if r.Tier == "thorough" {
		narrow = 6
	}
	r.Bounds["narrow_depth"] = narrow
	r.Bounds["narrow_alphabet"] = "AddHeader(default,A|B), AddHeader(even,A), AddFooter(default,A), AddFooter(first,B), AddFooterWithPageNumber(default,C), AddImageFromData, reopen"
	r.Merge(seqx.Search("C11", seqx.Opts{Depth: narrow, Deadline: r.Deadline, Args: c11Args{Narrow: true}}))
	// third search: from the state after rendering a template that has three definitions, the full alphabet
	// (incl. calls on the template base and on a sibling render) to depth 2 (quick) / 3 (thorough)
	fam := depth - 1
	r.Bounds["family_depth_after_render_of_a_three_definition_template"] = fam
	r.Merge(seqx.Search("C11", seqx.Opts{Depth: fam, Deadline: r.Deadline, Args: c11Args{Family: true}}))
	// fourth search: load now, render later (narrow alphabet + the late render) after the prefix header P {{v}}, footer A, load
	lateDepth := depth + 1
	r.Bounds["late_render_depth_after_load"] = lateDepth
	r.Merge(seqx.Search("C11", seqx.Opts{Depth: lateDepth, Deadline: r.Deadline, Args: c11Args{Late: true}}))
}
