package main

// C04 — opening and re-saving an existing (foreign) package is non-destructive.
//
// Enumeration: every subset of at most k features of the `foreign` composer on a minimal base
// × every history of at most d edits applied between OpenFromMemory and ToBytes.  The seed and
// the saved package are both read by the independent reader and compared clause by clause.

import (
	"fmt"
	"os"
	"path"
	"path/filepath"
	"sort"
	"strings"
	"time"

	"github.com/zerx-lab/wordZero/pkg/document"

	"verif/harness/internal/foreign"
	"verif/harness/internal/pkgmodel"
	"verif/harness/internal/rep"
	"verif/harness/internal/shard"
)

type c04Edit struct {
	name string
	// text the edit appends to the body (must appear, in history order, after the original text)
	appends []string
	apply   func(d *document.Document) (*document.Document, error)
}

var (
	c04NewPNG  = pngBytes(2, 1, 201)
	c04NewJPEG = jpegBytes(4, 2, 202)
)

var c04Edits = []c04Edit{
	{name: "AddParagraph", appends: []string{"NEWPARA"}, apply: func(d *document.Document) (*document.Document, error) {
		d.AddParagraph("NEWPARA")
		return d, nil
	}},
	{name: "AddImageFromData(png)", apply: func(d *document.Document) (*document.Document, error) {
		_, err := d.AddImageFromData(c04NewPNG, "new.png", document.ImageFormatPNG, 2, 1, nil)
		return d, err
	}},
	{name: "AddImageFromData(jpeg,image1.jpeg)", apply: func(d *document.Document) (*document.Document, error) {
		_, err := d.AddImageFromData(c04NewJPEG, "image1.jpeg", document.ImageFormatJPEG, 4, 2, nil)
		return d, err
	}},
	{name: "AddImageFromData(format bmp: refused)", apply: func(d *document.Document) (*document.Document, error) {
		// an unsupported format is refused; the refusal must leave the opened package's state alone
		if _, err := d.AddImageFromData(c04NewPNG, "new.bmp", document.ImageFormat("bmp"), 2, 1, nil); err == nil {
			return d, fmt.Errorf("an image of the unsupported format bmp was accepted")
		}
		return d, nil
	}},
	{name: "AddHeader(default)", apply: func(d *document.Document) (*document.Document, error) {
		return d, d.AddHeader(document.HeaderFooterTypeDefault, "NEWHDR")
	}},
	{name: "AddListItem", appends: []string{"NEWITEM"}, apply: func(d *document.Document) (*document.Document, error) {
		d.AddListItem("NEWITEM", &document.ListConfig{Type: document.ListTypeNumber})
		return d, nil
	}},
	{name: "AddFootnote", appends: []string{"NEWFNREF"}, apply: func(d *document.Document) (*document.Document, error) {
		return d, d.AddFootnote("NEWFNREF", "NEWNOTE")
	}},
	{name: "SetPageMargins", apply: func(d *document.Document) (*document.Document, error) {
		return d, d.SetPageMargins(20, 21, 22, 23)
	}},
	{name: "RenderAsTemplate(no data)", apply: func(d *document.Document) (*document.Document, error) {
		eng := document.NewTemplateEngine()
		if _, err := eng.LoadTemplateFromDocument("t", d); err != nil {
			return d, err
		}
		out, err := eng.RenderTemplateToDocument("t", document.NewTemplateData())
		if err != nil {
			return d, err
		}
		if out == nil {
			return d, fmt.Errorf("render returned no document")
		}
		return out, nil
	}},
}

func init() {
	shard.Register("C04", c04Worker)
	register("C04", "model_checking", runC04)
}

// c04Bounds: packages of at most maxFeat features, histories of at most maxDepth edits, and
// features + edits at most maxSum.
func c04Bounds(tier string) (maxFeat, maxDepth, maxSum int) {
	if tier == "thorough" {
		return 3, 2, 5
	}
	return 2, 2, 3
}

// c04IDBonus: feature subsets that shape the relationship ids of the opened package get one more edit than the
// size+depth budget allows (two id-allocating edits are needed before a second allocation can go wrong).
func c04IDBonus(feats []string) int {
	for _, f := range feats {
		switch f {
		case "sparse-ids", "sparse-ids-even", "shared-hdr-id", "stylesWithEffects":
			return 1
		}
	}
	return 0
}

// c04Subsets enumerates all conflict-free feature subsets of size <= k in a fixed order.
func c04Subsets(k int, f func(feats []string)) {
	all := foreign.Features
	var rec func(start int, cur []string)
	rec = func(start int, cur []string) {
		f(append([]string{}, cur...))
		if len(cur) == k {
			return
		}
	next:
		for i := start; i < len(all); i++ {
			for _, c := range cur {
				if foreign.Conflict(c, all[i]) {
					continue next
				}
			}
			rec(i+1, append(cur, all[i]))
		}
	}
	rec(0, nil)
}

// c04Histories enumerates all edit histories of length <= d (indices into c04Edits).
func c04Histories(d int, f func(h []int)) {
	var rec func(cur []int)
	rec = func(cur []int) {
		f(append([]int{}, cur...))
		if len(cur) == d {
			return
		}
		for i := range c04Edits {
			rec(append(cur, i))
		}
	}
	rec(nil)
}

type c04Seed struct {
	feats []string
	data  []byte
	pkg   *pkgmodel.Pkg
	hash  string
}

func c04BuildSeed(feats []string) (*c04Seed, string) {
	s := &c04Seed{feats: feats, data: foreign.Compose(feats)}
	s.pkg = pkgmodel.Read(s.data)
	if probs := append(s.pkg.CheckWellFormed(), s.pkg.CheckRelationships()...); len(probs) > 0 {
		return nil, fmt.Sprintf("foreign seed %v is rejected by the independent reader: %v", feats, probs)
	}
	if s.pkg.Body() == nil {
		return nil, fmt.Sprintf("foreign seed %v has no body", feats)
	}
	s.hash = rep.Hash(s.pkg.CanonString())
	return s, ""
}

// ---------------------------------------------------------------------------
// observation helpers (independent reader only)

type c04Tok struct {
	text      string
	container string
}

var c04Containers = map[string]bool{"hyperlink": true, "smartTag": true, "ins": true, "fldSimple": true, "tbl": true, "customXml": true, "del": true, "moveTo": true}

// c04BodyTokens lists every w:t under w:body in document order with the class of construct that holds it.
func c04BodyTokens(body *pkgmodel.Node) []c04Tok {
	var out []c04Tok
	for _, t := range body.Find(pkgmodel.NsW, "t") {
		cont := ""
		for a := t.Parent; a != nil && a != body; a = a.Parent {
			if a.Space != pkgmodel.NsW {
				continue
			}
			if a.Local == "sdt" {
				if a.Parent == body {
					cont = "w:sdt(block)"
				} else {
					cont = "w:sdt(inline)"
				}
				break
			}
			if c04Containers[a.Local] {
				cont = "w:" + a.Local
				break
			}
		}
		if cont == "" {
			cont = "w:p/w:r"
			if r := t.Parent; r != nil && r.Local == "r" && len(r.Children(pkgmodel.NsW, "t")) > 1 {
				cont = "w:r(several w:t)"
			}
		}
		out = append(out, c04Tok{t.InnerText(), cont})
	}
	return out
}

func c04IsMedia(name string) bool {
	return strings.Contains("/"+strings.ToLower(name), "/media/")
}

// c04DefaultHeaderPart returns the part the body's default header reference resolves to ("" if none).
func c04DefaultHeaderPart(p *pkgmodel.Pkg) string {
	main := p.MainPart()
	root := p.XML[main]
	if root == nil {
		return ""
	}
	out := ""
	for _, hr := range root.Find(pkgmodel.NsW, "headerReference") {
		if hr.AttrW("type") != "default" {
			continue
		}
		id, _ := hr.Attr(pkgmodel.NsR, "id")
		for _, r := range p.Rels[pkgmodel.RelsNameFor(main)] {
			if r.ID == id && r.Mode != "External" {
				out = r.Resolved
			}
		}
	}
	return out
}

func c04RelShort(t string) string {
	if i := strings.LastIndex(t, "/"); i >= 0 {
		return t[i+1:]
	}
	return t
}

// c04UsedNumIDs returns the numIds (other than 0) used by paragraphs of the body.
func c04UsedIDs(body *pkgmodel.Node, elem string, attr string) []string {
	seen := map[string]bool{}
	var out []string
	for _, n := range body.Find(pkgmodel.NsW, elem) {
		v := n.AttrW(attr)
		if v == "" || v == "0" || seen[v] {
			continue
		}
		seen[v] = true
		out = append(out, v)
	}
	sort.Strings(out)
	return out
}

// c04PartByRel returns the root of the part the main part's relationship of type typ resolves to.
func c04PartByRel(p *pkgmodel.Pkg, typ string) (*pkgmodel.Node, string) {
	main := p.MainPart()
	for _, r := range p.Rels[pkgmodel.RelsNameFor(main)] {
		if r.Type == typ && r.Mode != "External" {
			return p.XML[r.Resolved], r.Resolved
		}
	}
	return nil, ""
}

func c04DefinedIDs(root *pkgmodel.Node, elem, attr string) map[string]bool {
	out := map[string]bool{}
	if root == nil {
		return out
	}
	for _, n := range root.Children(pkgmodel.NsW, elem) {
		out[n.AttrW(attr)] = true
	}
	return out
}

// ---------------------------------------------------------------------------
// the oracle

type c04Result struct {
	outcome string
	viol    []rep.Violation
}

// c04Judge compares the saved package with the seed.  hist are the edits attempted (each may have
// regenerated what it declares), of which the first nOK returned without error.
func c04Judge(seed *c04Seed, after *pkgmodel.Pkg, hist []int, nOK int) []rep.Violation {
	var out []rep.Violation
	add := func(sig, clause, what string) {
		out = append(out, rep.Violation{Sig: sig, Clause: clause, What: what})
	}
	before := seed.pkg
	if after.ZipErr != "" {
		add("output-unreadable|zip", "output", after.ZipErr)
		return out
	}
	main := before.MainPart()
	// the parts every save regenerates (read from the serialize* functions: main part, content
	// types, package relationships, main part relationships) + what each edit declares
	regen := map[string]bool{main: true, "[Content_Types].xml": true, "_rels/.rels": true, pkgmodel.RelsNameFor(main): true}
	var appended []string
	didList, didNote := false, false
	editText := ""
	for j, e := range hist {
		ed := c04Edits[e]
		if j < nOK {
			appended = append(appended, ed.appends...)
		}
		switch ed.name {
		case "AddHeader(default)":
			editText = "NEWHDR"
			if h := c04DefaultHeaderPart(before); h != "" {
				regen[h] = true // replacing the existing default header is what the caller asked for
			}
		case "AddListItem":
			didList = true
			if _, n := c04PartByRel(before, pkgmodel.RtNumbering); n != "" {
				regen[n] = true
			}
		case "AddFootnote":
			didNote = true
			if _, n := c04PartByRel(before, pkgmodel.RtFootnotes); n != "" {
				regen[n] = true
			}
		case "RenderAsTemplate(no data)":
			// rendering passes every header and footer part through variable substitution
			for name := range before.Parts {
				ct := before.ContentTypeOf(name)
				if ct == foreign.CtHeader || ct == foreign.CtFooter {
					regen[name] = true
				}
			}
		}
	}
	names := make([]string, 0, len(before.Parts))
	for n := range before.Parts {
		names = append(names, n)
	}
	sort.Strings(names)

	// (a) parts outside the regenerated set: same name, same bytes, same content type
	for _, n := range names {
		if regen[n] || c04IsMedia(n) {
			continue
		}
		cl := pkgmodel.PartClass(n)
		got, ok := after.Parts[n]
		if !ok {
			add("part-lost|"+cl, "a", fmt.Sprintf("part %s of the opened package is missing after save", n))
			continue
		}
		if string(got) != string(before.Parts[n]) {
			sig := "part-changed|" + cl
			if x := after.XML[n]; x != nil && editText != "" && strings.Contains(x.WText(), editText) {
				// what is observed is the content a later edit produced, stored under the old part's name
				sig = "part-overwritten|" + cl + "|by-content-of-an-edit"
			}
			add(sig, "a", fmt.Sprintf("part %s is not written back byte-for-byte (%d bytes before, %d after)", n, len(before.Parts[n]), len(got)))
		}
		if bc, ac := before.ContentTypeOf(n), after.ContentTypeOf(n); bc != ac {
			add("content-type-changed|"+cl, "a", fmt.Sprintf("content type of %s was %q, is %q", n, bc, ac))
		}
	}
	// regenerated parts must still exist under their name with their content type
	for _, n := range names {
		if !regen[n] || n == "[Content_Types].xml" {
			continue
		}
		if _, ok := after.Parts[n]; !ok {
			add("part-lost|"+pkgmodel.PartClass(n), "a", fmt.Sprintf("part %s is missing after save", n))
		} else if bc, ac := before.ContentTypeOf(n), after.ContentTypeOf(n); bc != ac {
			add("content-type-changed|"+pkgmodel.PartClass(n), "a", fmt.Sprintf("content type of %s was %q, is %q", n, bc, ac))
		}
	}

	// (b) every original relationship survives with id, type, target and mode
	relNames := make([]string, 0, len(before.Rels))
	for n := range before.Rels {
		relNames = append(relNames, n)
	}
	sort.Strings(relNames)
	for _, rn := range relNames {
		owner := pkgmodel.PartClass(pkgmodel.OwnerOfRels(rn))
		if owner == "" {
			owner = "package"
		}
		ar := after.Rels[rn]
		for _, r := range before.Rels[rn] {
			st := c04RelShort(r.Type)
			var byID *pkgmodel.Rel
			var byWhat *pkgmodel.Rel
			for i := range ar {
				a := &ar[i]
				sameTarget := a.Target == r.Target || (a.Mode != "External" && r.Mode != "External" && a.Resolved == r.Resolved)
				same := a.Type == r.Type && sameTarget
				if a.ID == r.ID && (byID == nil || same) {
					byID = a
				}
				if same && (byWhat == nil || a.ID == r.ID) {
					byWhat = a
				}
			}
			desc := fmt.Sprintf("%s: Id=%s Type=…/%s Target=%s TargetMode=%q", rn, r.ID, st, r.Target, r.Mode)
			// an id that another relationship of the same part carries as well is no longer this relationship's id
			nb, na := 0, 0
			for _, x := range before.Rels[rn] {
				if x.ID == r.ID {
					nb++
				}
			}
			for _, x := range ar {
				if x.ID == r.ID {
					na++
				}
			}
			if na > nb && nb == 1 {
				add("rel-id-reused|"+owner+"|"+st, "b", fmt.Sprintf("%s: after save %d relationships of %s carry the id %s", desc, na, rn, r.ID))
			}
			switch {
			case byWhat != nil && byWhat.ID != r.ID:
				// the same relationship exists under another id (whatever now carries the old id is a new relationship)
				add("rel-id-changed|"+owner+"|"+st, "b", fmt.Sprintf("%s is written with Id=%s", desc, byWhat.ID))
				byID = byWhat
			case byID == nil:
				add("rel-lost|"+owner+"|"+st, "b", desc+" is missing after save")
				continue
			}
			if byID.Type != r.Type {
				add("rel-type-changed|"+owner+"|"+st, "b", fmt.Sprintf("%s now has Type=%s", desc, byID.Type))
				continue
			}
			if (byID.Mode == "External") != (r.Mode == "External") {
				add("rel-mode-lost|"+st+"|"+r.Mode, "b", fmt.Sprintf("%s is written with TargetMode=%q", desc, byID.Mode))
			}
			same := byID.Target == r.Target
			if !same && r.Mode != "External" && byID.Mode != "External" {
				same = byID.Resolved == r.Resolved
			}
			if !same {
				add("rel-target-changed|"+owner+"|"+st, "b", fmt.Sprintf("%s now has Target=%s", desc, byID.Target))
			}
		}
	}

	// (c) media: originals keep name and bytes; new media names are new also when case is ignored
	lowerBefore := map[string]string{}
	for _, n := range names {
		lowerBefore[strings.ToLower(n)] = n
		if !c04IsMedia(n) {
			continue
		}
		ext := strings.ToLower(path.Ext(n))
		got, ok := after.Parts[n]
		if !ok {
			add("media-lost|"+ext, "c", fmt.Sprintf("media part %s is missing after save", n))
		} else if string(got) != string(before.Parts[n]) {
			add("media-overwritten|"+ext, "c", fmt.Sprintf("media part %s of the opened package has other bytes after save", n))
		}
		if bc, ac := before.ContentTypeOf(n), after.ContentTypeOf(n); bc != ac {
			add("content-type-changed|media"+ext, "a", fmt.Sprintf("content type of %s was %q, is %q", n, bc, ac))
		}
	}
	an := make([]string, 0, len(after.Parts))
	for n := range after.Parts {
		an = append(an, n)
	}
	sort.Strings(an)
	for _, n := range an {
		if _, old := before.Parts[n]; old {
			continue
		}
		if o, clash := lowerBefore[strings.ToLower(n)]; clash {
			kind := "part"
			if c04IsMedia(n) {
				kind = "media"
			}
			add("new-name-clash|"+kind+"|differs-only-by-case", "c", fmt.Sprintf("new part %s has the name of the existing part %s when case is ignored (part names are case-insensitive)", n, o))
		}
	}

	// (d) body text
	ab := after.Body()
	if ab == nil {
		add("text-lost|whole-body", "d", "the saved main part has no w:body")
		return out
	}
	toks := c04BodyTokens(before.Body())
	var want strings.Builder
	for _, t := range toks {
		want.WriteString(t.text)
	}
	got := ab.WText()
	if !strings.HasPrefix(got, want.String()) {
		lost := map[string][]string{}
		for _, t := range toks {
			if t.text != "" && !strings.Contains(got, t.text) {
				lost[t.container] = append(lost[t.container], t.text)
			}
		}
		if len(lost) == 0 {
			add("text-changed|order-or-insertion", "d", fmt.Sprintf("body text before %q is not a prefix of body text after %q", want.String(), got))
		}
		cs := make([]string, 0, len(lost))
		for c := range lost {
			cs = append(cs, c)
		}
		sort.Strings(cs)
		for _, c := range cs {
			add("text-lost|"+c, "d", fmt.Sprintf("text of %s is gone from the body: %v (body text after save: %q)", c, lost[c], got))
		}
	} else {
		rest := got[len(want.String()):]
		for i, a := range appended {
			j := strings.Index(rest, a)
			if j < 0 {
				add("appended-text-missing|"+a, "d", fmt.Sprintf("text %q of edit %d does not follow the original body text (tail %q)", a, i+1, rest))
				break
			}
			rest = rest[j+len(a):]
		}
	}

	// (e) derived from "non-destructive": an edit that extends the numbering / footnotes part of the
	// opened package must not remove the definitions the opened body uses
	if didList {
		used := c04UsedIDs(before.Body(), "numId", "val")
		broot, _ := c04PartByRel(before, pkgmodel.RtNumbering)
		defB := c04DefinedIDs(broot, "num", "numId")
		aroot, _ := c04PartByRel(after, pkgmodel.RtNumbering)
		defA := c04DefinedIDs(aroot, "num", "numId")
		stillUsed := map[string]bool{}
		for _, v := range c04UsedIDs(ab, "numId", "val") {
			stillUsed[v] = true
		}
		for _, id := range used {
			if defB[id] && stillUsed[id] && !defA[id] {
				add("defs-lost|numbering", "e", fmt.Sprintf("w:num %s of the opened package, used by an original list paragraph, is no longer defined in the numbering part after AddListItem", id))
				break
			}
		}
	}
	if didNote {
		broot, _ := c04PartByRel(before, pkgmodel.RtFootnotes)
		aroot, _ := c04PartByRel(after, pkgmodel.RtFootnotes)
		defA := c04DefinedIDs(aroot, "footnote", "id")
		if broot != nil {
			for _, fn := range broot.Children(pkgmodel.NsW, "footnote") {
				if fn.AttrW("type") != "" && fn.AttrW("type") != "normal" {
					continue
				}
				txt := fn.WText()
				keeps := false
				if aroot != nil && defA[fn.AttrW("id")] {
					keeps = true
				}
				if aroot != nil && txt != "" && strings.Contains(aroot.WText(), txt) {
					keeps = true
				}
				if !keeps {
					add("defs-lost|footnotes", "e", fmt.Sprintf("footnote %s (%q) of the opened package is gone from the footnotes part after AddFootnote", fn.AttrW("id"), txt))
					break
				}
			}
		}
	}
	return out
}

func c04Exec(seed *c04Seed, hist []int, saveDir string) c04Result {
	var res c04Result
	document.VerifResetGlobals()
	d, errS := reopen(seed.data)
	if errS != "" {
		cl := "error"
		if strings.HasPrefix(errS, "panic") {
			cl = panicClass(errS)
		}
		res.viol = append(res.viol, rep.Violation{Sig: "open-failed|" + cl, Clause: "open", What: "OpenFromMemory of a well-formed foreign package: " + errS})
		res.outcome = "open-failed"
		return res
	}
	nOK := 0
	editErr := ""
	for j, e := range hist {
		ed := c04Edits[e]
		var err error
		pan := guard(func() {
			var nd *document.Document
			nd, err = ed.apply(d)
			if nd != nil {
				d = nd
			}
		})
		if pan != "" {
			res.viol = append(res.viol, rep.Violation{Sig: "panic|" + panicClass(pan) + "|" + ed.name, Clause: "panic", What: ed.name + " on the opened package: " + pan})
			res.outcome = "edit-panic"
			return res
		}
		if err != nil {
			// an edit that refuses to work is not judged itself; the history ends here and what is saved is judged
			editErr = "edit-error:" + ed.name + "; "
			hist = hist[:j+1]
			break
		}
		nOK++
	}
	after, _, errS := saveRead(d)
	if errS != "" {
		cl := "error"
		if strings.HasPrefix(errS, "panic") {
			cl = panicClass(errS)
		}
		res.viol = append(res.viol, rep.Violation{Sig: "save-failed|" + cl, Clause: "save", What: errS})
		res.outcome = "save-failed"
		return res
	}
	res.viol = c04Judge(seed, after, hist, nOK)
	// the second entry point: Save to a file must be as faithful as ToBytes
	if saveDir != "" {
		fn := filepath.Join(saveDir, "out.docx")
		os.Remove(fn)
		var err error
		if pan := guard(func() { err = d.Save(fn) }); pan != "" || err != nil {
			res.viol = append(res.viol, rep.Violation{Sig: "save-failed|Save", Clause: "save", What: fmt.Sprintf("ToBytes succeeded, Save: %v %s", err, pan)})
		} else if b, rerr := os.ReadFile(fn); rerr != nil {
			res.viol = append(res.viol, rep.Violation{Sig: "save-failed|Save", Clause: "save", What: "Save returned nil but the file cannot be read: " + rerr.Error()})
		} else {
			have := map[string]bool{}
			for _, v := range res.viol {
				have[v.Sig] = true
			}
			for _, v := range c04Judge(seed, pkgmodel.Read(b), hist, nOK) {
				if !have[v.Sig] {
					v.What = "(file written by Save) " + v.What
					res.viol = append(res.viol, v)
				}
			}
		}
	}
	if len(res.viol) == 0 {
		res.outcome = editErr + "preserved"
	} else {
		cl := map[string]bool{}
		for _, v := range res.viol {
			cl[strings.SplitN(v.Sig, "|", 2)[0]] = true
		}
		ks := make([]string, 0, len(cl))
		for k := range cl {
			ks = append(ks, k)
		}
		sort.Strings(ks)
		res.outcome = editErr + strings.Join(ks, "+")
	}
	return res
}

func c04SigSet(vs []rep.Violation) string {
	s := make([]string, 0, len(vs))
	for _, v := range vs {
		s = append(s, v.Sig)
	}
	sort.Strings(s)
	return strings.Join(s, ";")
}

func c04Worker(c *shard.Ctx) {
	maxFeat, maxDepth, maxSum := c04Bounds(c.Tier)
	saveDir, err := os.MkdirTemp("", "c04-")
	if err != nil {
		c.P.HarnessErrs = append(c.P.HarnessErrs, err.Error())
		return
	}
	defer os.RemoveAll(saveDir)
	baseHash := ""
	if b, bad := c04BuildSeed(nil); bad == "" {
		baseHash = b.hash
	}
	idx := int64(-1)
	seenSig := map[string]bool{}
	first := true
	sampled := map[string]bool{}
	c04Subsets(maxFeat, func(feats []string) {
		var seed *c04Seed
		c04Histories(maxDepth, func(h []int) {
			if len(feats)+len(h) > maxSum+c04IDBonus(feats) {
				return
			}
			idx++
			i := idx
			hn := make([]string, len(h))
			for j, e := range h {
				hn[j] = c04Edits[e].name
			}
			desc := map[string]interface{}{"features": feats, "edits": hn}
			if !c.Begin(i, func() interface{} { return desc }) {
				return
			}
			if seed == nil {
				s, bad := c04BuildSeed(feats)
				if bad != "" {
					c.P.HarnessErrs = append(c.P.HarnessErrs, bad)
					seed = &c04Seed{}
				} else {
					seed = s
				}
			}
			if seed.pkg == nil {
				return
			}
			res := c04Exec(seed, h, saveDir)
			c.P.Evals++
			c.P.Traces++
			c.P.Transitions += int64(len(h)) + 2
			c.P.Outcome(res.outcome)
			key := seed.hash + "|" + strings.Join(hn, ";")
			c.P.Keys = append(c.P.Keys, key)
			if seed.hash != baseHash {
				c.P.Nontrivial = append(c.P.Nontrivial, key)
			}
			again := first
			for _, v := range res.viol {
				if !seenSig[v.Sig] {
					again = true
				}
			}
			first = false
			if again {
				for k := 0; k < 2; k++ {
					r2 := c04Exec(seed, h, saveDir)
					if c04SigSet(r2.viol) != c04SigSet(res.viol) {
						c.P.HarnessErrs = append(c.P.HarnessErrs, fmt.Sprintf("case %d %v %v is not deterministic: {%s} then {%s}", i, feats, hn, c04SigSet(res.viol), c04SigSet(r2.viol)))
						return
					}
				}
			}
			for _, v := range res.viol {
				seenSig[v.Sig] = true
				v.Depth = len(feats)*10 + len(h)
				v.What = fmt.Sprintf("%s [package features %v; edits %v]", v.What, feats, hn)
				v.Case = shardCase(c, "C04", i, desc)
				c.P.Violate(v)
			}
			if sk := fmt.Sprintf("%d/%d/%s", len(feats), len(h), res.outcome); len(sampled) < 2 && !sampled[sk] && len(feats) > 0 && int(i/int64(c.N))%7 == c.Shard%7 {
				sampled[sk] = true
				c.P.Samples = append(c.P.Samples, map[string]interface{}{"index": i, "features": feats, "edits": hn, "outcome": res.outcome})
			}
		})
	})
}

func runC04(r *rep.Run) {
	maxFeat, maxDepth, maxSum := c04Bounds(r.Tier)
	var nSeeds, nHist, nCases int64
	c04Subsets(maxFeat, func(f []string) {
		nSeeds++
		c04Histories(maxDepth, func(h []int) {
			if len(f)+len(h) <= maxSum+c04IDBonus(f) {
				nCases++
			}
		})
	})
	c04Histories(maxDepth, func([]int) { nHist++ })
	en := make([]string, len(c04Edits))
	for i, e := range c04Edits {
		en[i] = e.name
	}
	r.Rule = "every conflict-free subset of at most k features of the independent package writer (on a minimal base: one paragraph + body-level sectPr) is validated by the independent reader, opened with OpenFromMemory, edited by every history of at most d edits and saved with ToBytes; seed and result are compared by the independent reader: (a) every part outside the regenerated set (main part, [Content_Types].xml, _rels/.rels, the main part's .rels; + the part of the existing DEFAULT header for AddHeader(default), the existing numbering part for AddListItem, the existing footnotes part for AddFootnote, header/footer parts for template rendering) is byte-identical under the same name with the same content type, (b) every original relationship of every .rels part is present with the same id, type, target (resolved) and target mode, (c) every original media part keeps name and bytes and no new part name equals an old one when case is ignored, (d) the concatenated w:t text of the original body (any depth) is a prefix of the saved body's text and the edits' texts follow in order, (e) an edit that extends the existing numbering/footnotes part keeps the definitions the original body uses; state key = canonical seed package + edit history; non-trivial = the seed package differs from the minimal base (carries foreign content); signature = clause | class of part / relationship type / construct holding the text"
	r.Bounds["features"] = foreign.Features
	r.Bounds["max_features_per_package"] = maxFeat
	r.Bounds["packages"] = nSeeds
	r.Bounds["edits"] = en
	r.Bounds["max_edit_history"] = maxDepth
	r.Bounds["histories_of_max_length"] = nHist
	r.Bounds["max_features_plus_edits"] = maxSum
	r.Bounds["max_features_plus_edits_with_an_id_shaping_feature"] = maxSum + 1
	r.Bounds["cases"] = nCases
	r.Assume = []string{
		"foreign packages are those the harness writer composes (string templates, validated by the independent reader); the main part is word/document.xml",
		"an edit that returns an error is recorded as an outcome, not judged (nothing is saved from it here)",
		"dropped non-text body markup (formatting, footnote references, fields) is the subject of C03, not judged here",
	}
	runShards(r, "C04", map[string]interface{}{}, 60*time.Second, nil)
}
