package main

// C14 — style inheritance resolves to the nearest definition and always terminates;
// resolution never modifies the registered styles; a cloned registry is independent.
//
// Enumeration (shard engine, no sampling): every based-on function over n styles
// (targets: none, every style including itself, a missing id) × for each of the 18
// attributes named in the property, and for all of them at once ("ALL"), every
// assignment {container absent, container present but attribute unset, attribute set
// with a value unique to the style} to the n styles; every id and one missing id is
// queried through GetStyleWithInheritance, ApplyStyleToXML and GetStyleInfo.
//
// Oracle: reference resolver of DESIGN A.6 (walk the based-on chain with a visited
// set, nearest definer wins, missing parent stops).  Cyclic graphs: queries whose walk
// reaches a cycle are run in a case of their own, so that a process-killing recursion
// is attributed to it (crash|…) and everything else of the graph is still judged.

import (
	"bytes"
	"encoding/json"
	"encoding/xml"
	"fmt"
	"reflect"
	"runtime/debug"
	"sort"
	"strconv"
	"strings"
	"time"

	"github.com/zerx-lab/wordZero/pkg/style"

	"verif/harness/internal/rep"
	"verif/harness/internal/shard"
)

type c14Attr struct {
	Name  string // name used in the property statement
	Field string // field of ParagraphProperties / RunProperties
	Run   bool
}

// The formatting elements named in the statement.
var c14Attrs = []c14Attr{
	{"spacing", "Spacing", false},
	{"indentation", "Indentation", false},
	{"alignment", "Justification", false},
	{"borders", "ParagraphBorder", false},
	{"shading", "Shading", false},
	{"keepNext", "KeepNext", false},
	{"keepLines", "KeepLines", false},
	{"pageBreak", "PageBreak", false},
	{"outline", "OutlineLevel", false},
	{"grid", "SnapToGrid", false},
	{"bold", "Bold", true},
	{"italic", "Italic", true},
	{"underline", "Underline", true},
	{"strike", "Strike", true},
	{"size", "FontSize", true},
	{"colour", "Color", true},
	{"font", "FontFamily", true},
	{"highlight", "Highlight", true},
}

var c14All = len(c14Attrs) // pseudo attribute: all attributes follow the same assignment

const (
	c14MissingParent = "GhostParent"
	c14MissingID     = "NoSuchStyle"
)

var c14XMLName = reflect.TypeOf(xml.Name{})

func c14ID(i int) string { return fmt.Sprintf("S%d", i+1) }

// c14Fill sets every string field of the struct to "<field>-<tag>", every bool to true and
// every pointer-to-struct field to a filled new struct (xml.Name fields are left alone unless withXML).
func c14Fill(v reflect.Value, tag string, withXML bool) {
	t := v.Type()
	for i := 0; i < t.NumField(); i++ {
		f, ft := v.Field(i), t.Field(i)
		if ft.Type == c14XMLName {
			if withXML {
				f.Set(reflect.ValueOf(xml.Name{Space: "ns-" + tag, Local: ft.Name + "-" + tag}))
			}
			continue
		}
		switch f.Kind() {
		case reflect.String:
			f.SetString(ft.Name + "-" + tag)
		case reflect.Bool:
			f.SetBool(true)
		case reflect.Ptr:
			if ft.Type.Elem().Kind() == reflect.Struct {
				nv := reflect.New(ft.Type.Elem())
				c14Fill(nv.Elem(), tag+"."+ft.Name, withXML)
				f.Set(nv)
			}
		}
	}
}

type c14FieldInfo struct {
	name  string
	isXML bool
}

var c14TypeCache = map[reflect.Type][]c14FieldInfo{}

func c14Fields(t reflect.Type) []c14FieldInfo {
	if fi, ok := c14TypeCache[t]; ok {
		return fi
	}
	fi := make([]c14FieldInfo, t.NumField())
	for i := range fi {
		fi[i] = c14FieldInfo{t.Field(i).Name, t.Field(i).Type == c14XMLName}
	}
	c14TypeCache[t] = fi
	return fi
}

// c14Canon prints a value completely (pointers followed); xml.Name fields only when withXML.
func c14Canon(b []byte, v reflect.Value, withXML bool) []byte {
	switch v.Kind() {
	case reflect.Ptr, reflect.Interface:
		if v.IsNil() {
			return append(b, '-')
		}
		return c14Canon(b, v.Elem(), withXML)
	case reflect.Struct:
		fi := c14Fields(v.Type())
		b = append(b, '{')
		for i := range fi {
			if fi[i].isXML && !withXML {
				continue
			}
			b = append(b, fi[i].name...)
			b = append(b, ':')
			b = c14Canon(b, v.Field(i), withXML)
			b = append(b, ' ')
		}
		return append(b, '}')
	case reflect.String:
		return strconv.AppendQuote(b, v.String())
	case reflect.Bool:
		if v.Bool() {
			return append(b, 'T')
		}
		return append(b, 'F')
	case reflect.Slice, reflect.Array:
		b = append(b, '[')
		for i := 0; i < v.Len(); i++ {
			b = c14Canon(b, v.Index(i), withXML)
			b = append(b, ',')
		}
		return append(b, ']')
	default:
		return append(b, fmt.Sprintf("%v", v)...)
	}
}

func c14CanonS(v reflect.Value, withXML bool) string {
	return string(c14Canon(nil, v, withXML))
}

// c14Snap is the complete content of a registry as one byte string (styles in id order).
func c14Snap(buf []byte, sm *style.StyleManager) []byte {
	all := sm.GetAllStyles()
	sort.Slice(all, func(a, b int) bool { return all[a].StyleID < all[b].StyleID })
	buf = buf[:0]
	for _, s := range all {
		buf = c14Canon(buf, reflect.ValueOf(s), true)
		buf = append(buf, '\n')
	}
	return buf
}

// c14Leaves flattens a value into path → leaf value (used only to explain a difference).
func c14Leaves(v reflect.Value, path string, withXML bool, out map[string]string) {
	switch v.Kind() {
	case reflect.Ptr, reflect.Interface:
		if v.IsNil() {
			out[path] = "-"
			return
		}
		out[path] = "set"
		c14Leaves(v.Elem(), path, withXML, out)
	case reflect.Struct:
		t := v.Type()
		for i := 0; i < t.NumField(); i++ {
			if t.Field(i).Type == c14XMLName && !withXML {
				continue
			}
			c14Leaves(v.Field(i), path+"."+t.Field(i).Name, withXML, out)
		}
	default:
		out[path] = fmt.Sprintf("%v", v)
	}
}

func c14FirstDiff(a, b map[string]string) string {
	var ks []string
	for k := range a {
		ks = append(ks, k)
	}
	for k := range b {
		if _, ok := a[k]; !ok {
			ks = append(ks, k)
		}
	}
	sort.Strings(ks)
	for _, k := range ks {
		if a[k] != b[k] {
			return k
		}
	}
	return ""
}

// ---------------------------------------------------------------------------
// registries

const c14GhostIx = 9 // value index of the (late-registered) missing parent

type c14Reg struct {
	N     int
	Based []int // -1 none, 0..N-1 style, N the missing parent id
	Attr  int   // index into c14Attrs, or c14All
	St    []int // per style: 0 container absent, 1 container present/attribute unset, 2 attribute set
	Ghost bool  // the "missing" parent id is registered too: a root style with the attribute(s) set
}

// id of style index i (i == N: the missing parent id).
func (g c14Reg) id(i int) string {
	if i == g.N {
		return c14MissingParent
	}
	return c14ID(i)
}

// vix is the index that labels the attribute values of style i.
func (g c14Reg) vix(i int) int {
	if i == g.N {
		return c14GhostIx
	}
	return i
}

func (g c14Reg) vixName(v int) string {
	if v == c14GhostIx {
		return c14MissingParent
	}
	return c14ID(v)
}

func (g c14Reg) basedStr() string {
	var p []string
	for i, t := range g.Based {
		if t < 0 {
			p = append(p, c14ID(i))
		} else {
			p = append(p, c14ID(i)+"->"+g.id(t))
		}
	}
	if g.Ghost {
		p = append(p, c14MissingParent+"(registered)")
	}
	return strings.Join(p, " ")
}

func (g c14Reg) attrName() string {
	if g.Attr == c14All {
		return "ALL"
	}
	return c14Attrs[g.Attr].Name
}

func (g c14Reg) stStr() string {
	var p []string
	for i, s := range g.St {
		p = append(p, c14ID(i)+":"+[]string{"no-container", "unset", "set"}[s])
	}
	if g.Ghost {
		p = append(p, c14MissingParent+":set")
	}
	return strings.Join(p, " ")
}

func (g c14Reg) inScope(a int) bool { return g.Attr == c14All || g.Attr == a }

func (g c14Reg) usesMissing() bool {
	for _, t := range g.Based {
		if t == g.N {
			return true
		}
	}
	return false
}

var c14ElemCanon = map[[2]int]string{}

// c14Elem builds the value of attribute a that is unique to value index v.
func c14Elem(a, v int) reflect.Value {
	var cont reflect.Type
	if c14Attrs[a].Run {
		cont = reflect.TypeOf(style.RunProperties{})
	} else {
		cont = reflect.TypeOf(style.ParagraphProperties{})
	}
	sf, ok := cont.FieldByName(c14Attrs[a].Field)
	if !ok || sf.Type.Kind() != reflect.Ptr {
		panic("c14: no pointer field " + c14Attrs[a].Field)
	}
	nv := reflect.New(sf.Type.Elem())
	c14Fill(nv.Elem(), c14ID(v), false)
	return nv
}

func c14ElemStr(a, v int) string {
	k := [2]int{a, v}
	if s, ok := c14ElemCanon[k]; ok {
		return s
	}
	s := c14CanonS(c14Elem(a, v), false)
	c14ElemCanon[k] = s
	return s
}

func c14SetAttr(s *style.Style, a, v int) {
	if c14Attrs[a].Run {
		if s.RunPr == nil {
			s.RunPr = &style.RunProperties{}
		}
		reflect.ValueOf(s.RunPr).Elem().FieldByName(c14Attrs[a].Field).Set(c14Elem(a, v))
	} else {
		if s.ParagraphPr == nil {
			s.ParagraphPr = &style.ParagraphProperties{}
		}
		reflect.ValueOf(s.ParagraphPr).Elem().FieldByName(c14Attrs[a].Field).Set(c14Elem(a, v))
	}
}

// c14Get reads attribute a from a resolved style ("" = none).
func c14Get(s *style.Style, a int) string {
	var cont reflect.Value
	if c14Attrs[a].Run {
		if s.RunPr == nil {
			return ""
		}
		cont = reflect.ValueOf(s.RunPr).Elem()
	} else {
		if s.ParagraphPr == nil {
			return ""
		}
		cont = reflect.ValueOf(s.ParagraphPr).Elem()
	}
	f := cont.FieldByName(c14Attrs[a].Field)
	if f.IsNil() {
		return ""
	}
	return c14CanonS(f, false)
}

// style builds style i (i == N: the formerly missing parent, a root with the attribute(s) set).
func (g c14Reg) style(i int) *style.Style {
	s := &style.Style{Type: string(style.StyleTypeParagraph), StyleID: g.id(i), CustomStyle: true, Name: &style.StyleName{Val: "Style " + g.id(i)}}
	st := 2
	if i < g.N {
		st = g.St[i]
		if t := g.Based[i]; t >= 0 {
			s.BasedOn = &style.BasedOn{Val: g.id(t)}
		}
	}
	para := g.Attr == c14All || !c14Attrs[g.Attr].Run
	run := g.Attr == c14All || c14Attrs[g.Attr].Run
	if st >= 1 {
		if para {
			s.ParagraphPr = &style.ParagraphProperties{}
		}
		if run {
			s.RunPr = &style.RunProperties{}
		}
	}
	if st == 2 {
		for a := range c14Attrs {
			if g.inScope(a) {
				c14SetAttr(s, a, g.vix(i))
			}
		}
	}
	return s
}

// build registers the styles in a fresh manager (which also holds the predefined styles).
func (g c14Reg) build() *style.StyleManager {
	sm := style.NewStyleManager()
	for i := 0; i < g.N; i++ {
		sm.AddStyle(g.style(i))
	}
	if g.Ghost {
		sm.AddStyle(g.style(g.N))
	}
	return sm
}

// resolve is the reference resolver (DESIGN A.6): definer (style index, -1 none), hops walked, how the walk ended.
func (g c14Reg) resolve(q, a int) (definer, hops int, end string) {
	if !g.inScope(a) {
		return -1, 0, "unset-everywhere"
	}
	seen := make([]bool, g.N+1)
	id := q
	for {
		if id == g.N && !g.Ghost {
			return -1, hops, "missing-parent"
		}
		if seen[id] {
			return -1, hops, "cycle-closed"
		}
		seen[id] = true
		if id == g.N || g.St[id] == 2 {
			if hops == 0 {
				return id, 0, "own"
			}
			return id, hops, "ancestor"
		}
		if g.Based[id] < 0 {
			return -1, hops, "chain-end"
		}
		id = g.Based[id]
		hops++
	}
}

// c14ReachesCycle reports per style whether its based-on walk comes back to a visited style.
func c14ReachesCycle(n int, based []int) []bool {
	out := make([]bool, n)
	for q := 0; q < n; q++ {
		seen := make([]bool, n)
		id := q
		for id >= 0 && id < n {
			if seen[id] {
				out[q] = true
				break
			}
			seen[id] = true
			id = based[id]
		}
	}
	return out
}

func c14Dump(sm *style.StyleManager, withXML bool) map[string]string {
	out := map[string]string{}
	for _, s := range sm.GetAllStyles() {
		out[s.StyleID] = c14CanonS(reflect.ValueOf(s), withXML)
	}
	return out
}

func c14DumpEq(a, b map[string]string) bool {
	if len(a) != len(b) {
		return false
	}
	for k, v := range a {
		if w, ok := b[k]; !ok || w != v {
			return false
		}
	}
	return true
}

// c14DumpDiff names the first difference between two registry dumps: (kind, style id).
func c14DumpDiff(a, b map[string]string) (string, string) {
	var ids []string
	for k := range a {
		ids = append(ids, k)
	}
	for k := range b {
		if _, ok := a[k]; !ok {
			ids = append(ids, k)
		}
	}
	sort.Strings(ids)
	for _, k := range ids {
		av, aok := a[k]
		bv, bok := b[k]
		switch {
		case !bok:
			return "style-removed", k
		case !aok:
			return "style-added", k
		case av != bv:
			return "style-changed", k
		}
	}
	return "", ""
}

// ---------------------------------------------------------------------------
// judging one registry

type c14Judge struct {
	c     *shard.Ctx
	idx   int64
	flat  *style.StyleManager
	nSamp int
}

func (j *c14Judge) violate(g c14Reg, query string, sig, clause, what string, exp, got interface{}) {
	desc := map[string]interface{}{"based_on": g.basedStr(), "attribute": g.attrName(), "styles": g.stStr(), "query": query}
	depth := 2 * g.N
	if g.Ghost {
		depth += 3
	}
	j.c.P.Violate(rep.Violation{Sig: sig, Clause: clause, What: what + "  [registry: " + g.basedStr() + "; " + g.attrName() + " " + g.stStr() + "; query " + query + "]",
		Depth: depth, Case: shardCase(j.c, "c14", j.idx, desc), Expect: exp, Got: got})
}

func c14FlattenMap(v interface{}, path string, out map[string]string) {
	switch m := v.(type) {
	case map[string]interface{}:
		for k, x := range m {
			c14FlattenMap(x, path+"."+k, out)
		}
	case map[string]string:
		for k, x := range m {
			out[path+"."+k] = x
		}
	default:
		out[path] = fmt.Sprintf("%v", v)
	}
}

func c14MapStr(m map[string]string) string {
	ks := make([]string, 0, len(m))
	for k := range m {
		ks = append(ks, k)
	}
	sort.Strings(ks)
	var b strings.Builder
	for _, k := range ks {
		b.WriteString(k + "=" + m[k] + ";")
	}
	return b.String()
}

func c14AttrKey(p string) string {
	parts := strings.Split(strings.TrimPrefix(p, "."), ".")
	if len(parts) > 2 {
		parts = parts[:2]
	}
	return strings.Join(parts, ".")
}

// c14Obs is what the three APIs returned for one id, in comparable form.
type c14Obs struct {
	Info, Resolve, Apply string
}

// queries runs the three APIs for style index q (q == -1: an unregistered id; q == g.N: the
// formerly missing parent) and, when judge is set, judges them against the reference resolver.
func (j *c14Judge) queries(sm *style.StyleManager, g c14Reg, q int, cyc bool, judge bool) (obs c14Obs, nontrivial bool) {
	P := j.c.P
	exists := q >= 0
	id := c14MissingID
	if exists {
		id = g.id(q)
	}
	suffix := ""
	if cyc {
		suffix = "-cyclic"
	}

	// --- GetStyleInfo (does not resolve; must terminate without crash)
	api := style.NewQuickStyleAPI(sm)
	var info *style.StyleInfo
	var ierr error
	P.Evals++
	if p := guard(func() { info, ierr = api.GetStyleInfo(id) }); p != "" {
		obs.Info = "panic"
		j.violate(g, id, "panic|GetStyleInfo|"+panicClass(p), "no-crash", "GetStyleInfo panics: "+p, nil, p)
	} else {
		if info != nil {
			obs.Info = fmt.Sprintf("%+v", *info)
		} else {
			obs.Info = "nil"
		}
		if ierr != nil {
			obs.Info += " error"
		}
		if judge {
			switch {
			case exists && (ierr != nil || info == nil):
				j.violate(g, id, "info|registered-style-not-found", "info", fmt.Sprintf("GetStyleInfo(%s) fails for a registered style: %v", id, ierr), "info", fmt.Sprint(ierr))
			case !exists:
				P.Outcome("info:missing-id")
			default:
				P.Outcome("info:ok")
			}
		}
	}

	// --- GetStyleWithInheritance
	var res *style.Style
	P.Evals++
	if p := guard(func() { res = sm.GetStyleWithInheritance(id) }); p != "" {
		obs.Resolve = "panic"
		j.violate(g, id, "panic|GetStyleWithInheritance|"+panicClass(p), "no-crash", "GetStyleWithInheritance panics: "+p, nil, p)
		return
	}
	if res == nil {
		obs.Resolve = "nil"
	} else {
		var b strings.Builder
		for a := range c14Attrs {
			b.WriteString(c14Get(res, a))
			b.WriteByte('|')
		}
		obs.Resolve = b.String()
	}
	expDef := make([]int, len(c14Attrs))
	for a := range expDef {
		expDef[a] = -1
	}
	if judge {
		P.Traces++
		switch {
		case !exists:
			if res == nil {
				P.Outcome("resolve:missing-id:nil")
			} else {
				P.Outcome("resolve:missing-id:style")
				for a := range c14Attrs {
					if got := c14Get(res, a); got != "" {
						j.violate(g, id, "resolve|"+c14Attrs[a].Name+"|phantom-missing-id", "resolve", "resolving an unregistered id yields a "+c14Attrs[a].Name+" setting", "none", got)
					}
				}
			}
		case res == nil:
			j.violate(g, id, "resolve"+suffix+"|nil-result", "resolve"+suffix, "GetStyleWithInheritance returns nil for a registered style", "style", nil)
			return
		default:
			for a := range c14Attrs {
				def, hops, end := g.resolve(q, a)
				expDef[a] = def
				if g.inScope(a) {
					P.Transitions += int64(hops)
					if g.Attr != c14All || a == 0 {
						if def >= 0 && hops > 0 {
							P.Outcome(fmt.Sprintf("resolve:ancestor@%d", hops))
						} else {
							P.Outcome("resolve:" + end)
						}
					}
					if hops > 0 {
						nontrivial = true
					}
				}
				exp := ""
				if def >= 0 {
					exp = c14ElemStr(a, g.vix(def))
				}
				got := c14Get(res, a)
				if got == exp {
					continue
				}
				kind, what := "", ""
				switch {
				case exp == "":
					kind = "phantom"
					what = fmt.Sprintf("%s resolves to a %s setting although neither it nor any style on its based-on chain has one (%s)", id, c14Attrs[a].Name, end)
				case got == "" && def == q:
					kind = "own-lost"
					what = fmt.Sprintf("%s has its own %s setting but resolves to none", id, c14Attrs[a].Name)
				case got == "":
					kind = "inherited-lost"
					what = fmt.Sprintf("%s has no %s setting, its nearest ancestor with one is %s (%d hops), but it resolves to none", id, c14Attrs[a].Name, g.id(def), hops)
				default:
					kind = "wrong-source"
					src := "an unknown value"
					for k := 0; k <= g.N; k++ {
						if c14ElemStr(a, g.vix(k)) == got {
							src = "the setting of " + g.id(k)
						}
					}
					what = fmt.Sprintf("%s must resolve %s to the setting of %s (%s, %d hops) but yields %s", id, c14Attrs[a].Name, g.id(def), end, hops, src)
				}
				j.violate(g, id, "resolve"+suffix+"|"+c14Attrs[a].Name+"|"+kind, "resolve"+suffix, what, exp, got)
			}
			if d := expDef[firstScope(g)]; j.nSamp < 1 && d >= 0 && d != q {
				j.nSamp++
				P.Samples = append(P.Samples, map[string]interface{}{"based_on": g.basedStr(), "attribute": g.attrName(), "styles": g.stStr(), "query": id,
					"expected_definer": g.id(d), "observed": c14Get(res, firstScope(g))})
			}
		}
	}

	// --- ApplyStyleToXML: must equal the projection of a flat style carrying the reference result
	var m map[string]interface{}
	var aerr error
	P.Evals++
	if p := guard(func() { m, aerr = sm.ApplyStyleToXML(id) }); p != "" {
		obs.Apply = "panic"
		j.violate(g, id, "panic|ApplyStyleToXML|"+panicClass(p), "no-crash", "ApplyStyleToXML panics: "+p, nil, p)
		return
	}
	f1 := map[string]string{}
	c14FlattenMap(m, "", f1)
	obs.Apply = c14MapStr(f1)
	if aerr != nil {
		obs.Apply += " error"
	}
	if !judge {
		return
	}
	if exists && aerr != nil {
		j.violate(g, id, "apply-xml"+suffix+"|error", "apply-xml"+suffix, "ApplyStyleToXML fails for a registered style: "+aerr.Error(), "map", aerr.Error())
		return
	}
	if !exists && aerr != nil {
		P.Outcome("apply-xml:missing-id:error")
		return
	}
	flatStyle := &style.Style{Type: string(style.StyleTypeParagraph), StyleID: id}
	for a := range c14Attrs {
		if expDef[a] >= 0 {
			c14SetAttr(flatStyle, a, g.vix(expDef[a]))
		}
	}
	j.flat.AddStyle(flatStyle)
	var m2 map[string]interface{}
	var ferr error
	if p := guard(func() { m2, ferr = j.flat.ApplyStyleToXML(id) }); p != "" || ferr != nil {
		j.violate(g, id, "apply-xml|flat-style-fails", "apply-xml", fmt.Sprintf("ApplyStyleToXML fails on a style without based-on: %s %v", p, ferr), "map", p)
		return
	}
	f2 := map[string]string{}
	c14FlattenMap(m2, "", f2)
	delete(f1, ".type")
	delete(f2, ".type")
	if k := c14FirstDiff(f1, f2); k != "" {
		kind := "differs"
		if _, ok := f1[k]; !ok {
			kind = "missing"
		} else if _, ok := f2[k]; !ok {
			kind = "extra"
		}
		j.violate(g, id, "apply-xml"+suffix+"|"+c14AttrKey(k)+"|"+kind, "apply-xml"+suffix,
			fmt.Sprintf("ApplyStyleToXML(%s): %s is %q, the nearest-definer result gives %q", id, k, f1[k], f2[k]), f2, f1)
	} else {
		P.Outcome("apply-xml:agrees")
	}
	return
}

func firstScope(g c14Reg) int {
	if g.Attr == c14All {
		return 0
	}
	return g.Attr
}

// history reports that the answer for an id depends on what happened to the manager before.
func (j *c14Judge) history(g c14Reg, q int, stage string, now, want c14Obs, wantWhat string) {
	comp := ""
	switch {
	case now.Info != want.Info:
		comp = "GetStyleInfo"
	case now.Resolve != want.Resolve:
		comp = "GetStyleWithInheritance"
	case now.Apply != want.Apply:
		comp = "ApplyStyleToXML"
	default:
		j.c.P.Outcome("history:" + stage + ":same-answer")
		return
	}
	id := c14MissingID
	if q >= 0 {
		id = g.id(q)
	}
	j.violate(g, id, "history|"+stage+"|"+comp, "history-independent",
		fmt.Sprintf("%s(%s) %s differs from %s", comp, id, stage, wantWhat), want, now)
}

// c14RunGraph runs all registries over one based-on function; cyclicPhase selects the queries
// whose walk reaches a cycle (run in a case of their own) or all the others.
//
// Per registry: (A) every id judged against the reference; (B) every id asked again: same answer;
// registry content unchanged; and, when some style is based on the unregistered id, (C) that id is
// registered afterwards (a root with the attribute set): every answer must equal the one of a
// fresh manager holding the same styles (which is judged against the reference); (D) it is removed
// again: every answer equals (A); registry content as at the start.
func c14RunGraph(c *shard.Ctx, idx int64, n int, based []int, reach []bool, cyclicPhase bool) {
	j := &c14Judge{c: c, idx: idx, flat: style.NewStyleManager()}
	nvec := 1
	for i := 0; i < n; i++ {
		nvec *= 3
	}
	code := 0
	for _, t := range based {
		code = code*(n+2) + (t + 1)
	}
	var qs []int
	for q := 0; q < n; q++ {
		if reach[q] == cyclicPhase {
			qs = append(qs, q)
		}
	}
	if !cyclicPhase {
		qs = append(qs, -1)
	}
	isCyc := func(q int) bool { return q >= 0 && q < n && reach[q] }
	var snapA, snapB []byte
	for attr := 0; attr <= c14All; attr++ {
		for vec := 0; vec < nvec; vec++ {
			g := c14Reg{N: n, Based: based, Attr: attr, St: make([]int, n)}
			v := vec
			allSet := true
			for i := 0; i < n; i++ {
				g.St[i] = v % 3
				v /= 3
				if g.St[i] != 2 {
					allSet = false
				}
			}
			sm := g.build()
			snapA = c14Snap(snapA, sm)
			key := fmt.Sprintf("%d.%d.%d.%d", n, code, attr, vec)
			if !cyclicPhase {
				c.P.Keys = append(c.P.Keys, key)
			}
			nt := false
			obsA := make([]c14Obs, len(qs))
			for k, q := range qs {
				var t bool
				obsA[k], t = j.queries(sm, g, q, isCyc(q), true)
				nt = nt || t
				if isCyc(q) {
					nt = true
					c.P.Outcome("terminated-on-cycle")
				}
			}
			if nt {
				c.P.Nontrivial = append(c.P.Nontrivial, key)
			}
			for k, q := range qs {
				o, _ := j.queries(sm, g, q, isCyc(q), false)
				j.history(g, q, "when-asked-again", o, obsA[k], "the first answer")
			}
			checkSnap := func(stage string) {
				snapB = c14Snap(snapB, sm)
				c.P.Evals++
				if bytes.Equal(snapA, snapB) {
					c.P.Outcome("registry-unchanged:" + stage)
					return
				}
				// slow path: name the difference against an identically built registry
				before, after := c14Dump(g.build(), true), c14Dump(sm, true)
				kind, sid := c14DumpDiff(before, after)
				role := "other-style"
				if strings.HasPrefix(sid, "S") && len(sid) == 2 {
					role = "enumerated-style"
				}
				path := ""
				if kind == "style-changed" {
					fresh := g.build()
					if a, b := fresh.GetStyle(sid), sm.GetStyle(sid); a != nil && b != nil {
						la, lb := map[string]string{}, map[string]string{}
						c14Leaves(reflect.ValueOf(a), "", true, la)
						c14Leaves(reflect.ValueOf(b), "", true, lb)
						path = c14FirstDiff(la, lb)
					}
				}
				j.violate(g, "all", "registry-modified|"+kind+"|"+role+"|"+path, "registry-unchanged",
					fmt.Sprintf("the registered styles differ %s: %s %s %s", stage, kind, sid, path), before[sid], after[sid])
			}
			checkSnap("after-resolution")
			if !cyclicPhase && attr == c14All && allSet {
				c14CloneCheck(j, g, "enumerated", func() *style.StyleManager { return g.build() })
			}
			if !g.usesMissing() {
				continue
			}
			// (C) the unregistered parent is registered afterwards
			g2 := g
			g2.Ghost = true
			sm.AddStyle(g2.style(n))
			fresh := g2.build()
			if !cyclicPhase {
				c.P.Keys = append(c.P.Keys, key+".g")
				c.P.Nontrivial = append(c.P.Nontrivial, key+".g")
			}
			qs2 := qs
			if !cyclicPhase {
				qs2 = append(append([]int{}, qs...), n)
			}
			for _, q := range qs2 {
				want, _ := j.queries(fresh, g2, q, isCyc(q), true)
				o, _ := j.queries(sm, g2, q, isCyc(q), false)
				j.history(g2, q, "after-its-missing-parent-was-registered", o, want, "the answer of a fresh manager holding the same styles")
			}
			// (D) and removed again
			sm.RemoveStyle(c14MissingParent)
			for k, q := range qs {
				o, _ := j.queries(sm, g, q, isCyc(q), false)
				j.history(g, q, "after-the-parent-was-removed-again", o, obsA[k], "the answer before it was registered")
			}
			checkSnap("after-register-and-remove")
		}
	}
}

// ---------------------------------------------------------------------------
// Clone()

// c14WalkPtrs visits every pointer / map / slice target reachable from v.
func c14WalkPtrs(v reflect.Value, path string, f func(addr uintptr, size uintptr, path string) bool) {
	switch v.Kind() {
	case reflect.Ptr:
		if v.IsNil() {
			return
		}
		if f(v.Pointer(), v.Type().Elem().Size(), path) {
			c14WalkPtrs(v.Elem(), path, f)
		}
	case reflect.Interface:
		if !v.IsNil() {
			c14WalkPtrs(v.Elem(), path, f)
		}
	case reflect.Struct:
		t := v.Type()
		for i := 0; i < t.NumField(); i++ {
			c14WalkPtrs(v.Field(i), path+"."+t.Field(i).Name, f)
		}
	case reflect.Map:
		if v.IsNil() {
			return
		}
		if f(v.Pointer(), 1, path) {
			it := v.MapRange()
			for it.Next() {
				c14WalkPtrs(it.Value(), path+"[*]", f)
			}
		}
	case reflect.Slice:
		if v.IsNil() || v.Len() == 0 {
			return
		}
		if f(v.Pointer(), 1, path) {
			for i := 0; i < v.Len(); i++ {
				c14WalkPtrs(v.Index(i), path+"[*]", f)
			}
		}
	}
}

// c14Mutate changes every string and bool reachable from v (v must be reached through a pointer).
func c14Mutate(v reflect.Value) {
	switch v.Kind() {
	case reflect.Ptr:
		if !v.IsNil() {
			c14Mutate(v.Elem())
		}
	case reflect.Struct:
		for i := 0; i < v.NumField(); i++ {
			c14Mutate(v.Field(i))
		}
	case reflect.String:
		if v.CanSet() {
			v.SetString(v.String() + "~mutated")
		}
	case reflect.Bool:
		if v.CanSet() {
			v.SetBool(!v.Bool())
		}
	}
}

func c14MutateRegistry(sm *style.StyleManager) {
	all := sm.GetAllStyles()
	sort.Slice(all, func(a, b int) bool { return all[a].StyleID < all[b].StyleID })
	ids := []string{}
	for _, s := range all {
		ids = append(ids, s.StyleID)
		c14Mutate(reflect.ValueOf(s))
	}
	// registry-level changes: drop one style, add one, replace one
	if len(ids) > 0 {
		sm.RemoveStyle(ids[0])
	}
	sm.AddStyle(&style.Style{Type: "paragraph", StyleID: "AddedAfterClone", RunPr: &style.RunProperties{Bold: &style.Bold{}}})
	if len(ids) > 1 {
		sm.AddStyle(&style.Style{Type: "character", StyleID: ids[1]})
	}
}

// c14CloneCheck: equality of content, no shared mutable address, and mutation of either side
// leaves the other unchanged.  mk must return a new, equal registry at every call.
func c14CloneCheck(j *c14Judge, g c14Reg, subject string, mk func() *style.StyleManager) {
	P := j.c.P
	vio := func(sig, what string, exp, got interface{}) {
		P.Violate(rep.Violation{Sig: sig, Clause: "clone-independent", What: what + " [registry: " + subject + "]", Depth: g.N,
			Case: shardCase(j.c, "c14", j.idx, map[string]interface{}{"clone_subject": subject, "based_on": g.basedStr()}), Expect: exp, Got: got})
	}
	src := mk()
	var cl *style.StyleManager
	P.Evals++
	if p := guard(func() { cl = src.Clone() }); p != "" {
		vio("panic|Clone|"+panicClass(p), "Clone panics: "+p, nil, p)
		return
	}
	if cl == nil || cl == src {
		vio("clone|not-a-new-registry", "Clone returns nil or the source itself", "new registry", fmt.Sprintf("%p", cl))
		return
	}
	// content (xml.Name bookkeeping fields are not formatting content and are not compared)
	ds, dc := c14Dump(src, false), c14Dump(cl, false)
	if !c14DumpEq(ds, dc) {
		kind, sid := c14DumpDiff(ds, dc)
		path := ""
		if a, b := src.GetStyle(sid), cl.GetStyle(sid); a != nil && b != nil {
			la, lb := map[string]string{}, map[string]string{}
			c14Leaves(reflect.ValueOf(a), "", false, la)
			c14Leaves(reflect.ValueOf(b), "", false, lb)
			path = c14FirstDiff(la, lb)
		}
		vio("clone-differs|"+kind+"|"+path, fmt.Sprintf("the clone is not a copy of its source: %s %s %s", kind, sid, path), ds[sid], dc[sid])
	} else {
		P.Outcome("clone:equal-content")
	}
	// addresses
	addrs := map[uintptr]string{}
	c14WalkPtrs(reflect.ValueOf(src), "", func(a, sz uintptr, p string) bool {
		if sz > 0 {
			if _, ok := addrs[a]; ok {
				return false
			}
			addrs[a] = p
		}
		return true
	})
	shared := 0
	c14WalkPtrs(reflect.ValueOf(cl), "", func(a, sz uintptr, p string) bool {
		if sz == 0 {
			return true
		}
		if sp, ok := addrs[a]; ok {
			shared++
			vio("clone-shared|"+p, fmt.Sprintf("clone%s and source%s are the same object (address %#x)", p, sp, a), "distinct objects", p)
			return false
		}
		return true
	})
	P.Add("clone_addresses_compared", int64(len(addrs)))
	if shared == 0 {
		P.Outcome("clone:no-shared-address")
	}
	// mutate the source, the clone must not change; then the other way round on a new pair
	for _, dir := range []string{"source", "clone"} {
		a := mk()
		var b *style.StyleManager
		if p := guard(func() { b = a.Clone() }); p != "" || b == nil {
			return
		}
		mut, keep, keepName := a, b, "clone"
		if dir == "clone" {
			mut, keep, keepName = b, a, "source"
		}
		before := c14Dump(keep, true)
		c14MutateRegistry(mut)
		after := c14Dump(keep, true)
		P.Evals++
		if !c14DumpEq(before, after) {
			kind, sid := c14DumpDiff(before, after)
			path := ""
			if kind == "style-changed" {
				ref := mk()
				if dir == "source" {
					// keep is a clone: compare against a new clone
					ref = ref.Clone()
				}
				if x, y := ref.GetStyle(sid), keep.GetStyle(sid); x != nil && y != nil {
					la, lb := map[string]string{}, map[string]string{}
					c14Leaves(reflect.ValueOf(x), "", true, la)
					c14Leaves(reflect.ValueOf(y), "", true, lb)
					path = c14FirstDiff(la, lb)
				}
			}
			top := path
			if parts := strings.SplitN(strings.TrimPrefix(path, "."), ".", 2); len(parts) > 0 {
				top = parts[0]
			}
			vio("clone-follows|"+keepName+"-changes-with-"+dir+"|"+kind+"|"+top,
				fmt.Sprintf("changing the %s changes the %s: %s %s %s", dir, keepName, kind, sid, path), before[sid], after[sid])
		} else {
			P.Outcome("clone:" + keepName + "-unaffected-by-" + dir + "-mutation")
		}
	}
}

// c14Populated: a registry whose styles have EVERY field of every nested structure set (by reflection,
// so that fields added later are covered too).
func c14Populated() *style.StyleManager {
	sm := style.NewStyleManager()
	for i := 0; i < 3; i++ {
		s := &style.Style{}
		c14Fill(reflect.ValueOf(s).Elem(), fmt.Sprintf("P%d", i+1), true)
		s.StyleID = fmt.Sprintf("P%d", i+1)
		sm.AddStyle(s)
	}
	return sm
}

// ---------------------------------------------------------------------------

// c14PredefinedCheck judges the registry every document starts with (about 30 styles, real based-on
// chains) with a resolver that reads the registered styles themselves through GetStyle.
func c14PredefinedCheck(c *shard.Ctx, idx int64) {
	sm := style.NewStyleManager()
	P := c.P
	snap := c14Snap(nil, sm)
	all := sm.GetAllStyles()
	sort.Slice(all, func(a, b int) bool { return all[a].StyleID < all[b].StyleID })
	for _, st := range all {
		id := st.StyleID
		var res *style.Style
		P.Evals++
		P.Traces++
		vio := func(sig, what string, exp, got interface{}) {
			P.Violate(rep.Violation{Sig: sig, Clause: "resolve", What: what + "  [predefined registry; query " + id + "]", Depth: len(all),
				Case: shardCase(c, "c14", idx, map[string]interface{}{"registry": "predefined", "query": id}), Expect: exp, Got: got})
		}
		if p := guard(func() { res = sm.GetStyleWithInheritance(id) }); p != "" {
			vio("panic|GetStyleWithInheritance|"+panicClass(p), "GetStyleWithInheritance panics: "+p, nil, p)
			continue
		}
		if res == nil {
			vio("resolve|nil-result", "GetStyleWithInheritance returns nil for a registered style", "style", nil)
			continue
		}
		inherited := false
		for a := range c14Attrs {
			exp, from, hops := "", "", 0
			seen := map[string]bool{}
			for cur := id; !seen[cur]; {
				seen[cur] = true
				s := sm.GetStyle(cur)
				if s == nil {
					break
				}
				if v := c14Get(s, a); v != "" {
					exp, from = v, cur
					break
				}
				if s.BasedOn == nil {
					break
				}
				cur = s.BasedOn.Val
				hops++
			}
			if exp != "" && hops > 0 {
				inherited = true
				P.Transitions += int64(hops)
			}
			got := c14Get(res, a)
			if got == exp {
				continue
			}
			kind := "wrong-source"
			switch {
			case exp == "":
				kind = "phantom"
			case got == "" && from == id:
				kind = "own-lost"
			case got == "":
				kind = "inherited-lost"
			}
			vio("resolve|"+c14Attrs[a].Name+"|"+kind, fmt.Sprintf("%s must resolve %s to the setting of %q (%d hops) but yields %q", id, c14Attrs[a].Name, from, hops, got), exp, got)
		}
		P.Keys = append(P.Keys, "predefined."+id)
		if inherited {
			P.Nontrivial = append(P.Nontrivial, "predefined."+id)
			P.Outcome("predefined:inherits")
		} else {
			P.Outcome("predefined:own-only")
		}
	}
	if !bytes.Equal(snap, c14Snap(nil, sm)) {
		P.Violate(rep.Violation{Sig: "registry-modified|predefined", Clause: "registry-unchanged", What: "resolving the predefined styles changes the predefined registry", Depth: len(all),
			Case: shardCase(c, "c14", idx, map[string]interface{}{"registry": "predefined"})})
	}
}

type c14Args struct {
	MaxN int `json:"maxN"`
}

func c14Worker(c *shard.Ctx) {
	var a c14Args
	json.Unmarshal(c.Args, &a)
	if a.MaxN <= 0 {
		a.MaxN = 3
	}
	// Chains here are at most 4 styles long; a small stack limit makes an unbounded recursion
	// die quickly (and cheaply for the machine) instead of after growing to 256 MB.
	debug.SetMaxStack(16 << 20)
	idx := int64(0)
	for n := 1; n <= a.MaxN; n++ {
		total := 1
		for i := 0; i < n; i++ {
			total *= n + 2
		}
		for code := 0; code < total; code++ {
			based := make([]int, n)
			v := code
			for i := n - 1; i >= 0; i-- {
				based[i] = v%(n+2) - 1
				v /= n + 2
			}
			reach := c14ReachesCycle(n, based)
			anyCyc := false
			for _, b := range reach {
				anyCyc = anyCyc || b
			}
			g := c14Reg{N: n, Based: based}
			desc := func(phase string) func() interface{} {
				return func() interface{} {
					return map[string]interface{}{"based_on": g.basedStr(), "phase": phase, "styles": n}
				}
			}
			if c.Begin(idx, desc("queries-not-reaching-a-cycle")) {
				c14RunGraph(c, idx, n, based, reach, false)
			}
			idx++
			if anyCyc {
				if c.Begin(idx, desc("queries-reaching-a-cycle")) {
					c14RunGraph(c, idx, n, based, reach, true)
				}
				idx++
			}
		}
	}
	for _, subj := range []string{"fully-populated", "predefined"} {
		subj := subj
		if c.Begin(idx, func() interface{} { return map[string]interface{}{"phase": "clone", "clone_subject": subj} }) {
			j := &c14Judge{c: c, idx: idx}
			mk := c14Populated
			if subj == "predefined" {
				mk = style.NewStyleManager
			}
			c.P.Keys = append(c.P.Keys, "clone."+subj)
			c.P.Nontrivial = append(c.P.Nontrivial, "clone."+subj)
			c14CloneCheck(j, c14Reg{}, subj, mk)
		}
		idx++
	}
	if c.Begin(idx, func() interface{} { return map[string]interface{}{"phase": "predefined-registry"} }) {
		c14PredefinedCheck(c, idx)
	}
	idx++
}

func c14Classify(ev shard.Event) string {
	phase := "?"
	if m, ok := ev.Desc.(map[string]interface{}); ok {
		if s, ok := m["phase"].(string); ok {
			phase = s
		}
	}
	cls := "other"
	if ev.Kind == "crash" {
		cls = fatalClass(ev.Stderr)
	}
	fn := ""
	for _, cand := range []string{"GetStyleWithInheritance", "ApplyStyleToXML", "GetStyleInfo", "Clone"} {
		if strings.Contains(ev.Stderr, "StyleManager)."+cand) || strings.Contains(ev.Stderr, "QuickStyleAPI)."+cand) {
			fn = cand
			break
		}
	}
	return cls + "|" + fn + "|" + phase
}

func runC14(r *rep.Run) {
	maxN := 3
	if r.Tier == "thorough" {
		maxN = 4
	}
	graphs := 0
	for n := 1; n <= maxN; n++ {
		t := 1
		for i := 0; i < n; i++ {
			t *= n + 2
		}
		graphs += t
	}
	// sanity of the attribute table against the library's structures
	for a := range c14Attrs {
		if p := guard(func() { c14Elem(a, 0) }); p != "" {
			r.P.HarnessErrs = append(r.P.HarnessErrs, "attribute table: "+p)
			return
		}
	}
	known := map[string]bool{"XMLName": true}
	for _, a := range c14Attrs {
		known[a.Field] = true
	}
	for _, t := range []reflect.Type{reflect.TypeOf(style.ParagraphProperties{}), reflect.TypeOf(style.RunProperties{})} {
		for i := 0; i < t.NumField(); i++ {
			if !known[t.Field(i).Name] {
				r.P.Notes = append(r.P.Notes, "field "+t.Name()+"."+t.Field(i).Name+" is not among the elements named in the property and is not enumerated")
			}
		}
	}
	r.Bounds = map[string]interface{}{
		"styles":            fmt.Sprintf("1..%d", maxN),
		"based_on_targets":  "none | every style including itself | an unregistered id",
		"based_on_graphs":   graphs,
		"attributes":        fmt.Sprintf("%d named elements one at a time + all at once", len(c14Attrs)),
		"per_style_state":   "no property container | container without the attribute | attribute set (value unique to the style); all 3^n assignments",
		"queries":           "every style id and one unregistered id × GetStyleWithInheritance, ApplyStyleToXML, QuickStyleAPI.GetStyleInfo",
		"predefined":        "every style of the predefined registry resolved and compared with a resolver reading the registered styles",
		"clone_subjects":    "registry with every field of every nested structure set (3 styles), the predefined registry, every enumerated graph with all attributes set everywhere",
		"registry_contents": "enumerated styles are added to NewStyleManager() (predefined styles stay registered)",
		"histories":         "per registry: every id asked, asked again; if a style is based on the unregistered id: that id registered afterwards (root with the attribute set), every id asked (compared with a fresh manager holding the same styles, itself judged), removed again, every id asked",
	}
	r.Rule = "every based-on function × attribute × state assignment is one registry (state key); non-trivial = some query walks at least one based-on hop or its walk reaches a cycle; queries whose walk reaches a cycle run in a separate worker case so that a process-killing recursion is recorded as crash event"
	r.Assume = []string{
		"inheritance is judged per formatting element as a whole (the element of the nearest definer), the granularity the statement names",
		"ApplyStyleToXML is judged against its own projection of a based-on-free style carrying the reference resolver's result (its map format has no key for borders, shading, keep/page-break/grid flags)",
		"attribute-wise enumeration is complete only if the merge has no cross-attribute logic; the all-attributes-at-once registries over the same assignments guard that",
		"xml.Name bookkeeping fields are not compared between a clone and its source (they are compared in every before/after dump)",
		"the answer for an id is a function of the registered styles only, so asking twice, or registering and removing the missing parent, must not change answers (follows from: the nearest definer is determined by the registry, resolution never modifies registered styles)",
	}
	// as runShards, but the violation keeps the event with the fewest styles as its witness
	args := c14Args{MaxN: maxN}
	p, events := shard.Map("c14", args, shard.Opts{Deadline: r.Deadline, Tier: r.Tier, HangTimeout: 120 * time.Second})
	r.Merge(p)
	q := rep.NewPartial()
	sort.Slice(events, func(a, b int) bool { return events[a].Idx < events[b].Idx })
	for _, ev := range events {
		if !ev.Confirmed {
			q.Notes = append(q.Notes, fmt.Sprintf("case %d %s once but not when re-run alone (not counted)", ev.Idx, ev.Kind))
			continue
		}
		depth := 0
		if m, ok := ev.Desc.(map[string]interface{}); ok {
			if n, ok := m["styles"].(int); ok {
				depth = 2 * n
			}
		}
		q.Outcome(ev.Kind + ":" + c14Classify(ev))
		q.Violate(rep.Violation{Sig: ev.Kind + "|" + c14Classify(ev), Clause: "terminates-without-crash", Depth: depth,
			What: fmt.Sprintf("case %d (%v) makes the worker process %s: %s", ev.Idx, ev.Desc, ev.Kind, firstLines(ev.Stderr, 3)),
			Case: map[string]interface{}{"worker": "c14", "args": args, "index": ev.Idx, "tier": r.Tier, "desc": ev.Desc}})
	}
	r.Merge(q)
}

func init() {
	shard.Register("c14", c14Worker)
	register("C14", "model_checking", runC14)
}
