package main

// C03 — saving then opening a document loses nothing the library can express.
//
// Exhaustive enumeration (shard engine) of API-built documents:
//   (1) feature product: every public constructor/setter of paragraph, run, table, row, cell,
//       image and section state x every value of a small argument domain, one document each;
//   (2) all ordered pairs of paragraph/run features on one paragraph and of table/row/cell
//       features on one table;
//   (3) all sequences of <= k body elements over ten element kinds x a text domain.
// Every document is taken through three save/open cycles.  The verdict is computed from the
// bytes written, read by the independent reader (pkgmodel): the w:body tree of save1 must be
// semantically equal to the one of save(open(save1)) and so on.  References (r:embed, r:id,
// w:numId, note ids) are compared by what they resolve to in their own package.

import (
	"strconv"
	"crypto/sha256"
	"encoding/hex"
	"fmt"
	"os"
	"path/filepath"
	"sort"
	"strings"
	"time"

	"github.com/zerx-lab/wordZero/pkg/document"

	"verif/harness/internal/pkgmodel"
	"verif/harness/internal/rep"
	"verif/harness/internal/shard"
)

func init() {
	shard.Register("C03", c03Worker)
	register("C03", "model_checking", runC03)
}

// ---------------------------------------------------------------------------
// building documents

type c03Ctx struct {
	doc  *document.Document
	p    *document.Paragraph
	t    *document.Table
	img  *document.ImageInfo
	text string
	errs []string
	dir  string
}

func (x *c03Ctx) e(err error) {
	if err != nil {
		x.errs = append(x.errs, err.Error())
	}
}

type c03Feat struct {
	name string
	kind string // para | table | image | section | doc
	pair bool
	f    func(x *c03Ctx)
}

var c03Texts = []string{"a", " a ", "a\tb", "a\nb", "é漢", ""}

func c03q(s string) string { return fmt.Sprintf("%q", s) }

var c03PNG = pngBytes(4, 3, 7)
var c03JPEG = jpegBytes(5, 4, 9)
var c03GIF = gifBytes(3, 3, 200)

func c03Base(x *c03Ctx, kind string) {
	switch kind {
	case "para":
		x.p = x.doc.AddParagraph("a")
	case "table":
		data := [][]string{{"r0c0", "r0c1", "r0c2"}, {"r1c0", "r1c1", "r1c2"}, {"r2c0", "r2c1", "r2c2"}}
		t, err := x.doc.AddTable(&document.TableConfig{Rows: 3, Cols: 3, Width: 9000, Data: data})
		x.e(err)
		x.t = t
	case "image":
		im, err := x.doc.AddImageFromData(c03PNG, "pic.png", document.ImageFormatPNG, 4, 3, nil)
		x.e(err)
		x.img = im
	case "section":
		x.p = x.doc.AddParagraph("a")
	}
}

func c03Features() []c03Feat {
	var fs []c03Feat
	add := func(kind, name string, pair bool, f func(x *c03Ctx)) {
		fs = append(fs, c03Feat{name: name, kind: kind, pair: pair, f: f})
	}
	para := func(name string, pair bool, f func(p *document.Paragraph)) {
		add("para", name, pair, func(x *c03Ctx) { f(x.p) })
	}
	tbl := func(name string, pair bool, f func(x *c03Ctx, t *document.Table) error) {
		add("table", name, pair, func(x *c03Ctx) {
			if x.t != nil {
				x.e(f(x, x.t))
			}
		})
	}
	bt, bf := true, false

	// ---- document-level constructors of paragraphs
	for _, s := range c03Texts {
		s := s
		add("doc", "AddParagraph("+c03q(s)+")", false, func(x *c03Ctx) { x.p = x.doc.AddParagraph(s) })
	}
	formats := []struct {
		n string
		f *document.TextFormat
	}{
		{"nil", nil}, {"{}", &document.TextFormat{}}, {"Bold", &document.TextFormat{Bold: true}}, {"Italic", &document.TextFormat{Italic: true}},
		{"FontSize=1", &document.TextFormat{FontSize: 1}}, {"FontSize=12", &document.TextFormat{FontSize: 12}}, {"FontSize=72", &document.TextFormat{FontSize: 72}},
		{"FontColor=FF0000", &document.TextFormat{FontColor: "FF0000"}}, {"FontColor=#00FF00", &document.TextFormat{FontColor: "#00FF00"}},
		{"FontFamily=Arial", &document.TextFormat{FontFamily: "Arial"}}, {"FontFamily=宋体", &document.TextFormat{FontFamily: "宋体"}}, {"FontName=Times New Roman", &document.TextFormat{FontName: "Times New Roman"}},
		{"Underline", &document.TextFormat{Underline: true}}, {"Strike", &document.TextFormat{Strike: true}}, {"Highlight=yellow", &document.TextFormat{Highlight: "yellow"}},
		{"all", &document.TextFormat{Bold: true, Italic: true, FontSize: 14, FontColor: "112233", FontFamily: "Arial", Underline: true, Strike: true, Highlight: "green"}},
	}
	for _, ft := range formats {
		ft := ft
		add("doc", "AddFormattedParagraph(a,"+ft.n+")", false, func(x *c03Ctx) { x.p = x.doc.AddFormattedParagraph("a", ft.f) })
	}
	for _, s := range c03Texts[1:] {
		s := s
		add("doc", "AddFormattedParagraph("+c03q(s)+",Bold)", false, func(x *c03Ctx) { x.p = x.doc.AddFormattedParagraph(s, &document.TextFormat{Bold: true}) })
	}
	for lvl := 0; lvl <= 10; lvl++ {
		lvl := lvl
		add("doc", fmt.Sprintf("AddHeadingParagraph(a,%d)", lvl), false, func(x *c03Ctx) { x.p = x.doc.AddHeadingParagraph("a", lvl) })
	}
	for _, s := range c03Texts[1:] {
		s := s
		add("doc", "AddHeadingParagraph("+c03q(s)+",1)", false, func(x *c03Ctx) { x.p = x.doc.AddHeadingParagraph(s, 1) })
	}
	add("doc", "AddHeadingParagraphWithBookmark(a,1,bm)", false, func(x *c03Ctx) { x.p = x.doc.AddHeadingParagraphWithBookmark("a", 1, "bm") })
	add("doc", "AddHeadingWithBookmark(a,2,bm2)", false, func(x *c03Ctx) { x.p = x.doc.AddHeadingWithBookmark("a", 2, "bm2") })
	add("doc", "Document.AddPageBreak()", false, func(x *c03Ctx) { x.doc.AddPageBreak() })
	add("doc", "AddListItem(a,nil)", false, func(x *c03Ctx) { x.p = x.doc.AddListItem("a", nil) })
	for _, lt := range []document.ListType{document.ListTypeBullet, document.ListTypeNumber, document.ListTypeDecimal, document.ListTypeLowerLetter, document.ListTypeUpperLetter, document.ListTypeLowerRoman, document.ListTypeUpperRoman} {
		for _, lvl := range []int{0, 1, 8} {
			lt, lvl := lt, lvl
			add("doc", fmt.Sprintf("AddListItem(a,{%s,level=%d})", lt, lvl), false, func(x *c03Ctx) {
				x.p = x.doc.AddListItem("a", &document.ListConfig{Type: lt, BulletSymbol: document.BulletTypeDot, IndentLevel: lvl, StartNumber: 1})
			})
		}
	}
	for _, b := range []document.BulletType{document.BulletTypeDot, document.BulletTypeCircle, document.BulletTypeSquare, document.BulletTypeDash, document.BulletTypeArrow} {
		b := b
		add("doc", "AddBulletList(a,0,"+string(b)+")", false, func(x *c03Ctx) { x.p = x.doc.AddBulletList("a", 0, b) })
	}
	for _, st := range []int{0, 5} {
		st := st
		add("doc", fmt.Sprintf("AddListItem(a,{number,start=%d})", st), false, func(x *c03Ctx) {
			x.p = x.doc.AddListItem("a", &document.ListConfig{Type: document.ListTypeNumber, StartNumber: st})
		})
	}
	for _, s := range c03Texts[1:] {
		s := s
		add("doc", "AddListItem("+c03q(s)+",nil)", false, func(x *c03Ctx) { x.p = x.doc.AddListItem(s, nil) })
	}
	add("doc", "AddNumberedList(a,1,decimal)", false, func(x *c03Ctx) { x.p = x.doc.AddNumberedList("a", 1, document.ListTypeDecimal) })
	add("doc", "CreateMultiLevelList(3 items)", false, func(x *c03Ctx) {
		x.e(x.doc.CreateMultiLevelList([]document.ListItem{{Text: "a", Level: 0, Type: document.ListTypeNumber, StartNumber: 1}, {Text: "b", Level: 1, Type: document.ListTypeLowerLetter}, {Text: "c", Level: 0, Type: document.ListTypeBullet, BulletSymbol: document.BulletTypeSquare}}))
	})
	add("doc", "AddListItem x2 + RestartNumbering", false, func(x *c03Ctx) {
		p := x.doc.AddListItem("a", &document.ListConfig{Type: document.ListTypeNumber, StartNumber: 1})
		x.doc.AddListItem("b", &document.ListConfig{Type: document.ListTypeNumber, StartNumber: 1})
		if p != nil && p.Properties != nil && p.Properties.NumberingProperties != nil && p.Properties.NumberingProperties.NumID != nil {
			x.doc.RestartNumbering(p.Properties.NumberingProperties.NumID.Val)
		}
		x.doc.AddListItem("c", &document.ListConfig{Type: document.ListTypeNumber, StartNumber: 1})
	})

	// ---- paragraph setters (base: AddParagraph("a"))
	for _, a := range []document.AlignmentType{document.AlignLeft, document.AlignCenter, document.AlignRight, document.AlignJustify} {
		a := a
		para("SetAlignment("+string(a)+")", a == document.AlignCenter, func(p *document.Paragraph) { p.SetAlignment(a) })
	}
	spacings := []struct {
		n    string
		c    *document.SpacingConfig
		pair bool
	}{
		{"nil", nil, false}, {"{}", &document.SpacingConfig{}, false}, {"LineSpacing=1.5", &document.SpacingConfig{LineSpacing: 1.5}, false},
		{"BeforePara=12", &document.SpacingConfig{BeforePara: 12}, false}, {"AfterPara=6", &document.SpacingConfig{AfterPara: 6}, false},
		{"FirstLineIndent=24", &document.SpacingConfig{FirstLineIndent: 24}, true},
		{"all", &document.SpacingConfig{LineSpacing: 2, BeforePara: 3, AfterPara: 4, FirstLineIndent: 5}, true},
	}
	for _, s := range spacings {
		s := s
		para("SetSpacing("+s.n+")", s.pair, func(p *document.Paragraph) { p.SetSpacing(s.c) })
	}
	for _, s := range c03Texts {
		s := s
		para("AddFormattedText("+c03q(s)+",nil)", s == " a ", func(p *document.Paragraph) { p.AddFormattedText(s, nil) })
	}
	para("AddFormattedText(b,Bold+Italic)", true, func(p *document.Paragraph) { p.AddFormattedText("b", &document.TextFormat{Bold: true, Italic: true}) })
	para("Paragraph.AddPageBreak()", true, func(p *document.Paragraph) { p.AddPageBreak() })
	para("AddInlineMath", false, func(p *document.Paragraph) { p.AddInlineMath("<m:r><m:t>x</m:t></m:r>") })
	for _, s := range []string{"Heading1", "Normal", "NoSuchStyle"} {
		s := s
		para("SetStyle("+s+")", s == "Heading1", func(p *document.Paragraph) { p.SetStyle(s) })
	}
	for _, v := range [][3]float64{{0, 0, 0}, {1, 0, 0}, {-0.5, 1, 0}, {0, 2, 1.5}} {
		v := v
		para(fmt.Sprintf("SetIndentation(%v,%v,%v)", v[0], v[1], v[2]), v[0] < 0, func(p *document.Paragraph) { p.SetIndentation(v[0], v[1], v[2]) })
	}
	for _, b := range []bool{true, false} {
		b := b
		para(fmt.Sprintf("SetKeepWithNext(%v)", b), b, func(p *document.Paragraph) { p.SetKeepWithNext(b) })
		para(fmt.Sprintf("SetKeepLines(%v)", b), b, func(p *document.Paragraph) { p.SetKeepLines(b) })
		para(fmt.Sprintf("SetPageBreakBefore(%v)", b), b, func(p *document.Paragraph) { p.SetPageBreakBefore(b) })
		para(fmt.Sprintf("SetWidowControl(%v)", b), true, func(p *document.Paragraph) { p.SetWidowControl(b) })
		para(fmt.Sprintf("SetSnapToGrid(%v)", b), !b, func(p *document.Paragraph) { p.SetSnapToGrid(b) })
		para(fmt.Sprintf("SetUnderline(%v)", b), true, func(p *document.Paragraph) { p.SetUnderline(b) })
		para(fmt.Sprintf("SetBold(%v)", b), true, func(p *document.Paragraph) { p.SetBold(b) })
		para(fmt.Sprintf("SetItalic(%v)", b), b, func(p *document.Paragraph) { p.SetItalic(b) })
		para(fmt.Sprintf("SetStrike(%v)", b), b, func(p *document.Paragraph) { p.SetStrike(b) })
	}
	for _, l := range []int{-1, 0, 3, 8, 9} {
		l := l
		para(fmt.Sprintf("SetOutlineLevel(%d)", l), l == 3, func(p *document.Paragraph) { p.SetOutlineLevel(l) })
	}
	para("SetParagraphFormat(nil)", false, func(p *document.Paragraph) { p.SetParagraphFormat(nil) })
	para("SetParagraphFormat({})", false, func(p *document.Paragraph) { p.SetParagraphFormat(&document.ParagraphFormatConfig{}) })
	para("SetParagraphFormat(full)", true, func(p *document.Paragraph) {
		p.SetParagraphFormat(&document.ParagraphFormatConfig{Alignment: document.AlignRight, Style: "Heading2", LineSpacing: 1.2, BeforePara: 2, AfterPara: 3, FirstLineIndent: 4,
			FirstLineCm: 0.5, LeftCm: 1, RightCm: 1, KeepWithNext: true, KeepLines: true, PageBreakBefore: true, WidowControl: true, SnapToGrid: &bf, OutlineLevel: 2})
	})
	para("SetParagraphFormat({SnapToGrid:true})", false, func(p *document.Paragraph) { p.SetParagraphFormat(&document.ParagraphFormatConfig{SnapToGrid: &bt, OutlineLevel: 9}) })
	b1 := &document.ParagraphBorderConfig{Style: document.BorderStyleSingle, Size: 12, Color: "000000", Space: 1}
	b2 := &document.ParagraphBorderConfig{Style: document.BorderStyleDouble, Size: 6, Color: "FF0000", Space: 0}
	b3 := &document.ParagraphBorderConfig{Style: document.BorderStyleDashed, Size: 4, Color: "00FF00", Space: 2}
	b4 := &document.ParagraphBorderConfig{Style: document.BorderStyleWave, Size: 8, Color: "0000FF", Space: 3}
	para("SetBorder(nil,nil,nil,nil)", false, func(p *document.Paragraph) { p.SetBorder(nil, nil, nil, nil) })
	para("SetBorder(top)", false, func(p *document.Paragraph) { p.SetBorder(b1, nil, nil, nil) })
	para("SetBorder(left)", false, func(p *document.Paragraph) { p.SetBorder(nil, b2, nil, nil) })
	para("SetBorder(right)", false, func(p *document.Paragraph) { p.SetBorder(nil, nil, nil, b4) })
	para("SetBorder(all four)", true, func(p *document.Paragraph) { p.SetBorder(b1, b2, b3, b4) })
	para("SetHorizontalRule(single,12,000000)", true, func(p *document.Paragraph) { p.SetHorizontalRule(document.BorderStyleSingle, 12, "000000") })
	para("SetHorizontalRule(double,6,FF0000)", false, func(p *document.Paragraph) { p.SetHorizontalRule(document.BorderStyleDouble, 6, "FF0000") })
	for _, s := range []string{"yellow", ""} {
		s := s
		para("SetHighlight("+c03q(s)+")", true, func(p *document.Paragraph) { p.SetHighlight(s) })
	}
	for _, s := range []string{"Arial", "宋体", ""} {
		s := s
		para("SetFontFamily("+c03q(s)+")", s != "Arial", func(p *document.Paragraph) { p.SetFontFamily(s) })
	}
	for _, n := range []int{0, 1, 12} {
		n := n
		para(fmt.Sprintf("SetFontSize(%d)", n), n != 1, func(p *document.Paragraph) { p.SetFontSize(n) })
	}
	for _, s := range []string{"FF0000", "#0000FF", ""} {
		s := s
		para("SetColor("+c03q(s)+")", s != "FF0000", func(p *document.Paragraph) { p.SetColor(s) })
	}

	// ---- tables: constructors
	for _, s := range c03Texts {
		s := s
		add("doc", "AddTable(2x2,data="+c03q(s)+")", false, func(x *c03Ctx) {
			t, err := x.doc.AddTable(&document.TableConfig{Rows: 2, Cols: 2, Width: 6000, Data: [][]string{{s, "x"}, {"y", s}}})
			x.e(err)
			x.t = t
		})
	}
	add("doc", "AddTable(1x1)", false, func(x *c03Ctx) { t, err := x.doc.AddTable(&document.TableConfig{Rows: 1, Cols: 1, Width: 3000}); x.e(err); x.t = t })
	add("doc", "AddTable(2x3,ColWidths)", false, func(x *c03Ctx) {
		t, err := x.doc.AddTable(&document.TableConfig{Rows: 2, Cols: 3, Width: 6000, ColWidths: []int{1000, 2000, 3000}})
		x.e(err)
		x.t = t
	})
	add("doc", "AddTable(2x2,Emphases)", false, func(x *c03Ctx) {
		t, err := x.doc.AddTable(&document.TableConfig{Rows: 2, Cols: 2, Width: 6000, Data: [][]string{{"a", "b"}, {"c", "d"}}, Emphases: [][]int{{1, 2}, {0, 1}}})
		x.e(err)
		x.t = t
	})
	add("doc", "AddTable(2x2,Width=0)", false, func(x *c03Ctx) { t, err := x.doc.AddTable(&document.TableConfig{Rows: 2, Cols: 2}); x.e(err); x.t = t })
	add("doc", "AddTable x2 adjacent", false, func(x *c03Ctx) {
		_, err := x.doc.AddTable(&document.TableConfig{Rows: 1, Cols: 2, Width: 4000, Data: [][]string{{"a", "b"}}})
		x.e(err)
		_, err = x.doc.AddTable(&document.TableConfig{Rows: 2, Cols: 1, Width: 2000, Data: [][]string{{"c"}, {"d"}}})
		x.e(err)
	})

	// ---- table / row / cell setters (base: 3x3 table with data)
	tbl("InsertRow(1)", false, func(x *c03Ctx, t *document.Table) error { return t.InsertRow(1, []string{"n0", "n1", "n2"}) })
	tbl("AppendRow", false, func(x *c03Ctx, t *document.Table) error { return t.AppendRow([]string{"n0"}) })
	tbl("DeleteRow(1)", false, func(x *c03Ctx, t *document.Table) error { return t.DeleteRow(1) })
	tbl("InsertColumn(1)", true, func(x *c03Ctx, t *document.Table) error { return t.InsertColumn(1, []string{"n0", "n1", "n2"}, 1000) })
	tbl("AppendColumn", false, func(x *c03Ctx, t *document.Table) error { return t.AppendColumn([]string{"n0"}, 500) })
	tbl("DeleteColumn(0)", false, func(x *c03Ctx, t *document.Table) error { return t.DeleteColumn(0) })
	tbl("ClearTable", false, func(x *c03Ctx, t *document.Table) error { t.ClearTable(); return nil })
	tbl("CopyTable+AddElement", false, func(x *c03Ctx, t *document.Table) error { x.doc.Body.AddElement(t.CopyTable()); return nil })
	for _, s := range c03Texts {
		s := s
		tbl("SetCellText(0,0,"+c03q(s)+")", s == " a ", func(x *c03Ctx, t *document.Table) error { return t.SetCellText(0, 0, s) })
	}
	for _, ft := range formats {
		ft := ft
		if ft.f == nil {
			continue
		}
		tbl("SetCellFormat(0,0,{TextFormat:"+ft.n+"})", ft.n == "all", func(x *c03Ctx, t *document.Table) error { return t.SetCellFormat(0, 0, &document.CellFormat{TextFormat: ft.f}) })
	}
	for _, a := range []document.CellAlignment{document.CellAlignLeft, document.CellAlignCenter, document.CellAlignRight, document.CellAlignJustify} {
		a := a
		tbl("SetCellFormat(0,0,{HorizontalAlign:"+string(a)+"})", a == document.CellAlignRight, func(x *c03Ctx, t *document.Table) error {
			return t.SetCellFormat(0, 0, &document.CellFormat{HorizontalAlign: a})
		})
	}
	for _, a := range []document.CellVerticalAlignment{document.CellVAlignTop, document.CellVAlignCenter, document.CellVAlignBottom} {
		a := a
		tbl("SetCellFormat(0,0,{VerticalAlign:"+string(a)+"})", a == document.CellVAlignBottom, func(x *c03Ctx, t *document.Table) error {
			return t.SetCellFormat(0, 0, &document.CellFormat{VerticalAlign: a})
		})
	}
	dirs := []document.CellTextDirection{document.TextDirectionLR, document.TextDirectionTB, document.TextDirectionBT, document.TextDirectionRL, document.TextDirectionTBV, document.TextDirectionBTV}
	for _, dd := range dirs {
		dd := dd
		tbl("SetCellFormat(0,0,{TextDirection:"+string(dd)+"})", false, func(x *c03Ctx, t *document.Table) error {
			return t.SetCellFormat(0, 0, &document.CellFormat{TextDirection: dd})
		})
		tbl("SetCellTextDirection(1,1,"+string(dd)+")", dd == document.TextDirectionTB, func(x *c03Ctx, t *document.Table) error { return t.SetCellTextDirection(1, 1, dd) })
	}
	tbl("SetCellFormat(0,0,{BackgroundColor,BorderStyle,Padding})", false, func(x *c03Ctx, t *document.Table) error {
		return t.SetCellFormat(0, 0, &document.CellFormat{BackgroundColor: "EEEEEE", BorderStyle: "single", Padding: 5})
	})
	tbl("SetCellFormattedText(0,0,a,nil)", false, func(x *c03Ctx, t *document.Table) error { return t.SetCellFormattedText(0, 0, "a", nil) })
	tbl("SetCellFormattedText(0,0, a ,all)", true, func(x *c03Ctx, t *document.Table) error { return t.SetCellFormattedText(0, 0, " a ", formats[len(formats)-1].f) })
	tbl("AddCellFormattedText(0,1,b,Bold)", true, func(x *c03Ctx, t *document.Table) error { return t.AddCellFormattedText(0, 1, "b", &document.TextFormat{Bold: true}) })
	tbl("AddCellFormattedText(0,1,b,nil)", false, func(x *c03Ctx, t *document.Table) error { return t.AddCellFormattedText(0, 1, "b", nil) })
	tbl("MergeCellsHorizontal(0,0,1)", true, func(x *c03Ctx, t *document.Table) error { return t.MergeCellsHorizontal(0, 0, 1) })
	tbl("MergeCellsHorizontal(2,0,2)", false, func(x *c03Ctx, t *document.Table) error { return t.MergeCellsHorizontal(2, 0, 2) })
	tbl("MergeCellsVertical(0,1,2)", true, func(x *c03Ctx, t *document.Table) error { return t.MergeCellsVertical(0, 1, 2) })
	tbl("MergeCellsVertical(0,2,0)", false, func(x *c03Ctx, t *document.Table) error { return t.MergeCellsVertical(0, 2, 0) })
	tbl("MergeCellsRange(1,2,1,2)", true, func(x *c03Ctx, t *document.Table) error { return t.MergeCellsRange(1, 2, 1, 2) })
	tbl("MergeCellsRange(0,2,0,2)", false, func(x *c03Ctx, t *document.Table) error { return t.MergeCellsRange(0, 2, 0, 2) })
	tbl("MergeCellsHorizontal+UnmergeCells", false, func(x *c03Ctx, t *document.Table) error {
		if err := t.MergeCellsHorizontal(0, 0, 1); err != nil {
			return err
		}
		return t.UnmergeCells(0, 0)
	})
	tbl("MergeCellsVertical+UnmergeCells", false, func(x *c03Ctx, t *document.Table) error {
		if err := t.MergeCellsVertical(0, 1, 0); err != nil {
			return err
		}
		return t.UnmergeCells(0, 0)
	})
	tbl("ClearCellContent(0,0)", true, func(x *c03Ctx, t *document.Table) error { return t.ClearCellContent(0, 0) })
	tbl("ClearCellFormat(0,0)", true, func(x *c03Ctx, t *document.Table) error { return t.ClearCellFormat(0, 0) })
	tbl("SetCellPadding(0,0,10)", false, func(x *c03Ctx, t *document.Table) error { return t.SetCellPadding(0, 0, 10) })
	for _, rule := range []document.RowHeightRule{document.RowHeightAuto, document.RowHeightMinimum, document.RowHeightExact} {
		for _, h := range []int{0, 20} {
			rule, h := rule, h
			tbl(fmt.Sprintf("SetRowHeight(1,{%d,%s})", h, rule), h == 20 && rule == document.RowHeightExact, func(x *c03Ctx, t *document.Table) error {
				return t.SetRowHeight(1, &document.RowHeightConfig{Height: h, Rule: rule})
			})
		}
	}
	tbl("SetRowHeightRange(0,2,{15,atLeast})", false, func(x *c03Ctx, t *document.Table) error {
		return t.SetRowHeightRange(0, 2, &document.RowHeightConfig{Height: 15, Rule: document.RowHeightMinimum})
	})
	for _, a := range []document.TableAlignment{document.TableAlignLeft, document.TableAlignCenter, document.TableAlignRight, document.TableAlignInside, document.TableAlignOutside} {
		a := a
		tbl("SetTableAlignment("+string(a)+")", a == document.TableAlignRight, func(x *c03Ctx, t *document.Table) error { return t.SetTableAlignment(a) })
	}
	tbl("SetTableLayout(floating)", false, func(x *c03Ctx, t *document.Table) error {
		return t.SetTableLayout(&document.TableLayoutConfig{Alignment: document.TableAlignLeft, TextWrap: document.TextWrapAround, Position: document.PositionFloating,
			Positioning: &document.TablePositioning{LeftFromText: "180", RightFromText: "180", VertAnchor: "page", HorzAnchor: "page", TblpX: "100", TblpY: "200"}})
	})
	for _, b := range []bool{true, false} {
		b := b
		tbl(fmt.Sprintf("SetRowKeepTogether(0,%v)", b), b, func(x *c03Ctx, t *document.Table) error { return t.SetRowKeepTogether(0, b) })
		tbl(fmt.Sprintf("SetRowAsHeader(0,%v)", b), b, func(x *c03Ctx, t *document.Table) error { return t.SetRowAsHeader(0, b) })
		tbl(fmt.Sprintf("SetRowKeepWithNext(0,%v)", b), false, func(x *c03Ctx, t *document.Table) error { return t.SetRowKeepWithNext(0, b) })
		tbl(fmt.Sprintf("Rows[2].Properties.SetCantSplit/SetTblHeader(%v)", b), false, func(x *c03Ctx, t *document.Table) error {
			if len(t.Rows) > 2 {
				if t.Rows[2].Properties == nil {
					t.Rows[2].Properties = &document.TableRowProperties{}
				}
				t.Rows[2].Properties.SetCantSplit(b)
				t.Rows[2].Properties.SetTblHeader(b)
			}
			return nil
		})
	}
	tbl("SetHeaderRows(0,1)", false, func(x *c03Ctx, t *document.Table) error { return t.SetHeaderRows(0, 1) })
	tbl("SetTablePageBreak", false, func(x *c03Ctx, t *document.Table) error {
		return t.SetTablePageBreak(&document.TablePageBreakConfig{KeepWithNext: true, KeepLines: true, PageBreakBefore: true, WidowControl: true})
	})
	for _, tpl := range []document.TableStyleTemplate{document.TableStyleTemplateGrid, document.TableStyleTemplateNormal, document.TableStyleTemplateColorful1} {
		tpl := tpl
		tbl("ApplyTableStyle({Template:"+string(tpl)+"})", tpl == document.TableStyleTemplateGrid, func(x *c03Ctx, t *document.Table) error {
			return t.ApplyTableStyle(&document.TableStyleConfig{Template: tpl})
		})
	}
	tbl("ApplyTableStyle({StyleID:MyStyle})", false, func(x *c03Ctx, t *document.Table) error { return t.ApplyTableStyle(&document.TableStyleConfig{StyleID: "MyStyle"}) })
	flagCfgs := []struct {
		n string
		c document.TableStyleConfig
	}{
		{"FirstRowHeader", document.TableStyleConfig{FirstRowHeader: true}}, {"LastRowTotal", document.TableStyleConfig{LastRowTotal: true}},
		{"FirstColumnHeader", document.TableStyleConfig{FirstColumnHeader: true}}, {"LastColumnTotal", document.TableStyleConfig{LastColumnTotal: true}},
		{"BandedRows", document.TableStyleConfig{BandedRows: true}}, {"BandedColumns", document.TableStyleConfig{BandedColumns: true}},
		{"all flags", document.TableStyleConfig{Template: document.TableStyleTemplateList, FirstRowHeader: true, LastRowTotal: true, FirstColumnHeader: true, LastColumnTotal: true, BandedRows: true, BandedColumns: true}},
	}
	for _, fc := range flagCfgs {
		fc := fc
		tbl("ApplyTableStyle({"+fc.n+"})", fc.n == "all flags", func(x *c03Ctx, t *document.Table) error { c := fc.c; return t.ApplyTableStyle(&c) })
	}
	bc := func(s document.BorderStyle, w int, col string, sp int) *document.BorderConfig {
		return &document.BorderConfig{Style: s, Width: w, Color: col, Space: sp}
	}
	tbl("SetTableBorders(all six)", true, func(x *c03Ctx, t *document.Table) error {
		return t.SetTableBorders(&document.TableBorderConfig{Top: bc(document.BorderStyleThick, 12, "FF0000", 0), Left: bc(document.BorderStyleDouble, 6, "00FF00", 1), Bottom: bc(document.BorderStyleDotted, 4, "0000FF", 2),
			Right: bc(document.BorderStyleDashed, 8, "111111", 3), InsideH: bc(document.BorderStyleDotDash, 2, "222222", 4), InsideV: bc(document.BorderStyleTriple, 3, "333333", 5)})
	})
	tbl("SetTableBorders(top only)", false, func(x *c03Ctx, t *document.Table) error {
		return t.SetTableBorders(&document.TableBorderConfig{Top: bc(document.BorderStyleSingle, 4, "auto", 0)})
	})
	tbl("SetTableBorders({})", false, func(x *c03Ctx, t *document.Table) error { return t.SetTableBorders(&document.TableBorderConfig{}) })
	tbl("RemoveTableBorders", false, func(x *c03Ctx, t *document.Table) error { return t.RemoveTableBorders() })
	for _, pt := range []document.ShadingPattern{document.ShadingPatternClear, document.ShadingPatternPct25, document.ShadingPatternDiagCross} {
		pt := pt
		tbl("SetTableShading("+string(pt)+")", pt == document.ShadingPatternPct25, func(x *c03Ctx, t *document.Table) error {
			return t.SetTableShading(&document.ShadingConfig{Pattern: pt, ForegroundColor: "FF0000", BackgroundColor: "FFFF00"})
		})
		tbl("SetCellShading(1,1,"+string(pt)+")", pt == document.ShadingPatternClear, func(x *c03Ctx, t *document.Table) error {
			return t.SetCellShading(1, 1, &document.ShadingConfig{Pattern: pt, ForegroundColor: "00FF00", BackgroundColor: "0000FF"})
		})
	}
	tbl("SetTableShading({clear, fill only})", false, func(x *c03Ctx, t *document.Table) error {
		return t.SetTableShading(&document.ShadingConfig{Pattern: document.ShadingPatternClear, BackgroundColor: "CCCCCC"})
	})
	tbl("SetCellBorders(1,1,all six)", true, func(x *c03Ctx, t *document.Table) error {
		return t.SetCellBorders(1, 1, &document.CellBorderConfig{Top: bc(document.BorderStyleThick, 12, "FF0000", 0), Left: bc(document.BorderStyleDouble, 6, "00FF00", 1), Bottom: bc(document.BorderStyleDotted, 4, "0000FF", 2),
			Right: bc(document.BorderStyleDashed, 8, "111111", 3), DiagDown: bc(document.BorderStyleSingle, 2, "222222", 0), DiagUp: bc(document.BorderStyleWave, 3, "333333", 0)})
	})
	tbl("SetCellBorders(0,0,top)", false, func(x *c03Ctx, t *document.Table) error {
		return t.SetCellBorders(0, 0, &document.CellBorderConfig{Top: bc(document.BorderStyleSingle, 4, "auto", 0)})
	})
	tbl("RemoveCellBorders(0,0)", false, func(x *c03Ctx, t *document.Table) error { return t.RemoveCellBorders(0, 0) })
	tbl("SetAlternatingRowColors", false, func(x *c03Ctx, t *document.Table) error { return t.SetAlternatingRowColors("EEEEEE", "FFFFFF") })
	tbl("CreateCustomTableStyle", false, func(x *c03Ctx, t *document.Table) error {
		return t.CreateCustomTableStyle("Custom1", "Custom 1", &document.TableBorderConfig{Top: bc(document.BorderStyleSingle, 4, "000000", 0)}, &document.ShadingConfig{Pattern: document.ShadingPatternPct10, BackgroundColor: "DDDDDD"}, true)
	})
	for _, s := range c03Texts {
		s := s
		tbl("AddCellParagraph(0,0,"+c03q(s)+")", s == "a\tb", func(x *c03Ctx, t *document.Table) error { _, err := t.AddCellParagraph(0, 0, s); return err })
	}
	tbl("AddCellFormattedParagraph(0,0,a,all)", false, func(x *c03Ctx, t *document.Table) error {
		_, err := t.AddCellFormattedParagraph(0, 0, "a", formats[len(formats)-1].f)
		return err
	})
	tbl("AddCellParagraph+paragraph setters", false, func(x *c03Ctx, t *document.Table) error {
		p, err := t.AddCellParagraph(1, 0, "a")
		if err == nil && p != nil {
			p.SetAlignment(document.AlignCenter)
			p.SetKeepWithNext(true)
			p.AddPageBreak()
		}
		return err
	})
	tbl("ClearCellParagraphs(0,0)", false, func(x *c03Ctx, t *document.Table) error { return t.ClearCellParagraphs(0, 0) })
	tbl("AddNestedTable(0,0,1x1)", false, func(x *c03Ctx, t *document.Table) error {
		_, err := t.AddNestedTable(0, 0, &document.TableConfig{Rows: 1, Cols: 1, Width: 1000, Data: [][]string{{"n"}}})
		return err
	})
	tbl("AddNestedTable(1,1,2x2)", true, func(x *c03Ctx, t *document.Table) error {
		_, err := t.AddNestedTable(1, 1, &document.TableConfig{Rows: 2, Cols: 2, Width: 2000, Data: [][]string{{"n00", "n01"}, {"n10", "n11"}}})
		return err
	})
	tbl("AddNestedTable twice nested", false, func(x *c03Ctx, t *document.Table) error {
		n, err := t.AddNestedTable(0, 0, &document.TableConfig{Rows: 1, Cols: 2, Width: 2000, Data: [][]string{{"n0", "n1"}}})
		if err != nil {
			return err
		}
		_, err = n.AddNestedTable(0, 1, &document.TableConfig{Rows: 1, Cols: 1, Width: 800, Data: [][]string{{"deep"}}})
		return err
	})
	for _, lt := range []document.ListType{document.ListTypeBullet, document.ListTypeNumber, document.ListTypeLowerRoman} {
		lt := lt
		tbl("AddCellList(2,2,"+string(lt)+")", lt == document.ListTypeNumber, func(x *c03Ctx, t *document.Table) error {
			return t.AddCellList(2, 2, &document.CellListConfig{Type: lt, BulletSymbol: document.BulletTypeArrow, Items: []string{"one", " two "}})
		})
	}
	tbl("AddCellImageFromData(0,2,png,10mm)", true, func(x *c03Ctx, t *document.Table) error { _, err := x.doc.AddCellImageFromData(t, 0, 2, c03PNG, 10); return err })
	tbl("AddCellImage(2,0,{jpeg,alt,title,20x10})", false, func(x *c03Ctx, t *document.Table) error {
		_, err := x.doc.AddCellImage(t, 2, 0, &document.CellImageConfig{Data: c03JPEG, Format: document.ImageFormatJPEG, Width: 20, Height: 10, AltText: "alt", Title: "title"})
		return err
	})
	tbl("AddCellImageFromFile(1,2)", false, func(x *c03Ctx, t *document.Table) error {
		_, err := x.doc.AddCellImageFromFile(t, 1, 2, filepath.Join(x.dir, "f.png"), 12)
		return err
	})

	// ---- images
	imgc := func(name string, data []byte, fn string, f document.ImageFormat, w, h int, cfg *document.ImageConfig) {
		add("doc", "AddImageFromData("+name+")", false, func(x *c03Ctx) {
			var c *document.ImageConfig
			if cfg != nil {
				cc := *cfg
				if cfg.Size != nil {
					s := *cfg.Size
					cc.Size = &s
				}
				c = &cc
			}
			im, err := x.doc.AddImageFromData(data, fn, f, w, h, c)
			x.e(err)
			x.img = im
		})
	}
	imgc("png,nil", c03PNG, "p.png", document.ImageFormatPNG, 4, 3, nil)
	imgc("jpeg,nil", c03JPEG, "j.jpg", document.ImageFormatJPEG, 5, 4, nil)
	imgc("gif,nil", c03GIF, "g.gif", document.ImageFormatGIF, 3, 3, nil)
	imgc("png,{}", c03PNG, "p.png", document.ImageFormatPNG, 4, 3, &document.ImageConfig{})
	imgc("png,Size=30x20", c03PNG, "p.png", document.ImageFormatPNG, 4, 3, &document.ImageConfig{Size: &document.ImageSize{Width: 30, Height: 20}})
	imgc("png,Size=W30 keep", c03PNG, "p.png", document.ImageFormatPNG, 4, 3, &document.ImageConfig{Size: &document.ImageSize{Width: 30, KeepAspectRatio: true}})
	imgc("png,Size=H20 keep", c03PNG, "p.png", document.ImageFormatPNG, 4, 3, &document.ImageConfig{Size: &document.ImageSize{Height: 20, KeepAspectRatio: true}})
	for _, a := range []document.AlignmentType{document.AlignLeft, document.AlignCenter, document.AlignRight, document.AlignJustify} {
		imgc("png,inline,Alignment="+string(a), c03PNG, "p.png", document.ImageFormatPNG, 4, 3, &document.ImageConfig{Position: document.ImagePositionInline, Alignment: a})
	}
	imgc("png,AltText+Title", c03PNG, "p.png", document.ImageFormatPNG, 4, 3, &document.ImageConfig{AltText: "alt é", Title: "title <&>"})
	for _, pos := range []document.ImagePosition{document.ImagePositionFloatLeft, document.ImagePositionFloatRight} {
		for _, wr := range []document.ImageWrapText{"", document.ImageWrapNone, document.ImageWrapSquare, document.ImageWrapTight, document.ImageWrapTopAndBottom} {
			imgc(fmt.Sprintf("png,%s,wrap=%s", pos, wr), c03PNG, "p.png", document.ImageFormatPNG, 4, 3, &document.ImageConfig{Position: pos, WrapText: wr})
		}
	}
	imgc("png,floatLeft,offset=5,7", c03PNG, "p.png", document.ImageFormatPNG, 4, 3, &document.ImageConfig{Position: document.ImagePositionFloatLeft, WrapText: document.ImageWrapSquare, OffsetX: 5, OffsetY: 7, AltText: "f"})
	add("doc", "AddImageFromFile(f.png,nil)", false, func(x *c03Ctx) { im, err := x.doc.AddImageFromFile(filepath.Join(x.dir, "f.png"), nil); x.e(err); x.img = im })
	add("doc", "AddImageFromData x2 (png+jpeg)", false, func(x *c03Ctx) {
		_, err := x.doc.AddImageFromData(c03PNG, "p.png", document.ImageFormatPNG, 4, 3, nil)
		x.e(err)
		_, err = x.doc.AddImageFromData(c03JPEG, "j.jpeg", document.ImageFormatJPEG, 5, 4, &document.ImageConfig{Position: document.ImagePositionFloatRight, WrapText: document.ImageWrapTight})
		x.e(err)
	})
	add("doc", "AddImageFromDataWithoutElement", false, func(x *c03Ctx) {
		x.doc.AddParagraph("a")
		_, err := x.doc.AddImageFromDataWithoutElement(c03PNG, "p.png", document.ImageFormatPNG, 4, 3, nil)
		x.e(err)
	})
	add("image", "ResizeImage(20x10)", false, func(x *c03Ctx) { x.e(x.doc.ResizeImage(x.img, &document.ImageSize{Width: 20, Height: 10})) })
	add("image", "SetImagePosition(floatLeft,1,2)", false, func(x *c03Ctx) { x.e(x.doc.SetImagePosition(x.img, document.ImagePositionFloatLeft, 1, 2)) })
	add("image", "SetImageWrapText(square)", false, func(x *c03Ctx) { x.e(x.doc.SetImageWrapText(x.img, document.ImageWrapSquare)) })
	add("image", "SetImageAltText(alt)", false, func(x *c03Ctx) { x.e(x.doc.SetImageAltText(x.img, "alt")) })
	add("image", "SetImageTitle(title)", false, func(x *c03Ctx) { x.e(x.doc.SetImageTitle(x.img, "title")) })
	for _, a := range []document.AlignmentType{document.AlignCenter, document.AlignRight} {
		a := a
		add("image", "SetImageAlignment("+string(a)+")", false, func(x *c03Ctx) { x.e(x.doc.SetImageAlignment(x.img, a)) })
	}

	// ---- section state (base: one paragraph)
	sec := func(name string, f func(d *document.Document) error) {
		add("section", name, false, func(x *c03Ctx) { x.e(f(x.doc)) })
	}
	for _, ps := range []document.PageSize{document.PageSizeA4, document.PageSizeLetter, document.PageSizeLegal, document.PageSizeA3, document.PageSizeA5} {
		ps := ps
		sec("SetPageSize("+string(ps)+")", func(d *document.Document) error { return d.SetPageSize(ps) })
	}
	sec("SetCustomPageSize(100,200)", func(d *document.Document) error { return d.SetCustomPageSize(100, 200) })
	sec("SetCustomPageSize(300,150)", func(d *document.Document) error { return d.SetCustomPageSize(300, 150) })
	for _, o := range []document.PageOrientation{document.OrientationPortrait, document.OrientationLandscape} {
		o := o
		sec("SetPageOrientation("+string(o)+")", func(d *document.Document) error { return d.SetPageOrientation(o) })
	}
	sec("SetPageMargins(10,20,30,40)", func(d *document.Document) error { return d.SetPageMargins(10, 20, 30, 40) })
	sec("SetPageMargins(0,0,0,0)", func(d *document.Document) error { return d.SetPageMargins(0, 0, 0, 0) })
	sec("SetHeaderFooterDistance(5,7)", func(d *document.Document) error { return d.SetHeaderFooterDistance(5, 7) })
	sec("SetGutterWidth(9)", func(d *document.Document) error { return d.SetGutterWidth(9) })
	for _, g := range []document.DocGridType{document.DocGridDefault, document.DocGridLines, document.DocGridSnapToChars, document.DocGridSnapToLines} {
		g := g
		sec("SetDocGrid("+string(g)+",400,20)", func(d *document.Document) error { return d.SetDocGrid(g, 400, 20) })
	}
	sec("SetDocGrid(lines,312,0)", func(d *document.Document) error { return d.SetDocGrid(document.DocGridLines, 312, 0) })
	sec("SetDocGrid+ClearDocGrid", func(d *document.Document) error {
		if err := d.SetDocGrid(document.DocGridLines, 312, 0); err != nil {
			return err
		}
		return d.ClearDocGrid()
	})
	sec("SetPageSettings(default)", func(d *document.Document) error { return d.SetPageSettings(document.DefaultPageSettings()) })
	sec("SetPageSettings(A5 landscape, margins, gutter, grid)", c03SectionSettings)
	sec("SetPageSettings(custom 120x180 landscape)", func(d *document.Document) error {
		s := document.DefaultPageSettings()
		s.Size = document.PageSizeCustom
		s.CustomWidth, s.CustomHeight = 120, 180
		s.Orientation = document.OrientationLandscape
		s.DocGridType = ""
		return d.SetPageSettings(s)
	})
	sec("SetPageSettings(custom 300x150 landscape)", func(d *document.Document) error {
		s := document.DefaultPageSettings()
		s.Size = document.PageSizeCustom
		s.CustomWidth, s.CustomHeight = 300, 150
		s.Orientation = document.OrientationLandscape
		s.DocGridType = ""
		return d.SetPageSettings(s)
	})
	sec("SetCustomPageSize(300,150)+SetPageOrientation(landscape)", func(d *document.Document) error {
		if err := d.SetCustomPageSize(300, 150); err != nil {
			return err
		}
		return d.SetPageOrientation(document.OrientationLandscape)
	})
	sec("SetHeaderFooterDistance(5,7)+SetPageMargins(10,20,30,40)", func(d *document.Document) error {
		if err := d.SetHeaderFooterDistance(5, 7); err != nil {
			return err
		}
		return d.SetPageMargins(10, 20, 30, 40)
	})
	sec("SetDifferentFirstPage(true)", func(d *document.Document) error { d.SetDifferentFirstPage(true); return nil })
	sec("SetDifferentFirstPage(true,false)", func(d *document.Document) error { d.SetDifferentFirstPage(true); d.SetDifferentFirstPage(false); return nil })
	sec("AddHeader(default,H)", func(d *document.Document) error { return d.AddHeader(document.HeaderFooterTypeDefault, "H") })
	sec("AddFooter(first,F)+SetDifferentFirstPage", func(d *document.Document) error {
		d.SetDifferentFirstPage(true)
		return d.AddFooter(document.HeaderFooterTypeFirst, "F")
	})
	sec("AddFooterWithPageNumber(default,P,true)", func(d *document.Document) error {
		return d.AddFooterWithPageNumber(document.HeaderFooterTypeDefault, "P", true)
	})
	sec("AddHeader(even)+AddFooter(default)+SetPageMargins", func(d *document.Document) error {
		if err := d.AddHeader(document.HeaderFooterTypeEven, "E"); err != nil {
			return err
		}
		if err := d.AddFooter(document.HeaderFooterTypeDefault, "D"); err != nil {
			return err
		}
		return d.SetPageMargins(11, 12, 13, 14)
	})

	// ---- other body constructors of the public API
	add("doc", "AddMathFormula(inline)", false, func(x *c03Ctx) { x.doc.AddMathFormula("<m:r><m:t>x</m:t></m:r>", false) })
	add("doc", "AddMathFormula(block)", false, func(x *c03Ctx) { x.doc.AddMathFormula("<m:r><m:t>y</m:t></m:r>", true) })
	add("doc", "AddFootnote(a,note)", false, func(x *c03Ctx) { x.e(x.doc.AddFootnote("a", "note")) })
	add("doc", "AddEndnote(a,note)", false, func(x *c03Ctx) { x.e(x.doc.AddEndnote("a", "note")) })
	add("doc", "AddHeadingParagraph x2 + GenerateTOC(nil)", false, func(x *c03Ctx) {
		x.doc.AddHeadingParagraph("One", 1)
		x.doc.AddHeadingParagraph("Two", 2)
		x.e(x.doc.GenerateTOC(nil))
	})
	return fs
}

func c03SectionSettings(d *document.Document) error {
	s := document.DefaultPageSettings()
	s.Size = document.PageSizeA5
	s.Orientation = document.OrientationLandscape
	s.MarginTop, s.MarginRight, s.MarginBottom, s.MarginLeft = 11, 12, 13, 14
	s.HeaderDistance, s.FooterDistance, s.GutterWidth = 6, 7, 3
	s.DocGridType, s.DocGridLinePitch, s.DocGridCharSpace = document.DocGridSnapToChars, 360, 15
	return d.SetPageSettings(s)
}

// element kinds of part (3); text is the document's text
type c03Elem struct {
	name    string
	hasText bool
	f       func(x *c03Ctx, s string)
}

func c03Elems() []c03Elem {
	return []c03Elem{
		{"plain", true, func(x *c03Ctx, s string) { x.doc.AddParagraph(s) }},
		{"formatted", true, func(x *c03Ctx, s string) {
			p := x.doc.AddFormattedParagraph(s, &document.TextFormat{Bold: true, Italic: true, FontSize: 14, FontColor: "FF0000", FontFamily: "Arial", Underline: true, Strike: true, Highlight: "yellow"})
			p.SetAlignment(document.AlignCenter)
			p.SetSpacing(&document.SpacingConfig{LineSpacing: 1.5, BeforePara: 6, AfterPara: 6, FirstLineIndent: 12})
			p.AddFormattedText(s, &document.TextFormat{Italic: true})
		}},
		{"heading", true, func(x *c03Ctx, s string) { x.doc.AddHeadingParagraph(s, 2) }},
		{"pagebreak", false, func(x *c03Ctx, s string) { x.doc.AddPageBreak() }},
		{"listitem", true, func(x *c03Ctx, s string) { x.doc.AddListItem(s, &document.ListConfig{Type: document.ListTypeBullet, BulletSymbol: document.BulletTypeDot}) }},
		{"image", false, func(x *c03Ctx, s string) {
			_, err := x.doc.AddImageFromData(c03PNG, "p.png", document.ImageFormatPNG, 4, 3, nil)
			x.e(err)
		}},
		{"table2x2", true, func(x *c03Ctx, s string) {
			_, err := x.doc.AddTable(&document.TableConfig{Rows: 2, Cols: 2, Width: 6000, Data: [][]string{{s, "x"}, {"y", s}}})
			x.e(err)
		}},
		{"mergedtable", true, func(x *c03Ctx, s string) {
			t, err := x.doc.AddTable(&document.TableConfig{Rows: 3, Cols: 3, Width: 9000, Data: [][]string{{s, "b", "c"}, {"d", "e", "f"}, {"g", "h", s}}})
			x.e(err)
			if t != nil {
				x.e(t.MergeCellsRange(0, 1, 0, 1))
			}
		}},
		{"nestedtable", true, func(x *c03Ctx, s string) {
			t, err := x.doc.AddTable(&document.TableConfig{Rows: 2, Cols: 2, Width: 6000, Data: [][]string{{"o", "p"}, {"q", "r"}}})
			x.e(err)
			if t != nil {
				_, err = t.AddNestedTable(0, 0, &document.TableConfig{Rows: 2, Cols: 2, Width: 2000, Data: [][]string{{s, "n"}, {"m", s}}})
				x.e(err)
			}
		}},
		{"section", false, func(x *c03Ctx, s string) { x.e(c03SectionSettings(x.doc)) }},
	}
}

// c03Enumerate calls visit for every case of the tier, in a fixed order.
func c03Enumerate(tier string, visit func(part string, names []string, depth int, build func(x *c03Ctx))) {
	fs := c03Features()
	// (1) product
	for _, f := range fs {
		f := f
		visit("product", []string{f.kind + ": " + f.name}, 1, func(x *c03Ctx) { c03Base(x, f.kind); f.f(x) })
	}
	// (2) pairs
	for _, kind := range []string{"para", "table"} {
		var ps []c03Feat
		for _, f := range fs {
			if f.kind == kind && (f.pair || tier == "thorough") {
				ps = append(ps, f)
			}
		}
		for _, f := range ps {
			for _, g := range ps {
				f, g := f, g
				visit("pair-"+kind, []string{f.name, g.name}, 2, func(x *c03Ctx) { c03Base(x, kind); f.f(x); g.f(x) })
			}
		}
	}
	// (2b) narrow and deep on one table: every sequence of 3 (thorough 4) calls over the calls that change what
	// the first cell holds (text, paragraphs, nested table, clearing) and the structure around it (merges,
	// row/column edits) - content that is added, cut back and added again
	{
		prefixes := []string{"SetCellText(0,0,", "SetCellFormattedText(0,0, a ,all)", "AddCellParagraph(0,0,", "ClearCellParagraphs(0,0)", "AddNestedTable(0,0,1x1)",
			"ClearCellContent(0,0)", "MergeCellsHorizontal(0,0,1)", "MergeCellsVertical(0,2,0)", "InsertRow(1)", "DeleteColumn(0)"}
		var ds []c03Feat
		for _, pre := range prefixes {
			for _, f := range fs {
				if f.kind == "table" && strings.HasPrefix(f.name, pre) {
					ds = append(ds, f)
					break
				}
			}
		}
		n := 3
		if tier == "thorough" {
			n = 4
		}
		total := 1
		for i := 0; i < n; i++ {
			total *= len(ds)
		}
		for c := 0; c < total; c++ {
			seq := make([]c03Feat, n)
			names := make([]string, n)
			v := c
			for i := n - 1; i >= 0; i-- {
				seq[i] = ds[v%len(ds)]
				names[i] = seq[i].name
				v /= len(ds)
			}
			visit("deep-table", names, n, func(x *c03Ctx) {
				c03Base(x, "table")
				for _, f := range seq {
					f.f(x)
				}
			})
		}
	}
	// (3) sequences, one text per document
	es := c03Elems()
	maxLen := 3
	if tier == "thorough" {
		maxLen = 4
	}
	for n := 1; n <= maxLen; n++ {
		idx := make([]int, n)
		for {
			seq := append([]int{}, idx...)
			for _, s := range c03Texts {
				s := s
				names := []string{"text=" + c03q(s)}
				for _, i := range seq {
					names = append(names, es[i].name)
				}
				visit("seq", names, n+2, func(x *c03Ctx) {
					for _, i := range seq {
						es[i].f(x, s)
					}
				})
			}
			k := n - 1
			for k >= 0 {
				idx[k]++
				if idx[k] < len(es) {
					break
				}
				idx[k] = 0
				k--
			}
			if k < 0 {
				break
			}
		}
	}
	// (3b) sequences of two elements with independent texts
	type et struct {
		e int
		s string
	}
	var ets []et
	for i, e := range es {
		if e.hasText {
			for _, s := range c03Texts {
				ets = append(ets, et{i, s})
			}
		} else {
			ets = append(ets, et{i, ""})
		}
	}
	for _, a := range ets {
		for _, b := range ets {
			a, b := a, b
			if a.s == b.s {
				continue // covered by (3)
			}
			names := []string{es[a.e].name + "[" + c03q(a.s) + "]", es[b.e].name + "[" + c03q(b.s) + "]"}
			visit("seq-texts", names, 4, func(x *c03Ctx) { es[a.e].f(x, a.s); es[b.e].f(x, b.s) })
		}
	}
}

// ---------------------------------------------------------------------------
// semantic view of a saved package: body tree with references resolved

var c03Prefix = map[string]string{
	pkgmodel.NsW: "w", pkgmodel.NsR: "r", pkgmodel.NsA: "a", pkgmodel.NsWP: "wp", pkgmodel.NsPic: "pic", pkgmodel.NsM: "m", pkgmodel.NsXML: "xml",
}

func c03QN(space, local string) string {
	if space == "" {
		return local
	}
	if p, ok := c03Prefix[space]; ok {
		return p + ":" + local
	}
	return "{" + space + "}" + local
}

func c03NodeName(n *pkgmodel.Node) string {
	if n.IsText {
		return "#text"
	}
	return c03QN(n.Space, n.Local)
}

func c03AttrName(a pkgmodel.Attr) string {
	if a.Space == "" || a.Space == pkgmodel.NsW {
		return a.Local
	}
	return c03QN(a.Space, a.Local)
}

func c03Hash(s string) string {
	h := sha256.Sum256([]byte(s))
	return hex.EncodeToString(h[:8])
}

// c03View returns the body of the saved package with every reference attribute replaced by a
// description of what it resolves to inside that package, so that renumbered but equivalent
// references compare equal and a reference that resolves to something else does not.
func c03View(pkg *pkgmodel.Pkg) (*pkgmodel.Node, string) {
	if pkg.ZipErr != "" {
		return nil, "zip: " + pkg.ZipErr
	}
	main := pkg.MainPart()
	if main == "" {
		return nil, "no main part"
	}
	if probs := pkg.XMLProbs[main]; len(probs) > 0 {
		return nil, "main part not well-formed: " + probs[0]
	}
	body := pkg.Body()
	if body == nil {
		return nil, "no w:body"
	}
	rels := pkg.Rels[pkgmodel.RelsNameFor(main)]
	resolveRel := func(id string) string {
		for _, r := range rels {
			if r.ID == id {
				if r.Mode == "External" {
					return "external:" + r.Type + ":" + r.Target
				}
				data, ok := pkg.Parts[r.Resolved]
				if !ok {
					return "missing-target:" + shortRelType(r.Type)
				}
				if x := pkg.XML[r.Resolved]; x != nil {
					return shortRelType(r.Type) + ":xml:" + c03Hash(pkgmodel.Canon(x, nil))
				}
				return shortRelType(r.Type) + ":bytes:" + c03Hash(string(data)) + fmt.Sprintf(":%d", len(data))
			}
		}
		return "unresolved"
	}
	// numbering definitions
	numDef := map[string]string{}
	for name, root := range pkg.XML {
		if root.Space == pkgmodel.NsW && root.Local == "numbering" && strings.HasPrefix(name, filepath.Dir(main)) {
			abs := map[string]string{}
			for _, a := range root.Children(pkgmodel.NsW, "abstractNum") {
				var b strings.Builder
				for _, l := range a.Children(pkgmodel.NsW, "lvl") {
					b.WriteString(pkgmodel.Canon(l, nil))
				}
				abs[a.AttrW("abstractNumId")] = c03Hash(b.String())
			}
			for _, n := range root.Children(pkgmodel.NsW, "num") {
				ref := ""
				if c := n.Child(pkgmodel.NsW, "abstractNumId"); c != nil {
					ref = c.AttrW("val")
				}
				d, ok := abs[ref]
				if !ok {
					d = "no-abstractNum"
				}
				ov := ""
				for _, o := range n.Children(pkgmodel.NsW, "lvlOverride") {
					ov += pkgmodel.Canon(o, nil)
				}
				if ov != "" {
					d += "+" + c03Hash(ov)
				}
				numDef[n.AttrW("numId")] = d
			}
		}
	}
	notes := func(rootLocal, id string) string {
		for _, root := range pkg.XML {
			if root.Space == pkgmodel.NsW && root.Local == rootLocal {
				for _, k := range root.Elems() {
					if k.AttrW("id") == id {
						return c03Hash(pkgmodel.Canon(k, nil))
					}
				}
			}
		}
		return "undefined"
	}
	set := func(n *pkgmodel.Node, space, local, val string) {
		for i := range n.Attrs {
			if n.Attrs[i].Space == space && n.Attrs[i].Local == local {
				n.Attrs[i].Val = val
			}
		}
	}
	body.Walk(func(n *pkgmodel.Node) {
		for _, a := range n.Attrs {
			if a.Space == pkgmodel.NsR && (a.Local == "embed" || a.Local == "id" || a.Local == "link") {
				set(n, a.Space, a.Local, "->"+resolveRel(a.Val))
			}
		}
		if n.Space == pkgmodel.NsW {
			switch n.Local {
			case "numId":
				if v, ok := n.Attr(pkgmodel.NsW, "val"); ok {
					d, ok := numDef[v]
					if !ok {
						d = "undefined"
						if v == "0" {
							d = "none"
						}
					}
					set(n, pkgmodel.NsW, "val", "->numbering:"+d)
				}
			case "footnoteReference":
				if v, ok := n.Attr(pkgmodel.NsW, "id"); ok {
					set(n, pkgmodel.NsW, "id", "->footnote:"+notes("footnotes", v))
				}
			case "endnoteReference":
				if v, ok := n.Attr(pkgmodel.NsW, "id"); ok {
					set(n, pkgmodel.NsW, "id", "->endnote:"+notes("endnotes", v))
				}
			}
		}
	})
	return body, ""
}

func shortRelType(t string) string {
	if i := strings.LastIndex(t, "/"); i >= 0 {
		return t[i+1:]
	}
	return t
}

// ---------------------------------------------------------------------------
// tree difference

type c03Diff struct {
	Kind   string // dropped | changed | added | moved
	Path   string // parent/child[@attr|#text]
	Detail string
	Before string
	After  string
}

type c03Differ struct {
	canon map[*pkgmodel.Node]string
	out   []c03Diff
}

func (d *c03Differ) h(n *pkgmodel.Node) string {
	if s, ok := d.canon[n]; ok {
		return s
	}
	s := pkgmodel.Canon(n, nil)
	d.canon[n] = s
	return s
}

func c03Verbatim(n *pkgmodel.Node) bool {
	switch n.Local {
	case "t", "instrText", "delText":
		return n.Space == pkgmodel.NsW || n.Space == pkgmodel.NsM
	}
	return false
}

// c03PropContainer: elements whose children are a set of distinct properties (w:pPr, w:rPr, w:tblPr,
// w:trPr, w:tcPr, w:sectPr, w:numPr, border and margin groups), not a sequence of content.
func c03PropContainer(n *pkgmodel.Node) bool {
	if n.Space != pkgmodel.NsW {
		return false
	}
	switch n.Local {
	case "pBdr", "tblBorders", "tcBorders", "tblCellMar", "tcMar":
		return true
	}
	return strings.HasSuffix(n.Local, "Pr")
}

// significant children: indentation-only text between elements is not content
func c03Kids(n *pkgmodel.Node) []*pkgmodel.Node {
	var out []*pkgmodel.Node
	for _, k := range n.Kids {
		if k.IsText && !c03Verbatim(n) && strings.TrimSpace(k.Text) == "" {
			continue
		}
		if k.IsText && k.Text == "" {
			continue
		}
		out = append(out, k)
	}
	return out
}

func c03XML(n *pkgmodel.Node) string {
	if n == nil {
		return ""
	}
	var b strings.Builder
	var rec func(n *pkgmodel.Node)
	rec = func(n *pkgmodel.Node) {
		if b.Len() > 700 {
			return
		}
		if n.IsText {
			b.WriteString(fmt.Sprintf("%q", n.Text))
			return
		}
		b.WriteString("<" + c03NodeName(n))
		attrs := append([]pkgmodel.Attr{}, n.Attrs...)
		sort.Slice(attrs, func(i, j int) bool { return c03AttrName(attrs[i]) < c03AttrName(attrs[j]) })
		for _, a := range attrs {
			fmt.Fprintf(&b, " %s=%q", c03AttrName(a), a.Val)
		}
		kids := c03Kids(n)
		if len(kids) == 0 {
			b.WriteString("/>")
			return
		}
		b.WriteString(">")
		for _, k := range kids {
			rec(k)
		}
		b.WriteString("</>")
	}
	rec(n)
	s := b.String()
	if len(s) > 700 {
		s = s[:700] + "…"
	}
	return s
}

func c03TextClass(a, b string) string {
	switch {
	case strings.TrimSpace(a) == strings.TrimSpace(b):
		return "outer-whitespace"
	case strings.Join(strings.Fields(a), "") == strings.Join(strings.Fields(b), ""):
		return "inner-whitespace"
	}
	return "content"
}

func (d *c03Differ) add(kind, path, detail string, before, after *pkgmodel.Node) {
	d.out = append(d.out, c03Diff{Kind: kind, Path: path, Detail: detail, Before: c03XML(before), After: c03XML(after)})
}

// compare two elements of the same name
func (d *c03Differ) cmp(a, b *pkgmodel.Node, parentName string) {
	if d.h(a) == d.h(b) {
		return
	}
	self := c03NodeName(a)
	here := self
	if parentName != "" {
		here = parentName + "/" + self
	}
	for _, x := range a.Attrs {
		v, ok := b.Attr(x.Space, x.Local)
		switch {
		case !ok:
			d.add("dropped", here+"@"+c03AttrName(x), fmt.Sprintf("attribute %s=%q is gone", c03AttrName(x), x.Val), a, b)
		case v != x.Val:
			d.add("changed", here+"@"+c03AttrName(x), fmt.Sprintf("attribute %s: %q became %q", c03AttrName(x), x.Val, v), a, b)
		}
	}
	for _, y := range b.Attrs {
		if _, ok := a.Attr(y.Space, y.Local); !ok {
			d.add("added", here+"@"+c03AttrName(y), fmt.Sprintf("attribute %s=%q appeared", c03AttrName(y), y.Val), a, b)
		}
	}
	ka, kb := c03Kids(a), c03Kids(b)
	if c03PropContainer(a) {
		// the order of the members of a property container carries no meaning
		sort.SliceStable(ka, func(i, j int) bool { return c03NodeName(ka[i]) < c03NodeName(ka[j]) })
		sort.SliceStable(kb, func(i, j int) bool { return c03NodeName(kb[i]) < c03NodeName(kb[j]) })
	}
	// alignment of the two child lists: maximum-weight order-preserving matching where only
	// nodes of the same name may be matched, an identical subtree weighs 3 and a same-name pair 2
	// (so matching more siblings is preferred to shifting the list for one exact match)
	pairs := c03Align(len(ka), len(kb), func(i, j int) int {
		switch {
		case c03NodeName(ka[i]) != c03NodeName(kb[j]):
			return 0
		case d.h(ka[i]) == d.h(kb[j]):
			return 3
		}
		return 2
	})
	var dropped, added []*pkgmodel.Node
	ia, ib := 0, 0
	for _, m := range append(pairs, [2]int{len(ka), len(kb)}) {
		for ; ia < m[0]; ia++ {
			dropped = append(dropped, ka[ia])
		}
		for ; ib < m[1]; ib++ {
			added = append(added, kb[ib])
		}
		if m[0] < len(ka) {
			x, y := ka[m[0]], kb[m[1]]
			if x.IsText {
				if x.Text != y.Text {
					d.add("changed", here+"#text|"+c03TextClass(x.Text, y.Text), fmt.Sprintf("text %q became %q", x.Text, y.Text), a, b)
				}
			} else {
				d.cmp(x, y, self)
			}
			ia, ib = m[0]+1, m[1]+1
		}
	}
	// moved = same subtree dropped at one place and added at another place of the same parent
	usedAdd := map[int]bool{}
	for _, x := range dropped {
		moved := false
		for j, y := range added {
			if !usedAdd[j] && d.h(x) == d.h(y) {
				usedAdd[j] = true
				moved = true
				d.add("moved", self+"/"+c03NodeName(x), "same content at another position among its siblings", a, b)
				break
			}
		}
		if !moved {
			if x.IsText {
				d.add("dropped", here+"#text", fmt.Sprintf("text %q is gone", x.Text), a, b)
			} else {
				d.add("dropped", self+"/"+c03NodeName(x), "element is gone", a, b)
			}
		}
	}
	for j, y := range added {
		if usedAdd[j] {
			continue
		}
		if y.IsText {
			d.add("added", here+"#text", fmt.Sprintf("text %q appeared", y.Text), a, b)
		} else {
			d.add("added", self+"/"+c03NodeName(y), "element appeared", a, b)
		}
	}
}

// c03Align returns the index pairs of a maximum-weight order-preserving matching (w = 0: may not be matched).
func c03Align(n, m int, w func(i, j int) int) [][2]int {
	if n == 0 || m == 0 {
		return nil
	}
	wt := make([][]int8, n)
	t := make([][]int32, n+1)
	for i := range t {
		t[i] = make([]int32, m+1)
	}
	for i := 0; i < n; i++ {
		wt[i] = make([]int8, m)
		for j := 0; j < m; j++ {
			wt[i][j] = int8(w(i, j))
		}
	}
	for i := n - 1; i >= 0; i-- {
		for j := m - 1; j >= 0; j-- {
			best := t[i+1][j]
			if t[i][j+1] > best {
				best = t[i][j+1]
			}
			if wt[i][j] > 0 && int32(wt[i][j])+t[i+1][j+1] > best {
				best = int32(wt[i][j]) + t[i+1][j+1]
			}
			t[i][j] = best
		}
	}
	var out [][2]int
	i, j := 0, 0
	for i < n && j < m {
		switch {
		case wt[i][j] > 0 && t[i][j] == int32(wt[i][j])+t[i+1][j+1]:
			out = append(out, [2]int{i, j})
			i++
			j++
		case t[i][j] == t[i+1][j]:
			i++
		default:
			j++
		}
	}
	return out
}

func c03DiffBodies(a, b *pkgmodel.Node) []c03Diff {
	d := &c03Differ{canon: map[*pkgmodel.Node]string{}}
	d.cmp(a, b, "")
	return d.out
}

// c03SaveRead is saveRead without parsing the parts the body never refers to (styles, theme,
// docProps, settings, fontTable): four packages are read per case and styles.xml dominates the cost.
func c03SaveRead(d *document.Document) (*pkgmodel.Pkg, []byte, string) {
	var b []byte
	var err error
	if p := guard(func() { b, err = d.ToBytes() }); p != "" {
		return nil, nil, "panic: " + p
	}
	if err != nil {
		return nil, nil, "error: " + err.Error()
	}
	return pkgmodel.ReadFiltered(b, func(name string) bool {
		switch {
		case strings.HasSuffix(name, "/styles.xml"), strings.HasPrefix(name, "docProps/"), strings.HasSuffix(name, "/settings.xml"),
			strings.HasSuffix(name, "/fontTable.xml"), strings.Contains(name, "/theme/"):
			return false
		}
		return true
	}), b, ""
}

// ---------------------------------------------------------------------------
// one case

const c03Cycles = 3

type c03Result struct {
	viol    []rep.Violation
	outcome string
	key     string
	nontriv bool
}

func c03Exec(build func(x *c03Ctx), dir string) c03Result {
	var res c03Result
	document.VerifResetGlobals()
	x := &c03Ctx{doc: document.New(), dir: dir}
	if p := guard(func() { build(x) }); p != "" {
		// a panicking constructor/setter is not this property's subject; nothing was saved
		res.outcome = "build-panic:" + panicClass(p)
		return res
	}
	// what the caller's own document object holds, read through its exported fields before anything is saved
	memBefore, memPanic := c03MemView(x.doc)
	pkg, bytes1, errS := c03SaveRead(x.doc)
	if errS != "" {
		res.outcome = "save1-failed"
		res.viol = append(res.viol, rep.Violation{Sig: "save-failed|first|" + c03ErrClass(errS), Clause: "save-failed", What: "the API-built document cannot be saved: " + errS})
		return res
	}
	prev, why := c03View(pkg)
	if prev == nil {
		res.outcome = "save1-unreadable"
		res.viol = append(res.viol, rep.Violation{Sig: "save-unreadable|first|" + c03ErrClass(why), Clause: "save-unreadable", What: "the independent reader cannot read the first save: " + why})
		return res
	}
	// saving is an observation: a second save of the same, untouched document object must give the same body
	resave := func(d *document.Document, first *pkgmodel.Node, which string) {
		pk2, _, errS2 := c03SaveRead(d)
		if errS2 != "" {
			res.viol = append(res.viol, rep.Violation{Sig: "save-failed|second-save-of-" + which + "|" + c03ErrClass(errS2), Clause: "save-failed", What: "the " + which + " document cannot be saved a second time: " + errS2})
			return
		}
		second, why2 := c03View(pk2)
		if second == nil {
			res.viol = append(res.viol, rep.Violation{Sig: "save-unreadable|second-save-of-" + which + "|" + c03ErrClass(why2), Clause: "save-unreadable", What: "the independent reader cannot read the second save of the " + which + " document: " + why2})
			return
		}
		for _, df := range c03DiffBodies(first, second) {
			res.viol = append(res.viol, rep.Violation{Sig: "resave-" + df.Kind + "|" + which + "|" + df.Path, Clause: "resave-" + df.Kind, What: fmt.Sprintf("the %s document, saved twice without any call in between, gives two different bodies, %s: %s", which, df.Path, df.Detail), Expect: df.Before, Got: df.After})
		}
	}
	resave(x.doc, prev, "API-built")
	res.key = c03Hash(pkgmodel.Canon(prev, nil))
	res.nontriv = len(prev.Elems()) > 1 || (len(prev.Elems()) == 1 && prev.Elems()[0].Local != "sectPr")
	cur := bytes1
	outcome := []string{}
	for cyc := 1; cyc <= c03Cycles; cyc++ {
		document.VerifResetGlobals()
		d, errS := reopen(cur)
		if errS != "" {
			res.viol = append(res.viol, rep.Violation{Sig: fmt.Sprintf("open-failed|%s|%s", c03CycleName(cyc), c03ErrClass(errS)), Clause: "open-failed", What: fmt.Sprintf("cycle %d: the library cannot open its own output: %s", cyc, errS)})
			outcome = append(outcome, fmt.Sprintf("c%d:open-failed", cyc))
			break
		}
		if cyc == 1 && !memPanic {
			// the document object the caller built and the object Open returns for its save must hold the same
			// visible content (a writer that silently leaves something out is invisible to a comparison of saves)
			if memAfter, p2 := c03MemView(d); !p2 {
				if what, detail := c03MemDiff(memBefore, memAfter); what != "" {
					res.viol = append(res.viol, rep.Violation{Sig: "built-vs-reopened|" + what, Clause: "built-vs-reopened", What: "the document object built through the API and the object Open returns for its save differ: " + detail, Expect: memBefore, Got: memAfter})
				}
			}
		}
		pk, nb, errS := c03SaveRead(d)
		if errS != "" {
			res.viol = append(res.viol, rep.Violation{Sig: fmt.Sprintf("save-failed|%s|%s", c03CycleName(cyc), c03ErrClass(errS)), Clause: "save-failed", What: fmt.Sprintf("cycle %d: the reopened document cannot be saved: %s", cyc, errS)})
			outcome = append(outcome, fmt.Sprintf("c%d:save-failed", cyc))
			break
		}
		next, why := c03View(pk)
		if next == nil {
			res.viol = append(res.viol, rep.Violation{Sig: fmt.Sprintf("save-unreadable|%s|%s", c03CycleName(cyc), c03ErrClass(why)), Clause: "save-unreadable", What: fmt.Sprintf("cycle %d: the independent reader cannot read the re-saved package: %s", cyc, why)})
			outcome = append(outcome, fmt.Sprintf("c%d:unreadable", cyc))
			break
		}
		diffs := c03DiffBodies(prev, next)
		kinds := map[string]bool{}
		for _, df := range diffs {
			kinds[df.Kind] = true
			clause := df.Kind
			what := fmt.Sprintf("after one save/open cycle %s: %s", df.Path, df.Detail)
			if cyc > 1 {
				clause = "recycle-" + df.Kind
				what = fmt.Sprintf("save/open cycle %d is not a fixed point, %s: %s", cyc, df.Path, df.Detail)
			}
			res.viol = append(res.viol, rep.Violation{Sig: clause + "|" + df.Path, Clause: clause, What: what, Expect: df.Before, Got: df.After})
		}
		if len(diffs) == 0 {
			outcome = append(outcome, fmt.Sprintf("c%d:same", cyc))
		} else {
			var ks []string
			for k := range kinds {
				ks = append(ks, k)
			}
			sort.Strings(ks)
			outcome = append(outcome, fmt.Sprintf("c%d:%s", cyc, strings.Join(ks, "+")))
		}
		if cyc == 1 {
			resave(d, next, "reopened")
		}
		prev, cur = next, nb
	}
	res.outcome = strings.Join(outcome, " ")
	if len(x.errs) > 0 {
		res.outcome += " (api-error)"
	}
	return res
}

// c03MemView lists the visible content of a document object through exported fields only: per body element its
// kind; per paragraph its text (tabs, breaks and pictures marked); per table its rows, per cell the span and
// vertical-merge marks, the texts of its non-empty paragraphs and, recursively, its nested tables.
func c03MemView(d *document.Document) (out []string, panicked bool) {
	var para func(p *document.Paragraph) string
	para = func(p *document.Paragraph) string {
		var b strings.Builder
		for _, r := range p.Runs {
			b.WriteString(r.Text.Content)
			if r.Break != nil {
				b.WriteString("<br>")
			}
			if r.Drawing != nil {
				b.WriteString("<img>")
			}
		}
		return b.String()
	}
	var table func(t *document.Table) string
	table = func(t *document.Table) string {
		var b strings.Builder
		b.WriteString("tbl{")
		for ri := range t.Rows {
			b.WriteString("row(")
			for ci := range t.Rows[ri].Cells {
				c := &t.Rows[ri].Cells[ci]
				b.WriteString("[")
				if c.Properties != nil {
					if c.Properties.GridSpan != nil && c.Properties.GridSpan.Val != "" && c.Properties.GridSpan.Val != "1" {
						b.WriteString("span=" + c.Properties.GridSpan.Val + " ")
					}
					if c.Properties.VMerge != nil {
						v := c.Properties.VMerge.Val
						if v == "" {
							v = "continue"
						}
						b.WriteString("vmerge=" + v + " ")
					}
				}
				for pi := range c.Paragraphs {
					if s := para(&c.Paragraphs[pi]); s != "" {
						b.WriteString(strconv.Quote(s))
					}
				}
				for ti := range c.Tables {
					b.WriteString(" nested:" + table(&c.Tables[ti]))
				}
				b.WriteString("]")
			}
			b.WriteString(")")
		}
		b.WriteString("}")
		return b.String()
	}
	if p := guard(func() {
		for _, e := range d.Body.Elements {
			switch v := e.(type) {
			case *document.Paragraph:
				out = append(out, "p "+strconv.Quote(para(v)))
			case *document.Table:
				out = append(out, table(v))
			case *document.SectionProperties:
			default:
				out = append(out, kindOf(e))
			}
		}
	}); p != "" {
		return nil, true
	}
	return out, false
}

// c03MemDiff names the first difference of two views: what = class of the difference, detail = explanation.
func c03MemDiff(a, b []string) (what, detail string) {
	if len(a) != len(b) {
		return "element-count", fmt.Sprintf("%d body elements built, %d after reopening (%q / %q)", len(a), len(b), a, b)
	}
	for i := range a {
		if a[i] == b[i] {
			continue
		}
		ka, kb := strings.SplitN(a[i], " ", 2)[0], strings.SplitN(b[i], " ", 2)[0]
		switch {
		case strings.HasPrefix(a[i], "tbl{") && strings.HasPrefix(b[i], "tbl{"):
			what = "table-content"
			if strings.Count(a[i], "nested:") != strings.Count(b[i], "nested:") {
				what = "nested-table-count"
			} else if strings.Count(a[i], "row(") != strings.Count(b[i], "row(") || strings.Count(a[i], "[") != strings.Count(b[i], "[") {
				what = "table-shape"
			} else if strings.Count(a[i], "span=") != strings.Count(b[i], "span=") || strings.Count(a[i], "vmerge=") != strings.Count(b[i], "vmerge=") {
				what = "table-merges"
			}
		case ka != kb:
			what = "element-kind|" + ka + "->" + kb
		default:
			what = "paragraph-text"
		}
		return what, fmt.Sprintf("body element %d: built %s, after reopening %s", i, a[i], b[i])
	}
	return "", ""
}

func c03CycleName(c int) string {
	if c == 1 {
		return "first"
	}
	return "later"
}

func c03ErrClass(s string) string {
	if strings.HasPrefix(s, "panic: ") {
		return "panic-" + panicClass(s)
	}
	s = strings.ToLower(s)
	for _, k := range []string{"xml", "syntax", "zip", "not well-formed", "no w:body", "no main part"} {
		if strings.Contains(s, k) {
			return strings.ReplaceAll(k, " ", "-")
		}
	}
	return "error"
}

func c03SigSet(vs []rep.Violation) string {
	var s []string
	for _, v := range vs {
		s = append(s, v.Sig)
	}
	sort.Strings(s)
	return strings.Join(s, "\n")
}

func c03Worker(c *shard.Ctx) {
	dir, err := os.MkdirTemp("", "c03-")
	if err != nil {
		c.P.HarnessErrs = append(c.P.HarnessErrs, err.Error())
		return
	}
	defer os.RemoveAll(dir)
	if err := os.WriteFile(filepath.Join(dir, "f.png"), c03PNG, 0o644); err != nil {
		c.P.HarnessErrs = append(c.P.HarnessErrs, err.Error())
		return
	}
	seenSig := map[string]bool{}
	first := true
	idx := int64(-1)
	samples := map[string]int{}
	c03Enumerate(c.Tier, func(part string, names []string, depth int, build func(x *c03Ctx)) {
		idx++
		i := idx
		desc := map[string]interface{}{"part": part, "steps": names}
		if !c.Begin(i, func() interface{} { return desc }) {
			return
		}
		res := c03Exec(build, dir)
		c.P.Evals++
		c.P.Traces++
		c.P.Transitions += 1 + 2*c03Cycles
		c.P.Outcome(part + ": " + res.outcome)
		if res.key != "" {
			c.P.Keys = append(c.P.Keys, res.key)
			if res.nontriv {
				c.P.Nontrivial = append(c.P.Nontrivial, res.key)
			}
		}
		// determinism: the first case of the shard and every case that shows a new signature are run twice
		again := first
		for _, v := range res.viol {
			if !seenSig[v.Sig] {
				again = true
			}
		}
		first = false
		if again {
			r2 := c03Exec(build, dir)
			if c03SigSet(r2.viol) != c03SigSet(res.viol) || r2.key != res.key {
				c.P.HarnessErrs = append(c.P.HarnessErrs, fmt.Sprintf("case %d %v is not deterministic: first run {%s} second run {%s}", i, names, c03SigSet(res.viol), c03SigSet(r2.viol)))
				return
			}
		}
		for _, v := range res.viol {
			seenSig[v.Sig] = true
			v.Depth = depth
			v.What = fmt.Sprintf("%s [document: %s]", v.What, strings.Join(names, " ; "))
			v.Case = shardCase(c, "C03", i, desc)
			c.P.Violate(v)
		}
		if samples[part] < 1 && c.Shard == int(i%3) {
			samples[part]++
			c.P.Samples = append(c.P.Samples, map[string]interface{}{"index": i, "part": part, "steps": names, "outcome": res.outcome, "body_key": res.key})
		}
	})
}

func runC03(r *rep.Run) {
	maxLen := 3
	if r.Tier == "thorough" {
		maxLen = 4
	}
	fs := c03Features()
	np, nt := 0, 0
	for _, f := range fs {
		if (f.pair || r.Tier == "thorough") && f.kind == "para" {
			np++
		}
		if (f.pair || r.Tier == "thorough") && f.kind == "table" {
			nt++
		}
	}
	r.Rule = "every enumerated API-built document is saved, then opened and saved again three times; word/document.xml of consecutive saves is read by the independent reader and the w:body trees are compared semantically (namespace-resolved names, attribute order irrelevant, r:embed/r:id/w:numId/note ids replaced by what they resolve to in their own package); state = canonical body of the first save; non-trivial = the first save's body contains at least one block element besides the final w:sectPr; signature = kind of difference | parent/child path of the culprit node"
	r.Bounds["feature_values"] = len(fs)
	r.Bounds["pair_domain_paragraph"] = np
	r.Bounds["pair_domain_table"] = nt
	r.Bounds["sequence_max_len"] = maxLen
	r.Bounds["sequence_element_kinds"] = len(c03Elems())
	r.Bounds["texts"] = c03Texts
	r.Bounds["save_open_cycles"] = c03Cycles
	r.Assume = []string{
		"only documents written by the library itself are in scope (foreign packages are C04)",
		"header/footer/notes/numbering parts are compared only through the references of the body (by content hash of the resolved target)",
		"a constructor or setter that panics or returns an error is recorded as an outcome, not judged here",
	}
	var total int64
	c03Enumerate(r.Tier, func(string, []string, int, func(*c03Ctx)) { total++ })
	r.Bounds["documents"] = total
	runShards(r, "C03", map[string]interface{}{}, 60*time.Second, nil)
}
