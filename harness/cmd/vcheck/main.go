// vcheck runs the model-checking check of one property.
//
//	vcheck <property-id> <quick|thorough> [--replay <file>]
package main

import (
	"fmt"
	"os"
	"sort"

	"github.com/zerx-lab/wordZero/pkg/document"

	"verif/harness/internal/rep"
	"verif/harness/internal/seqx"
	"verif/harness/internal/shard"
)

type checkFn func(r *rep.Run)

var checks = map[string]checkFn{}
var levels = map[string]string{}

func register(id, level string, f checkFn) { checks[id] = f; levels[id] = level }

func main() {
	document.SetGlobalLevel(document.LogLevelSilent)
	if c07SoloChild() || c17ExpectChild() || racePassMain() || seqx.ChildMain() || shard.ChildMain() {
		return
	}
	if len(os.Args) < 2 {
		ids := []string{}
		for k := range checks {
			ids = append(ids, k)
		}
		sort.Strings(ids)
		fmt.Fprintf(os.Stderr, "usage: vcheck <id> <quick|thorough> [--replay file]\nchecks: %v\n", ids)
		os.Exit(2)
	}
	id := os.Args[1]
	tier := os.Getenv("VERIF_TIER")
	if len(os.Args) > 2 && (os.Args[2] == "quick" || os.Args[2] == "thorough") {
		tier = os.Args[2]
	}
	if tier != "thorough" {
		tier = "quick"
	}
	for i, a := range os.Args {
		if a == "--replay" && i+1 < len(os.Args) {
			os.Exit(replayFile(id, os.Args[i+1]))
		}
	}
	f, ok := checks[id]
	if !ok {
		fmt.Fprintf(os.Stderr, "no check for %q\n", id)
		os.Exit(2)
	}
	r := rep.NewRun(id, tier, levels[id])
	f(r)
	r.Finish()
}
