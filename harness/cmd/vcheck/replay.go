package main

import (
	"encoding/json"
	"fmt"
	"os"

	"verif/harness/internal/rep"
	"verif/harness/internal/seqx"
	"verif/harness/internal/shard"
)

// replayers re-run one recorded case without the explorer; they return the violations observed.
var replayers = map[string]func(c map[string]interface{}) ([]rep.Violation, string){}

func replayFile(id, path string) int {
	b, err := os.ReadFile(path)
	if err != nil {
		fmt.Fprintln(os.Stderr, err)
		return 2
	}
	var f struct {
		Property  string        `json:"property"`
		Violation rep.Violation `json:"violation"`
	}
	if err := json.Unmarshal(b, &f); err != nil {
		fmt.Fprintln(os.Stderr, err)
		return 2
	}
	c, _ := f.Violation.Case.(map[string]interface{})
	var viol []rep.Violation
	var perr string
	if spec, ok := c["spec"].(string); ok && c["ops"] != nil {
		var h []int
		for _, x := range c["ops"].([]interface{}) {
			h = append(h, int(x.(float64)))
		}
		viol, perr = seqx.ReplayOne(spec, c["args"], h)
	} else if wk, ok := c["worker"].(string); ok && c["index"] != nil {
		// a case of a shard enumeration: re-enumerate in this process and run only that index
		tier, _ := c["tier"].(string)
		if tier == "" {
			tier = "quick"
		}
		p := shard.RunInline(wk, c["args"], int64(c["index"].(float64)), tier)
		for _, v := range p.Violations {
			viol = append(viol, *v)
		}
	} else if rp, ok := replayers[id]; ok {
		viol, perr = rp(c)
	} else {
		fmt.Fprintf(os.Stderr, "no replayer for %s\n", id)
		return 2
	}
	if perr != "" {
		fmt.Fprintln(os.Stderr, perr)
		return 2
	}
	hit := false
	for _, v := range viol {
		fmt.Printf("observed: %s: %s\n", v.Sig, v.What)
		if v.Sig == f.Violation.Sig {
			hit = true
		}
	}
	if hit {
		fmt.Printf("VIOLATION property=%s replay=%s\n", id, path)
		return 1
	}
	fmt.Println("not reproduced")
	return 0
}
