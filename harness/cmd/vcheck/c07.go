package main

// C07 — documents are independent of each other, sequentially and concurrently.
//
//  part S  every merge of two (three) per-document histories is executed on distinct
//          documents; each document's saved package and accessor results must equal
//          those of its own history executed alone as the first thing in a fresh process.
//  part C  schedx: 2-3 goroutines, each building and saving its own document; every
//          schedule with <= 2 preemptions at the instrumented points; same oracle.
//  part R  free-running -race build of the same bodies (detection, not enumeration).

import (
	"archive/zip"
	"bufio"
	"bytes"
	"encoding/json"
	"fmt"
	"io"
	"os"
	"os/exec"
	"path/filepath"
	"sort"
	"strconv"
	"strings"
	"sync"
	"time"

	"github.com/zerx-lab/wordZero/pkg/document"
	"github.com/zerx-lab/wordZero/pkg/style"

	"verif/harness/internal/pkgmodel"
	"verif/harness/internal/rep"
	"verif/harness/internal/schedx"
	"verif/harness/internal/shard"
)

type c07Op struct {
	name string
	f    func(d *document.Document, log *[]string)
}

var c07Ops = []c07Op{
	{"AddParagraph", func(d *document.Document, log *[]string) { d.AddParagraph("p") }},
	{"AddFootnote", func(d *document.Document, log *[]string) { d.AddFootnote("t", "note") }},
	{"AddEndnote", func(d *document.Document, log *[]string) { d.AddEndnote("t", "endnote") }},
	{"AddListItem(bullet)", func(d *document.Document, log *[]string) {
		d.AddListItem("b", &document.ListConfig{Type: document.ListTypeBullet, BulletSymbol: document.BulletTypeDot})
	}},
	{"AddListItem(decimal,start5)", func(d *document.Document, log *[]string) {
		d.AddListItem("n", &document.ListConfig{Type: document.ListTypeDecimal, StartNumber: 5})
	}},
	{"AddHeader", func(d *document.Document, log *[]string) { d.AddHeader(document.HeaderFooterTypeDefault, "h") }},
	{"AddImageFromData", func(d *document.Document, log *[]string) {
		d.AddImageFromData(pngBytes(2, 1, 5), "a.png", document.ImageFormatPNG, 2, 1, nil)
	}},
	{"GetFootnoteCount", func(d *document.Document, log *[]string) {
		*log = append(*log, fmt.Sprintf("count=%d/%d", d.GetFootnoteCount(), d.GetEndnoteCount()))
	}},
	{"RemoveFootnote(1)", func(d *document.Document, log *[]string) {
		*log = append(*log, fmt.Sprintf("remove1=%v", d.RemoveFootnote("1") == nil))
	}},
	{"ToBytes", func(d *document.Document, log *[]string) {
		b, err := d.ToBytes()
		*log = append(*log, fmt.Sprintf("bytes=%v", err == nil && len(b) > 0))
	}},
	{"AddCustomStyle+use", func(d *document.Document, log *[]string) {
		sm := d.GetStyleManager()
		sm.AddStyle(&style.Style{Type: "paragraph", StyleID: "Mine", Name: &style.StyleName{Val: "Mine"}})
		d.AddParagraph("styled").SetStyle("Mine")
		*log = append(*log, fmt.Sprintf("styles=%d", len(sm.GetAllStyles())))
	}},
	{"AddHeader(first)", func(d *document.Document, log *[]string) { d.AddHeader(document.HeaderFooterTypeFirst, "hf") }},
	{"AddFooter(even)", func(d *document.Document, log *[]string) { d.AddFooter(document.HeaderFooterTypeEven, "fe") }},
	{"ModifyNormalStyle(size 30)", func(d *document.Document, log *[]string) {
		if st := d.GetStyleManager().GetStyle("Normal"); st != nil {
			if st.RunPr == nil {
				st.RunPr = &style.RunProperties{}
			}
			st.RunPr.FontSize = &style.FontSize{Val: "60"}
		}
		d.AddParagraph("big")
	}},
	{"FormatExistingRuns(bold,red)", func(d *document.Document, log *[]string) {
		// edit what is already in the document (content inherited from the common source)
		for _, p := range d.Body.GetParagraphs() {
			for i := range p.Runs {
				if p.Runs[i].Properties == nil {
					p.Runs[i].Properties = &document.RunProperties{}
				}
				p.Runs[i].Properties.Bold = &document.Bold{}
				p.Runs[i].Properties.Color = &document.Color{Val: "FF0000"}
			}
			break
		}
	}},
	{"ResizeExistingDrawings", func(d *document.Document, log *[]string) {
		for _, p := range d.Body.GetParagraphs() {
			for i := range p.Runs {
				if dr := p.Runs[i].Drawing; dr != nil && dr.Inline != nil && dr.Inline.Extent != nil {
					dr.Inline.Extent.Cx = "123456"
				}
			}
		}
	}},
	{"AddImageFromData(jpeg)", func(d *document.Document, log *[]string) {
		d.AddImageFromData(jpegBytes(4, 2, 6), "b.jpg", document.ImageFormatJPEG, 4, 2, nil)
	}},
	{"AddImageFromData(gif)", func(d *document.Document, log *[]string) {
		d.AddImageFromData(gifBytes(3, 3, 7), "c.gif", document.ImageFormatGIF, 3, 3, nil)
	}},
	// pictures read from one path whose file is rewritten by the caller before each call (another picture per operation)
	{"AddImageFromFile(shared path <- png 2x1)", func(d *document.Document, log *[]string) {
		os.WriteFile(c07SharedPath(), pngBytes(2, 1, 31), 0o644)
		if info, err := d.AddImageFromFile(c07SharedPath(), nil); err == nil && info != nil {
			*log = append(*log, fmt.Sprintf("img=%dx%d", info.Width, info.Height))
		}
	}},
	{"AddImageFromFile(shared path <- png 3x2)", func(d *document.Document, log *[]string) {
		os.WriteFile(c07SharedPath(), pngBytes(3, 2, 32), 0o644)
		if info, err := d.AddImageFromFile(c07SharedPath(), nil); err == nil && info != nil {
			*log = append(*log, fmt.Sprintf("img=%dx%d", info.Width, info.Height))
		}
	}},
	// ONE properties struct the caller owns and refills for every document it labels
	{"SetDocumentProperties(caller's one struct <- Title T1, Keywords K1)", func(d *document.Document, log *[]string) {
		*c07Props = document.DocumentProperties{Title: "T1", Keywords: "K1", Creator: "C", Created: time.Unix(1700000000, 0).UTC(), LastModified: time.Unix(1700000100, 0).UTC()}
		d.SetDocumentProperties(c07Props)
	}},
	{"SetDocumentProperties(caller's one struct <- Title T2, Subject S2)", func(d *document.Document, log *[]string) {
		*c07Props = document.DocumentProperties{Title: "T2", Subject: "S2", Creator: "C", Created: time.Unix(1700000000, 0).UTC(), LastModified: time.Unix(1700000100, 0).UTC()}
		d.SetDocumentProperties(c07Props)
	}},
	{"SetAuthor(A) + GetDocumentProperties", func(d *document.Document, log *[]string) {
		d.SetAuthor("A")
		if p, err := d.GetDocumentProperties(); err == nil && p != nil {
			*log = append(*log, fmt.Sprintf("props=%s/%s/%s/%s", p.Title, p.Subject, p.Keywords, p.Creator))
		}
	}},
}

var c07Props = &document.DocumentProperties{}

// c07SharedPath is a file path private to this process (parallel shard processes must not share it).
func c07SharedPath() string {
	return filepath.Join(os.TempDir(), fmt.Sprintf("vcheck-c07-shared-%d.png", os.Getpid()))
}

// Document origins: distinct documents may descend from a common source.
//
//	0 new       document.New()
//	1 opened    OpenFromMemory of the same bytes (a library-built package with header, footer and picture)
//	2 rendered  RenderTemplateToDocument from one shared template whose base document has those three relationships
var c07OriginNames = []string{"new", "opened", "rendered", "new(files)"}

// alphabets per origin (indices into c07Ops)
var c07Alphabet = [][]int{
	{0, 1, 2, 3, 4, 5, 6, 7, 8, 9, 10, 13},
	{0, 1, 3, 6, 10, 11, 16, 17, 14, 15},
	{0, 1, 3, 6, 13, 11, 16, 17, 14, 15},
	{0, 9, 18, 19, 20, 21, 22}, // origin 3: new documents, pictures from one rewritten path, one properties struct refilled per document (sequential part only)
}

func c07BaseDoc() *document.Document {
	d := document.New()
	d.AddFormattedParagraph("static", &document.TextFormat{Italic: true, FontSize: 11}) // a formatted run without placeholder: cloned as is by rendering
	d.AddParagraph("base {{v}}")
	d.AddHeader(document.HeaderFooterTypeDefault, "H")
	d.AddFooter(document.HeaderFooterTypeDefault, "F")
	d.AddImageFromData(pngBytes(3, 2, 77), "base.png", document.ImageFormatPNG, 3, 2, nil)
	return d
}

// c07Source prepares the common source of an execution and returns a constructor of documents.
func c07Source(origin int) func() *document.Document {
	switch origin {
	case 1:
		b, err := c07BaseDoc().ToBytes()
		if err != nil {
			panic(err)
		}
		return func() *document.Document {
			d, errS := reopen(b)
			if errS != "" {
				panic("c07: base does not reopen: " + errS)
			}
			return d
		}
	case 2:
		eng := document.NewTemplateEngine()
		if _, err := eng.LoadTemplateFromDocument("t", c07BaseDoc()); err != nil {
			panic(err)
		}
		return func() *document.Document {
			data := document.NewTemplateData()
			data.SetVariable("v", "V")
			d, err := eng.RenderTemplateToDocument("t", data)
			if err != nil || d == nil {
				panic(fmt.Sprint("c07: render failed: ", err))
			}
			return d
		}
	}
	return document.New
}

type c07Result struct {
	Parts map[string]string `json:"parts"` // part name -> hash of canonical content
	Log   string            `json:"log"`
	Err   string            `json:"err,omitempty"`
}

func c07Finish(d *document.Document, log []string) c07Result {
	r := c07Result{Parts: map[string]string{}, Log: strings.Join(log, ";")}
	var b []byte
	var err error
	if p := guard(func() { b, err = d.ToBytes() }); p != "" {
		r.Err = "panic: " + p
		return r
	}
	if err != nil {
		r.Err = "error: " + err.Error()
		return r
	}
	parts, zerr := fastCanonParts(b)
	if zerr != "" {
		r.Err = "unreadable: " + zerr
		return r
	}
	r.Parts = parts
	for k, v := range docFacets(b) {
		r.Parts[k] = v
	}
	return r
}

func c07RunHistory(origin int, h []int) c07Result {
	var mk func() *document.Document
	if p := guard(func() { mk = c07Source(origin) }); p != "" {
		return c07Result{Err: "panic: " + p}
	}
	return c07RunHistoryOn(mk, h)
}

func c07RunHistoryOn(mk func() *document.Document, h []int) c07Result {
	var d *document.Document
	var log []string
	if p := guard(func() {
		d = mk()
		for _, o := range h {
			schedx.Yield("before-op") // no effect outside a schedule exploration
			c07Ops[o].f(d, &log)
		}
		schedx.Yield("before-save")
	}); p != "" {
		return c07Result{Err: "panic: " + p}
	}
	return c07Finish(d, log)
}

func c07Key(origin int, h []int) string { return fmt.Sprintf("o%d:%s", origin, c07HistKey(h)) }

func c07HistKey(h []int) string {
	s := make([]string, len(h))
	for i, o := range h {
		s[i] = strconv.Itoa(o)
	}
	return strings.Join(s, ",")
}

func c07HistNames(h []int) []string {
	out := make([]string, len(h))
	for i, o := range h {
		out[i] = c07Ops[o].name
	}
	return out
}

func c07Histories(origin, maxLen int) [][]int {
	out := [][]int{{}}
	last := [][]int{{}}
	for l := 1; l <= maxLen; l++ {
		var next [][]int
		for _, h := range last {
			for _, o := range c07Alphabet[origin] {
				next = append(next, append(append([]int{}, h...), o))
			}
		}
		out = append(out, next...)
		last = next
	}
	return out
}

// c07SoloChild: executed in a FRESH process as the first library activity: the history alone.
func c07SoloChild() bool {
	s, ok := os.LookupEnv("VCHECK_C07_SOLO")
	if !ok {
		return false
	}
	out := bufio.NewWriter(os.Stdout)
	enc := json.NewEncoder(out)
	for _, hs := range strings.Split(s, ";") { // normally exactly one history per process
		var h []int
		origin := 0
		if i := strings.Index(hs, ":"); i > 0 {
			origin, _ = strconv.Atoi(hs[1:i])
			hs = hs[i+1:]
		}
		for _, x := range strings.Split(hs, ",") {
			if x != "" {
				v, _ := strconv.Atoi(x)
				h = append(h, v)
			}
		}
		enc.Encode(c07RunHistory(origin, h))
	}
	out.Flush()
	os.Exit(0)
	return true
}

// c07Baselines runs every history alone in its own fresh process.
type c07Item struct {
	origin int
	h      []int
}

func c07Baselines(hs []c07Item) (map[string]c07Result, error) {
	exe, _ := os.Executable()
	out := map[string]c07Result{}
	var mu sync.Mutex
	var firstErr error
	ch := make(chan c07Item, len(hs))
	for _, h := range hs {
		ch <- h
	}
	close(ch)
	var wg sync.WaitGroup
	for w := 0; w < 16; w++ {
		wg.Add(1)
		go func() {
			defer wg.Done()
			for h := range ch {
				cmd := exec.Command(exe)
				cmd.Env = append(os.Environ(), "VCHECK_C07_SOLO="+c07Key(h.origin, h.h))
				b, err := cmd.Output()
				var r c07Result
				if err == nil {
					err = json.Unmarshal(b, &r)
				}
				mu.Lock()
				if err != nil && firstErr == nil {
					firstErr = fmt.Errorf("solo run of %s %v: %v", c07OriginNames[h.origin], c07HistNames(h.h), err)
				}
				out[c07Key(h.origin, h.h)] = r
				mu.Unlock()
			}
		}()
	}
	wg.Wait()
	return out, firstErr
}

func c07PartClass(n string) string {
	switch {
	case strings.HasPrefix(n, "word/media/"):
		return "word/media/*"
	case strings.HasPrefix(n, "word/header"), strings.HasPrefix(n, "word/footer"):
		return "word/header|footer*"
	}
	return n
}

// c07Diff names what differs between a document's result and its solo baseline.
func c07Diff(got, want c07Result) []string {
	var out []string
	if got.Err != want.Err {
		out = append(out, "save-outcome")
	}
	if got.Log != want.Log {
		// name the accessor that differs
		g, w := strings.Split(got.Log, ";"), strings.Split(want.Log, ";")
		cul := "accessor"
		for i := 0; i < len(g) && i < len(w); i++ {
			if g[i] != w[i] {
				cul = "accessor:" + strings.SplitN(w[i], "=", 2)[0]
				break
			}
		}
		out = append(out, cul)
	}
	seen := map[string]bool{}
	for n, h := range want.Parts {
		if got.Parts[n] != h {
			seen[c07PartClass(n)] = true
		}
	}
	// the main part is named by the facet that differs (text, run properties, drawings, ...) when one does
	facet := false
	for k := range seen {
		if strings.HasPrefix(k, "word/document.xml#") {
			facet = true
		}
	}
	if facet {
		delete(seen, "word/document.xml")
	}
	for n := range got.Parts {
		if _, ok := want.Parts[n]; !ok {
			seen[c07PartClass(n)+"(extra)"] = true
		}
	}
	for k := range seen {
		out = append(out, k)
	}
	sort.Strings(out)
	return out
}

type c07Args struct {
	MaxA, MaxB int
	Triples    bool
	BaseFile   string
	SchedBound int
	Threads3   bool
	MaxExec    int64
}

func c07LoadBase(path string) map[string]c07Result {
	b, err := os.ReadFile(path)
	if err != nil {
		panic(err)
	}
	m := map[string]c07Result{}
	if err := json.Unmarshal(b, &m); err != nil {
		panic(err)
	}
	return m
}

// merges enumerates all interleavings of sequences with the given lengths; who[i] = document index of step i.
func c07Merges(lens []int, f func(who []int)) {
	total := 0
	for _, l := range lens {
		total += l
	}
	who := make([]int, 0, total)
	left := append([]int{}, lens...)
	var rec func()
	rec = func() {
		if len(who) == total {
			f(who)
			return
		}
		for d := range left {
			if left[d] > 0 {
				left[d]--
				who = append(who, d)
				rec()
				who = who[:len(who)-1]
				left[d]++
			}
		}
	}
	rec()
}

func c07RunMerged(origin int, hs [][]int, who []int) []c07Result {
	n := len(hs)
	docs := make([]*document.Document, n)
	logs := make([][]string, n)
	pos := make([]int, n)
	res := make([]c07Result, n)
	pan := guard(func() {
		mk := c07Source(origin)
		for i := range docs {
			docs[i] = mk()
		}
		for _, d := range who {
			c07Ops[hs[d][pos[d]]].f(docs[d], &logs[d])
			pos[d]++
		}
	})
	if pan != "" {
		for i := range res {
			res[i] = c07Result{Err: "panic: " + pan}
		}
		return res
	}
	for i := range docs {
		res[i] = c07Finish(docs[i], logs[i])
	}
	return res
}

func init() {
	shard.Register("C07seq", func(c *shard.Ctx) {
		var a c07Args
		json.Unmarshal(c.Args, &a)
		base := c07LoadBase(a.BaseFile)
		idx := int64(0)
		origin := 0
		judge := func(idx int64, hs [][]int, who []int) {
			P := c.P
			res := c07RunMerged(origin, hs, who)
			P.Evals++
			P.Transitions += int64(len(who))
			P.Traces++
			key := c07OriginNames[origin] + "/"
			for _, h := range hs {
				key += c07HistKey(h) + "/"
			}
			key += fmt.Sprint(who)
			P.Keys = append(P.Keys, rep.Hash(key))
			inter := false
			for i := 1; i < len(who); i++ {
				if who[i] != who[i-1] {
					inter = true
				}
			}
			if inter {
				P.Nontrivial = append(P.Nontrivial, rep.Hash(key))
			}
			for d, h := range hs {
				want, ok := base[c07Key(origin, h)]
				if !ok {
					P.HarnessErrs = append(P.HarnessErrs, "no baseline for "+c07Key(origin, h))
					return
				}
				diff := c07Diff(res[d], want)
				if len(diff) == 0 {
					P.Outcome("independent")
					continue
				}
				P.Outcome("differs:" + strings.Join(diff, "+"))
				names := make([][]string, len(hs))
				for i, hh := range hs {
					names[i] = c07HistNames(hh)
				}
				for _, cul := range diff {
					P.Violate(rep.Violation{Sig: "sequential-dependence|" + cul + "|" + c07OriginNames[origin], Clause: "sequential independence", Depth: len(who),
						What: fmt.Sprintf("%s document %d (history %v) differs from the same history run alone in %s when other documents are worked on in between (histories %v, order %v)", c07OriginNames[origin], d, c07HistNames(h), cul, names, who),
						Case: shardCase(c, "C07seq", idx, map[string]interface{}{"origin": c07OriginNames[origin], "histories": names, "order_by_document": who})})
				}
			}
			if len(P.Samples) < 3 && len(who) >= 3 && inter {
				names := make([][]string, len(hs))
				for i, hh := range hs {
					names[i] = c07HistNames(hh)
				}
				P.Samples = append(P.Samples, map[string]interface{}{"part": "sequential merges", "origin": c07OriginNames[origin], "histories": names, "order_by_document": append([]int{}, who...)})
			}
		}
		for origin = 0; origin < len(c07OriginNames); origin++ {
			hA := c07Histories(origin, a.MaxA)
			hB := c07Histories(origin, a.MaxB)
			for ia, ha := range hA {
				for ib, hb := range hB {
					if len(ha) == 0 && len(hb) == 0 {
						continue
					}
					// both documents have the same origin, so (ha,hb) and (hb,ha) have mirror-image merges: one of them is enough
					if ib < ia && ib < len(hA) && ia < len(hB) {
						continue
					}
					hs := [][]int{ha, hb}
					c07Merges([]int{len(ha), len(hb)}, func(who []int) {
						my := c.Begin(idx, nil)
						idx++
						if my {
							judge(idx-1, hs, append([]int{}, who...))
						}
					})
				}
			}
		}
		origin = 0
		if a.Triples {
			one := c07Histories(0, 1)[1:]
			two := c07Histories(0, 2)[1:]
			for _, ha := range two {
				for _, hb := range one {
					for _, hc := range one {
						hs := [][]int{ha, hb, hc}
						c07Merges([]int{len(ha), 1, 1}, func(who []int) {
							my := c.Begin(idx, nil)
							idx++
							if my {
								judge(idx-1, hs, append([]int{}, who...))
							}
						})
					}
				}
			}
		}
	})
	shard.Register("C07sched", c07SchedWorker)
	register("C07", "model_checking", runC07)
}

// ---- part C: schedules

// thread bodies: short histories that touch everything a document owns
var c07Bodies = [][]int{
	{1},      // AddFootnote
	{3},      // AddListItem(bullet)
	{1, 3},   // AddFootnote, AddListItem
	{2, 9},   // AddEndnote, ToBytes
	{4, 1},   // AddListItem(decimal), AddFootnote
	{6, 5},   // image, header
	{10, 0},  // custom style, paragraph
	{1, 8},   // AddFootnote, RemoveFootnote(1)
	{17, 11}, // gif image, header(first)      (bodies 8.. are also run on documents rendered from one shared template)
	{16, 3},  // jpeg image, list item
	{13, 9},  // modify the Normal style, ToBytes
}

// a scheduling scenario: the origin of the documents and the body of each thread
type c07Scenario struct {
	Origin int
	Bodies []int
}

func c07Scenarios(three bool) []c07Scenario {
	var out []c07Scenario
	n := 8 // bodies 8, 9 use operations of the shared-source alphabet only
	out = append(out, c07Scenario{0, []int{10, 10}}, c07Scenario{0, []int{10, 0}}, c07Scenario{0, []int{10, 6}})
	for i := 0; i < n; i++ {
		for j := i; j < n; j++ {
			out = append(out, c07Scenario{0, []int{i, j}})
		}
	}
	// documents descending from one shared source: bodies over the reduced alphabet only
	shared := []int{0, 1, 2, 8, 9}
	for _, origin := range []int{1, 2} {
		for x, i := range shared {
			for _, j := range shared[x:] {
				out = append(out, c07Scenario{origin, []int{i, j}})
			}
		}
	}
	if three {
		for i := 0; i < 5; i++ {
			for j := i; j < 5; j++ {
				for k := j; k < 5; k++ {
					out = append(out, c07Scenario{0, []int{i, j, k}})
				}
			}
		}
		for x, i := range shared {
			for y, j := range shared[x:] {
				for _, k := range shared[x+y:] {
					out = append(out, c07Scenario{2, []int{i, j, k}})
				}
			}
		}
	}
	return out
}

func c07SchedWorker(c *shard.Ctx) {
	var a c07Args
	json.Unmarshal(c.Args, &a)
	base := c07LoadBase(a.BaseFile)
	schedx.Install()
	scs := c07Scenarios(a.Threads3)
	for si, sc := range scs {
		idx := int64(si)
		if !c.Begin(idx, func() interface{} { return sc }) {
			continue
		}
		P := c.P
		names := make([][]string, len(sc.Bodies))
		for i, b := range sc.Bodies {
			names[i] = append([]string{"origin:" + c07OriginNames[sc.Origin]}, c07HistNames(c07Bodies[b])...)
		}
		results := make([]c07Result, len(sc.Bodies))
		scenario := func() ([]func(), func(r *schedx.Result)) {
			mk := c07Source(sc.Origin) // the common source is built before the threads start
			bodies := make([]func(), len(sc.Bodies))
			for i, b := range sc.Bodies {
				i, b := i, b
				bodies[i] = func() { results[i] = c07RunHistoryOn(mk, c07Bodies[b]) }
			}
			return bodies, nil
		}
		outcomes := map[string]bool{}
		onExec := func(r *schedx.Result) {
			P.Evals++
			P.Traces++
			P.Transitions += int64(len(r.Points))
			sig := ""
			if r.Deadlock || r.Horizon || r.Hang {
				kind := map[bool]string{true: "deadlock", false: "no-termination"}[r.Deadlock]
				P.Violate(rep.Violation{Sig: "schedule|" + kind, Clause: "concurrent independence", What: fmt.Sprintf("threads %v: %s under schedule %v", names, kind, r.Choices),
					Case: shardCase(c, "C07sched", idx, map[string]interface{}{"threads": names, "schedule": r.Choices})})
				return
			}
			for t := range sc.Bodies {
				want, ok := base[c07Key(sc.Origin, c07Bodies[sc.Bodies[t]])]
				if !ok {
					P.HarnessErrs = append(P.HarnessErrs, "no baseline for "+c07Key(sc.Origin, c07Bodies[sc.Bodies[t]]))
					return
				}
				got := results[t]
				if p, ok := r.Panics[t]; ok {
					got = c07Result{Err: "panic: " + p}
				}
				diff := c07Diff(got, want)
				sig += strings.Join(diff, "+") + "/"
				for _, cul := range diff {
					P.Violate(rep.Violation{Sig: "concurrent-dependence|" + cul + "|" + c07OriginNames[sc.Origin], Clause: "concurrent independence", Depth: len(r.Choices),
						What: fmt.Sprintf("thread %d (%v) produced a document that differs from the one it produces alone in %s; threads %v, schedule (choice per point) %v", t, names[t], cul, names, r.Choices),
						Case: shardCase(c, "C07sched", idx, map[string]interface{}{"threads": names, "schedule": r.Choices})})
				}
			}
			outcomes[sig] = true
		}
		st := exploreTiers(scenario, a.MaxExec, c.Heartbeat, a.Threads3, onExec, P, fmt.Sprint(names))
		for o := range outcomes {
			P.Outcome("sched:" + o)
		}
		key := fmt.Sprint(sc)
		P.Keys = append(P.Keys, "sched:"+key)
		if st.Branching > 0 {
			P.Nontrivial = append(P.Nontrivial, "sched:"+key)
		}
		P.Add("schedules_executed", st.Executions)
		P.Add("scheduling_points_total", st.Points)
		P.Add("branching_points_total", st.Branching)
		if int64(st.MaxPoints) > P.Extra["max_points_in_one_execution"] {
			P.Extra["max_points_in_one_execution"] = int64(st.MaxPoints)
		}
		if st.Incomplete {
			P.Incomplete = true
			P.Notes = append(P.Notes, fmt.Sprintf("scenario %v: exploration stopped after %d schedules (cap hit: %v; preemption bound completed: %d) %v", names, st.Executions, st.Capped, st.BoundDone, st.Divergences))
		}
		for _, d := range st.Divergences {
			P.HarnessErrs = append(P.HarnessErrs, "schedule replay divergence in scenario "+key+": "+d)
		}
		if len(P.Samples) < 2 {
			P.Samples = append(P.Samples, map[string]interface{}{"part": "schedules", "threads": names, "schedules_executed": st.Executions, "max_points": st.MaxPoints, "distinct_outcomes": len(outcomes)})
		}
	}
}

// ---- part R: race pass (runs in the -race build)

func c07RaceBodies() []func() {
	var out []func()
	for _, b := range c07Bodies {
		b := b
		out = append(out, func() { c07RunHistory(0, b) })
	}
	// distinct documents descending from one shared source (opened from the same bytes, rendered from one template)
	for _, origin := range []int{1, 2} {
		mk := c07Source(origin)
		for _, bi := range []int{0, 2, 8, 9} {
			b := c07Bodies[bi]
			out = append(out, func() { c07RunHistoryOn(mk, b) })
		}
	}
	// bodies that touch no note/numbering registry at all
	out = append(out, func() {
		d := document.New()
		d.AddHeadingParagraph("h", 1)
		t, _ := d.AddTable(&document.TableConfig{Rows: 2, Cols: 2, Width: 4000})
		if t != nil {
			t.SetCellText(0, 0, "x")
		}
		d.SetPageMargins(10, 10, 10, 10)
		d.ToBytes()
	})
	return out
}

// racePairs runs the given pairs of bodies concurrently, both goroutines released from one start channel.
func racePairs(pairs [][2]func()) {
	for _, pair := range pairs {
		start := make(chan struct{})
		done := make([]chan struct{}, 2)
		for k, f := range pair {
			done[k] = make(chan struct{})
			go func(f func(), d chan struct{}) {
				<-start
				f()
				close(d)
			}(f, done[k])
		}
		close(start)
		for _, d := range done {
			<-d
		}
	}
}

// raceWide runs the wide API bodies (c07_wide.go): sequential warm-up, then every body against itself
// and against every other body.
func raceWide(reps int) {
	wide := c07WideBodies()
	defer os.RemoveAll(c07WideTemp())
	warm := 12
	if os.Getenv("VCHECK_TIER") == "thorough" {
		warm = 60
	}
	for i := 0; i < warm; i++ {
		for _, b := range wide {
			guard(b)
		}
	}
	var pairs [][2]func()
	for rp := 0; rp < reps; rp++ {
		for i := range wide {
			for j := i; j < len(wide); j++ {
				a, b := wide[i], wide[j]
				pairs = append(pairs, [2]func(){func() { guard(a) }, func() { guard(b) }})
			}
		}
	}
	racePairs(pairs)
}

// racePassChild runs `bodies` pairwise concurrently in a free-running process (race build).
func racePassChild(bodies []func(), reps int) {
	defer raceWide(reps)
	// warm-up: the encoding/xml and reflect caches must be quiescent, otherwise their internal locks order the accesses
	warm, allPairs := 200, true
	if os.Getenv("VCHECK_TIER") != "thorough" {
		warm, allPairs = 50, false
		// quick: every third body (the bodies are ordered so that this keeps note, list, image, style and shared-source bodies)
		var sub []func()
		for i, b := range bodies {
			if i%3 == 0 || i >= len(bodies)-4 {
				sub = append(sub, b)
			}
		}
		bodies = sub
	}
	for i := 0; i < warm; i++ {
		for _, b := range bodies {
			b()
		}
	}
	for rp := 0; rp < reps; rp++ {
		for i := range bodies {
			for j := i; j < len(bodies); j++ {
				if !allPairs && j != i && j != i+1 && !(i == 0 && j == len(bodies)-1) {
					continue // quick: every body against itself and against its ring neighbours
				}
				pair := []func(){bodies[i], bodies[j]}
				if rp%2 == 1 {
					pair[0], pair[1] = pair[1], pair[0]
				}
				start := make(chan struct{})
				done := make([]chan struct{}, len(pair))
				for k, f := range pair {
					done[k] = make(chan struct{})
					go func(f func(), d chan struct{}) {
						<-start
						f()
						close(d)
					}(f, done[k])
				}
				close(start)
				for _, d := range done {
					<-d
				}
			}
		}
	}
}

// parseRaces extracts race reports from a -race binary's stderr: one culprit per report =
// the library functions of the two conflicting accesses.
func parseRaces(stderr string) map[string]string {
	out := map[string]string{}
	blocks := strings.Split(stderr, "WARNING: DATA RACE")
	for _, b := range blocks[1:] {
		if i := strings.Index(b, "=================="); i >= 0 {
			b = b[:i]
		}
		// sections: "Write at ... by goroutine N:" / "Previous read at ... by goroutine M:"; first library frame of each
		var funcs []string
		secs := strings.Split(b, "\n\n")
		for _, s := range secs {
			head := strings.TrimSpace(s)
			if !(strings.HasPrefix(head, "Write at") || strings.HasPrefix(head, "Read at") || strings.HasPrefix(head, "Previous write at") || strings.HasPrefix(head, "Previous read at")) {
				continue
			}
			lines := strings.Split(s, "\n")
			fn := "caller-code"
			for _, l := range lines {
				l = strings.TrimSpace(l)
				if strings.HasPrefix(l, "github.com/zerx-lab/wordZero/pkg/") {
					fn = strings.TrimPrefix(l, "github.com/zerx-lab/wordZero/pkg/")
					if k := strings.Index(fn, "("); k > 0 && strings.HasSuffix(fn, ")") {
						// strip the argument list "()" at the end only
						fn = strings.TrimSuffix(fn, "()")
					}
					break
				}
			}
			funcs = append(funcs, fn)
		}
		sort.Strings(funcs)
		key := strings.Join(funcs, " <-> ")
		if _, ok := out[key]; !ok {
			out[key] = strings.TrimSpace(b)
		}
	}
	if strings.Contains(stderr, "concurrent map") {
		out["runtime: concurrent map access"] = firstLines(stderr[strings.Index(stderr, "concurrent map"):], 12)
	}
	return out
}

// runRacePass builds nothing: it executes build/vcheck-race (built by bin/build when VERIF_RACE=1) as a child.
func runRacePass(r *rep.Run, id string, what string) {
	exe := filepath.Join(rep.VerifDir, "build", "vcheck-race")
	if _, err := os.Stat(exe); err != nil {
		r.P.HarnessErrs = append(r.P.HarnessErrs, "race binary missing (bin/build with VERIF_RACE=1): "+err.Error())
		return
	}
	cmd := exec.Command(exe)
	cmd.Env = append(os.Environ(), "VCHECK_RACEPASS="+id, "VCHECK_TIER="+r.Tier, "GORACE=history_size=7 exitcode=0 halt_on_error=0")
	var errb strings.Builder
	cmd.Stderr = &errb
	t0 := time.Now()
	err := cmd.Run()
	races := parseRaces(errb.String())
	q := rep.NewPartial()
	q.Add("race_pass_ms", time.Since(t0).Milliseconds())
	q.Add("race_reports_distinct", int64(len(races)))
	if err != nil && len(races) == 0 {
		q.HarnessErrs = append(q.HarnessErrs, "race pass child failed: "+err.Error()+": "+firstLines(errb.String(), 6))
	}
	for k, v := range races {
		q.Violate(rep.Violation{Sig: "data-race|" + k, Clause: "data-race freedom (race detector, free-running build)", What: what + ": " + firstLines(v, 14),
			Case: map[string]interface{}{"how": "build/vcheck-race with VCHECK_RACEPASS=" + id, "report": v}})
	}
	q.Outcome(fmt.Sprintf("race-pass:%d-reports", len(races)))
	r.Merge(q)
}

func racePassMain() bool {
	id := os.Getenv("VCHECK_RACEPASS")
	switch id {
	case "":
		return false
	case "C07":
		racePassChild(c07RaceBodies(), map[bool]int{true: 6, false: 2}[os.Getenv("VCHECK_TIER") == "thorough"])
	case "C17":
		c17RacePass()
	}
	os.Exit(0)
	return true
}

func runC07(r *rep.Run) {
	maxA, maxB, bound := 2, 2, 2
	three := false
	if r.Tier == "thorough" {
		maxA, maxB, three = 3, 2, true
	}
	r.Rule = "documents of three origins (new; opened from the same bytes; rendered from one shared template); part S: all pairs of per-document histories over the origin's alphabet (12 / 10 / 10 / 4 operations, see bounds; the fourth family are new documents that read pictures from one path the caller rewrites) (lengths <= bounds) and ALL merges of the two sequences, executed on distinct documents in one process; part C: every schedule with <= 2 preemptions of 2 (thorough: 3) goroutines each building and saving its own document, scheduling points = every statement of every function that touches a mutable package-level variable or calls such a function, and every lock operation; oracle for both: each document's canonical package (per part) and accessor results equal those of its own history executed alone as the first activity of a fresh process; part R: the same bodies pairwise in a free-running -race build after 200 sequential warm-ups (race detector = detection only); non-trivial = a merge in which the documents alternate / a scenario with at least one branching scheduling point"
	r.Bounds["ops"] = len(c07Ops)
	r.Bounds["origins"] = c07OriginNames
	r.Bounds["alphabet_per_origin"] = []int{len(c07Alphabet[0]), len(c07Alphabet[1]), len(c07Alphabet[2]), len(c07Alphabet[3])}
	r.Bounds["max_history_len_A"] = maxA
	r.Bounds["max_history_len_B"] = maxB
	r.Bounds["third_document"] = three
	r.Bounds["preemption_bound"] = map[string]int{"statement-level points": 1, "lock operations and function entries": 2}
	r.Bounds["threads"] = map[bool]int{false: 2, true: 3}[three]
	r.Assume = []string{
		"between two scheduling points a thread runs alone (sequential consistency at instrumented granularity); unsynchronised accesses are looked for separately by the race detector, which detects but does not enumerate",
		"the logger (process-wide configuration by design) is not a scheduling point",
	}
	dir, err := os.MkdirTemp("", "vcheck-c07-")
	if err != nil {
		r.P.HarnessErrs = append(r.P.HarnessErrs, err.Error())
		return
	}
	defer os.RemoveAll(dir)
	var hs []c07Item
	for origin := range c07OriginNames {
		for _, h := range c07Histories(origin, maxA) {
			hs = append(hs, c07Item{origin, h})
		}
	}
	t0 := time.Now()
	base, err := c07Baselines(hs)
	r.P.Add("baselines_ms", time.Since(t0).Milliseconds())
	if err != nil {
		r.P.HarnessErrs = append(r.P.HarnessErrs, err.Error())
		return
	}
	// determinism of the baseline itself: the empty and a rich history twice
	again, _ := c07Baselines([]c07Item{{0, nil}, {0, []int{1, 3}}, {2, []int{11, 6}}})
	for k, v := range again {
		if len(c07Diff(v, base[k])) != 0 {
			r.P.HarnessErrs = append(r.P.HarnessErrs, "solo baseline not reproducible for history "+k)
			return
		}
	}
	bf := filepath.Join(dir, "base.json")
	bb, _ := json.Marshal(base)
	os.WriteFile(bf, bb, 0o644)
	r.P.Add("solo_baselines_fresh_processes", int64(len(base)))
	maxExec := int64(4000)
	if r.Tier == "thorough" {
		maxExec = 60000
	}
	r.Bounds["max_schedules_per_scenario"] = maxExec
	args := c07Args{MaxA: maxA, MaxB: maxB, Triples: three, BaseFile: bf, SchedBound: bound, Threads3: three, MaxExec: maxExec}
	t1 := time.Now()
	runShards(r, "C07seq", args, 120*time.Second, nil)
	r.P.Add("part_S_ms", time.Since(t1).Milliseconds())
	if r.OutOfTime() {
		return
	}
	t1 = time.Now()
	runShards(r, "C07sched", args, 300*time.Second, nil)
	r.P.Add("part_C_ms", time.Since(t1).Milliseconds())
	// instrumentation report: which functions carry points in this tree
	if b, err := os.ReadFile(filepath.Join(rep.VerifDir, "build", "instrument.json")); err == nil {
		var ir map[string]interface{}
		if json.Unmarshal(b, &ir) == nil {
			r.Bounds["instrumentation"] = ir
		}
	}
	runRacePass(r, "C07", "two goroutines working on distinct documents")
}

var facetCache = map[string]map[string]string{}

// docFacets hashes aspects of the main part separately so that a difference can be named:
// text, run properties, paragraph properties, drawings, section properties, element skeleton.
func docFacets(pkgBytes []byte) map[string]string {
	zr, err := zip.NewReader(bytes.NewReader(pkgBytes), int64(len(pkgBytes)))
	if err != nil {
		return nil
	}
	for _, f := range zr.File {
		if f.Name != "word/document.xml" {
			continue
		}
		rc, err := f.Open()
		if err != nil {
			return nil
		}
		raw, _ := io.ReadAll(rc)
		rc.Close()
		key := rep.Hash(string(raw))
		if m, ok := facetCache[key]; ok {
			return m
		}
		root, probs := pkgmodel.ParseXML(raw)
		if root == nil || len(probs) > 0 {
			return nil
		}
		acc := map[string]*strings.Builder{"text": {}, "rPr": {}, "pPr": {}, "drawing": {}, "sectPr": {}, "skeleton": {}}
		var walk func(n *pkgmodel.Node, inDrawing bool)
		walk = func(n *pkgmodel.Node, inDrawing bool) {
			if n.IsText {
				return
			}
			switch {
			case n.Local == "drawing":
				acc["drawing"].WriteString(pkgmodel.Canon(n, nil))
				return
			case n.Local == "rPr" && n.Space == pkgmodel.NsW:
				acc["rPr"].WriteString(pkgmodel.Canon(n, nil) + ";")
				return
			case n.Local == "pPr" && n.Space == pkgmodel.NsW:
				acc["pPr"].WriteString(pkgmodel.Canon(n, nil) + ";")
				return
			case n.Local == "sectPr" && n.Space == pkgmodel.NsW:
				acc["sectPr"].WriteString(pkgmodel.Canon(n, nil) + ";")
				return
			case n.Local == "t" && n.Space == pkgmodel.NsW:
				acc["text"].WriteString(n.InnerText() + "\x00")
				return
			}
			acc["skeleton"].WriteString("<" + n.Local)
			for _, k := range n.Elems() {
				walk(k, inDrawing)
			}
			acc["skeleton"].WriteString(">")
		}
		walk(root, false)
		m := map[string]string{}
		for k, b := range acc {
			m["word/document.xml#"+k] = rep.Hash(b.String())
		}
		if len(facetCache) < 100000 {
			facetCache[key] = m
		}
		return m
	}
	return nil
}
