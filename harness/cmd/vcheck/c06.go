// C06 — opening never crashes or hangs, whatever the input bytes; a successfully opened
// document works (reading accessors, editing, saving do not panic) and re-saves to a package
// whose regenerated main part is well-formed.
//
// Engine: shard (every case runs in a worker subprocess; a case that kills the worker — fatal
// stack overflow, out of memory — or keeps it busy beyond the watchdog is a crash/hang event).
// Files: c06.go (runner, worker, case execution, oracle), c06_gen.go (input generators),
// c06_battery.go (the fixed battery run on every distinct opened state).
package main

import (
	"archive/zip"
	"bytes"
	"crypto/sha256"
	"encoding/hex"
	"encoding/json"
	"errors"
	"fmt"
	"go/ast"
	"go/parser"
	"go/token"
	"io"
	"os"
	"path/filepath"
	"reflect"
	"runtime/debug"
	"runtime/metrics"
	"runtime/pprof"
	"sort"
	"strconv"
	"strings"
	"sync/atomic"
	"time"

	"github.com/zerx-lab/wordZero/pkg/document"

	"verif/harness/internal/pkgmodel"
	"verif/harness/internal/rep"
	"verif/harness/internal/shard"
)

// ---------------------------------------------------------------------------
// vocabulary of the reader

// c06VocabBuiltin is the element vocabulary read off document.go by hand (every local name in a
// `case "..."` label or `Name.Local == "..."` comparison of the parse* functions).  The list used
// in a run is the union of this list and what c06ExtractVocab finds in the current source tree.
var c06VocabBuiltin = []string{
	"document", "body", "p", "tbl", "sectPr", "pPr", "r", "pStyle", "spacing", "jc", "ind", "keepNext", "keepLines",
	"pageBreakBefore", "widowControl", "snapToGrid", "outlineLvl", "numPr", "ilvl", "numId", "rPr", "t", "br", "drawing",
	"b", "bCs", "i", "iCs", "u", "strike", "sz", "szCs", "color", "highlight", "rFonts", "tblPr", "tblGrid", "tr", "tblW",
	"tblLook", "tblStyle", "tblBorders", "shd", "tblCellMar", "tblLayout", "tblInd", "gridCol", "trPr", "tc", "tcPr",
	"pgSz", "pgMar", "cols", "titlePg", "pgNumType", "docGrid", "headerReference", "footerReference", "top", "left",
	"bottom", "right", "insideH", "insideV", "tcW", "vAlign", "gridSpan", "vMerge", "textDirection", "tcBorders", "tcMar",
	"noWrap", "hideMark", "tl2br", "tr2bl", "trHeight", "cantSplit", "tblHeader", "inline", "anchor", "extent", "docPr",
	"graphic", "wrapNone", "wrapSquare", "graphicData", "pic", "nvPicPr", "blipFill", "spPr", "cNvPr", "cNvPicPr", "blip",
	"stretch", "xfrm", "prstGeom", "off", "ext",
}

// c06AttrsBuiltin: attribute local names the reader looks at.
var c06AttrsBuiltin = []string{
	"val", "before", "after", "line", "lineRule", "firstLine", "left", "right", "space", "type", "ascii", "hAnsi", "eastAsia",
	"cs", "hint", "w", "h", "orient", "top", "bottom", "header", "footer", "gutter", "num", "linePitch", "charSpace", "id",
	"fill", "color", "sz", "hRule", "firstRow", "lastRow", "firstColumn", "lastColumn", "noHBand", "noVBand",
	"distT", "distB", "distL", "distR", "cx", "cy", "name", "descr", "title", "simplePos", "relativeHeight", "behindDoc",
	"locked", "layoutInCell", "allowOverlap", "wrapText", "uri", "embed", "prst", "x", "y", "fmt",
}

// c06Unknown are two names no reader knows.
var c06Unknown = []string{"zzUnknown", "customXml"}

type c06Vocab struct {
	Elems    []string            // element names found in the source
	Attrs    []string            // attribute names found in the source
	Children map[string][]string // end-element name of a parse function -> element names it dispatches on
	Err      string
}

func c06RepoDir() string {
	if d := os.Getenv("VERIF_REPO"); d != "" {
		return d
	}
	return "/repo"
}

// c06NameLocalOf recognises X.Name.Local and returns X's identifier.
func c06NameLocalOf(e ast.Expr) (string, bool) {
	s, ok := e.(*ast.SelectorExpr)
	if !ok || s.Sel.Name != "Local" {
		return "", false
	}
	s2, ok := s.X.(*ast.SelectorExpr)
	if !ok || s2.Sel.Name != "Name" {
		return "", false
	}
	if id, ok := s2.X.(*ast.Ident); ok {
		return id.Name, true
	}
	return "?", true
}

func c06StrLit(e ast.Expr) (string, bool) {
	if b, ok := e.(*ast.BasicLit); ok && b.Kind == token.STRING {
		if s, err := strconv.Unquote(b.Value); err == nil {
			return s, true
		}
	}
	return "", false
}

// c06ExtractVocab reads every non-test file of pkg/document of the tree under test with go/parser and
// collects, from every function, the element names it switches
// on / compares with, the attribute names it reads, and per function the end-element name it
// returns at (which identifies the element whose children it dispatches).
func c06ExtractVocab(repo string) c06Vocab {
	v := c06Vocab{Children: map[string][]string{}}
	fset := token.NewFileSet()
	// every non-test file of the package: the reader may be split over files, and a reader added for
	// another part (styles, numbering, notes) contributes its vocabulary as well
	files, _ := filepath.Glob(filepath.Join(repo, "pkg/document/*.go"))
	var decls []ast.Decl
	for _, fn := range files {
		if strings.HasSuffix(fn, "_test.go") {
			continue
		}
		f, err := parser.ParseFile(fset, fn, nil, 0)
		if err != nil {
			v.Err = err.Error()
			continue
		}
		decls = append(decls, f.Decls...)
	}
	if len(decls) == 0 && v.Err == "" {
		v.Err = "no source files under " + filepath.Join(repo, "pkg/document")
	}
	elems, attrs := map[string]bool{}, map[string]bool{}
	for _, decl := range decls {
		fd, ok := decl.(*ast.FuncDecl)
		if !ok || fd.Body == nil {
			continue
		}
		var fnElems, fnEnds []string
		ast.Inspect(fd.Body, func(n ast.Node) bool {
			switch x := n.(type) {
			case *ast.SwitchStmt:
				if x.Tag == nil {
					return true
				}
				who, ok := c06NameLocalOf(x.Tag)
				if !ok {
					return true
				}
				for _, st := range x.Body.List {
					cc, ok := st.(*ast.CaseClause)
					if !ok {
						continue
					}
					for _, e := range cc.List {
						if s, ok := c06StrLit(e); ok {
							if strings.HasPrefix(who, "attr") || who == "a" {
								attrs[s] = true
							} else {
								elems[s] = true
								fnElems = append(fnElems, s)
							}
						}
					}
				}
			case *ast.BinaryExpr:
				if x.Op != token.EQL {
					return true
				}
				for _, pair := range [][2]ast.Expr{{x.X, x.Y}, {x.Y, x.X}} {
					who, ok := c06NameLocalOf(pair[0])
					if !ok {
						continue
					}
					if s, ok := c06StrLit(pair[1]); ok {
						if strings.HasPrefix(who, "attr") || who == "a" {
							attrs[s] = true
						} else {
							elems[s] = true
							fnEnds = append(fnEnds, s)
						}
					}
				}
			case *ast.CallExpr:
				if id, ok := x.Fun.(*ast.Ident); ok && id.Name == "getAttributeValue" && len(x.Args) == 2 {
					if s, ok := c06StrLit(x.Args[1]); ok && !strings.Contains(s, ":") {
						attrs[s] = true
					}
				}
			}
			return true
		})
		// the end name of a dispatching function: the (single) name it compares an end element with
		for _, e := range fnEnds {
			if len(fnElems) > 0 {
				v.Children[e] = append(v.Children[e], fnElems...)
			}
		}
		if fd.Name.Name == "parseBodySubElement" {
			v.Children["body"] = append(v.Children["body"], fnElems...)
		}
	}
	for k := range elems {
		v.Elems = append(v.Elems, k)
	}
	for k := range attrs {
		v.Attrs = append(v.Attrs, k)
	}
	sort.Strings(v.Elems)
	sort.Strings(v.Attrs)
	for k, l := range v.Children {
		v.Children[k] = c06Uniq(l)
	}
	return v
}

func c06Uniq(l []string) []string {
	m := map[string]bool{}
	var out []string
	for _, s := range l {
		if !m[s] {
			m[s] = true
			out = append(out, s)
		}
	}
	sort.Strings(out)
	return out
}

// ---------------------------------------------------------------------------
// arguments, worker state

type c06Args struct {
	Vocab    []string            `json:"vocab"`    // element names incl. the unknown ones
	Attrs    []string            `json:"attrs"`    // attribute names
	Children map[string][]string `json:"children"` // per dispatching element: names its reader knows
	SeedHash string              `json:"seed_hash"`
	Groups   string              `json:"groups,omitempty"` // restrict to some groups (development only)
}

type c06W struct {
	c         *shard.Ctx
	a         c06Args
	seen      map[string]bool
	keyed     map[string]bool
	name      string // shard worker name (recorded in replayable cases)
	dumpAfter time.Duration
	tmp       string
	ownTmp    bool
	// watchdog
	caseStart atomic.Int64
	caseIdx   atomic.Int64
	sampled   map[string]int
	attrStr   []string
}

const (
	c06HangTimeout = 90 * time.Second
	c06DumpAfter   = 50 * time.Second
	// the depth/repetition inputs are three to five orders of magnitude larger than a shape
	c06DepthHangTimeout = 15 * time.Minute
	c06DepthDumpAfter   = 10 * time.Minute
	c06MemGuardByte     = 8 << 30
)

func (w *c06W) startWatchdog() {
	go func() {
		dumped := int64(-1)
		s := []metrics.Sample{{Name: "/memory/classes/heap/objects:bytes"}, {Name: "/memory/classes/heap/stacks:bytes"}}
		for {
			time.Sleep(100 * time.Millisecond)
			metrics.Read(s)
			var tot uint64
			for _, x := range s {
				if x.Value.Kind() == metrics.KindUint64 {
					tot += x.Value.Uint64()
				}
			}
			if tot > c06MemGuardByte {
				fmt.Fprintf(os.Stderr, "c06 memory guard: out of memory: live heap and stacks of case %d exceed %d bytes\n", w.caseIdx.Load(), uint64(c06MemGuardByte))
				pprof.Lookup("goroutine").WriteTo(os.Stderr, 1)
				os.Exit(97)
			}
			st := w.caseStart.Load()
			idx := w.caseIdx.Load()
			if st != 0 && idx != dumped && time.Since(time.Unix(0, st)) > w.dumpAfter {
				dumped = idx
				fmt.Fprintf(os.Stderr, "c06 watchdog: case %d still running after %v; goroutines:\n", idx, w.dumpAfter)
				pprof.Lookup("goroutine").WriteTo(os.Stderr, 2)
			}
		}
	}()
}

// ---------------------------------------------------------------------------
// panic capture

type c06Panic struct{ class, fn, msg, where string }

func c06FuncName(line string) string {
	l := strings.TrimSpace(line)
	l = strings.TrimPrefix(l, "github.com/zerx-lab/wordZero/pkg/")
	if i := strings.LastIndex(l, "("); i > 0 {
		l = l[:i]
	}
	// closures: document.(*Table).ForEach.func1 -> keep the enclosing function
	for {
		j := strings.LastIndex(l, ".")
		if j < 0 {
			break
		}
		tail := l[j+1:]
		if strings.HasPrefix(tail, "func") || (len(tail) > 0 && tail[0] >= '0' && tail[0] <= '9') {
			l = l[:j]
			continue
		}
		break
	}
	return l
}

// c06FirstLibFrame finds the first (innermost) frame of the library in a Go stack dump.
func c06FirstLibFrame(stack string) (fn, where string) {
	lines := strings.Split(stack, "\n")
	for i, l := range lines {
		if strings.HasPrefix(l, "github.com/zerx-lab/wordZero/pkg/") {
			fn = c06FuncName(l)
			if i+1 < len(lines) {
				where = strings.TrimSpace(lines[i+1])
				if j := strings.Index(where, " +0x"); j > 0 {
					where = where[:j]
				}
			}
			return
		}
	}
	return "?", ""
}

func c06Guard(f func()) (p *c06Panic) {
	defer func() {
		if r := recover(); r != nil {
			msg := fmt.Sprintf("%v", r)
			if len(msg) > 300 {
				msg = msg[:300]
			}
			p = &c06Panic{class: panicClass(msg), msg: msg}
			p.fn, p.where = c06FirstLibFrame(string(debug.Stack()))
		}
	}()
	f()
	return nil
}

// ---------------------------------------------------------------------------
// opened-state key: canonical dump of the exported body tree + the part map without the raw
// main part (which every serialisation overwrites before anything reads it)

func c06Dump(w io.Writer, v reflect.Value) {
	switch v.Kind() {
	case reflect.Ptr, reflect.Interface:
		if v.IsNil() {
			io.WriteString(w, "~")
			return
		}
		if v.Kind() == reflect.Interface {
			io.WriteString(w, v.Elem().Type().String())
		}
		io.WriteString(w, "&")
		c06Dump(w, v.Elem())
	case reflect.Struct:
		t := v.Type()
		io.WriteString(w, "{")
		for i := 0; i < v.NumField(); i++ {
			if t.Field(i).PkgPath != "" {
				continue
			}
			fv := v.Field(i)
			if fv.IsZero() {
				continue
			}
			io.WriteString(w, t.Field(i).Name)
			io.WriteString(w, ":")
			c06Dump(w, fv)
			io.WriteString(w, ";")
		}
		io.WriteString(w, "}")
	case reflect.Slice, reflect.Array:
		if v.Kind() == reflect.Slice && v.Type().Elem().Kind() == reflect.Uint8 {
			h := sha256.Sum256(v.Bytes())
			io.WriteString(w, hex.EncodeToString(h[:8]))
			return
		}
		io.WriteString(w, "[")
		io.WriteString(w, strconv.Itoa(v.Len()))
		for i := 0; i < v.Len(); i++ {
			c06Dump(w, v.Index(i))
			io.WriteString(w, ",")
		}
		io.WriteString(w, "]")
	case reflect.Map:
		keys := v.MapKeys()
		sort.Slice(keys, func(a, b int) bool { return fmt.Sprint(keys[a].Interface()) < fmt.Sprint(keys[b].Interface()) })
		io.WriteString(w, "map[")
		for _, k := range keys {
			fmt.Fprint(w, k.Interface())
			io.WriteString(w, "=")
			c06Dump(w, v.MapIndex(k))
			io.WriteString(w, ",")
		}
		io.WriteString(w, "]")
	case reflect.String:
		io.WriteString(w, strconv.Quote(v.String()))
	case reflect.Func, reflect.Chan, reflect.UnsafePointer:
		io.WriteString(w, "?")
	default:
		fmt.Fprint(w, v.Interface())
	}
}

func c06StateKey(d *document.Document) (key string, bodyLen int) {
	h := sha256.New()
	bw := &c06BufW{w: h}
	if d.Body != nil {
		bodyLen = len(d.Body.Elements)
		c06Dump(bw, reflect.ValueOf(d.Body))
	} else {
		io.WriteString(bw, "nobody")
	}
	parts := d.GetParts()
	names := make([]string, 0, len(parts))
	for n := range parts {
		if n != "word/document.xml" {
			names = append(names, n)
		}
	}
	sort.Strings(names)
	for _, n := range names {
		ph := sha256.Sum256(parts[n])
		io.WriteString(bw, "|"+n+"=")
		bw.Write(ph[:8])
	}
	bw.flush()
	return hex.EncodeToString(h.Sum(nil)[:12]), bodyLen
}

type c06BufW struct {
	w   io.Writer
	buf []byte
}

func (b *c06BufW) Write(p []byte) (int, error) {
	b.buf = append(b.buf, p...)
	if len(b.buf) > 1<<16 {
		b.flush()
	}
	return len(p), nil
}
func (b *c06BufW) flush() { b.w.Write(b.buf); b.buf = b.buf[:0] }

// ---------------------------------------------------------------------------
// running one case

type c06Input struct {
	group   string
	data    []byte
	viaFile bool
	size    int // witness size used to keep the smallest case per signature
	battery bool
	noSave  bool // the battery skips every serialisation (deepest nesting case only, see Assume)
}

func c06ErrClass(err error) string {
	var ops []string
	for e := err; e != nil; e = errors.Unwrap(e) {
		if de, ok := e.(*document.DocumentError); ok {
			if len(ops) == 0 || ops[len(ops)-1] != de.Operation {
				ops = append(ops, de.Operation)
			}
		}
	}
	if len(ops) == 0 {
		return "other"
	}
	if len(ops) > 3 {
		ops = append(ops[:1], ops[len(ops)-2:]...)
	}
	return strings.Join(ops, ">")
}

func (w *c06W) violate(in *c06Input, idx int64, desc func() interface{}, sig, clause, what string) {
	w.c.P.Outcome("violation:" + sig)
	w.c.P.Violate(rep.Violation{Sig: sig, Clause: clause, What: what, Depth: in.size, Case: shardCase(w.c, w.name, idx, desc())})
}

func (w *c06W) open(in *c06Input) (d *document.Document, err error, p *c06Panic) {
	if in.viaFile {
		path := filepath.Join(w.tmp, "in.docx")
		if e := os.WriteFile(path, in.data, 0o644); e != nil {
			w.c.P.HarnessErrs = append(w.c.P.HarnessErrs, "write input: "+e.Error())
			return nil, e, nil
		}
		p = c06Guard(func() { d, err = document.Open(path) })
		return
	}
	p = c06Guard(func() { d, err = document.OpenFromMemory(nopCloser{bytes.NewReader(in.data)}) })
	return
}

func (w *c06W) run(idx int64, desc func() interface{}, in *c06Input) {
	w.caseIdx.Store(idx)
	w.caseStart.Store(time.Now().UnixNano())
	defer w.caseStart.Store(0)
	document.VerifResetGlobals()
	P := w.c.P
	P.Evals++
	P.Add("opens."+in.group, 1)
	entry := "OpenFromMemory"
	if in.viaFile {
		entry = "Open"
	}
	d, err, p := w.open(in)
	if p != nil {
		P.Outcome("open:panic")
		w.key("panic:"+p.class+"|"+p.fn, true)
		w.violate(in, idx, desc, "panic|"+p.class+"|"+p.fn, "open-does-not-panic",
			fmt.Sprintf("%s panics on this input: %s @ %s %s", entry, p.msg, p.fn, p.where))
		return
	}
	if err != nil {
		cls := c06ErrClass(err)
		P.Outcome("open:error:" + cls)
		w.key("err:"+cls, strings.Contains(cls, "parse_"))
		w.sample(in, desc, "error "+cls)
		return
	}
	if d == nil {
		w.violate(in, idx, desc, "open-nil|nil-document-without-error", "open-returns-error-or-document", entry+" returned (nil, nil)")
		return
	}
	var key string
	var n int
	if p := c06Guard(func() { key, n = c06StateKey(d) }); p != nil {
		// the dump only reads exported fields; a panic here can only come from GetParts
		w.violate(in, idx, desc, "panic|"+p.class+"|"+p.fn, "accessors-do-not-panic", "GetParts/body dump panics: "+p.msg+" @ "+p.fn+" "+p.where)
		return
	}
	P.Outcome("open:ok")
	w.key("state:"+key, n > 0)
	if !in.battery {
		return
	}
	if w.seen[key] {
		P.Add("battery.skipped_same_state", 1)
		return
	}
	w.seen[key] = true
	P.Traces++
	w.battery(idx, desc, in, d)
	w.sample(in, desc, fmt.Sprintf("opened, %d body elements, battery run", n))
}

// key records a distinct state/outcome key once per worker (the run unites them).
func (w *c06W) key(k string, nontrivial bool) {
	if w.keyed[k] {
		return
	}
	w.keyed[k] = true
	w.c.P.Keys = append(w.c.P.Keys, k)
	if nontrivial {
		w.c.P.Nontrivial = append(w.c.P.Nontrivial, k)
	}
}

func (w *c06W) sample(in *c06Input, desc func() interface{}, outcome string) {
	if w.c.Shard != 0 || w.sampled[in.group] >= 1 {
		return
	}
	w.sampled[in.group]++
	w.c.P.Samples = append(w.c.P.Samples, map[string]interface{}{"group": in.group, "case": desc(), "outcome": outcome})
}

// c06CheckSaved judges a serialised package: a readable ZIP containing a namespace-well-formed
// word/document.xml (independent reader).  Returns "" or a stable class + detail.
func c06CheckSaved(b []byte) (class, detail string) {
	zr, err := zip.NewReader(bytes.NewReader(b), int64(len(b)))
	if err != nil {
		return "not-a-zip", err.Error()
	}
	var main []byte
	found := false
	for _, f := range zr.File {
		if f.Name == "word/document.xml" {
			rc, err := f.Open()
			if err != nil {
				return "main-part-unreadable", err.Error()
			}
			main, err = io.ReadAll(rc)
			rc.Close()
			if err != nil {
				return "main-part-unreadable", err.Error()
			}
			found = true
		}
	}
	if !found {
		return "main-part-missing", "no word/document.xml in the saved package"
	}
	_, probs := pkgmodel.ParseXML(main)
	if len(probs) > 0 {
		// all distinct classes, so that a second defect is not hidden behind the first problem
		seen := map[string]bool{}
		var cls []string
		for _, p := range probs {
			if c := c06ProbClass(p); !seen[c] {
				seen[c] = true
				cls = append(cls, c)
			}
		}
		sort.Strings(cls)
		return strings.Join(cls, "+"), strings.Join(probs, "; ")
	}
	return "", ""
}

func c06ProbClass(p string) string {
	for _, k := range []string{"undeclared prefix", "duplicate attribute", "illegal XML character", "invalid UTF-8", "invalid element name",
		"invalid attribute name", "empty namespace", "more than one root", "unclosed element", "end tag", "end element without start",
		"character data outside", "no root element", "empty document", "syntax"} {
		if strings.HasPrefix(p, k) {
			out := strings.ReplaceAll(k, " ", "-")
			if k == "undeclared prefix" || k == "empty namespace" {
				// undeclared prefix "x" on element y / empty namespace for prefix "x"
				if q := strings.SplitN(p, `"`, 3); len(q) == 3 {
					out += ":" + q[1]
				}
			}
			return out
		}
	}
	return "other"
}

// ---------------------------------------------------------------------------
// worker

func c06Worker(c *shard.Ctx)      { c06WorkerOf(c, "c06", false) }
func c06DepthWorker(c *shard.Ctx) { c06WorkerOf(c, "c06-depth", true) }

func c06WorkerOf(c *shard.Ctx, name string, depthOnly bool) {
	var a c06Args
	json.Unmarshal(c.Args, &a)
	w := &c06W{c: c, a: a, seen: map[string]bool{}, keyed: map[string]bool{}, sampled: map[string]int{}, name: name, dumpAfter: c06DumpAfter}
	if depthOnly {
		w.dumpAfter = c06DepthDumpAfter
	}
	if out := os.Getenv("VCHECK_OUT"); out != "" {
		w.tmp = filepath.Join(filepath.Dir(out), fmt.Sprintf("c06-%d-%d", c.Shard, os.Getpid()))
		os.MkdirAll(w.tmp, 0o755)
	} else {
		w.tmp, _ = os.MkdirTemp("", "c06-")
		w.ownTmp = true
	}
	defer func() {
		if w.ownTmp {
			os.RemoveAll(w.tmp)
		}
	}()
	w.startWatchdog()
	if pf := os.Getenv("C06_PROF"); pf != "" && c.Shard == 0 {
		if f, err := os.Create(pf); err == nil {
			pprof.StartCPUProfile(f)
			defer pprof.StopCPUProfile()
		}
	}
	debug.SetMaxStack(64 << 20)
	w.initAttrs()
	idx := int64(0)
	on := func(g string) bool {
		return (g == "depth") == depthOnly && (a.Groups == "" || strings.Contains(","+a.Groups+",", ","+g+","))
	}
	if on("shape") {
		w.genShapes(&idx)
	}
	var seeds []c06Seed
	if !depthOnly {
		seeds = c06Seeds()
	}
	if !depthOnly && c.N > 1 && a.SeedHash != "" && c06SeedHash(seeds) != a.SeedHash {
		c.P.HarnessErrs = append(c.P.HarnessErrs, fmt.Sprintf("shard %d: seed documents differ from the controller's (nondeterministic main part?)", c.Shard))
		return
	}
	if on("seed") {
		w.genSeedMutations(&idx, seeds)
	}
	if on("part") {
		w.genPartLevel(&idx, seeds)
	}
	if on("toc") {
		w.genTOC(&idx)
	}
	if on("zip") {
		w.genZipLevel(&idx, seeds)
	}
	if on("depth") {
		// Go's own default stack limit: an overflow here would also kill a plain program
		debug.SetMaxStack(1 << 30)
		w.genDepth(&idx)
	}
	c.P.Add("cases_enumerated", 0)
}

func c06Classify(ev shard.Event) string {
	if ev.Kind == "hang" {
		// the worker's own watchdog dumps the goroutines before the engine kills the process
		st := ev.Stderr
		if i := strings.Index(st, "c06 watchdog:"); i >= 0 {
			st = st[i:]
		}
		fn, _ := c06FirstLibFrame(st)
		return fn
	}
	cls := fatalClass(ev.Stderr)
	fn, _ := c06FirstLibFrame(ev.Stderr)
	return cls + "|" + fn
}

func runC06(r *rep.Run) {
	ex := c06ExtractVocab(c06RepoDir())
	vocab := append([]string{}, c06VocabBuiltin...)
	attrs := append([]string{}, c06AttrsBuiltin...)
	if ex.Err != "" {
		r.P.Notes = append(r.P.Notes, "vocabulary extraction from the source tree failed ("+ex.Err+"); the built-in list is used")
	} else {
		known := map[string]bool{}
		for _, s := range vocab {
			known[s] = true
		}
		var added []string
		for _, s := range ex.Elems {
			if !known[s] {
				added = append(added, s)
				vocab = append(vocab, s)
			}
		}
		if len(added) > 0 {
			r.P.Notes = append(r.P.Notes, fmt.Sprintf("element names found in the source beyond the built-in list (enumerated too): %v", added))
		}
		found := map[string]bool{}
		for _, s := range ex.Elems {
			found[s] = true
		}
		var gone []string
		for _, s := range c06VocabBuiltin {
			if !found[s] {
				gone = append(gone, s)
			}
		}
		if len(gone) > 0 {
			r.P.Notes = append(r.P.Notes, fmt.Sprintf("built-in names no longer in a case label of the source (still enumerated): %v", gone))
		}
		ka := map[string]bool{}
		for _, s := range attrs {
			ka[s] = true
		}
		for _, s := range ex.Attrs {
			if !ka[s] {
				attrs = append(attrs, s)
			}
		}
		for end := range ex.Children {
			if !c06HostKnown(end) {
				r.P.Notes = append(r.P.Notes, "the source has a dispatching reader for <"+end+"> that is not among the host contexts; its children are only reached through the seeds")
			}
		}
	}
	// document/body are the fixed envelope, not tree nodes
	var v2 []string
	for _, s := range vocab {
		if s != "document" && s != "body" {
			v2 = append(v2, s)
		}
	}
	vocab = append(v2, c06Unknown...)
	seeds := c06Seeds()
	args := c06Args{Vocab: vocab, Attrs: attrs, Children: ex.Children, SeedHash: c06SeedHash(seeds), Groups: os.Getenv("C06_GROUPS")}
	thorough := r.Tier == "thorough"
	nV := len(vocab)
	r.Bounds = map[string]interface{}{
		"vocabulary":          fmt.Sprintf("%d element names (every case label / name comparison of the parse* functions of document.go, read from the source tree at run time, united with a built-in list) + 2 unknown names; %d attribute names", nV-2, len(attrs)),
		"shape_hosts":         fmt.Sprintf("%d contexts: w:body and every element whose children a parse function dispatches on (%s)", len(c06Hosts), c06HostNames()),
		"shapes_per_host":     "every single element, every parent>child pair and every sibling pair over the whole vocabulary, each without attributes and with every known attribute set (values 1 | x | -5 | 4000000000 | empty for single elements; none | 1 for pairs in quick, none | 1 | x | -5 in thorough)",
		"shapes_namespaces":   "under w:body the <=2-node shapes additionally in the strict namespace, in no namespace and under a foreign prefix",
		"shapes_three_nodes":  map[bool]string{false: "not in quick", true: "under w:body: every chain a>b>c and every a>(b,c) over the whole vocabulary, without and with attributes; under every other host the same with a restricted to the names its reader knows plus p, tbl, r and one unknown name (all other names take the reader's skip branch)"}[thorough],
		"seed_mutations":      fmt.Sprintf("%d rich seeds (library-built: text/list, table, drawing+section, mini; foreign: prefixed and default-namespace): every truncation of the main part at a tag boundary, every single end-tag deletion, every adjacent-tag swap; every byte truncation of the smallest seed", len(seeds)),
		"part_level":          "each of [Content_Types].xml, _rels/.rels, word/document.xml, word/styles.xml, word/_rels/document.xml.rels in {missing, empty, not XML, wrong root, root in strict namespace}; all single faults and all pairs of faults",
		"zip_level":           "every byte prefix of a small stored archive (includes all record boundaries), every single byte of it replaced by 0x00 and 0xFF, non-ZIP byte strings, empty input, duplicate names, directory entries, odd entry names, corrupt deflate stream, unsupported method",
		"depth_repetition":    "tbl>tr>tc nesting 1, 10, 100, 1000, 10000; unknown-element nesting 100000; 100000 sibling runs, 100000 sibling paragraphs, 10000 rows; styles part with 10000 nested elements; content types with 100000 entries",
		"entry_points":        "OpenFromMemory for every case; Open(file) additionally for all seed-mutation, part-level, ZIP-level and depth cases and the single-element shapes",
		"watchdog":            c06HangTimeout.String() + " per case (a normal Open takes < 1 ms); " + c06DepthHangTimeout.String() + " per depth/repetition case (inputs up to 5 MB, 100000 elements; normally a few seconds)",
		"resource_guards":     "goroutine stack limit 64 MiB (1 GiB, Go's default, for the depth cases); a worker whose live heap exceeds 8 GiB is stopped and the case recorded as crash|out-of-memory",
		"battery_table_limit": "table APIs run on the first 4 top-level tables and on nested tables down to 2 levels (at most 8 tables per document)",
	}
	r.Rule = "every input of the groups above is one case (numbered; shard i runs cases i mod 16); the oracle per case: the entry point returns (no panic; process death or silence beyond the watchdog is a crash/hang event re-run alone for confirmation); error return = accepted outcome; success = the document's state key (canonical dump of the exported body tree + part map without the raw main part) is computed and, once per distinct key per worker, the fixed battery runs with every call under recover: reading accessors, ToBytes (saved main part parsed by the independent strict reader), every table API on every table (read, cell edits, structure edits incl. column insert/delete, formatting), page settings get/set, body edits, LoadTemplateFromDocument+RenderTemplateToDocument (+ToBytes of the result), Markdown export, Save to a file; after a panic in a mutating call the document is re-opened so later calls never see a half-edited state. states = distinct state keys and error classes; non-trivial = opened with a non-empty body, or rejected by a parse function (not at ZIP level)"
	r.Assume = []string{
		"the battery is a function of the exported body tree and the stored parts other than the raw main part (nothing reads the raw main part after Open; it is regenerated by every serialisation), so running it once per distinct state key loses nothing",
		"an error returned by an editing call, by ToBytes or by Save is not a violation (the statement only forbids panics), except that the unmodified opened document must serialise (it 're-saves to a package')",
		"the memory guard (8 GiB live heap for inputs of at most a few MB) and the watchdog (90 s for work that normally takes milliseconds, 15 min for the depth/repetition inputs that normally take seconds) are the only resource limits; both are at least three orders of magnitude above the normal cost",
		"quadratic cost is not a hang or a crash: the depth/repetition inputs run a reduced battery (reading accessors, ToBytes, Markdown export, template load+render, Save; no table, page or body edits), and the 10000-deep table nesting additionally without any serialisation (the library indents its output, so the regenerated main part grows with the square of the depth: 288 MB at depth 4000, about 1.8 GB at depth 10000 from a 230 KB input; this terminates given memory and is reported here as a note, not as a violation); depth 1000 is the deepest nesting that is serialised",
	}
	type res struct {
		name   string
		p      *rep.Partial
		events []shard.Event
	}
	ch := make(chan res, 2)
	go func() {
		p, ev := shard.Map("c06", args, shard.Opts{Deadline: r.Deadline, Tier: r.Tier, HangTimeout: c06HangTimeout})
		ch <- res{"c06", p, ev}
	}()
	go func() {
		p, ev := shard.Map("c06-depth", args, shard.Opts{Deadline: r.Deadline, Tier: r.Tier, HangTimeout: c06DepthHangTimeout})
		ch <- res{"c06-depth", p, ev}
	}()
	for k := 0; k < 2; k++ {
		x := <-ch
		r.Merge(x.p)
		q := rep.NewPartial()
		events := x.events
		sort.Slice(events, func(a, b int) bool { return events[a].Idx < events[b].Idx })
		for _, ev := range events {
			if !ev.Confirmed {
				q.Notes = append(q.Notes, fmt.Sprintf("%s case %d %s once but not when re-run alone (not counted)", x.name, ev.Idx, ev.Kind))
				continue
			}
			sig := ev.Kind + "|" + c06Classify(ev)
			q.Outcome("violation:" + sig)
			q.Violate(rep.Violation{Sig: sig, Clause: "terminates-without-crash", Depth: int(ev.Idx % 1000000),
				What: fmt.Sprintf("case %d of worker %s makes the worker process %s: %s", ev.Idx, x.name, ev.Kind, firstLines(ev.Stderr, 3)),
				Case: map[string]interface{}{"worker": x.name, "args": args, "index": ev.Idx, "tier": r.Tier, "desc": ev.Desc}})
		}
		r.Merge(q)
	}
}

func init() {
	shard.Register("c06", c06Worker)
	shard.Register("c06-depth", c06DepthWorker)
	register("C06", "model_checking", runC06)
}
