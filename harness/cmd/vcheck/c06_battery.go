package main

// C06 battery: the fixed set of calls made on every distinct successfully opened state.  Every
// call runs under recover; the signature of a panic is panic|<class>|<innermost library function>.

import (
	"fmt"
	"os"
	"path/filepath"

	"github.com/zerx-lab/wordZero/pkg/document"
	"github.com/zerx-lab/wordZero/pkg/markdown"
)

type c06Bat struct {
	w      *c06W
	idx    int64
	desc   func() interface{}
	in     *c06Input
	d      *document.Document
	fresh  bool // d has not been modified since it was opened
	failed bool // could not re-open (cannot happen: the first open succeeded)
}

func (b *c06Bat) reopen() {
	d, err, p := b.w.open(b.in)
	if p != nil || err != nil || d == nil {
		b.failed = true
		return
	}
	b.d = d
	b.fresh = true
}

// call runs one library call; name is only used in the explanation.
func (b *c06Bat) call(stage, name string, mutating bool, f func(d *document.Document)) {
	if b.failed {
		return
	}
	b.w.c.P.Transitions++
	d := b.d
	if mutating {
		b.fresh = false
	}
	if p := c06Guard(func() { f(d) }); p != nil {
		b.w.violate(b.in, b.idx, b.desc, "panic|"+p.class+"|"+p.fn, "opened-document-works-without-panic",
			fmt.Sprintf("battery stage %s, call %s on the opened document panics: %s @ %s %s", stage, name, p.msg, p.fn, p.where))
		if mutating {
			b.reopen()
		}
	}
}

// resave serialises the current document and judges the regenerated main part.
func (b *c06Bat) resave(stage string, d *document.Document) {
	if b.failed || d == nil || b.in.noSave {
		return
	}
	b.w.c.P.Transitions++
	var out []byte
	var err error
	if p := c06Guard(func() { out, err = d.ToBytes() }); p != nil {
		b.w.violate(b.in, b.idx, b.desc, "panic|"+p.class+"|"+p.fn, "saving-does-not-panic",
			fmt.Sprintf("ToBytes (%s) panics: %s @ %s %s", stage, p.msg, p.fn, p.where))
		return
	}
	if err != nil {
		b.w.c.P.Outcome("resave:" + stage + ":error")
		if stage == "as-opened" {
			b.w.violate(b.in, b.idx, b.desc, "resave-error|ToBytes|"+c06ErrClass(err), "opened-document-resaves", "ToBytes of the unmodified opened document fails: "+c06Short(err.Error(), 200))
		}
		return
	}
	if cls, detail := c06CheckSaved(out); cls != "" {
		b.w.violate(b.in, b.idx, b.desc, "resave-malformed|"+cls, "regenerated-main-part-well-formed",
			fmt.Sprintf("package written by ToBytes (%s): %s", stage, c06Short(detail, 300)))
		return
	}
	b.w.c.P.Outcome("resave:ok")
}

type c06TabRef struct {
	path []int // index among top-level tables, then (row, col, k) triples for nested tables
}

// c06Tables lists the tables the table stages work on: the first 4 top-level tables and nested
// tables down to 2 levels, at most 8 in total.
func c06Tables(d *document.Document) []*document.Table {
	var out []*document.Table
	if d.Body == nil {
		return nil
	}
	var nested func(t *document.Table, depth int)
	nested = func(t *document.Table, depth int) {
		if depth >= 2 {
			return
		}
		for r := range t.Rows {
			for c := range t.Rows[r].Cells {
				for k := range t.Rows[r].Cells[c].Tables {
					if len(out) >= 8 {
						return
					}
					nt := &t.Rows[r].Cells[c].Tables[k]
					out = append(out, nt)
					nested(nt, depth+1)
				}
			}
		}
	}
	top := d.Body.GetTables()
	for i, t := range top {
		if i >= 4 || len(out) >= 8 {
			break
		}
		// a nil entry is kept: the table API is then called on what GetTables returned
		out = append(out, t)
		if t != nil {
			nested(t, 0)
		}
	}
	return out
}

func (w *c06W) battery(idx int64, desc func() interface{}, in *c06Input, d *document.Document) {
	b := &c06Bat{w: w, idx: idx, desc: desc, in: in, d: d, fresh: true}
	light := in.group == "depth"

	// ---- stage: reading accessors (nothing here modifies the document)
	st := "read"
	b.call(st, "Body.GetParagraphs", false, func(d *document.Document) {
		for _, p := range d.Body.GetParagraphs() {
			_ = p.ElementType()
			for i := range p.Runs {
				_ = p.Runs[i].Text.Content
			}
		}
	})
	b.call(st, "Body.GetTables", false, func(d *document.Document) { _ = d.Body.GetTables() })
	b.call(st, "Body.Elements", false, func(d *document.Document) {
		for _, e := range d.Body.Elements {
			_ = kindOf(e)
		}
	})
	b.call(st, "GetStyleManager", false, func(d *document.Document) {
		sm := d.GetStyleManager()
		for _, s := range sm.GetAllStyles() {
			if s != nil {
				_ = sm.GetStyleWithInheritance(s.StyleID)
			}
		}
		_ = sm.GetHeadingStyles()
	})
	b.call(st, "GetParts", false, func(d *document.Document) { _ = d.GetParts() })
	b.call(st, "GetFootnoteCount", false, func(d *document.Document) { _ = d.GetFootnoteCount(); _ = d.GetEndnoteCount() })
	b.call(st, "GetPageSettings", false, func(d *document.Document) { _ = d.GetPageSettings() })
	b.call(st, "GetDocumentProperties", false, func(d *document.Document) { _, _ = d.GetDocumentProperties() })
	b.call(st, "GetHeadingCount", false, func(d *document.Document) { _ = d.GetHeadingCount() })
	b.call(st, "ListHeadings", false, func(d *document.Document) { _ = d.ListHeadings() })
	b.resave("as-opened", b.d)

	// ---- stage: Markdown export
	st = "markdown"
	b.call(st, "Exporter.ExportToString(default options)", false, func(d *document.Document) {
		_, _ = markdown.NewExporter(nil).ExportToString(d, markdown.DefaultExportOptions())
	})
	b.call(st, "Exporter.ExportToString(high quality options)", false, func(d *document.Document) {
		_, _ = markdown.NewExporter(markdown.HighQualityExportOptions()).ExportToString(d, markdown.HighQualityExportOptions())
	})

	// ---- stage: template
	st = "template"
	b.call(st, "LoadTemplateFromDocument+RenderTemplateToDocument", false, func(d *document.Document) {
		eng := document.NewTemplateEngine()
		if _, err := eng.LoadTemplateFromDocument("t", d); err != nil {
			b.w.c.P.Outcome("template:load-error")
			return
		}
		td := document.NewTemplateData()
		td.SetVariable("v", "V")
		td.SetVariable("name", "N")
		td.SetVariable("title", "T")
		td.SetVariable("x", "X")
		td.SetCondition("flag", true)
		td.SetList("items", []interface{}{map[string]interface{}{"name": "i1"}, map[string]interface{}{"name": "i2"}})
		out, err := eng.RenderTemplateToDocument("t", td)
		if err != nil || out == nil {
			b.w.c.P.Outcome("template:render-error")
			return
		}
		b.w.c.P.Outcome("template:rendered")
		b.resave("rendered-template", out)
	})
	b.call(st, "TemplateRenderer.AnalyzeTemplate", false, func(d *document.Document) {
		tr := document.NewTemplateRenderer()
		tr.SetLogging(false)
		eng := document.NewTemplateEngine()
		_ = eng
		_, _ = tr.AnalyzeTemplate("missing")
	})
	if !b.fresh {
		b.reopen()
	}

	// ---- table stages
	if !light {
		nt := 0
		if p := c06Guard(func() { nt = len(c06Tables(b.d)) }); p != nil {
			b.w.violate(in, idx, desc, "panic|"+p.class+"|"+p.fn, "opened-document-works-without-panic", "listing the tables panics: "+p.msg+" @ "+p.fn+" "+p.where)
			nt = 0
		}
		for ti := 0; ti < nt; ti++ {
			b.tableStages(ti)
		}
		// every ordered triple of structural calls on the first two tables, each on a freshly re-opened document
		for ti := 0; ti < nt && ti < 2; ti++ {
			b.tableSequences(ti)
		}
	}

	if light {
		b.saveStage()
		return
	}

	// ---- stage: page settings
	st = "page"
	if !b.fresh {
		b.reopen()
	}
	b.call(st, "SetPageSettings(GetPageSettings())", true, func(d *document.Document) { _ = d.SetPageSettings(d.GetPageSettings()) })
	b.call(st, "SetPageSize", true, func(d *document.Document) { _ = d.SetPageSize(document.PageSizeA4) })
	b.call(st, "SetCustomPageSize", true, func(d *document.Document) { _ = d.SetCustomPageSize(100, 200) })
	b.call(st, "SetPageOrientation", true, func(d *document.Document) { _ = d.SetPageOrientation(document.OrientationLandscape) })
	b.call(st, "SetPageMargins", true, func(d *document.Document) { _ = d.SetPageMargins(10, 11, 12, 13) })
	b.call(st, "SetHeaderFooterDistance", true, func(d *document.Document) { _ = d.SetHeaderFooterDistance(5, 6) })
	b.call(st, "SetGutterWidth", true, func(d *document.Document) { _ = d.SetGutterWidth(2) })
	b.call(st, "SetDocGrid", true, func(d *document.Document) { _ = d.SetDocGrid(document.DocGridLines, 312, 0) })
	b.call(st, "ClearDocGrid", true, func(d *document.Document) { _ = d.ClearDocGrid() })
	b.call(st, "SetDifferentFirstPage", true, func(d *document.Document) { d.SetDifferentFirstPage(true) })
	b.call(st, "GetPageSettings", false, func(d *document.Document) { _ = d.GetPageSettings() })
	b.resave("after-page-settings", b.d)

	// ---- stage: table-of-contents calls on the document as opened (before anything below adds a TOC of the
	// library's own making, which the later TOC calls would find first)
	st = "toc-as-opened"
	if !light {
		if !b.fresh {
			b.reopen()
		}
		b.call(st, "UpdateTOC", true, func(d *document.Document) { _ = d.UpdateTOC() })
		b.call(st, "ListHeadings", false, func(d *document.Document) { _ = d.ListHeadings(); _ = d.GetHeadingCount() })
		b.resave("after-UpdateTOC", b.d)
		b.reopen()
		b.call(st, "AutoGenerateTOC", true, func(d *document.Document) { _ = d.AutoGenerateTOC(document.DefaultTOCConfig()) })
		b.call(st, "UpdateTOC after AutoGenerateTOC", true, func(d *document.Document) { _ = d.UpdateTOC() })
		b.resave("after-AutoGenerateTOC", b.d)
	}

	// ---- stage: body edits
	st = "edit"
	if !b.fresh {
		b.reopen()
	}
	tf := &document.TextFormat{Bold: true, Italic: true, FontSize: 11, FontColor: "0000FF", FontFamily: "Arial", Underline: true, Strike: true, Highlight: "yellow"}
	b.call(st, "paragraph setters on the first and last paragraph", true, func(d *document.Document) {
		ps := d.Body.GetParagraphs()
		for _, i := range []int{0, len(ps) - 1} {
			if i < 0 || i >= len(ps) || ps[i] == nil {
				continue
			}
			p := ps[i]
			p.SetAlignment(document.AlignCenter)
			p.SetSpacing(&document.SpacingConfig{LineSpacing: 1.5, BeforePara: 6, AfterPara: 6, FirstLineIndent: 10})
			p.AddFormattedText("added", tf)
			p.SetStyle("Heading1")
			p.SetIndentation(1, 1, 1)
			p.SetKeepWithNext(true)
			p.SetKeepLines(true)
			p.SetPageBreakBefore(false)
			p.SetWidowControl(true)
			p.SetOutlineLevel(1)
			p.SetSnapToGrid(true)
			p.SetBold(true)
			p.SetItalic(true)
			p.SetUnderline(true)
			p.SetStrike(true)
			p.SetHighlight("green")
			p.SetFontFamily("Arial")
			p.SetFontSize(12)
			p.SetColor("FF00FF")
			p.SetHorizontalRule(document.BorderStyleSingle, 4, "000000")
			p.AddPageBreak()
		}
	})
	b.call(st, "AddParagraph", true, func(d *document.Document) { d.AddParagraph("new {{v}}") })
	b.call(st, "AddFormattedParagraph", true, func(d *document.Document) { d.AddFormattedParagraph("formatted", tf) })
	b.call(st, "AddHeadingParagraph", true, func(d *document.Document) { d.AddHeadingParagraph("heading", 2) })
	b.call(st, "AddHeadingParagraphWithBookmark", true, func(d *document.Document) { d.AddHeadingParagraphWithBookmark("heading", 1, "bm1") })
	b.call(st, "AddPageBreak", true, func(d *document.Document) { d.AddPageBreak() })
	b.call(st, "AddTable", true, func(d *document.Document) {
		_, _ = d.AddTable(&document.TableConfig{Rows: 2, Cols: 2, Width: 4000, Data: [][]string{{"1", "2"}, {"3", "4"}}})
	})
	b.call(st, "AddBulletList", true, func(d *document.Document) { d.AddBulletList("b", 0, document.BulletTypeDot) })
	b.call(st, "AddNumberedList", true, func(d *document.Document) { d.AddNumberedList("n", 0, document.ListTypeDecimal) })
	b.call(st, "AddFootnote", true, func(d *document.Document) { _ = d.AddFootnote("text", "note") })
	b.call(st, "AddEndnote", true, func(d *document.Document) { _ = d.AddEndnote("text", "note") })
	b.call(st, "AddHeader", true, func(d *document.Document) { _ = d.AddHeader(document.HeaderFooterTypeDefault, "h") })
	b.call(st, "AddFooterWithPageNumber", true, func(d *document.Document) {
		_ = d.AddFooterWithPageNumber(document.HeaderFooterTypeDefault, "f", true)
	})
	b.call(st, "AddImageFromData", true, func(d *document.Document) {
		_, _ = d.AddImageFromData(pngBytes(2, 2, 1), "b.png", document.ImageFormatPNG, 2, 2, nil)
	})
	b.call(st, "AddMathFormula", true, func(d *document.Document) { d.AddMathFormula("x^2", true) })
	b.call(st, "SetTitle/UpdateStatistics", true, func(d *document.Document) { _ = d.SetTitle("t"); _ = d.UpdateStatistics() })
	b.call(st, "GenerateTOC", true, func(d *document.Document) { _ = d.GenerateTOC(document.DefaultTOCConfig()) })
	b.call(st, "UpdateTOC", true, func(d *document.Document) { _ = d.UpdateTOC() })
	b.call(st, "AutoGenerateTOC", true, func(d *document.Document) { _ = d.AutoGenerateTOC(document.DefaultTOCConfig()) })
	b.call(st, "ListHeadings", false, func(d *document.Document) { _ = d.ListHeadings(); _ = d.GetHeadingCount() })
	b.resave("after-body-edits", b.d)
	b.call(st, "RemoveParagraph(first)", true, func(d *document.Document) {
		if ps := d.Body.GetParagraphs(); len(ps) > 0 {
			d.RemoveParagraph(ps[0])
		}
	})
	b.call(st, "RemoveParagraphAt", true, func(d *document.Document) {
		d.RemoveParagraphAt(0)
		d.RemoveParagraphAt(-1)
		d.RemoveParagraphAt(1 << 20)
	})
	b.call(st, "RemoveElementAt", true, func(d *document.Document) { d.RemoveElementAt(0); d.RemoveElementAt(-1); d.RemoveElementAt(1 << 20) })
	b.resave("after-removals", b.d)

	b.saveStage()
}

// saveStage: Save to a file (document as opened).
func (b *c06Bat) saveStage() {
	in, idx, desc := b.in, b.idx, b.desc
	st := "save"
	if !b.fresh {
		b.reopen()
	}
	b.call(st, "Save", false, func(d *document.Document) {
		if in.noSave {
			return
		}
		path := filepath.Join(b.w.tmp, "out.docx")
		os.Remove(path)
		if err := d.Save(path); err != nil {
			b.w.c.P.Outcome("save:error")
			b.w.violate(in, idx, desc, "resave-error|Save|"+c06ErrClass(err), "opened-document-resaves", "Save of the unmodified opened document fails: "+c06Short(err.Error(), 200))
			return
		}
		out, err := os.ReadFile(path)
		if err != nil {
			b.w.c.P.HarnessErrs = append(b.w.c.P.HarnessErrs, "read saved file: "+err.Error())
			return
		}
		if cls, detail := c06CheckSaved(out); cls != "" {
			b.w.violate(in, idx, desc, "resave-malformed|"+cls, "regenerated-main-part-well-formed", "file written by Save: "+c06Short(detail, 300))
			return
		}
		b.w.c.P.Outcome("save:ok")
	})
}

// tableStages runs the table API on table number ti of the (re-opened) document.
func (b *c06Bat) tableStages(ti int) {
	// on runs f on the selected table
	on := func(stage, name string, mutating bool, f func(d *document.Document, t *document.Table)) {
		b.call(fmt.Sprintf("%s(table %d)", stage, ti), "Table."+name, mutating, func(d *document.Document) {
			if ts := c06Tables(d); ti < len(ts) {
				f(d, ts[ti])
			}
		})
	}
	// positions: first cell, last cell of the first row's width, one past the end, negative
	cells := func(t *document.Table) [][2]int {
		r, c := t.GetRowCount(), t.GetColumnCount()
		return [][2]int{{0, 0}, {r - 1, c - 1}, {r, c}, {-1, 0}, {0, -1}, {r - 1, 0}}
	}
	rowsOf := func(t *document.Table) []int { r := t.GetRowCount(); return []int{0, r - 1, r, -1} }
	tf := &document.TextFormat{Bold: true, Italic: true, FontSize: 10, FontColor: "123456", FontFamily: "Arial", Underline: true, Strike: true, Highlight: "cyan"}
	bc := &document.BorderConfig{Style: document.BorderStyleSingle, Width: 4, Color: "000000", Space: 1}

	if !b.fresh {
		b.reopen()
	}
	if ts := c06Tables(b.d); ti < len(ts) && ts[ti] == nil {
		// GetTables handed out a nil *Table: one representative call instead of one signature per API
		on("table-read", "GetRowCount (on the nil *Table returned by Body.GetTables)", false, func(d *document.Document, t *document.Table) { _ = t.GetRowCount() })
		return
	}
	st := "table-read"
	on(st, "GetRowCount/GetColumnCount", false, func(d *document.Document, t *document.Table) { _ = t.GetRowCount(); _ = t.GetColumnCount() })
	on(st, "GetCell", false, func(d *document.Document, t *document.Table) {
		for _, p := range cells(t) {
			_, _ = t.GetCell(p[0], p[1])
		}
	})
	on(st, "GetCellText", false, func(d *document.Document, t *document.Table) {
		for _, p := range cells(t) {
			_, _ = t.GetCellText(p[0], p[1])
		}
	})
	on(st, "NewCellIterator", false, func(d *document.Document, t *document.Table) {
		it := t.NewCellIterator()
		n := it.Total()
		for i := 0; i <= n+1 && it.HasNext(); i++ {
			if _, err := it.Next(); err != nil {
				break
			}
			_, _ = it.Current()
			_ = it.Progress()
		}
		_, _ = it.Next()
		it.Reset()
		_ = it.HasNext()
		_ = it.Progress()
	})
	on(st, "ForEach", false, func(d *document.Document, t *document.Table) {
		_ = t.ForEach(func(r, c int, cell *document.TableCell, text string) error { return nil })
	})
	on(st, "ForEachInRow", false, func(d *document.Document, t *document.Table) {
		for _, r := range rowsOf(t) {
			_ = t.ForEachInRow(r, func(c int, cell *document.TableCell, text string) error { return nil })
		}
	})
	on(st, "ForEachInColumn", false, func(d *document.Document, t *document.Table) {
		c := t.GetColumnCount()
		for _, k := range []int{0, c - 1, c, -1} {
			_ = t.ForEachInColumn(k, func(r int, cell *document.TableCell, text string) error { return nil })
		}
	})
	on(st, "GetCellRange", false, func(d *document.Document, t *document.Table) {
		r, c := t.GetRowCount(), t.GetColumnCount()
		_, _ = t.GetCellRange(0, 0, r-1, c-1)
		_, _ = t.GetCellRange(0, 0, r, c)
		_, _ = t.GetCellRange(-1, -1, 0, 0)
		_, _ = t.GetCellRange(r-1, c-1, 0, 0)
	})
	on(st, "FindCells", false, func(d *document.Document, t *document.Table) {
		_, _ = t.FindCells(func(r, c int, cell *document.TableCell, text string) bool { return true })
		_, _ = t.FindCellsByText("c", false)
		_, _ = t.FindCellsByText("c", true)
	})
	on(st, "GetCellFormat", false, func(d *document.Document, t *document.Table) {
		for _, p := range cells(t) {
			_, _ = t.GetCellFormat(p[0], p[1])
		}
	})
	on(st, "IsCellMerged", false, func(d *document.Document, t *document.Table) {
		for _, p := range cells(t) {
			_, _ = t.IsCellMerged(p[0], p[1])
		}
	})
	on(st, "GetMergedCellInfo", false, func(d *document.Document, t *document.Table) {
		for _, p := range cells(t) {
			_, _ = t.GetMergedCellInfo(p[0], p[1])
		}
	})
	on(st, "GetCellTextDirection", false, func(d *document.Document, t *document.Table) {
		for _, p := range cells(t) {
			_, _ = t.GetCellTextDirection(p[0], p[1])
		}
	})
	on(st, "GetCellParagraphs", false, func(d *document.Document, t *document.Table) {
		for _, p := range cells(t) {
			_, _ = t.GetCellParagraphs(p[0], p[1])
		}
	})
	on(st, "GetNestedTables", false, func(d *document.Document, t *document.Table) {
		for _, p := range cells(t) {
			_, _ = t.GetNestedTables(p[0], p[1])
		}
	})
	on(st, "GetRowHeight", false, func(d *document.Document, t *document.Table) {
		for _, r := range rowsOf(t) {
			_, _ = t.GetRowHeight(r)
		}
	})
	on(st, "IsRowHeader/IsRowKeepTogether", false, func(d *document.Document, t *document.Table) {
		for _, r := range rowsOf(t) {
			_, _ = t.IsRowHeader(r)
			_, _ = t.IsRowKeepTogether(r)
		}
	})
	on(st, "GetTableLayout", false, func(d *document.Document, t *document.Table) { _ = t.GetTableLayout() })
	on(st, "GetTableBreakInfo", false, func(d *document.Document, t *document.Table) { _ = t.GetTableBreakInfo() })
	on(st, "CopyTable", false, func(d *document.Document, t *document.Table) {
		if c := t.CopyTable(); c != nil {
			_ = c.GetRowCount()
			_ = c.GetColumnCount()
			_, _ = c.GetCellText(0, 0)
		}
	})

	st = "table-cell-edit"
	// first call of the stage: the cells are still as the input left them (possibly without any paragraph)
	on(st, "SetCellFormat(partial configurations)", true, func(d *document.Document, t *document.Table) {
		// one field group at a time: each group takes its own path through the setter
		for _, cf := range []*document.CellFormat{
			{TextFormat: tf},
			{HorizontalAlign: document.CellAlignRight},
			{VerticalAlign: document.CellVAlignBottom},
			{TextDirection: document.TextDirectionTB},
			{BackgroundColor: "ABCDEF"},
			{BorderStyle: "single"},
			{Padding: 2},
			{},
		} {
			for _, p := range cells(t) {
				_ = t.SetCellFormat(p[0], p[1], cf)
			}
		}
	})
	if !b.fresh {
		b.reopen()
	}
	on(st, "SetCellText", true, func(d *document.Document, t *document.Table) {
		for _, p := range cells(t) {
			_ = t.SetCellText(p[0], p[1], "set {{v}}")
		}
	})
	on(st, "SetCellFormat", true, func(d *document.Document, t *document.Table) {
		cf := &document.CellFormat{TextFormat: tf, HorizontalAlign: document.CellAlignCenter, VerticalAlign: document.CellVAlignCenter, TextDirection: document.TextDirectionTB, BackgroundColor: "EEEEEE", BorderStyle: "single", Padding: 3}
		for _, p := range cells(t) {
			_ = t.SetCellFormat(p[0], p[1], cf)
		}
	})
	on(st, "SetCellFormattedText", true, func(d *document.Document, t *document.Table) {
		for _, p := range cells(t) {
			_ = t.SetCellFormattedText(p[0], p[1], "ft", tf)
		}
	})
	on(st, "AddCellFormattedText", true, func(d *document.Document, t *document.Table) {
		for _, p := range cells(t) {
			_ = t.AddCellFormattedText(p[0], p[1], "more", tf)
		}
	})
	on(st, "AddCellParagraph", true, func(d *document.Document, t *document.Table) {
		for _, p := range cells(t) {
			_, _ = t.AddCellParagraph(p[0], p[1], "para")
		}
	})
	on(st, "AddCellFormattedParagraph", true, func(d *document.Document, t *document.Table) {
		for _, p := range cells(t) {
			_, _ = t.AddCellFormattedParagraph(p[0], p[1], "fpara", tf)
		}
	})
	on(st, "SetCellPadding", true, func(d *document.Document, t *document.Table) {
		for _, p := range cells(t) {
			_ = t.SetCellPadding(p[0], p[1], 4)
		}
	})
	on(st, "SetCellTextDirection", true, func(d *document.Document, t *document.Table) {
		for _, p := range cells(t) {
			_ = t.SetCellTextDirection(p[0], p[1], document.TextDirectionBT)
		}
	})
	on(st, "SetCellBorders", true, func(d *document.Document, t *document.Table) {
		for _, p := range cells(t) {
			_ = t.SetCellBorders(p[0], p[1], &document.CellBorderConfig{Top: bc, Left: bc, Bottom: bc, Right: bc, DiagDown: bc, DiagUp: bc})
		}
	})
	on(st, "SetCellShading", true, func(d *document.Document, t *document.Table) {
		for _, p := range cells(t) {
			_ = t.SetCellShading(p[0], p[1], &document.ShadingConfig{Pattern: document.ShadingPatternClear, ForegroundColor: "auto", BackgroundColor: "CCCCCC"})
		}
	})
	on(st, "RemoveCellBorders", true, func(d *document.Document, t *document.Table) {
		for _, p := range cells(t) {
			_ = t.RemoveCellBorders(p[0], p[1])
		}
	})
	on(st, "AddNestedTable", true, func(d *document.Document, t *document.Table) {
		for _, p := range cells(t) {
			_, _ = t.AddNestedTable(p[0], p[1], &document.TableConfig{Rows: 1, Cols: 1, Width: 500})
		}
	})
	on(st, "AddCellList", true, func(d *document.Document, t *document.Table) {
		for _, p := range cells(t) {
			_ = t.AddCellList(p[0], p[1], &document.CellListConfig{Type: document.ListTypeBullet, BulletSymbol: document.BulletTypeDot, Items: []string{"i1", "i2"}})
		}
	})
	on(st, "AddCellImageFromData", true, func(d *document.Document, t *document.Table) {
		_, _ = d.AddCellImageFromData(t, 0, 0, pngBytes(2, 2, 5), 10)
	})
	b.resave(fmt.Sprintf("after-cell-edits(table %d)", ti), b.d)
	on(st, "ClearCellFormat", true, func(d *document.Document, t *document.Table) {
		for _, p := range cells(t) {
			_ = t.ClearCellFormat(p[0], p[1])
		}
	})
	on(st, "ClearCellParagraphs", true, func(d *document.Document, t *document.Table) {
		for _, p := range cells(t) {
			_ = t.ClearCellParagraphs(p[0], p[1])
		}
	})
	on(st, "ClearCellContent", true, func(d *document.Document, t *document.Table) {
		for _, p := range cells(t) {
			_ = t.ClearCellContent(p[0], p[1])
		}
	})
	b.resave(fmt.Sprintf("after-cell-clears(table %d)", ti), b.d)

	st = "table-format"
	if !b.fresh {
		b.reopen()
	}
	on(st, "SetRowHeight", true, func(d *document.Document, t *document.Table) {
		for _, r := range rowsOf(t) {
			_ = t.SetRowHeight(r, &document.RowHeightConfig{Height: 20, Rule: document.RowHeightExact})
		}
	})
	on(st, "SetRowHeightRange", true, func(d *document.Document, t *document.Table) {
		r := t.GetRowCount()
		_ = t.SetRowHeightRange(0, r-1, &document.RowHeightConfig{Height: 22, Rule: document.RowHeightMinimum})
		_ = t.SetRowHeightRange(0, r, &document.RowHeightConfig{Height: 22, Rule: document.RowHeightAuto})
	})
	on(st, "SetTableLayout", true, func(d *document.Document, t *document.Table) {
		_ = t.SetTableLayout(&document.TableLayoutConfig{Alignment: document.TableAlignCenter, TextWrap: document.TextWrapAround, Position: document.PositionFloating,
			Positioning: &document.TablePositioning{LeftFromText: "10", RightFromText: "10", VertAnchor: "page", HorzAnchor: "page", TblpX: "5", TblpY: "5"}})
	})
	on(st, "SetTableAlignment", true, func(d *document.Document, t *document.Table) { _ = t.SetTableAlignment(document.TableAlignRight) })
	on(st, "SetRowKeepTogether/SetRowAsHeader/SetRowKeepWithNext", true, func(d *document.Document, t *document.Table) {
		for _, r := range rowsOf(t) {
			_ = t.SetRowKeepTogether(r, true)
			_ = t.SetRowAsHeader(r, true)
			_ = t.SetRowKeepWithNext(r, true)
			_ = t.SetRowAsHeader(r, false)
			_ = t.SetRowKeepTogether(r, false)
		}
	})
	on(st, "SetHeaderRows", true, func(d *document.Document, t *document.Table) {
		_ = t.SetHeaderRows(0, 0)
		_ = t.SetHeaderRows(0, t.GetRowCount())
	})
	on(st, "SetTablePageBreak", true, func(d *document.Document, t *document.Table) {
		_ = t.SetTablePageBreak(&document.TablePageBreakConfig{KeepWithNext: true, KeepLines: true, PageBreakBefore: true, WidowControl: true})
	})
	on(st, "ApplyTableStyle", true, func(d *document.Document, t *document.Table) {
		_ = t.ApplyTableStyle(&document.TableStyleConfig{Template: document.TableStyleTemplateGrid, FirstRowHeader: true, LastRowTotal: true, FirstColumnHeader: true, LastColumnTotal: true, BandedRows: true, BandedColumns: true})
	})
	on(st, "SetTableBorders", true, func(d *document.Document, t *document.Table) {
		_ = t.SetTableBorders(&document.TableBorderConfig{Top: bc, Left: bc, Bottom: bc, Right: bc, InsideH: bc, InsideV: bc})
	})
	on(st, "SetTableShading", true, func(d *document.Document, t *document.Table) {
		_ = t.SetTableShading(&document.ShadingConfig{Pattern: document.ShadingPatternClear, BackgroundColor: "DDDDDD"})
	})
	on(st, "SetAlternatingRowColors", true, func(d *document.Document, t *document.Table) { _ = t.SetAlternatingRowColors("EEEEEE", "FFFFFF") })
	on(st, "RemoveTableBorders", true, func(d *document.Document, t *document.Table) { _ = t.RemoveTableBorders() })
	on(st, "CreateCustomTableStyle", true, func(d *document.Document, t *document.Table) {
		_ = t.CreateCustomTableStyle("C06Style", "c06 style", &document.TableBorderConfig{Top: bc, Bottom: bc}, &document.ShadingConfig{Pattern: document.ShadingPatternClear, BackgroundColor: "ABCDEF"}, true)
	})
	on(st, "GetTableBreakInfo", false, func(d *document.Document, t *document.Table) { _ = t.GetTableBreakInfo(); _ = t.GetTableLayout() })
	b.resave(fmt.Sprintf("after-table-format(table %d)", ti), b.d)

	st = "table-structure"
	if !b.fresh {
		b.reopen()
	}
	row := func(t *document.Table) []string {
		n := t.GetColumnCount()
		if n < 0 || n > 64 {
			n = 1
		}
		out := make([]string, n)
		for i := range out {
			out[i] = "r"
		}
		return out
	}
	col := func(t *document.Table) []string {
		n := t.GetRowCount()
		if n < 0 || n > 100000 {
			n = 1
		}
		out := make([]string, n)
		for i := range out {
			out[i] = "c"
		}
		return out
	}
	on(st, "InsertColumn(0)", true, func(d *document.Document, t *document.Table) { _ = t.InsertColumn(0, col(t), 1000) })
	on(st, "DeleteColumn(0)", true, func(d *document.Document, t *document.Table) { _ = t.DeleteColumn(0) })
	on(st, "AppendColumn", true, func(d *document.Document, t *document.Table) { _ = t.AppendColumn(col(t), 1000) })
	on(st, "InsertColumn(out of range)", true, func(d *document.Document, t *document.Table) {
		_ = t.InsertColumn(t.GetColumnCount()+1, col(t), 1000)
		_ = t.InsertColumn(-1, col(t), 1000)
		_ = t.InsertColumn(0, nil, 0)
	})
	on(st, "InsertRow(0)", true, func(d *document.Document, t *document.Table) { _ = t.InsertRow(0, row(t)) })
	on(st, "AppendRow", true, func(d *document.Document, t *document.Table) { _ = t.AppendRow(row(t)) })
	on(st, "InsertRow(out of range / wrong width)", true, func(d *document.Document, t *document.Table) {
		_ = t.InsertRow(t.GetRowCount()+1, row(t))
		_ = t.InsertRow(-1, row(t))
		_ = t.InsertRow(0, []string{"only one", "two", "three", "four", "five", "six", "seven"})
		_ = t.InsertRow(0, nil)
	})
	b.resave(fmt.Sprintf("after-inserts(table %d)", ti), b.d)
	on(st, "MergeCellsHorizontal", true, func(d *document.Document, t *document.Table) {
		_ = t.MergeCellsHorizontal(0, 0, 1)
		_ = t.MergeCellsHorizontal(0, 0, t.GetColumnCount())
		_ = t.MergeCellsHorizontal(-1, 0, 1)
	})
	on(st, "MergeCellsVertical", true, func(d *document.Document, t *document.Table) {
		_ = t.MergeCellsVertical(0, 1, 0)
		_ = t.MergeCellsVertical(0, t.GetRowCount(), 0)
	})
	on(st, "MergeCellsRange", true, func(d *document.Document, t *document.Table) {
		r, c := t.GetRowCount(), t.GetColumnCount()
		_ = t.MergeCellsRange(r-2, r-1, c-2, c-1)
		_ = t.MergeCellsRange(0, r, 0, c)
	})
	on(st, "IsCellMerged/GetMergedCellInfo after merges", false, func(d *document.Document, t *document.Table) {
		for _, p := range cells(t) {
			_, _ = t.IsCellMerged(p[0], p[1])
			_, _ = t.GetMergedCellInfo(p[0], p[1])
		}
	})
	on(st, "UnmergeCells", true, func(d *document.Document, t *document.Table) {
		for _, p := range cells(t) {
			_ = t.UnmergeCells(p[0], p[1])
		}
	})
	b.resave(fmt.Sprintf("after-merges(table %d)", ti), b.d)
	on(st, "DeleteColumns", true, func(d *document.Document, t *document.Table) {
		_ = t.DeleteColumns(0, 0)
		_ = t.DeleteColumns(0, t.GetColumnCount())
		_ = t.DeleteColumns(-1, 0)
		_ = t.DeleteColumn(t.GetColumnCount())
	})
	on(st, "DeleteRow/DeleteRows", true, func(d *document.Document, t *document.Table) {
		_ = t.DeleteRow(0)
		_ = t.DeleteRow(t.GetRowCount())
		_ = t.DeleteRow(-1)
		_ = t.DeleteRows(0, 0)
		_ = t.DeleteRows(0, t.GetRowCount())
		_ = t.DeleteRows(1, 0)
	})
	on(st, "ClearTable", true, func(d *document.Document, t *document.Table) { t.ClearTable() })
	b.resave(fmt.Sprintf("after-deletes(table %d)", ti), b.d)
}

// tableSequences runs every ordered triple of seven structural table calls (column insert/delete, horizontal
// and vertical merge away from the first row/column, unmerge, row insert/delete) on table number ti, each triple
// on a freshly re-opened document; the document is re-saved when the triple left a table structure not seen
// before for this input.
func (b *c06Bat) tableSequences(ti int) {
	type sop struct {
		name string
		f    func(t *document.Table)
	}
	fill := func(n int, s string) []string {
		if n < 0 || n > 64 {
			n = 1
		}
		out := make([]string, n)
		for i := range out {
			out[i] = s
		}
		return out
	}
	ops := []sop{
		{"InsertColumn(0)", func(t *document.Table) { _ = t.InsertColumn(0, fill(t.GetRowCount(), "c"), 900) }},
		{"DeleteColumn(last)", func(t *document.Table) { _ = t.DeleteColumn(t.GetColumnCount() - 1) }},
		{"MergeCellsHorizontal(last row, 0..1)", func(t *document.Table) { _ = t.MergeCellsHorizontal(t.GetRowCount()-1, 0, 1) }},
		{"MergeCellsVertical(0..1, last column)", func(t *document.Table) { _ = t.MergeCellsVertical(0, 1, t.GetColumnCount()-1) }},
		{"UnmergeCells(last row, 0)", func(t *document.Table) { _ = t.UnmergeCells(t.GetRowCount()-1, 0) }},
		{"InsertRow(1)", func(t *document.Table) { _ = t.InsertRow(1, fill(t.GetColumnCount(), "r")) }},
		{"DeleteRow(0)", func(t *document.Table) { _ = t.DeleteRow(0) }},
	}
	shape := func(t *document.Table) string {
		s := ""
		if t.Grid != nil {
			s = fmt.Sprintf("g%d", len(t.Grid.Cols))
		}
		for _, r := range t.Rows {
			s += "|"
			for _, c := range r.Cells {
				s += fmt.Sprintf("%d", len(c.Paragraphs))
				if c.Properties != nil {
					if c.Properties.GridSpan != nil {
						s += "s" + c.Properties.GridSpan.Val
					}
					if c.Properties.VMerge != nil {
						s += "v" + c.Properties.VMerge.Val
					}
				}
				s += ","
			}
		}
		return s
	}
	seen := map[string]bool{}
	n := len(ops)
	// triples on tables with at least two rows and two cells in the first row, pairs on smaller ones
	total, length := n*n, 2
	if p := c06Guard(func() {
		if ts := c06Tables(b.d); ti < len(ts) && ts[ti] != nil && len(ts[ti].Rows) >= 2 && len(ts[ti].Rows[0].Cells) >= 2 {
			total, length = n*n*n, 3
		}
	}); p != nil {
		return
	}
	for i := 0; i < total && !b.failed; i++ {
		seq := []int{i / n % n, i % n}
		if length == 3 {
			seq = []int{i / (n * n), i / n % n, i % n}
		}
		b.reopen()
		if b.failed {
			return
		}
		if ts := c06Tables(b.d); ti >= len(ts) || ts[ti] == nil {
			return
		}
		name := ""
		// an iterator the caller made before the calls and keeps using after each of them
		var it *document.CellIterator
		b.call(fmt.Sprintf("table-sequence(table %d)", ti), "Table.NewCellIterator (kept)", false, func(d *document.Document) {
			if ts := c06Tables(d); ti < len(ts) && ts[ti] != nil {
				it = ts[ti].NewCellIterator()
			}
		})
		for k, o := range seq {
			if k > 0 {
				name += " ; "
			}
			name += ops[o].name
			op := ops[o]
			b.call(fmt.Sprintf("table-sequence(table %d)", ti), "Table: "+name, true, func(d *document.Document) {
				if ts := c06Tables(d); ti < len(ts) && ts[ti] != nil {
					op.f(ts[ti])
				}
			})
			if it != nil && k%2 == 0 {
				b.call(fmt.Sprintf("table-sequence(table %d)", ti), "walking a CellIterator made before: "+name, false, func(d *document.Document) {
					for n := 0; n < 4096 && it.HasNext(); n++ {
						if _, err := it.Next(); err != nil {
							break
						}
					}
					_ = it.Progress()
					_ = it.Total()
				})
			}
		}
		key := ""
		if p := c06Guard(func() {
			if ts := c06Tables(b.d); ti < len(ts) && ts[ti] != nil {
				key = shape(ts[ti])
			}
		}); p != nil || key == "" || seen[key] {
			continue
		}
		seen[key] = true
		b.resave(fmt.Sprintf("after-table-sequence(table %d)", ti), b.d)
	}
	b.w.c.P.Add("table_sequences_run", int64(total))
}
