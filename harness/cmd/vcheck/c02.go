package main

// C02 — relationships and relationship references always resolve, uniquely.

import (
	"encoding/json"
	"fmt"
	"strings"

	"github.com/zerx-lab/wordZero/pkg/document"

	"verif/harness/internal/foreign"
	"verif/harness/internal/pkgmodel"
	"verif/harness/internal/rep"
	"verif/harness/internal/seqx"
)

var c02Pool = []string{"rId1", "rId2", "rId3", "rId4", "rId7", "x1"}

type c02Rel struct{ Kind, ID string }

type c02Seed struct {
	Name     string
	Fresh    bool
	StylesID string
	Others   []c02Rel
}

var c02Seeds []c02Seed

func c02GenSeeds() {
	c02Seeds = append(c02Seeds, c02Seed{Name: "fresh", Fresh: true})
	kinds := []string{"image", "header", "numbering"}
	var rec func(others []c02Rel, used map[string]bool, stylesID string, n int)
	rec = func(others []c02Rel, used map[string]bool, stylesID string, n int) {
		nm := "styles=" + stylesID
		for _, o := range others {
			nm += "," + o.Kind + "=" + o.ID
		}
		c02Seeds = append(c02Seeds, c02Seed{Name: nm, StylesID: stylesID, Others: append([]c02Rel{}, others...)})
		if n == 0 {
			return
		}
		for _, k := range kinds {
			if k == "numbering" {
				dup := false
				for _, o := range others {
					if o.Kind == "numbering" {
						dup = true
					}
				}
				if dup {
					continue
				}
			}
			for _, id := range c02Pool {
				if used[id] {
					continue
				}
				used[id] = true
				rec(append(others, c02Rel{k, id}), used, stylesID, n-1)
				used[id] = false
			}
		}
	}
	for _, sid := range c02Pool {
		rec(nil, map[string]bool{sid: true}, sid, 2)
	}
	// one header part referenced twice (default and even pages use the same relationship id)
	for _, x := range [][2]string{{"rId1", "rId2"}, {"rId3", "rId7"}, {"rId2", "x1"}} {
		c02Seeds = append(c02Seeds, c02Seed{Name: "styles=" + x[0] + ",sharedheader=" + x[1], StylesID: x[0], Others: []c02Rel{{"sharedheader", x[1]}}})
	}
}

func (s c02Seed) origin() string {
	if s.Fresh {
		return "fresh"
	}
	// dense: styles is rId1 and the others are rId2..rIdk in order
	dense := s.StylesID == "rId1"
	for i, o := range s.Others {
		if o.ID != fmt.Sprintf("rId%d", i+2) {
			dense = false
		}
	}
	if dense {
		return "opened-dense-ids"
	}
	if s.StylesID != "rId1" {
		return "opened-styles-not-rId1"
	}
	return "opened-sparse-ids"
}

func (s c02Seed) build() []byte {
	p := foreign.New()
	p.Defaults["png"] = "image/png"
	p.Overrides["/word/styles.xml"] = foreign.CtStyles
	p.Add("word/styles.xml", foreign.StylesXML())
	p.DocRels = append(p.DocRels, foreign.Rel{ID: s.StylesID, Type: pkgmodel.RtStyles, Target: "styles.xml"})
	body := foreign.Para("seed")
	sect := ""
	nimg, nhdr := 0, 0
	hk := []string{"default", "first", "even"}
	for _, o := range s.Others {
		switch o.Kind {
		case "image":
			nimg++
			name := fmt.Sprintf("media/image%d.png", nimg)
			p.Add("word/"+name, pngBytes(3, 2, uint8(100+nimg)))
			p.DocRels = append(p.DocRels, foreign.Rel{ID: o.ID, Type: pkgmodel.RtImage, Target: name})
			body += foreign.DrawingPara(o.ID, nimg, 9525*3, 9525*2)
		case "header":
			nhdr++
			name := fmt.Sprintf("header%d.xml", nhdr)
			p.Add("word/"+name, foreign.HeaderXML("FH"))
			p.Overrides["/word/"+name] = foreign.CtHeader
			p.DocRels = append(p.DocRels, foreign.Rel{ID: o.ID, Type: pkgmodel.RtHeader, Target: name})
			sect += `<w:headerReference w:type="` + hk[(nhdr-1)%3] + `" r:id="` + o.ID + `"/>`
		case "sharedheader":
			nhdr++
			name := fmt.Sprintf("header%d.xml", nhdr)
			p.Add("word/"+name, foreign.HeaderXML("FH"))
			p.Overrides["/word/"+name] = foreign.CtHeader
			p.DocRels = append(p.DocRels, foreign.Rel{ID: o.ID, Type: pkgmodel.RtHeader, Target: name})
			sect += `<w:headerReference w:type="default" r:id="` + o.ID + `"/><w:headerReference w:type="even" r:id="` + o.ID + `"/>`
		case "numbering":
			p.Add("word/numbering.xml", foreign.NumberingXML())
			p.Overrides["/word/numbering.xml"] = foreign.CtNumbering
			p.DocRels = append(p.DocRels, foreign.Rel{ID: o.ID, Type: pkgmodel.RtNumbering, Target: "numbering.xml"})
			body += foreign.ListPara("item")
		}
	}
	body += `<w:sectPr>` + sect + `<w:pgSz w:w="11906" w:h="16838"/></w:sectPr>`
	p.Add(p.DocName, foreign.DocXML("w", body))
	return p.Bytes()
}

type c02Op struct {
	name string
	kind string
	arg  int
}

var c02Ops []c02Op
var c02SeedBase int

func init() {
	c02GenSeeds()
	base := []c02Op{
		{name: "AddImageFromData(png)", kind: "png"},
		{name: "AddImageFromData(jpeg)", kind: "jpeg"},
		{name: "AddTable+AddCellImage", kind: "cellimg"},
		{name: "AddHeader(default)", kind: "hdr", arg: 0}, {name: "AddHeader(first)", kind: "hdr", arg: 1}, {name: "AddHeader(even)", kind: "hdr", arg: 2},
		{name: "AddFooter(default)", kind: "ftr", arg: 0}, {name: "AddFooter(first)", kind: "ftr", arg: 1}, {name: "AddFooter(even)", kind: "ftr", arg: 2},
		{name: "AddListItem", kind: "list"},
		{name: "AddFootnote", kind: "fn"},
		{name: "AddEndnote", kind: "en"},
		{name: "RemoveFootnote(every own note)", kind: "fnrm"},
		{name: "RemoveEndnote(every own note)", kind: "enrm"},
		{name: "SetFootnoteConfig", kind: "fncfg"},
		{name: "SetTitle", kind: "title"},
		{name: "work on another document (build, save, reopen, render as template)", kind: "other"},
		{name: "AddParagraph({{#image pic}})", kind: "placeholder"},
		{name: "move the paragraph that holds the last body picture to the end (RemoveParagraph(handle), then Body.AddElement(handle))", kind: "movepic"},
		{name: "AddImageFromData(format \"bmp\": refused)", kind: "reject"},
		{name: "render-template(pic=png)", kind: "render"},
		{name: "render-template(no placeholder data: the render adds no relationship of its own)", kind: "render0"},
		{name: "reopen", kind: "reopen"},
	}
	c02Ops = append(c02Ops, base...)
	c02SeedBase = len(c02Ops)
	for i, s := range c02Seeds {
		c02Ops = append(c02Ops, c02Op{name: "seed:" + s.Name, kind: "seed", arg: i})
	}
	names := make([]string, len(c02Ops))
	for i, o := range c02Ops {
		names[i] = o.name
	}
	seqx.Register(&seqx.Spec{Name: "C02", Ops: names, New: func(args json.RawMessage) seqx.Inst {
		var a c02Args
		json.Unmarshal(args, &a)
		return &c02Inst{args: a}
	}})
	register("C02", "model_checking", runC02)
}

type c02Args struct {
	MaxOthers int `json:"max_others"`
	// Narrow: second search with a small alphabet (one header kind, two footer kinds, one picture, list,
	// footnote add/remove) from the fresh document only, explored deeper than the wide search
	Narrow bool `json:"narrow"`
	Shard     int `json:"shard"`
	NShards   int `json:"nshards"`
}

type c02Inst struct {
	args   c02Args
	doc    *document.Document
	origin string
	lastNT bool
	reop   int
	rend   int
	moved  int
	rej    int
	nph    int
	nfn    int
	nen    int
	seedOK string
}

var c02NarrowKinds = map[string]bool{"hdr0": true, "ftr0": true, "ftr1": true, "png": true, "list": true, "fn": true, "fnrm": true}

func (i *c02Inst) Enabled(op int) bool {
	o := c02Ops[op]
	if o.kind == "seed" {
		if i.doc != nil {
			return false
		}
		if i.args.Narrow {
			return c02Seeds[o.arg].Fresh
		}
		return len(c02Seeds[o.arg].Others) <= i.args.MaxOthers
	}
	if i.doc == nil {
		return false
	}
	if i.args.Narrow {
		k := o.kind
		if k == "hdr" || k == "ftr" {
			k += fmt.Sprint(o.arg)
		}
		if !c02NarrowKinds[k] {
			return false
		}
	}
	switch o.kind {
	case "fnrm":
		return i.nfn > 0
	case "enrm":
		return i.nen > 0
	case "reopen":
		return i.reop < 1
	case "render":
		return i.rend < 1 && i.nph > 0
	case "render0":
		return i.rend < 1
	case "movepic":
		return i.moved < 1 && c02LastPicturePara(i.doc) != nil
	case "reject":
		return i.rej < 1
	case "placeholder":
		return i.nph < 1
	}
	return true
}

func (i *c02Inst) Nontrivial() bool { return i.lastNT }

// c02LastPicturePara is the last top-level paragraph of the body that holds a drawing (nil if none).
func c02LastPicturePara(d *document.Document) *document.Paragraph {
	var last *document.Paragraph
	for _, e := range d.Body.Elements {
		if p, ok := e.(*document.Paragraph); ok {
			for k := range p.Runs {
				if p.Runs[k].Drawing != nil {
					last = p
				}
			}
		}
	}
	return last
}

func (i *c02Inst) Apply(op int) (string, []rep.Violation) {
	o := c02Ops[op]
	i.lastNT = true
	var viol []rep.Violation
	var err error
	kinds := []document.HeaderFooterType{document.HeaderFooterTypeDefault, document.HeaderFooterTypeFirst, document.HeaderFooterTypeEven}
	pan := guard(func() {
		switch o.kind {
		case "seed":
			document.VerifResetGlobals()
			s := c02Seeds[o.arg]
			i.origin = s.origin()
			if s.Fresh {
				i.doc = document.New()
				return
			}
			b := s.build()
			pk := pkgmodel.Read(b)
			if probs := append(pk.CheckWellFormed(), pk.CheckRelationships()...); len(probs) > 0 {
				panic(fmt.Sprintf("harness: foreign seed %s is not valid: %v", s.Name, probs))
			}
			d, e := reopen(b)
			if e != "" {
				viol = append(viol, rep.Violation{Sig: "open-failed|" + i.origin, Clause: "open", What: e})
				i.doc = document.New()
				return
			}
			i.doc = d
		case "png":
			_, err = i.doc.AddImageFromData(pngBytes(2, 1, 11), "a.png", document.ImageFormatPNG, 2, 1, nil)
		case "jpeg":
			_, err = i.doc.AddImageFromData(jpegBytes(4, 2, 12), "b.jpeg", document.ImageFormatJPEG, 4, 2, nil)
		case "cellimg":
			var t *document.Table
			t, err = i.doc.AddTable(&document.TableConfig{Rows: 1, Cols: 1, Width: 3000})
			if err == nil {
				_, err = i.doc.AddCellImage(t, 0, 0, &document.CellImageConfig{Data: pngBytes(1, 2, 13), Width: 10})
			}
		case "hdr":
			err = i.doc.AddHeader(kinds[o.arg], "H")
		case "ftr":
			err = i.doc.AddFooter(kinds[o.arg], "F")
		case "list":
			i.doc.AddListItem("li", &document.ListConfig{Type: document.ListTypeNumber})
		case "fn":
			err = i.doc.AddFootnote("t", "note")
			i.nfn++
		case "en":
			err = i.doc.AddEndnote("t", "note")
			i.nen++
		case "fnrm":
			// ids are decimal counters; an id that does not exist is refused, which is not judged here
			for id := 1; id <= 8; id++ {
				i.doc.RemoveFootnote(fmt.Sprint(id))
			}
			i.nfn = 0
		case "enrm":
			for id := 1; id <= 8; id++ {
				i.doc.RemoveEndnote(fmt.Sprint(id))
			}
			i.nen = 0
		case "fncfg":
			err = i.doc.SetFootnoteConfig(document.DefaultFootnoteConfig())
		case "title":
			err = i.doc.SetTitle("T")
		case "other":
			interfereRaw()
		case "placeholder":
			i.doc.AddParagraph("{{#image pic}}")
			i.nph++
		case "render":
			eng := document.NewTemplateEngine()
			if _, e := eng.LoadTemplateFromDocument("t", i.doc); e != nil {
				err = e
				return
			}
			data := document.NewTemplateData()
			data.SetImageFromData("pic", pngBytes(2, 2, 14), nil)
			d, e := eng.RenderTemplateToDocument("t", data)
			if e != nil || d == nil {
				err = fmt.Errorf("render: %v", e)
				return
			}
			i.doc = d
			i.rend++
		case "reject":
			if _, e := i.doc.AddImageFromData(pngBytes(2, 1, 15), "x.bmp", document.ImageFormat("bmp"), 2, 1, nil); e == nil {
				err = fmt.Errorf("an image of the unsupported format \"bmp\" was accepted")
			}
			i.rej++
		case "movepic":
			p := c02LastPicturePara(i.doc)
			if !i.doc.RemoveParagraph(p) {
				err = fmt.Errorf("RemoveParagraph(handle of a paragraph of the body) reports failure")
				return
			}
			i.doc.Body.AddElement(p)
			i.moved++
		case "render0":
			eng := document.NewTemplateEngine()
			if _, e := eng.LoadTemplateFromDocument("t", i.doc); e != nil {
				err = e
				return
			}
			d, e := eng.RenderTemplateToDocument("t", document.NewTemplateData())
			if e != nil || d == nil {
				err = fmt.Errorf("render: %v", e)
				return
			}
			i.doc = d
			i.rend++
		case "reopen":
			_, b, errS := saveRead(i.doc)
			if errS != "" {
				err = fmt.Errorf("save: %s", errS)
				return
			}
			d, e := reopen(b)
			if e != "" {
				err = fmt.Errorf("reopen: %s", e)
				return
			}
			i.doc = d
			i.reop++
		}
	})
	if pan != "" {
		if strings.HasPrefix(pan, "harness:") {
			panic(pan)
		}
		return "panic", append(viol, rep.Violation{Sig: "panic|" + panicClass(pan) + "|" + o.kind + "|" + i.origin, Clause: "panic", What: o.name + ": " + pan})
	}
	if err != nil {
		viol = append(viol, rep.Violation{Sig: "unexpected-error|" + o.kind + "|" + i.origin, Clause: "error", What: o.name + ": " + err.Error()})
		return "error", viol
	}
	return "ok", viol
}

func (i *c02Inst) Key() string {
	if i.doc == nil {
		return "init"
	}
	refs := ""
	for _, e := range i.doc.Body.Elements {
		if sp, ok := e.(*document.SectionProperties); ok {
			for _, r := range sp.HeaderReferences {
				refs += "h:" + r.Type + ":" + r.ID + ","
			}
			for _, r := range sp.FooterReferences {
				refs += "f:" + r.Type + ":" + r.ID + ","
			}
		}
	}
	return i.origin + "|" + refs + "|" + i.doc.VerifRelDump() + "|" + strings.Join(i.doc.VerifPartNames(), ",") + fmt.Sprintf("|n%d r%d t%d p%d f%v e%v", len(i.doc.Body.Elements), i.reop, i.rend, i.nph, i.nfn > 0, i.nen > 0) + "|" + i.doc.VerifNotesDump() + "|" + i.doc.VerifShallowState()
}

func (i *c02Inst) Deep() []rep.Violation {
	if i.doc == nil {
		return nil
	}
	pkg, _, errS := saveRead(i.doc)
	if errS != "" {
		return []rep.Violation{{Sig: "save-failed|" + i.origin, Clause: "save", What: errS}}
	}
	var out []rep.Violation
	for _, p := range pkg.CheckRelationships() {
		out = append(out, rep.Violation{Sig: p.Clause + "|" + p.Culprit + "|" + i.origin, Clause: p.Clause, What: p.String()})
	}
	return out
}

func runC02(r *rep.Run) {
	depth, maxOthers := 4, 1
	if r.Tier == "thorough" {
		depth, maxOthers = 4, 2
	}
	r.Rule = "BFS over relationship-creating histories (body/cell/template-placeholder images, headers and footers of all kinds, list, notes and their removal, settings, properties, render, reopen) from a fresh document and from every opened foreign package whose styles/image/header/numbering relationships carry every injective assignment of ids from {rId1,rId2,rId3,rId4,rId7,x1}; every distinct state is saved and the relationship-graph invariant evaluated by the independent reader (ids unique per rels part, internal targets present, types on the right owner, every r:id/r:embed resolves to a relationship of the matching type); signatures carry the origin class (fresh / opened dense / opened sparse / styles not rId1); non-trivial = every executed operation (all create or move relationships)"
	r.Bounds["depth_including_seed"] = depth
	r.Bounds["max_other_relationships_in_seed"] = maxOthers
	n := 0
	for _, s := range c02Seeds {
		if len(s.Others) <= maxOthers {
			n++
		}
	}
	r.Bounds["seeds"] = n
	r.Bounds["alphabet_without_seeds"] = c02SeedBase
	r.Merge(seqx.Search("C02", seqx.Opts{Depth: depth, Deadline: r.Deadline, Args: c02Args{MaxOthers: maxOthers}}))
	narrow := 5
	if r.Tier == "thorough" {
		narrow = 7
	}
	r.Bounds["narrow_depth_including_seed"] = narrow
	r.Bounds["narrow_alphabet"] = "AddHeader(default), AddFooter(default), AddFooter(first), AddImageFromData(png), AddListItem, AddFootnote, RemoveFootnote(every own note); fresh document only"
	r.Merge(seqx.Search("C02", seqx.Opts{Depth: narrow, Deadline: r.Deadline, Args: c02Args{Narrow: true}}))
}
