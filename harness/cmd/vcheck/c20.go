package main

// C20 — Word → Markdown export keeps reading order and text, and is stable.
//
// Exhaustive enumeration (shard engine) of small documents over the vocabulary the exporter
// recognises × run texts × export options.  Each case builds the document through the public
// document API, exports it, and judges the Markdown and the re-imported document with the four
// clauses of the statement:
//   (1) order        – the tokens of the body elements appear in the Markdown in body order
//   (2) text-count   – every run's text occurs exactly once
//   (3) marker       – bold/italic/strike/code of a run is expressed by Markdown markers
//   (4) roundtrip-*  – convert(md1) has the same block sequence and text; fixpoint – export of it equals md1

import (
	"encoding/json"
	"fmt"
	"os"
	"path/filepath"
	"sort"
	"strings"
	"time"
	"unicode"

	"github.com/zerx-lab/wordZero/pkg/document"
	"github.com/zerx-lab/wordZero/pkg/markdown"

	"verif/harness/internal/rep"
	"verif/harness/internal/shard"
)

const c20Worker = "c20"

func init() {
	register("C20", "model_checking", runC20)
	shard.Register(c20Worker, c20Work)
}

type c20Args struct {
	SeqLen  int `json:"seq_len"`  // part A: sequences of at most this many elements
	Runs    int `json:"runs"`     // part B: paragraphs of at most this many token runs
	MetaCtx int `json:"meta_ctx"` // part C: 1 = single meta element in 3 contexts, 2 = also pairs of meta elements
}

// ---------------------------------------------------------------------------
// input model

const (
	c20B = 1 // bold
	c20I = 2 // italic
	c20S = 4 // strike
	c20C = 8 // code font
)

func c20MaskName(m int) string {
	if m == 0 {
		return "plain"
	}
	var p []string
	if m&c20B != 0 {
		p = append(p, "bold")
	}
	if m&c20I != 0 {
		p = append(p, "italic")
	}
	if m&c20S != 0 {
		p = append(p, "strike")
	}
	if m&c20C != 0 {
		p = append(p, "code")
	}
	return strings.Join(p, "+")
}

type c20Run struct {
	Mask  int    `json:"mask"`
	Text  string `json:"text"`
	Tok   string `json:"tok,omitempty"` // the unique token inside Text ("" for a joiner run)
	Class string `json:"class,omitempty"`
}

type c20Elem struct {
	Kind    string     `json:"kind"` // h1 h2 h3 paragraph list quote code table empty
	Runs    []c20Run   `json:"runs,omitempty"`
	Cells   [][]c20Run `json:"cells,omitempty"` // table: rows × cols, one run per cell
	HdrBold bool       `json:"hdr_bold,omitempty"`
	Label   string     `json:"label"`
	// table with horizontally merged cells: built as a full Cols-wide grid, then MergeCellsHorizontal(row, from, to);
	// Cells holds the cells that remain (rows of different lengths)
	Merge []int `json:"merge,omitempty"` // cols, row, from, to
}

type c20Opts struct {
	GFM    bool   `json:"gfm_tables"`
	Setext bool   `json:"setext"`
	Bullet string `json:"bullet"`
	Emph   string `json:"emphasis"`
	Wrap   bool   `json:"wrap"`
}

const c20WrapLen = 6

var c20Bullets = []string{"-", "*", "+"}
var c20Emphs = []string{"*", "_"}

// option index: 0..47; index 0 is the library default (GFM on, ATX, "-", "*", no wrap)
func c20OptOf(i int) c20Opts {
	o := c20Opts{}
	o.GFM = i%2 == 0
	i /= 2
	o.Setext = i%2 == 1
	i /= 2
	o.Bullet = c20Bullets[i%3]
	i /= 3
	o.Emph = c20Emphs[i%2]
	i /= 2
	o.Wrap = i%2 == 1
	return o
}

func (o c20Opts) nonDefault() int {
	n := 0
	if !o.GFM {
		n++
	}
	if o.Setext {
		n++
	}
	if o.Bullet != "-" {
		n++
	}
	if o.Emph != "*" {
		n++
	}
	if o.Wrap {
		n++
	}
	return n
}

func (o c20Opts) export() *markdown.ExportOptions {
	e := markdown.DefaultExportOptions()
	e.UseGFMTables = o.GFM
	e.UseSetext = o.Setext
	e.BulletListMarker = o.Bullet
	e.EmphasisMarker = o.Emph
	e.WrapLongLines = o.Wrap
	if o.Wrap {
		e.MaxLineLength = c20WrapLen
	}
	return e
}

func c20Tok(pos, j int) string { return fmt.Sprintf("K%d%c", pos, 'a'+j) }

// text classes (DESIGN §4 C20): t, a*b, _x_, "# h", a|b, "1. x", "`", " t "
var c20Classes = []string{"t", "star", "under", "hash", "pipe", "ordered", "tick", "space", "words", "cjk"}

var c20MidMarks = map[string]string{"mid-dash": "-", "mid-plus": "+", "mid-gt": ">", "mid-hash": "#", "mid-ord": "1.", "mid-ordp": "2)", "mid-star": "*",
	"end-eq": "===", "end-dash": "---", "end-hash": "##"}

var c20MidClasses = []string{"mid-dash", "mid-plus", "mid-gt", "mid-hash", "mid-ord", "mid-ordp", "mid-star", "end-eq", "end-dash", "end-hash"}

func c20Text(class, tok string) string {
	switch class {
	case "star":
		return tok + "*b"
	case "under":
		return "_" + tok + "_"
	case "hash":
		return "# " + tok
	case "pipe":
		return tok + "|b"
	case "ordered":
		return "1. " + tok
	case "tick":
		return tok + "`b"
	case "space":
		return " " + tok + " "
	case "words":
		return tok + " w"
	case "cjk":
		// words that end and begin with East Asian characters: a wrapped export folds between them
		return tok + "漢 字"
	}
	// a block marker as a word of its own after a six-letter word: under wrapping at 6 the marker is the first
	// word of a continuation line (seed C20-d1); "end-*": the marker is the last word, alone on its line
	if m, ok := c20MidMarks[class]; ok {
		if strings.HasPrefix(class, "end-") {
			return tok + "xyz " + m
		}
		return tok + "xyz " + m + " w"
	}
	return tok
}

func c20R(pos, j, mask int, class string) c20Run {
	t := c20Tok(pos, j)
	return c20Run{Mask: mask, Text: c20Text(class, t), Tok: t, Class: class}
}

func c20Para(pos int, masks []int, tight bool, class string) c20Elem {
	e := c20Elem{Kind: "paragraph"}
	var names []string
	for j, m := range masks {
		if j > 0 && !tight {
			e.Runs = append(e.Runs, c20Run{Mask: 0, Text: " "})
		}
		e.Runs = append(e.Runs, c20R(pos, j, m, class))
		names = append(names, c20MaskName(m))
	}
	e.Label = "p[" + strings.Join(names, map[bool]string{true: "", false: " "}[tight]+"|") + "]"
	if class != "t" {
		e.Label += ":" + class
	}
	return e
}

func c20Simple(kind string, pos, mask int, class string) c20Elem {
	e := c20Elem{Kind: kind, Runs: []c20Run{c20R(pos, 0, mask, class)}, Label: kind}
	if mask != 0 {
		e.Label += "[" + c20MaskName(mask) + "]"
	}
	if class != "t" {
		e.Label += ":" + class
	}
	return e
}

// c20Table builds a 2×2 table; (mr,mc) is the cell that carries mask/class (others plain "t").
func c20Table(pos int, hdrBold bool, mr, mc, mask int, class string) c20Elem {
	e := c20Elem{Kind: "table", HdrBold: hdrBold, Label: "table2x2"}
	if hdrBold {
		e.Label = "table2x2(bold header)"
	}
	j := 0
	for r := 0; r < 2; r++ {
		var row []c20Run
		for c := 0; c < 2; c++ {
			if r == mr && c == mc {
				row = append(row, c20R(pos, j, mask, class))
			} else {
				m := 0
				if hdrBold && r == 0 {
					m = c20B
				}
				row = append(row, c20R(pos, j, m, "t"))
			}
			j++
		}
		e.Cells = append(e.Cells, row)
	}
	if mr >= 0 && (mask != 0 || class != "t") {
		e.Label += fmt.Sprintf("{cell %d,%d %s:%s}", mr, mc, c20MaskName(mask), class)
	}
	return e
}

// c20Table1 builds a table with a single row (a GFM table that consists of its header row only).
func c20Table1(pos int) c20Elem {
	e := c20Elem{Kind: "table", Label: "table1x2(header row only)"}
	e.Cells = append(e.Cells, []c20Run{c20R(pos, 0, 0, "t"), c20R(pos, 1, 0, "t")})
	return e
}

// part A alphabet
const c20NA = 16

func c20ElemA(code, pos int) c20Elem {
	switch code {
	case 0:
		return c20Simple("h1", pos, 0, "t")
	case 1:
		return c20Simple("h2", pos, 0, "t")
	case 2:
		return c20Simple("h3", pos, 0, "t")
	case 3:
		return c20Para(pos, []int{0}, true, "t")
	case 4:
		return c20Para(pos, []int{c20B}, true, "t")
	case 5:
		return c20Para(pos, []int{c20I}, true, "t")
	case 6:
		return c20Para(pos, []int{c20S}, true, "t")
	case 7:
		return c20Para(pos, []int{c20C}, true, "t")
	case 8:
		return c20Para(pos, []int{0, c20B}, false, "t")
	case 9:
		return c20Simple("list", pos, 0, "t")
	case 10:
		return c20Simple("quote", pos, 0, "t")
	case 11:
		return c20Simple("code", pos, 0, "t")
	case 12:
		return c20Table(pos, false, -1, -1, 0, "t")
	case 13:
		return c20Table(pos, true, -1, -1, 0, "t")
	case 14:
		return c20Table1(pos)
	}
	return c20Elem{Kind: "empty", Label: "empty"}
}

// containers of parts B2 / C
var c20Containers = []string{"h1", "h2", "h3", "paragraph", "list", "quote", "code", "cellH", "cellB"}

func c20InContainer(cont string, pos, mask int, class string) c20Elem {
	switch cont {
	case "paragraph":
		return c20Para(pos, []int{mask}, true, class)
	case "cellH":
		return c20Table(pos, false, 0, 0, mask, class)
	case "cellB":
		return c20Table(pos, false, 1, 1, mask, class)
	}
	return c20Simple(cont, pos, mask, class)
}

// ---------------------------------------------------------------------------
// building the document through the public API

func c20Format(mask int) *document.TextFormat {
	if mask == 0 {
		return nil
	}
	f := &document.TextFormat{Bold: mask&c20B != 0, Italic: mask&c20I != 0, Strike: mask&c20S != 0}
	if mask&c20C != 0 {
		f.FontFamily = "Consolas"
	}
	return f
}

func c20ApplyMask(p *document.Paragraph, mask int) {
	// formats the paragraph's runs through the public paragraph setters
	if mask&c20B != 0 {
		p.SetBold(true)
	}
	if mask&c20I != 0 {
		p.SetItalic(true)
	}
	if mask&c20S != 0 {
		p.SetStrike(true)
	}
	if mask&c20C != 0 {
		p.SetFontFamily("Consolas")
	}
}

func c20Build(els []c20Elem) (*document.Document, error) {
	doc := document.New()
	for _, e := range els {
		switch e.Kind {
		case "h1", "h2", "h3":
			p := doc.AddHeadingParagraph(e.Runs[0].Text, int(e.Kind[1]-'0'))
			c20ApplyMask(p, e.Runs[0].Mask)
		case "paragraph":
			var p *document.Paragraph
			for i, r := range e.Runs {
				if i == 0 {
					if r.Mask == 0 {
						p = doc.AddParagraph(r.Text)
					} else {
						p = doc.AddFormattedParagraph(r.Text, c20Format(r.Mask))
					}
				} else {
					p.AddFormattedText(r.Text, c20Format(r.Mask))
				}
			}
		case "list":
			p := doc.AddBulletList(e.Runs[0].Text, 0, document.BulletTypeDot)
			c20ApplyMask(p, e.Runs[0].Mask)
		case "quote":
			p := doc.AddParagraph(e.Runs[0].Text)
			p.SetStyle("Quote")
			c20ApplyMask(p, e.Runs[0].Mask)
		case "code":
			p := doc.AddParagraph(e.Runs[0].Text)
			p.SetStyle("CodeBlock")
			c20ApplyMask(p, e.Runs[0].Mask)
		case "empty":
			doc.AddParagraph("")
		case "table":
			cfg := &document.TableConfig{Rows: len(e.Cells), Cols: len(e.Cells[0]), Width: 9000}
			if len(e.Merge) == 4 {
				// full grid first: the merged row gets empty cells where the merge will swallow them
				cfg.Cols = e.Merge[0]
				for r, row := range e.Cells {
					var d []string
					for c := 0; c < cfg.Cols; c++ {
						src := c
						if r == e.Merge[1] {
							switch {
							case c > e.Merge[2] && c <= e.Merge[3]:
								src = -1
							case c > e.Merge[3]:
								src = c - (e.Merge[3] - e.Merge[2])
							}
						}
						if src >= 0 && src < len(row) {
							d = append(d, row[src].Text)
						} else {
							d = append(d, "")
						}
					}
					cfg.Data = append(cfg.Data, d)
				}
				t, err := doc.AddTable(cfg)
				if err != nil {
					return nil, err
				}
				if err := t.MergeCellsHorizontal(e.Merge[1], e.Merge[2], e.Merge[3]); err != nil {
					return nil, err
				}
				continue
			}
			for _, row := range e.Cells {
				var d []string
				var em []int
				for _, c := range row {
					d = append(d, c.Text)
					switch {
					case c.Mask == c20B:
						em = append(em, 2)
					case c.Mask == c20I:
						em = append(em, 1)
					default:
						em = append(em, 0)
					}
				}
				cfg.Data = append(cfg.Data, d)
				cfg.Emphases = append(cfg.Emphases, em)
			}
			t, err := doc.AddTable(cfg)
			if err != nil {
				return nil, err
			}
			for r, row := range e.Cells {
				for c, cr := range row {
					if cr.Mask != 0 && cr.Mask != c20B && cr.Mask != c20I {
						// other combinations: set the run properties of the cell's run through the exported fields
						run := &t.Rows[r].Cells[c].Paragraphs[0].Runs[0]
						rp := &document.RunProperties{}
						if cr.Mask&c20B != 0 {
							rp.Bold = &document.Bold{}
						}
						if cr.Mask&c20I != 0 {
							rp.Italic = &document.Italic{}
						}
						if cr.Mask&c20S != 0 {
							rp.Strike = &document.Strike{}
						}
						if cr.Mask&c20C != 0 {
							rp.FontFamily = &document.FontFamily{ASCII: "Consolas", HAnsi: "Consolas"}
						}
						run.Properties = rp
					}
				}
			}
		}
	}
	return doc, nil
}

// ---------------------------------------------------------------------------
// independent reading of a document into blocks

type c20Seg struct {
	Mask int
	Text string
}

type c20Block struct {
	Kind  string // h<N> paragraph list quote code table empty
	Text  string
	Segs  []c20Seg
	Cells [][]string
	CSegs [][][]c20Seg
}

func c20RunMask(r *document.Run) int {
	m := 0
	if p := r.Properties; p != nil {
		if p.Bold != nil {
			m |= c20B
		}
		if p.Italic != nil {
			m |= c20I
		}
		if p.Strike != nil {
			m |= c20S
		}
		if p.FontFamily != nil && (p.FontFamily.ASCII == "Consolas" || p.FontFamily.ASCII == "Courier New") {
			m |= c20C
		}
	}
	return m
}

func c20ParaSegs(p *document.Paragraph) (string, []c20Seg) {
	var segs []c20Seg
	var b strings.Builder
	for i := range p.Runs {
		t := p.Runs[i].Text.Content
		if t == "" {
			continue
		}
		b.WriteString(t)
		m := c20RunMask(&p.Runs[i])
		if n := len(segs); n > 0 && segs[n-1].Mask == m {
			segs[n-1].Text += t
		} else {
			segs = append(segs, c20Seg{m, t})
		}
	}
	return b.String(), segs
}

func c20Blocks(doc *document.Document) []c20Block {
	var out []c20Block
	if doc == nil || doc.Body == nil {
		return out
	}
	for _, el := range doc.Body.Elements {
		switch v := el.(type) {
		case *document.Paragraph:
			txt, segs := c20ParaSegs(v)
			b := c20Block{Kind: "paragraph", Text: txt, Segs: segs}
			style := ""
			if v.Properties != nil && v.Properties.ParagraphStyle != nil {
				style = v.Properties.ParagraphStyle.Val
			}
			switch {
			case strings.HasPrefix(style, "Heading") && len(style) == 8 && style[7] >= '1' && style[7] <= '9':
				b.Kind = "h" + style[7:]
			case style == "Quote":
				b.Kind = "quote"
			case style == "CodeBlock":
				b.Kind = "code"
			case v.Properties != nil && v.Properties.NumberingProperties != nil:
				b.Kind = "list"
			case txt == "":
				b.Kind = "empty"
			}
			out = append(out, b)
		case *document.Table:
			b := c20Block{Kind: "table"}
			for ri := range v.Rows {
				var row []string
				var rs [][]c20Seg
				for ci := range v.Rows[ri].Cells {
					var t strings.Builder
					var cs []c20Seg
					for pi := range v.Rows[ri].Cells[ci].Paragraphs {
						s, sg := c20ParaSegs(&v.Rows[ri].Cells[ci].Paragraphs[pi])
						t.WriteString(s)
						cs = append(cs, sg...)
					}
					row = append(row, t.String())
					rs = append(rs, cs)
				}
				b.Cells = append(b.Cells, row)
				b.CSegs = append(b.CSegs, rs)
			}
			out = append(out, b)
		}
	}
	return out
}

func (b *c20Block) allText() string {
	if b.Kind != "table" {
		return b.Text
	}
	var s []string
	for _, r := range b.Cells {
		s = append(s, strings.Join(r, "\x1f"))
	}
	return strings.Join(s, "\x1e")
}

func c20SegsString(b *c20Block) string {
	var sb strings.Builder
	w := func(segs []c20Seg) {
		for _, s := range segs {
			if strings.TrimSpace(s.Text) == "" {
				sb.WriteString(s.Text)
				continue
			}
			fmt.Fprintf(&sb, "<%d:%s>", s.Mask, s.Text)
		}
	}
	if b.Kind == "table" {
		for _, r := range b.CSegs {
			for _, c := range r {
				w(c)
				sb.WriteString("|")
			}
			sb.WriteString("/")
		}
	} else {
		w(b.Segs)
	}
	return sb.String()
}

// ---------------------------------------------------------------------------
// oracle helpers

type c20TokInfo struct {
	Tok   string
	El    int // element index in the input
	Kind  string
	Run   *c20Run
	Cell  bool
	First bool // first token run of its element
}

func c20Tokens(els []c20Elem) []c20TokInfo {
	var out []c20TokInfo
	for i := range els {
		e := &els[i]
		first := true
		for j := range e.Runs {
			if e.Runs[j].Tok != "" {
				out = append(out, c20TokInfo{Tok: e.Runs[j].Tok, El: i, Kind: e.Kind, Run: &e.Runs[j], First: first})
				first = false
			}
		}
		for r := range e.Cells {
			for c := range e.Cells[r] {
				out = append(out, c20TokInfo{Tok: e.Cells[r][c].Tok, El: i, Kind: e.Kind, Run: &e.Cells[r][c], Cell: true, First: first})
				first = false
			}
		}
	}
	return out
}

func c20ElemText(e *c20Elem) string {
	var b strings.Builder
	for _, r := range e.Runs {
		b.WriteString(r.Text)
	}
	return b.String()
}

// variant label of an element kind under the options (the rendering path it takes)
func c20Variant(kind string, o c20Opts) string {
	switch kind {
	case "table":
		if o.GFM {
			return "table:gfm"
		}
		return "table:simple"
	case "h1", "h2":
		if o.Setext {
			return kind + ":setext"
		}
		return kind + ":atx"
	}
	return kind
}

func c20Class(kind string) string {
	if kind == "table" {
		return "table"
	}
	return "paragraph"
}

func c20Unescape(s string) string {
	var b strings.Builder
	for i := 0; i < len(s); i++ {
		if s[i] == '\\' && i+1 < len(s) && strings.ContainsRune("!\"#$%&'()*+,-./:;<=>?@[\\]^_`{|}~", rune(s[i+1])) {
			continue
		}
		b.WriteByte(s[i])
	}
	return b.String()
}

func c20RuneDiff(want, got string) (lost, gained string) {
	cw := map[rune]int{}
	for _, r := range want {
		cw[r]++
	}
	for _, r := range got {
		cw[r]--
	}
	var l, g []string
	for r, n := range cw {
		if unicode.IsSpace(r) {
			continue
		}
		if n > 0 {
			l = append(l, string(r))
		} else if n < 0 {
			g = append(g, string(r))
		}
	}
	sort.Strings(l)
	sort.Strings(g)
	return strings.Join(l, ""), strings.Join(g, "")
}

func c20Collapse(s string) string { return strings.Join(strings.Fields(s), " ") }

func c20TextDiff(want, got string) string {
	switch {
	case strings.TrimSpace(want) == strings.TrimSpace(got):
		return "outer-whitespace"
	case c20Collapse(want) == c20Collapse(got):
		return "inner-whitespace"
	}
	l, g := c20RuneDiff(want, got)
	if l == "" && g == "" {
		if strings.Join(strings.Fields(want), "") == strings.Join(strings.Fields(got), "") {
			return "whitespace-lost"
		}
		return "reordered"
	}
	if l == "" && strings.Trim(g, "*_~`") == "" {
		return "literal-markers"
	}
	var p []string
	if l != "" {
		p = append(p, "lost:"+l)
	}
	if g != "" {
		p = append(p, "literal:"+g)
	}
	return strings.Join(p, ",")
}

func c20IsMarker(c byte) bool { return c == '*' || c == '_' || c == '~' || c == '`' }

func c20Emph(s string) int { return strings.Count(s, "*") + strings.Count(s, "_") }

// c20CheckMarkers judges clause (3) for one run given the marker strings found around its text.
func c20CheckMarkers(mask int, open, close string, heading bool) string {
	want := 0
	name := "unrequested-emphasis"
	switch {
	case mask&c20B != 0 && mask&c20I != 0:
		want, name = 3, "bold+italic"
	case mask&c20B != 0:
		want, name = 2, "bold"
	case mask&c20I != 0:
		want, name = 1, "italic"
	}
	okE := func(n int) bool {
		if n == want {
			return true
		}
		// a heading is bold by its style; expressing that bold again is optional
		return heading && mask&c20B != 0 && n == want-2
	}
	if !okE(c20Emph(open)) || !okE(c20Emph(close)) {
		if c20Emph(open) > want && want > 0 || c20Emph(close) > want && want > 0 {
			return name + "-excess"
		}
		return name
	}
	hs := strings.Contains(open, "~~") && strings.Contains(close, "~~")
	if mask&c20S != 0 && !hs {
		return "strike"
	}
	if mask&c20S == 0 && (strings.Contains(open, "~") || strings.Contains(close, "~")) {
		return "unrequested-strike"
	}
	hc := strings.Contains(open, "`") && strings.Contains(close, "`")
	if mask&c20C != 0 && !hc {
		return "code"
	}
	if mask&c20C == 0 && (strings.Contains(open, "`") || strings.Contains(close, "`")) {
		return "unrequested-code"
	}
	// delimiters of different kinds must be closed in the reverse order of their opening, else they do not nest
	rev := []byte(open)
	for i, j := 0, len(rev)-1; i < j; i, j = i+1, j-1 {
		rev[i], rev[j] = rev[j], rev[i]
	}
	if string(rev) != close {
		return "unbalanced-nesting"
	}
	return ""
}

// ---------------------------------------------------------------------------
// one case

type c20Result struct {
	Viol    []rep.Violation
	MD1     string
	MD2     string
	Outcome string
	NonTriv bool
	Steps   int64 // export / convert executions of the library in this case
	Chain   bool  // the whole chain doc -> md1 -> doc2 -> md2 ran on the implementation and was judged
}

var c20Conv *markdown.Converter

func c20Export(doc *document.Document, o c20Opts) (md string, fail string) {
	var err error
	// other configurations exist in the same process (the library's high-quality preset and a customised
	// copy of the defaults); the library default itself is requested the way a caller would: with nil options
	hq := markdown.HighQualityExportOptions()
	hq.UseGFMTables = false
	opts := o.export()
	if o.nonDefault() == 0 {
		opts = nil
	}
	if p := guard(func() { md, err = markdown.NewExporter(nil).ExportToString(doc, opts) }); p != "" {
		return "", "panic|export|" + panicClass(p)
	}
	if err != nil {
		return "", "error|export"
	}
	return md, ""
}

var c20Decoys = map[string]*document.Document{}

// c20Decoy builds a small document that uses every element kind and ends with a list item / a table.
func c20Decoy(kind string) *document.Document {
	if d, ok := c20Decoys[kind]; ok {
		return d
	}
	d := document.New()
	d.AddHeadingParagraph("Decoy heading", 1)
	p := d.AddParagraph("decoy *text* with [brackets] ")
	p.AddFormattedText("bold", &document.TextFormat{Bold: true})
	q := d.AddParagraph("decoy quote")
	q.SetStyle("Quote")
	c := d.AddParagraph("decoy code")
	c.SetStyle("CodeBlock")
	if kind == "table" {
		d.AddBulletList("decoy item", 0, document.BulletTypeDot)
		t, err := d.AddTable(&document.TableConfig{Rows: 2, Cols: 2, Width: 9000})
		if err == nil {
			t.SetCellText(0, 0, "dh1")
			t.SetCellText(0, 1, "dh2")
			t.SetCellText(1, 0, "d|c1")
			t.SetCellText(1, 1, "dc2")
		}
	} else {
		t, err := d.AddTable(&document.TableConfig{Rows: 1, Cols: 2, Width: 9000})
		if err == nil {
			t.SetCellText(0, 0, "dh1")
			t.SetCellText(0, 1, "dh2")
		}
		d.AddBulletList("decoy item one", 0, document.BulletTypeDot)
		d.AddBulletList("decoy item two", 0, document.BulletTypeDot)
	}
	c20Decoys[kind] = d
	return d
}

// c20ReusedExport exports decoy, doc, doc with ONE exporter object and compares the two exports of doc with
// the export a fresh exporter gives.  how = "" when all agree.
func c20ReusedExport(doc *document.Document, o c20Opts, decoy string) (got string, how string) {
	fresh, fail := c20Export(doc, o)
	if fail != "" {
		return "", ""
	}
	opts := o.export()
	if o.nonDefault() == 0 {
		opts = nil
	}
	// the byte slices ExportToBytes returns are kept by the caller and read only after all exports are done
	var a, b []byte
	var e0, e1, e2, e3 error
	if p := guard(func() {
		ex := markdown.NewExporter(nil)
		_, e0 = ex.ExportToBytes(c20Decoy(decoy), opts)
		a, e1 = ex.ExportToBytes(doc, opts)
		b, e2 = ex.ExportToBytes(doc, opts)
		_, e3 = ex.ExportToBytes(c20Decoy(decoy), opts)
	}); p != "" {
		return p, "panic|" + panicClass(p)
	}
	if e0 != nil || e1 != nil || e2 != nil || e3 != nil {
		return fmt.Sprint(e0, e1, e2, e3), "error"
	}
	if string(a) != fresh {
		return string(a), "first-export-after-decoy"
	}
	if string(b) != fresh {
		return string(b), "second-export-of-the-document"
	}
	return "", ""
}

func c20FileEntries(doc *document.Document, add func(sig, clause, what string, exp, got interface{})) {
	dir, err := os.MkdirTemp("", "vcheck-c20-")
	if err != nil {
		return
	}
	defer os.RemoveAll(dir)
	docx := filepath.Join(dir, "in.docx")
	if doc.Save(docx) != nil {
		return
	}
	opened, err := document.Open(docx)
	if err != nil {
		return
	}
	var ref string
	if p := guard(func() { ref, err = markdown.NewExporter(nil).ExportToString(opened, nil) }); p != "" || err != nil {
		return // judged by the main clauses
	}
	var e1, e2 error
	mdPath := filepath.Join(dir, "out.md")
	if p := guard(func() { e1 = markdown.NewExporter(nil).ExportToFile(docx, mdPath, nil) }); p != "" {
		add("panic|export|ExportToFile|"+panicClass(p), "totality", "ExportToFile panics: "+p, nil, nil)
		return
	}
	got, rerr := os.ReadFile(mdPath)
	if e1 != nil || rerr != nil {
		add("error|export|ExportToFile", "totality", fmt.Sprintf("ExportToFile of a document that ExportToString exports fails: %v %v", e1, rerr), nil, nil)
	} else if string(got) != ref {
		add("unstable|entry-point|ExportToFile", "fixpoint", "ExportToFile writes other Markdown than ExportToString gives for the same file opened", ref, string(got))
	}
	outDir := filepath.Join(dir, "batch")
	if p := guard(func() { e2 = markdown.NewExporter(nil).BatchExport([]string{docx}, outDir, nil) }); p != "" {
		add("panic|export|BatchExport|"+panicClass(p), "totality", "BatchExport panics: "+p, nil, nil)
		return
	}
	got, rerr = os.ReadFile(filepath.Join(outDir, "in.md"))
	if e2 != nil || rerr != nil {
		add("error|export|BatchExport", "totality", fmt.Sprintf("BatchExport of a document that ExportToString exports fails: %v %v", e2, rerr), nil, nil)
	} else if string(got) != ref {
		add("unstable|entry-point|BatchExport", "fixpoint", "BatchExport writes other Markdown than ExportToString gives for the same file opened", ref, string(got))
	}
}

func c20RunCase(els []c20Elem, o c20Opts) c20Result {
	var res c20Result
	add := func(sig, clause, what string, exp, got interface{}) {
		res.Viol = append(res.Viol, rep.Violation{Sig: sig, Clause: clause, What: what, Expect: exp, Got: got})
	}
	document.VerifResetGlobals()
	doc, err := c20Build(els)
	if err != nil {
		res.Outcome = "build-error"
		add("harness|build", "harness", "document could not be built: "+err.Error(), nil, nil)
		return res
	}
	orig := c20Blocks(doc)
	// sanity of the builder against the reader (the input must be what the model says)
	if len(orig) != len(els) {
		add("harness|model", "harness", fmt.Sprintf("built document has %d blocks, model %d", len(orig), len(els)), nil, nil)
		return res
	}
	for i := range els {
		wantText := c20ElemText(&els[i])
		if els[i].Kind == "table" {
			var rows []string
			for _, r := range els[i].Cells {
				var cs []string
				for _, c := range r {
					cs = append(cs, c.Text)
				}
				rows = append(rows, strings.Join(cs, "\x1f"))
			}
			wantText = strings.Join(rows, "\x1e")
		}
		if orig[i].Kind != els[i].Kind || orig[i].allText() != wantText {
			add("harness|model", "harness", fmt.Sprintf("built block %d is %s %q, model %s %q", i, orig[i].Kind, orig[i].allText(), els[i].Kind, wantText), nil, nil)
			return res
		}
	}

	md1, fail := c20Export(doc, o)
	if fail != "" {
		res.Outcome = fail
		add(fail, "totality", "export of the document fails: "+fail, nil, nil)
		return res
	}
	res.MD1 = md1
	res.Steps += 2
	if again, f2 := c20Export(doc, o); f2 != "" || again != md1 {
		add("unstable|same-document", "fixpoint", "two exports of the same document object differ", md1, again)
	}
	// (1a) an exporter object that is used for several documents (the way BatchExport and any caller that keeps
	// its exporter do): after a decoy document that ends inside a list / inside a table, and for a second export
	// of the same document, the Markdown must be what a fresh exporter gives - same document, same options
	for _, decoy := range []string{"list", "table"} {
		got, how := c20ReusedExport(doc, o, decoy)
		res.Steps += 3
		if how != "" {
			add("unstable|exporter-reuse|"+how+"|after-"+decoy+"-decoy", "fixpoint", "an exporter that has exported another document before ("+decoy+" decoy) gives other Markdown for this document than a fresh exporter ("+how+")", md1, got)
		}
	}
	toks := c20Tokens(els)
	res.NonTriv = len(toks) > 0 && strings.TrimSpace(md1) != ""

	// (2) every run's text exactly once (token count; whole text modulo backslash escapes and outer blanks)
	un := c20Unescape(md1)
	pos := make([]int, len(toks))
	countsOK := true
	for i, t := range toks {
		n := strings.Count(md1, t.Tok)
		pos[i] = strings.Index(md1, t.Tok)
		if n != 1 {
			countsOK = false
			cls := "missing"
			if n > 1 {
				cls = "duplicated"
			}
			add("text-count|"+c20Variant(t.Kind, o)+"|"+cls, "text-count", fmt.Sprintf("text %q of a %s occurs %d times in the Markdown", t.Tok, t.Kind, n), 1, n)
			continue
		}
		full := c20Collapse(t.Run.Text)
		if full != t.Tok && !strings.Contains(c20Collapse(md1), full) && !strings.Contains(c20Collapse(un), full) {
			add("text-count|"+c20Variant(t.Kind, o)+"|altered:"+t.Run.Class, "text-count", fmt.Sprintf("run text %q of a %s is not present in the Markdown", t.Run.Text, t.Kind), t.Run.Text, nil)
		}
	}
	// (1) body order
	orderBroken := false
	if countsOK {
		for i := 0; i+1 < len(toks); i++ {
			if pos[i] > pos[i+1] {
				a, b := toks[i], toks[i+1]
				var culprit string
				if c20Class(a.Kind) != c20Class(b.Kind) {
					culprit = c20Class(a.Kind) + "-before-" + c20Class(b.Kind)
				} else if a.El == b.El {
					culprit = "within-" + a.Kind
				} else {
					culprit = a.Kind + "-before-" + b.Kind
				}
				orderBroken = true
				add("order|"+culprit, "order", fmt.Sprintf("%s %q precedes %s %q in the body but follows it in the Markdown", a.Kind, a.Tok, b.Kind, b.Tok), nil, nil)
				break
			}
		}
	}
	// (3) markers (plain-token runs only; not inside code blocks; not in the simple table layout)
	if countsOK {
		for i := range els {
			e := &els[i]
			if e.Kind == "code" {
				continue
			}
			if e.Kind == "table" {
				if !o.GFM {
					continue
				}
				for r := range e.Cells {
					for c := range e.Cells[r] {
						run := &e.Cells[r][c]
						if run.Class != "t" {
							continue
						}
						p := strings.Index(md1, run.Tok)
						a, b := p, p+len(run.Tok)
						for a > 0 && c20IsMarker(md1[a-1]) {
							a--
						}
						for b < len(md1) && c20IsMarker(md1[b]) {
							b++
						}
						if cu := c20CheckMarkers(orig[i].cellMask(r, c), md1[a:p], md1[p+len(run.Tok):b], r == 0); cu != "" {
							add("marker|"+cu, "marker", fmt.Sprintf("table cell run %q with %s formatting is exported as %q", run.Tok, c20MaskName(run.Mask), md1[a:b]), nil, nil)
						}
					}
				}
				continue
			}
			// paragraph-like: walk the token runs left to right, splitting shared marker strings
			prevEnd := -1
			meta := false
			for _, r := range e.Runs {
				if r.Tok != "" && r.Class != "t" {
					meta = true
				}
			}
			if meta {
				continue
			}
			// actual masks as built (a heading run is bold through its style)
			masks := orig[i].tokMasks(e)
			// neighbouring runs with the same formatting may be written as one span (one pair of markers around
			// both): such a group is judged as one run
			type tokRun struct {
				Tok  string
				Mask int
			}
			var trs []tokRun
			k := 0
			for _, r := range e.Runs {
				if r.Tok == "" {
					continue
				}
				m := r.Mask
				if k < len(masks) {
					m = masks[k]
				}
				k++
				if n := len(trs); n > 0 && trs[n-1].Mask == m && m != 0 && strings.Contains(md1, trs[n-1].Tok+r.Tok) {
					trs[n-1].Tok += r.Tok
					continue
				}
				trs = append(trs, tokRun{r.Tok, m})
			}
			for _, r := range trs {
				p := strings.Index(md1, r.Tok)
				a, b := p, p+len(r.Tok)
				for a > 0 && c20IsMarker(md1[a-1]) {
					a--
				}
				for b < len(md1) && c20IsMarker(md1[b]) {
					b++
				}
				if a < prevEnd { // marker string shared with the previous run: its first part closes that run
					a = prevEnd
				}
				open := md1[a:p]
				rest := md1[p+len(r.Tok) : b]
				close := rest
				// if the next token run is adjacent, only the first len(open) marker characters close this run
				if b < len(md1) && len(rest) > len(open) {
					nxt := md1[b:]
					adjacent := false
					for _, r2 := range e.Runs {
						if r2.Tok != "" && r2.Tok != r.Tok && strings.HasPrefix(nxt, r2.Tok) {
							adjacent = true
						}
					}
					if adjacent {
						close = rest[:len(open)]
					}
				}
				prevEnd = p + len(r.Tok) + len(close)
				m := r.Mask
				if cu := c20CheckMarkers(m, open, close, e.Kind[0] == 'h'); cu != "" {
					add("marker|"+cu, "marker", fmt.Sprintf("%s run %q with %s formatting is exported as %q", e.Kind, r.Tok, c20MaskName(m), open+r.Tok+close), nil, nil)
				}
			}
		}
	}

	// (1b) the file-based entry points (ExportToFile, BatchExport) on the saved document must give what the
	// in-memory entry point gives for the very same file opened again: same document, same options, other door.
	// Run for the library default options on documents of at most two elements.
	if o.nonDefault() == 0 && len(els) <= 2 {
		c20FileEntries(doc, add)
	}

	// (4) convert back
	if c20Conv == nil {
		c20Conv = markdown.NewConverter(markdown.DefaultOptions())
	}
	var doc2 *document.Document
	if p := guard(func() { doc2, err = c20Conv.ConvertString(md1, markdown.DefaultOptions()) }); p != "" {
		add("panic|convert|"+panicClass(p), "totality", "converting the exported Markdown back panics: "+p, nil, nil)
		res.Outcome = "convert-panic"
		return res
	}
	if err != nil || doc2 == nil {
		add("error|convert", "totality", fmt.Sprintf("converting the exported Markdown back fails: %v", err), nil, nil)
		res.Outcome = "convert-error"
		return res
	}
	res.Steps++
	got := c20Blocks(doc2)
	md2, fail := c20Export(doc2, o)
	if fail != "" {
		add(fail+"|second", "totality", "export of the re-imported document fails", nil, nil)
		res.Outcome = "export2-fail"
		return res
	}
	res.MD2 = md2
	res.Steps++
	res.Chain = true

	rtOK, mapping := c20CompareBlocks(els, orig, got, toks, o, md1, orderBroken, add)
	if rtOK && md1 != md2 {
		// same blocks and text, different Markdown: find the reason
		kind, detail := "document", "other"
		found := false
		for ei := range els {
			gi, ok := mapping[ei]
			if !ok {
				continue
			}
			a, b := c20SegsString(&orig[ei]), c20SegsString(&got[gi])
			if a != b {
				kind = c20Group(orig[ei].Kind)
				detail = c20FormatDiff(&orig[ei], &got[gi])
				found = true
				break
			}
		}
		if !found {
			if c20SqueezeBlank(md1) == c20SqueezeBlank(md2) {
				kind, detail = "empty", "blank-lines"
			} else {
				// same text and formatting in every block, different Markdown: the run segmentation changed
				kind, detail = c20FirstDiffLineKind(md1, md2), "run-boundaries"
			}
		}
		add("fixpoint|"+kind+"|"+detail, "fixpoint", fmt.Sprintf("export(convert(md1)) differs from md1 (%s: %s)", kind, detail), md1, md2)
	}
	switch {
	case len(res.Viol) == 0:
		res.Outcome = "ok"
	default:
		var cl []string
		seen := map[string]bool{}
		for _, v := range res.Viol {
			if !seen[v.Clause] {
				seen[v.Clause] = true
				cl = append(cl, v.Clause)
			}
		}
		sort.Strings(cl)
		res.Outcome = "violates:" + strings.Join(cl, "+")
	}
	return res
}

func (b *c20Block) cellMask(r, c int) int {
	if r < len(b.CSegs) && c < len(b.CSegs[r]) && len(b.CSegs[r][c]) > 0 {
		return b.CSegs[r][c][0].Mask
	}
	return 0
}

// tokMasks returns the masks of the token runs of e as actually present in the built block.
func (b *c20Block) tokMasks(e *c20Elem) []int {
	var out []int
	for _, r := range e.Runs {
		if r.Tok == "" {
			continue
		}
		m := r.Mask
		for _, s := range b.Segs {
			if strings.Contains(s.Text, r.Tok) {
				m = s.Mask
			}
		}
		out = append(out, m)
	}
	return out
}

func c20SqueezeBlank(s string) string {
	for strings.Contains(s, "\n\n\n") {
		s = strings.ReplaceAll(s, "\n\n\n", "\n\n")
	}
	return strings.Trim(s, "\n")
}

func c20FirstDiffLineKind(a, b string) string {
	la, lb := strings.Split(a, "\n"), strings.Split(b, "\n")
	for i := 0; i < len(la); i++ {
		if i >= len(lb) || la[i] != lb[i] {
			l := la[i]
			switch {
			case strings.HasPrefix(l, "#"):
				return "heading"
			case strings.HasPrefix(l, ">"):
				return "quote"
			case strings.HasPrefix(l, "|"):
				return "table"
			case strings.HasPrefix(l, "```"):
				return "code"
			case strings.HasPrefix(l, "- "), strings.HasPrefix(l, "* "), strings.HasPrefix(l, "+ "):
				return "list"
			}
			return "paragraph"
		}
	}
	return "document"
}

func c20FormatDiff(a, b *c20Block) string {
	// per-character masks of the non-blank characters (the texts are equal when this is called)
	chars := func(bl *c20Block) []int {
		var m []int
		f := func(segs []c20Seg) {
			for _, s := range segs {
				for _, r := range s.Text {
					if !unicode.IsSpace(r) {
						m = append(m, s.Mask)
					}
				}
			}
		}
		if bl.Kind == "table" {
			for _, r := range bl.CSegs {
				for _, c := range r {
					f(c)
				}
			}
		} else {
			f(bl.Segs)
		}
		return m
	}
	ma, mb := chars(a), chars(b)
	lost, added, combined := 0, 0, false
	for i := 0; i < len(ma) && i < len(mb); i++ {
		l := ma[i] &^ mb[i]
		lost |= l
		added |= mb[i] &^ ma[i]
		if l != 0 && ma[i]&(ma[i]-1) != 0 {
			combined = true
		}
	}
	var p []string
	if lost != 0 {
		if combined {
			p = append(p, "combined-format-lost")
		} else {
			p = append(p, "format-lost")
		}
	}
	if added != 0 {
		p = append(p, "format-added:"+c20MaskName(added))
	}
	if len(p) == 0 {
		return "run-boundaries"
	}
	return strings.Join(p, ",")
}

// c20Group drops heading level and rendering variant from a kind.
func c20Group(kind string) string {
	if len(kind) >= 2 && kind[0] == 'h' && kind[1] >= '1' && kind[1] <= '9' {
		return "heading"
	}
	if i := strings.Index(kind, ":"); i > 0 {
		return kind[:i]
	}
	return kind
}

// c20Culprit names what a round-trip deviation of element e is attributed to: its text class when the text
// carries metacharacters, else its kind group.
func c20Culprit(e *c20Elem) string {
	if cl := c20ElemClasses(e); cl != "t" {
		return "text:" + cl
	}
	return c20Group(e.Kind)
}

// c20CompareBlocks judges "same block sequence and text" by locating the tokens in the re-imported blocks.
// orderBroken: the Markdown already had the elements out of body order (clause 1), so the position of the
// re-imported blocks is not judged again.
func c20CompareBlocks(els []c20Elem, orig, got []c20Block, toks []c20TokInfo, o c20Opts, md1 string, orderBroken bool, add func(sig, clause, what string, exp, got interface{})) (bool, map[int]int) {
	ok := true
	mapping := map[int]int{}
	describe := func(bs []c20Block) []string {
		var s []string
		for i := range bs {
			s = append(s, bs[i].Kind+":"+fmt.Sprintf("%q", bs[i].allText()))
		}
		return s
	}
	where := make([][]int, len(toks)) // got block indices containing the token
	for ti, t := range toks {
		for gi := range got {
			if strings.Contains(got[gi].allText(), t.Tok) {
				where[ti] = append(where[ti], gi)
			}
		}
	}
	elBlocks := make([]map[int]bool, len(els))
	for i := range elBlocks {
		elBlocks[i] = map[int]bool{}
	}
	gotEls := make([]map[int]bool, len(got))
	for i := range gotEls {
		gotEls[i] = map[int]bool{}
	}
	for ti, t := range toks {
		for _, gi := range where[ti] {
			elBlocks[t.El][gi] = true
			gotEls[gi][t.El] = true
		}
	}
	docClass := "t"
	for i := range els {
		if cl := c20ElemClasses(&els[i]); cl != "t" {
			docClass = cl
		}
	}
	exp, obs := describe(orig), describe(got)
	flagged := map[int]bool{}
	// lost
	for ti, t := range toks {
		if len(where[ti]) == 0 && !flagged[t.El] {
			flagged[t.El] = true
			ok = false
			add("roundtrip-lost|"+c20Culprit(&els[t.El]), "roundtrip", fmt.Sprintf("text %q of a %s is absent from the re-imported document", t.Tok, t.Kind), exp, obs)
		}
	}
	// merged: one re-imported block holds text of two input elements; attributed to the one that comes first in the Markdown
	mergeReported := false
	for gi := range got {
		if len(gotEls[gi]) > 1 {
			var ks []int
			for e := range gotEls[gi] {
				ks = append(ks, e)
			}
			first := func(e int) int {
				best := len(md1)
				for _, t := range toks {
					if t.El == e {
						if p := strings.Index(md1, t.Tok); p >= 0 && p < best {
							best = p
						}
					}
				}
				return best
			}
			sort.Slice(ks, func(a, b int) bool { return first(ks[a]) < first(ks[b]) })
			ok = false
			for _, e := range ks {
				flagged[e] = true
			}
			if !mergeReported {
				mergeReported = true
				add("roundtrip-merge|"+c20Group(els[ks[0]].Kind), "roundtrip",
					fmt.Sprintf("a %s and the %s written after it come back as one %s block", els[ks[0]].Kind, els[ks[1]].Kind, got[gi].Kind), exp, obs)
			}
		}
	}
	// split: one input element comes back in several blocks
	splitReported := false
	for ei := range els {
		if len(elBlocks[ei]) > 1 && !flagged[ei] {
			flagged[ei] = true
			ok = false
			if !splitReported {
				splitReported = true
				add("roundtrip-split|"+c20Culprit(&els[ei]), "roundtrip", fmt.Sprintf("a %s comes back as %d blocks", els[ei].Kind, len(elBlocks[ei])), exp, obs)
			}
		}
	}
	// kind, position and text of 1-1 mapped elements
	last := -1
	for ei := range els {
		if flagged[ei] || len(elBlocks[ei]) != 1 {
			continue
		}
		var gi int
		for g := range elBlocks[ei] {
			gi = g
		}
		mapping[ei] = gi
		if !orderBroken {
			if gi < last {
				ok = false
				add("roundtrip-order|"+c20Culprit(&els[ei]), "roundtrip", fmt.Sprintf("the %s is at another position of the re-imported body", els[ei].Kind), exp, obs)
				break
			}
			last = gi
		}
		if got[gi].Kind != els[ei].Kind {
			ok = false
			add("roundtrip-kind|"+c20Variant(els[ei].Kind, o)+"->"+got[gi].Kind, "roundtrip", fmt.Sprintf("a %s comes back as %s", els[ei].Kind, got[gi].Kind), exp, obs)
			continue
		}
		if els[ei].Kind == "table" {
			if d := c20TableDiff(&orig[ei], &got[gi], &els[ei]); d != "" {
				ok = false
				sig := "roundtrip-text|table|" + d
				if cu := c20Culprit(&els[ei]); strings.HasPrefix(cu, "text:") && !strings.Contains(d, "whitespace") {
					sig = "roundtrip-text|" + cu
				}
				add(sig, "roundtrip", "table cells differ after re-import: "+d, exp, obs)
			}
			continue
		}
		if got[gi].Text != orig[ei].Text {
			ok = false
			d := c20TextDiff(orig[ei].Text, got[gi].Text)
			var sig string
			switch cu := c20Culprit(&els[ei]); {
			case d == "outer-whitespace" || d == "inner-whitespace":
				sig = "roundtrip-text|" + c20Group(els[ei].Kind) + "|" + d
			case strings.HasPrefix(cu, "text:"):
				sig = "roundtrip-text|" + cu
			default:
				sig = "roundtrip-text|" + cu + "|" + c20Shape(&els[ei], &orig[ei]) + "|" + d
			}
			add(sig, "roundtrip", fmt.Sprintf("text of a %s is %q after re-import, was %q", els[ei].Kind, got[gi].Text, orig[ei].Text), exp, obs)
		}
	}
	// extra blocks carrying text that belongs to no input element
	for gi := range got {
		if len(gotEls[gi]) == 0 && strings.TrimSpace(got[gi].allText()) != "" && got[gi].Kind != "empty" {
			ok = false
			cu := got[gi].Kind
			if docClass != "t" {
				cu = "text:" + docClass
			}
			add("roundtrip-extra|"+cu, "roundtrip", fmt.Sprintf("the re-imported document has an additional %s block %q", got[gi].Kind, got[gi].allText()), exp, obs)
			break
		}
	}
	return ok, mapping
}

func c20ElemClasses(e *c20Elem) string {
	set := map[string]bool{}
	for _, r := range e.Runs {
		if r.Tok != "" {
			set[r.Class] = true
		}
	}
	for _, row := range e.Cells {
		for _, c := range row {
			set[c.Class] = true
		}
	}
	if len(set) > 1 {
		delete(set, "t")
	}
	var s []string
	for k := range set {
		s = append(s, k)
	}
	sort.Strings(s)
	return strings.Join(s, "+")
}

// c20Shape is the run shape of a paragraph-like input element: text class, number of token runs, adjacency.
func c20Shape(e *c20Elem, b *c20Block) string {
	n, joiner, fm := 0, false, false
	for _, r := range e.Runs {
		if r.Tok == "" {
			joiner = true
			continue
		}
		n++
		if r.Mask != 0 {
			fm = true
		}
	}
	s := "plain"
	if fm {
		s = "formatted"
		for _, sg := range b.Segs { // masks as built (a heading run is also bold)
			if sg.Mask&c20C != 0 && sg.Mask != c20C {
				s = "formatted(code+other)"
			}
		}
	}
	if n > 1 {
		if joiner {
			s += "/spaced-runs"
		} else {
			s += "/adjacent-runs"
		}
	}
	return s
}

func c20TableDiff(a, b *c20Block, e *c20Elem) string {
	if len(a.Cells) != len(b.Cells) {
		return fmt.Sprintf("rows:%d->%d", len(a.Cells), len(b.Cells))
	}
	for r := range a.Cells {
		if len(e.Merge) == 4 && len(b.Cells[r]) > len(a.Cells[r]) {
			// a row with merged cells may come back padded with empty cells (Markdown tables are rectangular):
			// the original cells must be there in order, the rest empty
			pad := true
			for _, x := range b.Cells[r][len(a.Cells[r]):] {
				if strings.TrimSpace(x) != "" {
					pad = false
				}
			}
			if pad {
				b.Cells[r] = b.Cells[r][:len(a.Cells[r])]
			}
		}
		if len(a.Cells[r]) != len(b.Cells[r]) {
			return fmt.Sprintf("cols:%d->%d", len(a.Cells[r]), len(b.Cells[r]))
		}
		for c := range a.Cells[r] {
			if a.Cells[r][c] != b.Cells[r][c] {
				cell := "cell"
				if r < len(e.Cells) && c < len(e.Cells[r]) {
					if m := e.Cells[r][c].Mask; m&c20C != 0 && m != c20C {
						cell = "cell(code+other)"
					}
				}
				return cell + "-" + c20TextDiff(a.Cells[r][c], b.Cells[r][c])
			}
		}
	}
	return ""
}

// ---------------------------------------------------------------------------
// enumeration

// c20Enumerate calls f for every case in a fixed order.
func c20Enumerate(a c20Args, f func(part, key string, mk func() []c20Elem, opt int)) {
	allOpts := make([]int, 48)
	for i := range allOpts {
		allOpts[i] = i
	}
	// options that matter for paragraphs only: emphasis marker × wrap
	var paraOpts []int
	for i := 0; i < 48; i++ {
		o := c20OptOf(i)
		if o.GFM && !o.Setext && o.Bullet == "-" {
			paraOpts = append(paraOpts, i)
		}
	}
	// part A: all sequences of ≤ SeqLen elements × all options
	for n := 0; n <= a.SeqLen; n++ {
		codes := make([]int, n)
		for {
			cs := append([]int{}, codes...)
			mk := func() []c20Elem {
				var els []c20Elem
				for p, c := range cs {
					els = append(els, c20ElemA(c, p))
				}
				return els
			}
			key := "A/" + fmt.Sprint(cs)
			for _, oi := range allOpts {
				f("A", key, mk, oi)
			}
			i := n - 1
			for ; i >= 0; i-- {
				codes[i]++
				if codes[i] < c20NA {
					break
				}
				codes[i] = 0
			}
			if i < 0 {
				break
			}
		}
	}
	// part B1: one paragraph of 1..Runs token runs, all mask combinations, adjacent or separated by a plain blank run
	for n := 1; n <= a.Runs; n++ {
		total := 1
		for i := 0; i < n; i++ {
			total *= 16
		}
		for m := 0; m < total; m++ {
			masks := make([]int, n)
			x := m
			for i := 0; i < n; i++ {
				masks[i] = x % 16
				x /= 16
			}
			for _, tight := range []bool{true, false} {
				if n == 1 && !tight {
					continue
				}
				ms, tg := masks, tight
				mk := func() []c20Elem { return []c20Elem{c20Para(0, ms, tg, "t")} }
				key := fmt.Sprintf("B1/%v/%v", ms, tg)
				for _, oi := range paraOpts {
					f("B1", key, mk, oi)
				}
			}
		}
	}
	// part B2: one formatted run in every container × all options
	for _, cont := range c20Containers {
		for m := 0; m < 16; m++ {
			ct, mm := cont, m
			mk := func() []c20Elem { return []c20Elem{c20InContainer(ct, 0, mm, "t")} }
			key := fmt.Sprintf("B2/%s/%d", ct, mm)
			for _, oi := range allOpts {
				f("B2", key, mk, oi)
			}
		}
	}
	// part C: metacharacter texts: every class × container × mask ∈ {plain,bold,italic,strike,code} (paragraph) × context × all options
	ctxs := []string{"alone", "after-p", "before-p", "between-p"}
	for _, class := range c20Classes[1:] {
		for _, cont := range c20Containers {
			masks := []int{0}
			if cont == "paragraph" {
				masks = []int{0, c20B, c20I, c20S, c20C}
			}
			if cont == "cellH" || cont == "cellB" {
				// a formatted run inside a cell goes through another path of the writer than plain cell text
				// (code runs return early): metacharacters must be handled there too (seed C20-d2)
				masks = []int{0, c20B, c20C}
			}
			for _, m := range masks {
				for _, ctx := range ctxs {
					cl, ct, mm, cx := class, cont, m, ctx
					mk := func() []c20Elem {
						var els []c20Elem
						p := 0
						if cx == "after-p" || cx == "between-p" {
							els = append(els, c20Para(p, []int{0}, true, "t"))
							p++
						}
						els = append(els, c20InContainer(ct, p, mm, cl))
						p++
						if cx == "before-p" || cx == "between-p" {
							els = append(els, c20Para(p, []int{0}, true, "t"))
						}
						return els
					}
					key := fmt.Sprintf("C/%s/%s/%d/%s", cl, ct, mm, cx)
					for _, oi := range allOpts {
						f("C", key, mk, oi)
					}
				}
			}
		}
	}
	// part W: a block marker as a word in the middle / at the end of a text, in the containers whose text is wrapped or
	// carried over several lines, alone and between paragraphs, all options
	for _, class := range c20MidClasses {
		for _, cont := range []string{"paragraph", "list", "quote", "h2"} {
			for _, ctx := range []string{"alone", "between-p"} {
				cl, ct, cx := class, cont, ctx
				mk := func() []c20Elem {
					var els []c20Elem
					p := 0
					if cx == "between-p" {
						els = append(els, c20Para(p, []int{0}, true, "t"))
						p++
					}
					els = append(els, c20InContainer(ct, p, 0, cl))
					p++
					if cx == "between-p" {
						els = append(els, c20Para(p, []int{0}, true, "t"))
					}
					return els
				}
				key := fmt.Sprintf("W/%s/%s/%s", cl, ct, cx)
				for _, oi := range allOpts {
					f("W", key, mk, oi)
				}
			}
		}
	}
	// part R: tables whose rows differ in cell count (a horizontally merged row), alone and between paragraphs
	for _, mg := range [][]int{{3, 0, 0, 1}, {3, 0, 1, 2}, {3, 0, 0, 2}, {3, 1, 0, 1}, {3, 1, 0, 2}, {2, 0, 0, 1}} {
		for ctx := 0; ctx < 2; ctx++ {
			mg, ctx := mg, ctx
			mk := func() []c20Elem {
				pos := 0
				var els []c20Elem
				if ctx == 1 {
					els = append(els, c20Para(0, []int{0}, true, "t"))
					pos = 1
				}
				e := c20Elem{Kind: "table", Merge: mg, Label: fmt.Sprintf("table2x%d(row %d cells %d-%d merged)", mg[0], mg[1], mg[2], mg[3])}
				j := 0
				for r := 0; r < 2; r++ {
					n := mg[0]
					if r == mg[1] {
						n -= mg[3] - mg[2]
					}
					var row []c20Run
					for c := 0; c < n; c++ {
						row = append(row, c20R(pos, j, 0, "t"))
						j++
					}
					e.Cells = append(e.Cells, row)
				}
				els = append(els, e)
				if ctx == 1 {
					els = append(els, c20Para(2, []int{0}, true, "t"))
				}
				return els
			}
			key := fmt.Sprintf("R/%v/%d", mg, ctx)
			for _, oi := range allOpts {
				f("R", key, mk, oi)
			}
		}
	}
	if a.MetaCtx >= 2 {
		// part C2: a paragraph of two meta runs (all class pairs, adjacent or spaced, plain) and two meta paragraphs in sequence
		for _, c1 := range c20Classes[1:] {
			for _, c2 := range c20Classes[1:] {
				for v := 0; v < 3; v++ {
					a1, a2, vv := c1, c2, v
					mk := func() []c20Elem {
						switch vv {
						case 0, 1:
							e := c20Elem{Kind: "paragraph", Label: fmt.Sprintf("p[%s|%s tight=%v]", a1, a2, vv == 0)}
							e.Runs = append(e.Runs, c20R(0, 0, 0, a1))
							if vv == 1 {
								e.Runs = append(e.Runs, c20Run{Text: " "})
							}
							e.Runs = append(e.Runs, c20R(0, 1, 0, a2))
							return []c20Elem{e}
						}
						return []c20Elem{c20Para(0, []int{0}, true, a1), c20Para(1, []int{0}, true, a2)}
					}
					key := fmt.Sprintf("C2/%s/%s/%d", c1, c2, v)
					for _, oi := range paraOpts {
						f("C2", key, mk, oi)
					}
				}
			}
		}
	}
}

// c20Attribute reduces the culprit of a violation on an element that mixes two text classes: the case is re-run
// with only one of the classes kept (in the other runs every metacharacter is replaced by a letter); if that smaller input shows the same
// clause for the single class, the violation is attributed to that class, else to the combination.
func c20Attribute(els []c20Elem, o c20Opts, sig string) string {
	i := strings.Index(sig, "text:")
	if i < 0 {
		return sig
	}
	rest := sig[i+5:]
	suffix := ""
	if j := strings.Index(rest, "|"); j >= 0 {
		rest, suffix = rest[:j], rest[j:]
	}
	parts := strings.Split(rest, "+")
	if len(parts) < 2 {
		return sig
	}
	for _, keep := range parts {
		variant := make([]c20Elem, len(els))
		for k := range els {
			variant[k] = els[k]
			variant[k].Runs = append([]c20Run{}, els[k].Runs...)
			for r := range variant[k].Runs {
				if run := &variant[k].Runs[r]; run.Tok != "" && run.Class != keep && run.Class != "t" {
					// neutral text of the same length and word shape: metacharacters become letters
					keepBlank := run.Class != "space" && run.Class != "words" && run.Class != "cjk"
					neutral := func(t string) string {
						b := []byte(t)
						for x := range b {
							if !(b[x] == ' ' && keepBlank) {
								b[x] = 'x'
							}
						}
						return string(b)
					}
					at := strings.Index(run.Text, run.Tok)
					run.Text = neutral(run.Text[:at]) + run.Tok + neutral(run.Text[at+len(run.Tok):])
					run.Class = "t"
				}
			}
		}
		want := sig[:i] + "text:" + keep + suffix
		for _, w := range c20RunCase(variant, o).Viol {
			if w.Sig == want {
				return want
			}
		}
	}
	return sig
}

func c20Desc(els []c20Elem, o c20Opts) map[string]interface{} {
	var labels []string
	for _, e := range els {
		labels = append(labels, e.Label)
	}
	return map[string]interface{}{"document": labels, "elements": els, "options": o}
}

func c20Work(c *shard.Ctx) {
	var a c20Args
	json.Unmarshal(c.Args, &a)
	idx := int64(0)
	samples := 0
	c20Enumerate(a, func(part, key string, mk func() []c20Elem, oi int) {
		i := idx
		idx++
		o := c20OptOf(oi)
		if !c.Begin(i, func() interface{} { return c20Desc(mk(), o) }) {
			return
		}
		els := mk()
		res := c20RunCase(els, o)
		c.P.Evals++
		c.P.Add("cases_part_"+part, 1)
		k := fmt.Sprintf("%s#%d", key, oi)
		c.P.Keys = append(c.P.Keys, k)
		if res.NonTriv {
			c.P.Nontrivial = append(c.P.Nontrivial, k)
		}
		c.P.Outcome(res.Outcome)
		c.P.Transitions += res.Steps
		if res.Chain {
			c.P.Traces++ // the whole chain doc -> md1 -> doc2 -> md2 ran on the implementation and was judged
		}
		if samples < 1 && i%97 == 0 && len(els) > 1 {
			samples++
			c.P.Samples = append(c.P.Samples, map[string]interface{}{"case": c20Desc(els, o)["document"], "options": o, "md1": res.MD1, "md2": res.MD2, "outcome": res.Outcome})
		}
		for _, v := range res.Viol {
			v.Sig = c20Attribute(els, o, v.Sig)
			if strings.HasPrefix(v.Sig, "harness|") {
				c.P.HarnessErrs = append(c.P.HarnessErrs, fmt.Sprintf("case %d: %s", i, v.What))
				continue
			}
			runs := 0
			for _, e := range els {
				runs += len(e.Runs) + 4*len(e.Cells)
			}
			v.Depth = (len(els)*1000+runs*10+o.nonDefault())*10000000 + int(i) // shallowest document, then default options, then enumeration order
			if old, ok := c.P.Violations[v.Sig]; ok && old.Depth <= v.Depth {
				old.Count++ // a confirmed witness at least as small is already recorded
				continue
			}
			// confirm determinism of the verdict before recording a witness
			again := c20RunCase(mk(), o)
			hit := false
			for _, w := range again.Viol {
				if c20Attribute(els, o, w.Sig) == v.Sig {
					hit = true
				}
			}
			if !hit {
				c.P.Notes = append(c.P.Notes, fmt.Sprintf("case %d: %s not reproduced on immediate re-run (not counted)", i, v.Sig))
				continue
			}
			d := c20Desc(els, o)
			d["md1"] = res.MD1
			d["md2"] = res.MD2
			v.Case = shardCase(c, c20Worker, i, d)
			c.P.Violate(v)
		}
	})
}

func runC20(r *rep.Run) {
	a := c20Args{SeqLen: 3, Runs: 2, MetaCtx: 1}
	if r.Tier == "thorough" {
		a = c20Args{SeqLen: 4, Runs: 3, MetaCtx: 2}
	}
	r.Bounds["max_elements_per_document"] = a.SeqLen
	r.Bounds["element_alphabet"] = c20NA
	r.Bounds["token_runs_per_paragraph"] = a.Runs
	r.Bounds["run_format_combinations"] = 16
	r.Bounds["text_classes"] = len(c20Classes)
	r.Bounds["option_combinations"] = 48
	r.Bounds["wrap_line_length"] = c20WrapLen
	r.Rule = "every case of the exhaustive families is executed on the real exporter and converter: (A) all sequences of <= max_elements body elements over {h1,h2,h3, paragraph plain/bold/italic/strike/code, paragraph 'plain bold', bullet list item, quote, code paragraph, 2x2 table, 2x2 table with bold header, empty paragraph} x all 48 option combinations {GFM tables, setext, bullet - * +, emphasis * _, wrap at 6}; (B1) one paragraph of 1..token_runs runs over all 16^n bold/italic/strike/code-font combinations, adjacent or separated by a blank run, x emphasis x wrap; (B2) one run of each of the 16 combinations in each container {h1,h2,h3,paragraph,list,quote,code,header cell,body cell} x 48 options; (C) each metacharacter text {a*b,_x_,'# h',a|b,'1. x',a`b,' t ','t w'} in each container (paragraph also bold/italic/strike/code) alone/after/before/between plain paragraphs x 48 options; thorough only (C2): all ordered pairs of metacharacter texts as two runs of one paragraph (adjacent/spaced) and as two paragraphs x emphasis x wrap. Documents are built with the public document API (AddHeadingParagraph, AddParagraph/AddFormattedParagraph/AddFormattedText, paragraph Set* setters, AddBulletList, SetStyle Quote/CodeBlock, AddTable); every text carries a unique token. Judged on md1 = export(doc): token order = body order; each token exactly once and the run text present (modulo backslash escapes and blank collapsing); marker strings around plain tokens express exactly the run's formats and nest. Judged on doc2 = convert(md1), read through Body.Elements: every input element is found by its tokens in exactly one block of the same kind, position and text (lost/merge/split/kind/order/text/extra; empty paragraphs not counted), and export(doc2) equals md1 byte for byte. A deviation of an element whose text carries metacharacters is attributed to the text class (for two classes: to the one that alone reproduces it). key = document x options; transitions = executed export/convert calls of the library (export twice, convert, export of the re-import), traces = cases whose whole chain ran; non-trivial = the document has text and the Markdown is not blank"
	r.Assume = []string{
		"a paragraph without text has no Markdown form: empty paragraphs are not counted in the block sequence of the re-imported document (the byte comparison md2 = md1 still applies)",
		"how metacharacters are escaped is not prescribed: a run text counts as present when it occurs literally or after removing backslash escapes, ignoring its outer blanks",
		"formatting inside a CodeBlock paragraph and in the non-GFM table layout is not judged by the marker clause; bold of a heading run (copied from the heading style by AddHeadingParagraph) or of a header-row cell may be expressed or left to the heading/header",
		"the Markdown is converted back with markdown.DefaultOptions()",
	}
	runShards(r, c20Worker, a, 60*time.Second, nil)
}
