// C16 — text templates render according to the documented substitution semantics.
//
// Exhaustive enumeration (shard engine) of every template of the documented grammar up to a
// node bound, crossed with every assignment of a tiny value domain to the value slots the
// template uses.  Each pair is rendered by the real TemplateEngine (LoadTemplate +
// RenderToDocument, and RenderTemplateToDocument) and the paragraph texts of the returned
// document are compared with a reference interpreter that is evaluated on the generator's own
// tree (the template text is never parsed by the harness, and never by library code on the
// expected side).  A second, smaller grammar covers blocks / extends / image placeholders.
package main

import (
	"encoding/json"
	"fmt"
	"sort"
	"strconv"
	"strings"
	"time"

	"github.com/zerx-lab/wordZero/pkg/document"

	"verif/harness/internal/rep"
	"verif/harness/internal/shard"
)

func init() {
	register("C16", "model_checking", runC16)
	shard.Register("c16", c16Worker)
}

// ---------------------------------------------------------------------------
// template trees

type c16N struct {
	K       string  `json:"k"` // lit var this index first last if each image
	S       string  `json:"s,omitempty"`
	Body    []*c16N `json:"body,omitempty"`
	Else    []*c16N `json:"else,omitempty"`
	HasElse bool    `json:"hasElse,omitempty"`
}

func c16Text(ns []*c16N) string {
	var b strings.Builder
	c16Write(&b, ns)
	return b.String()
}

func c16Write(b *strings.Builder, ns []*c16N) {
	for _, n := range ns {
		switch n.K {
		case "lit":
			b.WriteString(n.S)
		case "var":
			b.WriteString("{{" + n.S + "}}")
		case "this":
			b.WriteString("{{this}}")
		case "index":
			b.WriteString("{{@index}}")
		case "first":
			b.WriteString("{{@first}}")
		case "last":
			b.WriteString("{{@last}}")
		case "if":
			b.WriteString("{{#if " + n.S + "}}")
			c16Write(b, n.Body)
			if n.HasElse {
				b.WriteString("{{else}}")
				c16Write(b, n.Else)
			}
			b.WriteString("{{/if}}")
		case "each":
			b.WriteString("{{#each " + n.S + "}}")
			c16Write(b, n.Body)
			b.WriteString("{{/each}}")
		case "image":
			b.WriteString("{{#image " + n.S + "}}")
		}
	}
}

func c16Count(ns []*c16N) int {
	c := 0
	for _, n := range ns {
		c += 1 + c16Count(n.Body) + c16Count(n.Else)
	}
	return c
}

func c16HasDirective(ns []*c16N) bool {
	for _, n := range ns {
		if n.K != "lit" {
			return true
		}
	}
	return false
}

// contexts (scopes) of the grammar
const (
	cxTop = iota
	cxTopIf
	cxMap
	cxMapIf
	cxScalar
	cxInnerMap
	cxInnerMapIf
	cxInnerScalar
	cxCount
)

var c16Lits = []string{"a", " ", "\n", "{", "}", "é"}

func c16Atoms(ctx int) []*c16N {
	var out []*c16N
	for _, l := range c16Lits {
		out = append(out, &c16N{K: "lit", S: l})
	}
	v := func(names ...string) {
		for _, n := range names {
			out = append(out, &c16N{K: "var", S: n})
		}
	}
	lv := func(ks ...string) {
		for _, k := range ks {
			out = append(out, &c16N{K: k})
		}
	}
	switch ctx {
	case cxTop, cxTopIf:
		v("v", "u")
	case cxMap, cxMapIf:
		v("f", "g", "v", "u")
		lv("index", "first", "last")
	case cxScalar:
		lv("this", "index", "first", "last")
		v("v")
	case cxInnerMap, cxInnerMapIf:
		v("h", "f")
		lv("index", "first", "last")
	case cxInnerScalar:
		lv("this", "index", "first", "last")
		v("f")
	}
	return out
}

type c16Blk struct {
	K, S string
	Ctx  int
}

func c16Blocks(ctx int) []c16Blk {
	eachTop := []c16Blk{{"each", "L", cxMap}, {"each", "S", cxScalar}, {"each", "E", cxMap}, {"each", "M", cxScalar}}
	eachIn := []c16Blk{{"each", "n", cxInnerMap}, {"each", "k", cxInnerScalar}}
	switch ctx {
	case cxTop:
		return append([]c16Blk{{"if", "ct", cxTopIf}, {"if", "cf", cxTopIf}, {"if", "cm", cxTopIf}}, eachTop...)
	case cxTopIf:
		return eachTop
	case cxMap:
		return append([]c16Blk{{"if", "b", cxMapIf}}, eachIn...)
	case cxMapIf:
		return eachIn
	case cxInnerMap:
		return []c16Blk{{"if", "c", cxInnerMapIf}}
	}
	return nil
}

func c16BadAdjacent(a, b *c16N) bool {
	return a.K == "lit" && b.K == "lit" && a.S == b.S && (a.S == "{" || a.S == "}")
}

// c16Valid reports whether the sequence belongs to the grammar in context ctx with depthLeft block levels.
func c16Valid(ns []*c16N, ctx, depthLeft int) bool {
	for i, n := range ns {
		if i > 0 && c16BadAdjacent(ns[i-1], n) {
			return false
		}
		switch n.K {
		case "if", "each":
			if depthLeft < 1 {
				return false
			}
			ok := false
			for _, b := range c16Blocks(ctx) {
				if b.K == n.K && b.S == n.S {
					ok = c16Valid(n.Body, b.Ctx, depthLeft-1) && (!n.HasElse || c16Valid(n.Else, b.Ctx, depthLeft-1))
					break
				}
			}
			if !ok {
				return false
			}
			if !n.HasElse && len(n.Else) > 0 {
				return false
			}
		default:
			ok := false
			for _, a := range c16Atoms(ctx) {
				if a.K == n.K && a.S == n.S {
					ok = true
					break
				}
			}
			if !ok {
				return false
			}
		}
	}
	return true
}

type c16Gen struct {
	memoSeq  map[[3]int][][]*c16N
	memoNode map[[3]int][]*c16N
	atoms    [cxCount][]*c16N
}

func newC16Gen() *c16Gen {
	g := &c16Gen{memoSeq: map[[3]int][][]*c16N{}, memoNode: map[[3]int][]*c16N{}}
	for c := 0; c < cxCount; c++ {
		g.atoms[c] = c16Atoms(c)
	}
	return g
}

// seqs returns every node sequence of context ctx with exactly n nodes and at most d block levels.
func (g *c16Gen) seqs(ctx, n, d int) [][]*c16N {
	if n == 0 {
		return [][]*c16N{nil}
	}
	key := [3]int{ctx, n, d}
	if r, ok := g.memoSeq[key]; ok {
		return r
	}
	var out [][]*c16N
	for m := 1; m <= n; m++ {
		firsts := g.nodes(ctx, m, d)
		rests := g.seqs(ctx, n-m, d)
		for _, f := range firsts {
			for _, r := range rests {
				if len(r) > 0 && c16BadAdjacent(f, r[0]) {
					continue
				}
				s := make([]*c16N, 0, 1+len(r))
				s = append(s, f)
				s = append(s, r...)
				out = append(out, s)
			}
		}
	}
	g.memoSeq[key] = out
	return out
}

// nodes returns every single node (with its subtree) of exactly m nodes.
func (g *c16Gen) nodes(ctx, m, d int) []*c16N {
	key := [3]int{ctx, m, d}
	if r, ok := g.memoNode[key]; ok {
		return r
	}
	var out []*c16N
	if m == 1 {
		out = append(out, g.atoms[ctx]...)
	}
	if d >= 1 {
		for _, b := range c16Blocks(ctx) {
			if b.K == "each" {
				for _, body := range g.seqs(b.Ctx, m-1, d-1) {
					out = append(out, &c16N{K: "each", S: b.S, Body: body})
				}
				continue
			}
			for _, body := range g.seqs(b.Ctx, m-1, d-1) {
				out = append(out, &c16N{K: "if", S: b.S, Body: body})
			}
			for j := 0; j <= m-1; j++ {
				for _, body := range g.seqs(b.Ctx, j, d-1) {
					for _, els := range g.seqs(b.Ctx, m-1-j, d-1) {
						out = append(out, &c16N{K: "if", S: b.S, Body: body, Else: els, HasElse: true})
					}
				}
			}
		}
	}
	g.memoNode[key] = out
	return out
}

// ---------------------------------------------------------------------------
// data

// value classes; index >= c16FirstHostile are directive-like strings
var c16ClassName = []string{"str", "empty", "int", "bool", "float", "nil", "newline", "braces",
	"var-ref", "field-ref", "loop-var", "if", "if-open", "if-close", "else", "each", "each-close", "image", "block"}

const c16FirstHostile = 8
const c16ClassBlock = 18

func c16Value(class int) interface{} {
	switch class {
	case 0:
		return "V"
	case 1:
		return ""
	case 2:
		return 7
	case 3:
		return true
	case 4:
		return 1.5
	case 5:
		return nil
	case 6:
		return "p\nq"
	case 7:
		return "}}{{"
	case 8:
		return "{{w}}"
	case 9:
		return "{{g}}"
	case 10:
		return "{{@index}}"
	case 11:
		return "{{#if ct}}X{{/if}}"
	case 12:
		return "{{#if cf}}"
	case 13:
		return "{{/if}}"
	case 14:
		return "{{else}}"
	case 15:
		return "{{#each S}}x{{/each}}"
	case 16:
		return "{{/each}}"
	case 17:
		return "{{#image p}}"
	case 18:
		return "{{#block \"x\"}}Z{{/block}}"
	}
	return "?"
}

// slots: which value of the data a template can observe
const (
	slV = iota // global variable v
	slF        // field f of L[0]
	slS        // S[0]
	slH        // field h of L[0].n[0]
	slK        // L[0].k[0]
	slCount
)

var c16SlotName = []string{"v", "L[0].f", "S[0]", "L[0].n[0].h", "L[0].k[0]"}
var c16SlotKind = []string{"global", "item", "item", "item", "item"}

type c16Data [slCount]int

func (d c16Data) String() string {
	var p []string
	for i, c := range d {
		if c != 0 {
			p = append(p, fmt.Sprintf("%s=%s(%s)", c16SlotName[i], c16ClassName[c], strconv.Quote(fmt.Sprint(c16Value(c)))))
		}
	}
	if len(p) == 0 {
		return "all value slots \"V\""
	}
	return strings.Join(p, ", ")
}

func (d c16Data) isBase() bool { return d == c16Data{} }

func c16Vars(d c16Data) map[string]interface{} {
	return map[string]interface{}{"v": c16Value(d[slV]), "w": "W"}
}
func c16Conds() map[string]bool { return map[string]bool{"ct": true, "cf": false} }
func c16Lists(d c16Data) map[string][]interface{} {
	return map[string][]interface{}{
		"L": {
			map[string]interface{}{"f": c16Value(d[slF]), "g": "G0", "b": true,
				"n": []interface{}{
					map[string]interface{}{"h": c16Value(d[slH]), "c": true},
					map[string]interface{}{"h": "H1"},
				},
				"k": []interface{}{c16Value(d[slK]), 7},
			},
			map[string]interface{}{"f": "F1", "b": false, "n": []interface{}{}},
			map[string]interface{}{"f": 7, "g": "G2"},
		},
		"S": {c16Value(d[slS]), true},
		"E": {},
	}
}

const c16DataDoc = `vars{v:<slot>, w:"W"} (u unset); conditions{ct:true, cf:false} (cm unset); lists{` +
	`L:[{f:<slot>,g:"G0",b:true,n:[{h:<slot>,c:true},{h:"H1"}],k:[<slot>,7]}, {f:"F1",b:false,n:[]}, {f:7,g:"G2"}], S:[<slot>,true], E:[]} (M unset); images{p: 2x2 png} in the inheritance grammar`

var c16Png = pngBytes(2, 2, 9)

func c16Build(d c16Data, withImage bool) *document.TemplateData {
	td := document.NewTemplateData()
	for k, v := range c16Vars(d) {
		td.SetVariable(k, v)
	}
	for k, v := range c16Conds() {
		td.SetCondition(k, v)
	}
	for k, v := range c16Lists(d) {
		td.SetList(k, v)
	}
	if withImage {
		td.SetImageFromData("p", c16Png, nil)
	}
	return td
}

// c16Slots marks the value slots the template can observe.
func c16Slots(ns []*c16N, inL, inS, inN, inK bool, used *[slCount]bool) {
	for _, n := range ns {
		switch n.K {
		case "var":
			switch {
			case n.S == "v":
				used[slV] = true
			case n.S == "f" && inL:
				used[slF] = true
			case n.S == "h" && inN:
				used[slH] = true
			}
		case "this":
			if inK {
				used[slK] = true
			} else if inS {
				used[slS] = true
			}
		case "if":
			c16Slots(n.Body, inL, inS, inN, inK, used)
			c16Slots(n.Else, inL, inS, inN, inK, used)
		case "each":
			switch n.S {
			case "L":
				c16Slots(n.Body, true, false, false, false, used)
			case "S":
				c16Slots(n.Body, false, true, false, false, used)
			case "n":
				c16Slots(n.Body, inL, false, inL, false, used)
			case "k":
				c16Slots(n.Body, inL, false, false, inL, used)
			default:
				c16Slots(n.Body, false, false, false, false, used)
			}
		}
	}
}

// c16DataVariants enumerates every assignment of the value classes to the used slots.
func c16DataVariants(used [slCount]bool, classes []int) []c16Data {
	out := []c16Data{{}}
	for s := 0; s < slCount; s++ {
		if !used[s] {
			continue
		}
		var nx []c16Data
		for _, d := range out {
			for _, c := range classes {
				e := d
				e[s] = c
				nx = append(nx, e)
			}
		}
		out = nx
	}
	return out
}

// ---------------------------------------------------------------------------
// reference interpreter (DESIGN.md appendix A.5): evaluated on the tree, never looks inside a value

type c16Scope struct {
	item   interface{}
	idx, n int
}

type c16Env struct {
	vars   map[string]interface{}
	conds  map[string]bool
	lists  map[string][]interface{}
	images map[string]bool
	stack  []c16Scope
}

const c16ImgMark = "\x01"

func c16Str(v interface{}) string {
	switch x := v.(type) {
	case nil:
		return ""
	case string:
		return x
	case int:
		return strconv.Itoa(x)
	case float64:
		return strconv.FormatFloat(x, 'f', -1, 64)
	case bool:
		if x {
			return "true"
		}
		return "false"
	}
	return fmt.Sprint(v)
}

func (e *c16Env) eval(ns []*c16N, b *strings.Builder) {
	for _, n := range ns {
		switch n.K {
		case "lit":
			b.WriteString(n.S)
		case "var":
			found := false
			for i := len(e.stack) - 1; i >= 0 && !found; i-- {
				if m, ok := e.stack[i].item.(map[string]interface{}); ok {
					if v, ok := m[n.S]; ok {
						if _, isList := v.([]interface{}); !isList {
							b.WriteString(c16Str(v))
							found = true
						}
					}
				}
			}
			if !found {
				if v, ok := e.vars[n.S]; ok {
					b.WriteString(c16Str(v))
				} else {
					b.WriteString("{{" + n.S + "}}")
				}
			}
		case "this", "index", "first", "last":
			if len(e.stack) == 0 {
				b.WriteString(c16Text([]*c16N{n}))
				break
			}
			s := e.stack[len(e.stack)-1]
			switch n.K {
			case "this":
				b.WriteString(c16Str(s.item))
			case "index":
				b.WriteString(strconv.Itoa(s.idx))
			case "first":
				b.WriteString(c16Str(s.idx == 0))
			case "last":
				b.WriteString(c16Str(s.idx == s.n-1))
			}
		case "if":
			cond := false
			if len(e.stack) == 0 {
				cond = e.conds[n.S]
			} else if m, ok := e.stack[len(e.stack)-1].item.(map[string]interface{}); ok {
				if v, ok := m[n.S].(bool); ok {
					cond = v
				}
			}
			if cond {
				e.eval(n.Body, b)
			} else if n.HasElse {
				e.eval(n.Else, b)
			}
		case "each":
			var list []interface{}
			if len(e.stack) == 0 {
				list = e.lists[n.S]
			} else if m, ok := e.stack[len(e.stack)-1].item.(map[string]interface{}); ok {
				list, _ = m[n.S].([]interface{})
			}
			for i, it := range list {
				e.stack = append(e.stack, c16Scope{it, i, len(list)})
				e.eval(n.Body, b)
				e.stack = e.stack[:len(e.stack)-1]
			}
		case "image":
			if e.images[n.S] {
				b.WriteString(c16ImgMark)
			}
		}
	}
}

// c16Expect evaluates the tree and converts the text into the paragraph tokens of the output
// encoding: one token per line, a whitespace-only line equals an empty line, an image
// placeholder splits its line into (non-blank text)? image (non-blank text)?.
func c16Expect(ns []*c16N, d c16Data, withImage bool) []string {
	e := &c16Env{vars: c16Vars(d), conds: c16Conds(), lists: c16Lists(d), images: map[string]bool{"p": withImage}}
	var b strings.Builder
	e.eval(ns, &b)
	var tok []string
	for _, line := range strings.Split(b.String(), "\n") {
		if !strings.Contains(line, c16ImgMark) {
			tok = append(tok, line)
			continue
		}
		segs := strings.Split(line, c16ImgMark)
		for i, s := range segs {
			if strings.TrimSpace(s) != "" {
				tok = append(tok, s)
			}
			if i < len(segs)-1 {
				tok = append(tok, "<image>")
			}
		}
	}
	return c16Canon(tok)
}

func c16Canon(tok []string) []string {
	out := make([]string, 0, len(tok))
	all := true
	for _, t := range tok {
		if strings.TrimSpace(t) == "" {
			t = ""
		} else {
			all = false
		}
		out = append(out, t)
	}
	if all {
		return []string{}
	}
	return out
}

// ---------------------------------------------------------------------------
// the real implementation

type c16Load struct{ Name, Text string }

// c16Render loads the templates in order on a fresh engine and renders the last one.
func c16Render(loads []c16Load, d c16Data, withImage bool, alt bool) (tok []string, fail string) {
	document.VerifResetGlobals()
	p := guard(func() {
		eng := document.NewTemplateEngine()
		for _, l := range loads {
			if _, err := eng.LoadTemplate(l.Name, l.Text); err != nil {
				fail = "error:load"
				return
			}
		}
		name := loads[len(loads)-1].Name
		var doc *document.Document
		var err error
		if alt {
			doc, err = eng.RenderTemplateToDocument(name, c16Build(d, withImage))
		} else {
			doc, err = eng.RenderToDocument(name, c16Build(d, withImage))
		}
		if err != nil {
			fail = "error:render"
			return
		}
		if doc == nil || doc.Body == nil {
			fail = "error:nil-document"
			return
		}
		for _, el := range doc.Body.Elements {
			switch x := el.(type) {
			case *document.Paragraph:
				var t strings.Builder
				img := false
				for _, r := range x.Runs {
					t.WriteString(r.Text.Content)
					if r.Drawing != nil {
						img = true
					}
				}
				if img {
					if strings.TrimSpace(t.String()) != "" {
						tok = append(tok, "<image>+"+t.String())
					} else {
						tok = append(tok, "<image>")
					}
				} else {
					tok = append(tok, t.String())
				}
			case *document.SectionProperties:
			default:
				tok = append(tok, "<"+kindOf(el)+">")
			}
		}
	})
	if p != "" {
		return nil, "panic:" + panicClass(p)
	}
	if fail != "" {
		return nil, fail
	}
	return c16Canon(tok), ""
}

func c16Eq(a, b []string) bool {
	if len(a) != len(b) {
		return false
	}
	for i := range a {
		if a[i] != b[i] {
			return false
		}
	}
	return true
}

// c16Check renders through both entry points; fail kind "" means both agree with the reference.
func c16Check(loads []c16Load, want []string, d c16Data, withImage bool) (kind string, got []string) {
	for _, alt := range []bool{false, true} {
		if alt && !d.isBase() {
			// RenderTemplateToDocument delegates to RenderToDocument for string templates;
			// it is exercised with the plain data of every template only
			break
		}
		tok, fail := c16Render(loads, d, withImage, alt)
		if fail != "" {
			return fail, nil
		}
		if !c16Eq(tok, want) {
			return "mismatch", tok
		}
	}
	return "", want
}

// ---------------------------------------------------------------------------
// grammar 1 case = one template with all its data variants

type c16Args struct {
	MaxNodes int   `json:"maxNodes"`
	MaxDepth int   `json:"maxDepth"`
	Classes  []int `json:"classes"`
	G2Frags  int   `json:"g2Frags"`
}

func c16Fails1(ns []*c16N, d c16Data, tries int) (string, []string, []string) {
	want := c16Expect(ns, d, false)
	loads := []c16Load{{"t", c16Text(ns)}}
	for i := 0; i < tries; i++ {
		k, got := c16Check(loads, want, d, false)
		if k != "" {
			return k, want, got
		}
	}
	return "", want, want
}

func c16OrderDependent(d c16Data) bool {
	for _, c := range d {
		if c == 9 {
			return true
		}
	}
	return false
}

// c16Variants lists the one-step simplifications of a sequence, in a fixed order.
func c16Variants(ns []*c16N) [][]*c16N {
	var out [][]*c16N
	splice := func(i int, repl []*c16N) []*c16N {
		s := make([]*c16N, 0, len(ns)-1+len(repl))
		s = append(s, ns[:i]...)
		s = append(s, repl...)
		s = append(s, ns[i+1:]...)
		return s
	}
	for i, n := range ns {
		out = append(out, splice(i, nil))
		switch n.K {
		case "if":
			out = append(out, splice(i, []*c16N{{K: "lit", S: "a"}}))
			out = append(out, splice(i, n.Body))
			if n.HasElse {
				out = append(out, splice(i, n.Else))
				out = append(out, splice(i, []*c16N{{K: "if", S: n.S, Body: n.Body}}))
			}
			for _, alt := range []string{"ct", "cf", "cm"} {
				if alt == n.S || n.S == "b" || n.S == "c" {
					break
				}
				out = append(out, splice(i, []*c16N{{K: "if", S: alt, Body: n.Body, Else: n.Else, HasElse: n.HasElse}}))
			}
			for _, bv := range c16Variants(n.Body) {
				out = append(out, splice(i, []*c16N{{K: "if", S: n.S, Body: bv, Else: n.Else, HasElse: n.HasElse}}))
			}
			for _, ev := range c16Variants(n.Else) {
				out = append(out, splice(i, []*c16N{{K: "if", S: n.S, Body: n.Body, Else: ev, HasElse: n.HasElse}}))
			}
		case "each":
			out = append(out, splice(i, []*c16N{{K: "lit", S: "a"}}))
			order := []string{"L", "S", "E", "M"}
			if n.S == "n" || n.S == "k" {
				order = []string{"n", "k"}
			}
			for _, alt := range order {
				if alt == n.S {
					break
				}
				out = append(out, splice(i, []*c16N{{K: "each", S: alt, Body: n.Body}}))
			}
			for _, bv := range c16Variants(n.Body) {
				out = append(out, splice(i, []*c16N{{K: "each", S: n.S, Body: bv}}))
			}
		case "lit":
			if n.S != "a" {
				out = append(out, splice(i, []*c16N{{K: "lit", S: "a"}}))
			}
		case "first", "last":
			out = append(out, splice(i, []*c16N{{K: "lit", S: "a"}}))
			out = append(out, splice(i, []*c16N{{K: "index"}}))
		default:
			out = append(out, splice(i, []*c16N{{K: "lit", S: "a"}}))
		}
	}
	return out
}

// c16Shrink reduces a failing template (with the plain data) to a 1-minimal failing template of the grammar.
func c16Shrink(ns []*c16N, kind string, maxDepth int, p *rep.Partial) []*c16N {
	cur := ns
	for steps := 0; steps < 200; steps++ {
		changed := false
		for _, v := range c16Variants(cur) {
			if !c16Valid(v, cxTop, maxDepth) {
				continue
			}
			p.Add("shrink_renders", 1)
			if k, _, _ := c16Fails1(v, c16Data{}, 1); k == kind {
				cur = v
				changed = true
				break
			}
		}
		if !changed {
			break
		}
	}
	return cur
}

func c16Show(s string) string {
	s = strings.ReplaceAll(s, "\n", "\\n")
	return s
}

type c16Desc struct {
	Grammar  string      `json:"grammar"`
	Template string      `json:"template,omitempty"`
	Tree     interface{} `json:"tree,omitempty"`
	Base     string      `json:"base,omitempty"`
	Child    string      `json:"child,omitempty"`
	Data     string      `json:"data,omitempty"`
	DataDoc  string      `json:"data_layout,omitempty"`
}

func c16Worker(c *shard.Ctx) {
	var a c16Args
	json.Unmarshal(c.Args, &a)
	g := newC16Gen()
	idx := int64(0)
	for n := 0; n <= a.MaxNodes; n++ {
		for _, ns := range g.seqs(cxTop, n, a.MaxDepth) {
			ns := ns
			my := c.Begin(idx, func() interface{} { return c16Desc{Grammar: "main", Template: c16Text(ns), Tree: ns} })
			if my {
				c16Case1(c, a, idx, ns)
			}
			idx++
		}
	}
	c16Grammar2(c, a, &idx)
	c16Grammar3(c, &idx)
	c16Grammar4(c, &idx)
	c16Grammar5(c, &idx)
}

// ---------------------------------------------------------------------------
// grammar 5: one TemplateData object the caller keeps.  It is rendered, updated through one of the ways the
// API offers (SetVariable, SetVariables, a write to the exported Variables map, Merge of another data set,
// FromStruct, SetList / a write to Lists, SetCondition / a write to Conditions, Clear and refill) and rendered
// again - by the same engine and by a fresh one.  Both renders must be what the reference gives for the data
// as it is at that moment.  (seed C16-f1)

var c16KeptTemplates = []string{
	"{{v}}|{{n}}",
	"{{#if c}}{{v}}{{else}}no {{v}}{{/if}}",
	"{{#each L}}{{f}}{{v}};{{/each}}",
}

var c16KeptUpdates = []string{"SetVariable", "SetVariables", "Variables[...]=", "Merge", "FromStruct", "SetList", "Lists[...]=", "SetCondition", "Conditions[...]=", "Clear+refill"}

type c16KeptStruct struct {
	V string
	N int
}

// c16KeptExpect is the reference for the three templates with v, n, c, items.
func c16KeptExpect(tpl int, v string, n int, c bool, items []string) string {
	switch tpl {
	case 0:
		return v + "|" + strconv.Itoa(n)
	case 1:
		if c {
			return v
		}
		return "no " + v
	}
	out := ""
	for _, it := range items {
		out += it + v + ";"
	}
	return out
}

func c16Grammar5(c *shard.Ctx, idx *int64) {
	for tpl := range c16KeptTemplates {
		for upd := range c16KeptUpdates {
			for fresh := 0; fresh < 2; fresh++ {
				tpl, upd, fresh := tpl, upd, fresh
				desc := c16Desc{Grammar: "kept-data", Template: c16KeptTemplates[tpl], Data: fmt.Sprintf("render, update through %s, render again (%s engine)", c16KeptUpdates[upd], []string{"same", "fresh"}[fresh])}
				my := c.Begin(*idx, func() interface{} { return desc })
				i := *idx
				*idx++
				if !my {
					continue
				}
				c16KeptCase(c, i, tpl, upd, fresh == 1, desc)
			}
		}
	}
}

func c16KeptCase(c *shard.Ctx, idx int64, tpl, upd int, freshEngine bool, desc c16Desc) {
	p := c.P
	key := rep.Hash("g5", fmt.Sprint(tpl, upd, freshEngine))
	p.Keys = append(p.Keys, key)
	p.Nontrivial = append(p.Nontrivial, key)
	p.Evals++
	p.Traces++
	document.VerifResetGlobals()
	items := func(xs ...string) []interface{} {
		var o []interface{}
		for _, x := range xs {
			o = append(o, map[string]interface{}{"f": x})
		}
		return o
	}
	render := func(eng *document.TemplateEngine, td *document.TemplateData) (string, string) {
		var out, fail string
		if pan := guard(func() {
			doc, err := eng.RenderToDocument("t", td)
			if err != nil || doc == nil || doc.Body == nil {
				fail = fmt.Sprintf("error:render: %v", err)
				return
			}
			var ps []string
			for _, x := range doc.Body.GetParagraphs() {
				var sb strings.Builder
				for _, r := range x.Runs {
					sb.WriteString(r.Text.Content)
				}
				ps = append(ps, sb.String())
			}
			out = strings.Join(ps, "\n")
		}); pan != "" {
			fail = "panic:" + panicClass(pan)
		}
		p.Transitions++
		return out, fail
	}
	var eng *document.TemplateEngine
	var td *document.TemplateData
	if pan := guard(func() {
		eng = document.NewTemplateEngine()
		eng.LoadTemplate("t", c16KeptTemplates[tpl])
		td = document.NewTemplateData()
		td.SetVariable("v", "old")
		td.SetVariable("n", 17)
		td.SetCondition("c", true)
		td.SetList("L", items("a", "b"))
	}); pan != "" {
		p.HarnessErrs = append(p.HarnessErrs, "kept-data setup: "+pan)
		return
	}
	report := func(stage, got, fail, want string) {
		p.Outcome("kept-data=>differs")
		p.Violate(rep.Violation{Sig: fmt.Sprintf("kept-data|%s|update=%s|template=%d", stage, c16KeptUpdates[upd], tpl), Clause: "a render shows the data as it is when the render is called",
			What:  fmt.Sprintf("template %q, %s: rendered %q %s, the data at that moment gives %q", c16KeptTemplates[tpl], desc.Data, got, fail, want),
			Depth: int(idx), Case: shardCase(c, "c16", idx, desc), Expect: want, Got: got})
	}
	want1 := c16KeptExpect(tpl, "old", 17, true, []string{"a", "b"})
	if got, fail := render(eng, td); fail != "" || got != want1 {
		report("first-render", got, fail, want1)
		return
	}
	v, n, cond, its := "new", 18, false, []string{"x"}
	nv, nn, nc, ni := "old", 17, true, []string{"a", "b"}
	if pan := guard(func() {
		switch c16KeptUpdates[upd] {
		case "SetVariable":
			td.SetVariable("v", v)
			td.SetVariable("n", n)
			nv, nn = v, n
		case "SetVariables":
			td.SetVariables(map[string]interface{}{"v": v, "n": n})
			nv, nn = v, n
		case "Variables[...]=":
			td.Variables["v"] = v
			td.Variables["n"] = n
			nv, nn = v, n
		case "Merge":
			o := document.NewTemplateData()
			o.SetVariable("v", v)
			o.SetVariable("n", n)
			o.SetCondition("c", cond)
			o.SetList("L", items(its...))
			td.Merge(o)
			nv, nn, nc, ni = v, n, cond, its
		case "FromStruct":
			td.FromStruct(c16KeptStruct{V: v, N: n})
			nv, nn = v, n
		case "SetList":
			td.SetList("L", items(its...))
			ni = its
		case "Lists[...]=":
			td.Lists["L"] = items(its...)
			ni = its
		case "SetCondition":
			td.SetCondition("c", cond)
			nc = cond
		case "Conditions[...]=":
			td.Conditions["c"] = cond
			nc = cond
		case "Clear+refill":
			td.Clear()
			td.SetVariable("v", v)
			td.SetVariable("n", n)
			td.SetCondition("c", cond)
			td.SetList("L", items(its...))
			nv, nn, nc, ni = v, n, cond, its
		}
	}); pan != "" {
		report("update", "", "panic:"+panicClass(pan), "")
		return
	}
	if freshEngine {
		eng = document.NewTemplateEngine()
		eng.LoadTemplate("t", c16KeptTemplates[tpl])
	}
	want2 := c16KeptExpect(tpl, nv, nn, nc, ni)
	if got, fail := render(eng, td); fail != "" || got != want2 {
		report("render-after-update", got, fail, want2)
		return
	}
	p.Outcome("kept-data=>match")
}

// ---------------------------------------------------------------------------
// grammar 4: inheritance chains of three templates over a base with two blocks, every subset of blocks
// overridden at the middle and at the leaf level, under four namings: three distinct names, the leaf loaded
// under the base's name (a reloaded base that extends its own child), the leaf loaded under the middle
// template's name (a second version layered on the first) and all three under one name.  After every load
// every name the engine holds is rendered; the reference takes, per block, the override nearest to the
// rendered template along the chain it was bound to when it was loaded.  (seed C16-e1)

var c16ChainNamings = [][3]string{{"base", "mid", "leaf"}, {"base", "mid", "base"}, {"base", "mid", "mid"}, {"page", "page", "page"}}

type c16Chain struct {
	Naming int
	Mid    int // bit 0: overrides x, bit 1: overrides y
	Leaf   int
}

var c16ChainContent = [3][2]string{{"bx", "by {{v}}"}, {"mx {{v}}", "my"}, {"lx", "ly {{v}}"}}

func (t c16Chain) text(level int) string {
	n := c16ChainNamings[t.Naming]
	if level == 0 {
		return "H\n{{#block \"x\"}}" + c16ChainContent[0][0] + "{{/block}}\n{{#block \"y\"}}" + c16ChainContent[0][1] + "{{/block}}\nF {{v}}"
	}
	mask := t.Mid
	if level == 2 {
		mask = t.Leaf
	}
	s := "{{extends \"" + n[level-1] + "\"}}"
	for b := 0; b < 2; b++ {
		if mask&(1<<b) != 0 {
			s += "{{#block \"" + c16BlockNames[b] + "\"}}" + c16ChainContent[level][b] + "{{/block}}"
		}
	}
	return s
}

// want is the reference rendering of the template loaded at the given level (v = "V").
func (t c16Chain) want(level int) []string {
	out := []string{"H", "", "", "F V"}
	for b := 0; b < 2; b++ {
		src := 0
		if level >= 1 && t.Mid&(1<<b) != 0 {
			src = 1
		}
		if level >= 2 && t.Leaf&(1<<b) != 0 {
			src = 2
		}
		out[1+b] = strings.ReplaceAll(c16ChainContent[src][b], "{{v}}", "V")
	}
	return out
}

func c16Grammar4(c *shard.Ctx, idx *int64) {
	for naming := range c16ChainNamings {
		for mid := 0; mid < 4; mid++ {
			for leaf := 0; leaf < 4; leaf++ {
				t := c16Chain{naming, mid, leaf}
				desc := c16Desc{Grammar: "inheritance-chain", Base: t.text(0), Child: t.text(1) + "  ||  " + t.text(2), Data: fmt.Sprintf("names %v, v=V", c16ChainNamings[naming])}
				my := c.Begin(*idx, func() interface{} { return desc })
				i := *idx
				*idx++
				if !my {
					continue
				}
				c16ChainCase(c, i, t, desc)
			}
		}
	}
}

func c16ChainCase(c *shard.Ctx, idx int64, t c16Chain, desc c16Desc) {
	p := c.P
	key := rep.Hash("g4", fmt.Sprint(t))
	p.Keys = append(p.Keys, key)
	p.Nontrivial = append(p.Nontrivial, key)
	p.Evals++
	p.Traces++
	names := c16ChainNamings[t.Naming]
	document.VerifResetGlobals()
	var eng *document.TemplateEngine
	holder := map[string]int{} // name -> level of the template the name currently holds
	for level := 0; level < 3; level++ {
		fail := ""
		pan := guard(func() {
			if eng == nil {
				eng = document.NewTemplateEngine()
			}
			if _, err := eng.LoadTemplate(names[level], t.text(level)); err != nil {
				fail = "error:load: " + err.Error()
			}
		})
		p.Transitions++
		if pan != "" {
			fail = "panic:" + panicClass(pan)
		}
		if fail != "" {
			p.Outcome("chain-load=>" + strings.SplitN(fail, ":", 3)[0])
			p.Violate(rep.Violation{Sig: fmt.Sprintf("chain-load|naming=%d|level=%d|%s", t.Naming, level, strings.SplitN(fail, ": ", 2)[0]), Clause: "a well-formed template loads",
				What: fmt.Sprintf("LoadTemplate(%q, %q) after %d loads: %s", names[level], t.text(level), level, fail), Depth: int(idx), Case: shardCase(c, "c16", idx, desc)})
			return
		}
		holder[names[level]] = level
		rendered := map[string]bool{}
		for _, name := range names[:level+1] {
			if rendered[name] {
				continue
			}
			rendered[name] = true
			lv := holder[name]
			want := t.want(lv)
			var got []string
			rfail := ""
			pan := guard(func() {
				td := document.NewTemplateData()
				td.SetVariable("v", "V")
				doc, err := eng.RenderToDocument(name, td)
				if err != nil || doc == nil || doc.Body == nil {
					rfail = fmt.Sprintf("error:render: %v", err)
					return
				}
				for _, x := range doc.Body.GetParagraphs() {
					var sb strings.Builder
					for _, r := range x.Runs {
						sb.WriteString(r.Text.Content)
					}
					got = append(got, sb.String())
				}
			})
			p.Transitions++
			if pan != "" {
				rfail = "panic:" + panicClass(pan)
			}
			if rfail == "" && c16Eq(got, want) {
				p.Outcome(fmt.Sprintf("chain-render=>match|level=%d", lv))
				continue
			}
			culprit := rfail
			if rfail == "" {
				culprit = "paragraphs"
				if len(got) == len(want) {
					culprit = ""
					for k := range want {
						if got[k] != want[k] {
							culprit += []string{"head", "block-x", "block-y", "foot"}[k] + "+"
						}
					}
				}
			} else {
				culprit = strings.SplitN(rfail, ": ", 2)[0]
			}
			p.Outcome("chain-render=>differs")
			same := "distinct-names"
			if t.Naming > 0 {
				same = "name-reused-in-chain"
			}
			p.Violate(rep.Violation{Sig: fmt.Sprintf("chain|%s|rendered-level=%d-of-%d|%s", same, lv, level, culprit), Clause: "render(template of an inheritance chain) = base text with every block replaced by the nearest override along the chain the template was bound to at load time",
				What:  fmt.Sprintf("loads %v (texts %q, %q, %q; %d loaded): rendering %q gives paragraphs %q %s, the chain semantics gives %q", names[:level+1], t.text(0), t.text(1), t.text(2), level+1, name, got, rfail, want),
				Depth: int(idx), Case: shardCase(c, "c16", idx, desc), Expect: want, Got: got})
		}
	}
}

// ---------------------------------------------------------------------------
// grammar 3: numbers as item conditions.  The statement does not say which branch a number selects, so
// that is not judged; what is judged is that the branch does not depend on the Go type that happens to
// carry the number (0 as int, int64, float64; 7 likewise): every rendering must equal the rendering with
// the values given as int.  (seed C16-d2)

var c16NumTemplates = []string{
	"{{#each L}}{{#if f}}A{{else}}B{{/if}}{{/each}}",
	"{{#each L}}{{#if f}}A{{/if}}x{{/each}}",
	"{{#each L}}{{n}}:{{#each sub}}{{#if f}}A{{else}}B{{/if}}{{/each}};{{/each}}",
	"{{#each L}}{{#if f}}{{f}}{{else}}-{{f}}{{/if}} {{/each}}",
}

func c16Num(typ int, v int) interface{} {
	switch typ {
	case 0:
		return v
	case 1:
		return int64(v)
	}
	return float64(v)
}

var c16NumTypes = []string{"int", "int64", "float64"}

func c16NumRender(text string, zt, nt int) ([]string, string) {
	var tok []string
	fail := ""
	document.VerifResetGlobals()
	p := guard(func() {
		eng := document.NewTemplateEngine()
		if _, err := eng.LoadTemplate("t", text); err != nil {
			fail = "error:load"
			return
		}
		z, n := c16Num(zt, 0), c16Num(nt, 7)
		td := document.NewTemplateData()
		td.SetList("L", []interface{}{
			map[string]interface{}{"n": "i0", "f": z, "sub": []interface{}{map[string]interface{}{"f": z}, map[string]interface{}{"f": n}}},
			map[string]interface{}{"n": "i1", "f": n, "sub": []interface{}{map[string]interface{}{"f": n}, map[string]interface{}{"f": z}}},
		})
		doc, err := eng.RenderToDocument("t", td)
		if err != nil || doc == nil || doc.Body == nil {
			fail = "error:render"
			return
		}
		for _, x := range doc.Body.GetParagraphs() {
			var t strings.Builder
			for _, r := range x.Runs {
				t.WriteString(r.Text.Content)
			}
			tok = append(tok, t.String())
		}
	})
	if p != "" {
		return nil, "panic:" + panicClass(p)
	}
	return tok, fail
}

func c16Grammar3(c *shard.Ctx, idx *int64) {
	for ti, text := range c16NumTemplates {
		for zt := 0; zt < 3; zt++ {
			for nt := 0; nt < 3; nt++ {
				ti, text, zt, nt := ti, text, zt, nt
				dataS := fmt.Sprintf("item field f: zero as %s, seven as %s", c16NumTypes[zt], c16NumTypes[nt])
				my := c.Begin(*idx, func() interface{} { return c16Desc{Grammar: "numeric-conditions", Template: text, Data: dataS} })
				i := *idx
				*idx++
				if !my {
					continue
				}
				p := c.P
				key := rep.Hash("g3", text, fmt.Sprint(zt, nt))
				p.Keys = append(p.Keys, key)
				p.Nontrivial = append(p.Nontrivial, key)
				p.Evals++
				p.Transitions += 2
				p.Traces++
				ref, rf := c16NumRender(text, 0, 0)
				got, gf := c16NumRender(text, zt, nt)
				if rf == gf && c16Eq(ref, got) {
					p.Outcome("numeric-condition=>same-as-int")
					continue
				}
				p.Outcome("numeric-condition=>differs")
				which := c16NumTypes[zt]
				if zt == 0 {
					which = c16NumTypes[nt]
				}
				p.Violate(rep.Violation{Sig: fmt.Sprintf("numeric-condition-depends-on-go-type|template=%d|%s", ti, which), Clause: "the branch kept depends on the condition, not on its Go representation",
					What:  fmt.Sprintf("template %q with %s renders %q %s, with both numbers as int it renders %q %s", text, dataS, got, gf, ref, rf),
					Depth: int(i), Case: shardCase(c, "c16", i, c16Desc{Grammar: "numeric-conditions", Template: text, Data: dataS}), Expect: ref, Got: got})
			}
		}
	}
}

func c16Case1(c *shard.Ctx, a c16Args, idx int64, ns []*c16N) {
	p := c.P
	text := c16Text(ns)
	key := rep.Hash(text)
	p.Keys = append(p.Keys, key)
	nontriv := c16HasDirective(ns)
	if nontriv {
		p.Nontrivial = append(p.Nontrivial, key)
	}
	var used [slCount]bool
	c16Slots(ns, false, false, false, false, &used)
	variants := c16DataVariants(used, a.Classes)
	baseFail := "?"
	for di, d := range variants {
		p.Evals++
		p.Transitions++
		if d.isBase() {
			p.Transitions++
		}
		p.Traces++
		p.Add("template_data_pairs", 1)
		kind, want, got := c16Fails1(ns, d, 1)
		if kind == "" {
			p.Outcome(fmt.Sprintf("match|paragraphs=%d", len(want)))
			if len(p.Samples) < 2 && nontriv && (idx%97 == 0) {
				p.Samples = append(p.Samples, map[string]interface{}{"template": text, "data": d.String(), "paragraphs": want})
			}
			continue
		}
		p.Outcome(kind)
		// determinism of the failure
		if k2, _, _ := c16Fails1(ns, d, 1); k2 != kind {
			p.Add("order_dependent_failures", 1)
		}
		if d.isBase() {
			baseFail = kind
			min := c16Shrink(ns, kind, a.MaxDepth, p)
			_, mw, mg := c16Fails1(min, d, 1)
			sig := kind + "|" + c16Show(c16Text(min))
			p.Violate(rep.Violation{Sig: sig, Clause: "render(template, data) = reference(template tree, data)",
				What:   fmt.Sprintf("template %q (all value slots \"V\") renders paragraphs %q, the documented semantics gives %q [%s]", c16Text(min), mg, mw, kind),
				Depth:  int(idx),
				Case:   shardCase(c, "c16", idx, c16Desc{Grammar: "main", Template: text, Data: d.String(), DataDoc: c16DataDoc}),
				Expect: want, Got: got})
			continue
		}
		// a non-plain value is involved: does the template fail with plain values too?
		if baseFail == "?" {
			baseFail, _, _ = c16Fails1(ns, c16Data{}, 1)
		}
		if baseFail != "" {
			p.Add("failures_already_failing_with_plain_values", 1)
			continue
		}
		culprit := ""
		tries := 1
		if c16OrderDependent(d) {
			tries = 24
		}
		for s := 0; s < slCount; s++ {
			if d[s] == 0 {
				continue
			}
			var one c16Data
			one[s] = d[s]
			if one == d {
				culprit = c16SlotKind[s] + "=" + c16ClassName[d[s]]
				break
			}
			if k, _, _ := c16Fails1(ns, one, tries); k != "" {
				culprit = c16SlotKind[s] + "=" + c16ClassName[d[s]]
				break
			}
		}
		if culprit == "" {
			var parts []string
			for s := 0; s < slCount; s++ {
				if d[s] != 0 {
					parts = append(parts, c16SlotKind[s]+"="+c16ClassName[d[s]])
				}
			}
			sort.Strings(parts)
			culprit = "combination:" + strings.Join(parts, "+")
		}
		sig := "value|" + culprit
		if kind != "mismatch" {
			sig += "|" + kind
		}
		p.Violate(rep.Violation{Sig: sig, Clause: "values are inserted verbatim",
			What:   fmt.Sprintf("template %q with %s renders paragraphs %q, the documented semantics gives %q (the same template with plain values renders correctly)", text, d.String(), got, want),
			Depth:  int(idx)*400 + di,
			Case:   shardCase(c, "c16", idx, c16Desc{Grammar: "main", Template: text, Data: d.String(), DataDoc: c16DataDoc}),
			Expect: want, Got: got})
	}
}

// ---------------------------------------------------------------------------
// grammar 2: blocks, extends, image placeholders

type c16G2 struct {
	P    []string // text before / between / after the blocks (len = blocks+1)
	Def  []int    // default content of each block (fragment index)
	Over []int    // child's override per block, -1 = not overridden
}

func c16Frags() [][]*c16N {
	a := &c16N{K: "lit", S: "a"}
	return [][]*c16N{
		nil,
		{a},
		{{K: "var", S: "v"}},
		{{K: "image", S: "p"}},
		{{K: "each", S: "S", Body: []*c16N{{K: "this"}}}},
		{{K: "if", S: "ct", Body: []*c16N{{K: "lit", S: "é"}}}},
		{{K: "lit", S: "\n"}},
		{{K: "if", S: "cf", Body: []*c16N{a}, Else: []*c16N{{K: "lit", S: "é"}}, HasElse: true}},
	}
}

var c16BlockNames = []string{"x", "y"}

func (t c16G2) baseText(fr [][]*c16N) string {
	var b strings.Builder
	for i := range t.Def {
		b.WriteString(t.P[i])
		b.WriteString("{{#block \"" + c16BlockNames[i] + "\"}}")
		b.WriteString(c16Text(fr[t.Def[i]]))
		b.WriteString("{{/block}}")
	}
	b.WriteString(t.P[len(t.Def)])
	return b.String()
}

func (t c16G2) childText(fr [][]*c16N) string {
	var b strings.Builder
	b.WriteString("{{extends \"base\"}}")
	for i, o := range t.Over {
		if o >= 0 {
			b.WriteString("{{#block \"" + c16BlockNames[i] + "\"}}")
			b.WriteString(c16Text(fr[o]))
			b.WriteString("{{/block}}")
		}
	}
	return b.String()
}

// tree is the reference meaning: the base text with every block replaced by its effective content.
func (t c16G2) tree(fr [][]*c16N, child bool) []*c16N {
	var ns []*c16N
	for i := range t.Def {
		if t.P[i] != "" {
			ns = append(ns, &c16N{K: "lit", S: t.P[i]})
		}
		if child && t.Over[i] >= 0 {
			ns = append(ns, fr[t.Over[i]]...)
		} else {
			ns = append(ns, fr[t.Def[i]]...)
		}
	}
	if t.P[len(t.Def)] != "" {
		ns = append(ns, &c16N{K: "lit", S: t.P[len(t.Def)]})
	}
	return ns
}

func (t c16G2) usesV(fr [][]*c16N) bool {
	for i := range t.Def {
		if t.Def[i] == 2 || t.Over[i] == 2 {
			return true
		}
	}
	return false
}

func (t c16G2) clone() c16G2 {
	return c16G2{P: append([]string{}, t.P...), Def: append([]int{}, t.Def...), Over: append([]int{}, t.Over...)}
}

// fails renders the base alone and the child after the base, each on a fresh engine.
func (t c16G2) fails(fr [][]*c16N, d c16Data) (kind, which string, want, got []string) {
	base := c16Load{"base", t.baseText(fr)}
	w := c16Expect(t.tree(fr, false), d, true)
	if k, g := c16Check([]c16Load{base}, w, d, true); k != "" {
		return k, "base", w, g
	}
	w = c16Expect(t.tree(fr, true), d, true)
	if k, g := c16Check([]c16Load{base, {"child", t.childText(fr)}}, w, d, true); k != "" {
		return k, "child", w, g
	}
	return "", "", w, w
}

func (t c16G2) variants() []c16G2 {
	var out []c16G2
	if len(t.Def) == 2 {
		for drop := 0; drop < 2; drop++ {
			keep := 1 - drop
			out = append(out, c16G2{P: []string{t.P[0], t.P[2]}, Def: []int{t.Def[keep]}, Over: []int{t.Over[keep]}})
		}
	}
	for i := range t.P {
		if t.P[i] != "" {
			v := t.clone()
			v.P[i] = ""
			out = append(out, v)
			if t.P[i] != "a" {
				v = t.clone()
				v.P[i] = "a"
				out = append(out, v)
			}
		}
	}
	for i := range t.Def {
		if t.Over[i] >= 0 {
			v := t.clone()
			v.Def[i] = t.Over[i]
			v.Over[i] = -1
			out = append(out, v)
			v = t.clone()
			v.Over[i] = -1
			out = append(out, v)
		}
		for _, simpler := range []int{0, 1} {
			if t.Def[i] > simpler {
				v := t.clone()
				v.Def[i] = simpler
				out = append(out, v)
			}
			if t.Over[i] > simpler {
				v := t.clone()
				v.Over[i] = simpler
				out = append(out, v)
			}
		}
	}
	return out
}

func (t c16G2) sig(fr [][]*c16N) string {
	return "base=" + c16Show(t.baseText(fr)) + " child=" + c16Show(t.childText(fr))
}

func c16Grammar2(c *shard.Ctx, a c16Args, idx *int64) {
	fr := c16Frags()
	if a.G2Frags < len(fr) {
		fr = fr[:a.G2Frags]
	}
	nf := len(fr)
	run := func(t c16G2) {
		my := c.Begin(*idx, func() interface{} {
			return c16Desc{Grammar: "inheritance", Base: t.baseText(fr), Child: t.childText(fr)}
		})
		if my {
			c16Case2(c, *idx, t, fr)
		}
		*idx++
	}
	// one block
	for _, p0 := range []string{"", "a", "\n"} {
		for _, p1 := range []string{"", "a", "\n"} {
			for d0 := 0; d0 < nf; d0++ {
				for o0 := -1; o0 < nf; o0++ {
					run(c16G2{P: []string{p0, p1}, Def: []int{d0}, Over: []int{o0}})
				}
			}
		}
	}
	// two blocks
	ps := []string{"", "a"}
	for _, p0 := range ps {
		for _, p1 := range []string{"", "a", "\n"} {
			for _, p2 := range ps {
				for d0 := 0; d0 < nf; d0++ {
					for d1 := 0; d1 < nf; d1++ {
						for o0 := -1; o0 < nf; o0++ {
							for o1 := -1; o1 < nf; o1++ {
								run(c16G2{P: []string{p0, p1, p2}, Def: []int{d0, d1}, Over: []int{o0, o1}})
							}
						}
					}
				}
			}
		}
	}
}

func c16Case2(c *shard.Ctx, idx int64, t c16G2, fr [][]*c16N) {
	p := c.P
	key := rep.Hash("g2", t.baseText(fr), t.childText(fr))
	p.Keys = append(p.Keys, key)
	p.Nontrivial = append(p.Nontrivial, key)
	datas := []c16Data{{}}
	if t.usesV(fr) {
		datas = append(datas, c16Data{c16ClassBlock})
	}
	baseFail := "?"
	for _, d := range datas {
		p.Evals++
		p.Transitions += 2
		if d.isBase() {
			p.Transitions += 2
		}
		p.Traces++
		p.Add("inheritance_cases", 1)
		kind, which, want, got := t.fails(fr, d)
		if kind == "" {
			p.Outcome(fmt.Sprintf("match|paragraphs=%d", len(want)))
			if len(p.Samples) < 3 && idx%211 == 0 {
				p.Samples = append(p.Samples, map[string]interface{}{"base": t.baseText(fr), "child": t.childText(fr), "data": d.String(), "child_paragraphs": want})
			}
			continue
		}
		p.Outcome(kind)
		desc := c16Desc{Grammar: "inheritance", Base: t.baseText(fr), Child: t.childText(fr), Data: d.String(), DataDoc: c16DataDoc}
		if !d.isBase() {
			if baseFail == "?" {
				baseFail, _, _, _ = t.fails(fr, c16Data{})
			}
			if baseFail != "" {
				p.Add("failures_already_failing_with_plain_values", 1)
				continue
			}
			sig := "value|global=block"
			if kind != "mismatch" {
				sig += "|" + kind
			}
			p.Violate(rep.Violation{Sig: sig, Clause: "values are inserted verbatim",
				What:  fmt.Sprintf("base %q, child %q with %s: rendering the %s gives paragraphs %q, the documented semantics gives %q", t.baseText(fr), t.childText(fr), d.String(), which, got, want),
				Depth: int(idx)*400 + 1, Case: shardCase(c, "c16", idx, desc), Expect: want, Got: got})
			continue
		}
		baseFail = kind
		cur := t
		for steps := 0; steps < 100; steps++ {
			changed := false
			for _, v := range cur.variants() {
				p.Add("shrink_renders", 1)
				if k, _, _, _ := v.fails(fr, d); k == kind {
					cur = v
					changed = true
					break
				}
			}
			if !changed {
				break
			}
		}
		_, which, mw, mg := cur.fails(fr, d)
		p.Violate(rep.Violation{Sig: "inherit-" + kind + "|" + which + "|" + cur.sig(fr), Clause: "render(base/child, data) = reference(base tree with overridden blocks, data)",
			What:  fmt.Sprintf("base %q, child %q: rendering the %s gives paragraphs %q, the documented semantics gives %q [%s]", cur.baseText(fr), cur.childText(fr), which, mg, mw, kind),
			Depth: int(idx), Case: shardCase(c, "c16", idx, desc), Expect: want, Got: got})
	}
}

// ---------------------------------------------------------------------------

func runC16(r *rep.Run) {
	a := c16Args{MaxNodes: 3, MaxDepth: 2, G2Frags: 6}
	for i := 0; i < c16ClassBlock; i++ {
		a.Classes = append(a.Classes, i)
	}
	if r.Tier == "thorough" {
		a.MaxNodes = 4
		a.MaxDepth = 3
		a.G2Frags = 8
	}
	r.Bounds["max_nodes"] = a.MaxNodes
	r.Bounds["max_block_nesting"] = a.MaxDepth
	r.Bounds["literal_alphabet"] = c16Lits
	names := []string{}
	for _, cl := range a.Classes {
		names = append(names, c16ClassName[cl])
	}
	r.Bounds["value_classes_per_slot"] = names
	r.Bounds["value_slots"] = c16SlotName
	r.Bounds["data_layout"] = c16DataDoc
	r.Bounds["kept_data"] = "3 templates x 10 ways of updating one kept TemplateData object between two renders x {same engine, fresh engine}"
	r.Bounds["inheritance_chains"] = "3 templates (base with blocks x,y; middle and leaf each overriding every subset) x 4 namings (distinct, leaf under the base's name, leaf under the middle's name, one name for all); every held name rendered after every load"
	r.Bounds["inheritance_grammar"] = fmt.Sprintf("base with 1 or 2 blocks, surrounding text in {\"\",\"a\",\"\\n\"}, default/override content from %d fragments (empty, literal, variable, image placeholder, each, if, newline, if-else), child overriding every subset", a.G2Frags)
	r.Rule = "every template tree of the grammar Lit | Var | If(cond, body[, else]) | Each(list, body) with item-scope nodes (field, this, @index, @first, @last, If(item bool field), nested Each(item list field)) up to the node bound, crossed with every assignment of the value classes to the value slots the template can observe; each pair rendered with LoadTemplate+RenderToDocument on a fresh engine (and, for the plain data of every template, also with RenderTemplateToDocument), paragraph texts compared with a reference interpreter evaluated on the generator's tree; then every base/child pair of the inheritance grammar (base alone, child after base). state key = template text (inheritance: base+child text); evaluations = template x data pairs; transitions = renders; non-trivial = the template contains at least one directive. A failing template is reduced with plain values to a 1-minimal failing template of the grammar (signature = failure kind + minimal template); a failure that disappears with plain values is attributed to the first slot whose value alone reproduces it (signature = value|slot kind=value class)"
	r.Assume = []string{
		"output encoding (the one deliberate abstraction): paragraphs = lines of the rendered text; a whitespace-only line equals an empty line; a text consisting of blank lines only equals no paragraphs; an image placeholder splits its line into optional non-blank text, image paragraph, optional non-blank text",
		"global names (v,u,w / ct,cf,cm / L,S,E,M) and item field names (f,g,b,n,k / h,c) are disjoint, so shadowing is unobservable",
		"conditions outside loops name global conditions; conditions inside a loop body name boolean fields of the current item (or absent fields); truthiness of other types is not documented and not generated in the main grammar",
		"numbers as item conditions (third grammar, 4 templates x 9 type assignments): which branch a number selects is not judged; only that the rendering with 0 and 7 carried as int64 or float64 equals the rendering with both carried as int",
		"If directly inside If is not generated (the documented grammar has no nested conditionals); If inside Each only for map items; {{this}} only for scalar items",
		"inner loop bodies may use fields of the outer item (documented: inner loops can access outer loop variables)",
		"literal text never forms directive syntax: two equal brace characters are never adjacent",
		"in the inheritance grammar the child consists of the extends directive and block definitions only (the fate of other child text is not documented); image placeholders are generated only for names that have image data",
		"inheritance chains: a template is bound to the template its extends directive names at the moment it is loaded (the reading C17 states as well); a name loaded again does not change templates already bound to the earlier holder of the name, and a template may extend the earlier holder of its own name",
		"renders whose outcome depends on Go map iteration order (an item field value naming a sibling field) may or may not fail in a given run; when they fail they are attributed with repeated renders",
	}
	p0 := rep.NewPartial()
	p0.Notes = append(p0.Notes, "value classes: "+c16ClassList())
	r.Merge(p0)
	runShards(r, "c16", a, 60*time.Second, nil)
}

func c16ClassList() string {
	var p []string
	for i, n := range c16ClassName {
		p = append(p, fmt.Sprintf("%s=%s", n, strconv.Quote(fmt.Sprint(c16Value(i)))))
	}
	return strings.Join(p, " ")
}
