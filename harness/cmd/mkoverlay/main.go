// mkoverlay generates build/overlay.json: hook files are added to the packages
// of the repository virtually (the repository tree is never written to).
package main

import (
	"encoding/json"
	"flag"
	"fmt"
	"os"
	"path/filepath"
)

func main() {
	repo := flag.String("repo", "/repo", "repository root")
	hooks := flag.String("hooks", "/verif/hooks", "hooks directory")
	out := flag.String("out", "/verif/build", "output directory")
	mutation := flag.String("mutation", "", "optional mutation name (hooks/mutations/<name>/...)")
	flag.Parse()
	replace := map[string]string{}
	add := func(pkgDir, hookSub string) {
		files, _ := filepath.Glob(filepath.Join(*hooks, hookSub, "*.go"))
		for _, f := range files {
			replace[filepath.Join(*repo, pkgDir, filepath.Base(f))] = f
		}
	}
	add("pkg/document", "document")
	add("pkg/style", "style")
	add("pkg/markdown", "markdown")
	if err := instrument(*repo, *hooks, *out, replace); err != nil {
		fmt.Fprintln(os.Stderr, "mkoverlay:", err)
		os.Exit(2)
	}
	if *mutation != "" {
		if err := applyMutation(*repo, *hooks, *out, *mutation, replace); err != nil {
			fmt.Fprintln(os.Stderr, "mkoverlay:", err)
			os.Exit(2)
		}
	}
	b, _ := json.MarshalIndent(map[string]interface{}{"Replace": replace}, "", " ")
	if err := os.WriteFile(filepath.Join(*out, "overlay.json"), b, 0o644); err != nil {
		fmt.Fprintln(os.Stderr, "mkoverlay:", err)
		os.Exit(2)
	}
}
