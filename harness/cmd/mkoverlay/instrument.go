package main

// instrument: scheduling points for the schedule explorer (schedx).
//
// Rules (all anchored on the syntax of the CURRENT tree, never on line numbers):
//
//  A. package-level mutable variables: every function that mentions one (level 1)
//     and every function that calls a level-1 function by name (level 2) gets a
//     vsync.Point before each of its statements.  A variable counts as mutable
//     unless it lives in errors.go, is initialised by regexp.MustCompile /
//     errors.New / fmt.Errorf, is the logger, or is a composite-literal table that
//     is never written anywhere in the package.
//  B. files that import "sync": the import is redirected to the vsync wrappers, so
//     every lock operation is a scheduling point; the struct types of that file
//     reachable from the struct holding the mutex are "shared", and every function
//     that selects a field with the name of a shared field gets a point before
//     each statement.
//
// Insertions are textual at statement start offsets (no line is added, so panic
// traces keep the repository's line numbers).

import (
	"encoding/json"
	"fmt"
	"go/ast"
	"go/importer"
	"go/parser"
	"go/token"
	"go/types"
	"os"
	"path/filepath"
	"sort"
	"strings"
)

const vsyncPath = "github.com/zerx-lab/wordZero/pkg/vsync"

type instrReport struct {
	MutableVars map[string][]string `json:"mutable_package_vars"`
	Level1      map[string][]string `json:"functions_touching_them"`
	Level2      map[string][]string `json:"their_direct_callers"`
	SyncFiles   []string            `json:"files_importing_sync"`
	SharedField map[string][]string `json:"shared_fields"`
	FieldFuncs  map[string][]string `json:"functions_touching_shared_fields"`
	Points      int                 `json:"points_inserted"`
}

func instrument(repo, hooks, out string, replace map[string]string) error {
	rep := &instrReport{MutableVars: map[string][]string{}, Level1: map[string][]string{}, Level2: map[string][]string{}, SharedField: map[string][]string{}, FieldFuncs: map[string][]string{}}
	// the virtual package
	vs, _ := filepath.Glob(filepath.Join(hooks, "vsync", "*.go"))
	if len(vs) == 0 {
		return fmt.Errorf("hooks/vsync missing")
	}
	for _, f := range vs {
		replace[filepath.Join(repo, "pkg", "vsync", filepath.Base(f))] = f
	}
	for _, pkg := range []string{"document", "style", "markdown"} {
		if err := instrumentPkg(repo, pkg, out, replace, rep); err != nil {
			return err
		}
	}
	b, _ := json.MarshalIndent(rep, "", " ")
	return os.WriteFile(filepath.Join(out, "instrument.json"), b, 0o644)
}

type fileInfo struct {
	path string
	src  []byte
	f    *ast.File
}

func funcName(fd *ast.FuncDecl) string { return fd.Name.Name }

func instrumentPkg(repo, pkg, out string, replace map[string]string, rep *instrReport) error {
	dir := filepath.Join(repo, "pkg", pkg)
	ents, err := os.ReadDir(dir)
	if err != nil {
		return err
	}
	fset := token.NewFileSet()
	var files []*fileInfo
	var asts []*ast.File
	for _, e := range ents {
		n := e.Name()
		if !strings.HasSuffix(n, ".go") || strings.HasSuffix(n, "_test.go") {
			continue
		}
		p := filepath.Join(dir, n)
		if _, overridden := replace[p]; overridden {
			continue // a hook file
		}
		src, err := os.ReadFile(p)
		if err != nil {
			return err
		}
		f, err := parser.ParseFile(fset, p, src, parser.ParseComments)
		if err != nil {
			return fmt.Errorf("parse %s: %v", p, err)
		}
		files = append(files, &fileInfo{p, src, f})
		asts = append(asts, f)
	}
	info := &types.Info{Selections: map[*ast.SelectorExpr]*types.Selection{}, Uses: map[*ast.Ident]types.Object{}, Defs: map[*ast.Ident]types.Object{}}
	var terrs []string
	conf := types.Config{Importer: importer.ForCompiler(fset, "source", nil), Error: func(err error) { terrs = append(terrs, err.Error()) }}
	tpkg, _ := conf.Check("github.com/zerx-lab/wordZero/pkg/"+pkg, fset, asts, info)
	if len(terrs) > 0 {
		return fmt.Errorf("type-checking pkg/%s: %s", pkg, strings.Join(terrs, "; "))
	}
	fileOf := func(pos token.Pos) string { return filepath.Base(fset.Position(pos).Filename) }
	// ---- rule A: mutable package-level variables
	errType := types.Universe.Lookup("error").Type().Underlying().(*types.Interface)
	pkgVar := func(id *ast.Ident) *types.Var {
		if id == nil {
			return nil
		}
		obj := info.Uses[id]
		if obj == nil {
			obj = info.Defs[id]
		}
		if v, ok := obj.(*types.Var); ok && !v.IsField() && v.Parent() == tpkg.Scope() {
			return v
		}
		return nil
	}
	rootIdent := func(e ast.Expr) *ast.Ident {
		for {
			switch x := e.(type) {
			case *ast.Ident:
				return x
			case *ast.SelectorExpr:
				e = x.X
			case *ast.IndexExpr:
				e = x.X
			case *ast.StarExpr:
				e = x.X
			case *ast.ParenExpr:
				e = x.X
			default:
				return nil
			}
		}
	}
	written := map[*types.Var]bool{}
	literal := map[*types.Var]bool{}
	for _, fi := range files {
		for _, d := range fi.f.Decls {
			if gd, ok := d.(*ast.GenDecl); ok && gd.Tok == token.VAR {
				for _, s := range gd.Specs {
					vs := s.(*ast.ValueSpec)
					for i, nm := range vs.Names {
						if v, ok := info.Defs[nm].(*types.Var); ok && i < len(vs.Values) {
							if _, ok := vs.Values[i].(*ast.CompositeLit); ok {
								literal[v] = true
							}
						}
					}
				}
			}
		}
		ast.Inspect(fi.f, func(n ast.Node) bool {
			mark := func(e ast.Expr) {
				if v := pkgVar(rootIdent(e)); v != nil {
					written[v] = true
				}
			}
			switch x := n.(type) {
			case *ast.AssignStmt:
				for _, l := range x.Lhs {
					mark(l)
				}
			case *ast.IncDecStmt:
				mark(x.X)
			case *ast.UnaryExpr:
				if x.Op == token.AND {
					mark(x.X)
				}
			case *ast.CallExpr:
				if id, ok := x.Fun.(*ast.Ident); ok && (id.Name == "delete" || id.Name == "copy" || id.Name == "clear") && len(x.Args) > 0 {
					mark(x.Args[0])
				}
				// a method with a pointer receiver called on a package-level value (sync.Pool.Get/Put, sync.Map.Store,
				// a counter's Add, ...) may change it: the variable counts as written
				if se, ok := x.Fun.(*ast.SelectorExpr); ok {
					if sel := info.Selections[se]; sel != nil && sel.Kind() == types.MethodVal {
						if fn, ok := sel.Obj().(*types.Func); ok {
							if sig, ok := fn.Type().(*types.Signature); ok && sig.Recv() != nil {
								if _, ptr := sig.Recv().Type().(*types.Pointer); ptr {
									mark(se.X)
								}
							}
						}
					}
				}
			}
			return true
		})
	}
	mutable := map[*types.Var]bool{}
	sc := tpkg.Scope()
	for _, n := range sc.Names() {
		v, ok := sc.Lookup(n).(*types.Var)
		if !ok {
			continue
		}
		t := v.Type()
		exempt := n == "defaultLogger" || types.Implements(t, errType) || t.String() == "*regexp.Regexp"
		if literal[v] && !written[v] {
			exempt = true
		}
		if b, ok := t.Underlying().(*types.Basic); ok && !written[v] && b.Info()&types.IsConstType != 0 {
			exempt = true // a never-written scalar
		}
		if !exempt {
			mutable[v] = true
			rep.MutableVars[pkg] = append(rep.MutableVars[pkg], n)
		}
	}
	level := map[*ast.FuncDecl]int{}
	l1 := map[types.Object]bool{}
	for _, fi := range files {
		for _, d := range fi.f.Decls {
			fd, ok := d.(*ast.FuncDecl)
			if !ok || fd.Body == nil {
				continue
			}
			hit := false
			ast.Inspect(fd.Body, func(n ast.Node) bool {
				if id, ok := n.(*ast.Ident); ok {
					if v := pkgVar(id); v != nil && mutable[v] {
						hit = true
					}
				}
				return !hit
			})
			if hit {
				level[fd] = 1
				l1[info.Defs[fd.Name]] = true
				rep.Level1[pkg] = append(rep.Level1[pkg], funcName(fd))
			}
		}
	}
	for _, fi := range files {
		for _, d := range fi.f.Decls {
			fd, ok := d.(*ast.FuncDecl)
			if !ok || fd.Body == nil || level[fd] != 0 {
				continue
			}
			hit := false
			ast.Inspect(fd.Body, func(n ast.Node) bool {
				if c, ok := n.(*ast.CallExpr); ok {
					switch f := c.Fun.(type) {
					case *ast.Ident:
						hit = hit || l1[info.Uses[f]]
					case *ast.SelectorExpr:
						hit = hit || l1[info.Uses[f.Sel]]
					}
				}
				return !hit
			})
			if hit {
				level[fd] = 2
				rep.Level2[pkg] = append(rep.Level2[pkg], funcName(fd))
			}
		}
	}
	// ---- rule B: files importing sync
	syncFile := map[*fileInfo]*ast.ImportSpec{}
	for _, fi := range files {
		for _, im := range fi.f.Imports {
			if im.Path.Value == `"sync"` && im.Name == nil {
				syncFile[fi] = im
				rep.SyncFiles = append(rep.SyncFiles, filepath.Base(fi.path))
			}
		}
	}
	shared := map[*types.Named]bool{}
	isSyncType := func(t types.Type) bool {
		if n, ok := t.(*types.Named); ok && n.Obj().Pkg() != nil && n.Obj().Pkg().Path() == "sync" {
			return true
		}
		return false
	}
	var reachT func(t types.Type, file string)
	reachT = func(t types.Type, file string) {
		switch x := t.(type) {
		case *types.Pointer:
			reachT(x.Elem(), file)
		case *types.Slice:
			reachT(x.Elem(), file)
		case *types.Array:
			reachT(x.Elem(), file)
		case *types.Map:
			reachT(x.Key(), file)
			reachT(x.Elem(), file)
		case *types.Named:
			if x.Obj().Pkg() != tpkg || shared[x] || fileOf(x.Obj().Pos()) != file {
				return
			}
			if st, ok := x.Underlying().(*types.Struct); ok {
				shared[x] = true
				for i := 0; i < st.NumFields(); i++ {
					reachT(st.Field(i).Type(), file)
				}
			}
		}
	}
	for _, n := range sc.Names() {
		tn, ok := sc.Lookup(n).(*types.TypeName)
		if !ok {
			continue
		}
		named, ok := tn.Type().(*types.Named)
		if !ok {
			continue
		}
		st, ok := named.Underlying().(*types.Struct)
		if !ok {
			continue
		}
		for i := 0; i < st.NumFields(); i++ {
			if isSyncType(st.Field(i).Type()) {
				reachT(named, fileOf(tn.Pos()))
			}
		}
	}
	for n := range shared {
		rep.SharedField[pkg] = append(rep.SharedField[pkg], n.Obj().Name())
	}
	sort.Strings(rep.SharedField[pkg])
	derefNamed := func(t types.Type) *types.Named {
		if p, ok := t.(*types.Pointer); ok {
			t = p.Elem()
		}
		n, _ := t.(*types.Named)
		return n
	}
	if len(shared) > 0 {
		for _, fi := range files {
			for _, d := range fi.f.Decls {
				fd, ok := d.(*ast.FuncDecl)
				if !ok || fd.Body == nil || level[fd] != 0 {
					continue
				}
				hit := false
				ast.Inspect(fd.Body, func(n ast.Node) bool {
					if se, ok := n.(*ast.SelectorExpr); ok {
						if sel := info.Selections[se]; sel != nil && sel.Kind() == types.FieldVal {
							if nm := derefNamed(sel.Recv()); nm != nil && shared[nm] {
								hit = true
							}
						}
					}
					return !hit
				})
				if hit {
					level[fd] = 3
					rep.FieldFuncs[pkg] = append(rep.FieldFuncs[pkg], funcName(fd))
				}
			}
		}
	}
	// ---- emit
	for _, fi := range files {
		type ins struct {
			off  int
			text string
		}
		var inss []ins
		qual := "vsync"
		if _, ok := syncFile[fi]; ok {
			qual = "sync"
		}
		base := filepath.Base(fi.path)
		for _, d := range fi.f.Decls {
			fd, ok := d.(*ast.FuncDecl)
			if !ok || fd.Body == nil || level[fd] == 0 {
				continue
			}
			n := 0
			var lists func(node ast.Node)
			addList := func(l []ast.Stmt) {
				for _, s := range l {
					off := fset.Position(s.Pos()).Offset
					site := fmt.Sprintf("%s:%s:%d", strings.TrimSuffix(base, ".go"), funcName(fd), n)
					n++
					inss = append(inss, ins{off, fmt.Sprintf("%s.Point(%q); ", qual, site)})
				}
			}
			lists = func(node ast.Node) {
				skip := map[*ast.BlockStmt]bool{} // bodies of switch/select hold clauses, not statements
				ast.Inspect(node, func(x ast.Node) bool {
					switch b := x.(type) {
					case *ast.SwitchStmt:
						skip[b.Body] = true
					case *ast.TypeSwitchStmt:
						skip[b.Body] = true
					case *ast.SelectStmt:
						skip[b.Body] = true
					case *ast.BlockStmt:
						if !skip[b] {
							addList(b.List)
						}
					case *ast.CaseClause:
						addList(b.Body)
					case *ast.CommClause:
						addList(b.Body)
					}
					return true
				})
			}
			lists(fd.Body)
		}
		im, isSync := syncFile[fi]
		if len(inss) == 0 && !isSync {
			continue
		}
		if isSync {
			off := fset.Position(im.Path.Pos()).Offset
			inss = append(inss, ins{off, "sync "})
			// replace the path text itself below
		} else {
			off := fset.Position(fi.f.Name.End()).Offset
			inss = append(inss, ins{off, fmt.Sprintf("; import vsync %q", vsyncPath)})
		}
		sort.SliceStable(inss, func(i, j int) bool { return inss[i].off < inss[j].off })
		var b strings.Builder
		prev := 0
		for _, in := range inss {
			b.Write(fi.src[prev:in.off])
			b.WriteString(in.text)
			prev = in.off
		}
		b.Write(fi.src[prev:])
		text := b.String()
		if isSync {
			text = strings.Replace(text, `sync "sync"`, fmt.Sprintf("sync %q", vsyncPath), 1)
		}
		rep.Points += len(inss) - 1
		od := filepath.Join(out, "instr", pkg)
		os.MkdirAll(od, 0o755)
		op := filepath.Join(od, base)
		if err := os.WriteFile(op, []byte(text), 0o644); err != nil {
			return err
		}
		replace[fi.path] = op
	}
	for _, m := range []map[string][]string{rep.Level1, rep.Level2, rep.FieldFuncs} {
		for k := range m {
			sort.Strings(m[k])
		}
	}
	return nil
}

func applyMutation(repo, hooks, out, name string, replace map[string]string) error {
	return fmt.Errorf("mutations are applied as patches to a scratch worktree (bin/seedrun), not through the overlay")
}
