package main

// instrument: scheduling points for the schedule explorer (added later in this file's history).
func instrument(repo, hooks, out string, replace map[string]string) error { return nil }

func applyMutation(repo, hooks, out, name string, replace map[string]string) error { return nil }
