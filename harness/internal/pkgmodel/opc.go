package pkgmodel

import (
	"archive/zip"
	"bytes"
	"fmt"
	"io"
	"path"
	"sort"
	"strings"
)

// Relationship types.
const (
	RtOfficeDoc = "http://schemas.openxmlformats.org/officeDocument/2006/relationships/officeDocument"
	RtStyles    = "http://schemas.openxmlformats.org/officeDocument/2006/relationships/styles"
	RtImage     = "http://schemas.openxmlformats.org/officeDocument/2006/relationships/image"
	RtHeader    = "http://schemas.openxmlformats.org/officeDocument/2006/relationships/header"
	RtFooter    = "http://schemas.openxmlformats.org/officeDocument/2006/relationships/footer"
	RtNumbering = "http://schemas.openxmlformats.org/officeDocument/2006/relationships/numbering"
	RtFootnotes = "http://schemas.openxmlformats.org/officeDocument/2006/relationships/footnotes"
	RtEndnotes  = "http://schemas.openxmlformats.org/officeDocument/2006/relationships/endnotes"
	RtSettings  = "http://schemas.openxmlformats.org/officeDocument/2006/relationships/settings"
	RtHyperlink = "http://schemas.openxmlformats.org/officeDocument/2006/relationships/hyperlink"
	RtCore      = "http://schemas.openxmlformats.org/package/2006/relationships/metadata/core-properties"
	RtExtended  = "http://schemas.openxmlformats.org/officeDocument/2006/relationships/extended-properties"
	RtTheme     = "http://schemas.openxmlformats.org/officeDocument/2006/relationships/theme"
	RtFontTable = "http://schemas.openxmlformats.org/officeDocument/2006/relationships/fontTable"
	RtCustomXML = "http://schemas.openxmlformats.org/officeDocument/2006/relationships/customXml"

	CtMain = "application/vnd.openxmlformats-officedocument.wordprocessingml.document.main+xml"
)

// Rel is one relationship.
type Rel struct {
	ID, Type, Target, Mode string
	Resolved               string // part name the target resolves to (internal only)
}

// Pkg is a parsed package.
type Pkg struct {
	Names    []string          // entry names in archive order
	Parts    map[string][]byte // by name (last wins on duplicates)
	Dups     []string
	XML      map[string]*Node    // parsed XML parts
	XMLProbs map[string][]string // well-formedness problems per XML part
	Defaults map[string]string   // lower-case extension -> content type
	Override map[string]string   // lower-case part name (leading /) -> content type
	Rels     map[string][]Rel    // rels part name -> relationships
	ZipErr   string
}

func isXMLName(name string) bool {
	l := strings.ToLower(name)
	return strings.HasSuffix(l, ".xml") || strings.HasSuffix(l, ".rels")
}

// Read parses a package from bytes.
func Read(data []byte) *Pkg { return ReadFiltered(data, nil) }

// ReadFiltered is Read, except that XML parts for which parse(name) is false are kept as
// bytes only (not parsed, not checked for well-formedness).  parse == nil parses everything.
func ReadFiltered(data []byte, parse func(name string) bool) *Pkg {
	p := &Pkg{Parts: map[string][]byte{}, XML: map[string]*Node{}, XMLProbs: map[string][]string{}, Defaults: map[string]string{}, Override: map[string]string{}, Rels: map[string][]Rel{}}
	zr, err := zip.NewReader(bytes.NewReader(data), int64(len(data)))
	if err != nil {
		p.ZipErr = err.Error()
		return p
	}
	for _, f := range zr.File {
		rc, err := f.Open()
		if err != nil {
			p.ZipErr = fmt.Sprintf("entry %q: %v", f.Name, err)
			return p
		}
		b, err := io.ReadAll(rc)
		rc.Close()
		if err != nil {
			p.ZipErr = fmt.Sprintf("entry %q: %v", f.Name, err)
			return p
		}
		if _, dup := p.Parts[f.Name]; dup {
			p.Dups = append(p.Dups, f.Name)
		}
		p.Names = append(p.Names, f.Name)
		p.Parts[f.Name] = b
	}
	for name, b := range p.Parts {
		if strings.HasSuffix(name, "/") {
			continue
		}
		if isXMLName(name) && (parse == nil || parse(name)) {
			root, probs := ParseXML(b)
			if len(probs) > 0 {
				p.XMLProbs[name] = probs
			}
			if root != nil {
				p.XML[name] = root
			}
		}
	}
	if ct := p.XML["[Content_Types].xml"]; ct != nil {
		for _, d := range ct.Children(NsCT, "Default") {
			e, _ := d.Attr("", "Extension")
			c, _ := d.Attr("", "ContentType")
			p.Defaults[strings.ToLower(e)] = c
		}
		for _, o := range ct.Children(NsCT, "Override") {
			n, _ := o.Attr("", "PartName")
			c, _ := o.Attr("", "ContentType")
			p.Override[strings.ToLower(n)] = c
		}
	}
	for name, root := range p.XML {
		if !strings.HasSuffix(name, ".rels") {
			continue
		}
		var rels []Rel
		for _, r := range root.Children(NsRel, "Relationship") {
			var rel Rel
			rel.ID, _ = r.Attr("", "Id")
			rel.Type, _ = r.Attr("", "Type")
			rel.Target, _ = r.Attr("", "Target")
			rel.Mode, _ = r.Attr("", "TargetMode")
			if rel.Mode != "External" {
				rel.Resolved = ResolveTarget(name, rel.Target)
			}
			rels = append(rels, rel)
		}
		p.Rels[name] = rels
	}
	return p
}

// OwnerOfRels returns the part a rels part belongs to ("" for the package root).
func OwnerOfRels(relsName string) string {
	dir, file := path.Split(relsName) // e.g. "word/_rels/", "document.xml.rels"
	dir = strings.TrimSuffix(dir, "/")
	base := strings.TrimSuffix(dir, "_rels")
	base = strings.TrimSuffix(base, "/")
	file = strings.TrimSuffix(file, ".rels")
	if file == "" {
		return ""
	}
	if base == "" {
		return file
	}
	return base + "/" + file
}

// RelsNameFor returns the name of the rels part of a part ("" = package root).
func RelsNameFor(part string) string {
	if part == "" {
		return "_rels/.rels"
	}
	dir, file := path.Split(part)
	return dir + "_rels/" + file + ".rels"
}

// ResolveTarget resolves a relationship target relative to the owner of relsName.
func ResolveTarget(relsName, target string) string {
	if strings.HasPrefix(target, "/") {
		return strings.TrimPrefix(path.Clean(target), "/")
	}
	owner := OwnerOfRels(relsName)
	dir, _ := path.Split(owner)
	return strings.TrimPrefix(path.Clean(dir+target), "/")
}

// ContentTypeOf returns the content type of a part, "" if none.
func (p *Pkg) ContentTypeOf(name string) string {
	if c, ok := p.Override["/"+strings.ToLower(name)]; ok {
		return c
	}
	ext := ""
	base := path.Base(name)
	if i := strings.LastIndex(base, "."); i >= 0 {
		ext = strings.ToLower(base[i+1:])
	} else {
		return ""
	}
	return p.Defaults[ext]
}

// Problem is a violated clause with a culprit, used to build signatures.
type Problem struct {
	Clause  string
	Culprit string
	Detail  string
}

func (p Problem) String() string { return p.Clause + "|" + p.Culprit + ": " + p.Detail }

func legalPartName(n string) bool {
	if n == "" || strings.HasPrefix(n, "/") || strings.Contains(n, "\\") || strings.HasSuffix(n, "/") {
		return false
	}
	for _, seg := range strings.Split(n, "/") {
		if seg == "" || seg == "." || seg == ".." || strings.HasSuffix(seg, ".") {
			return false
		}
	}
	// OPC part names are URIs: no spaces, no control characters, no '?', '#', '%' un-escaped... we
	// only insist on what every consumer needs: printable and free of URI delimiters.
	for _, r := range n {
		if r < 0x21 || r == 0x7f || r == '?' || r == '#' || r == '"' || r == '<' || r == '>' || r == '|' || r == '*' || r == ':' {
			return false
		}
	}
	return true
}

// extClass reduces a media/part name to a stable culprit (extension class).
func extClass(name string) string {
	base := path.Base(name)
	i := strings.LastIndex(base, ".")
	if i < 0 {
		return "noext"
	}
	e := base[i:]
	if len(e) > 12 {
		e = e[:12]
	}
	return e
}

// partClass gives a stable name for a part: numbers are replaced by N.
func PartClass(name string) string {
	var b strings.Builder
	prevDigit := false
	for _, r := range name {
		if r >= '0' && r <= '9' {
			if !prevDigit {
				b.WriteByte('N')
			}
			prevDigit = true
			continue
		}
		prevDigit = false
		b.WriteRune(r)
	}
	return b.String()
}

// CheckWellFormed evaluates the C01 invariant.
func (p *Pkg) CheckWellFormed() []Problem {
	var out []Problem
	if p.ZipErr != "" {
		return []Problem{{"zip-unreadable", "archive", p.ZipErr}}
	}
	for _, d := range p.Dups {
		out = append(out, Problem{"zip-duplicate-entry", PartClass(d), d})
	}
	names := append([]string{}, p.Names...)
	sort.Strings(names)
	lower := map[string]string{}
	for _, n := range names {
		if !legalPartName(n) {
			out = append(out, Problem{"illegal-part-name", extClassOrDir(n), fmt.Sprintf("%q", n)})
		}
		l := strings.ToLower(n)
		if o, ok := lower[l]; ok && o != n {
			out = append(out, Problem{"part-names-differ-only-by-case", PartClass(l), o + " vs " + n})
		}
		lower[l] = n
	}
	for _, n := range names {
		if probs, ok := p.XMLProbs[n]; ok {
			out = append(out, Problem{"xml-not-well-formed", PartClass(n), strings.Join(probs, "; ")})
		}
	}
	if _, ok := p.Parts["[Content_Types].xml"]; !ok {
		out = append(out, Problem{"missing-part", "[Content_Types].xml", ""})
	} else if r := p.XML["[Content_Types].xml"]; r == nil || r.Space != NsCT || r.Local != "Types" {
		out = append(out, Problem{"wrong-root", "[Content_Types].xml", ""})
	}
	if _, ok := p.Parts["_rels/.rels"]; !ok {
		out = append(out, Problem{"missing-part", "_rels/.rels", ""})
	} else if r := p.XML["_rels/.rels"]; r == nil || r.Space != NsRel || r.Local != "Relationships" {
		out = append(out, Problem{"wrong-root", "_rels/.rels", ""})
	}
	var mains []Rel
	for _, r := range p.Rels["_rels/.rels"] {
		if r.Type == RtOfficeDoc {
			mains = append(mains, r)
		}
	}
	if len(mains) != 1 {
		out = append(out, Problem{"main-document-relationship-count", fmt.Sprint(len(mains)), "expected exactly one officeDocument relationship"})
	} else {
		m := mains[0]
		if _, ok := p.Parts[m.Resolved]; !ok {
			out = append(out, Problem{"main-document-missing", m.Target, "target not in package"})
		} else {
			if ct := p.ContentTypeOf(m.Resolved); !strings.Contains(ct, "wordprocessingml.document.main+xml") && !strings.Contains(ct, "wordprocessingml.template.main+xml") {
				out = append(out, Problem{"main-document-content-type", ct, m.Resolved})
			}
			if r := p.XML[m.Resolved]; r == nil || r.Local != "document" {
				out = append(out, Problem{"main-document-root", m.Resolved, "root is not w:document"})
			}
		}
	}
	for _, n := range names {
		if n == "[Content_Types].xml" || strings.HasSuffix(n, "/") {
			continue
		}
		if p.ContentTypeOf(n) == "" {
			out = append(out, Problem{"no-content-type", extClass(n), n})
		}
	}
	return out
}

func extClassOrDir(n string) string {
	if strings.HasSuffix(n, "/") {
		return "dir"
	}
	return extClass(n)
}

// MainPart returns the name of the main document part ("" if none).
func (p *Pkg) MainPart() string {
	for _, r := range p.Rels["_rels/.rels"] {
		if r.Type == RtOfficeDoc {
			return r.Resolved
		}
	}
	return ""
}

// Body returns w:body of the main part.
func (p *Pkg) Body() *Node {
	m := p.XML[p.MainPart()]
	if m == nil {
		return nil
	}
	return m.Child(m.Space, "body")
}

// relTypeOwner says on which owner a relationship type belongs: "main", "root", or "" (any).
func relTypeOwner(t string) string {
	switch t {
	case RtOfficeDoc, RtCore, RtExtended:
		return "root"
	case RtStyles, RtImage, RtHeader, RtFooter, RtNumbering, RtFootnotes, RtEndnotes, RtSettings, RtTheme, RtFontTable:
		return "doc"
	}
	return ""
}

func shortType(t string) string {
	if i := strings.LastIndex(t, "/"); i >= 0 {
		return t[i+1:]
	}
	return t
}

// CheckRelationships evaluates the C02 invariant.
func (p *Pkg) CheckRelationships() []Problem {
	var out []Problem
	if p.ZipErr != "" {
		return []Problem{{"zip-unreadable", "archive", p.ZipErr}}
	}
	main := p.MainPart()
	relNames := make([]string, 0, len(p.Rels))
	for n := range p.Rels {
		relNames = append(relNames, n)
	}
	sort.Strings(relNames)
	for _, rn := range relNames {
		owner := OwnerOfRels(rn)
		ownerClass := PartClass(owner)
		if owner == "" {
			ownerClass = "root"
		} else if _, ok := p.Parts[owner]; !ok {
			out = append(out, Problem{"rels-owner-missing", PartClass(rn), owner})
		}
		seen := map[string]bool{}
		for _, r := range p.Rels[rn] {
			if r.ID == "" {
				out = append(out, Problem{"rel-id-empty", ownerClass + "|" + shortType(r.Type), rn})
			}
			if seen[r.ID] {
				out = append(out, Problem{"rel-id-duplicate", ownerClass + "|" + shortType(r.Type), fmt.Sprintf("%s in %s", r.ID, rn)})
			}
			seen[r.ID] = true
			if r.Mode != "External" {
				if _, ok := p.Parts[r.Resolved]; !ok {
					out = append(out, Problem{"rel-target-missing", ownerClass + "|" + shortType(r.Type), fmt.Sprintf("%s %s -> %s (resolved %s) in %s", r.ID, shortType(r.Type), r.Target, r.Resolved, rn)})
				}
			}
			want := relTypeOwner(r.Type)
			switch want {
			case "root":
				if owner != "" {
					out = append(out, Problem{"rel-wrong-owner", ownerClass + "|" + shortType(r.Type), rn})
				}
			case "doc":
				if owner == "" {
					out = append(out, Problem{"rel-wrong-owner", ownerClass + "|" + shortType(r.Type), rn})
				} else if r.Type != RtImage && owner != main && !strings.HasSuffix(p.ContentTypeOf(owner), "document.glossary+xml") {
					// (a glossary document is a document of its own and owns its styles/settings/... relationships)
					out = append(out, Problem{"rel-wrong-owner", ownerClass + "|" + shortType(r.Type), rn})
				}
			}
		}
	}
	// references inside XML parts
	partNames := make([]string, 0, len(p.XML))
	for n := range p.XML {
		partNames = append(partNames, n)
	}
	sort.Strings(partNames)
	for _, pn := range partNames {
		if strings.HasSuffix(pn, ".rels") || pn == "[Content_Types].xml" {
			continue
		}
		root := p.XML[pn]
		rels := p.Rels[RelsNameFor(pn)]
		byID := map[string][]Rel{}
		for _, r := range rels {
			byID[r.ID] = append(byID[r.ID], r)
		}
		check := func(kind, id, wantType string) {
			rs := byID[id]
			cl := PartClass(pn) + "|" + kind
			if len(rs) == 0 {
				out = append(out, Problem{"ref-unresolved", cl, fmt.Sprintf("%s=%q has no relationship in %s", kind, id, RelsNameFor(pn))})
				return
			}
			for _, r := range rs {
				if r.Type != wantType {
					out = append(out, Problem{"ref-wrong-type", cl, fmt.Sprintf("%s=%q resolves to %s", kind, id, shortType(r.Type))})
				} else if r.Mode != "External" {
					if _, ok := p.Parts[r.Resolved]; !ok {
						out = append(out, Problem{"ref-target-missing", cl, fmt.Sprintf("%s=%q -> %s", kind, id, r.Resolved)})
					}
				}
			}
		}
		root.Walk(func(n *Node) {
			switch {
			case n.Space == NsW && n.Local == "headerReference":
				id, _ := n.Attr(NsR, "id")
				check("headerReference", id, RtHeader)
			case n.Space == NsW && n.Local == "footerReference":
				id, _ := n.Attr(NsR, "id")
				check("footerReference", id, RtFooter)
			case n.Space == NsA && n.Local == "blip":
				if id, ok := n.Attr(NsR, "embed"); ok {
					check("blip-embed", id, RtImage)
				}
			case n.Space == NsW && n.Local == "hyperlink":
				if id, ok := n.Attr(NsR, "id"); ok {
					check("hyperlink", id, RtHyperlink)
				}
			}
		})
		// parts that are used by the main part must be reachable through a relationship of the main part
	}
	// a part the main document uses by id (numbering through w:numId, notes through
	// w:footnoteReference / w:endnoteReference) must be attached to the main part
	if main != "" && p.XML[main] != nil {
		have := map[string]bool{}
		for _, r := range p.Rels[RelsNameFor(main)] {
			have[r.Type] = true
		}
		uses := map[string]bool{}
		p.XML[main].Walk(func(n *Node) {
			if n.Space != NsW {
				return
			}
			switch n.Local {
			case "numId":
				if v := n.AttrW("val"); v != "" && v != "0" {
					uses[RtNumbering] = true
				}
			case "footnoteReference":
				uses[RtFootnotes] = true
			case "endnoteReference":
				uses[RtEndnotes] = true
			}
		})
		for _, t := range []string{RtNumbering, RtFootnotes, RtEndnotes} {
			if uses[t] && !have[t] {
				out = append(out, Problem{"used-part-not-attached", shortType(t), "the main part uses " + shortType(t) + " by id but has no relationship of that type"})
			}
		}
	}
	return out
}

// CanonPackage returns part name -> canonical content (XML canonicalised, other parts hashed), masking timestamps.
func (p *Pkg) CanonPackage() map[string]string {
	out := map[string]string{}
	for n, b := range p.Parts {
		if root, ok := p.XML[n]; ok && len(p.XMLProbs[n]) == 0 {
			if strings.HasPrefix(n, "docProps/") {
				root = maskTimes(root)
			}
			out[n] = Canon(root, IDKeyed)
		} else {
			out[n] = "raw:" + fmt.Sprintf("%x", b)
		}
	}
	return out
}

func maskTimes(n *Node) *Node {
	c := *n
	c.Kids = nil
	for _, k := range n.Kids {
		if k.IsText {
			kk := *k
			if n.Local == "created" || n.Local == "modified" {
				kk.Text = "MASKED"
			}
			c.Kids = append(c.Kids, &kk)
		} else {
			c.Kids = append(c.Kids, maskTimes(k))
		}
	}
	return &c
}

// CanonString flattens CanonPackage deterministically.
func (p *Pkg) CanonString() string {
	m := p.CanonPackage()
	names := make([]string, 0, len(m))
	for n := range m {
		names = append(names, n)
	}
	sort.Strings(names)
	var b strings.Builder
	for _, n := range names {
		b.WriteString("== " + n + "\n" + m[n] + "\n")
	}
	return b.String()
}
