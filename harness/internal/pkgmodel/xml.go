// Package pkgmodel is an independent reader of OOXML packages: ZIP container,
// strict namespace-aware XML well-formedness, OPC content types and
// relationships, and a generic element tree used as the body model.  It shares
// no code with the library under test.
package pkgmodel

import (
	"bytes"
	"encoding/xml"
	"fmt"
	"io"
	"sort"
	"strings"
	"unicode/utf8"
)

// Namespace URIs.
const (
	NsW    = "http://schemas.openxmlformats.org/wordprocessingml/2006/main"
	NsR    = "http://schemas.openxmlformats.org/officeDocument/2006/relationships"
	NsRel  = "http://schemas.openxmlformats.org/package/2006/relationships"
	NsCT   = "http://schemas.openxmlformats.org/package/2006/content-types"
	NsA    = "http://schemas.openxmlformats.org/drawingml/2006/main"
	NsWP   = "http://schemas.openxmlformats.org/drawingml/2006/wordprocessingDrawing"
	NsPic  = "http://schemas.openxmlformats.org/drawingml/2006/picture"
	NsM    = "http://schemas.openxmlformats.org/officeDocument/2006/math"
	NsXML  = "http://www.w3.org/XML/1998/namespace"
	NsNone = ""
)

// Attr is a resolved attribute.
type Attr struct {
	Space, Local, Val string
}

// Node is an element (or a text node when IsText).
type Node struct {
	Space, Local string
	Attrs        []Attr
	Kids         []*Node
	IsText       bool
	Text         string
	Parent       *Node `json:"-"`
	rawName      string
}

// Attr returns the value of the attribute and whether it is present.
func (n *Node) Attr(space, local string) (string, bool) {
	for _, a := range n.Attrs {
		if a.Local == local && a.Space == space {
			return a.Val, true
		}
	}
	return "", false
}

// AttrW returns w:<local> (or the un-namespaced attribute of that name).
func (n *Node) AttrW(local string) string {
	if v, ok := n.Attr(NsW, local); ok {
		return v
	}
	v, _ := n.Attr("", local)
	return v
}

// Elems returns the element children.
func (n *Node) Elems() []*Node {
	var out []*Node
	for _, k := range n.Kids {
		if !k.IsText {
			out = append(out, k)
		}
	}
	return out
}

// Child returns the first child element with that name.
func (n *Node) Child(space, local string) *Node {
	for _, k := range n.Kids {
		if !k.IsText && k.Local == local && k.Space == space {
			return k
		}
	}
	return nil
}

// Children returns all child elements with that name.
func (n *Node) Children(space, local string) []*Node {
	var out []*Node
	for _, k := range n.Kids {
		if !k.IsText && k.Local == local && k.Space == space {
			out = append(out, k)
		}
	}
	return out
}

// Walk visits every element in document order.
func (n *Node) Walk(f func(*Node)) {
	if n == nil {
		return
	}
	if !n.IsText {
		f(n)
	}
	for _, k := range n.Kids {
		k.Walk(f)
	}
}

// Find returns all descendant elements (including n) with that name, in document order.
func (n *Node) Find(space, local string) []*Node {
	var out []*Node
	n.Walk(func(m *Node) {
		if m.Local == local && m.Space == space {
			out = append(out, m)
		}
	})
	return out
}

// InnerText concatenates all descendant character data.
func (n *Node) InnerText() string {
	var b strings.Builder
	var rec func(*Node)
	rec = func(m *Node) {
		if m.IsText {
			b.WriteString(m.Text)
			return
		}
		for _, k := range m.Kids {
			rec(k)
		}
	}
	rec(n)
	return b.String()
}

// WText concatenates the text of all w:t descendants in document order.
func (n *Node) WText() string {
	var b strings.Builder
	for _, t := range n.Find(NsW, "t") {
		b.WriteString(t.InnerText())
	}
	return b.String()
}

func isXMLChar(r rune) bool {
	return r == 0x09 || r == 0x0A || r == 0x0D ||
		r >= 0x20 && r <= 0xD7FF ||
		r >= 0xE000 && r <= 0xFFFD ||
		r >= 0x10000 && r <= 0x10FFFF
}

func isNameStart(r rune) bool {
	return r == '_' || r == ':' || r >= 'a' && r <= 'z' || r >= 'A' && r <= 'Z' || r >= 0xC0 && r != 0xD7 && r != 0xF7
}

func validName(s string) bool {
	if s == "" {
		return false
	}
	for i, r := range s {
		if i == 0 {
			if !isNameStart(r) {
				return false
			}
			continue
		}
		if !(isNameStart(r) || r == '-' || r == '.' || r >= '0' && r <= '9' || r == 0xB7) {
			return false
		}
	}
	return true
}

// ParseXML parses data strictly.  problems is empty iff data is a
// namespace-well-formed XML document with exactly one root element.
func ParseXML(data []byte) (root *Node, problems []string) {
	add := func(f string, a ...interface{}) {
		if len(problems) < 8 {
			problems = append(problems, fmt.Sprintf(f, a...))
		}
	}
	if len(data) == 0 {
		add("empty document")
		return nil, problems
	}
	if !utf8.Valid(data) {
		// encoding/xml would also complain, but say it explicitly
		add("invalid UTF-8")
	}
	for _, r := range string(data) {
		if r != utf8.RuneError && !isXMLChar(r) {
			add("illegal XML character U+%04X", r)
			break
		}
	}
	dec := xml.NewDecoder(bytes.NewReader(data))
	dec.Strict = true
	type scope map[string]string
	nsStack := []scope{{"xml": NsXML}}
	lookup := func(prefix string) (string, bool) {
		for i := len(nsStack) - 1; i >= 0; i-- {
			if v, ok := nsStack[i][prefix]; ok {
				return v, true
			}
		}
		if prefix == "" {
			return "", true
		}
		return "", false
	}
	var cur *Node
	roots := 0
	for {
		tok, err := dec.RawToken()
		if err == io.EOF {
			break
		}
		if err != nil {
			add("syntax: %v", err)
			return root, problems
		}
		switch t := tok.(type) {
		case xml.StartElement:
			sc := scope{}
			for _, a := range t.Attr {
				if a.Name.Space == "xmlns" {
					sc[a.Name.Local] = a.Value
					if a.Value == "" {
						add("empty namespace for prefix %q", a.Name.Local)
					}
				} else if a.Name.Space == "" && a.Name.Local == "xmlns" {
					sc[""] = a.Value
				}
			}
			nsStack = append(nsStack, sc)
			n := &Node{Local: t.Name.Local, Parent: cur, rawName: t.Name.Space + ":" + t.Name.Local}
			if !validName(t.Name.Local) || (t.Name.Space != "" && !validName(t.Name.Space)) {
				add("invalid element name %q:%q", t.Name.Space, t.Name.Local)
			}
			uri, ok := lookup(t.Name.Space)
			if !ok {
				add("undeclared prefix %q on element %s", t.Name.Space, t.Name.Local)
			}
			n.Space = uri
			seen := map[string]bool{}
			rawSeen := map[string]bool{}
			for _, a := range t.Attr {
				raw := a.Name.Space + ":" + a.Name.Local
				if rawSeen[raw] {
					add("duplicate attribute %s on %s", raw, t.Name.Local)
				}
				rawSeen[raw] = true
				if a.Name.Space == "xmlns" || (a.Name.Space == "" && a.Name.Local == "xmlns") {
					continue
				}
				if !validName(a.Name.Local) {
					add("invalid attribute name %q", a.Name.Local)
				}
				auri := ""
				if a.Name.Space != "" {
					u, ok := lookup(a.Name.Space)
					if !ok {
						add("undeclared prefix %q on attribute %s", a.Name.Space, a.Name.Local)
					}
					auri = u
				}
				k := auri + "\x00" + a.Name.Local
				if seen[k] {
					add("duplicate attribute {%s}%s on %s", auri, a.Name.Local, t.Name.Local)
				}
				seen[k] = true
				n.Attrs = append(n.Attrs, Attr{auri, a.Name.Local, a.Value})
			}
			if cur == nil {
				roots++
				if roots == 1 {
					root = n
				} else {
					add("more than one root element")
				}
			} else {
				cur.Kids = append(cur.Kids, n)
			}
			cur = n
		case xml.EndElement:
			if cur == nil {
				add("end element without start")
				return root, problems
			}
			if cur.rawName != t.Name.Space+":"+t.Name.Local {
				add("end tag %s:%s does not match start tag %s", t.Name.Space, t.Name.Local, cur.rawName)
				return root, problems
			}
			nsStack = nsStack[:len(nsStack)-1]
			cur = cur.Parent
		case xml.CharData:
			if cur == nil {
				if strings.TrimSpace(string(t)) != "" {
					add("character data outside the root element")
				}
				continue
			}
			s := string(t)
			if n := len(cur.Kids); n > 0 && cur.Kids[n-1].IsText {
				cur.Kids[n-1].Text += s
			} else {
				cur.Kids = append(cur.Kids, &Node{IsText: true, Text: s, Parent: cur})
			}
		case xml.Comment, xml.ProcInst, xml.Directive:
		}
	}
	if cur != nil {
		add("unclosed element %s", cur.Local)
	}
	if roots == 0 {
		add("no root element")
	}
	return root, problems
}

// text-bearing elements whose character data is significant verbatim
func verbatimText(n *Node) bool {
	switch n.Local {
	case "t", "instrText", "delText":
		return n.Space == NsW || n.Space == NsM
	}
	return false
}

// Canon returns a canonical string for the tree rooted at n.  sortKids, when
// non-nil, says for an element whether its children are an id-keyed unordered
// container and gives the sort key of a child.
func Canon(n *Node, sortKey func(parent, child *Node) (string, bool)) string {
	var b strings.Builder
	canonInto(&b, n, sortKey)
	return b.String()
}

func canonInto(b *strings.Builder, n *Node, sortKey func(parent, child *Node) (string, bool)) {
	if n == nil {
		return
	}
	if n.IsText {
		b.WriteString("#")
		b.WriteString(fmt.Sprintf("%q", n.Text))
		return
	}
	b.WriteString("<{")
	b.WriteString(n.Space)
	b.WriteString("}")
	b.WriteString(n.Local)
	attrs := append([]Attr{}, n.Attrs...)
	sort.Slice(attrs, func(i, j int) bool {
		if attrs[i].Space != attrs[j].Space {
			return attrs[i].Space < attrs[j].Space
		}
		return attrs[i].Local < attrs[j].Local
	})
	for _, a := range attrs {
		fmt.Fprintf(b, " {%s}%s=%q", a.Space, a.Local, a.Val)
	}
	b.WriteString(">")
	hasElem := false
	for _, k := range n.Kids {
		if !k.IsText {
			hasElem = true
		}
	}
	var parts []string
	var keys []string
	sorted := false
	for _, k := range n.Kids {
		if k.IsText {
			if hasElem && strings.TrimSpace(k.Text) == "" && !verbatimText(n) {
				continue // indentation between elements
			}
			if !hasElem && !verbatimText(n) && strings.TrimSpace(k.Text) == "" {
				continue
			}
		}
		var sb strings.Builder
		canonInto(&sb, k, sortKey)
		parts = append(parts, sb.String())
		if sortKey != nil && !k.IsText {
			if key, ok := sortKey(n, k); ok {
				keys = append(keys, key)
				sorted = true
				continue
			}
		}
		keys = append(keys, "")
	}
	if sorted {
		idx := make([]int, len(parts))
		for i := range idx {
			idx[i] = i
		}
		sort.SliceStable(idx, func(i, j int) bool {
			a, c := idx[i], idx[j]
			if keys[a] != keys[c] {
				return keys[a] < keys[c]
			}
			return parts[a] < parts[c]
		})
		np := make([]string, len(parts))
		for i, j := range idx {
			np[i] = parts[j]
		}
		parts = np
	}
	for _, p := range parts {
		b.WriteString(p)
	}
	b.WriteString("</>")
}

// IDKeyed is the standard sort rule: children of w:styles, w:numbering,
// w:footnotes, w:endnotes, Types and Relationships are resolved by id, never by
// position.
func IDKeyed(parent, child *Node) (string, bool) {
	switch {
	case parent.Space == NsW && parent.Local == "styles" && child.Local == "style":
		return "style:" + child.AttrW("type") + ":" + child.AttrW("styleId"), true
	case parent.Space == NsW && parent.Local == "numbering" && (child.Local == "abstractNum" || child.Local == "num"):
		// abstractNum elements must precede num elements; keep that grouping
		if child.Local == "abstractNum" {
			return "a:" + pad(child.AttrW("abstractNumId")), true
		}
		return "n:" + pad(child.AttrW("numId")), true
	case parent.Space == NsW && (parent.Local == "footnotes" || parent.Local == "endnotes"):
		return "note:" + pad(child.AttrW("id")), true
	case parent.Space == NsCT && parent.Local == "Types":
		if child.Local == "Default" {
			v, _ := child.Attr("", "Extension")
			return "d:" + strings.ToLower(v), true
		}
		v, _ := child.Attr("", "PartName")
		return "o:" + v, true
	case parent.Space == NsRel && parent.Local == "Relationships":
		v, _ := child.Attr("", "Id")
		return "r:" + v, true
	}
	return "", false
}

func pad(s string) string {
	if len(s) < 8 {
		return strings.Repeat("0", 8-len(s)) + s
	}
	return s
}
