// Package schedx is a cooperative scheduler plus a deviation-bounded depth-first
// exploration of thread schedules of the real implementation.
//
// Harness threads are goroutines of which exactly one is runnable at any time.
// The library, built with the verif overlay, calls vsync.Hook before every lock
// operation and at every instrumented source location; the hook parks the calling
// thread and hands control to the scheduler, which chooses the next thread from
// the enabled set in canonical order (the running thread first if it is still
// enabled, then ascending ids).  Lock state is modelled: a thread whose pending
// operation is Lock on a held mutex (or RLock with a writer inside) is not
// enabled.  "No enabled thread, not all finished" is a deadlock.
//
// Explore enumerates every schedule with at most `bound` preemptions (a switch
// away from a thread that is still enabled); every execution starts from a fresh
// state built by the scenario and runs to completion.
package schedx

import (
	"fmt"
	"runtime/debug"
	"strings"
	"time"

	"github.com/zerx-lab/wordZero/pkg/vsync"
)

// Op is a pending operation of a parked thread.
type Op struct {
	Kind string // start | point | lock | unlock | rlock | runlock
	Obj  uintptr
	Site string
}

type thread struct {
	id      int
	body    func()
	resume  chan struct{}
	pending Op
	done    bool
	Panic   string
	steps   int
}

type lockState struct {
	writer  int // thread id or -1
	readers map[int]int
}

// Point is one scheduling decision of an execution.
type Point struct {
	Enabled             []int
	Choice              int
	RunningStillEnabled bool
	Op                  Op // operation the chosen thread was parked at
}

// Result is what one execution produced.
type Result struct {
	Points   []Point
	Choices  []int
	Deadlock bool
	Horizon  bool
	Hang     bool
	Panics   map[int]string
	Trace    []string // "t<id>:<kind>@<site>" per step (only when tracing)
}

type exec struct {
	threads []*thread
	cur     *thread
	yield   chan *thread
	locks   map[uintptr]*lockState
	active  bool
	filter  func(site string) bool
}

var current *exec

func hook(kind string, obj uintptr, site string) {
	e := current
	if e == nil || !e.active || e.cur == nil {
		return
	}
	if kind == "point" && e.filter != nil && !e.filter(site) {
		return
	}
	t := e.cur
	t.pending = Op{kind, obj, site}
	e.yield <- t
	<-t.resume
}

// Yield is a scheduling point placed by the harness itself (between two calls of a thread body).
// Its site ends in ":0", so it belongs to the coarse (function-level) point set too.
func Yield(site string) { hook("point", 0, "harness:"+site+":0") }

// Install sets the library hook.  Call once before any exploration.
func Install() { vsync.Hook = hook }

func (e *exec) enabledOp(t *thread) bool {
	switch t.pending.Kind {
	case "lock":
		ls := e.locks[t.pending.Obj]
		return ls == nil || (ls.writer == -1 && len(ls.readers) == 0)
	case "rlock":
		ls := e.locks[t.pending.Obj]
		return ls == nil || ls.writer == -1
	}
	return true
}

func (e *exec) apply(t *thread) {
	op := t.pending
	ls := e.locks[op.Obj]
	if ls == nil && (op.Kind == "lock" || op.Kind == "rlock" || op.Kind == "unlock" || op.Kind == "runlock") {
		ls = &lockState{writer: -1, readers: map[int]int{}}
		e.locks[op.Obj] = ls
	}
	switch op.Kind {
	case "lock":
		ls.writer = t.id
	case "unlock":
		ls.writer = -1
	case "rlock":
		ls.readers[t.id]++
	case "runlock":
		ls.readers[t.id]--
		if ls.readers[t.id] <= 0 {
			delete(ls.readers, t.id)
		}
	}
}

// Options of one exploration.
type Options struct {
	Bound    int                    // maximum number of preemptions
	Horizon  int                    // maximum scheduling steps per execution
	Filter   func(site string) bool // which instrumented locations are scheduling points (nil = all)
	Deadline time.Time
	Trace    bool
	StepWait time.Duration // watchdog for one step (a thread that never reaches its next point)
	MaxExec  int64         // stop (incomplete) after this many executions; 0 = no cap
	Progress func()        // called after every execution (heartbeat)
}

// Scenario builds a fresh system for one execution: it returns the thread bodies
// and a function that judges the finished execution.
type Scenario func() (threads []func(), finish func(r *Result))

// ErrDivergence is returned when replaying a prefix meets a different enabled set.
type ErrDivergence struct{ Msg string }

func (e ErrDivergence) Error() string { return e.Msg }

// RunOne executes one schedule: prefix gives the choices (indices into the
// canonical enabled list) of the first len(prefix) points, 0 afterwards.
func RunOne(sc Scenario, prefix []int, o Options) (*Result, error) {
	bodies, finish := sc()
	e := &exec{yield: make(chan *thread), locks: map[uintptr]*lockState{}, filter: o.Filter}
	res := &Result{Panics: map[int]string{}}
	for i, b := range bodies {
		t := &thread{id: i, body: b, resume: make(chan struct{}), pending: Op{Kind: "start"}}
		e.threads = append(e.threads, t)
		go func(t *thread) {
			<-t.resume
			defer func() {
				if r := recover(); r != nil {
					t.Panic = fmt.Sprintf("%v", r)
					for _, l := range strings.Split(string(debug.Stack()), "\n") {
						if strings.Contains(l, "wordZero/pkg/") && strings.Contains(l, ".go:") {
							t.Panic += " @ " + strings.TrimSpace(l)
							break
						}
					}
				}
				t.done = true
				e.yield <- t
			}()
			t.body()
		}(t)
	}
	if o.Horizon == 0 {
		o.Horizon = 100000
	}
	if o.StepWait == 0 {
		o.StepWait = 60 * time.Second
	}
	current = e
	e.active = true
	running := -1
	defer func() { e.active = false; current = nil }()
	for step := 0; ; step++ {
		var enabled []*thread
		allDone := true
		for _, t := range e.threads {
			if !t.done {
				allDone = false
				if e.enabledOp(t) {
					enabled = append(enabled, t)
				}
			}
		}
		if allDone {
			break
		}
		if len(enabled) == 0 {
			res.Deadlock = true
			break
		}
		if step >= o.Horizon {
			res.Horizon = true
			break
		}
		// canonical order: running thread first if still enabled
		still := false
		for i, t := range enabled {
			if t.id == running {
				still = true
				copy(enabled[1:i+1], enabled[0:i])
				enabled[0] = t
				break
			}
		}
		choice := 0
		if len(res.Choices) < len(prefix) {
			choice = prefix[len(res.Choices)]
			if choice < 0 || choice >= len(enabled) {
				return res, ErrDivergence{fmt.Sprintf("replay divergence at point %d: choice %d but %d threads enabled", len(res.Choices), choice, len(enabled))}
			}
		}
		ids := make([]int, len(enabled))
		for i, t := range enabled {
			ids[i] = t.id
		}
		t := enabled[choice]
		res.Points = append(res.Points, Point{Enabled: ids, Choice: choice, RunningStillEnabled: still, Op: t.pending})
		res.Choices = append(res.Choices, choice)
		if o.Trace {
			res.Trace = append(res.Trace, fmt.Sprintf("t%d:%s@%s", t.id, t.pending.Kind, t.pending.Site))
		}
		e.apply(t)
		e.cur = t
		running = t.id
		t.resume <- struct{}{}
		select {
		case <-e.yield:
		case <-time.After(o.StepWait):
			res.Hang = true
			e.cur = nil
			return res, nil // the thread is lost in a loop without scheduling points; the caller treats this as fatal
		}
		e.cur = nil
	}
	e.active = false
	current = nil
	for _, t := range e.threads {
		if t.Panic != "" {
			res.Panics[t.id] = t.Panic
		}
	}
	if finish != nil {
		finish(res)
	}
	return res, nil
}

// Stats of an exploration.
type Stats struct {
	Executions  int64
	Points      int64 // scheduling decisions taken over all executions
	MaxPoints   int   // longest execution
	Branching   int64 // decisions with more than one enabled thread
	Deadlocks   int64
	Incomplete  bool
	Capped      bool // the execution cap was hit
	BoundDone   int
	Divergences []string
}

func preemptionsBefore(r *Result, i int) int {
	c := 0
	for j := 0; j < i; j++ {
		p := r.Points[j]
		if p.RunningStillEnabled && p.Choice != 0 {
			c++
		}
	}
	return c
}

// Explore runs every schedule with at most o.Bound preemptions, bound by bound
// (0, 1, ..., o.Bound) so that the first failing schedule has the fewest
// preemptions.  onExec is called after every execution.
func Explore(sc Scenario, o Options, onExec func(r *Result)) *Stats {
	st := &Stats{BoundDone: -1}
	seen := map[string]bool{} // schedules (as choice strings) already executed at a lower bound
	for bound := 0; bound <= o.Bound; bound++ {
		complete := true
		var rec func(prefix []int)
		rec = func(prefix []int) {
			if !o.Deadline.IsZero() && time.Now().After(o.Deadline) {
				complete = false
				return
			}
			if o.MaxExec > 0 && st.Executions >= o.MaxExec {
				complete = false
				st.Capped = true
				return
			}
			if o.Progress != nil {
				o.Progress()
			}
			key := fmt.Sprint(prefix)
			var r *Result
			var err error
			r, err = RunOne(sc, prefix, o)
			if err != nil {
				st.Divergences = append(st.Divergences, err.Error())
				complete = false
				return
			}
			if !seen[key] {
				seen[key] = true
				st.Executions++
				st.Points += int64(len(r.Points))
				if len(r.Points) > st.MaxPoints {
					st.MaxPoints = len(r.Points)
				}
				for _, p := range r.Points {
					if len(p.Enabled) > 1 {
						st.Branching++
					}
				}
				if r.Deadlock {
					st.Deadlocks++
				}
				if onExec != nil {
					onExec(r)
				}
			}
			if r.Hang {
				complete = false
				return
			}
			for i := len(prefix); i < len(r.Points); i++ {
				p := r.Points[i]
				cost := preemptionsBefore(r, i)
				if p.RunningStillEnabled {
					cost++
				}
				if cost > bound {
					continue
				}
				for alt := 1; alt < len(p.Enabled); alt++ {
					np := append(append([]int{}, r.Choices[:i]...), alt)
					rec(np)
					if !complete && (len(st.Divergences) > 0) {
						return
					}
				}
			}
		}
		rec(nil)
		if !complete {
			st.Incomplete = true
			break
		}
		st.BoundDone = bound
	}
	return st
}
